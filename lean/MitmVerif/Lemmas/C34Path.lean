/-
  C34 — the query and path_components views on the raw request target: reading back what `urlunparse` wrote.
-/
import MitmVerif.Model.C34
import MitmVerif.Lemmas.C33Rest
namespace MitmVerif.C34
open MitmVerif.C33 (partition splitParams lastSlash sfx usesParams partition_sfx partition_fst_notin partition_fst_sub partition_snd_sub
  partition_notin' partition_stop' lastSlash_append lastSlash_snd_notin lastSlash_fst_ends lastSlash_of_parts splitParams_sub)

theorem lastSlash_snd_sub (x : Str) : ∀ c ∈ (lastSlash x).2, c ∈ x := by
  intro c hc
  have := lastSlash_append x
  rw [← this]; exact List.mem_append_right _ hc

theorem lastSlash_append_noslash (x a : Str) (ha : 47 ∉ a) : lastSlash (x ++ a) = ((lastSlash x).1, (lastSlash x).2 ++ a) := by
  have e : x ++ a = (lastSlash x).1 ++ ((lastSlash x).2 ++ a) := by rw [← List.append_assoc, lastSlash_append]
  rw [e]
  apply lastSlash_of_parts _ _ (lastSlash_fst_ends x)
  simp only [List.mem_append, not_or]
  exact ⟨lastSlash_snd_notin x, ha⟩

/-- writing `path ;params` and reading it back -/
theorem splitParams_build (np P : Str) (h59 : 59 ∉ np) (h47 : 47 ∉ P) : splitParams (np ++ sfx 59 P) = (np, P) := by
  have hseg : 59 ∉ (lastSlash np).2 := fun m => h59 (lastSlash_snd_sub np 59 m)
  unfold sfx
  by_cases hP : P = []
  · simp only [hP, if_true, List.append_nil]
    unfold splitParams
    simp [partition_notin' 59 _ hseg]
  · simp only [hP, if_false]
    unfold splitParams
    have h47' : 47 ∉ 59 :: P := by simp only [List.mem_cons, not_or]; exact ⟨by decide, h47⟩
    rw [lastSlash_append_noslash np (59 :: P) h47']
    simp only
    rw [partition_stop' 59 _ P hseg]
    simp [lastSlash_append]

/-- the shape of what `urlparse` returns for a request target -/
structure TargetWF (scheme : Str) (t : Target) : Prop where
  path35 : 35 ∉ t.path
  path63 : 63 ∉ t.path
  params35 : 35 ∉ t.params
  params63 : 63 ∉ t.params
  params47 : 47 ∉ t.params
  query35 : 35 ∉ t.query
  noParams : usesParams scheme = false → t.params = []

theorem targetParts_wf (scheme p : Str) : TargetWF scheme (targetParts scheme p) := by
  unfold targetParts
  simp only
  generalize (if p = [42] then [] else p) = rest
  have hf35 : 35 ∉ (partition 35 rest).1 := partition_fst_notin 35 rest
  have hq63 : 63 ∉ (partition 63 (partition 35 rest).1).1 := partition_fst_notin 63 _
  have hq_sub := partition_fst_sub 63 (partition 35 rest).1
  have hQ_sub := partition_snd_sub 63 (partition 35 rest).1
  by_cases hu : usesParams scheme = true
  · simp only [hu, if_true]
    obtain ⟨s1, s2⟩ := splitParams_sub (partition 63 (partition 35 rest).1).1
    refine ⟨fun m => hf35 (hq_sub _ (s1 _ m)), fun m => hq63 (s1 _ m), fun m => hf35 (hq_sub _ (s2 _ m)), fun m => hq63 (s2 _ m), ?_,
      fun m => hf35 (hQ_sub _ m), fun h => by rw [hu] at h; cases h⟩
    -- the parameters lie after the last '/'
    unfold splitParams
    split
    · intro m
      exact lastSlash_snd_notin _ (partition_snd_sub 59 _ 47 m)
    · simp
  · simp only [hu, Bool.false_eq_true, if_false]
    exact ⟨fun m => hf35 (hq_sub _ m), hq63, by simp, by simp, by simp, fun m => hf35 (hQ_sub _ m), fun _ => rfl⟩

/-- reading back what `urlunparse` wrote: the four parts come back -/
theorem targetParts_unparse (scheme : Str) (t : Target) (wf : TargetWF scheme t) (h59 : 59 ∉ t.path) (hstar : unparseTarget t ≠ [42]) :
    targetParts scheme (unparseTarget t) = t := by
  have sfx_mem : ∀ (c : Nat) (x : Str) (y : Nat), y ∈ sfx c x → y = c ∨ y ∈ x := by
    intro c x y hy
    unfold sfx at hy
    by_cases hx : x = []
    · simp [hx] at hy
    · simp only [hx, if_false, List.mem_cons] at hy; exact hy
  have h35 : 35 ∉ t.path ++ sfx 59 t.params ++ sfx 63 t.query := by
    intro m
    simp only [List.mem_append] at m
    rcases m with (m | m) | m
    · exact wf.path35 m
    · rcases sfx_mem 59 _ _ m with e | e
      · cases e
      · exact wf.params35 e
    · rcases sfx_mem 63 _ _ m with e | e
      · cases e
      · exact wf.query35 e
  have h63 : 63 ∉ t.path ++ sfx 59 t.params := by
    intro m
    simp only [List.mem_append] at m
    rcases m with m | m
    · exact wf.path63 m
    · rcases sfx_mem 59 _ _ m with e | e
      · cases e
      · exact wf.params63 e
  obtain ⟨p1, p2⟩ := partition_sfx 35 _ t.fragment h35
  obtain ⟨p3, p4⟩ := partition_sfx 63 _ t.query h63
  unfold targetParts
  simp only [hstar, if_false]
  unfold unparseTarget
  simp only [p1, p2, p3, p4]
  by_cases hu : usesParams scheme = true
  · simp only [hu, if_true, splitParams_build t.path t.params h59 wf.params47]
  · have hu' : usesParams scheme = false := by simpa using hu
    simp only [hu', Bool.false_eq_true, if_false, wf.noParams hu', sfx, if_true, List.append_nil]
    have := wf.noParams hu'
    cases t; simp_all

/-! ### "/".join and split("/") -/
theorem splitSlash_notin (a : Str) (h : 47 ∉ a) : splitSlash a = [a] := by
  induction a with
  | nil => rfl
  | cons x a ih =>
    have hx : x ≠ 47 := fun e => h (by simp [e])
    have := ih (fun m => h (List.mem_cons_of_mem _ m))
    simp [splitSlash, hx, this]

theorem splitSlash_append (a r : Str) (h : 47 ∉ a) : splitSlash (a ++ 47 :: r) = a :: splitSlash r := by
  induction a with
  | nil => simp [splitSlash]
  | cons x a ih =>
    have hx : x ≠ 47 := fun e => h (by simp [e])
    have := ih (fun m => h (List.mem_cons_of_mem _ m))
    simp [splitSlash, hx, this]

theorem splitSlash_join (qs : List Str) (hne : qs ≠ []) (h : ∀ q ∈ qs, 47 ∉ q) : splitSlash (joinSlash qs) = qs := by
  induction qs with
  | nil => exact absurd rfl hne
  | cons q r ih =>
    cases r with
    | nil => simpa [joinSlash] using splitSlash_notin q (h q (by simp))
    | cons q2 r2 =>
      have : joinSlash (q :: q2 :: r2) = q ++ 47 :: joinSlash (q2 :: r2) := rfl
      rw [this, splitSlash_append q _ (h q (by simp)), ih (by simp) (fun x hx => h x (List.mem_cons_of_mem _ hx))]

theorem joinSlash_mem (qs : List Str) (c : Nat) (hc : c ≠ 47) (h : c ∈ joinSlash qs) : ∃ q ∈ qs, c ∈ q := by
  induction qs with
  | nil => cases h
  | cons q r ih =>
    cases r with
    | nil => exact ⟨q, by simp, by simpa [joinSlash] using h⟩
    | cons q2 r2 =>
      have e : joinSlash (q :: q2 :: r2) = q ++ 47 :: joinSlash (q2 :: r2) := rfl
      rw [e, List.mem_append] at h
      rcases h with h | h
      · exact ⟨q, by simp, h⟩
      · rcases List.mem_cons.mp h with e' | h
        · exact absurd e' hc
        · obtain ⟨x, hx, hcx⟩ := ih h
          exact ⟨x, List.mem_cons_of_mem _ hx, hcx⟩

end MitmVerif.C34
