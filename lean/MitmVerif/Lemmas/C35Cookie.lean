/-
  C35 × C34 — `request_cookies_view_refines` with its two hypotheses discharged by C34's theorems.
  Kept out of the import closure of `Props/C35.lean` on purpose: it depends on another property's proof file.
-/
import MitmVerif.Props.C35
import MitmVerif.Props.C34
namespace MitmVerif.C35Cookie
open MitmVerif MitmVerif.C35

theorem request_cookies_view_refines_closed (hdrs : List C34.Str) (ops : List (Gen.MOp PyStr PyStr))
    (hops : ∀ op ∈ ops, ∀ k, MultiDictGen.MOp.key? op = some k → CookieKeyOk k) :
    Gen.View.runOps (id : PyStr → PyStr) (Gen.first []) cookieLens hdrs ops
      = Gen.runOps id (Gen.first []) (C34.getCookies hdrs) ops :=
  Props.C35.request_cookies_view_refines
    (fun ps h => Props.C34.request_cookies_view_roundtrip ps h)
    (fun s e he => Props.C34.parse_yields_representable s e he)
    hdrs ops hops

end MitmVerif.C35Cookie
