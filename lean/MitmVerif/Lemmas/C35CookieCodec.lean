/-
  C35 × C34 — the Cookie-header codec facts that `request.cookies` (a MultiDictView, Model/C35_View.lean) relies on:
  `cookie_roundtrip`, `parse_yields_representable`, `request_cookies_view_roundtrip`.

  These are C34's theorems.  The proofs below are a VERBATIM COPY of `MitmVerif/Props/C34.lean` (sections "reading
  primitives" … "the request.cookies view", by the builder of C34, copied 2026-09-22) under another namespace, so that
  `./check C35` builds and axiom-audits the closed theorem `Props.C35.request_cookies_view_refines_closed` without importing
  another property's proof file, which is still being edited.  They are statements about `Model/C34.lean` only (the cookie
  parser / formatter transcription that C34's own check ties to `mitmproxy.net.http.cookies`).
-/
import MitmVerif.Model.C34
namespace MitmVerif.C35CookieCodec
open MitmVerif MitmVerif.C34

/-! ### reading primitives -/
theorem readUntil_all (term : Nat → Bool) (a : Str) (h : ∀ x ∈ a, term x = false) : readUntil term a = (a, []) := by
  induction a with
  | nil => rfl
  | cons x a ih =>
    have hx := h x (by simp)
    have := ih (fun y hy => h y (List.mem_cons_of_mem _ hy))
    simp [readUntil, hx, this]

theorem readUntil_stop (term : Nat → Bool) (a : Str) (c : Nat) (r : Str) (h : ∀ x ∈ a, term x = false)
    (hc : term c = true) : readUntil term (a ++ c :: r) = (a, c :: r) := by
  induction a with
  | nil => simp [readUntil, hc]
  | cons x a ih =>
    have hx := h x (by simp)
    have := ih (fun y hy => h y (List.mem_cons_of_mem _ hy))
    simp [readUntil, hx, this]

theorem readUntil_fst (term : Nat → Bool) (s : Str) : ∀ x ∈ (readUntil term s).1, term x = false := by
  induction s with
  | nil => simp [readUntil]
  | cons c r ih =>
    unfold readUntil
    by_cases hc : term c = true
    · simp [hc]
    · simp only [hc, Bool.false_eq_true, if_false, List.mem_cons]
      intro x hx
      rcases hx with rfl | hx
      · simpa using hc
      · exact ih x hx

theorem readQuoted_escape (v r : Str) : readQuoted false (escape v ++ 34 :: r) = (v, r) := by
  induction v with
  | nil => simp [escape, readQuoted]
  | cons c v ih =>
    have hcons : escape (c :: v) = (if c = 34 ∨ c = 92 then [92, c] else [c]) ++ escape v := by simp [escape]
    rw [hcons]
    by_cases h1 : c = 34
    · subst h1
      simp only [true_or, if_true, List.cons_append, List.nil_append]
      have : escape v ++ 34 :: r = escape v ++ 34 :: r := rfl
      simp [readQuoted, ih]
    · by_cases h2 : c = 92
      · subst h2
        simp only [or_true, if_true, List.cons_append, List.nil_append]
        simp [readQuoted, ih]
      · simp only [h1, h2, or_self, if_false, List.cons_append, List.nil_append]
        simp [readQuoted, h1, h2, ih]

/-! ### representable pairs -/

/-- what a Cookie header can carry: the name has no `;` or `=`, no leading whitespace, and name and value are not both empty -/
def RepPair (e : Str × Str) : Prop := (∀ x ∈ e.1, isSemiEq x = false) ∧ lstrip e.1 = e.1 ∧ (e.2 ≠ [] ∨ e.1 ≠ [])

def Representable (ps : List (Str × Str)) : Prop := ∀ e ∈ ps, RepPair e

def fmt (e : Str × Str) : Str := fmtPair [] e.1 (some e.2)

theorem isSpace_32 : isSpace 32 = true := by decide

theorem notSpecial (v : Str) (h : hasSpecial v = false) : ∀ x ∈ v, x ≠ 34 ∧ isSemi x = false := by
  intro x hx
  unfold hasSpecial at h
  have hx' := (List.any_eq_false.mp h) x hx
  have hs : specialC x = false := by simpa using hx'
  unfold specialC at hs
  simp only [Bool.or_eq_false_iff, decide_eq_false_iff_not] at hs
  obtain ⟨⟨⟨⟨⟨h34, _⟩, h59⟩, _⟩, _⟩, _⟩ := hs
  exact ⟨h34, by simp [isSemi, h59]⟩

/-- one round of the reader on `pre ++ fmt e ++ tail`, where `pre` is empty or the blank after `;` and `tail` is empty or
    starts with `;` -/
theorem step_fmt (pre : Str) (e : Str × Str) (tail : Str) (hp : pre = [] ∨ pre = [32]) (he : RepPair e)
    (ht : tail = [] ∨ ∃ t, tail = 59 :: t) :
    cookieStep (pre ++ fmt e ++ tail) = (some e, tail.drop 1) := by
  obtain ⟨k, v⟩ := e
  obtain ⟨hk, hl, hne⟩ := he
  simp only at hk hl hne
  -- the key part
  have hA : ∀ x ∈ pre ++ k, isSemiEq x = false := by
    intro x hx
    rw [List.mem_append] at hx
    rcases hx with hx | hx
    · rcases hp with rfl | rfl
      · cases hx
      · simp at hx; subst hx; decide
    · exact hk x hx
  have hstrip : lstrip (pre ++ k) = k := by
    rcases hp with rfl | rfl
    · simpa using hl
    · show lstrip (32 :: k) = k
      unfold lstrip at hl ⊢
      rw [List.dropWhile_cons_of_pos isSpace_32]; exact hl
  -- the value part: whatever the spelling, the reader returns (v, tail)
  have hval : ∃ X, fmt (k, v) = k ++ 61 :: X ∧ readValue isSemi (X ++ tail) = (v, tail) := by
    unfold fmt fmtPair
    simp only [List.contains_nil, Bool.not_false, Bool.true_and]
    by_cases hs : hasSpecial v = true
    · refine ⟨34 :: (escape v ++ [34]), by simp [hs], ?_⟩
      have : (34 :: (escape v ++ [34])) ++ tail = 34 :: (escape v ++ 34 :: tail) := by simp
      rw [this]
      simp [readValue, readQuoted_escape]
    · have hs' : hasSpecial v = false := by simpa using hs
      refine ⟨v, by simp [hs'], ?_⟩
      have hv := notSpecial v hs'
      cases v with
      | nil =>
        rcases ht with rfl | ⟨t, rfl⟩
        · simp [readValue]
        · simp [readValue, readUntil, isSemi]
      | cons c v' =>
        have hc := (hv c (by simp)).1
        have hall : ∀ x ∈ c :: v', isSemi x = false := fun x hx => (hv x hx).2
        simp only [List.cons_append, readValue, hc, if_false]
        rcases ht with rfl | ⟨t, rfl⟩
        · simpa using readUntil_all isSemi (c :: v') hall
        · exact readUntil_stop isSemi (c :: v') 59 t hall (by decide)
  obtain ⟨X, hX, hread⟩ := hval
  have hform : pre ++ fmt (k, v) ++ tail = (pre ++ k) ++ 61 :: (X ++ tail) := by rw [hX]; simp
  unfold cookieStep
  rw [hform, readUntil_stop isSemiEq (pre ++ k) 61 (X ++ tail) hA (by decide)]
  simp only [hstrip, hread]
  simp [hne]

theorem joinSep_cons (x : Str) (r : List Str) (h : r ≠ []) : joinSep (x :: r) = x ++ 59 :: 32 :: joinSep r := by
  cases r with
  | nil => exact absurd rfl h
  | cons y r => rfl

theorem parseF_format (ps : List (Str × Str)) : ps ≠ [] → Representable ps →
    ∀ (pre : Str), (pre = [] ∨ pre = [32]) → ∀ f, (pre ++ formatCookie ps).length < f → parseF f (pre ++ formatCookie ps) = ps := by
  induction ps with
  | nil => intro h; exact absurd rfl h
  | cons e es ih =>
    intro _ hrep pre hp f hf
    cases f with
    | zero => omega
    | succ f =>
      have he : RepPair e := hrep e (by simp)
      by_cases hes : es = []
      · subst hes
        have hform : pre ++ formatCookie [e] = pre ++ fmt e ++ [] := by simp [formatCookie, joinSep, fmt]
        rw [hform]
        unfold parseF
        rw [step_fmt pre e [] hp he (Or.inl rfl)]
        simp
      · have hform : pre ++ formatCookie (e :: es) = pre ++ fmt e ++ (59 :: 32 :: formatCookie es) := by
          unfold formatCookie
          rw [List.map_cons, joinSep_cons _ _ (by simpa using hes)]
          simp [fmt]
        rw [hform] at hf ⊢
        unfold parseF
        rw [step_fmt pre e _ hp he (Or.inr ⟨_, rfl⟩)]
        simp only [List.drop_succ_cons, List.drop_zero]
        have hne : (32 :: formatCookie es) ≠ [] := by simp
        simp only [hne, if_false]
        have := ih hes (fun x hx => hrep x (List.mem_cons_of_mem _ hx)) [32] (Or.inr rfl) f (by
          simp only [List.length_append, List.length_cons, List.length_nil] at hf ⊢
          omega)
        simp only [List.cons_append, List.nil_append] at this
        rw [this]

/-- **C34 (cookies).** Every representable pair list survives formatting and parsing, in order. -/
theorem cookie_roundtrip (ps : List (Str × Str)) (h : Representable ps) : parseCookie (formatCookie ps) = ps := by
  by_cases hps : ps = []
  · subst hps; decide
  · have := parseF_format ps hps h [] (Or.inl rfl) ((formatCookie ps).length + 1) (by simp)
    simpa [parseCookie] using this

/-! ### the parser only produces representable pairs -/
theorem dropWhile_idem (p : Nat → Bool) (s : Str) : (s.dropWhile p).dropWhile p = s.dropWhile p := by
  induction s with
  | nil => simp
  | cons y r ih =>
    by_cases h : p y = true
    · rw [List.dropWhile_cons_of_pos h]; exact ih
    · rw [List.dropWhile_cons_of_neg h, List.dropWhile_cons_of_neg h]

theorem dropWhile_sub (p : Nat → Bool) (s : Str) : ∀ x ∈ s.dropWhile p, x ∈ s := by
  induction s with
  | nil => simp
  | cons y r ih =>
    intro x hx
    by_cases h : p y = true
    · rw [List.dropWhile_cons_of_pos h] at hx
      exact List.mem_cons_of_mem _ (ih x hx)
    · rw [List.dropWhile_cons_of_neg h] at hx
      exact hx

theorem ite_some {α : Type} {c : Prop} [Decidable c] {a e : α} (h : (if c then some a else none) = some e) :
    c ∧ a = e := by
  by_cases hc : c
  · rw [if_pos hc] at h; exact ⟨hc, Option.some.inj h⟩
  · rw [if_neg hc] at h; cases h

theorem step_rep (s : Str) : ∀ e, (cookieStep s).1 = some e → RepPair e := by
  intro e he
  unfold cookieStep at he
  simp only at he
  obtain ⟨hcond, rfl⟩ := ite_some he
  refine ⟨?_, dropWhile_idem _ _, hcond⟩
  intro x hx
  exact readUntil_fst isSemiEq s x (dropWhile_sub _ _ x hx)

theorem parse_yields_representable (s : Str) : Representable (parseCookie s) := by
  unfold parseCookie
  generalize s.length + 1 = f
  induction f generalizing s with
  | zero => intro e he; simp [parseF] at he
  | succ f ih =>
    intro e he
    unfold parseF at he
    simp only at he
    have htail : ∀ x ∈ (if (cookieStep s).2 = [] then [] else parseF f (cookieStep s).2), RepPair x := by
      intro x hx
      split at hx
      · cases hx
      · exact ih _ x hx
    cases hst : (cookieStep s).1 with
    | none => rw [hst] at he; exact htail e he
    | some p =>
      rw [hst] at he
      rcases List.mem_cons.mp he with rfl | he
      · exact step_rep s _ hst
      · exact htail e he

/-! ### the request.cookies view -/

/-- **C34 (cookies view).** Assigning representable pairs and reading the view back yields the same pairs in the same order. -/
theorem request_cookies_view_roundtrip (ps : List (Str × Str)) (h : Representable ps) : getCookies (setCookies ps) = ps := by
  simp [getCookies, setCookies, cookie_roundtrip ps h]


end MitmVerif.C35CookieCodec
