/-
  C35 — the multimap laws for the generic `_MultiDict` model (any key type, any `_kconv`), proved once.
  `Headers` (Model/C35.lean) is the instance `_kconv = asciiLower`; `MultiDict`/`MultiDictView` the instance `_kconv = id`.
-/
import MitmVerif.Model.C35_Gen
namespace MitmVerif.MultiDictGen
open MitmVerif MitmVerif.C35.Gen
open MitmVerif.C35 (pyIndex)

set_option linter.unusedSectionVars false
variable {α β γ : Type} [BEq γ] [LawfulBEq γ]

/-- names denote the same key -/
def keq (kc : α → γ) (a b : α) : Bool := kc a == kc b

theorem keq_refl (kc : α → γ) (a : α) : keq kc a a = true := by simp [keq]
theorem keq_symm (kc : α → γ) (a b : α) : keq kc a b = keq kc b a := by simp only [keq]; exact BEq.comm
theorem keq_trans {kc : α → γ} {a b c : α} (h1 : keq kc a b = true) (h2 : keq kc b c = true) : keq kc a c = true := by
  simp only [keq, beq_iff_eq] at *; exact h1.trans h2

theorem getAll_filter (kc : α → γ) (fs : List (α × β)) (k : α) :
    getAll kc fs k = (fs.filter (fun e => keq kc e.1 k)).map (·.2) := by
  induction fs with
  | nil => rfl
  | cons f fs ih =>
    simp only [getAll, keq] at *
    by_cases h : (kc f.1 == kc k) = true <;> simp [h, ih]

theorem getAll_keq (kc : α → γ) (m : List (α × β)) {k k' : α} (h : keq kc k' k = true) :
    getAll kc m k' = getAll kc m k := by
  have : kc k' = kc k := by simpa [keq] using h
  simp only [getAll, this]

theorem getAll_append (kc : α → γ) (a b : List (α × β)) (k : α) :
    getAll kc (a ++ b) k = getAll kc a k ++ getAll kc b k := by
  simp [getAll]

theorem getAll_fresh (kc : α → γ) (k : α) (vs : List β) : getAll kc (vs.map (fun v => (k, v))) k = vs := by
  induction vs with
  | nil => rfl
  | cons v vs ih => simp only [getAll] at *; simp [ih]

theorem loop_getAll (kc : α → γ) (k : α) (fs : List (α × β)) : ∀ vs : List β,
    getAll kc (setAllLoop kc (kc k) fs vs).1 k ++ (setAllLoop kc (kc k) fs vs).2 = vs := by
  induction fs with
  | nil => intro vs; simp [setAllLoop, getAll]
  | cons f fs ih =>
    intro vs
    by_cases hf : (kc f.1 == kc k) = true
    · cases vs with
      | nil => simp only [setAllLoop, hf, if_true]; exact ih []
      | cons v vs' =>
        have := ih vs'
        simp only [setAllLoop, hf, if_true]
        simp only [getAll] at *
        simp [hf, this]
    · have hf' : (kc f.1 == kc k) = false := by simpa using hf
      have := ih vs
      simp only [setAllLoop, hf']
      simp only [getAll] at *
      simp [hf', this]

/-- G1 -/
theorem getAll_setAll (kc : α → γ) (fs : List (α × β)) (k k' : α) (vs : List β) (h : keq kc k' k = true) :
    getAll kc (setAll kc fs k vs) k' = vs := by
  rw [getAll_keq kc _ h]
  simp only [setAll, getAll_append, getAll_fresh]
  exact loop_getAll kc k fs vs

theorem loop_untouched (kc : α → γ) (k : α) (fs : List (α × β)) : ∀ vs : List β,
    (setAllLoop kc (kc k) fs vs).1.filter (fun f => !keq kc f.1 k) = fs.filter (fun f => !keq kc f.1 k) := by
  induction fs with
  | nil => intro vs; simp [setAllLoop]
  | cons f fs ih =>
    intro vs
    by_cases hf : (kc f.1 == kc k) = true
    · have hk : keq kc f.1 k = true := hf
      cases vs with
      | nil => simp only [setAllLoop, hf, if_true]; rw [ih]; simp [hk]
      | cons v vs' => simp only [setAllLoop, hf, if_true]; simp [hk, ih]
    · have hf' : (kc f.1 == kc k) = false := by simpa using hf
      have hk : keq kc f.1 k = false := hf'
      simp only [setAllLoop, hf']
      simp [hk, ih]

/-- G3 -/
theorem untouched (kc : α → γ) (fs : List (α × β)) (k : α) (vs : List β) :
    (setAll kc fs k vs).filter (fun f => !keq kc f.1 k) = fs.filter (fun f => !keq kc f.1 k) := by
  simp only [setAll, List.filter_append, loop_untouched]
  have : ((setAllLoop kc (kc k) fs vs).2.map (fun v => (k, v))).filter (fun f => !keq kc f.1 k) = [] := by
    simp [List.filter_eq_nil_iff, keq_refl]
  simp [this]

theorem getAll_remove_other (kc : α → γ) (m : List (α × β)) {k k' : α} (h : keq kc k' k = false) :
    getAll kc (m.filter (fun f => !keq kc f.1 k)) k' = getAll kc m k' := by
  simp only [getAll_filter, List.filter_filter]
  congr 1
  apply List.filter_congr
  intro x _
  cases h1 : keq kc x.1 k' with
  | false => simp
  | true =>
    cases h2 : keq kc x.1 k with
    | false => simp
    | true =>
      have : keq kc k' k = true := keq_trans (by rw [keq_symm]; exact h1) h2
      rw [h] at this; cases this

/-- G2 -/
theorem getAll_setAll_other (kc : α → γ) (fs : List (α × β)) (k k' : α) (vs : List β) (h : keq kc k' k = false) :
    getAll kc (setAll kc fs k vs) k' = getAll kc fs k' := by
  rw [← getAll_remove_other kc _ h, untouched, getAll_remove_other kc _ h]

theorem contains_isEmpty (kc : α → γ) (red : List β → β) (fs : List (α × β)) (k : α) :
    contains kc red fs k = !(getAll kc fs k).isEmpty := by
  simp only [contains, getItem]
  cases (getAll kc fs k).isEmpty <;> rfl

/-- G4 -/
theorem del_removes_all_only (kc : α → γ) (red : List β → β) (fs : List (α × β)) (k : α) :
    (delItem kc red fs k = none ↔ getAll kc fs k = []) ∧
    (∀ fs', delItem kc red fs k = some fs' →
        fs' = fs.filter (fun f => !keq kc f.1 k) ∧ getAll kc fs' k = [] ∧
        ∀ k', keq kc k' k = false → getAll kc fs' k' = getAll kc fs k') := by
  have hbne : (fun f : α × β => kc k != kc f.1) = (fun f => !keq kc f.1 k) := by
    funext f; simp only [keq, bne]; rw [BEq.comm]
  constructor
  · simp only [delItem, contains_isEmpty]
    cases h : getAll kc fs k <;> simp
  · intro fs' h
    simp only [delItem, contains_isEmpty, hbne] at h
    cases hg : (getAll kc fs k).isEmpty with
    | true => simp [hg] at h
    | false =>
      simp only [hg, Bool.not_false, Bool.not_true, Bool.false_eq_true, if_false, Option.some.injEq] at h
      subst h
      refine ⟨rfl, ?_, fun k' hk' => getAll_remove_other kc _ hk'⟩
      simp [getAll_filter, List.filter_filter]

/-! iteration and length -/

theorem mem_iterLoop (kc : α → γ) (fs : List (α × β)) : ∀ (seen : List γ) (k : α),
    k ∈ iterLoop kc seen fs → (∃ v, (k, v) ∈ fs) ∧ seen.contains (kc k) = false := by
  induction fs with
  | nil => intro seen k h; simp [iterLoop] at h
  | cons f fs ih =>
    intro seen k h
    by_cases hs : seen.contains (kc f.1) = true
    · simp only [iterLoop, hs, if_true] at h
      obtain ⟨⟨v, hv⟩, h2⟩ := ih seen k h
      exact ⟨⟨v, List.mem_cons_of_mem _ hv⟩, h2⟩
    · have hs' : seen.contains (kc f.1) = false := by simpa using hs
      simp only [iterLoop, hs', Bool.false_eq_true, if_false, List.mem_cons] at h
      rcases h with h | h
      · subst h; exact ⟨⟨f.2, by simp⟩, hs'⟩
      · obtain ⟨⟨v, hv⟩, h2⟩ := ih _ k h
        refine ⟨⟨v, List.mem_cons_of_mem _ hv⟩, ?_⟩
        simp only [List.contains_cons, Bool.or_eq_false_iff] at h2
        exact h2.2

theorem iterLoop_nodup (kc : α → γ) (fs : List (α × β)) : ∀ seen : List γ,
    ((iterLoop kc seen fs).map kc).Nodup := by
  induction fs with
  | nil => intro seen; simp [iterLoop]
  | cons f fs ih =>
    intro seen
    by_cases hs : seen.contains (kc f.1) = true
    · simp only [iterLoop, hs, if_true]; exact ih seen
    · have hs' : seen.contains (kc f.1) = false := by simpa using hs
      simp only [iterLoop, hs', Bool.false_eq_true, if_false, List.map_cons, List.nodup_cons]
      refine ⟨?_, ih _⟩
      intro hmem
      obtain ⟨k, hk, hkk⟩ := List.mem_map.mp hmem
      have := (mem_iterLoop kc fs _ k hk).2
      simp [hkk] at this

theorem iterLoop_cover (kc : α → γ) (fs : List (α × β)) : ∀ (seen : List γ), ∀ f ∈ fs,
    seen.contains (kc f.1) = true ∨ kc f.1 ∈ (iterLoop kc seen fs).map kc := by
  induction fs with
  | nil => intro seen f hf; cases hf
  | cons e fs ih =>
    intro seen f hf
    by_cases hs : seen.contains (kc e.1) = true
    · simp only [iterLoop, hs, if_true]
      rcases List.mem_cons.mp hf with h | h
      · subst h; exact Or.inl hs
      · exact ih seen f h
    · have hs' : seen.contains (kc e.1) = false := by simpa using hs
      simp only [iterLoop, hs', Bool.false_eq_true, if_false, List.map_cons, List.mem_cons]
      rcases List.mem_cons.mp hf with h | h
      · subst h; exact Or.inr (Or.inl rfl)
      · rcases ih (kc e.1 :: seen) f h with h1 | h1
        · simp only [List.contains_cons, Bool.or_eq_true, beq_iff_eq] at h1
          rcases h1 with h1 | h1
          · exact Or.inr (Or.inl h1)
          · exact Or.inl h1
        · exact Or.inr (Or.inr h1)

theorem len_loop (kc : α → γ) (fs : List (α × β)) : ∀ s : List γ,
    (fs.foldl (fun s f => setAdd s (kc f.1)) s).length = s.length + (iterLoop kc s fs).length := by
  induction fs with
  | nil => intro s; simp [iterLoop]
  | cons f fs ih =>
    intro s
    by_cases h : s.contains (kc f.1) = true
    · have hs : setAdd s (kc f.1) = s := by simp only [setAdd, h, if_true]
      simp only [List.foldl_cons, iterLoop, h, if_true, hs]
      exact ih s
    · have h' : s.contains (kc f.1) = false := by simpa using h
      have hs : setAdd s (kc f.1) = kc f.1 :: s := by simp only [setAdd, h', Bool.false_eq_true, if_false]
      simp only [List.foldl_cons, iterLoop, h', Bool.false_eq_true, if_false, hs]
      rw [ih]; simp only [List.length_cons]; omega

/-- G5 -/
theorem len_eq_distinct (kc : α → γ) (fs : List (α × β)) :
    len kc fs = (iter kc fs).length ∧ ((iter kc fs).map kc).Nodup ∧
    (∀ f ∈ fs, kc f.1 ∈ (iter kc fs).map kc) ∧ (∀ k ∈ iter kc fs, ∃ v, (k, v) ∈ fs) := by
  refine ⟨by simp [len, iter, len_loop], iterLoop_nodup kc fs [], ?_, fun k hk => (mem_iterLoop kc fs [] k hk).1⟩
  intro f hf
  rcases iterLoop_cover kc fs [] f hf with h | h
  · simp at h
  · exact h

theorem iterLoop_find (kc : α → γ) (fs : List (α × β)) : ∀ (seen : List γ), ∀ k ∈ iterLoop kc seen fs,
    (fs.find? (fun f => keq kc f.1 k)).map (·.1) = some k := by
  induction fs with
  | nil => intro seen k h; simp [iterLoop] at h
  | cons f fs ih =>
    intro seen k h
    by_cases hs : seen.contains (kc f.1) = true
    · have h' := h
      simp only [iterLoop, hs, if_true] at h'
      have hns := (mem_iterLoop kc fs seen k h').2
      have hne : keq kc f.1 k = false := by
        cases hk : keq kc f.1 k with
        | false => rfl
        | true =>
          have : kc f.1 = kc k := by simpa [keq] using hk
          rw [this] at hs; rw [hs] at hns; cases hns
      rw [List.find?_cons]; simp only [hne]; exact ih seen k h'
    · have hs' : seen.contains (kc f.1) = false := by simpa using hs
      simp only [iterLoop, hs', Bool.false_eq_true, if_false, List.mem_cons] at h
      rcases h with h | h
      · subst h; simp [keq_refl]
      · have hns := (mem_iterLoop kc fs _ k h).2
        simp only [List.contains_cons, Bool.or_eq_false_iff] at hns
        have hne : keq kc f.1 k = false := by
          have := hns.1
          simp only [keq]; rw [BEq.comm]; exact this
        rw [List.find?_cons]; simp only [hne]; exact ih _ k h

theorem iterLoop_sublist (kc : α → γ) (fs : List (α × β)) : ∀ seen : List γ,
    List.Sublist (iterLoop kc seen fs) (fs.map (·.1)) := by
  induction fs with
  | nil => intro seen; simp [iterLoop]
  | cons f fs ih =>
    intro seen
    by_cases hs : seen.contains (kc f.1) = true
    · simp only [iterLoop, hs, if_true, List.map_cons]; exact List.Sublist.cons _ (ih seen)
    · have hs' : seen.contains (kc f.1) = false := by simpa using hs
      simp only [iterLoop, hs', Bool.false_eq_true, if_false, List.map_cons]
      exact List.Sublist.cons_cons _ (ih _)

/-- G6 -/
theorem iter_first_occurrence_spelling (kc : α → γ) (fs : List (α × β)) :
    (∀ k ∈ iter kc fs, (fs.find? (fun f => keq kc f.1 k)).map (·.1) = some k) ∧
    List.Sublist (iter kc fs) (fs.map (·.1)) :=
  ⟨iterLoop_find kc fs [], iterLoop_sublist kc fs []⟩

/-- G8 -/
theorem getItem_setItem (kc : α → γ) (red : List β → β) (hred : ∀ v, red [v] = v)
    (fs : List (α × β)) (k k' : α) (v : β) (h : keq kc k' k = true) :
    getItem kc red (setItem kc fs k v) k' = some v := by
  simp [getItem, setItem, getAll_setAll kc fs k k' [v] h, hred]

theorem take_ins_drop (e : α × β) (m : List (α × β)) : ∀ p, p ≤ m.length →
    (m.take p ++ e :: m.drop p)[p]? = some e ∧ (m.take p ++ e :: m.drop p).eraseIdx p = m := by
  induction m with
  | nil => intro p hp; have : p = 0 := by simpa using hp
           subst this; simp
  | cons x m ih =>
    intro p hp
    cases p with
    | zero => simp
    | succ p =>
      have := ih p (by simpa using hp)
      simp [this.1, this.2]

theorem pyIndex_le (n : Nat) (i : Int) : pyIndex n i ≤ n := by
  simp only [pyIndex]
  by_cases h : i < 0
  · simp only [h, if_true]
    by_cases h2 : (n : Int) + i < 0 <;> simp only [h2, if_true, if_false] <;> omega
  · simp only [h, if_false]
    by_cases h2 : i.toNat ≤ n <;> simp only [h2, if_true, if_false] <;> omega

/-- G9 -/
theorem insert_at (fs : List (α × β)) (i : Int) (k : α) (v : β) :
    (MitmVerif.C35.Gen.insert fs i k v)[pyIndex fs.length i]? = some (k, v) ∧
    (MitmVerif.C35.Gen.insert fs i k v).eraseIdx (pyIndex fs.length i) = fs :=
  take_ins_drop (k, v) fs _ (pyIndex_le _ _)


/-- every field after `set_all(k, …)` was there before or is named `k` -/
theorem mem_setAllLoop (kc : α → γ) (k : α) (fs : List (α × β)) : ∀ (vs : List β) (e : α × β),
    e ∈ (setAllLoop kc (kc k) fs vs).1 → e ∈ fs ∨ keq kc e.1 k = true := by
  induction fs with
  | nil => intro vs e h; simp [setAllLoop] at h
  | cons f fs ih =>
    intro vs e h
    by_cases hf : (kc f.1 == kc k) = true
    · cases vs with
      | nil =>
        simp only [setAllLoop, hf, if_true] at h
        rcases ih [] e h with h1 | h1
        · exact Or.inl (List.mem_cons_of_mem _ h1)
        · exact Or.inr h1
      | cons v vs' =>
        simp only [setAllLoop, hf, if_true, List.mem_cons] at h
        rcases h with h | h
        · subst h; exact Or.inr hf
        · rcases ih vs' e h with h1 | h1
          · exact Or.inl (List.mem_cons_of_mem _ h1)
          · exact Or.inr h1
    · have hf' : (kc f.1 == kc k) = false := by simpa using hf
      simp only [setAllLoop, hf', Bool.false_eq_true, if_false, List.mem_cons] at h
      rcases h with h | h
      · subst h; exact Or.inl (by simp)
      · rcases ih vs e h with h1 | h1
        · exact Or.inl (List.mem_cons_of_mem _ h1)
        · exact Or.inr h1

theorem mem_setAll (kc : α → γ) (fs : List (α × β)) (k : α) (vs : List β) (e : α × β)
    (h : e ∈ setAll kc fs k vs) : e ∈ fs ∨ keq kc e.1 k = true := by
  simp only [setAll, List.mem_append, List.mem_map] at h
  rcases h with h | ⟨v, _, hv⟩
  · exact mem_setAllLoop kc k fs vs e h
  · subst hv; exact Or.inr (keq_refl kc k)

/-- the key an operation brings in, if any -/
def MOp.key? : MOp α β → Option α
  | .setAll k _ | .setItem k _ | .insert _ k _ | .add k _ => some k
  | _ => none

/-- every field an operation writes was there before or carries (a spelling equivalent to) the operation's key -/
theorem mem_stepOp (kc : α → γ) (red : List β → β) (fs fs' : List (α × β)) (op : MOp α β)
    (h : (stepOp kc red fs op).1 = some fs') (e : α × β) (he : e ∈ fs') :
    e ∈ fs ∨ ∃ k, MOp.key? op = some k ∧ keq kc e.1 k = true := by
  cases op with
  | getAll k => simp [stepOp] at h
  | getItem k => simp [stepOp] at h
  | iter => simp [stepOp] at h
  | len => simp [stepOp] at h
  | setAll k vs =>
    simp only [stepOp, Option.some.injEq] at h; subst h
    rcases mem_setAll kc fs k vs e he with h1 | h1
    · exact Or.inl h1
    · exact Or.inr ⟨k, rfl, h1⟩
  | setItem k v =>
    simp only [stepOp, setItem, Option.some.injEq] at h; subst h
    rcases mem_setAll kc fs k [v] e he with h1 | h1
    · exact Or.inl h1
    · exact Or.inr ⟨k, rfl, h1⟩
  | delItem k =>
    simp only [stepOp] at h
    cases hd : delItem kc red fs k with
    | none => simp [hd] at h
    | some r =>
      simp only [hd, Option.some.injEq] at h; subst h
      have := ((del_removes_all_only kc red fs k).2 r hd).1
      subst this
      exact Or.inl (List.mem_filter.mp he).1
  | insert i k v =>
    simp only [stepOp, MitmVerif.C35.Gen.insert, Option.some.injEq] at h; subst h
    simp only [List.mem_append, List.mem_cons] at he
    rcases he with h1 | h1 | h1
    · exact Or.inl (List.mem_of_mem_take h1)
    · subst h1; exact Or.inr ⟨k, rfl, keq_refl kc k⟩
    · exact Or.inl (List.mem_of_mem_drop h1)
  | add k v =>
    simp only [stepOp, MitmVerif.C35.Gen.add, MitmVerif.C35.Gen.insert, Option.some.injEq] at h; subst h
    simp only [List.mem_append, List.mem_cons] at he
    rcases he with h1 | h1 | h1
    · exact Or.inl (List.mem_of_mem_take h1)
    · subst h1; exact Or.inr ⟨k, rfl, keq_refl kc k⟩
    · exact Or.inl (List.mem_of_mem_drop h1)

end MitmVerif.MultiDictGen
