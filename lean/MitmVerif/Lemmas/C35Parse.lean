/-
  C35 — whatever `_read_headers` accepts re-serialises (`Headers.__bytes__`) and re-parses to itself, including
  obs-fold continuation lines.  Idea: `canon` rewrites every input line to the line `__bytes__` will emit for it;
  parsing does not see the difference, and the serialisation of the parse result is exactly the canonical lines.
-/
import MitmVerif.Model.C35
namespace MitmVerif.C35.ParseLemmas
open MitmVerif MitmVerif.C35

/-! #### `strip` -/

theorem dropWhile_head (p : UInt8 → Bool) (l : Bytes) : ∀ c, (l.dropWhile p).head? = some c → p c = false := by
  induction l with
  | nil => intro c h; simp at h
  | cons a l ih =>
    intro c h
    by_cases ha : p a = true
    · simp only [List.dropWhile_cons, ha, if_true] at h; exact ih c h
    · have ha' : p a = false := by simpa using ha
      simp only [List.dropWhile_cons, ha', Bool.false_eq_true, if_false, List.head?_cons, Option.some.injEq] at h
      subst h; exact ha'

theorem mem_dropWhile {p : UInt8 → Bool} {l : Bytes} {c : UInt8} (h : c ∈ l.dropWhile p) : c ∈ l :=
  (List.dropWhile_suffix p).subset h

theorem mem_strip {b : Bytes} {c : UInt8} (h : c ∈ strip b) : c ∈ b := by
  simp only [strip, List.mem_reverse] at h
  have := mem_dropWhile h
  simp only [List.mem_reverse] at this
  exact mem_dropWhile this

/-- the stripped string neither starts nor ends with a stripped byte -/
theorem strip_ends (b : Bytes) :
    (∀ c, (strip b).head? = some c → pyWs c = false) ∧ (∀ c, (strip b).getLast? = some c → pyWs c = false) := by
  constructor
  · intro c h
    -- strip b is a prefix of b.dropWhile pyWs
    have hpre : strip b <+: b.dropWhile pyWs := by
      simp only [strip]
      have := List.dropWhile_suffix (l := (b.dropWhile pyWs).reverse) pyWs
      rw [← List.reverse_prefix] at this
      simpa using this
    obtain ⟨r, hr⟩ := hpre
    cases hs : strip b with
    | nil => rw [hs] at h; simp at h
    | cons x xs =>
      rw [hs] at h hr
      simp only [List.head?_cons, Option.some.injEq] at h
      subst h
      apply dropWhile_head pyWs b
      rw [← hr]; rfl
  · intro c h
    simp only [strip, List.getLast?_reverse] at h
    exact dropWhile_head pyWs _ c h

/-- `strip(b" " + strip(x)) = strip(x)` -/
theorem strip_sp_strip (x : Bytes) : strip (0x20 :: strip x) = strip x := by
  have hsp : pyWs 0x20 = true := by decide
  obtain ⟨hh, hl⟩ := strip_ends x
  cases hs : strip x with
  | nil => simp [strip, hsp]
  | cons c v =>
    rw [hs] at hh hl
    have hc : pyWs c = false := hh c rfl
    have hrev : ((c :: v).reverse).dropWhile pyWs = (c :: v).reverse := by
      cases hr : (c :: v).reverse with
      | nil => simp at hr
      | cons d r =>
        have hlast : (c :: v).getLast? = some d := by
          rw [List.getLast?_eq_head?_reverse, hr]; rfl
        have hd : pyWs d = false := hl d hlast
        simp [hd]
    simp only [strip, List.dropWhile_cons, hsp, if_true, hc, Bool.false_eq_true, if_false, hrev, List.reverse_reverse]

/-! #### `line.split(b":", 1)` -/

theorem splitColon_some {l n v : Bytes} (h : splitColon l = some (n, v)) :
    l = n ++ 0x3a :: v ∧ ∀ c ∈ n, c ≠ 0x3a := by
  induction l generalizing n v with
  | nil => simp [splitColon] at h
  | cons c cs ih =>
    by_cases hc : c = 0x3a
    · simp only [splitColon, hc, if_true, Option.some.injEq, Prod.mk.injEq] at h
      obtain ⟨rfl, rfl⟩ := h
      exact ⟨by simp [hc], by simp⟩
    · simp only [splitColon, hc, if_false] at h
      cases hs : splitColon cs with
      | none => simp [hs] at h
      | some r =>
        obtain ⟨n', v'⟩ := r
        simp only [hs, Option.some.injEq, Prod.mk.injEq] at h
        obtain ⟨rfl, rfl⟩ := h
        obtain ⟨h1, h2⟩ := ih hs
        refine ⟨by rw [h1]; rfl, ?_⟩
        intro d hd
        rcases List.mem_cons.mp hd with e | e
        · subst e; exact hc
        · exact h2 d e

theorem splitColon_append (n rest : Bytes) (h : ∀ c ∈ n, c ≠ 0x3a) :
    splitColon (n ++ 0x3a :: rest) = some (n, rest) := by
  induction n with
  | nil => simp [splitColon]
  | cons c n ih =>
    have hc : c ≠ 0x3a := h c (by simp)
    have := ih (fun d hd => h d (by simp [hd]))
    simp [splitColon, hc, this]

/-! #### canonical lines -/

/-- the line `Headers.__bytes__` emits for what `_read_headers` makes of `line` -/
def canon (line : Bytes) : Bytes :=
  match line with
  | [] => []
  | c :: _ =>
    if c = 0x20 || c = 0x09 then 0x20 :: strip line
    else match splitColon line with
      | none => line
      | some (name, value) => if name.isEmpty then line else name ++ colonSp ++ strip value

theorem canon_noLF (l : Bytes) (h : ∀ c ∈ l, c ≠ 0x0a) : ∀ c ∈ canon l, c ≠ 0x0a := by
  intro c hc
  cases l with
  | nil => simp [canon] at hc
  | cons a t =>
    simp only [canon] at hc
    by_cases ha : (a = 0x20 || a = 0x09) = true
    · simp only [ha, if_true, List.mem_cons] at hc
      rcases hc with e | e
      · subst e; decide
      · exact h c (mem_strip e)
    · simp only [ha, Bool.false_eq_true, if_false] at hc
      cases hs : splitColon (a :: t) with
      | none => simp only [hs] at hc; exact h c hc
      | some r =>
        obtain ⟨n, v⟩ := r
        simp only [hs] at hc
        obtain ⟨hl, _⟩ := splitColon_some hs
        by_cases hn : n.isEmpty = true
        · simp only [hn, if_true] at hc; exact h c hc
        · simp only [hn, Bool.false_eq_true, if_false, colonSp, List.mem_append, List.mem_cons, List.not_mem_nil,
            or_false] at hc
          rcases hc with (e | e | e) | e
          · exact h c (by rw [hl]; simp [e])
          · subst e; decide
          · subst e; decide
          · exact h c (by rw [hl]; simp [mem_strip e])

/-- parsing does not distinguish a line from its canonical form -/
theorem readLoop_canon (ls : List Bytes) : ∀ acc : Fields, readLoop acc (ls.map canon) = readLoop acc ls := by
  induction ls with
  | nil => intro acc; rfl
  | cons l ls ih =>
    intro acc
    cases l with
    | nil => simp [canon, readLoop]
    | cons a t =>
      by_cases ha : (a = 0x20 || a = 0x09) = true
      · have hc : canon (a :: t) = 0x20 :: strip (a :: t) := by simp only [canon, ha, if_true]
        have hsp : ((0x20 : UInt8) = 0x20 || (0x20 : UInt8) = 0x09) = true := by decide
        cases acc with
        | nil => simp [hc, readLoop, ha]
        | cons e acc' =>
          obtain ⟨n, v⟩ := e
          simp [hc, readLoop, ha, strip_sp_strip, ih]
      · have ha' : (a = 0x20 || a = 0x09) = false := by simpa using ha
        cases hs : splitColon (a :: t) with
        | none =>
          have hc : canon (a :: t) = a :: t := by simp only [canon, ha', Bool.false_eq_true, if_false, hs]
          simp only [List.map_cons, hc, readLoop, ha', Bool.false_eq_true, if_false, hs]
        | some r =>
          obtain ⟨n, v⟩ := r
          by_cases hn : n.isEmpty = true
          · have hc : canon (a :: t) = a :: t := by simp only [canon, ha', Bool.false_eq_true, if_false, hs, hn, if_true]
            simp only [List.map_cons, hc, readLoop, ha', Bool.false_eq_true, if_false, hs, hn, if_true]
          · have hn' : n.isEmpty = false := by simpa using hn
            obtain ⟨hl, hcol⟩ := splitColon_some hs
            -- the name starts with `a`
            cases n with
            | nil => simp at hn'
            | cons a' n' =>
              have haa : a' = a := by
                have := congrArg List.head? hl
                simpa using this.symm
              subst haa
              have hc : canon (a' :: t) = a' :: (n' ++ 0x3a :: 0x20 :: strip v) := by
                simp only [canon, ha', Bool.false_eq_true, if_false, hs, hn', colonSp]
                simp
              have hs2 : splitColon (a' :: (n' ++ 0x3a :: 0x20 :: strip v)) = some (a' :: n', 0x20 :: strip v) := by
                have := splitColon_append (a' :: n') (0x20 :: strip v) hcol
                simpa using this
              simp only [List.map_cons, hc, readLoop, ha', Bool.false_eq_true, if_false, hs, hs2, hn', strip_sp_strip, ih]

def ser (fs : Fields) : Bytes := fs.flatMap (fun f => fieldLine f ++ crlf)

/-- the serialisation of the parse result is the canonical form of the lines that were parsed -/
theorem ser_parse (ls : List Bytes) : ∀ (acc fs : Fields), readLoop acc ls = .ok fs →
    ser fs = ser acc.reverse ++ (ls.map canon).flatMap (fun l => l ++ crlf) := by
  induction ls with
  | nil =>
    intro acc fs h
    simp only [readLoop, Except.ok.injEq] at h
    subst h; simp
  | cons l ls ih =>
    intro acc fs h
    cases l with
    | nil => simp [readLoop] at h
    | cons a t =>
      by_cases ha : (a = 0x20 || a = 0x09) = true
      · have hc : canon (a :: t) = 0x20 :: strip (a :: t) := by simp only [canon, ha, if_true]
        cases acc with
        | nil => simp [readLoop, ha] at h
        | cons e acc' =>
          obtain ⟨n, v⟩ := e
          simp only [readLoop, ha, if_true] at h
          rw [ih _ fs h, List.map_cons, hc]
          simp [ser, fieldLine, crlf, List.flatMap_cons]
      · have ha' : (a = 0x20 || a = 0x09) = false := by simpa using ha
        cases hs : splitColon (a :: t) with
        | none => simp [readLoop, ha', hs] at h
        | some r =>
          obtain ⟨n, v⟩ := r
          by_cases hn : n.isEmpty = true
          · simp [readLoop, ha', hs, hn] at h
          · have hn' : n.isEmpty = false := by simpa using hn
            have hc : canon (a :: t) = n ++ colonSp ++ strip v := by
              simp only [canon, ha', Bool.false_eq_true, if_false, hs, hn']
            simp only [readLoop, ha', Bool.false_eq_true, if_false, hs, hn'] at h
            rw [ih _ fs h, List.map_cons, hc]
            simp [ser, fieldLine, List.flatMap_cons]

end MitmVerif.C35.ParseLemmas
