/-
  C35 — lemmas about the utf-8/surrogateescape codec model (`Model/C35_Str.lean`): one decoding step emits a code
  point whose encoding is exactly the bytes it consumed; hence `encodeSE (native b) = some b` for every byte string.
-/
import MitmVerif.Model.C35_Str
namespace MitmVerif.C35.StrLemmas
open MitmVerif MitmVerif.C35

theorem ofNat_of_eq (b : UInt8) (n : Nat) (h : n = b.toNat) : UInt8.ofNat n = b := by
  subst h; exact UInt8.ofNat_toNat

theorem esc_ok (b : UInt8) (h : 0x80 ≤ b.toNat) : enc1 (0xDC00 + b.toNat) = some [b] := by
  have hb := UInt8.toNat_lt b
  have h1 : ¬ (0xDC00 + b.toNat < 0x80) := by omega
  have h2 : ¬ (0xDC00 + b.toNat < 0x800) := by omega
  have h3 : 0xD800 ≤ 0xDC00 + b.toNat ∧ 0xDC00 + b.toNat ≤ 0xDFFF := by omega
  have h4 : 0xDC80 ≤ 0xDC00 + b.toNat ∧ 0xDC00 + b.toNat ≤ 0xDCFF := by omega
  simp only [enc1, h1, h2, h3, h4, if_true, if_false, and_self]
  rw [ofNat_of_eq b _ (by omega)]

theorem ascii_ok (b : UInt8) (h : b.toNat < 0x80) : enc1 b.toNat = some [b] := by
  simp only [enc1, h, if_true]
  rw [ofNat_of_eq b _ rfl]

theorem enc2_ok (b0 b1 : UInt8) (h0 : 0xC2 ≤ b0.toNat ∧ b0.toNat ≤ 0xDF) (h1 : isCont b1.toNat = true) :
    enc1 ((b0.toNat - 0xC0) * 64 + (b1.toNat - 0x80)) = some [b0, b1] := by
  simp only [isCont, Bool.and_eq_true, decide_eq_true_eq] at h1
  have c1 : ¬ ((b0.toNat - 0xC0) * 64 + (b1.toNat - 0x80) < 0x80) := by omega
  have c2 : (b0.toNat - 0xC0) * 64 + (b1.toNat - 0x80) < 0x800 := by omega
  simp only [enc1, c1, c2, if_true, if_false]
  rw [ofNat_of_eq b0 _ (by omega), ofNat_of_eq b1 _ (by omega)]

theorem enc3_ok (b0 b1 b2 : UInt8) (h0 : 0xE0 ≤ b0.toNat ∧ b0.toNat ≤ 0xEF)
    (h1 : ok3 b0.toNat b1.toNat = true) (h2 : isCont b2.toNat = true) :
    enc1 ((b0.toNat - 0xE0) * 4096 + (b1.toNat - 0x80) * 64 + (b2.toNat - 0x80)) = some [b0, b1, b2] := by
  simp only [ok3, isCont, Bool.and_eq_true, Bool.or_eq_true, decide_eq_true_eq, bne_iff_ne, ne_eq] at h1 h2
  obtain ⟨⟨⟨h1a, h1b⟩, h1c⟩, h1d⟩ := h1
  have hE0 : b0.toNat = 0xE0 → 0xA0 ≤ b1.toNat := fun e => by rcases h1c with h | h; exact absurd e h; exact h
  have hED : b0.toNat = 0xED → b1.toNat ≤ 0x9F := fun e => by rcases h1d with h | h; exact absurd e h; exact h
  have c1 : ¬ ((b0.toNat - 0xE0) * 4096 + (b1.toNat - 0x80) * 64 + (b2.toNat - 0x80) < 0x80) := by
    by_cases e : b0.toNat = 0xE0
    · have := hE0 e; omega
    · omega
  have c2 : ¬ ((b0.toNat - 0xE0) * 4096 + (b1.toNat - 0x80) * 64 + (b2.toNat - 0x80) < 0x800) := by
    by_cases e : b0.toNat = 0xE0
    · have := hE0 e; omega
    · omega
  have c3 : ¬ (0xD800 ≤ (b0.toNat - 0xE0) * 4096 + (b1.toNat - 0x80) * 64 + (b2.toNat - 0x80) ∧
      (b0.toNat - 0xE0) * 4096 + (b1.toNat - 0x80) * 64 + (b2.toNat - 0x80) ≤ 0xDFFF) := by
    by_cases e : b0.toNat = 0xED
    · have := hED e; omega
    · omega
  have c4 : (b0.toNat - 0xE0) * 4096 + (b1.toNat - 0x80) * 64 + (b2.toNat - 0x80) < 0x10000 := by omega
  simp only [enc1, c1, c2, c3, c4, if_true, if_false]
  rw [ofNat_of_eq b0 _ (by omega), ofNat_of_eq b1 _ (by omega), ofNat_of_eq b2 _ (by omega)]

theorem enc4_ok (b0 b1 b2 b3 : UInt8) (h0 : 0xF0 ≤ b0.toNat ∧ b0.toNat ≤ 0xF4)
    (h1 : ok4 b0.toNat b1.toNat = true) (h2 : isCont b2.toNat = true) (h3 : isCont b3.toNat = true) :
    enc1 ((b0.toNat - 0xF0) * 262144 + (b1.toNat - 0x80) * 4096 + (b2.toNat - 0x80) * 64 + (b3.toNat - 0x80))
      = some [b0, b1, b2, b3] := by
  simp only [ok4, isCont, Bool.and_eq_true, Bool.or_eq_true, decide_eq_true_eq, bne_iff_ne, ne_eq] at h1 h2 h3
  obtain ⟨⟨⟨h1a, h1b⟩, h1c⟩, h1d⟩ := h1
  have hF0 : b0.toNat = 0xF0 → 0x90 ≤ b1.toNat := fun e => by rcases h1c with h | h; exact absurd e h; exact h
  have hF4 : b0.toNat = 0xF4 → b1.toNat ≤ 0x8F := fun e => by rcases h1d with h | h; exact absurd e h; exact h
  have lo : 0x10000 ≤ (b0.toNat - 0xF0) * 262144 + (b1.toNat - 0x80) * 4096 + (b2.toNat - 0x80) * 64 + (b3.toNat - 0x80) := by
    by_cases e : b0.toNat = 0xF0
    · have := hF0 e; omega
    · omega
  have hi : (b0.toNat - 0xF0) * 262144 + (b1.toNat - 0x80) * 4096 + (b2.toNat - 0x80) * 64 + (b3.toNat - 0x80) < 0x110000 := by
    by_cases e : b0.toNat = 0xF4
    · have := hF4 e; omega
    · omega
  have c1 : ¬ ((b0.toNat - 0xF0) * 262144 + (b1.toNat - 0x80) * 4096 + (b2.toNat - 0x80) * 64 + (b3.toNat - 0x80) < 0x80) := by omega
  have c2 : ¬ ((b0.toNat - 0xF0) * 262144 + (b1.toNat - 0x80) * 4096 + (b2.toNat - 0x80) * 64 + (b3.toNat - 0x80) < 0x800) := by omega
  have c3 : ¬ (0xD800 ≤ (b0.toNat - 0xF0) * 262144 + (b1.toNat - 0x80) * 4096 + (b2.toNat - 0x80) * 64 + (b3.toNat - 0x80) ∧
      (b0.toNat - 0xF0) * 262144 + (b1.toNat - 0x80) * 4096 + (b2.toNat - 0x80) * 64 + (b3.toNat - 0x80) ≤ 0xDFFF) := by omega
  have c4 : ¬ ((b0.toNat - 0xF0) * 262144 + (b1.toNat - 0x80) * 4096 + (b2.toNat - 0x80) * 64 + (b3.toNat - 0x80) < 0x10000) := by omega
  simp only [enc1, c1, c2, c3, c4, hi, if_true, if_false]
  rw [ofNat_of_eq b0 _ (by omega), ofNat_of_eq b1 _ (by omega), ofNat_of_eq b2 _ (by omega), ofNat_of_eq b3 _ (by omega)]

/-- one decoding step consumes 1–4 bytes and emits a code point whose encoding is exactly those bytes -/
theorem decStep_spec (b : UInt8) (t : Bytes) :
    1 ≤ (decStep (b :: t)).2 ∧ (decStep (b :: t)).2 ≤ (b :: t).length ∧
    enc1 (decStep (b :: t)).1 = some ((b :: t).take (decStep (b :: t)).2) := by
  have hb := UInt8.toNat_lt b
  by_cases h1 : b.toNat < 0x80
  · simp [decStep, h1, ascii_ok b h1]
  have hesc := esc_ok b (by omega)
  by_cases h2 : 0xC2 ≤ b.toNat ∧ b.toNat ≤ 0xDF
  · cases t with
    | nil => simp [decStep, h1, h2, hesc]
    | cons b1 t =>
      by_cases hc : isCont b1.toNat = true
      · simp [decStep, h1, h2, hc, enc2_ok b b1 h2 hc]
      · simp [decStep, h1, h2, hc, hesc]
  by_cases h3 : 0xE0 ≤ b.toNat ∧ b.toNat ≤ 0xEF
  · cases t with
    | nil => simp [decStep, h1, h2, h3, hesc]
    | cons b1 t =>
      cases t with
      | nil => simp [decStep, h1, h2, h3, hesc]
      | cons b2 t =>
        by_cases hc : (ok3 b.toNat b1.toNat && isCont b2.toNat) = true
        · have hc' := hc
          simp only [Bool.and_eq_true] at hc'
          simp [decStep, h1, h2, h3, hc, enc3_ok b b1 b2 h3 hc'.1 hc'.2]
        · simp [decStep, h1, h2, h3, hc, hesc]
  by_cases h4 : 0xF0 ≤ b.toNat ∧ b.toNat ≤ 0xF4
  · cases t with
    | nil => simp [decStep, h1, h2, h3, h4, hesc]
    | cons b1 t =>
      cases t with
      | nil => simp [decStep, h1, h2, h3, h4, hesc]
      | cons b2 t =>
        cases t with
        | nil => simp [decStep, h1, h2, h3, h4, hesc]
        | cons b3 t =>
          by_cases hc : (ok4 b.toNat b1.toNat && isCont b2.toNat && isCont b3.toNat) = true
          · have hc' := hc
            simp only [Bool.and_eq_true] at hc'
            simp [decStep, h1, h2, h3, h4, hc, enc4_ok b b1 b2 b3 h4 hc'.1.1 hc'.1.2 hc'.2]
          · simp [decStep, h1, h2, h3, h4, hc, hesc]
  simp [decStep, h1, h2, h3, h4, hesc]

theorem encode_decF : ∀ (f : Nat) (bs : Bytes), bs.length ≤ f → encodeSE (decF f bs) = some bs := by
  intro f
  induction f with
  | zero => intro bs h; cases bs with
    | nil => rfl
    | cons b t => simp at h
  | succ f ih =>
    intro bs h
    cases bs with
    | nil => rfl
    | cons b t =>
      obtain ⟨h1, h2, h3⟩ := decStep_spec b t
      have hlen : ((b :: t).drop (decStep (b :: t)).2).length ≤ f := by
        simp only [List.length_drop, List.length_cons] at *; omega
      simp only [decF, encodeSE, h3, ih _ hlen, List.take_append_drop]


/-! ### the range-based decoder (CPython's control flow) produces the same `str` -/

theorem decF_fuel : ∀ (f g : Nat) (bs : Bytes), bs.length ≤ f → bs.length ≤ g → decF f bs = decF g bs := by
  intro f
  induction f with
  | zero => intro g bs h _; cases bs with
    | nil => cases g <;> rfl
    | cons b t => simp at h
  | succ f ih =>
    intro g bs hf hg
    cases bs with
    | nil => cases g <;> rfl
    | cons b t =>
      cases g with
      | zero => simp at hg
      | succ g =>
        obtain ⟨h1, h2, _⟩ := decStep_spec b t
        have hl : ((b :: t).drop (decStep (b :: t)).2).length ≤ t.length := by
          simp only [List.length_drop, List.length_cons] at *; omega
        simp only [decF]
        rw [ih g _ (by simp only [List.length_cons] at hf; omega) (by simp only [List.length_cons] at hg; omega)]

theorem native_cons (b : UInt8) (t : Bytes) :
    native (b :: t) = (decStep (b :: t)).1 :: native ((b :: t).drop (decStep (b :: t)).2) := by
  obtain ⟨h1, h2, _⟩ := decStep_spec b t
  have hl : ((b :: t).drop (decStep (b :: t)).2).length ≤ t.length := by
    simp only [List.length_drop, List.length_cons] at *; omega
  simp only [native, List.length_cons, decF]
  rw [decF_fuel t.length _ _ hl (Nat.le_refl _)]

theorem native_of_step (b : UInt8) (t : Bytes) (cp n : Nat) (h : decStep (b :: t) = (cp, n)) :
    native (b :: t) = cp :: native ((b :: t).drop n) := by
  rw [native_cons, h]

/-- a continuation byte in lead position is escaped on its own -/
theorem native_cont (b : UInt8) (t : Bytes) (h : isCont b.toNat = true) :
    native (b :: t) = (0xDC00 + b.toNat) :: native t := by
  simp only [isCont, Bool.and_eq_true, decide_eq_true_eq] at h
  have h1 : ¬ b.toNat < 0x80 := by omega
  have h2 : ¬ (0xC2 ≤ b.toNat ∧ b.toNat ≤ 0xDF) := by omega
  have h3 : ¬ (0xE0 ≤ b.toNat ∧ b.toNat ≤ 0xEF) := by omega
  have h4 : ¬ (0xF0 ≤ b.toNat ∧ b.toNat ≤ 0xF4) := by omega
  have : decStep (b :: t) = (0xDC00 + b.toNat, 1) := by simp [decStep, h1, h2, h3, h4]
  rw [native_of_step b t _ _ this]; rfl


theorem ok3_iff (n0 n1 : Nat) : ok3 n0 n1 = true ↔
    (isCont n1 = true ∧ ¬ (n0 = 0xE0 ∧ n1 < 0xA0) ∧ ¬ (n0 = 0xED ∧ 0xA0 ≤ n1)) := by
  simp only [ok3, Bool.and_eq_true, Bool.or_eq_true, bne_iff_ne, ne_eq, decide_eq_true_eq]
  constructor
  · rintro ⟨⟨h1, h2⟩, h3⟩; refine ⟨h1, ?_, ?_⟩ <;> omega
  · rintro ⟨h1, h2, h3⟩; refine ⟨⟨h1, ?_⟩, ?_⟩ <;> omega

theorem ok4_iff (n0 n1 : Nat) : ok4 n0 n1 = true ↔
    (isCont n1 = true ∧ ¬ (n0 = 0xF0 ∧ n1 < 0x90) ∧ ¬ (n0 = 0xF4 ∧ 0x90 ≤ n1)) := by
  simp only [ok4, Bool.and_eq_true, Bool.or_eq_true, bne_iff_ne, ne_eq, decide_eq_true_eq]
  constructor
  · rintro ⟨⟨h1, h2⟩, h3⟩; refine ⟨h1, ?_, ?_⟩ <;> omega
  · rintro ⟨h1, h2, h3⟩; refine ⟨⟨h1, ?_⟩, ?_⟩ <;> omega

theorem bad3_false_iff (n0 n1 : Nat) : bad3 n0 n1 = false ↔ ok3 n0 n1 = true := by
  rw [ok3_iff]
  simp only [bad3, Bool.or_eq_false_iff, Bool.not_eq_false']
  by_cases h : n1 < 0xA0
  · simp only [if_pos h, beq_eq_false_iff_ne, ne_eq]
    constructor
    · rintro ⟨h1, h2⟩; exact ⟨h1, by omega, by omega⟩
    · rintro ⟨h1, h2, h3⟩; exact ⟨h1, fun e => h2 ⟨e, h⟩⟩
  · simp only [if_neg h, beq_eq_false_iff_ne, ne_eq]
    constructor
    · rintro ⟨h1, h2⟩; exact ⟨h1, by omega, by omega⟩
    · rintro ⟨h1, h2, h3⟩; exact ⟨h1, fun e => h3 ⟨e, by omega⟩⟩

theorem bad4_false_iff (n0 n1 : Nat) : bad4 n0 n1 = false ↔ ok4 n0 n1 = true := by
  rw [ok4_iff]
  simp only [bad4, Bool.or_eq_false_iff, Bool.not_eq_false']
  by_cases h : n1 < 0x90
  · simp only [if_pos h, beq_eq_false_iff_ne, ne_eq]
    constructor
    · rintro ⟨h1, h2⟩; exact ⟨h1, by omega, by omega⟩
    · rintro ⟨h1, h2, h3⟩; exact ⟨h1, fun e => h2 ⟨e, h⟩⟩
  · simp only [if_neg h, beq_eq_false_iff_ne, ne_eq]
    constructor
    · rintro ⟨h1, h2⟩; exact ⟨h1, by omega, by omega⟩
    · rintro ⟨h1, h2, h3⟩; exact ⟨h1, fun e => h3 ⟨e, by omega⟩⟩


set_option linter.unusedSimpArgs false

theorem esc2 (b0 b1 : UInt8) (t : Bytes) (h0 : decStep (b0 :: b1 :: t) = (0xDC00 + b0.toNat, 1))
    (h1 : isCont b1.toNat = true) :
    native (b0 :: b1 :: t) = escAll [b0, b1] ++ native t := by
  rw [native_of_step b0 _ _ _ h0]
  simp only [List.drop_succ_cons, List.drop_zero]
  rw [native_cont b1 t h1]; rfl

theorem esc3 (b0 b1 b2 : UInt8) (t : Bytes) (h0 : decStep (b0 :: b1 :: b2 :: t) = (0xDC00 + b0.toNat, 1))
    (h1 : isCont b1.toNat = true) (h2 : isCont b2.toNat = true) :
    native (b0 :: b1 :: b2 :: t) = escAll [b0, b1, b2] ++ native t := by
  rw [native_of_step b0 _ _ _ h0]
  simp only [List.drop_succ_cons, List.drop_zero]
  rw [native_cont b1 _ h1, native_cont b2 t h2]; rfl

theorem esc1 (b0 : UInt8) (t : Bytes) (h0 : decStep (b0 :: t) = (0xDC00 + b0.toNat, 1)) :
    native (b0 :: t) = escAll [b0] ++ native t := by
  rw [native_of_step b0 _ _ _ h0]; rfl

/-- one round of CPython's loop = one or more steps of the byte-at-a-time decoder -/
theorem stepR_spec (b : UInt8) (t : Bytes) :
    1 ≤ (decStepR (b :: t)).2 ∧ (decStepR (b :: t)).2 ≤ (b :: t).length ∧
    native (b :: t) = (decStepR (b :: t)).1 ++ native ((b :: t).drop (decStepR (b :: t)).2) := by
  have hb := UInt8.toNat_lt b
  by_cases h1 : b.toNat < 0x80
  · have hs : decStep (b :: t) = (b.toNat, 1) := by simp [decStep, h1]
    simp [decStepR, h1, native_of_step b t _ _ hs]
  by_cases h2 : b.toNat < 0xE0
  · by_cases h2a : b.toNat < 0xC2
    · have r2 : ¬ (0xC2 ≤ b.toNat ∧ b.toNat ≤ 0xDF) := by omega
      have r3 : ¬ (0xE0 ≤ b.toNat ∧ b.toNat ≤ 0xEF) := by omega
      have r4 : ¬ (0xF0 ≤ b.toNat ∧ b.toNat ≤ 0xF4) := by omega
      have hs : decStep (b :: t) = (0xDC00 + b.toNat, 1) := by simp [decStep, h1, r2, r3, r4]
      simp [decStepR, h1, h2, h2a, esc1 b t hs]
    · have r2 : 0xC2 ≤ b.toNat ∧ b.toNat ≤ 0xDF := by omega
      cases t with
      | nil =>
        have hs : decStep [b] = (0xDC00 + b.toNat, 1) := by simp [decStep, h1, r2]
        simp [decStepR, h1, h2, h2a, esc1 b [] hs]
      | cons b1 t =>
        by_cases hc : isCont b1.toNat = true
        · have hs : decStep (b :: b1 :: t) = ((b.toNat - 0xC0) * 64 + (b1.toNat - 0x80), 2) := by
            simp [decStep, h1, r2, hc]
          simp [decStepR, h1, h2, h2a, hc, native_of_step b _ _ _ hs]
        · have hs : decStep (b :: b1 :: t) = (0xDC00 + b.toNat, 1) := by simp [decStep, h1, r2, hc]
          simp [decStepR, h1, h2, h2a, hc, esc1 b _ hs]
  by_cases h3 : b.toNat < 0xF0
  · have r2 : ¬ (0xC2 ≤ b.toNat ∧ b.toNat ≤ 0xDF) := by omega
    have r3 : 0xE0 ≤ b.toNat ∧ b.toNat ≤ 0xEF := by omega
    cases t with
    | nil =>
      have hs : decStep [b] = (0xDC00 + b.toNat, 1) := by simp [decStep, h1, r2, r3]
      simp [decStepR, h1, h2, h3, esc1 b [] hs]
    | cons b1 t =>
      cases t with
      | nil =>
        have hs : decStep [b, b1] = (0xDC00 + b.toNat, 1) := by simp [decStep, h1, r2, r3]
        by_cases hbad : bad3 b.toNat b1.toNat = true
        · simp [decStepR, h1, h2, h3, hbad, esc1 b _ hs]
        · have hbad' : bad3 b.toNat b1.toNat = false := by simpa using hbad
          have hc : isCont b1.toNat = true := ((ok3_iff _ _).mp ((bad3_false_iff _ _).mp hbad')).1
          simp [decStepR, h1, h2, h3, hbad', esc2 b b1 [] hs hc]
      | cons b2 t =>
        by_cases hc1 : isCont b1.toNat = true
        · by_cases hE0 : b.toNat = 0xE0 ∧ b1.toNat < 0xA0
          · have hok : ok3 b.toNat b1.toNat = false := by
              cases hh : ok3 b.toNat b1.toNat with
              | false => rfl
              | true => exact absurd hE0 ((ok3_iff _ _).mp hh).2.1
            have hs : decStep (b :: b1 :: b2 :: t) = (0xDC00 + b.toNat, 1) := by simp [decStep, h1, r2, r3, hok]
            simp [decStepR, h1, h2, h3, hc1, hE0.1, hE0.2, esc1 b _ hs]
          · by_cases hED : b.toNat = 0xED ∧ 0xA0 ≤ b1.toNat
            · have hok : ok3 b.toNat b1.toNat = false := by
                cases hh : ok3 b.toNat b1.toNat with
                | false => rfl
                | true => exact absurd hED ((ok3_iff _ _).mp hh).2.2
              have hs : decStep (b :: b1 :: b2 :: t) = (0xDC00 + b.toNat, 1) := by simp [decStep, h1, r2, r3, hok]
              have hne : ¬ (b.toNat = 0xE0) := by omega
              simp [decStepR, h1, h2, h3, hc1, hne, hED.1, hED.2, esc1 b _ hs]
            · have hok : ok3 b.toNat b1.toNat = true := (ok3_iff _ _).mpr ⟨hc1, hE0, hED⟩
              have g1 : (b.toNat == 0xE0 && decide (b1.toNat < 0xA0)) = false := by
                cases hx : (b.toNat == 0xE0 && decide (b1.toNat < 0xA0)) with
                | false => rfl
                | true => simp at hx; exact absurd hx hE0
              have g2 : (b.toNat == 0xED && decide (0xA0 ≤ b1.toNat)) = false := by
                cases hx : (b.toNat == 0xED && decide (0xA0 ≤ b1.toNat)) with
                | false => rfl
                | true => simp at hx; exact absurd hx hED
              by_cases hc2 : isCont b2.toNat = true
              · have hs : decStep (b :: b1 :: b2 :: t) =
                    ((b.toNat - 0xE0) * 4096 + (b1.toNat - 0x80) * 64 + (b2.toNat - 0x80), 3) := by
                  simp [decStep, h1, r2, r3, hok, hc2]
                simp [decStepR, h1, h2, h3, hc1, g1, g2, hc2, native_of_step b _ _ _ hs]
              · have hs : decStep (b :: b1 :: b2 :: t) = (0xDC00 + b.toNat, 1) := by
                  simp [decStep, h1, r2, r3, hok, hc2]
                simp [decStepR, h1, h2, h3, hc1, g1, g2, hc2, esc2 b b1 _ hs hc1]
        · have hok : ok3 b.toNat b1.toNat = false := by
            cases hh : ok3 b.toNat b1.toNat with
            | false => rfl
            | true => exact absurd ((ok3_iff _ _).mp hh).1 hc1
          have hs : decStep (b :: b1 :: b2 :: t) = (0xDC00 + b.toNat, 1) := by simp [decStep, h1, r2, r3, hok]
          simp [decStepR, h1, h2, h3, hc1, esc1 b _ hs]
  by_cases h4 : b.toNat < 0xF5
  · have r2 : ¬ (0xC2 ≤ b.toNat ∧ b.toNat ≤ 0xDF) := by omega
    have r3 : ¬ (0xE0 ≤ b.toNat ∧ b.toNat ≤ 0xEF) := by omega
    have r4 : 0xF0 ≤ b.toNat ∧ b.toNat ≤ 0xF4 := by omega
    cases t with
    | nil =>
      have hs : decStep [b] = (0xDC00 + b.toNat, 1) := by simp [decStep, h1, r2, r3, r4]
      simp [decStepR, h1, h2, h3, h4, esc1 b [] hs]
    | cons b1 t =>
      cases t with
      | nil =>
        have hs : decStep [b, b1] = (0xDC00 + b.toNat, 1) := by simp [decStep, h1, r2, r3, r4]
        by_cases hbad : bad4 b.toNat b1.toNat = true
        · simp [decStepR, h1, h2, h3, h4, hbad, esc1 b _ hs]
        · have hbad' : bad4 b.toNat b1.toNat = false := by simpa using hbad
          have hc : isCont b1.toNat = true := ((ok4_iff _ _).mp ((bad4_false_iff _ _).mp hbad')).1
          simp [decStepR, h1, h2, h3, h4, hbad', esc2 b b1 [] hs hc]
      | cons b2 t =>
        cases t with
        | nil =>
          have hs : decStep [b, b1, b2] = (0xDC00 + b.toNat, 1) := by simp [decStep, h1, r2, r3, r4]
          by_cases hbad : bad4 b.toNat b1.toNat = true
          · simp [decStepR, h1, h2, h3, h4, hbad, esc1 b _ hs]
          · have hbad' : bad4 b.toNat b1.toNat = false := by simpa using hbad
            have hc : isCont b1.toNat = true := ((ok4_iff _ _).mp ((bad4_false_iff _ _).mp hbad')).1
            by_cases hc2 : isCont b2.toNat = true
            · simp [decStepR, h1, h2, h3, h4, hbad', hc2, esc3 b b1 b2 [] hs hc hc2]
            · simp [decStepR, h1, h2, h3, h4, hbad', hc2, esc2 b b1 [b2] hs hc]
        | cons b3 t =>
          by_cases hc1 : isCont b1.toNat = true
          · by_cases hF0 : b.toNat = 0xF0 ∧ b1.toNat < 0x90
            · have hok : ok4 b.toNat b1.toNat = false := by
                cases hh : ok4 b.toNat b1.toNat with
                | false => rfl
                | true => exact absurd hF0 ((ok4_iff _ _).mp hh).2.1
              have hs : decStep (b :: b1 :: b2 :: b3 :: t) = (0xDC00 + b.toNat, 1) := by
                simp [decStep, h1, r2, r3, r4, hok]
              simp [decStepR, h1, h2, h3, h4, hc1, hF0.1, hF0.2, esc1 b _ hs]
            · by_cases hF4 : b.toNat = 0xF4 ∧ 0x90 ≤ b1.toNat
              · have hok : ok4 b.toNat b1.toNat = false := by
                  cases hh : ok4 b.toNat b1.toNat with
                  | false => rfl
                  | true => exact absurd hF4 ((ok4_iff _ _).mp hh).2.2
                have hs : decStep (b :: b1 :: b2 :: b3 :: t) = (0xDC00 + b.toNat, 1) := by
                  simp [decStep, h1, r2, r3, r4, hok]
                have hne : ¬ (b.toNat = 0xF0) := by omega
                simp [decStepR, h1, h2, h3, h4, hc1, hne, hF4.1, hF4.2, esc1 b _ hs]
              · have hok : ok4 b.toNat b1.toNat = true := (ok4_iff _ _).mpr ⟨hc1, hF0, hF4⟩
                have g1 : (b.toNat == 0xF0 && decide (b1.toNat < 0x90)) = false := by
                  cases hx : (b.toNat == 0xF0 && decide (b1.toNat < 0x90)) with
                  | false => rfl
                  | true => simp at hx; exact absurd hx hF0
                have g2 : (b.toNat == 0xF4 && decide (0x90 ≤ b1.toNat)) = false := by
                  cases hx : (b.toNat == 0xF4 && decide (0x90 ≤ b1.toNat)) with
                  | false => rfl
                  | true => simp at hx; exact absurd hx hF4
                by_cases hc2 : isCont b2.toNat = true
                · by_cases hc3 : isCont b3.toNat = true
                  · have hs : decStep (b :: b1 :: b2 :: b3 :: t) =
                        ((b.toNat - 0xF0) * 262144 + (b1.toNat - 0x80) * 4096 + (b2.toNat - 0x80) * 64
                          + (b3.toNat - 0x80), 4) := by
                      simp [decStep, h1, r2, r3, r4, hok, hc2, hc3]
                    simp [decStepR, h1, h2, h3, h4, hc1, g1, g2, hc2, hc3, native_of_step b _ _ _ hs]
                  · have hs : decStep (b :: b1 :: b2 :: b3 :: t) = (0xDC00 + b.toNat, 1) := by
                      simp [decStep, h1, r2, r3, r4, hok, hc2, hc3]
                    simp [decStepR, h1, h2, h3, h4, hc1, g1, g2, hc2, hc3, esc3 b b1 b2 _ hs hc1 hc2]
                · have hs : decStep (b :: b1 :: b2 :: b3 :: t) = (0xDC00 + b.toNat, 1) := by
                    simp [decStep, h1, r2, r3, r4, hok, hc2]
                  simp [decStepR, h1, h2, h3, h4, hc1, g1, g2, hc2, esc2 b b1 _ hs hc1]
          · have hok : ok4 b.toNat b1.toNat = false := by
              cases hh : ok4 b.toNat b1.toNat with
              | false => rfl
              | true => exact absurd ((ok4_iff _ _).mp hh).1 hc1
            have hs : decStep (b :: b1 :: b2 :: b3 :: t) = (0xDC00 + b.toNat, 1) := by
              simp [decStep, h1, r2, r3, r4, hok]
            simp [decStepR, h1, h2, h3, h4, hc1, esc1 b _ hs]
  · have r2 : ¬ (0xC2 ≤ b.toNat ∧ b.toNat ≤ 0xDF) := by omega
    have r3 : ¬ (0xE0 ≤ b.toNat ∧ b.toNat ≤ 0xEF) := by omega
    have r4 : ¬ (0xF0 ≤ b.toNat ∧ b.toNat ≤ 0xF4) := by omega
    have hs : decStep (b :: t) = (0xDC00 + b.toNat, 1) := by simp [decStep, h1, r2, r3, r4]
    simp [decStepR, h1, h2, h3, h4, esc1 b t hs]

/-- **CPython's range-based surrogateescape decoding = the byte-at-a-time model**, for every byte string -/
theorem decFR_eq_native : ∀ (f : Nat) (bs : Bytes), bs.length ≤ f → decFR f bs = native bs := by
  intro f
  induction f with
  | zero => intro bs h; cases bs with
    | nil => rfl
    | cons b t => simp at h
  | succ f ih =>
    intro bs h
    cases bs with
    | nil => rfl
    | cons b t =>
      obtain ⟨h1, h2, h3⟩ := stepR_spec b t
      have hl : ((b :: t).drop (decStepR (b :: t)).2).length ≤ f := by
        simp only [List.length_drop, List.length_cons] at *; omega
      simp only [decFR]
      rw [ih _ hl, ← h3]

end MitmVerif.C35.StrLemmas
