/-
  C35 — lemmas about the utf-8/surrogateescape codec model (`Model/C35_Str.lean`): one decoding step emits a code
  point whose encoding is exactly the bytes it consumed; hence `encodeSE (native b) = some b` for every byte string.
-/
import MitmVerif.Model.C35_Str
namespace MitmVerif.C35.StrLemmas
open MitmVerif MitmVerif.C35

theorem ofNat_of_eq (b : UInt8) (n : Nat) (h : n = b.toNat) : UInt8.ofNat n = b := by
  subst h; exact UInt8.ofNat_toNat

theorem esc_ok (b : UInt8) (h : 0x80 ≤ b.toNat) : enc1 (0xDC00 + b.toNat) = some [b] := by
  have hb := UInt8.toNat_lt b
  have h1 : ¬ (0xDC00 + b.toNat < 0x80) := by omega
  have h2 : ¬ (0xDC00 + b.toNat < 0x800) := by omega
  have h3 : 0xD800 ≤ 0xDC00 + b.toNat ∧ 0xDC00 + b.toNat ≤ 0xDFFF := by omega
  have h4 : 0xDC80 ≤ 0xDC00 + b.toNat ∧ 0xDC00 + b.toNat ≤ 0xDCFF := by omega
  simp only [enc1, h1, h2, h3, h4, if_true, if_false, and_self]
  rw [ofNat_of_eq b _ (by omega)]

theorem ascii_ok (b : UInt8) (h : b.toNat < 0x80) : enc1 b.toNat = some [b] := by
  simp only [enc1, h, if_true]
  rw [ofNat_of_eq b _ rfl]

theorem enc2_ok (b0 b1 : UInt8) (h0 : 0xC2 ≤ b0.toNat ∧ b0.toNat ≤ 0xDF) (h1 : isCont b1.toNat = true) :
    enc1 ((b0.toNat - 0xC0) * 64 + (b1.toNat - 0x80)) = some [b0, b1] := by
  simp only [isCont, Bool.and_eq_true, decide_eq_true_eq] at h1
  have c1 : ¬ ((b0.toNat - 0xC0) * 64 + (b1.toNat - 0x80) < 0x80) := by omega
  have c2 : (b0.toNat - 0xC0) * 64 + (b1.toNat - 0x80) < 0x800 := by omega
  simp only [enc1, c1, c2, if_true, if_false]
  rw [ofNat_of_eq b0 _ (by omega), ofNat_of_eq b1 _ (by omega)]

theorem enc3_ok (b0 b1 b2 : UInt8) (h0 : 0xE0 ≤ b0.toNat ∧ b0.toNat ≤ 0xEF)
    (h1 : ok3 b0.toNat b1.toNat = true) (h2 : isCont b2.toNat = true) :
    enc1 ((b0.toNat - 0xE0) * 4096 + (b1.toNat - 0x80) * 64 + (b2.toNat - 0x80)) = some [b0, b1, b2] := by
  simp only [ok3, isCont, Bool.and_eq_true, Bool.or_eq_true, decide_eq_true_eq, bne_iff_ne, ne_eq] at h1 h2
  obtain ⟨⟨⟨h1a, h1b⟩, h1c⟩, h1d⟩ := h1
  have hE0 : b0.toNat = 0xE0 → 0xA0 ≤ b1.toNat := fun e => by rcases h1c with h | h; exact absurd e h; exact h
  have hED : b0.toNat = 0xED → b1.toNat ≤ 0x9F := fun e => by rcases h1d with h | h; exact absurd e h; exact h
  have c1 : ¬ ((b0.toNat - 0xE0) * 4096 + (b1.toNat - 0x80) * 64 + (b2.toNat - 0x80) < 0x80) := by
    by_cases e : b0.toNat = 0xE0
    · have := hE0 e; omega
    · omega
  have c2 : ¬ ((b0.toNat - 0xE0) * 4096 + (b1.toNat - 0x80) * 64 + (b2.toNat - 0x80) < 0x800) := by
    by_cases e : b0.toNat = 0xE0
    · have := hE0 e; omega
    · omega
  have c3 : ¬ (0xD800 ≤ (b0.toNat - 0xE0) * 4096 + (b1.toNat - 0x80) * 64 + (b2.toNat - 0x80) ∧
      (b0.toNat - 0xE0) * 4096 + (b1.toNat - 0x80) * 64 + (b2.toNat - 0x80) ≤ 0xDFFF) := by
    by_cases e : b0.toNat = 0xED
    · have := hED e; omega
    · omega
  have c4 : (b0.toNat - 0xE0) * 4096 + (b1.toNat - 0x80) * 64 + (b2.toNat - 0x80) < 0x10000 := by omega
  simp only [enc1, c1, c2, c3, c4, if_true, if_false]
  rw [ofNat_of_eq b0 _ (by omega), ofNat_of_eq b1 _ (by omega), ofNat_of_eq b2 _ (by omega)]

theorem enc4_ok (b0 b1 b2 b3 : UInt8) (h0 : 0xF0 ≤ b0.toNat ∧ b0.toNat ≤ 0xF4)
    (h1 : ok4 b0.toNat b1.toNat = true) (h2 : isCont b2.toNat = true) (h3 : isCont b3.toNat = true) :
    enc1 ((b0.toNat - 0xF0) * 262144 + (b1.toNat - 0x80) * 4096 + (b2.toNat - 0x80) * 64 + (b3.toNat - 0x80))
      = some [b0, b1, b2, b3] := by
  simp only [ok4, isCont, Bool.and_eq_true, Bool.or_eq_true, decide_eq_true_eq, bne_iff_ne, ne_eq] at h1 h2 h3
  obtain ⟨⟨⟨h1a, h1b⟩, h1c⟩, h1d⟩ := h1
  have hF0 : b0.toNat = 0xF0 → 0x90 ≤ b1.toNat := fun e => by rcases h1c with h | h; exact absurd e h; exact h
  have hF4 : b0.toNat = 0xF4 → b1.toNat ≤ 0x8F := fun e => by rcases h1d with h | h; exact absurd e h; exact h
  have lo : 0x10000 ≤ (b0.toNat - 0xF0) * 262144 + (b1.toNat - 0x80) * 4096 + (b2.toNat - 0x80) * 64 + (b3.toNat - 0x80) := by
    by_cases e : b0.toNat = 0xF0
    · have := hF0 e; omega
    · omega
  have hi : (b0.toNat - 0xF0) * 262144 + (b1.toNat - 0x80) * 4096 + (b2.toNat - 0x80) * 64 + (b3.toNat - 0x80) < 0x110000 := by
    by_cases e : b0.toNat = 0xF4
    · have := hF4 e; omega
    · omega
  have c1 : ¬ ((b0.toNat - 0xF0) * 262144 + (b1.toNat - 0x80) * 4096 + (b2.toNat - 0x80) * 64 + (b3.toNat - 0x80) < 0x80) := by omega
  have c2 : ¬ ((b0.toNat - 0xF0) * 262144 + (b1.toNat - 0x80) * 4096 + (b2.toNat - 0x80) * 64 + (b3.toNat - 0x80) < 0x800) := by omega
  have c3 : ¬ (0xD800 ≤ (b0.toNat - 0xF0) * 262144 + (b1.toNat - 0x80) * 4096 + (b2.toNat - 0x80) * 64 + (b3.toNat - 0x80) ∧
      (b0.toNat - 0xF0) * 262144 + (b1.toNat - 0x80) * 4096 + (b2.toNat - 0x80) * 64 + (b3.toNat - 0x80) ≤ 0xDFFF) := by omega
  have c4 : ¬ ((b0.toNat - 0xF0) * 262144 + (b1.toNat - 0x80) * 4096 + (b2.toNat - 0x80) * 64 + (b3.toNat - 0x80) < 0x10000) := by omega
  simp only [enc1, c1, c2, c3, c4, hi, if_true, if_false]
  rw [ofNat_of_eq b0 _ (by omega), ofNat_of_eq b1 _ (by omega), ofNat_of_eq b2 _ (by omega), ofNat_of_eq b3 _ (by omega)]

/-- one decoding step consumes 1–4 bytes and emits a code point whose encoding is exactly those bytes -/
theorem decStep_spec (b : UInt8) (t : Bytes) :
    1 ≤ (decStep (b :: t)).2 ∧ (decStep (b :: t)).2 ≤ (b :: t).length ∧
    enc1 (decStep (b :: t)).1 = some ((b :: t).take (decStep (b :: t)).2) := by
  have hb := UInt8.toNat_lt b
  by_cases h1 : b.toNat < 0x80
  · simp [decStep, h1, ascii_ok b h1]
  have hesc := esc_ok b (by omega)
  by_cases h2 : 0xC2 ≤ b.toNat ∧ b.toNat ≤ 0xDF
  · cases t with
    | nil => simp [decStep, h1, h2, hesc]
    | cons b1 t =>
      by_cases hc : isCont b1.toNat = true
      · simp [decStep, h1, h2, hc, enc2_ok b b1 h2 hc]
      · simp [decStep, h1, h2, hc, hesc]
  by_cases h3 : 0xE0 ≤ b.toNat ∧ b.toNat ≤ 0xEF
  · cases t with
    | nil => simp [decStep, h1, h2, h3, hesc]
    | cons b1 t =>
      cases t with
      | nil => simp [decStep, h1, h2, h3, hesc]
      | cons b2 t =>
        by_cases hc : (ok3 b.toNat b1.toNat && isCont b2.toNat) = true
        · have hc' := hc
          simp only [Bool.and_eq_true] at hc'
          simp [decStep, h1, h2, h3, hc, enc3_ok b b1 b2 h3 hc'.1 hc'.2]
        · simp [decStep, h1, h2, h3, hc, hesc]
  by_cases h4 : 0xF0 ≤ b.toNat ∧ b.toNat ≤ 0xF4
  · cases t with
    | nil => simp [decStep, h1, h2, h3, h4, hesc]
    | cons b1 t =>
      cases t with
      | nil => simp [decStep, h1, h2, h3, h4, hesc]
      | cons b2 t =>
        cases t with
        | nil => simp [decStep, h1, h2, h3, h4, hesc]
        | cons b3 t =>
          by_cases hc : (ok4 b.toNat b1.toNat && isCont b2.toNat && isCont b3.toNat) = true
          · have hc' := hc
            simp only [Bool.and_eq_true] at hc'
            simp [decStep, h1, h2, h3, h4, hc, enc4_ok b b1 b2 b3 h4 hc'.1.1 hc'.1.2 hc'.2]
          · simp [decStep, h1, h2, h3, h4, hc, hesc]
  simp [decStep, h1, h2, h3, h4, hesc]

theorem encode_decF : ∀ (f : Nat) (bs : Bytes), bs.length ≤ f → encodeSE (decF f bs) = some bs := by
  intro f
  induction f with
  | zero => intro bs h; cases bs with
    | nil => rfl
    | cons b t => simp at h
  | succ f ih =>
    intro bs h
    cases bs with
    | nil => rfl
    | cons b t =>
      obtain ⟨h1, h2, h3⟩ := decStep_spec b t
      have hlen : ((b :: t).drop (decStep (b :: t)).2).length ≤ f := by
        simp only [List.length_drop, List.length_cons] at *; omega
      simp only [decF, encodeSE, h3, ih _ hlen, List.take_append_drop]

end MitmVerif.C35.StrLemmas
