/-
  C36 — helper lemmas about the tnetstring model (decimal numbers, Python int() on decimal output,
  framing, value induction principle).
-/
import MitmVerif.Model.C36
namespace MitmVerif.C36

-- ------------------------------------------------------------------------------------------------
-- decimal
-- ------------------------------------------------------------------------------------------------
theorem natDecF_fuel : ∀ f g n, n ≤ f → n ≤ g → natDecF f n = natDecF g n := by
  intro f
  induction f with
  | zero =>
    intro g n hf hg
    have : n = 0 := by omega
    subst this
    cases g <;> simp [natDecF]
  | succ f ih =>
    intro g n hf hg
    cases g with
    | zero =>
      have : n = 0 := by omega
      subst this
      simp [natDecF]
    | succ g =>
      simp only [natDecF]
      split
      · rfl
      · rw [ih g (n / 10) (by omega) (by omega)]

theorem natDec_eq (n : Nat) :
    natDec n = if n < 10 then [digitB n] else natDec (n / 10) ++ [digitB (n % 10)] := by
  unfold natDec
  cases n with
  | zero => simp [natDecF]
  | succ m =>
    simp only [natDecF]
    split
    · rfl
    · rw [natDecF_fuel m ((m + 1) / 10) ((m + 1) / 10) (by omega) (by omega)]

theorem isDigit_digitB (n : Nat) (h : n < 10) : isDigit (digitB n) = true := by
  have : ∀ k : Fin 10, isDigit (digitB k.val) = true := by decide
  exact this ⟨n, h⟩

theorem digitB_val (n : Nat) (h : n < 10) : (digitB n).toNat - 48 = n := by
  have : ∀ k : Fin 10, (digitB k.val).toNat - 48 = k.val := by decide
  exact this ⟨n, h⟩

theorem natDec_digits (n : Nat) : ∀ c ∈ natDec n, isDigit c = true := by
  induction n using Nat.strongRecOn with
  | _ n ih =>
    rw [natDec_eq]
    split
    · intro c hc; simp at hc; subst hc; exact isDigit_digitB n (by omega)
    · intro c hc
      simp at hc
      rcases hc with hc | hc
      · exact ih (n / 10) (by omega) c hc
      · subst hc; exact isDigit_digitB _ (by omega)

theorem natDec_ne_nil (n : Nat) : natDec n ≠ [] := by
  rw [natDec_eq]; split <;> simp

theorem natDec_len_pos (n : Nat) : 1 ≤ (natDec n).length := by
  have := natDec_ne_nil n
  cases h : natDec n with
  | nil => exact absurd h this
  | cons _ _ => simp

theorem foldl_decStep_natDec (n : Nat) : ∀ a, (natDec n).foldl decStep a = a * 10 ^ (natDec n).length + n := by
  induction n using Nat.strongRecOn with
  | _ n ih =>
    intro a
    rw [natDec_eq]
    split
    · rename_i h
      simp [decStep, digitB_val n h]
    · rename_i h
      rw [List.foldl_append, ih (n / 10) (by omega)]
      simp only [List.foldl_cons, List.foldl_nil, decStep, List.length_append, List.length_cons,
        List.length_nil, digitB_val (n % 10) (by omega)]
      rw [Nat.pow_succ]
      have : a * (10 ^ (natDec (n / 10)).length * 10) = a * 10 ^ (natDec (n / 10)).length * 10 := by
        rw [Nat.mul_assoc]
      rw [this, Nat.add_mul]
      omega

theorem decVal_natDec (n : Nat) : decVal (natDec n) = n := by
  simp [decVal, foldl_decStep_natDec]

theorem natDec_len_le (n : Nat) : ∀ k, 0 < k → n < 10 ^ k → (natDec n).length ≤ k := by
  induction n using Nat.strongRecOn with
  | _ n ih =>
    intro k hk hn
    rw [natDec_eq]
    split
    · simp; omega
    · rename_i h
      have hk2 : 2 ≤ k := by
        rcases Nat.lt_or_ge k 2 with h2 | h2
        · have : k = 1 := by omega
          subst this; simp at hn; omega
        · exact h2
      have hlt : n / 10 < 10 ^ (k - 1) := by
        apply Nat.div_lt_of_lt_mul
        have : 10 ^ k = 10 * 10 ^ (k - 1) := by
          have : k = (k - 1) + 1 := by omega
          rw [this, Nat.pow_succ, Nat.mul_comm]; simp
        omega
      have := ih (n / 10) (by omega) (k - 1) (by omega) hlt
      simp; omega

/-- a decimal has at most as many digits as its value (for values ≥ 1), so `≤ n` bounds are cheap -/
theorem natDec_len_le_self (n : Nat) : (natDec n).length ≤ n + 1 := by
  induction n using Nat.strongRecOn with
  | _ n ih =>
    rw [natDec_eq]
    split
    · simp
    · have := ih (n / 10) (by omega)
      simp; omega

-- ------------------------------------------------------------------------------------------------
-- Python int() on decimal output
-- ------------------------------------------------------------------------------------------------
theorem digit_not_special (c : UInt8) (h : isDigit c = true) :
    isSpace c = false ∧ c ≠ 0x2d ∧ c ≠ 0x2b ∧ c ≠ 0x5f ∧ c ≠ 0x3a := by
  simp only [isDigit, Bool.and_eq_true, decide_eq_true_eq] at h
  refine ⟨?_, ?_, ?_, ?_, ?_⟩
  · simp only [isSpace, Bool.or_eq_false_iff, Bool.and_eq_false_iff, decide_eq_false_iff_not]
    omega
  all_goals (intro hc; subst hc; simp at h)

theorem scanDigits_digits : ∀ (ds : Bytes), ds ≠ [] → (∀ c ∈ ds, isDigit c = true) →
    ∀ rest pu acc nd, scanDigits (ds ++ rest) pu acc nd
      = scanDigits rest false (ds.foldl decStep acc) (nd + ds.length) := by
  intro ds
  induction ds with
  | nil => intro h; exact absurd rfl h
  | cons c t ih =>
    intro _ hd rest pu acc nd
    have hc : isDigit c = true := hd c (by simp)
    simp only [List.cons_append, scanDigits, hc, if_true, List.foldl_cons, List.length_cons]
    by_cases ht : t = []
    · subst ht; simp
    · rw [ih ht (fun c hc => hd c (by simp [hc]))]
      congr 1; omega

theorem pyIntSM_natDec (n : Nat) (h : (natDec n).length ≤ maxStrDigits) :
    pyIntSM (natDec n) = some (false, n) := by
  have hne := natDec_ne_nil n
  have hd := natDec_digits n
  cases hs : natDec n with
  | nil => exact absurd hs hne
  | cons c t =>
    have hc : isDigit c = true := hd c (by simp [hs])
    obtain ⟨h1, h2, h3, h4, _⟩ := digit_not_special c hc
    have hscan := scanDigits_digits (natDec n) hne hd [] false 0 0
    rw [hs] at hscan
    simp only [List.append_nil] at hscan
    have hv : (c :: t).foldl decStep 0 = n := by
      have := decVal_natDec n
      rw [hs] at this; exact this
    have hlen : (c :: t).length ≤ maxStrDigits := by rw [← hs]; exact h
    unfold pyIntSM
    simp only [List.dropWhile_cons, h1, List.head?_cons, Option.some.injEq, h2, h3, h4,
      Bool.false_eq_true, if_false, decide_false, Bool.or_self]
    rw [hscan, hv]
    simp only [scanDigits, Bool.false_eq_true, if_false]
    have : ¬ (0 + (c :: t).length = 0) := by simp
    have h' : ¬ (0 + (c :: t).length > maxStrDigits) := by omega
    rw [if_neg this, if_neg h']
    simp

theorem pyIntSM_intDec (i : Int) (h : (natDec i.natAbs).length ≤ maxStrDigits) :
    (pyIntSM (intDec i)).map smToInt = some i := by
  unfold intDec
  split
  · rename_i hneg
    -- "-" followed by the magnitude
    have hne := natDec_ne_nil i.natAbs
    have hd := natDec_digits i.natAbs
    cases hs : natDec i.natAbs with
    | nil => exact absurd hs hne
    | cons c t =>
      have hc : isDigit c = true := hd c (by simp [hs])
      obtain ⟨h1, h2, h3, h4, _⟩ := digit_not_special c hc
      have hscan := scanDigits_digits (natDec i.natAbs) hne hd [] false 0 0
      rw [hs] at hscan
      simp only [List.append_nil] at hscan
      have hv : (c :: t).foldl decStep 0 = i.natAbs := by
        have := decVal_natDec i.natAbs
        rw [hs] at this; exact this
      have hlen : (c :: t).length ≤ maxStrDigits := by rw [← hs]; exact h
      have hsp : isSpace 0x2d = false := by decide
      unfold pyIntSM
      simp only [List.dropWhile_cons, hsp, List.head?_cons, Bool.false_eq_true, if_false, decide_true,
        Bool.true_or, if_true, List.drop_succ_cons, List.drop_zero, Option.some.injEq, h4]
      rw [hscan, hv]
      simp only [scanDigits, Bool.false_eq_true, if_false]
      have : ¬ (0 + (c :: t).length = 0) := by simp
      have h' : ¬ (0 + (c :: t).length > maxStrDigits) := by omega
      rw [if_neg this, if_neg h']
      simp only [List.dropWhile_nil, List.isEmpty_nil, Bool.not_true, Bool.false_eq_true, if_false,
        Option.map_some, smToInt, if_true]
      congr 1; omega
  · rename_i hpos
    rw [pyIntSM_natDec _ h]
    simp only [Option.map_some, smToInt, Bool.false_eq_true, if_false]
    congr 1; omega

-- ------------------------------------------------------------------------------------------------
-- split / slice3 on a frame
-- ------------------------------------------------------------------------------------------------
theorem splitColon_digits : ∀ (ds : Bytes), (∀ c ∈ ds, isDigit c = true) → ∀ rest,
    splitColon (ds ++ 0x3a :: rest) = some (ds, rest) := by
  intro ds
  induction ds with
  | nil => intro _ rest; simp [splitColon]
  | cons c t ih =>
    intro hd rest
    have hc := (digit_not_special c (hd c (by simp))).2.2.2.2
    simp only [List.cons_append, splitColon, hc, if_false, ih (fun c hc => hd c (by simp [hc])) rest,
      Option.map_some]

theorem split_frame (n : Nat) (body : Bytes) (h : (natDec n).length ≤ maxStrDigits) :
    split (natDec n ++ 0x3a :: body) = .ok ((false, n), body) := by
  simp [split, splitColon_digits _ (natDec_digits n), pyIntSM_natDec n h]

theorem slice3_frame (payload : Bytes) (tag : UInt8) (r : Bytes) :
    slice3 (payload ++ tag :: r) (false, payload.length) = some (payload, tag, r) := by
  simp [slice3]

theorem frame_append (payload : Bytes) (tag : UInt8) (r : Bytes) :
    frame payload tag ++ r = natDec payload.length ++ 0x3a :: (payload ++ tag :: r) := by
  simp [frame]

theorem frame_length (payload : Bytes) (tag : UInt8) :
    (frame payload tag).length = (natDec payload.length).length + 2 + payload.length := by
  simp [frame]; omega

-- ------------------------------------------------------------------------------------------------
-- induction over values; list views of the mutual definitions
-- ------------------------------------------------------------------------------------------------
section Induct
variable {P : Value → Prop}
  (hnull : P .null) (hbool : ∀ b, P (.bool b)) (hint : ∀ i, P (.int i)) (hfloat : ∀ t, P (.float t))
  (hbytes : ∀ b, P (.bytes b)) (hstr : ∀ b, P (.str b))
  (hlist : ∀ l : List Value, (∀ v ∈ l, P v) → P (.list l))
  (hdict : ∀ kvs : List (Value × Value), (∀ p ∈ kvs, P p.1 ∧ P p.2) → P (.dict kvs))
include hnull hbool hint hfloat hbytes hstr hlist hdict

mutual
theorem Value.ind : ∀ v : Value, P v
  | .null => hnull
  | .bool b => hbool b
  | .int i => hint i
  | .float t => hfloat t
  | .bytes b => hbytes b
  | .str b => hstr b
  | .list l => hlist l (Value.indList l)
  | .dict kvs => hdict kvs (Value.indPairs kvs)
theorem Value.indList : ∀ l : List Value, ∀ v ∈ l, P v
  | [] => by intro v hv; cases hv
  | x :: t => by
    intro v hv
    rcases List.mem_cons.mp hv with h | h
    · rw [h]; exact Value.ind x
    · exact Value.indList t v h
theorem Value.indPairs : ∀ kvs : List (Value × Value), ∀ p ∈ kvs, P p.1 ∧ P p.2
  | [] => by intro p hp; cases hp
  | (k, v) :: t => by
    intro p hp
    rcases List.mem_cons.mp hp with h | h
    · rw [h]; exact ⟨Value.ind k, Value.ind v⟩
    · exact Value.indPairs t p h
end
end Induct

/-- forward encoding of a list of pairs (what `popDict` consumes front to back) -/
def encPairs : List (Value × Value) → Bytes
  | [] => []
  | p :: t => enc p.1 ++ enc p.2 ++ encPairs t

theorem encPairs_append (a b : List (Value × Value)) : encPairs (a ++ b) = encPairs a ++ encPairs b := by
  induction a with
  | nil => simp [encPairs]
  | cons p t ih => simp [encPairs, ih]

theorem encPairsRev_eq (kvs : List (Value × Value)) : encPairsRev kvs = encPairs kvs.reverse := by
  induction kvs with
  | nil => simp [encPairsRev, encPairs]
  | cons p t ih =>
    obtain ⟨k, v⟩ := p
    simp [encPairsRev, ih, encPairs_append, encPairs]

def mirrorPair (p : Value × Value) : Value × Value := (mirror p.1, mirror p.2)

theorem mirrorList_eq (l : List Value) : mirrorList l = l.map mirror := by
  induction l with
  | nil => simp [mirrorList]
  | cons v t ih => simp [mirrorList, ih]

theorem mirrorPairsRev_eq (kvs : List (Value × Value)) : mirrorPairsRev kvs = (kvs.reverse).map mirrorPair := by
  induction kvs with
  | nil => simp [mirrorPairsRev]
  | cons p t ih =>
    obtain ⟨k, v⟩ := p
    simp [mirrorPairsRev, ih, mirrorPair]

theorem WFList_iff (l : List Value) : WFList l ↔ ∀ v ∈ l, WF v := by
  induction l with
  | nil => simp [WFList]
  | cons v t ih => simp [WFList, ih]

theorem WFPairs_iff (kvs : List (Value × Value)) :
    WFPairs kvs ↔ ∀ p ∈ kvs, WF p.1 ∧ hashable p.1 = true ∧ WF p.2 := by
  induction kvs with
  | nil => simp [WFPairs]
  | cons p t ih => obtain ⟨k, v⟩ := p; simp [WFPairs, ih]

theorem depthList_le (l : List Value) (d : Nat) : depthList l ≤ d ↔ ∀ v ∈ l, depth v + 1 ≤ d := by
  induction l with
  | nil => simp [depthList]
  | cons v t ih => simp [depthList, Nat.max_le, ih]

theorem depthPairs_le (kvs : List (Value × Value)) (d : Nat) :
    depthPairs kvs ≤ d ↔ ∀ p ∈ kvs, depth p.1 + 1 ≤ d ∧ depth p.2 + 1 ≤ d := by
  induction kvs with
  | nil => simp [depthPairs]
  | cons p t ih =>
    obtain ⟨k, v⟩ := p
    simp only [depthPairs, Nat.max_le, ih, List.mem_cons, forall_eq_or_imp]

theorem enc_length_ge (v : Value) : 3 ≤ (enc v).length := by
  have hp := natDec_len_pos
  cases v with
  | null => simp only [enc, frame_length]; have := hp ([] : Bytes).length; omega
  | bool x => simp only [enc, frame_length]; have := hp (if x = true then bTrue else bFalse).length; omega
  | int x => simp only [enc, frame_length]; have := hp (intDec x).length; omega
  | float x => simp only [enc, frame_length]; have := hp x.length; omega
  | bytes x => simp only [enc, frame_length]; have := hp x.length; omega
  | str x => simp only [enc, frame_length]; have := hp x.length; omega
  | list x => simp only [enc, frame_length]; have := hp (encList x).length; omega
  | dict x => simp only [enc, frame_length]; have := hp (encPairsRev x).length; omega

-- ------------------------------------------------------------------------------------------------
-- pop on a frame; the round trip
-- ------------------------------------------------------------------------------------------------
theorem span_ok (n : Nat) (h : n < sizeLimit) : (natDec n).length ≤ maxStrDigits :=
  natDec_len_le n maxStrDigits (by decide) h

theorem pop_frame (f d : Nat) (payload : Bytes) (tag : UInt8) (r : Bytes)
    (h : (natDec payload.length).length ≤ maxStrDigits) :
    pop (f + 1) d (frame payload tag ++ r) =
      (if tag = 0x5d then
        match popList f d payload with
        | .ok l => .ok (.list l, r)
        | .error e => .error e
      else if tag = 0x7d then
        match popDict f d payload with
        | .ok kvs => .ok (.dict kvs, r)
        | .error e => .error e
      else
        match parseScalar tag payload with
        | .ok v => .ok (v, r)
        | .error e => .error e) := by
  rw [frame_append]
  simp only [pop, split_frame _ _ h, slice3_frame]
  rfl

theorem hashable_mirror (k : Value) (h : hashable k = true) : mirror k = k := by
  cases k <;> simp [hashable] at h <;> simp [mirror]

/-- the round-trip statement for one value, for every fuel ≥ the encoded length and every head-room ≥ depth -/
def RT (v : Value) : Prop :=
  ∀ (r : Bytes) (f d : Nat), WF v → (enc v).length < sizeLimit → (enc v).length ≤ f → depth v ≤ d →
    pop f d (enc v ++ r) = .ok (mirror v, r)

theorem cons_of_enc_append (v : Value) (rest : Bytes) : ∃ c cs, enc v ++ rest = c :: cs := by
  have := enc_length_ge v
  cases h : enc v with
  | nil => rw [h] at this; simp at this
  | cons c cs => exact ⟨c, cs ++ rest, by simp⟩

theorem popList_encList : ∀ (l : List Value), (∀ v ∈ l, RT v) → ∀ f d, (∀ v ∈ l, WF v) →
    (encList l).length < sizeLimit → (encList l).length + 1 ≤ f → (∀ v ∈ l, depth v + 1 ≤ d) →
    popList f d (encList l) = .ok (l.map mirror) := by
  intro l
  induction l with
  | nil => intro _ f d _ _ _ _; simp [encList, popList]
  | cons v t ih =>
    intro hrt f d hwf hsz hf hd
    have hv := hrt v (by simp)
    have hlen3 := enc_length_ge v
    have henc : encList (v :: t) = enc v ++ encList t := by simp [encList]
    rw [henc] at hsz hf ⊢
    simp only [List.length_append] at hsz hf
    obtain ⟨c, cs, hcs⟩ := cons_of_enc_append v (encList t)
    cases f with
    | zero => omega
    | succ f' =>
      have hd0 : d ≠ 0 := by have := hd v (by simp); omega
      rw [hcs]
      simp only [popList, hd0, if_false]
      rw [← hcs, hv (encList t) f' (d - 1) (hwf v (by simp)) (by omega) (by omega)
        (by have := hd v (by simp); omega)]
      simp only []
      rw [ih (fun x hx => hrt x (by simp [hx])) f' d (fun x hx => hwf x (by simp [hx])) (by omega) (by omega)
        (fun x hx => hd x (by simp [hx]))]
      simp

theorem popDict_encPairs : ∀ (ps : List (Value × Value)), (∀ p ∈ ps, RT p.1 ∧ RT p.2) → ∀ f d,
    (∀ p ∈ ps, WF p.1 ∧ hashable p.1 = true ∧ WF p.2) →
    (encPairs ps).length < sizeLimit → (encPairs ps).length + 1 ≤ f →
    (∀ p ∈ ps, depth p.1 + 1 ≤ d ∧ depth p.2 + 1 ≤ d) →
    popDict f d (encPairs ps) = .ok (ps.map mirrorPair) := by
  intro ps
  induction ps with
  | nil => intro _ f d _ _ _ _; simp [encPairs, popDict]
  | cons p t ih =>
    intro hrt f d hwf hsz hf hd
    obtain ⟨hk, hv⟩ := hrt p (by simp)
    obtain ⟨hwk, hhk, hwv⟩ := hwf p (by simp)
    obtain ⟨hdk, hdv⟩ := hd p (by simp)
    have hk3 := enc_length_ge p.1
    have hv3 := enc_length_ge p.2
    have henc : encPairs (p :: t) = enc p.1 ++ (enc p.2 ++ encPairs t) := by simp [encPairs]
    rw [henc] at hsz hf ⊢
    simp only [List.length_append] at hsz hf
    obtain ⟨c, cs, hcs⟩ := cons_of_enc_append p.1 (enc p.2 ++ encPairs t)
    cases f with
    | zero => omega
    | succ f' =>
      have hd0 : d ≠ 0 := by omega
      rw [hcs]
      simp only [popDict, hd0, if_false]
      rw [← hcs, hk (enc p.2 ++ encPairs t) f' (d - 1) hwk (by omega) (by omega) (by omega)]
      simp only []
      rw [hv (encPairs t) f' (d - 1) hwv (by omega) (by omega) (by omega)]
      simp only [hashable_mirror p.1 hhk, hhk, Bool.not_true, Bool.false_eq_true, if_false]
      rw [ih (fun x hx => hrt x (by simp [hx])) f' d (fun x hx => hwf x (by simp [hx])) (by omega) (by omega)
        (fun x hx => hd x (by simp [hx]))]
      simp [mirrorPair, hashable_mirror p.1 hhk]

theorem pop_enc : ∀ v : Value, RT v := by
  apply Value.ind
  · -- null
    intro r f d _ hsz hf _
    cases f with
    | zero => have := enc_length_ge .null; omega
    | succ f' =>
      simp only [enc] at hsz ⊢
      rw [pop_frame _ _ _ _ _ (span_ok _ (by rw [frame_length] at hsz; omega))]
      simp [parseScalar, mirror]
  · -- bool
    intro b r f d _ hsz hf _
    cases f with
    | zero => have := enc_length_ge (.bool b); omega
    | succ f' =>
      simp only [enc] at hsz ⊢
      rw [pop_frame _ _ _ _ _ (span_ok _ (by rw [frame_length] at hsz; omega))]
      cases b <;> simp [parseScalar, mirror, bTrue, bFalse]
  · -- int
    intro i r f d hwf hsz hf _
    cases f with
    | zero => have := enc_length_ge (.int i); omega
    | succ f' =>
      simp only [enc] at hsz ⊢
      rw [pop_frame _ _ _ _ _ (span_ok _ (by rw [frame_length] at hsz; omega))]
      have h := pyIntSM_intDec i hwf
      cases hp : pyIntSM (intDec i) with
      | none => rw [hp] at h; simp at h
      | some sm =>
        rw [hp] at h
        simp only [Option.map_some, Option.some.injEq] at h
        simp [parseScalar, hp, h, mirror]
  · -- float
    intro t r f d hwf hsz hf _
    cases f with
    | zero => have := enc_length_ge (.float t); omega
    | succ f' =>
      simp only [enc] at hsz ⊢
      rw [pop_frame _ _ _ _ _ (span_ok _ (by rw [frame_length] at hsz; omega))]
      simp only [WF] at hwf
      simp [parseScalar, hwf, mirror]
  · -- bytes
    intro b r f d _ hsz hf _
    cases f with
    | zero => have := enc_length_ge (.bytes b); omega
    | succ f' =>
      simp only [enc] at hsz ⊢
      rw [pop_frame _ _ _ _ _ (span_ok _ (by rw [frame_length] at hsz; omega))]
      simp [parseScalar, mirror]
  · -- str
    intro b r f d hwf hsz hf _
    cases f with
    | zero => have := enc_length_ge (.str b); omega
    | succ f' =>
      simp only [enc] at hsz ⊢
      rw [pop_frame _ _ _ _ _ (span_ok _ (by rw [frame_length] at hsz; omega))]
      simp only [WF] at hwf
      simp [parseScalar, hwf, mirror]
  · -- list
    intro l ih r f d hwf hsz hf hd
    cases f with
    | zero => have := enc_length_ge (.list l); omega
    | succ f' =>
      simp only [enc] at hsz hf ⊢
      rw [frame_length] at hsz hf
      have hp := natDec_len_pos (encList l).length
      rw [pop_frame _ _ _ _ _ (span_ok _ (by omega))]
      simp only [WF] at hwf
      simp only [depth] at hd
      rw [popList_encList l ih f' d ((WFList_iff l).mp hwf) (by omega) (by omega) ((depthList_le l d).mp hd)]
      simp [mirror, mirrorList_eq]
  · -- dict
    intro kvs ih r f d hwf hsz hf hd
    cases f with
    | zero => have := enc_length_ge (.dict kvs); omega
    | succ f' =>
      simp only [enc] at hsz hf ⊢
      rw [frame_length] at hsz hf
      have hp := natDec_len_pos (encPairsRev kvs).length
      rw [pop_frame _ _ _ _ _ (span_ok _ (by omega))]
      simp only [WF] at hwf
      simp only [depth] at hd
      rw [encPairsRev_eq] at hsz hf hp ⊢
      rw [popDict_encPairs kvs.reverse (fun p hp => ih p (List.mem_reverse.mp hp)) f' d
        (fun p hp => (WFPairs_iff kvs).mp hwf p (List.mem_reverse.mp hp)) (by omega) (by omega)
        (fun p hp => (depthPairs_le kvs d).mp hd p (List.mem_reverse.mp hp))]
      simp [mirror, mirrorPairsRev_eq]

end MitmVerif.C36
