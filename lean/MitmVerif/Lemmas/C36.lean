/-
  C36 — helper lemmas about the tnetstring model (decimal numbers, Python int() on decimal output,
  framing, value induction principle).
-/
import MitmVerif.Model.C36
namespace MitmVerif.C36

-- ------------------------------------------------------------------------------------------------
-- decimal
-- ------------------------------------------------------------------------------------------------
theorem natDecF_fuel : ∀ f g n, n ≤ f → n ≤ g → natDecF f n = natDecF g n := by
  intro f
  induction f with
  | zero =>
    intro g n hf hg
    have : n = 0 := by omega
    subst this
    cases g <;> simp [natDecF]
  | succ f ih =>
    intro g n hf hg
    cases g with
    | zero =>
      have : n = 0 := by omega
      subst this
      simp [natDecF]
    | succ g =>
      simp only [natDecF]
      split
      · rfl
      · rw [ih g (n / 10) (by omega) (by omega)]

theorem natDec_eq (n : Nat) :
    natDec n = if n < 10 then [digitB n] else natDec (n / 10) ++ [digitB (n % 10)] := by
  unfold natDec
  cases n with
  | zero => simp [natDecF]
  | succ m =>
    simp only [natDecF]
    split
    · rfl
    · rw [natDecF_fuel m ((m + 1) / 10) ((m + 1) / 10) (by omega) (by omega)]

theorem isDigit_digitB (n : Nat) (h : n < 10) : isDigit (digitB n) = true := by
  have : ∀ k : Fin 10, isDigit (digitB k.val) = true := by decide
  exact this ⟨n, h⟩

theorem digitB_val (n : Nat) (h : n < 10) : (digitB n).toNat - 48 = n := by
  have : ∀ k : Fin 10, (digitB k.val).toNat - 48 = k.val := by decide
  exact this ⟨n, h⟩

theorem natDec_digits (n : Nat) : ∀ c ∈ natDec n, isDigit c = true := by
  induction n using Nat.strongRecOn with
  | _ n ih =>
    rw [natDec_eq]
    split
    · intro c hc; simp at hc; subst hc; exact isDigit_digitB n (by omega)
    · intro c hc
      simp at hc
      rcases hc with hc | hc
      · exact ih (n / 10) (by omega) c hc
      · subst hc; exact isDigit_digitB _ (by omega)

theorem natDec_ne_nil (n : Nat) : natDec n ≠ [] := by
  rw [natDec_eq]; split <;> simp

theorem natDec_len_pos (n : Nat) : 1 ≤ (natDec n).length := by
  have := natDec_ne_nil n
  cases h : natDec n with
  | nil => exact absurd h this
  | cons _ _ => simp

theorem foldl_decStep_natDec (n : Nat) : ∀ a, (natDec n).foldl decStep a = a * 10 ^ (natDec n).length + n := by
  induction n using Nat.strongRecOn with
  | _ n ih =>
    intro a
    rw [natDec_eq]
    split
    · rename_i h
      simp [decStep, digitB_val n h]
    · rename_i h
      rw [List.foldl_append, ih (n / 10) (by omega)]
      simp only [List.foldl_cons, List.foldl_nil, decStep, List.length_append, List.length_cons,
        List.length_nil, digitB_val (n % 10) (by omega)]
      rw [Nat.pow_succ]
      have : a * (10 ^ (natDec (n / 10)).length * 10) = a * 10 ^ (natDec (n / 10)).length * 10 := by
        rw [Nat.mul_assoc]
      rw [this, Nat.add_mul]
      omega

theorem decVal_natDec (n : Nat) : decVal (natDec n) = n := by
  simp [decVal, foldl_decStep_natDec]

theorem natDec_len_le (n : Nat) : ∀ k, 0 < k → n < 10 ^ k → (natDec n).length ≤ k := by
  induction n using Nat.strongRecOn with
  | _ n ih =>
    intro k hk hn
    rw [natDec_eq]
    split
    · simp; omega
    · rename_i h
      have hk2 : 2 ≤ k := by
        rcases Nat.lt_or_ge k 2 with h2 | h2
        · have : k = 1 := by omega
          subst this; simp at hn; omega
        · exact h2
      have hlt : n / 10 < 10 ^ (k - 1) := by
        apply Nat.div_lt_of_lt_mul
        have : 10 ^ k = 10 * 10 ^ (k - 1) := by
          have : k = (k - 1) + 1 := by omega
          rw [this, Nat.pow_succ, Nat.mul_comm]; simp
        omega
      have := ih (n / 10) (by omega) (k - 1) (by omega) hlt
      simp; omega

/-- a decimal has at most as many digits as its value (for values ≥ 1), so `≤ n` bounds are cheap -/
theorem natDec_len_le_self (n : Nat) : (natDec n).length ≤ n + 1 := by
  induction n using Nat.strongRecOn with
  | _ n ih =>
    rw [natDec_eq]
    split
    · simp
    · have := ih (n / 10) (by omega)
      simp; omega

-- ------------------------------------------------------------------------------------------------
-- Python int() on decimal output
-- ------------------------------------------------------------------------------------------------
theorem digit_not_special (c : UInt8) (h : isDigit c = true) :
    isSpace c = false ∧ c ≠ 0x2d ∧ c ≠ 0x2b ∧ c ≠ 0x5f ∧ c ≠ 0x3a := by
  simp only [isDigit, Bool.and_eq_true, decide_eq_true_eq] at h
  refine ⟨?_, ?_, ?_, ?_, ?_⟩
  · simp only [isSpace, Bool.or_eq_false_iff, Bool.and_eq_false_iff, decide_eq_false_iff_not]
    omega
  all_goals (intro hc; subst hc; simp at h)

theorem scanDigits_digits : ∀ (ds : Bytes), ds ≠ [] → (∀ c ∈ ds, isDigit c = true) →
    ∀ rest pu acc nd, scanDigits (ds ++ rest) pu acc nd
      = scanDigits rest false (ds.foldl decStep acc) (nd + ds.length) := by
  intro ds
  induction ds with
  | nil => intro h; exact absurd rfl h
  | cons c t ih =>
    intro _ hd rest pu acc nd
    have hc : isDigit c = true := hd c (by simp)
    simp only [List.cons_append, scanDigits, hc, if_true, List.foldl_cons, List.length_cons]
    by_cases ht : t = []
    · subst ht; simp
    · rw [ih ht (fun c hc => hd c (by simp [hc]))]
      congr 1; omega

theorem pyIntSM_natDec (n : Nat) (h : (natDec n).length ≤ maxStrDigits) :
    pyIntSM (natDec n) = some (false, n) := by
  have hne := natDec_ne_nil n
  have hd := natDec_digits n
  cases hs : natDec n with
  | nil => exact absurd hs hne
  | cons c t =>
    have hc : isDigit c = true := hd c (by simp [hs])
    obtain ⟨h1, h2, h3, h4, _⟩ := digit_not_special c hc
    have hscan := scanDigits_digits (natDec n) hne hd [] false 0 0
    rw [hs] at hscan
    simp only [List.append_nil] at hscan
    have hv : (c :: t).foldl decStep 0 = n := by
      have := decVal_natDec n
      rw [hs] at this; exact this
    have hlen : (c :: t).length ≤ maxStrDigits := by rw [← hs]; exact h
    unfold pyIntSM
    simp only [List.dropWhile_cons, h1, List.head?_cons, Option.some.injEq, h2, h3, h4,
      Bool.false_eq_true, if_false, decide_false, Bool.or_self]
    rw [hscan, hv]
    simp only [scanDigits, Bool.false_eq_true, if_false]
    have : ¬ (0 + (c :: t).length = 0) := by simp
    have h' : ¬ (0 + (c :: t).length > maxStrDigits) := by omega
    rw [if_neg this, if_neg h']
    simp

theorem pyIntSM_intDec (i : Int) (h : (natDec i.natAbs).length ≤ maxStrDigits) :
    (pyIntSM (intDec i)).map smToInt = some i := by
  unfold intDec
  split
  · rename_i hneg
    -- "-" followed by the magnitude
    have hne := natDec_ne_nil i.natAbs
    have hd := natDec_digits i.natAbs
    cases hs : natDec i.natAbs with
    | nil => exact absurd hs hne
    | cons c t =>
      have hc : isDigit c = true := hd c (by simp [hs])
      obtain ⟨h1, h2, h3, h4, _⟩ := digit_not_special c hc
      have hscan := scanDigits_digits (natDec i.natAbs) hne hd [] false 0 0
      rw [hs] at hscan
      simp only [List.append_nil] at hscan
      have hv : (c :: t).foldl decStep 0 = i.natAbs := by
        have := decVal_natDec i.natAbs
        rw [hs] at this; exact this
      have hlen : (c :: t).length ≤ maxStrDigits := by rw [← hs]; exact h
      have hsp : isSpace 0x2d = false := by decide
      unfold pyIntSM
      simp only [List.dropWhile_cons, hsp, List.head?_cons, Bool.false_eq_true, if_false, decide_true,
        Bool.true_or, if_true, List.drop_succ_cons, List.drop_zero, Option.some.injEq, h4]
      rw [hscan, hv]
      simp only [scanDigits, Bool.false_eq_true, if_false]
      have : ¬ (0 + (c :: t).length = 0) := by simp
      have h' : ¬ (0 + (c :: t).length > maxStrDigits) := by omega
      rw [if_neg this, if_neg h']
      simp only [List.dropWhile_nil, List.isEmpty_nil, Bool.not_true, Bool.false_eq_true, if_false,
        Option.map_some, smToInt, if_true]
      congr 1; omega
  · rename_i hpos
    rw [pyIntSM_natDec _ h]
    simp only [Option.map_some, smToInt, Bool.false_eq_true, if_false]
    congr 1; omega

-- ------------------------------------------------------------------------------------------------
-- split / slice3 on a frame
-- ------------------------------------------------------------------------------------------------
theorem splitColon_digits : ∀ (ds : Bytes), (∀ c ∈ ds, isDigit c = true) → ∀ rest,
    splitColon (ds ++ 0x3a :: rest) = some (ds, rest) := by
  intro ds
  induction ds with
  | nil => intro _ rest; simp [splitColon]
  | cons c t ih =>
    intro hd rest
    have hc := (digit_not_special c (hd c (by simp))).2.2.2.2
    simp only [List.cons_append, splitColon, hc, if_false, ih (fun c hc => hd c (by simp [hc])) rest,
      Option.map_some]

theorem split_frame (n : Nat) (body : Bytes) (h : (natDec n).length ≤ maxStrDigits) :
    split (natDec n ++ 0x3a :: body) = .ok ((false, n), body) := by
  simp [split, splitColon_digits _ (natDec_digits n), pyIntSM_natDec n h]

theorem slice3_frame (payload : Bytes) (tag : UInt8) (r : Bytes) :
    slice3 (payload ++ tag :: r) (false, payload.length) = some (payload, tag, r) := by
  simp [slice3]

theorem frame_append (payload : Bytes) (tag : UInt8) (r : Bytes) :
    frame payload tag ++ r = natDec payload.length ++ 0x3a :: (payload ++ tag :: r) := by
  simp [frame]

theorem frame_length (payload : Bytes) (tag : UInt8) :
    (frame payload tag).length = (natDec payload.length).length + 2 + payload.length := by
  simp [frame]; omega

-- ------------------------------------------------------------------------------------------------
-- induction over values; list views of the mutual definitions
-- ------------------------------------------------------------------------------------------------
section Induct
variable {P : Value → Prop}
  (hnull : P .null) (hbool : ∀ b, P (.bool b)) (hint : ∀ i, P (.int i)) (hfloat : ∀ t, P (.float t))
  (hbytes : ∀ b, P (.bytes b)) (hstr : ∀ b, P (.str b))
  (hlist : ∀ l : List Value, (∀ v ∈ l, P v) → P (.list l))
  (hdict : ∀ kvs : List (Value × Value), (∀ p ∈ kvs, P p.1 ∧ P p.2) → P (.dict kvs))
include hnull hbool hint hfloat hbytes hstr hlist hdict

mutual
theorem Value.ind : ∀ v : Value, P v
  | .null => hnull
  | .bool b => hbool b
  | .int i => hint i
  | .float t => hfloat t
  | .bytes b => hbytes b
  | .str b => hstr b
  | .list l => hlist l (Value.indList l)
  | .dict kvs => hdict kvs (Value.indPairs kvs)
theorem Value.indList : ∀ l : List Value, ∀ v ∈ l, P v
  | [] => by intro v hv; cases hv
  | x :: t => by
    intro v hv
    rcases List.mem_cons.mp hv with h | h
    · rw [h]; exact Value.ind x
    · exact Value.indList t v h
theorem Value.indPairs : ∀ kvs : List (Value × Value), ∀ p ∈ kvs, P p.1 ∧ P p.2
  | [] => by intro p hp; cases hp
  | (k, v) :: t => by
    intro p hp
    rcases List.mem_cons.mp hp with h | h
    · rw [h]; exact ⟨Value.ind k, Value.ind v⟩
    · exact Value.indPairs t p h
end
end Induct

/-- forward encoding of a list of pairs (what `popDict` consumes front to back) -/
def encPairs : List (Value × Value) → Bytes
  | [] => []
  | p :: t => enc p.1 ++ enc p.2 ++ encPairs t

theorem encPairs_append (a b : List (Value × Value)) : encPairs (a ++ b) = encPairs a ++ encPairs b := by
  induction a with
  | nil => simp [encPairs]
  | cons p t ih => simp [encPairs, ih]

theorem encPairsRev_eq (kvs : List (Value × Value)) : encPairsRev kvs = encPairs kvs.reverse := by
  induction kvs with
  | nil => simp [encPairsRev, encPairs]
  | cons p t ih =>
    obtain ⟨k, v⟩ := p
    simp [encPairsRev, ih, encPairs_append, encPairs]

def mirrorPair (p : Value × Value) : Value × Value := (mirror p.1, mirror p.2)

theorem mirrorList_eq (l : List Value) : mirrorList l = l.map mirror := by
  induction l with
  | nil => simp [mirrorList]
  | cons v t ih => simp [mirrorList, ih]

theorem mirrorPairsRev_eq (kvs : List (Value × Value)) : mirrorPairsRev kvs = (kvs.reverse).map mirrorPair := by
  induction kvs with
  | nil => simp [mirrorPairsRev]
  | cons p t ih =>
    obtain ⟨k, v⟩ := p
    simp [mirrorPairsRev, ih, mirrorPair]

theorem WFList_iff (l : List Value) : WFList l ↔ ∀ v ∈ l, WF v := by
  induction l with
  | nil => simp [WFList]
  | cons v t ih => simp [WFList, ih]

theorem WFPairs_iff (kvs : List (Value × Value)) :
    WFPairs kvs ↔ ∀ p ∈ kvs, WF p.1 ∧ hashable p.1 = true ∧ WF p.2 := by
  induction kvs with
  | nil => simp [WFPairs]
  | cons p t ih => obtain ⟨k, v⟩ := p; simp [WFPairs, ih]

theorem depthList_le (l : List Value) (d : Nat) : depthList l ≤ d ↔ ∀ v ∈ l, depth v + 1 ≤ d := by
  induction l with
  | nil => simp [depthList]
  | cons v t ih => simp [depthList, Nat.max_le, ih]

theorem depthPairs_le (kvs : List (Value × Value)) (d : Nat) :
    depthPairs kvs ≤ d ↔ ∀ p ∈ kvs, depth p.1 + 1 ≤ d ∧ depth p.2 + 1 ≤ d := by
  induction kvs with
  | nil => simp [depthPairs]
  | cons p t ih =>
    obtain ⟨k, v⟩ := p
    simp only [depthPairs, Nat.max_le, ih, List.mem_cons, forall_eq_or_imp]

theorem enc_length_ge (v : Value) : 3 ≤ (enc v).length := by
  have hp := natDec_len_pos
  cases v with
  | null => simp only [enc, frame_length]; have := hp ([] : Bytes).length; omega
  | bool x => simp only [enc, frame_length]; have := hp (if x = true then bTrue else bFalse).length; omega
  | int x => simp only [enc, frame_length]; have := hp (intDec x).length; omega
  | float x => simp only [enc, frame_length]; have := hp x.length; omega
  | bytes x => simp only [enc, frame_length]; have := hp x.length; omega
  | str x => simp only [enc, frame_length]; have := hp x.length; omega
  | list x => simp only [enc, frame_length]; have := hp (encList x).length; omega
  | dict x => simp only [enc, frame_length]; have := hp (encPairsRev x).length; omega

-- ------------------------------------------------------------------------------------------------
-- pop on a frame; the round trip
-- ------------------------------------------------------------------------------------------------
theorem span_ok (n : Nat) (h : n < sizeLimit) : (natDec n).length ≤ maxStrDigits :=
  natDec_len_le n maxStrDigits (by decide) h

theorem pop_frame (f d : Nat) (payload : Bytes) (tag : UInt8) (r : Bytes)
    (h : (natDec payload.length).length ≤ maxStrDigits) :
    pop (f + 1) d (frame payload tag ++ r) =
      (if tag = 0x5d then
        match popList f d payload with
        | .ok l => .ok (.list l, r)
        | .error e => .error e
      else if tag = 0x7d then
        match popDict f d payload with
        | .ok kvs => .ok (.dict kvs, r)
        | .error e => .error e
      else
        match parseScalar tag payload with
        | .ok v => .ok (v, r)
        | .error e => .error e) := by
  rw [frame_append]
  simp only [pop, split_frame _ _ h, slice3_frame]
  rfl

theorem hashable_mirror (k : Value) (h : hashable k = true) : mirror k = k := by
  cases k <;> simp [hashable] at h <;> simp [mirror]

/-- the round-trip statement for one value, for every fuel ≥ the encoded length and every head-room ≥ depth -/
def RT (v : Value) : Prop :=
  ∀ (r : Bytes) (f d : Nat), WF v → (enc v).length < sizeLimit → (enc v).length ≤ f → depth v ≤ d →
    pop f d (enc v ++ r) = .ok (mirror v, r)

theorem cons_of_enc_append (v : Value) (rest : Bytes) : ∃ c cs, enc v ++ rest = c :: cs := by
  have := enc_length_ge v
  cases h : enc v with
  | nil => rw [h] at this; simp at this
  | cons c cs => exact ⟨c, cs ++ rest, by simp⟩

theorem popList_encList : ∀ (l : List Value), (∀ v ∈ l, RT v) → ∀ f d, (∀ v ∈ l, WF v) →
    (encList l).length < sizeLimit → (encList l).length + 1 ≤ f → (∀ v ∈ l, depth v + 1 ≤ d) →
    popList f d (encList l) = .ok (l.map mirror) := by
  intro l
  induction l with
  | nil => intro _ f d _ _ _ _; simp [encList, popList]
  | cons v t ih =>
    intro hrt f d hwf hsz hf hd
    have hv := hrt v (by simp)
    have hlen3 := enc_length_ge v
    have henc : encList (v :: t) = enc v ++ encList t := by simp [encList]
    rw [henc] at hsz hf ⊢
    simp only [List.length_append] at hsz hf
    obtain ⟨c, cs, hcs⟩ := cons_of_enc_append v (encList t)
    cases f with
    | zero => omega
    | succ f' =>
      have hd0 : d ≠ 0 := by have := hd v (by simp); omega
      rw [hcs]
      simp only [popList, hd0, if_false]
      rw [← hcs, hv (encList t) f' (d - 1) (hwf v (by simp)) (by omega) (by omega)
        (by have := hd v (by simp); omega)]
      simp only []
      rw [ih (fun x hx => hrt x (by simp [hx])) f' d (fun x hx => hwf x (by simp [hx])) (by omega) (by omega)
        (fun x hx => hd x (by simp [hx]))]
      simp

theorem popDict_encPairs : ∀ (ps : List (Value × Value)), (∀ p ∈ ps, RT p.1 ∧ RT p.2) → ∀ f d,
    (∀ p ∈ ps, WF p.1 ∧ hashable p.1 = true ∧ WF p.2) →
    (encPairs ps).length < sizeLimit → (encPairs ps).length + 1 ≤ f →
    (∀ p ∈ ps, depth p.1 + 1 ≤ d ∧ depth p.2 + 1 ≤ d) →
    popDict f d (encPairs ps) = .ok (ps.map mirrorPair) := by
  intro ps
  induction ps with
  | nil => intro _ f d _ _ _ _; simp [encPairs, popDict]
  | cons p t ih =>
    intro hrt f d hwf hsz hf hd
    obtain ⟨hk, hv⟩ := hrt p (by simp)
    obtain ⟨hwk, hhk, hwv⟩ := hwf p (by simp)
    obtain ⟨hdk, hdv⟩ := hd p (by simp)
    have hk3 := enc_length_ge p.1
    have hv3 := enc_length_ge p.2
    have henc : encPairs (p :: t) = enc p.1 ++ (enc p.2 ++ encPairs t) := by simp [encPairs]
    rw [henc] at hsz hf ⊢
    simp only [List.length_append] at hsz hf
    obtain ⟨c, cs, hcs⟩ := cons_of_enc_append p.1 (enc p.2 ++ encPairs t)
    cases f with
    | zero => omega
    | succ f' =>
      have hd0 : d ≠ 0 := by omega
      rw [hcs]
      simp only [popDict, hd0, if_false]
      rw [← hcs, hk (enc p.2 ++ encPairs t) f' (d - 1) hwk (by omega) (by omega) (by omega)]
      simp only []
      rw [hv (encPairs t) f' (d - 1) hwv (by omega) (by omega) (by omega)]
      simp only [hashable_mirror p.1 hhk, hhk, Bool.not_true, Bool.false_eq_true, if_false]
      rw [ih (fun x hx => hrt x (by simp [hx])) f' d (fun x hx => hwf x (by simp [hx])) (by omega) (by omega)
        (fun x hx => hd x (by simp [hx]))]
      simp [mirrorPair, hashable_mirror p.1 hhk]

theorem pop_enc : ∀ v : Value, RT v := by
  apply Value.ind
  · -- null
    intro r f d _ hsz hf _
    cases f with
    | zero => have := enc_length_ge .null; omega
    | succ f' =>
      simp only [enc] at hsz ⊢
      rw [pop_frame _ _ _ _ _ (span_ok _ (by rw [frame_length] at hsz; omega))]
      simp [parseScalar, mirror]
  · -- bool
    intro b r f d _ hsz hf _
    cases f with
    | zero => have := enc_length_ge (.bool b); omega
    | succ f' =>
      simp only [enc] at hsz ⊢
      rw [pop_frame _ _ _ _ _ (span_ok _ (by rw [frame_length] at hsz; omega))]
      cases b <;> simp [parseScalar, mirror, bTrue, bFalse]
  · -- int
    intro i r f d hwf hsz hf _
    cases f with
    | zero => have := enc_length_ge (.int i); omega
    | succ f' =>
      simp only [enc] at hsz ⊢
      rw [pop_frame _ _ _ _ _ (span_ok _ (by rw [frame_length] at hsz; omega))]
      have h := pyIntSM_intDec i hwf
      cases hp : pyIntSM (intDec i) with
      | none => rw [hp] at h; simp at h
      | some sm =>
        rw [hp] at h
        simp only [Option.map_some, Option.some.injEq] at h
        simp [parseScalar, hp, h, mirror]
  · -- float
    intro t r f d hwf hsz hf _
    cases f with
    | zero => have := enc_length_ge (.float t); omega
    | succ f' =>
      simp only [enc] at hsz ⊢
      rw [pop_frame _ _ _ _ _ (span_ok _ (by rw [frame_length] at hsz; omega))]
      simp only [WF] at hwf
      simp [parseScalar, hwf, mirror]
  · -- bytes
    intro b r f d _ hsz hf _
    cases f with
    | zero => have := enc_length_ge (.bytes b); omega
    | succ f' =>
      simp only [enc] at hsz ⊢
      rw [pop_frame _ _ _ _ _ (span_ok _ (by rw [frame_length] at hsz; omega))]
      simp [parseScalar, mirror]
  · -- str
    intro b r f d hwf hsz hf _
    cases f with
    | zero => have := enc_length_ge (.str b); omega
    | succ f' =>
      simp only [enc] at hsz ⊢
      rw [pop_frame _ _ _ _ _ (span_ok _ (by rw [frame_length] at hsz; omega))]
      simp only [WF] at hwf
      simp [parseScalar, hwf, mirror]
  · -- list
    intro l ih r f d hwf hsz hf hd
    cases f with
    | zero => have := enc_length_ge (.list l); omega
    | succ f' =>
      simp only [enc] at hsz hf ⊢
      rw [frame_length] at hsz hf
      have hp := natDec_len_pos (encList l).length
      rw [pop_frame _ _ _ _ _ (span_ok _ (by omega))]
      simp only [WF] at hwf
      simp only [depth] at hd
      rw [popList_encList l ih f' d ((WFList_iff l).mp hwf) (by omega) (by omega) ((depthList_le l d).mp hd)]
      simp [mirror, mirrorList_eq]
  · -- dict
    intro kvs ih r f d hwf hsz hf hd
    cases f with
    | zero => have := enc_length_ge (.dict kvs); omega
    | succ f' =>
      simp only [enc] at hsz hf ⊢
      rw [frame_length] at hsz hf
      have hp := natDec_len_pos (encPairsRev kvs).length
      rw [pop_frame _ _ _ _ _ (span_ok _ (by omega))]
      simp only [WF] at hwf
      simp only [depth] at hd
      rw [encPairsRev_eq] at hsz hf hp ⊢
      rw [popDict_encPairs kvs.reverse (fun p hp => ih p (List.mem_reverse.mp hp)) f' d
        (fun p hp => (WFPairs_iff kvs).mp hwf p (List.mem_reverse.mp hp)) (by omega) (by omega)
        (fun p hp => (depthPairs_le kvs d).mp hd p (List.mem_reverse.mp hp))]
      simp [mirror, mirrorPairsRev_eq]

-- ------------------------------------------------------------------------------------------------
-- the deque construction equals the recursive encoding
-- ------------------------------------------------------------------------------------------------
def DQ (v : Value) : Prop := ∀ (q : Bytes) (s : Nat), rdumpq q s v = (enc v ++ q, s + (enc v).length)

theorem natDec_small : natDec 0 = [0x30] ∧ natDec 4 = [0x34] ∧ natDec 5 = [0x35] := by decide

theorem rdumpItems_eq : ∀ (l : List Value), (∀ v ∈ l, DQ v) → ∀ q s,
    rdumpItems q s l = (encList l ++ q, s + (encList l).length) := by
  intro l
  induction l with
  | nil => intro _ q s; simp [rdumpItems, encList]
  | cons v t ih =>
    intro h q s
    simp only [rdumpItems, ih (fun x hx => h x (by simp [hx])) q s, h v (by simp) _ _, encList,
      List.append_assoc, List.length_append]
    congr 1; omega

theorem rdumpPairs_eq : ∀ (kvs : List (Value × Value)), (∀ p ∈ kvs, DQ p.1 ∧ DQ p.2) → ∀ q s,
    rdumpPairs q s kvs = (encPairsRev kvs ++ q, s + (encPairsRev kvs).length) := by
  intro kvs
  induction kvs with
  | nil => intro _ q s; simp [rdumpPairs, encPairsRev]
  | cons p t ih =>
    intro h q s
    obtain ⟨k, v⟩ := p
    obtain ⟨hk, hv⟩ := h (k, v) (by simp)
    simp only [rdumpPairs, hv _ _, hk _ _, ih (fun x hx => h x (by simp [hx])) _ _, encPairsRev,
      List.append_assoc, List.length_append]
    congr 1; omega

theorem rdumpq_eq : ∀ v : Value, DQ v := by
  apply Value.ind
  · intro q s; simp [rdumpq, enc, frame, natDec_small.1]
  · intro b q s
    cases b <;> simp [rdumpq, enc, frame, bTrue, bFalse, natDec_small.2.1, natDec_small.2.2]
  · intro i q s
    simp only [rdumpq, enc, frame_append, frame_length]
    congr 1; omega
  · intro t q s
    simp only [rdumpq, enc, frame_append, frame_length]
    congr 1; omega
  · intro b q s
    simp only [rdumpq, enc, frame_append, frame_length]
    congr 1; omega
  · intro b q s
    simp only [rdumpq, enc, frame_append, frame_length]
    congr 1; omega
  · intro l ih q s
    simp only [rdumpq, rdumpItems_eq l ih, enc, frame_append, frame_length]
    have : s + 1 + (encList l).length - (s + 1) = (encList l).length := by omega
    rw [this]
    congr 1; omega
  · intro kvs ih q s
    simp only [rdumpq, rdumpPairs_eq kvs ih, enc, frame_append, frame_length]
    have : s + 1 + (encPairsRev kvs).length - (s + 1) = (encPairsRev kvs).length := by omega
    rw [this]
    congr 1; omega

-- ------------------------------------------------------------------------------------------------
-- load on a frame
-- ------------------------------------------------------------------------------------------------
theorem pop_frame' (f d : Nat) (payload : Bytes) (tag : UInt8) (r : Bytes)
    (h : (natDec payload.length).length ≤ maxStrDigits) :
    pop (f + 1) d (frame payload tag ++ r) =
      match parseTop f d tag payload with
      | .ok v => .ok (v, r)
      | .error e => .error e := by
  rw [pop_frame _ _ _ _ _ h]
  unfold parseTop
  split
  · split <;> simp_all
  · split
    · split <;> simp_all
    · rfl

theorem enc_is_frame (v : Value) : ∃ payload tag, enc v = frame payload tag := by
  cases v <;> simp only [enc] <;> exact ⟨_, _, rfl⟩

theorem takeWhile_digits : ∀ (ds : Bytes), (∀ c ∈ ds, isDigit c = true) → ∀ x rest, isDigit x = false →
    (ds ++ x :: rest).takeWhile isDigit = ds ∧ (ds ++ x :: rest).dropWhile isDigit = x :: rest := by
  intro ds
  induction ds with
  | nil => intro _ x rest hx; simp [List.takeWhile, List.dropWhile, hx]
  | cons c t ih =>
    intro hd x rest hx
    have hc := hd c (by simp)
    have := ih (fun c hc => hd c (by simp [hc])) x rest hx
    simp [List.takeWhile, List.dropWhile, hc, this.1, this.2]

theorem takeWhile_all_digits : ∀ (ds : Bytes), (∀ c ∈ ds, isDigit c = true) →
    ds.takeWhile isDigit = ds ∧ ds.dropWhile isDigit = [] := by
  intro ds
  induction ds with
  | nil => intro _; simp
  | cons c t ih =>
    intro hd
    have hc := hd c (by simp)
    have := ih (fun c hc => hd c (by simp [hc]))
    simp [List.takeWhile, List.dropWhile, hc, this.1, this.2]

theorem load_frame (m d : Nat) (payload : Bytes) (tag : UInt8) (r : Bytes)
    (h12 : (natDec payload.length).length ≤ 12) :
    load m d (frame payload tag ++ r) =
      if payload.length > m then .error .memory else
      match parseTop ((frame payload tag ++ r).length + 2) d tag payload with
      | .ok v => .ok (v, r)
      | .error e => .error e := by
  have hne := natDec_ne_nil payload.length
  have hcolon : isDigit 0x3a = false := by decide
  have htw := takeWhile_digits (natDec payload.length) (natDec_digits _) 0x3a (payload ++ tag :: r) hcolon
  generalize hS : (frame payload tag ++ r).length = L
  rw [frame_append]
  unfold load
  have hnemp : (natDec payload.length ++ 0x3a :: (payload ++ tag :: r)).isEmpty = false := by
    cases hh : natDec payload.length with
    | nil => exact absurd hh hne
    | cons _ _ => simp
  have hdsemp : (natDec payload.length).isEmpty = false := by
    cases hh : natDec payload.length with
    | nil => exact absurd hh hne
    | cons _ _ => simp
  have hL : (natDec payload.length ++ 0x3a :: (payload ++ tag :: r)).length = L := by
    rw [← hS, frame_append]
  simp only [hnemp, Bool.false_eq_true, if_false, htw.1, htw.2, hdsemp, decVal_natDec, hL]
  have : ¬ ((natDec payload.length).length > 12) := by omega
  simp only [this, if_false, ne_eq, not_true_eq_false]
  split
  · rfl
  · simp; rfl

theorem pow12_le_sizeLimit : 10 ^ 12 ≤ sizeLimit := by
  unfold sizeLimit maxStrDigits
  exact Nat.pow_le_pow_right (by decide) (by decide)

theorem load_enc (v : Value) (r : Bytes) (m d : Nat) (hwf : WF v) (h12 : (enc v).length < 10 ^ 12)
    (hm : (enc v).length ≤ m) (hd : depth v ≤ d) : load m d (enc v ++ r) = .ok (mirror v, r) := by
  obtain ⟨payload, tag, he⟩ := enc_is_frame v
  have hsz : (enc v).length < sizeLimit := Nat.lt_of_lt_of_le h12 pow12_le_sizeLimit
  have hpl : payload.length < (enc v).length := by rw [he, frame_length]; omega
  have hd12 : (natDec payload.length).length ≤ 12 := natDec_len_le _ 12 (by decide) (by omega)
  have hrt := pop_enc v r ((enc v ++ r).length + 2 + 1) d hwf hsz (by simp; omega) hd
  rw [he] at hrt ⊢
  rw [pop_frame' _ _ _ _ _ (span_ok _ (by omega))] at hrt
  rw [load_frame m d payload tag r hd12]
  have : ¬ payload.length > m := by omega
  simp only [this, if_false]
  cases hp : parseTop ((frame payload tag ++ r).length + 2) d tag payload with
  | error e => rw [hp] at hrt; simp at hrt
  | ok x => rw [hp] at hrt; simpa using hrt

/-- reading a record that was cut anywhere strictly inside fails, and not with the end-of-file signal -/
theorem load_prefix_err (m d : Nat) (payload : Bytes) (tag : UInt8) (q w : Bytes)
    (h12 : (natDec payload.length).length ≤ 12) (hq : q ≠ []) (hw : w ≠ [])
    (hqw : q ++ w = frame payload tag) :
    ∃ e, load m d q = .error e ∧ e ≠ .emptyFile ∧ e ≠ .fuel := by
  have hne := natDec_ne_nil payload.length
  have hdig := natDec_digits payload.length
  have hcolon : isDigit 0x3a = false := by decide
  -- all-digit prefixes
  have alldig : ∀ q : Bytes, q ≠ [] → (∀ c ∈ q, isDigit c = true) → q.length ≤ 12 →
      load m d q = .error .value := by
    intro q hq hd hl
    have htw := takeWhile_all_digits q hd
    have : q.isEmpty = false := by cases q <;> simp_all
    unfold load
    simp only [this, Bool.false_eq_true, if_false, htw.1, htw.2]
    have : ¬ q.length > 12 := by omega
    simp [this]
  unfold frame at hqw
  rcases List.append_eq_append_iff.mp hqw with ⟨a', h1, h2⟩ | ⟨c', h1, h2⟩
  · -- q is a prefix of the digits
    refine ⟨.value, alldig q hq ?_ ?_, by decide, by decide⟩
    · intro c hc; exact hdig c (by rw [h1]; simp [hc])
    · have := congrArg List.length h1; simp at this; omega
  · cases c' with
    | nil =>
      simp at h1
      refine ⟨.value, alldig q hq ?_ ?_, by decide, by decide⟩
      · intro c hc; exact hdig c (by rw [← h1]; exact hc)
      · rw [h1]; exact h12
    | cons x c'' =>
      simp only [List.cons_append, List.cons.injEq] at h2
      obtain ⟨hx, hbody⟩ := h2
      subst hx
      have hlen : c''.length ≤ payload.length := by
        have := congrArg List.length hbody
        simp at this
        have : 0 < w.length := List.length_pos_iff.mpr hw
        omega
      have htw := takeWhile_digits (natDec payload.length) hdig 0x3a c'' hcolon
      have hdsemp : (natDec payload.length).isEmpty = false := by
        cases hh : natDec payload.length with
        | nil => exact absurd hh hne
        | cons _ _ => simp
      have hnemp : (natDec payload.length ++ 0x3a :: c'').isEmpty = false := by
        cases hh : natDec payload.length with
        | nil => exact absurd hh hne
        | cons _ _ => simp
      rw [h1]
      unfold load
      simp only [hnemp, Bool.false_eq_true, if_false, htw.1, htw.2, hdsemp, decVal_natDec]
      have : ¬ ((natDec payload.length).length > 12) := by omega
      simp only [this, if_false, ne_eq, not_true_eq_false]
      by_cases hmm : payload.length > m
      · exact ⟨.memory, by simp [hmm], by decide, by decide⟩
      · refine ⟨.index, ?_, by decide, by decide⟩
        have : c''.drop payload.length = [] := List.drop_eq_nil_of_le hlen
        simp [hmm, this]

-- ------------------------------------------------------------------------------------------------
-- totality: the fuel of the model never runs out
-- ------------------------------------------------------------------------------------------------
theorem pyIntSM_nil : pyIntSM [] = none := by decide

theorem splitColon_length : ∀ (data pre post : Bytes), splitColon data = some (pre, post) →
    data.length = pre.length + 1 + post.length := by
  intro data
  induction data with
  | nil => intro pre post h; simp [splitColon] at h
  | cons c t ih =>
    intro pre post h
    simp only [splitColon] at h
    split at h
    · simp at h; obtain ⟨h1, h2⟩ := h; subst h1; subst h2; simp; omega
    · cases hs : splitColon t with
      | none => rw [hs] at h; simp at h
      | some p =>
        rw [hs] at h
        simp at h
        obtain ⟨h1, h2⟩ := h
        have := ih p.1 p.2 (by rw [hs])
        subst h1; subst h2; simp; omega

theorem split_ok_length (data : Bytes) (sm : Bool × Nat) (body : Bytes)
    (h : split data = .ok (sm, body)) : body.length + 2 ≤ data.length := by
  unfold split at h
  cases hs : splitColon data with
  | none => rw [hs] at h; simp at h
  | some p =>
    obtain ⟨pre, post⟩ := p
    rw [hs] at h
    simp only [] at h
    cases hp : pyIntSM pre with
    | none => rw [hp] at h; simp at h
    | some sm' =>
      rw [hp] at h
      simp only [Except.ok.injEq, Prod.mk.injEq] at h
      have hpre : pre ≠ [] := by
        intro hnil; rw [hnil, pyIntSM_nil] at hp; cases hp
      have hl := splitColon_length data pre post hs
      have : 0 < pre.length := List.length_pos_iff.mpr hpre
      rw [← h.2]; omega

theorem split_err (data : Bytes) (e : Err) (h : split data = .error e) : e = .value := by
  unfold split at h
  cases hs : splitColon data with
  | none => rw [hs] at h; simp at h; exact h.symm
  | some p =>
    obtain ⟨pre, post⟩ := p
    rw [hs] at h
    simp only [] at h
    cases hp : pyIntSM pre with
    | none => rw [hp] at h; simp at h; exact h.symm
    | some sm' => rw [hp] at h; simp at h

theorem slice3_length (body : Bytes) (sm : Bool × Nat) (p : Bytes) (t : UInt8) (rem : Bytes)
    (h : slice3 body sm = some (p, t, rem)) : p.length ≤ body.length ∧ rem.length ≤ body.length := by
  unfold slice3 at h
  simp only [] at h
  split at h
  · split at h
    · simp at h
    · simp only [Option.some.injEq, Prod.mk.injEq] at h
      obtain ⟨h1, _, h3⟩ := h
      subst h1; subst h3
      simp [List.length_take, List.length_drop] <;> omega
  · split at h
    · simp at h
    · split at h
      · simp at h
      · simp only [Option.some.injEq, Prod.mk.injEq] at h
        obtain ⟨h1, _, h3⟩ := h
        subst h1; subst h3
        simp [List.length_take, List.length_drop] <;> omega

theorem parseScalar_err (tag : UInt8) (data : Bytes) (e : Err) (h : parseScalar tag data = .error e) :
    e = .value := by
  unfold parseScalar at h
  repeat' split at h
  all_goals first | (simp at h; done) | (simp at h; exact h.symm) | (cases h; rfl)

theorem pop_ok_length (f d : Nat) (data : Bytes) (v : Value) (rest : Bytes)
    (h : pop f d data = .ok (v, rest)) : rest.length + 2 ≤ data.length := by
  cases f with
  | zero => simp [pop] at h
  | succ f =>
    simp only [pop] at h
    cases hs : split data with
    | error e => rw [hs] at h; simp at h
    | ok p =>
      obtain ⟨sm, body⟩ := p
      rw [hs] at h
      simp only [] at h
      cases h3 : slice3 body sm with
      | none => rw [h3] at h; simp at h
      | some t =>
        obtain ⟨payload, tag, remain⟩ := t
        rw [h3] at h
        simp only [] at h
        have hb := split_ok_length data sm body hs
        have hr := (slice3_length body sm payload tag remain h3).2
        have : remain = rest := by
          repeat' split at h
          all_goals first | (simp at h; done) | (simp at h; exact h.2)
        rw [← this]; omega

theorem no_fuel : ∀ f,
    (∀ d data, data.length + 1 ≤ f → pop f d data ≠ .error .fuel) ∧
    (∀ d data, data.length + 2 ≤ f → popList f d data ≠ .error .fuel) ∧
    (∀ d data, data.length + 2 ≤ f → popDict f d data ≠ .error .fuel) := by
  intro f
  induction f with
  | zero =>
    refine ⟨?_, ?_, ?_⟩ <;> intro d data hl <;> omega
  | succ f ih =>
    obtain ⟨ih1, ih2, ih3⟩ := ih
    refine ⟨?_, ?_, ?_⟩
    · intro d data hl hfuel
      simp only [pop] at hfuel
      cases hs : split data with
      | error e =>
        rw [hs] at hfuel
        have := split_err data e hs
        simp at hfuel; rw [hfuel] at this; cases this
      | ok p =>
        obtain ⟨sm, body⟩ := p
        rw [hs] at hfuel
        simp only [] at hfuel
        cases h3 : slice3 body sm with
        | none => rw [h3] at hfuel; simp at hfuel
        | some t =>
          obtain ⟨payload, tag, remain⟩ := t
          rw [h3] at hfuel
          simp only [] at hfuel
          have hb := split_ok_length data sm body hs
          have hp := (slice3_length body sm payload tag remain h3).1
          split at hfuel
          · cases hl2 : popList f d payload with
            | ok l => rw [hl2] at hfuel; simp at hfuel
            | error e =>
              rw [hl2] at hfuel; simp at hfuel; rw [hfuel] at hl2
              exact ih2 d payload (by omega) hl2
          · split at hfuel
            · cases hl2 : popDict f d payload with
              | ok l => rw [hl2] at hfuel; simp at hfuel
              | error e =>
                rw [hl2] at hfuel; simp at hfuel; rw [hfuel] at hl2
                exact ih3 d payload (by omega) hl2
            · cases hl2 : parseScalar tag payload with
              | ok l => rw [hl2] at hfuel; simp at hfuel
              | error e =>
                rw [hl2] at hfuel; simp at hfuel; rw [hfuel] at hl2
                have := parseScalar_err _ _ _ hl2; cases this
    · intro d data hl hfuel
      cases data with
      | nil => simp [popList] at hfuel
      | cons c cs =>
        simp only [popList] at hfuel
        split at hfuel
        · simp at hfuel
        · cases hp : pop f (d - 1) (c :: cs) with
          | error e =>
            rw [hp] at hfuel; simp at hfuel; rw [hfuel] at hp
            exact ih1 (d - 1) (c :: cs) (by omega) hp
          | ok p =>
            obtain ⟨item, rest⟩ := p
            rw [hp] at hfuel
            simp only [] at hfuel
            have hr := pop_ok_length _ _ _ _ _ hp
            cases hl2 : popList f d rest with
            | ok l => rw [hl2] at hfuel; simp at hfuel
            | error e =>
              rw [hl2] at hfuel; simp at hfuel; rw [hfuel] at hl2
              exact ih2 d rest (by omega) hl2
    · intro d data hl hfuel
      cases data with
      | nil => simp [popDict] at hfuel
      | cons c cs =>
        simp only [popDict] at hfuel
        split at hfuel
        · simp at hfuel
        · cases hp : pop f (d - 1) (c :: cs) with
          | error e =>
            rw [hp] at hfuel; simp at hfuel; rw [hfuel] at hp
            exact ih1 (d - 1) (c :: cs) (by omega) hp
          | ok p =>
            obtain ⟨key, rest⟩ := p
            rw [hp] at hfuel
            simp only [] at hfuel
            have hr := pop_ok_length _ _ _ _ _ hp
            cases hp2 : pop f (d - 1) rest with
            | error e =>
              rw [hp2] at hfuel; simp at hfuel; rw [hfuel] at hp2
              exact ih1 (d - 1) rest (by omega) hp2
            | ok p2 =>
              obtain ⟨val, rest2⟩ := p2
              rw [hp2] at hfuel
              simp only [] at hfuel
              have hr2 := pop_ok_length _ _ _ _ _ hp2
              split at hfuel
              · simp at hfuel
              · cases hl2 : popDict f d rest2 with
                | ok l => rw [hl2] at hfuel; simp at hfuel
                | error e =>
                  rw [hl2] at hfuel; simp at hfuel; rw [hfuel] at hl2
                  exact ih3 d rest2 (by omega) hl2

theorem parseTop_no_fuel (f d : Nat) (tag : UInt8) (data : Bytes) (h : data.length + 2 ≤ f) :
    parseTop f d tag data ≠ .error .fuel := by
  intro hfuel
  unfold parseTop at hfuel
  split at hfuel
  · cases hl2 : popList f d data with
    | ok l => rw [hl2] at hfuel; simp at hfuel
    | error e =>
      rw [hl2] at hfuel; simp at hfuel; rw [hfuel] at hl2
      exact (no_fuel f).2.1 d data h hl2
  · split at hfuel
    · cases hl2 : popDict f d data with
      | ok l => rw [hl2] at hfuel; simp at hfuel
      | error e =>
        rw [hl2] at hfuel; simp at hfuel; rw [hfuel] at hl2
        exact (no_fuel f).2.2 d data h hl2
    · have := parseScalar_err _ _ _ hfuel; cases this

/-- every error of `load` is one of the classes the reader's outer `except` names -/
theorem load_err_caught (m d : Nat) (s : Bytes) (e : Err) (h : load m d s = .error e) :
    caughtOuter e = true := by
  unfold load at h
  dsimp only at h
  repeat' split at h
  all_goals first | (simp at h; done) | (simp at h; rw [← h]; rfl) | skip
  rename_i _ _ _ c body hdw _ _ _ _ tag rest hdrop _ e' hp
  simp at h; subst h
  have hlen : (List.take (decVal (List.takeWhile isDigit s)) body).length + 2 ≤ s.length + 2 := by
    have h1 : (List.dropWhile isDigit s).length ≤ s.length := (List.dropWhile_sublist isDigit).length_le
    rw [hdw] at h1
    simp [List.length_take] at h1 ⊢
    omega
  have := parseTop_no_fuel _ d tag _ hlen
  cases e' <;> first | rfl | (exact absurd hp this)

theorem load_ok_length (m d : Nat) (s : Bytes) (v : Value) (rest : Bytes) (h : load m d s = .ok (v, rest)) :
    rest.length + 2 ≤ s.length := by
  unfold load at h
  dsimp only at h
  repeat' split at h
  all_goals first | (simp at h; done) | skip
  rename_i _ _ _ c body hdw _ _ _ _ tag rest' hdrop _ v' hp
  have h1 : (List.dropWhile isDigit s).length ≤ s.length := (List.dropWhile_sublist isDigit).length_le
  rw [hdw] at h1
  have h2 : (tag :: rest').length ≤ body.length := by
    rw [← hdrop]; simp [List.length_drop]
  simp at h
  rw [← h.2]
  simp at h1 h2
  omega

-- ------------------------------------------------------------------------------------------------
-- the reader loop over a sequence of records
-- ------------------------------------------------------------------------------------------------
/-- records `vs` standing at file positions i, i+1, …: each is a well-formed dict state within the reader's
    limits and `from_state ∘ migrate_flow` turns it (as loaded) into the corresponding flow of `fl` -/
def Good {α : Type} (env : Env α) : Nat → List Value → List α → Prop
  | _, [], [] => True
  | i, v :: vt, x :: xt =>
    (WF v ∧ isDict v = true ∧ (enc v).length < 10 ^ 12 ∧ (enc v).length ≤ env.memLimit ∧ depth v ≤ env.depth
      ∧ env.fromState i (mirror v) = .ok x) ∧ Good env (i + 1) vt xt
  | _, _, _ => False

theorem isDict_mirror (v : Value) : isDict (mirror v) = isDict v := by
  cases v <;> simp [mirror, isDict]

theorem Good.length {α : Type} (env : Env α) : ∀ (vs : List Value) (fl : List α) (i : Nat),
    Good env i vs fl → vs.length = fl.length := by
  intro vs
  induction vs with
  | nil => intro fl i h; cases fl <;> simp_all [Good]
  | cons v vt ih =>
    intro fl i h
    cases fl with
    | nil => simp [Good] at h
    | cons x xt => simp only [Good] at h; simp [ih xt (i + 1) h.2]

theorem stream_records {α : Type} (env : Env α) : ∀ (vs : List Value) (fl : List α) (i f : Nat)
    (tail : Bytes) (res : End), Good env i vs fl →
    (∀ g, 1 ≤ g → streamLoop env g (i + vs.length) tail = ([], res)) → vs.length + 1 ≤ f →
    streamLoop env f i (encList vs ++ tail) = (fl, res) := by
  intro vs
  induction vs with
  | nil =>
    intro fl i f tail res hg htail hf
    cases fl with
    | nil => simpa [encList] using htail f (by omega)
    | cons _ _ => simp [Good] at hg
  | cons v vt ih =>
    intro fl i f tail res hg htail hf
    cases fl with
    | nil => simp [Good] at hg
    | cons x xt =>
      simp only [Good] at hg
      obtain ⟨⟨hwf, hdict, h12, hm, hd, hfs⟩, hrest⟩ := hg
      cases f with
      | zero => simp at hf
      | succ f' =>
        have henc : encList (v :: vt) ++ tail = enc v ++ (encList vt ++ tail) := by simp [encList]
        rw [henc]
        simp only [streamLoop, load_enc v _ env.memLimit env.depth hwf h12 hm hd, isDict_mirror, hdict,
          Bool.not_true, Bool.false_eq_true, if_false, hfs]
        have := ih xt (i + 1) f' tail res hrest
          (by intro g hg1; have := htail g hg1; simpa [Nat.add_assoc, Nat.add_comm 1] using this)
          (by simp at hf; omega)
        rw [this]

theorem streamLoop_nil {α : Type} (env : Env α) (g i : Nat) (h : 1 ≤ g) :
    streamLoop env g i [] = ([], .clean) := by
  cases g with
  | zero => omega
  | succ g => simp [streamLoop, load]

theorem streamLoop_cut {α : Type} (env : Env α) (g i : Nat) (h : 1 ≤ g) (v : Value) (q w : Bytes)
    (h12 : (enc v).length < 10 ^ 12) (hq : q ≠ []) (hw : w ≠ []) (hqw : q ++ w = enc v) :
    streamLoop env g i q = ([], .flowRead) := by
  obtain ⟨payload, tag, he⟩ := enc_is_frame v
  have hpl : payload.length < (enc v).length := by rw [he, frame_length]; omega
  have hd12 : (natDec payload.length).length ≤ 12 := natDec_len_le _ 12 (by decide) (by omega)
  obtain ⟨e, hl, hne, _⟩ := load_prefix_err env.memLimit env.depth payload tag q w hd12 hq hw (by rw [hqw, he])
  have hc := load_err_caught _ _ _ _ hl
  cases g with
  | zero => omega
  | succ g => simp [streamLoop, hl, hne, hc]

theorem enc_head_digit (v : Value) : ∃ c cs, enc v = c :: cs ∧ isDigit c = true := by
  obtain ⟨payload, tag, he⟩ := enc_is_frame v
  have hne := natDec_ne_nil payload.length
  cases hh : natDec payload.length with
  | nil => exact absurd hh hne
  | cons c cs =>
    refine ⟨c, cs ++ 0x3a :: (payload ++ [tag]), ?_, natDec_digits payload.length c (by simp [hh])⟩
    rw [he, frame, hh]; simp

theorem sniff_digit (c : UInt8) (cs : Bytes) (h : isDigit c = true) : sniff (c :: cs) = (false, c :: cs) := by
  have h1 : c ≠ 0xef := by intro hc; subst hc; simp [isDigit] at h
  have h2 : c ≠ 0x7b := by intro hc; subst hc; simp [isDigit] at h
  have hb : ¬ (List.take 4 (c :: cs) = bom ++ [0x7b]) := by
    intro heq
    simp [bom] at heq
    exact h1 heq.1
  unfold sniff
  simp only [hb, if_false, List.head?_cons, Option.some.injEq, h2, decide_false]

theorem sniff_nil : sniff [] = (false, []) := by decide

/-- the reader never runs out of model fuel and ends with `escapes` only if from_state raises a non-Exception -/
theorem streamLoop_no_escape {α : Type} (env : Env α)
    (hfs : ∀ i v, env.fromState i v ≠ .error .nonException) :
    ∀ (f i : Nat) (s : Bytes), s.length + 1 ≤ f → (streamLoop env f i s).2 ≠ .escapes := by
  intro f
  induction f with
  | zero => intro i s h; omega
  | succ f ih =>
    intro i s h
    simp only [streamLoop]
    cases hl : load env.memLimit env.depth s with
    | error e =>
      simp only []
      have hc := load_err_caught _ _ _ _ hl
      by_cases he : e = .emptyFile
      · simp [he]
      · simp [he, hc]
    | ok p =>
      obtain ⟨v, rest⟩ := p
      simp only []
      have hlen := load_ok_length _ _ _ _ _ hl
      split
      · simp
      · cases hf : env.fromState i v with
        | error x =>
          cases x with
          | valueError => simp
          | exception => simp
          | nonException => exact absurd hf (hfs i v)
        | ok fl =>
          simp only []
          exact ih (i + 1) rest (by omega)

/-- the reader loop over whole records followed by ANY bytes: the records' flows come first, then whatever the
    loop makes of the tail (with the fuel that is left) -/
theorem stream_records_tail {α : Type} (env : Env α) : ∀ (vs : List Value) (fl : List α) (i g : Nat)
    (tail : Bytes), Good env i vs fl →
    streamLoop env (vs.length + g) i (encList vs ++ tail)
      = (fl ++ (streamLoop env g (i + vs.length) tail).1, (streamLoop env g (i + vs.length) tail).2) := by
  intro vs
  induction vs with
  | nil =>
    intro fl i g tail hg
    cases fl with
    | nil => simp [encList]
    | cons _ _ => simp [Good] at hg
  | cons v vt ih =>
    intro fl i g tail hg
    cases fl with
    | nil => simp [Good] at hg
    | cons x xt =>
      simp only [Good] at hg
      obtain ⟨⟨hwf, hdict, h12, hm, hd, hfs⟩, hrest⟩ := hg
      have henc : encList (v :: vt) ++ tail = enc v ++ (encList vt ++ tail) := by simp [encList]
      have hfuel : (v :: vt).length + g = (vt.length + g) + 1 := by simp; omega
      rw [henc, hfuel]
      simp only [streamLoop, load_enc v _ env.memLimit env.depth hwf h12 hm hd, isDict_mirror, hdict,
        Bool.not_true, Bool.false_eq_true, if_false, hfs]
      rw [ih xt (i + 1) g tail hrest]
      have : i + 1 + vt.length = i + (v :: vt).length := by simp; omega
      simp [this]

end MitmVerif.C36
