/-
  C36 — `load` through a `read` environment: a buffered reader over ANY segmentation of the stream behaves like the
  flat file, and the flat `loadVia` is `Model/C36.load`.
-/
import MitmVerif.Model.C36_Read
import MitmVerif.Lemmas.C36
namespace MitmVerif.C36

theorem readN_flatten : ∀ (segs : List Bytes) (k : Nat),
    (readN segs k).1 = segs.flatten.take k ∧ (readN segs k).2.flatten = segs.flatten.drop k := by
  intro segs
  induction segs with
  | nil => intro k; simp [readN]
  | cons seg rest ih =>
    intro k
    simp only [readN]
    split
    · rename_i h
      simp only [List.flatten_cons]
      refine ⟨?_, ?_⟩
      · rw [List.take_append]; simp [Nat.sub_eq_zero_of_le h]
      · rw [List.drop_append]; simp [Nat.sub_eq_zero_of_le h]
    · rename_i h
      have hlt : seg.length ≤ k := by omega
      obtain ⟨h1, h2⟩ := ih (k - seg.length)
      simp only [List.flatten_cons]
      refine ⟨?_, ?_⟩
      · rw [List.take_append, List.take_of_length_le hlt, h1]
      · rw [List.drop_append, List.drop_of_length_le hlt, h2]; simp

private def proj {α : Type} (p : α × List Bytes) : α × Bytes := (p.1, p.2.flatten)

theorem digitLoop_sim : ∀ (f : Nat) (ds : Bytes) (c : Option UInt8) (segs : List Bytes),
    (digitLoop readN f ds c segs).map (fun p => (p.1, p.2.flatten)) = digitLoop flatRd f ds c segs.flatten := by
  intro f
  induction f with
  | zero => intro ds c segs; rfl
  | succ f ih =>
    intro ds c segs
    cases c with
    | none => rfl
    | some ch =>
      simp only [digitLoop]
      by_cases hd : isDigit ch = true
      · simp only [hd, if_true]
        by_cases hl : (ds ++ [ch]).length > 12
        · simp only [hl, if_true]; rfl
        · simp only [hl, if_false]
          obtain ⟨h1, h2⟩ := readN_flatten segs 1
          rw [ih, h1, h2]
          rfl
      · simp only [hd, Bool.false_eq_true, if_false]
        by_cases hc : ch = 0x3a
        · simp only [hc, if_true]; rfl
        · simp only [hc, if_false]; rfl

theorem loadVia_sim (m d fuel : Nat) (segs : List Bytes) :
    (loadVia readN m d fuel segs).map (fun p => (p.1, p.2.flatten)) = loadVia flatRd m d fuel segs.flatten := by
  unfold loadVia
  obtain ⟨h1, h2⟩ := readN_flatten segs 1
  simp only [flatRd]
  rw [h1]
  cases hh : (List.take 1 segs.flatten).head? with
  | none => rfl
  | some c =>
    dsimp only
    have hsim := digitLoop_sim 14 [] (some c) (readN segs 1).2
    rw [h2] at hsim
    cases hdl : digitLoop readN 14 [] (some c) (readN segs 1).2 with
    | error e =>
      rw [hdl] at hsim
      simp only [Except.map] at hsim
      rw [← hsim]; rfl
    | ok p =>
      obtain ⟨ds, h1'⟩ := p
      rw [hdl] at hsim
      simp only [Except.map] at hsim
      rw [← hsim]
      simp only []
      by_cases hemp : ds.isEmpty = true
      · simp only [hemp, if_true]; rfl
      · simp only [hemp, Bool.false_eq_true, if_false]
        by_cases hm : decVal ds > m
        · simp only [hm, if_true]; rfl
        · simp only [hm, if_false]
          obtain ⟨a1, a2⟩ := readN_flatten h1' (decVal ds)
          obtain ⟨b1, b2⟩ := readN_flatten (readN h1' (decVal ds)).2 1
          rw [b1, a2, a1]
          cases (List.take 1 (List.drop (decVal ds) h1'.flatten)).head? with
          | none => rfl
          | some tag =>
            simp only []
            cases parseTop fuel d tag (List.take (decVal ds) h1'.flatten) with
            | error e => rfl
            | ok v => simp only [Except.map]; rw [b2, a2]

theorem head_take_one (l : Bytes) : (l.take 1).head? = l.head? := by cases l <;> simp

/-- the byte-wise digit loop on a flat file is `takeWhile isDigit` with the 12-digit limit and the colon check -/
theorem digitLoop_flat : ∀ (t ds : Bytes) (f : Nat), ds.length ≤ 12 → 14 ≤ ds.length + f →
    digitLoop flatRd f ds t.head? (t.drop 1) =
      (if (ds ++ t.takeWhile isDigit).length > 12 then .error .value
       else match t.dropWhile isDigit with
         | [] => .error .value
         | c :: body => if c = 0x3a then .ok (ds ++ t.takeWhile isDigit, body) else .error .value) := by
  intro t
  induction t with
  | nil =>
    intro ds f h12 hf
    cases f with
    | zero => omega
    | succ f =>
      have : ¬ ds.length > 12 := by omega
      simp [digitLoop, this]
  | cons ch t' ih =>
    intro ds f h12 hf
    cases f with
    | zero => omega
    | succ f =>
      simp only [List.head?_cons, List.drop_succ_cons, List.drop_zero, digitLoop]
      by_cases hd : isDigit ch = true
      · simp only [hd, if_true, List.takeWhile_cons, List.dropWhile_cons]
        by_cases hl : (ds ++ [ch]).length > 12
        · have : (ds ++ ch :: List.takeWhile isDigit t').length > 12 := by
            simp only [List.length_append, List.length_cons, List.length_nil] at hl ⊢; omega
          simp only [hl, if_true, this]
        · simp only [hl, if_false]
          have hl' : (ds ++ [ch]).length ≤ 12 := by omega
          have := ih (ds ++ [ch]) f hl' (by simp only [List.length_append, List.length_cons, List.length_nil]; omega)
          simp only [flatRd, head_take_one]
          rw [this]
          simp only [List.append_assoc, List.cons_append, List.nil_append]
      · simp only [hd, Bool.false_eq_true, if_false, List.takeWhile_cons, List.dropWhile_cons, List.append_nil]
        have : ¬ ds.length > 12 := by omega
        simp only [this, if_false]

/-- `load` written against `read` on the flat file IS `Model/C36.load` -/
theorem loadVia_flat (m d : Nat) (s : Bytes) : loadVia flatRd m d (s.length + 2) s = load m d s := by
  unfold loadVia load
  cases s with
  | nil => simp [flatRd]
  | cons c t =>
    have hdl := digitLoop_flat (c :: t) [] 14 (by simp) (by simp)
    simp only [List.head?_cons, List.drop_succ_cons, List.drop_zero, List.nil_append] at hdl
    simp only [flatRd, List.take_succ_cons, List.take_zero, List.head?_cons, List.drop_succ_cons, List.drop_zero,
      List.isEmpty_cons, Bool.false_eq_true, if_false]
    rw [hdl]
    by_cases h12 : (List.takeWhile isDigit (c :: t)).length > 12
    · simp only [h12, if_true]
    · simp only [h12, if_false]
      cases hdw : List.dropWhile isDigit (c :: t) with
      | nil => simp
      | cons x body =>
        simp only []
        by_cases hx : x = 0x3a
        · simp only [hx, if_true, ne_eq, not_true_eq_false, if_false]
          by_cases hemp : (List.takeWhile isDigit (c :: t)).isEmpty = true
          · simp only [hemp, if_true]
          · simp only [hemp, Bool.false_eq_true, if_false]
            by_cases hm : decVal (List.takeWhile isDigit (c :: t)) > m
            · simp only [hm, if_true]
            · simp only [hm, if_false]
              cases hdrop : List.drop (decVal (List.takeWhile isDigit (c :: t))) body with
              | nil => simp
              | cons tag rest => simp; rfl
        · simp only [hx, if_false, ne_eq, not_false_eq_true, if_true]

end MitmVerif.C36
