/-
  C37 — helper lemmas: how a prefix of a concatenation of records decomposes, prefixes of `Good` sequences,
  the writers as concatenation.
-/
import MitmVerif.Model.C37
import MitmVerif.Lemmas.C36
namespace MitmVerif.C37
open MitmVerif.C36

theorem length_le_encList : ∀ l : List Value, l.length ≤ (encList l).length := by
  intro l
  induction l with
  | nil => simp
  | cons v t ih => have := enc_length_ge v; simp [encList]; omega

theorem encList_append (a b : List Value) : encList (a ++ b) = encList a ++ encList b := by
  induction a with
  | nil => simp [encList]
  | cons v t ih => simp [encList, ih]

/-- a prefix of a concatenation of records = some whole records followed by nothing or by a strict, non-empty
    prefix of the next record -/
theorem prefix_decomp : ∀ (vs : List Value) (p : Bytes), p <+: encList vs →
    ∃ k q, k ≤ vs.length ∧ p = encList (vs.take k) ++ q ∧
      (q = [] ∨ ∃ v w, vs[k]? = some v ∧ q ≠ [] ∧ w ≠ [] ∧ q ++ w = enc v) := by
  intro vs
  induction vs with
  | nil =>
    intro p hp
    have : p = [] := by simpa [encList] using hp
    exact ⟨0, [], by simp, by simp [this, encList], Or.inl rfl⟩
  | cons v t ih =>
    intro p hp
    obtain ⟨w, hw⟩ := hp
    have henc : encList (v :: t) = enc v ++ encList t := by simp [encList]
    rw [henc] at hw
    rcases List.append_eq_append_iff.mp hw with ⟨a', h1, h2⟩ | ⟨c', h1, h2⟩
    · -- p lies inside the first record:  enc v = p ++ a'
      by_cases hp0 : p = []
      · exact ⟨0, [], by simp, by simp [hp0, encList], Or.inl rfl⟩
      · by_cases ha : a' = []
        · refine ⟨1, [], by simp, ?_, Or.inl rfl⟩
          simp [encList, h1, ha]
        · refine ⟨0, p, by simp, by simp [encList], Or.inr ⟨v, a', by simp, hp0, ha, h1.symm⟩⟩
    · -- p = enc v ++ c' with c' a prefix of the remaining records
      obtain ⟨k, q, hk, hpq, hq⟩ := ih c' ⟨w, h2.symm⟩
      refine ⟨k + 1, q, by simp; omega, ?_, ?_⟩
      · rw [h1, hpq]; simp [encList]
      · rcases hq with hq | ⟨v', w', hv', h3, h4, h5⟩
        · exact Or.inl hq
        · exact Or.inr ⟨v', w', by simpa using hv', h3, h4, h5⟩

theorem Good.take {α : Type} (env : Env α) : ∀ (vs : List Value) (fl : List α) (i k : Nat),
    Good env i vs fl → Good env i (vs.take k) (fl.take k) := by
  intro vs
  induction vs with
  | nil =>
    intro fl i k h
    cases fl with
    | nil => simp [Good]
    | cons _ _ => simp [Good] at h
  | cons v vt ih =>
    intro fl i k h
    cases fl with
    | nil => simp [Good] at h
    | cons x xt =>
      cases k with
      | zero => simp [Good]
      | succ k =>
        simp only [Good] at h
        simp only [List.take_succ_cons, Good]
        exact ⟨h.1, ih xt (i + 1) k h.2⟩

theorem Good.size {α : Type} (env : Env α) : ∀ (vs : List Value) (fl : List α) (i k : Nat) (v : Value),
    Good env i vs fl → vs[k]? = some v → (enc v).length < 10 ^ 12 := by
  intro vs
  induction vs with
  | nil => intro fl i k v _ hk; simp at hk
  | cons x vt ih =>
    intro fl i k v h hk
    cases fl with
    | nil => simp [Good] at h
    | cons y yt =>
      simp only [Good] at h
      cases k with
      | zero => simp at hk; rw [← hk]; exact h.1.2.2.1
      | succ k => simp at hk; exact ih yt (i + 1) k v h.2 hk

theorem writeAll_eq (file : Bytes) (l : List Value) : writeAll file l = file ++ encList l := by
  unfold writeAll
  induction l generalizing file with
  | nil => simp [encList]
  | cons v t ih =>
    simp only [List.foldl_cons, ih, addFlow, encList]
    have : dumps v = enc v := by simp [dumps, rdumpq_eq v [] 0]
    simp [this]

theorem run_from (evs : List Event) : ∀ file, evs.foldl step file = file ++ encList (written evs) := by
  induction evs with
  | nil => intro file; simp [written, encList]
  | cons e t ih =>
    intro file
    simp only [List.foldl_cons, ih, step, writeAll_eq, written, encList_append, List.append_assoc]

theorem written_append (a b : List Event) : written (a ++ b) = written a ++ written b := by
  induction a with
  | nil => simp [written]
  | cons e t ih => simp [written, ih]

/-- a non-empty prefix of a file of records starts with a digit, so the reader takes the tnetstring branch -/
theorem prefix_head_digit (vs : List Value) (p : Bytes) (hp : p <+: encList vs) (hne : p ≠ []) :
    ∃ c cs, p = c :: cs ∧ isDigit c = true := by
  cases vs with
  | nil => have : p = [] := by simpa [encList] using hp
           exact absurd this hne
  | cons v t =>
    obtain ⟨c, cs, hc, hdig⟩ := enc_head_digit v
    obtain ⟨w, hw⟩ := hp
    cases p with
    | nil => exact absurd rfl hne
    | cons c' cs' =>
      simp only [encList, hc, List.cons_append, List.cons.injEq] at hw
      exact ⟨c', cs', rfl, by rw [hw.1]; exact hdig⟩

end MitmVerif.C37
