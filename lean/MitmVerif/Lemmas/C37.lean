/-
  C37 — helper lemmas: how a prefix of a concatenation of records decomposes, prefixes of `Good` sequences,
  the writers as concatenation.
-/
import MitmVerif.Model.C37
import MitmVerif.Lemmas.C36
namespace MitmVerif.C37
open MitmVerif.C36

theorem length_le_encList : ∀ l : List Value, l.length ≤ (encList l).length := by
  intro l
  induction l with
  | nil => simp
  | cons v t ih => have := enc_length_ge v; simp [encList]; omega

theorem encList_append (a b : List Value) : encList (a ++ b) = encList a ++ encList b := by
  induction a with
  | nil => simp [encList]
  | cons v t ih => simp [encList, ih]

/-- a prefix of a concatenation of records = some whole records followed by nothing or by a strict, non-empty
    prefix of the next record -/
theorem prefix_decomp : ∀ (vs : List Value) (p : Bytes), p <+: encList vs →
    ∃ k q, k ≤ vs.length ∧ p = encList (vs.take k) ++ q ∧
      (q = [] ∨ ∃ v w, vs[k]? = some v ∧ q ≠ [] ∧ w ≠ [] ∧ q ++ w = enc v) := by
  intro vs
  induction vs with
  | nil =>
    intro p hp
    have : p = [] := by simpa [encList] using hp
    exact ⟨0, [], by simp, by simp [this, encList], Or.inl rfl⟩
  | cons v t ih =>
    intro p hp
    obtain ⟨w, hw⟩ := hp
    have henc : encList (v :: t) = enc v ++ encList t := by simp [encList]
    rw [henc] at hw
    rcases List.append_eq_append_iff.mp hw with ⟨a', h1, h2⟩ | ⟨c', h1, h2⟩
    · -- p lies inside the first record:  enc v = p ++ a'
      by_cases hp0 : p = []
      · exact ⟨0, [], by simp, by simp [hp0, encList], Or.inl rfl⟩
      · by_cases ha : a' = []
        · refine ⟨1, [], by simp, ?_, Or.inl rfl⟩
          simp [encList, h1, ha]
        · refine ⟨0, p, by simp, by simp [encList], Or.inr ⟨v, a', by simp, hp0, ha, h1.symm⟩⟩
    · -- p = enc v ++ c' with c' a prefix of the remaining records
      obtain ⟨k, q, hk, hpq, hq⟩ := ih c' ⟨w, h2.symm⟩
      refine ⟨k + 1, q, by simp; omega, ?_, ?_⟩
      · rw [h1, hpq]; simp [encList]
      · rcases hq with hq | ⟨v', w', hv', h3, h4, h5⟩
        · exact Or.inl hq
        · exact Or.inr ⟨v', w', by simpa using hv', h3, h4, h5⟩

theorem Good.take {α : Type} (env : Env α) : ∀ (vs : List Value) (fl : List α) (i k : Nat),
    Good env i vs fl → Good env i (vs.take k) (fl.take k) := by
  intro vs
  induction vs with
  | nil =>
    intro fl i k h
    cases fl with
    | nil => simp [Good]
    | cons _ _ => simp [Good] at h
  | cons v vt ih =>
    intro fl i k h
    cases fl with
    | nil => simp [Good] at h
    | cons x xt =>
      cases k with
      | zero => simp [Good]
      | succ k =>
        simp only [Good] at h
        simp only [List.take_succ_cons, Good]
        exact ⟨h.1, ih xt (i + 1) k h.2⟩

theorem Good.size {α : Type} (env : Env α) : ∀ (vs : List Value) (fl : List α) (i k : Nat) (v : Value),
    Good env i vs fl → vs[k]? = some v → (enc v).length < 10 ^ 12 := by
  intro vs
  induction vs with
  | nil => intro fl i k v _ hk; simp at hk
  | cons x vt ih =>
    intro fl i k v h hk
    cases fl with
    | nil => simp [Good] at h
    | cons y yt =>
      simp only [Good] at h
      cases k with
      | zero => simp at hk; rw [← hk]; exact h.1.2.2.1
      | succ k => simp at hk; exact ih yt (i + 1) k v h.2 hk

theorem writeAll_eq (file : Bytes) (l : List Value) : writeAll file l = file ++ encList l := by
  unfold writeAll
  induction l generalizing file with
  | nil => simp [encList]
  | cons v t ih =>
    simp only [List.foldl_cons, ih, addFlow, encList]
    have : dumps v = enc v := by simp [dumps, rdumpq_eq v [] 0]
    simp [this]

theorem run_from (evs : List Event) : ∀ file, evs.foldl step file = file ++ encList (written evs) := by
  induction evs with
  | nil => intro file; simp [written, encList]
  | cons e t ih =>
    intro file
    simp only [List.foldl_cons, ih, step, writeAll_eq, written, encList_append, List.append_assoc]

theorem written_append (a b : List Event) : written (a ++ b) = written a ++ written b := by
  induction a with
  | nil => simp [written]
  | cons e t ih => simp [written, ih]

/-- a non-empty prefix of a file of records starts with a digit, so the reader takes the tnetstring branch -/
theorem prefix_head_digit (vs : List Value) (p : Bytes) (hp : p <+: encList vs) (hne : p ≠ []) :
    ∃ c cs, p = c :: cs ∧ isDigit c = true := by
  cases vs with
  | nil => have : p = [] := by simpa [encList] using hp
           exact absurd this hne
  | cons v t =>
    obtain ⟨c, cs, hc, hdig⟩ := enc_head_digit v
    obtain ⟨w, hw⟩ := hp
    cases p with
    | nil => exact absurd rfl hne
    | cons c' cs' =>
      simp only [encList, hc, List.cons_append, List.cons.injEq] at hw
      exact ⟨c', cs', rfl, by rw [hw.1]; exact hdig⟩

-- ------------------------------------------------------------------------------------------------
-- buffered files
-- ------------------------------------------------------------------------------------------------
theorem runOps_inv : ∀ (ops : List FOp) (f : BFile),
    (f.runOps ops).disk ++ (f.runOps ops).buf = f.disk ++ f.buf ++ opsLog ops := by
  intro ops
  induction ops with
  | nil => intro f; simp [BFile.runOps, opsLog]
  | cons op t ih =>
    intro f
    have hstep : f.runOps (op :: t) = (f.apply op).runOps t := by simp [BFile.runOps]
    rw [hstep, ih]
    cases op with
    | write b k =>
      simp only [BFile.apply, opsLog, List.append_assoc]
      rw [← List.append_assoc ((f.buf ++ b).take k), List.take_append_drop]
      simp
    | flush => simp [BFile.apply, opsLog]

theorem opsLog_append (a b : List FOp) : opsLog (a ++ b) = opsLog a ++ opsLog b := by
  induction a with
  | nil => simp [opsLog]
  | cons op t ih => cases op <;> simp [opsLog, ih]

theorem dumps_enc (v : Value) : dumps v = enc v := by simp [dumps, rdumpq_eq v [] 0]

theorem opsLog_streamOps : ∀ (vs : List Value) (ks : List Nat), opsLog (streamOps vs ks) = encList vs := by
  intro vs
  induction vs with
  | nil => intro ks; simp [streamOps, opsLog, encList]
  | cons v t ih => intro ks; simp [streamOps, opsLog, encList, ih, dumps_enc]

theorem opsLog_explicitOps : ∀ (vs : List Value) (ks : List Nat), opsLog (explicitOps vs ks) = encList vs := by
  intro vs
  induction vs with
  | nil => intro ks; simp [explicitOps, opsLog, encList]
  | cons v t ih => intro ks; simp [explicitOps, opsLog, encList, ih, dumps_enc]

/-- at any point of any operation list, what the OS has is a prefix of everything the program will have written -/
theorem disk_prefix (ops : List FOp) (i : Nat) : (BFile.empty.runOps (ops.take i)).disk <+: opsLog ops := by
  have h := runOps_inv (ops.take i) BFile.empty
  have hsplit : opsLog ops = opsLog (ops.take i) ++ opsLog (ops.drop i) := by
    rw [← opsLog_append, List.take_append_drop]
  simp only [BFile.empty, List.nil_append] at h
  refine ⟨(BFile.empty.runOps (ops.take i)).buf ++ opsLog (ops.drop i), ?_⟩
  rw [hsplit, ← h, List.append_assoc]
  rfl

theorem streamOps_flushed : ∀ (vs : List Value) (ks : List Nat) (f : BFile), f.buf = [] →
    f.runOps (streamOps vs ks) = ⟨f.disk ++ encList vs, []⟩ := by
  intro vs
  induction vs with
  | nil => intro ks f hf; cases f; simp_all [streamOps, BFile.runOps, encList]
  | cons v t ih =>
    intro ks f hf
    have hstep : f.runOps (streamOps (v :: t) ks)
        = ((f.apply (.write (dumps v) (ks.headD 0))).apply .flush).runOps (streamOps t ks.tail) := by
      simp [streamOps, BFile.runOps]
    rw [hstep, ih ks.tail _ (by simp [BFile.apply])]
    simp [BFile.apply, hf, encList, dumps_enc, List.take_append_drop]

theorem explicitOps_closed : ∀ (vs : List Value) (ks : List Nat) (f : BFile),
    f.runOps (explicitOps vs ks) = ⟨f.disk ++ f.buf ++ encList vs, []⟩ := by
  intro vs ks f
  have hb : (f.runOps (explicitOps vs ks)).buf = [] := by
    induction vs generalizing ks f with
    | nil => simp [explicitOps, BFile.runOps, BFile.apply]
    | cons v t ih =>
      have : f.runOps (explicitOps (v :: t) ks) = (f.apply (.write (dumps v) (ks.headD 0))).runOps (explicitOps t ks.tail) := by
        simp [explicitOps, BFile.runOps]
      rw [this]; exact ih _ _
  have h := runOps_inv (explicitOps vs ks) f
  rw [hb, opsLog_explicitOps] at h
  simp only [List.append_nil] at h
  cases hf : f.runOps (explicitOps vs ks) with
  | mk d b =>
    rw [hf] at h hb
    simp only at h hb
    rw [h, hb]

theorem pyWrite_inv (B : Nat) (f : BFile) (b : Bytes) :
    (pyWrite B f b).disk ++ (pyWrite B f b).buf = f.disk ++ f.buf ++ b := by
  unfold pyWrite
  split
  · simp
  · split <;> simp

theorem pyExplicit_inv (B : Nat) : ∀ (bs : List Bytes) (f st : BFile), st ∈ pyExplicit B f bs →
    ∃ j, st.disk ++ st.buf = f.disk ++ f.buf ++ (bs.take j).flatten := by
  intro bs
  induction bs with
  | nil => intro f st h; simp [pyExplicit] at h
  | cons b t ih =>
    intro f st h
    simp only [pyExplicit, List.mem_cons] at h
    rcases h with h | h
    · exact ⟨1, by rw [h, pyWrite_inv]; simp⟩
    · obtain ⟨j, hj⟩ := ih (pyWrite B f b) st h
      refine ⟨j + 1, ?_⟩
      rw [hj, pyWrite_inv]; simp

end MitmVerif.C37
