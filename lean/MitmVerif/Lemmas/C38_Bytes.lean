import MitmVerif.Model.C38_Bytes
namespace MitmVerif.C38Conv
open MitmVerif MitmVerif.C36

def bmapSet (d : Dict) (n : Bytes) (v : Value) : Dict :=
  d.map (fun kv => if bkeyIs kv.1 n then (kv.1, v) else kv)

theorem bset_eq (d : Dict) (n : Bytes) (v : Value) :
    bset d n v = if bhas d n then bmapSet d n v else d ++ [(.bytes n, v)] := rfl

theorem bkeyIs_excl (n m : Bytes) (hnm : (n == m) = false) :
    ∀ k : Value, bkeyIs k n = true → bkeyIs k m = false := by
  intro k hk
  cases k with
  | bytes u =>
    simp only [bkeyIs] at hk ⊢
    have hun : u = n := by simpa using hk
    subst hun; exact hnm
  | _ => simp [bkeyIs] at hk

theorem bget_cons (kv : Value × Value) (d : Dict) (m : Bytes) :
    bget (kv :: d) m = if bkeyIs kv.1 m then some kv.2 else bget d m := by
  simp only [bget, List.find?_cons]
  cases bkeyIs kv.1 m <;> simp

theorem bget_mapSet_same (d : Dict) (n : Bytes) (v : Value) (h : bhas d n = true) :
    bget (bmapSet d n v) n = some v := by
  induction d with
  | nil => simp [bhas] at h
  | cons kv d ih =>
    cases hk : bkeyIs kv.1 n with
    | true => simp [bmapSet, bget_cons, hk]
    | false =>
      have hd : bhas d n = true := by simpa [bhas, hk] using h
      have := ih hd
      simp only [bmapSet, List.map_cons, hk, Bool.false_eq_true, if_false, bget_cons] at this ⊢
      exact this

theorem bget_mapSet_other (d : Dict) (n m : Bytes) (v : Value)
    (hex : ∀ k : Value, bkeyIs k n = true → bkeyIs k m = false) :
    bget (bmapSet d n v) m = bget d m := by
  induction d with
  | nil => rfl
  | cons kv d ih =>
    cases hk : bkeyIs kv.1 n with
    | true =>
      have hm := hex kv.1 hk
      simp only [bmapSet, List.map_cons, hk, if_true, bget_cons, hm, Bool.false_eq_true, if_false] at ih ⊢
      exact ih
    | false =>
      simp only [bmapSet, List.map_cons, hk, Bool.false_eq_true, if_false, bget_cons] at ih ⊢
      rw [ih]

theorem bget_append_same (d : Dict) (n : Bytes) (v : Value) (h : bhas d n = false) :
    bget (d ++ [(.bytes n, v)]) n = some v := by
  induction d with
  | nil => simp [bget, bkeyIs]
  | cons kv d ih =>
    have hk : bkeyIs kv.1 n = false := by
      simp only [bhas, List.any_cons, Bool.or_eq_false_iff] at h; exact h.1
    have hd : bhas d n = false := by
      simp only [bhas, List.any_cons, Bool.or_eq_false_iff] at h; simpa [bhas] using h.2
    simp only [List.cons_append, bget_cons, hk, Bool.false_eq_true, if_false]
    exact ih hd

theorem bget_append_other (d : Dict) (n m : Bytes) (v : Value) (hnm : (n == m) = false) :
    bget (d ++ [(.bytes n, v)]) m = bget d m := by
  induction d with
  | nil => simp [bget, bkeyIs, hnm]
  | cons kv d ih =>
    simp only [List.cons_append, bget_cons]
    rw [ih]

theorem bget_bset_same (d : Dict) (n : Bytes) (v : Value) : bget (bset d n v) n = some v := by
  rw [bset_eq]
  cases h : bhas d n with
  | true => simpa using bget_mapSet_same d n v h
  | false => simpa using bget_append_same d n v h

/-- setting key `n` leaves the value under a different key `m` alone -/
theorem bget_bset_ne (d : Dict) (n m : Bytes) (v : Value) (hnm : (n == m) = false) :
    bget (bset d n v) m = bget d m := by
  rw [bset_eq]
  cases h : bhas d n with
  | true => simpa using bget_mapSet_other d n m v (bkeyIs_excl n m hnm)
  | false => simpa using bget_append_other d n m v hnm

theorem bget_bpop_ne (d : Dict) (n m : Bytes) (hnm : (n == m) = false) :
    bget (bpop d n) m = bget d m := by
  induction d with
  | nil => rfl
  | cons kv d ih =>
    cases hk : bkeyIs kv.1 n with
    | true =>
      have hm := bkeyIs_excl n m hnm kv.1 hk
      simp only [bpop, List.filter_cons, hk, Bool.not_true, Bool.false_eq_true, if_false, bget_cons, hm] at ih ⊢
      exact ih
    | false =>
      simp only [bpop, List.filter_cons, hk, Bool.not_false, if_true, bget_cons] at ih ⊢
      rw [ih]

theorem bget_bpop_same (d : Dict) (n : Bytes) : bget (bpop d n) n = none := by
  induction d with
  | nil => rfl
  | cons kv d ih =>
    cases hk : bkeyIs kv.1 n with
    | true => simpa [bpop, List.filter_cons, hk] using ih
    | false =>
      simp only [bpop, List.filter_cons, hk, Bool.not_false, if_true, bget_cons, Bool.false_eq_true, if_false] at ih ⊢
      exact ih

/-- `bupd` on key `n` leaves other keys alone -/
theorem bget_bupd_ne (d d' : Dict) (n m : Bytes) (f : Dict → Option Dict) (hnm : (n == m) = false)
    (h : bupd d n f = some d') : bget d' m = bget d m := by
  unfold bupd at h
  cases h1 : bget d n with
  | none => simp [h1] at h
  | some sub =>
    cases h2 : asDict sub with
    | none => simp [h1, h2] at h
    | some sd =>
      cases h3 : f sd with
      | none => simp [h1, h2, h3] at h
      | some sd' =>
        simp [h1, h2, h3] at h
        subst h
        exact bget_bset_ne d n m _ hnm

/-- what `bupd` leaves under the key it rewrites -/
theorem bupd_spec (d d' : Dict) (n : Bytes) (f : Dict → Option Dict) (h : bupd d n f = some d') :
    ∃ sd sd', bget d n = some (.dict sd) ∧ f sd = some sd' ∧ bget d' n = some (.dict sd') := by
  unfold bupd at h
  simp only [Option.bind_eq_bind, Option.bind_eq_some_iff, Option.pure_def, Option.some.injEq] at h
  obtain ⟨sub, hs, sd, hsd, sd', hf, rfl⟩ := h
  cases sub <;> simp only [asDict, Option.some.injEq, reduceCtorEq] at hsd
  subst hsd
  exact ⟨_, sd', hs, hf, bget_bset_same _ _ _⟩

-- each converter, seen from a top-level key it does not assign ------------------------------------
theorem body_b13 (d d' : Dict) (m : Bytes) (h : conv_013_014 d = some d')
    (h1 : (s "request" == m) = false) (h2 : (s "response" == m) = false) (h3 : (s "server_conn" == m) = false)
    (hv : (s "version" == m) = false) : bget d' m = bget d m := by
  unfold conv_013_014 at h
  simp only [Option.bind_eq_bind, Option.bind_eq_some_iff, Option.pure_def, Option.some.injEq] at h
  obtain ⟨d1, hd1, d2, hd2, d3, hd3, rfl⟩ := h
  unfold bsetVersion
  rw [bget_bset_ne _ _ _ _ hv, bget_bupd_ne _ _ _ _ _ h3 hd3, bget_bupd_ne _ _ _ _ _ h2 hd2, bget_bupd_ne _ _ _ _ _ h1 hd1]

theorem body_b15 (d d' : Dict) (m : Bytes) (h : conv_015_016 d = some d')
    (h1 : (s "request" == m) = false) (h2 : (s "response" == m) = false)
    (hv : (s "version" == m) = false) : bget d' m = bget d m := by
  unfold conv_015_016 at h
  simp only [Option.bind_eq_bind, Option.bind_eq_some_iff, Option.pure_def, Option.some.injEq] at h
  obtain ⟨d1, hd1, d2, hd2, d3, hd3, d4, hd4, rfl⟩ := h
  unfold bsetVersion
  rw [bget_bset_ne _ _ _ _ hv, bget_bupd_ne _ _ _ _ _ h1 hd4, bget_bupd_ne _ _ _ _ _ h2 hd3, bget_bupd_ne _ _ _ _ _ h2 hd2,
    bget_bupd_ne _ _ _ _ _ h1 hd1]

theorem body_b16 (d d' : Dict) (m : Bytes) (h : conv_016_017 d = some d')
    (h3 : (s "server_conn" == m) = false) (hv : (s "version" == m) = false) : bget d' m = bget d m := by
  unfold conv_016_017 at h
  simp only [Option.bind_eq_bind, Option.bind_eq_some_iff, Option.pure_def, Option.some.injEq] at h
  obtain ⟨d1, hd1, rfl⟩ := h
  unfold bsetVersion
  rw [bget_bset_ne _ _ _ _ hv, bget_bupd_ne _ _ _ _ _ h3 hd1]

end MitmVerif.C38Conv
