import MitmVerif.Model.C38_Conv
namespace MitmVerif.C38Conv
open MitmVerif MitmVerif.C36

def mapSet (d : Dict) (n : Bytes) (v : Value) : Dict :=
  d.map (fun kv => if keyIs kv.1 n then (kv.1, v) else kv)

theorem dset_eq (d : Dict) (n : Bytes) (v : Value) :
    dset d n v = if dhas d n then mapSet d n v else d ++ [(.str n, v)] := rfl

theorem keyIs_excl (n m : Bytes) (hnm : (n == m) = false) :
    ∀ k : Value, keyIs k n = true → keyIs k m = false := by
  intro k hk
  cases k with
  | str u =>
    simp only [keyIs] at hk ⊢
    have hun : u = n := by simpa using hk
    subst hun; exact hnm
  | _ => simp [keyIs] at hk

theorem dget_cons (kv : Value × Value) (d : Dict) (m : Bytes) :
    dget (kv :: d) m = if keyIs kv.1 m then some kv.2 else dget d m := by
  simp only [dget, List.find?_cons]
  cases keyIs kv.1 m <;> simp

theorem dget_mapSet_same (d : Dict) (n : Bytes) (v : Value) (h : dhas d n = true) :
    dget (mapSet d n v) n = some v := by
  induction d with
  | nil => simp [dhas] at h
  | cons kv d ih =>
    cases hk : keyIs kv.1 n with
    | true => simp [mapSet, dget_cons, hk]
    | false =>
      have hd : dhas d n = true := by simpa [dhas, hk] using h
      have := ih hd
      simp only [mapSet, List.map_cons, hk, Bool.false_eq_true, if_false, dget_cons] at this ⊢
      exact this

theorem dget_mapSet_other (d : Dict) (n m : Bytes) (v : Value)
    (hex : ∀ k : Value, keyIs k n = true → keyIs k m = false) :
    dget (mapSet d n v) m = dget d m := by
  induction d with
  | nil => rfl
  | cons kv d ih =>
    cases hk : keyIs kv.1 n with
    | true =>
      have hm := hex kv.1 hk
      simp only [mapSet, List.map_cons, hk, if_true, dget_cons, hm, Bool.false_eq_true, if_false] at ih ⊢
      exact ih
    | false =>
      simp only [mapSet, List.map_cons, hk, Bool.false_eq_true, if_false, dget_cons] at ih ⊢
      rw [ih]

theorem dget_append_same (d : Dict) (n : Bytes) (v : Value) (h : dhas d n = false) :
    dget (d ++ [(.str n, v)]) n = some v := by
  induction d with
  | nil => simp [dget, keyIs]
  | cons kv d ih =>
    have hk : keyIs kv.1 n = false := by
      simp only [dhas, List.any_cons, Bool.or_eq_false_iff] at h; exact h.1
    have hd : dhas d n = false := by
      simp only [dhas, List.any_cons, Bool.or_eq_false_iff] at h; simpa [dhas] using h.2
    simp only [List.cons_append, dget_cons, hk, Bool.false_eq_true, if_false]
    exact ih hd

theorem dget_append_other (d : Dict) (n m : Bytes) (v : Value) (hnm : (n == m) = false) :
    dget (d ++ [(.str n, v)]) m = dget d m := by
  induction d with
  | nil => simp [dget, keyIs, hnm]
  | cons kv d ih =>
    simp only [List.cons_append, dget_cons]
    rw [ih]

theorem dget_dset_same (d : Dict) (n : Bytes) (v : Value) : dget (dset d n v) n = some v := by
  rw [dset_eq]
  cases h : dhas d n with
  | true => simpa using dget_mapSet_same d n v h
  | false => simpa using dget_append_same d n v h

/-- setting key `n` leaves the value under a different key `m` alone -/
theorem dget_dset_ne (d : Dict) (n m : Bytes) (v : Value) (hnm : (n == m) = false) :
    dget (dset d n v) m = dget d m := by
  rw [dset_eq]
  cases h : dhas d n with
  | true => simpa using dget_mapSet_other d n m v (keyIs_excl n m hnm)
  | false => simpa using dget_append_other d n m v hnm

theorem dget_dpop_ne (d : Dict) (n m : Bytes) (hnm : (n == m) = false) :
    dget (dpop d n) m = dget d m := by
  induction d with
  | nil => rfl
  | cons kv d ih =>
    cases hk : keyIs kv.1 n with
    | true =>
      have hm := keyIs_excl n m hnm kv.1 hk
      simp only [dpop, List.filter_cons, hk, Bool.not_true, Bool.false_eq_true, if_false, dget_cons, hm] at ih ⊢
      exact ih
    | false =>
      simp only [dpop, List.filter_cons, hk, Bool.not_false, if_true, dget_cons] at ih ⊢
      rw [ih]

theorem dget_dpop_same (d : Dict) (n : Bytes) : dget (dpop d n) n = none := by
  induction d with
  | nil => rfl
  | cons kv d ih =>
    cases hk : keyIs kv.1 n with
    | true => simpa [dpop, List.filter_cons, hk] using ih
    | false =>
      simp only [dpop, List.filter_cons, hk, Bool.not_false, if_true, dget_cons, Bool.false_eq_true, if_false] at ih ⊢
      exact ih

/-- `dupd` on key `n` leaves other keys alone -/
theorem dget_dupd_ne (d d' : Dict) (n m : Bytes) (f : Dict → Option Dict) (hnm : (n == m) = false)
    (h : dupd d n f = some d') : dget d' m = dget d m := by
  unfold dupd at h
  cases h1 : dget d n with
  | none => simp [h1] at h
  | some sub =>
    cases h2 : asDict sub with
    | none => simp [h1, h2] at h
    | some sd =>
      cases h3 : f sd with
      | none => simp [h1, h2, h3] at h
      | some sd' =>
        simp [h1, h2, h3] at h
        subst h
        exact dget_dset_ne d n m _ hnm

/-- what `dupd` leaves under the key it rewrites -/
theorem dupd_spec (d d' : Dict) (n : Bytes) (f : Dict → Option Dict) (h : dupd d n f = some d') :
    ∃ sd sd', dget d n = some (.dict sd) ∧ f sd = some sd' ∧ dget d' n = some (.dict sd') := by
  unfold dupd at h
  simp only [Option.bind_eq_bind, Option.bind_eq_some_iff, Option.pure_def, Option.some.injEq] at h
  obtain ⟨sub, hs, sd, hsd, sd', hf, rfl⟩ := h
  cases sub <;> simp only [asDict, Option.some.injEq, reduceCtorEq] at hsd
  subst hsd
  exact ⟨_, sd', hs, hf, dget_dset_same _ _ _⟩

-- each converter, seen from a top-level key it does not assign ------------------------------------
theorem body_10 (d d' : Dict) (m : Bytes) (h : conv_10_11 d = some d')
    (h2 : (s "client_conn" == m) = false) (h3 : (s "server_conn" == m) = false) :
    dget d' m = dget (setVersion d 11) m := by
  unfold conv_10_11 at h
  simp only [Option.bind_eq_bind, Option.bind_eq_some_iff, Option.pure_def] at h
  obtain ⟨d1, hd1, d2, hd2, sc, _, via, _, h⟩ := h
  have e2 : dget d2 m = dget (setVersion d 11) m := by
    rw [dget_dupd_ne _ _ _ _ _ h3 hd2, dget_dupd_ne _ _ _ _ _ h2 hd1]
  split at h
  · rw [dget_dupd_ne _ _ _ _ _ h3 h]; exact e2
  · cases h; exact e2

theorem body_11 (d d' : Dict) (m : Bytes) (h : conv_11_12 d = some d')
    (h2 : (s "websocket" == m) = false) : dget d' m = dget (setVersion d 12) m := by
  unfold conv_11_12 at h
  simp only [Option.bind_eq_bind, Option.bind_eq_some_iff, Option.pure_def] at h
  obtain ⟨_, _, h⟩ := h
  split at h
  · cases h
  · cases h; exact dget_dset_ne _ _ _ _ h2

theorem body_12 (d d' : Dict) (m : Bytes) (h : conv_12_13 d = some d')
    (h2 : (s "marked" == m) = false) : dget d' m = dget (setVersion d 13) m := by
  unfold conv_12_13 at h
  simp only [Option.bind_eq_bind, Option.bind_eq_some_iff, Option.pure_def, Option.some.injEq] at h
  obtain ⟨_, _, rfl⟩ := h
  exact dget_dset_ne _ _ _ _ h2

theorem body_13F (fadd : Bytes → Option Bytes) (d d' : Dict) (m : Bytes) (h : conv_13_14F fadd d = some d')
    (h2 : (s "comment" == m) = false) (h3 : (s "response" == m) = false) :
    dget d' m = dget (setVersion d 14) m := by
  have base : dget (dset (setVersion d 14) (s "comment") (Value.str [])) m = dget (setVersion d 14) m :=
    dget_dset_ne _ _ _ _ h2
  unfold conv_13_14F at h
  simp only [Option.bind_eq_bind, Option.pure_def] at h
  split at h
  · split at h
    · cases h; exact base
    · split at h
      · simp only [Option.bind_eq_some_iff, Option.some.injEq] at h
        obtain ⟨_, _, _, _, _, _, rfl⟩ := h
        rw [dget_dset_ne _ _ _ _ h3]; exact base
      · cases h; exact base
      · cases h
  · cases h; exact base

theorem body_13 (d d' : Dict) (m : Bytes) (h : conv_13_14 d = some d')
    (h2 : (s "comment" == m) = false) (h3 : (s "response" == m) = false) :
    dget d' m = dget (setVersion d 14) m := body_13F _ d d' m h h2 h3

theorem body_14 (d d' : Dict) (m : Bytes) (h : conv_14_15 d = some d')
    (h2 : (s "websocket" == m) = false) : dget d' m = dget (setVersion d 15) m := by
  unfold conv_14_15 at h
  simp only [Option.bind_eq_bind, Option.pure_def] at h
  split at h
  · split at h
    · cases h; rfl
    · simp only [Option.bind_eq_some_iff] at h
      obtain ⟨msgs, _, h⟩ := h
      split at h
      · simp only [Option.bind_eq_some_iff, Option.some.injEq] at h
        obtain ⟨_, _, rfl⟩ := h
        exact dget_dset_ne _ _ _ _ h2
      · cases h
  · cases h; rfl

theorem body_15 (d d' : Dict) (m : Bytes) (h : conv_15_16 d = some d')
    (h2 : (s "timestamp_created" == m) = false) : dget d' m = dget (setVersion d 16) m := by
  unfold conv_15_16 at h
  simp only [Option.bind_eq_bind, Option.bind_eq_some_iff, Option.pure_def, Option.some.injEq] at h
  obtain ⟨_, _, _, _, _, _, rfl⟩ := h
  exact dget_dset_ne _ _ _ _ h2

theorem body_16 (d d' : Dict) (m : Bytes) (h : conv_16_17 d = some d')
    (h2 : (s "mode" == m) = false) : dget d' m = dget (setVersion d 17) m := by
  unfold conv_16_17 at h
  simp only [Option.pure_def, Option.some.injEq] at h
  subst h; exact dget_dpop_ne _ _ _ h2

theorem body_17 (d d' : Dict) (m : Bytes) (h : conv_17_18 d = some d')
    (h2 : (s "client_conn" == m) = false) : dget d' m = dget (setVersion d 18) m := by
  unfold conv_17_18 at h
  exact dget_dupd_ne _ _ _ _ _ h2 h

theorem body_18 (d d' : Dict) (m : Bytes) (h : conv_18_19 d = some d')
    (h2 : (s "client_conn" == m) = false) (h3 : (s "server_conn" == m) = false) :
    dget d' m = dget (setVersion d 19) m := by
  unfold conv_18_19 at h
  simp only [Option.bind_eq_bind, Option.bind_eq_some_iff, Option.pure_def, Option.some.injEq] at h
  obtain ⟨cc, -, sc, -, cc', -, sc', -, rfl⟩ := h
  rw [dget_dset_ne _ _ _ _ h3, dget_dset_ne _ _ _ _ h2]

theorem body_19 (d d' : Dict) (m : Bytes) (h : conv_19_20 d = some d')
    (h2 : (s "client_conn" == m) = false) (h3 : (s "server_conn" == m) = false) :
    dget d' m = dget (setVersion d 20) m := by
  unfold conv_19_20 at h
  simp only [Option.bind_eq_bind, Option.bind_eq_some_iff] at h
  obtain ⟨d1, hd1, h⟩ := h
  rw [dget_dupd_ne _ _ _ _ _ h3 h, dget_dupd_ne _ _ _ _ _ h2 hd1]

theorem body_20 (d d' : Dict) (m : Bytes) (h : conv_20_21 d = some d')
    (h2 : (s "client_conn" == m) = false) (h3 : (s "server_conn" == m) = false) :
    dget d' m = dget (setVersion d 21) m := by
  unfold conv_20_21 at h
  simp only [Option.bind_eq_bind, Option.bind_eq_some_iff] at h
  obtain ⟨d1, hd1, h⟩ := h
  rw [dget_dupd_ne _ _ _ _ _ h3 h, dget_dupd_ne _ _ _ _ _ h2 hd1]

end MitmVerif.C38Conv
