/-
  C38 — lemmas for the 18→19 converter: the host decode (`bytes.decode(errors="backslashreplace")`) and the
  per-connection field surgery.
-/
import MitmVerif.Lemmas.C38_Conv
import MitmVerif.Lemmas.C35Str
namespace MitmVerif.C38Conv
open MitmVerif MitmVerif.C36 MitmVerif.C35.StrLemmas
open MitmVerif.C35 (PyStr native enc1 encodeSE)

/-- the per-code-point writer of `bsrUtf8` -/
def bsrCp (cp : Nat) : Bytes :=
  if 0xDC80 ≤ cp ∧ cp ≤ 0xDCFF then [0x5c, 0x78, hexd ((cp - 0xDC00) / 16), hexd ((cp - 0xDC00) % 16)]
  else (enc1 cp).getD []

theorem bsrUtf8_eq (b : Bytes) : bsrUtf8 b = (native b).flatMap bsrCp := rfl

/-- a str without escaped bytes is written back as its own UTF-8 encoding -/
theorem flatMap_bsrCp_of_encode : ∀ (l : PyStr) (b : Bytes), encodeSE l = some b →
    (∀ cp ∈ l, ¬ (0xDC80 ≤ cp ∧ cp ≤ 0xDCFF)) → l.flatMap bsrCp = b := by
  intro l
  induction l with
  | nil => intro b h _; simp only [encodeSE, Option.some.injEq] at h; subst h; rfl
  | cons c cs ih =>
    intro b h hl
    simp only [encodeSE] at h
    cases h1 : enc1 c with
    | none => simp [h1] at h
    | some a =>
      cases h2 : encodeSE cs with
      | none => simp [h1, h2] at h
      | some r =>
        simp only [h1, h2, Option.some.injEq] at h
        subst h
        have hc := hl c (List.mem_cons_self ..)
        simp only [List.flatMap_cons, bsrCp, hc, if_false, h1, Option.getD_some]
        rw [ih r h2 (fun cp hcp => hl cp (List.mem_cons_of_mem _ hcp))]

/-- **valid UTF-8 host bytes decode to the very same text** -/
theorem bsrUtf8_valid (b : Bytes) (h : ∀ cp ∈ native b, ¬ (0xDC80 ≤ cp ∧ cp ≤ 0xDCFF)) : bsrUtf8 b = b := by
  rw [bsrUtf8_eq]
  exact flatMap_bsrCp_of_encode _ _ (encode_decF b.length b (Nat.le_refl _)) h

theorem native_ascii : ∀ (b : Bytes), (∀ c ∈ b, c.toNat < 0x80) → native b = b.map (·.toNat) := by
  intro b
  induction b with
  | nil => intro _; rfl
  | cons c t ih =>
    intro h
    have hc := h c (List.mem_cons_self ..)
    have : C35.decStep (c :: t) = (c.toNat, 1) := by simp [C35.decStep, hc]
    rw [native_of_step c t _ _ this]
    simp only [List.drop_succ_cons, List.drop_zero, List.map_cons]
    rw [ih (fun x hx => h x (List.mem_cons_of_mem _ hx))]

/-- ASCII host names (every name an old mitmproxy release recorded for a resolvable host) are unchanged -/
theorem bsrUtf8_ascii (b : Bytes) (h : ∀ c ∈ b, c.toNat < 0x80) : bsrUtf8 b = b := by
  apply bsrUtf8_valid
  rw [native_ascii b h]
  intro cp hcp
  simp only [List.mem_map] at hcp
  obtain ⟨c, hc, rfl⟩ := hcp
  have := h c hc
  omega

/-- an undecodable byte is written as the four ASCII characters `\xNN` -/
theorem bsrCp_escape (n : Nat) (h : 0x80 ≤ n ∧ n ≤ 0xFF) :
    bsrCp (0xDC00 + n) = [0x5c, 0x78, hexd (n / 16), hexd (n % 16)] := by
  have : 0xDC80 ≤ 0xDC00 + n ∧ 0xDC00 + n ≤ 0xDCFF := by omega
  simp only [bsrCp, this, and_self, if_true, Nat.add_sub_cancel_left]

-- ------------------------------------------------------------------------------------------------
theorem decodeHostIn_frame (c c' : Dict) (n m : Bytes) (h : decodeHostIn c n = some c')
    (hnm : (n == m) = false) : dget c' m = dget c m := by
  unfold decodeHostIn at h
  split at h
  · cases h; rfl
  · split at h
    · cases h; rfl
    · split at h <;> first | (cases h; rfl) | (cases h; exact dget_dset_ne _ _ _ _ hnm) | (cases h)

/-- what `decodeHostIn` leaves under its own key: a list whose head was bytes gets a str head, the tail stays -/
theorem decodeHostIn_same (c c' : Dict) (n : Bytes) (h : decodeHostIn c n = some c') :
    dget c' n = (match dget c n with
      | some (.list (.bytes hb :: rest)) => some (.list (.str (bsrUtf8 hb) :: rest))
      | o => o) := by
  unfold decodeHostIn at h
  split at h
  · next hn => cases h; simp only [hn]
  · next v hv =>
    split at h
    · next ht =>
      cases h; rw [hv]
      cases v with
      | list l =>
        cases l with
        | nil => rfl
        | cons x xs => cases x <;> first | rfl | (simp [truthy] at ht)
      | _ => rfl
    · split at h
      · cases h; rw [hv]; exact dget_dset_same _ _ _
      · next hne' =>
        cases h; rw [hv]
        split
        · next hb rest heq => cases heq; rename_i hx; exact (hx _ _ rfl).elim
        · rfl
      · cases h; rw [hv]
      · cases h; rw [hv]
      · cases h

theorem dget_tsDefault_ne (c : Dict) (m : Bytes) (h : (s "timestamp_start" == m) = false) :
    dget (tsDefault c) m = dget c m := by
  unfold tsDefault
  split <;> first | exact dget_dset_ne _ _ _ _ h | rfl

theorem dget_rename_ne (c : Dict) (o n m : Bytes) (h1 : (o == m) = false) (h2 : (n == m) = false) :
    dget (rename c o n) m = dget c m := by
  unfold rename; rw [dget_dset_ne _ _ _ _ h2, dget_dpop_ne _ _ _ h1]

theorem dget_rename_new (c : Dict) (o n : Bytes) : dget (rename c o n) n = some ((dget c o).getD .null) := by
  unfold rename; exact dget_dset_same _ _ _

theorem sniFix_frame (c c' : Dict) (m : Bytes) (h : sniFix c = some c') (hm : (s "sni" == m) = false) :
    dget c' m = dget c m := by
  unfold sniFix at h
  simp only [Option.bind_eq_bind, Option.bind_eq_some_iff] at h
  obtain ⟨sni, -, h⟩ := h
  split at h
  · split at h
    · cases h
    · split at h
      · simp only [Option.map_eq_some_iff] at h
        obtain ⟨x, _, rfl⟩ := h
        exact dget_dset_ne _ _ _ _ hm
      · cases h; exact dget_dset_ne _ _ _ _ hm
  · cases h; rfl

theorem conn18fields_frame (c : Dict) (m : Bytes)
    (h1 : (s "tls_established" == m) = false) (h2 : (s "cipher_name" == m) = false)
    (h3 : (s "cipher" == m) = false) (h4 : (s "transport_protocol" == m) = false) :
    dget (conn18fields c) m = dget c m := by
  unfold conn18fields
  simp only []
  split
  · rw [dget_dset_ne _ _ _ _ h3, dget_dpop_ne _ _ _ h2, dget_dpop_ne _ _ _ h1]
  · rw [dget_dset_ne _ _ _ _ h4, dget_dset_ne _ _ _ _ h3, dget_dpop_ne _ _ _ h2, dget_dpop_ne _ _ _ h1]

theorem dget_isSome_of_dhas (e : Dict) (n : Bytes) (h : dhas e n = true) : (dget e n).isSome = true := by
  simp only [dhas, List.any_eq_true] at h
  obtain ⟨kv, hkv, hk⟩ := h
  simp only [dget]
  cases hf : List.find? (fun kv => keyIs kv.1 n) e with
  | some _ => rfl
  | none => rw [List.find?_eq_none] at hf; exact absurd hk (hf kv hkv)

theorem conn18fields_renames (c : Dict) :
    dget (conn18fields c) (s "tls_established") = none ∧ dget (conn18fields c) (s "cipher_name") = none ∧
    dget (conn18fields c) (s "cipher") = some ((dget c (s "cipher_name")).getD .null) ∧
    (dget (conn18fields c) (s "transport_protocol")).isSome = true := by
  have e : dget (dpop c (s "tls_established")) (s "cipher_name") = dget c (s "cipher_name") :=
    dget_dpop_ne _ _ _ (by decide +kernel)
  unfold conn18fields
  simp only []
  split
  · next hh =>
    refine ⟨?_, ?_, ?_, dget_isSome_of_dhas _ _ hh⟩
    · rw [dget_dset_ne _ _ _ _ (by decide +kernel), dget_dpop_ne _ _ _ (by decide +kernel)]; exact dget_dpop_same _ _
    · rw [dget_dset_ne _ _ _ _ (by decide +kernel)]; exact dget_dpop_same _ _
    · rw [dget_dset_same, e]
  · refine ⟨?_, ?_, ?_, ?_⟩
    · rw [dget_dset_ne _ _ _ _ (by decide +kernel), dget_dset_ne _ _ _ _ (by decide +kernel),
        dget_dpop_ne _ _ _ (by decide +kernel)]; exact dget_dpop_same _ _
    · rw [dget_dset_ne _ _ _ _ (by decide +kernel), dget_dset_ne _ _ _ _ (by decide +kernel)]; exact dget_dpop_same _ _
    · rw [dget_dset_ne _ _ _ _ (by decide +kernel), dget_dset_same, e]
    · rw [dget_dset_same]; rfl

/-- the three host decodes of the loop body leave every other field alone -/
theorem conn18_decodes (c c' : Dict) (h : conn18 c = some c') :
    dhas c (s "tls_established") = true ∧
    ∀ m, (s "peername" == m) = false → (s "sockname" == m) = false → (s "address" == m) = false →
      dget c' m = dget (conn18fields c) m := by
  unfold conn18 at h
  split at h
  · cases h
  · next hh =>
    simp only [Option.bind_eq_bind, Option.bind_eq_some_iff] at h
    obtain ⟨c1, hc1, c2, hc2, h⟩ := h
    refine ⟨by simpa using hh, fun m a b d => ?_⟩
    rw [decodeHostIn_frame _ _ _ _ h d, decodeHostIn_frame _ _ _ _ hc2 b, decodeHostIn_frame _ _ _ _ hc1 a]

theorem conn18_frame (c c' : Dict) (m : Bytes) (h : conn18 c = some c')
    (h1 : (s "tls_established" == m) = false) (h2 : (s "cipher_name" == m) = false)
    (h3 : (s "cipher" == m) = false) (h4 : (s "transport_protocol" == m) = false)
    (h5 : (s "peername" == m) = false) (h6 : (s "sockname" == m) = false) (h7 : (s "address" == m) = false) :
    dget c' m = dget c m := by
  rw [(conn18_decodes c c' h).2 m h5 h6 h7, conn18fields_frame c m h1 h2 h3 h4]

/-- after the loop body the old field names are gone and `cipher` carries what `cipher_name` held -/
theorem conn18_renames (c c' : Dict) (h : conn18 c = some c') :
    dget c' (s "tls_established") = none ∧ dget c' (s "cipher_name") = none ∧
    dget c' (s "cipher") = some ((dget c (s "cipher_name")).getD .null) ∧
    (dget c' (s "transport_protocol")).isSome = true := by
  obtain ⟨_, fr⟩ := conn18_decodes c c' h
  obtain ⟨a, b, d, e⟩ := conn18fields_renames c
  refine ⟨?_, ?_, ?_, ?_⟩
  · rw [fr _ (by decide +kernel) (by decide +kernel) (by decide +kernel)]; exact a
  · rw [fr _ (by decide +kernel) (by decide +kernel) (by decide +kernel)]; exact b
  · rw [fr _ (by decide +kernel) (by decide +kernel) (by decide +kernel)]; exact d
  · rw [fr _ (by decide +kernel) (by decide +kernel) (by decide +kernel)]; exact e

end MitmVerif.C38Conv
