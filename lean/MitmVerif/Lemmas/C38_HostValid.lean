/-
  C38 — what `bytes.decode(errors="backslashreplace")` returns is a str: its UTF-8 bytes pass `C36.utf8Valid`
  (so `tnetstring.dumps` can save the migrated host names and `load` reads them back).
-/
import MitmVerif.Lemmas.C38_Host
namespace MitmVerif.C38Conv
open MitmVerif MitmVerif.C36 MitmVerif.C35.StrLemmas
open MitmVerif.C35 (PyStr native enc1 encodeSE isCont ok3 ok4 decF)

theorem utf8Valid_ascii_cons (c : UInt8) (t : Bytes) (h : c.toNat < 0x80) : utf8Valid (c :: t) = utf8Valid t := by
  conv => lhs; unfold utf8Valid
  simp only [h, if_true]

theorem inR_iff (lo hi : Nat) (c : UInt8) : inR lo hi c = true ↔ lo ≤ c.toNat ∧ c.toNat ≤ hi := by
  simp [inR]

theorem inR_false (lo hi : Nat) (c : UInt8) (h : ¬ (lo ≤ c.toNat ∧ c.toNat ≤ hi)) : inR lo hi c = false := by
  cases hh : inR lo hi c with
  | false => rfl
  | true => exact absurd ((inR_iff lo hi c).mp hh) h

theorem utf8Valid_2 (c c1 : UInt8) (t : Bytes) (h0 : 0xC2 ≤ c.toNat ∧ c.toNat ≤ 0xDF)
    (h1 : 0x80 ≤ c1.toNat ∧ c1.toNat ≤ 0xBF) : utf8Valid (c :: c1 :: t) = utf8Valid t := by
  have a : ¬ c.toNat < 0x80 := by omega
  conv => lhs; unfold utf8Valid
  simp only [a, if_false, (inR_iff 0xc2 0xdf c).mpr h0, if_true, (inR_iff 0x80 0xbf c1).mpr h1, Bool.true_and]

theorem utf8Valid_3 (c c1 c2 : UInt8) (t : Bytes) (h0 : 0xE0 ≤ c.toNat ∧ c.toNat ≤ 0xEF)
    (h1 : 0x80 ≤ c1.toNat ∧ c1.toNat ≤ 0xBF) (ha : ¬ (c.toNat = 0xE0 ∧ c1.toNat < 0xA0))
    (hb : ¬ (c.toNat = 0xED ∧ 0xA0 ≤ c1.toNat)) (h2 : 0x80 ≤ c2.toNat ∧ c2.toNat ≤ 0xBF) :
    utf8Valid (c :: c1 :: c2 :: t) = utf8Valid t := by
  have a : ¬ c.toNat < 0x80 := by omega
  have b : inR 0xc2 0xdf c = false := inR_false _ _ _ (by omega)
  conv => lhs; unfold utf8Valid
  simp only [a, if_false, b, Bool.false_eq_true, (inR_iff 0xe0 0xef c).mpr h0, if_true, (inR_iff 0x80 0xbf c2).mpr h2,
    Bool.and_true, Bool.true_and]
  by_cases e0 : c.toNat = 0xE0
  · simp only [e0, if_true, (inR_iff 0xa0 0xbf c1).mpr (by omega), Bool.true_and]
  · by_cases ed : c.toNat = 0xED
    · simp only [ed, if_true, (inR_iff 0x80 0x9f c1).mpr (by omega), Bool.true_and]; simp
    · simp only [e0, ed, if_false, (inR_iff 0x80 0xbf c1).mpr h1, Bool.true_and]

theorem utf8Valid_4 (c c1 c2 c3 : UInt8) (t : Bytes) (h0 : 0xF0 ≤ c.toNat ∧ c.toNat ≤ 0xF4)
    (h1 : 0x80 ≤ c1.toNat ∧ c1.toNat ≤ 0xBF) (ha : ¬ (c.toNat = 0xF0 ∧ c1.toNat < 0x90))
    (hb : ¬ (c.toNat = 0xF4 ∧ 0x90 ≤ c1.toNat)) (h2 : 0x80 ≤ c2.toNat ∧ c2.toNat ≤ 0xBF)
    (h3 : 0x80 ≤ c3.toNat ∧ c3.toNat ≤ 0xBF) :
    utf8Valid (c :: c1 :: c2 :: c3 :: t) = utf8Valid t := by
  have a : ¬ c.toNat < 0x80 := by omega
  have b : inR 0xc2 0xdf c = false := inR_false _ _ _ (by omega)
  have b' : inR 0xe0 0xef c = false := inR_false _ _ _ (by omega)
  conv => lhs; unfold utf8Valid
  simp only [a, if_false, b, b', Bool.false_eq_true, (inR_iff 0xf0 0xf4 c).mpr h0, if_true, (inR_iff 0x80 0xbf c2).mpr h2,
    (inR_iff 0x80 0xbf c3).mpr h3, Bool.and_true, Bool.true_and]
  by_cases e0 : c.toNat = 0xF0
  · simp only [e0, if_true, (inR_iff 0x90 0xbf c1).mpr (by omega), Bool.true_and]
  · by_cases ed : c.toNat = 0xF4
    · simp only [ed, if_true, (inR_iff 0x80 0x8f c1).mpr (by omega), Bool.true_and]; simp
    · simp only [e0, ed, if_false, (inR_iff 0x80 0xbf c1).mpr h1, Bool.true_and]

theorem hexd_ascii (n : Nat) (h : n < 16) : (hexd n).toNat < 0x80 := by
  unfold hexd
  split
  · rw [UInt8.toNat_ofNat']; omega
  · rw [UInt8.toNat_ofNat']; omega

/-- one step of the decoder, by cases: an escaped byte, or 1–4 bytes of a well-formed sequence -/
theorem decStep_cases (b : UInt8) (t : Bytes) :
    (0x80 ≤ b.toNat ∧ C35.decStep (b :: t) = (0xDC00 + b.toNat, 1)) ∨
    (b.toNat < 0x80 ∧ C35.decStep (b :: t) = (b.toNat, 1)) ∨
    (∃ b1 t1, t = b1 :: t1 ∧ 0xC2 ≤ b.toNat ∧ b.toNat ≤ 0xDF ∧ isCont b1.toNat = true ∧
      C35.decStep (b :: t) = ((b.toNat - 0xC0) * 64 + (b1.toNat - 0x80), 2)) ∨
    (∃ b1 b2 t2, t = b1 :: b2 :: t2 ∧ 0xE0 ≤ b.toNat ∧ b.toNat ≤ 0xEF ∧ ok3 b.toNat b1.toNat = true ∧
      isCont b2.toNat = true ∧
      C35.decStep (b :: t) = ((b.toNat - 0xE0) * 4096 + (b1.toNat - 0x80) * 64 + (b2.toNat - 0x80), 3)) ∨
    (∃ b1 b2 b3 t3, t = b1 :: b2 :: b3 :: t3 ∧ 0xF0 ≤ b.toNat ∧ b.toNat ≤ 0xF4 ∧ ok4 b.toNat b1.toNat = true ∧
      isCont b2.toNat = true ∧ isCont b3.toNat = true ∧
      C35.decStep (b :: t) = ((b.toNat - 0xF0) * 262144 + (b1.toNat - 0x80) * 4096 + (b2.toNat - 0x80) * 64 +
        (b3.toNat - 0x80), 4)) := by
  by_cases h1 : b.toNat < 0x80
  · right; left; exact ⟨h1, by simp [C35.decStep, h1]⟩
  have h80 : 0x80 ≤ b.toNat := by omega
  by_cases h2 : 0xC2 ≤ b.toNat ∧ b.toNat ≤ 0xDF
  · cases t with
    | nil => left; exact ⟨h80, by simp [C35.decStep, h1, h2]⟩
    | cons b1 t =>
      by_cases hc : isCont b1.toNat = true
      · right; right; left; exact ⟨b1, t, rfl, h2.1, h2.2, hc, by simp [C35.decStep, h1, h2, hc]⟩
      · left; exact ⟨h80, by simp [C35.decStep, h1, h2, hc]⟩
  by_cases h3 : 0xE0 ≤ b.toNat ∧ b.toNat ≤ 0xEF
  · cases t with
    | nil => left; exact ⟨h80, by simp [C35.decStep, h1, h2, h3]⟩
    | cons b1 t =>
      cases t with
      | nil => left; exact ⟨h80, by simp [C35.decStep, h1, h2, h3]⟩
      | cons b2 t =>
        by_cases hc : (ok3 b.toNat b1.toNat && isCont b2.toNat) = true
        · have hc' := hc
          simp only [Bool.and_eq_true] at hc'
          right; right; right; left
          exact ⟨b1, b2, t, rfl, h3.1, h3.2, hc'.1, hc'.2, by simp [C35.decStep, h1, h2, h3, hc]⟩
        · left; exact ⟨h80, by simp [C35.decStep, h1, h2, h3, hc]⟩
  by_cases h4 : 0xF0 ≤ b.toNat ∧ b.toNat ≤ 0xF4
  · cases t with
    | nil => left; exact ⟨h80, by simp [C35.decStep, h1, h2, h3, h4]⟩
    | cons b1 t =>
      cases t with
      | nil => left; exact ⟨h80, by simp [C35.decStep, h1, h2, h3, h4]⟩
      | cons b2 t =>
        cases t with
        | nil => left; exact ⟨h80, by simp [C35.decStep, h1, h2, h3, h4]⟩
        | cons b3 t =>
          by_cases hc : (ok4 b.toNat b1.toNat && isCont b2.toNat && isCont b3.toNat) = true
          · have hc' := hc
            simp only [Bool.and_eq_true] at hc'
            right; right; right; right
            exact ⟨b1, b2, b3, t, rfl, h4.1, h4.2, hc'.1.1, hc'.1.2, hc'.2, by simp [C35.decStep, h1, h2, h3, h4, hc]⟩
          · left; exact ⟨h80, by simp [C35.decStep, h1, h2, h3, h4, hc]⟩
  left; exact ⟨h80, by simp [C35.decStep, h1, h2, h3, h4]⟩

private theorem isCont_iff (n : Nat) : isCont n = true ↔ 0x80 ≤ n ∧ n ≤ 0xBF := by
  simp [isCont]

/-- what one decoded code point contributes to the output is valid UTF-8 in front of anything valid -/
theorem bsr_step_valid (b : UInt8) (t rest : Bytes) :
    utf8Valid (bsrCp (C35.decStep (b :: t)).1 ++ rest) = utf8Valid rest := by
  have hb := UInt8.toNat_lt b
  rcases decStep_cases b t with ⟨h80, h⟩ | ⟨hlt, h⟩ | ⟨b1, t1, rfl, h0a, h0b, hc, h⟩ |
      ⟨b1, b2, t2, rfl, h0a, h0b, hok, hc2, h⟩ | ⟨b1, b2, b3, t3, rfl, h0a, h0b, hok, hc2, hc3, h⟩
  · rw [h]
    simp only
    rw [bsrCp_escape _ ⟨h80, by omega⟩]
    simp only [List.cons_append, List.nil_append]
    rw [utf8Valid_ascii_cons _ _ (by decide), utf8Valid_ascii_cons _ _ (by decide),
      utf8Valid_ascii_cons _ _ (hexd_ascii _ (by omega)), utf8Valid_ascii_cons _ _ (hexd_ascii _ (by omega))]
  · rw [h]
    simp only
    have ne : ¬ (0xDC80 ≤ b.toNat ∧ b.toNat ≤ 0xDCFF) := by omega
    simp only [bsrCp, ne, if_false, ascii_ok b hlt, Option.getD_some, List.cons_append, List.nil_append]
    exact utf8Valid_ascii_cons _ _ hlt
  · rw [h]
    simp only
    have c1 := (isCont_iff _).mp hc
    have ne : ¬ (0xDC80 ≤ (b.toNat - 0xC0) * 64 + (b1.toNat - 0x80) ∧ (b.toNat - 0xC0) * 64 + (b1.toNat - 0x80) ≤ 0xDCFF) := by omega
    simp only [bsrCp, ne, if_false, enc2_ok b b1 ⟨h0a, h0b⟩ hc, Option.getD_some, List.cons_append, List.nil_append]
    exact utf8Valid_2 _ _ _ ⟨h0a, h0b⟩ c1
  · rw [h]
    simp only
    obtain ⟨k1, ka, kb⟩ := (ok3_iff _ _).mp hok
    have c1 := (isCont_iff _).mp k1
    have c2 := (isCont_iff _).mp hc2
    have ne : ¬ (0xDC80 ≤ (b.toNat - 0xE0) * 4096 + (b1.toNat - 0x80) * 64 + (b2.toNat - 0x80) ∧
        (b.toNat - 0xE0) * 4096 + (b1.toNat - 0x80) * 64 + (b2.toNat - 0x80) ≤ 0xDCFF) := by omega
    simp only [bsrCp, ne, if_false, enc3_ok b b1 b2 ⟨h0a, h0b⟩ hok hc2, Option.getD_some, List.cons_append, List.nil_append]
    exact utf8Valid_3 _ _ _ _ ⟨h0a, h0b⟩ c1 ka kb c2
  · rw [h]
    simp only
    obtain ⟨k1, ka, kb⟩ := (ok4_iff _ _).mp hok
    have c1 := (isCont_iff _).mp k1
    have c2 := (isCont_iff _).mp hc2
    have c3 := (isCont_iff _).mp hc3
    have ne : ¬ (0xDC80 ≤ (b.toNat - 0xF0) * 262144 + (b1.toNat - 0x80) * 4096 + (b2.toNat - 0x80) * 64 + (b3.toNat - 0x80) ∧
        (b.toNat - 0xF0) * 262144 + (b1.toNat - 0x80) * 4096 + (b2.toNat - 0x80) * 64 + (b3.toNat - 0x80) ≤ 0xDCFF) := by omega
    simp only [bsrCp, ne, if_false, enc4_ok b b1 b2 b3 ⟨h0a, h0b⟩ hok hc2 hc3, Option.getD_some, List.cons_append,
      List.nil_append]
    exact utf8Valid_4 _ _ _ _ _ ⟨h0a, h0b⟩ c1 ka kb c2 c3

theorem decF_valid : ∀ (f : Nat) (bs : Bytes), utf8Valid ((decF f bs).flatMap bsrCp) = true := by
  intro f
  induction f with
  | zero => intro bs; cases bs <;> rfl
  | succ f ih =>
    intro bs
    cases bs with
    | nil => rfl
    | cons b t =>
      simp only [decF, List.flatMap_cons]
      rw [bsr_step_valid]
      exact ih _

/-- **the decoded host is a str**: the output of `decode(errors="backslashreplace")` is valid UTF-8 for every input -/
theorem bsrUtf8_output_valid (b : Bytes) : utf8Valid (bsrUtf8 b) = true := by
  rw [bsrUtf8_eq]
  exact decF_valid _ _

end MitmVerif.C38Conv
