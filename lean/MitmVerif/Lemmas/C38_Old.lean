/-
  C38 — lemmas for the converters of the older integer formats 5 … 9 (`convOld`).
-/
import MitmVerif.Lemmas.C38_Conv
namespace MitmVerif.C38Conv
open MitmVerif MitmVerif.C36

theorem dget_viaUpd_ne (d d' : Dict) (m : Bytes) (f : Dict → Option Dict) (h : viaUpd d f = some d')
    (hm : (s "server_conn" == m) = false) : dget d' m = dget d m := by
  unfold viaUpd at h
  simp only [Option.bind_eq_bind, Option.bind_eq_some_iff, Option.pure_def] at h
  obtain ⟨sc, _, via, _, h⟩ := h
  split at h
  · exact dget_dupd_ne _ _ _ _ _ hm h
  · cases h; rfl

theorem renameStrict_frame (c c' : Dict) (o n m : Bytes) (h : renameStrict c o n = some c')
    (h1 : (o == m) = false) (h2 : (n == m) = false) : dget c' m = dget c m := by
  unfold renameStrict at h
  simp only [Option.map_eq_some_iff] at h
  obtain ⟨v, _, rfl⟩ := h
  rw [dget_dset_ne _ _ _ _ h2, dget_dpop_ne _ _ _ h1]

theorem renameStrict_spec (c c' : Dict) (o n : Bytes) (h : renameStrict c o n = some c') (hon : (n == o) = false) :
    dget c' n = dget c o ∧ dget c' o = none := by
  unfold renameStrict at h
  simp only [Option.map_eq_some_iff] at h
  obtain ⟨v, hv, rfl⟩ := h
  exact ⟨by rw [dget_dset_same, hv], by rw [dget_dset_ne _ _ _ _ hon]; exact dget_dpop_same _ _⟩

theorem body_o5 (d d' : Dict) (m : Bytes) (h : conv_5_6 d = some d')
    (h2 : (s "client_conn" == m) = false) (h3 : (s "server_conn" == m) = false) :
    dget d' m = dget (setVersion d 6) m := by
  unfold conv_5_6 at h
  simp only [Option.bind_eq_bind, Option.bind_eq_some_iff] at h
  obtain ⟨d1, hd1, d2, hd2, h⟩ := h
  rw [dget_viaUpd_ne _ _ _ _ h h3, dget_dupd_ne _ _ _ _ _ h3 hd2, dget_dupd_ne _ _ _ _ _ h2 hd1]

theorem body_o6 (d d' : Dict) (m : Bytes) (h : conv_6_7 d = some d')
    (h2 : (s "client_conn" == m) = false) : dget d' m = dget (setVersion d 7) m := by
  unfold conv_6_7 at h
  exact dget_dupd_ne _ _ _ _ _ h2 h

theorem trailersNull_frame (d d' : Dict) (n m : Bytes) (h : trailersNull d n = some d') (hnm : (n == m) = false) :
    dget d' m = dget d m := by
  unfold trailersNull at h
  split at h <;> first | (cases h; rfl) | (cases h; exact dget_dset_ne _ _ _ _ hnm) | cases h

theorem body_o7 (d d' : Dict) (m : Bytes) (h : conv_7_8 d = some d')
    (h2 : (s "request" == m) = false) (h3 : (s "response" == m) = false) :
    dget d' m = dget (setVersion d 8) m := by
  unfold conv_7_8 at h
  simp only [Option.bind_eq_some_iff] at h
  obtain ⟨d1, hd1, h⟩ := h
  rw [trailersNull_frame _ _ _ _ h h3, trailersNull_frame _ _ _ _ hd1 h2]

theorem req89_frame (d d' : Dict) (v : Value) (m : Bytes) (h : req89 d = some (d', v))
    (hm : (s "request" == m) = false) : dget d' m = dget d m := by
  unfold req89 at h
  split at h
  · cases h; rfl
  · split at h
    · cases h; exact dget_dset_ne _ _ _ _ hm
    · cases h
  · cases h

theorem resp89_frame (d d' : Dict) (v : Value) (m : Bytes) (h : resp89 d = some (d', v))
    (hm : (s "response" == m) = false) : dget d' m = dget d m := by
  unfold resp89 at h
  split at h <;> first | (cases h; rfl) | (cases h; exact dget_dset_ne _ _ _ _ hm) | cases h

theorem body_o8 (d d' : Dict) (m : Bytes) (h : conv_8_9 d = some d')
    (h2 : (s "request" == m) = false) (h3 : (s "response" == m) = false) (h4 : (s "is_replay" == m) = false) :
    dget d' m = dget (setVersion d 9) m := by
  unfold conv_8_9 at h
  simp only [Option.bind_eq_bind, Option.bind_eq_some_iff, Option.pure_def, Option.some.injEq] at h
  obtain ⟨⟨d1, rq⟩, h1, ⟨d2, rs⟩, h2', rfl⟩ := h
  rw [dget_dset_ne _ _ _ _ h4, resp89_frame _ _ _ _ h2' h3, req89_frame _ _ _ _ h1 h2]

theorem body_o9 (d d' : Dict) (m : Bytes) (h : conv_9_10 d = some d')
    (h2 : (s "client_conn" == m) = false) (h3 : (s "server_conn" == m) = false) :
    dget d' m = dget (setVersion d 10) m := by
  unfold conv_9_10 at h
  simp only [Option.bind_eq_bind, Option.bind_eq_some_iff] at h
  obtain ⟨d1, hd1, d2, hd2, h⟩ := h
  rw [dget_viaUpd_ne _ _ _ _ h h3, dget_dupd_ne _ _ _ _ _ h3 hd2, dget_dupd_ne _ _ _ _ _ h2 hd1]

/-- 8→9 on the request: loses `first_line_format` and `is_replay`, gains an empty `authority`, nothing else moves -/
theorem req89_fields (d d' : Dict) (v : Value) (r : Dict) (h : req89 d = some (d', v))
    (hr : dget d (s "request") = some (.dict r)) :
    ∃ r', dget d' (s "request") = some (.dict r') ∧ dget r' (s "first_line_format") = none ∧
      dget r' (s "is_replay") = none ∧ dget r' (s "authority") = some (.bytes []) ∧
      ∀ m, (s "first_line_format" == m) = false → (s "is_replay" == m) = false → (s "authority" == m) = false →
        dget r' m = dget r m := by
  unfold req89 at h
  rw [hr] at h
  simp only at h
  split at h
  · simp only [Option.some.injEq, Prod.mk.injEq] at h
    obtain ⟨rfl, -⟩ := h
    refine ⟨_, dget_dset_same _ _ _, ?_, dget_dpop_same _ _, ?_, ?_⟩
    · rw [dget_dpop_ne _ _ _ (by decide +kernel), dget_dset_ne _ _ _ _ (by decide +kernel)]; exact dget_dpop_same _ _
    · rw [dget_dpop_ne _ _ _ (by decide +kernel)]; exact dget_dset_same _ _ _
    · intro m a b c
      rw [dget_dpop_ne _ _ _ b, dget_dset_ne _ _ _ _ c, dget_dpop_ne _ _ _ a]
  · cases h

end MitmVerif.C38Conv
