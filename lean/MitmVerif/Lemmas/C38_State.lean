/-
  C38 — lemmas about the tables of the two stateful converters.
-/
import MitmVerif.Model.C38_State
import MitmVerif.Lemmas.C38_Conv
namespace MitmVerif.C38Conv
open MitmVerif MitmVerif.C36

variable {α : Type}

theorem tget_tdel_same (t : Tbl α) (k : Bytes) : tget (tdel t k) k = none := by
  unfold tget tdel
  rw [Option.map_eq_none_iff, List.find?_eq_none]
  intro e he
  simp only [List.mem_filter, Bool.not_eq_true'] at he
  simp [he.2]

theorem tget_tdel_ne (t : Tbl α) (k m : Bytes) (h : (k == m) = false) : tget (tdel t k) m = tget t m := by
  unfold tget tdel
  induction t with
  | nil => rfl
  | cons e t ih =>
    by_cases he : (e.1 == k) = true
    · have hk : e.1 = k := by simpa using he
      have hm : (e.1 == m) = false := by rw [hk]; exact h
      simp only [List.filter_cons, he, Bool.not_true, Bool.false_eq_true, if_false, List.find?_cons, hm]
      exact ih
    · simp only [Bool.not_eq_true] at he
      simp only [List.filter_cons, he, Bool.not_false, if_true, List.find?_cons]
      cases hm : (e.1 == m) with
      | true => rfl
      | false => exact ih

theorem tget_tset_same (t : Tbl α) (k : Bytes) (v : α) : tget (tset t k v) k = some v := by
  simp [tget, tset]

theorem tget_tset_ne (t : Tbl α) (k m : Bytes) (v : α) (h : (k == m) = false) :
    tget (tset t k v) m = tget t m := by
  have := tget_tdel_ne t k m h
  simp only [tget, tset, List.find?_cons, h] at this ⊢
  exact this

theorem dget_cons_same (n : Bytes) (v : Value) (d : Dict) : dget ((.str n, v) :: d) n = some v := by
  simp [dget, keyIs]

theorem dget_cons_ne (n m : Bytes) (v : Value) (d : Dict) (h : (n == m) = false) :
    dget ((.str n, v) :: d) m = dget d m := by
  simp [dget, keyIs, h]

theorem conv1112Store_frame (g g' : Tbl Dict) (d12 md : Dict) (h : conv1112Store g d12 md = some g') (m : Bytes)
    (hm : ∀ id, dhas md (s "websocket") = true → dget d12 (s "id") = some id → (enc id == m) = false) :
    tget g' m = tget g m := by
  unfold conv1112Store at h
  split at h
  · next hw =>
    split at h
    · next id hid =>
      split at h
      · cases h; exact tget_tset_ne _ _ _ _ (hm id hw hid)
      · cases h
    · cases h
  · cases h; rfl

theorem tget_append_of_some (t u : Tbl α) (k : Bytes) (v : α) (h : tget t k = some v) : tget (t ++ u) k = some v := by
  unfold tget at h ⊢
  simp only [Option.map_eq_some_iff] at h ⊢
  obtain ⟨e, he, rfl⟩ := h
  exact ⟨e, by rw [List.find?_append, he]; rfl, rfl⟩

theorem tget_append_new (t : Tbl α) (k : Bytes) (v : α) (h : tget t k = none) : tget (t ++ [(k, v)]) k = some v := by
  unfold tget at h ⊢
  rw [Option.map_eq_none_iff] at h
  simp [List.find?_append, h]

theorem setdefault_mono (t : Tbl Value) (k k' : Bytes) (v v' : Value) (h : tget t k = some v) :
    tget (setdefault t k' v').1 k = some v := by
  unfold setdefault
  split
  · exact h
  · exact tget_append_of_some _ _ _ _ h

/-- `setdefault` returns what is on record, or records and returns the offered value -/
theorem setdefault_spec (t : Tbl Value) (k : Bytes) (v : Value) :
    (∀ old, tget t k = some old → (setdefault t k v) = (t, old)) ∧
    (tget t k = none → (setdefault t k v).2 = v ∧ tget (setdefault t k v).1 k = some v) := by
  constructor
  · intro old h; simp [setdefault, h]
  · intro h
    have e : setdefault t k v = (t ++ [(k, v)], v) := by simp [setdefault, h]
    rw [e]
    exact ⟨rfl, tget_append_new _ _ _ h⟩

theorem setdefault_result_recorded (t : Tbl Value) (k : Bytes) (v : Value) :
    tget (setdefault t k v).1 k = some (setdefault t k v).2 := by
  cases h : tget t k with
  | some old => rw [(setdefault_spec t k v).1 old h]; exact h
  | none => obtain ⟨a, b⟩ := (setdefault_spec t k v).2 h; rw [a]; exact b

end MitmVerif.C38Conv
