/-
  C38 — success lemmas for 18→19: on connection records of the shape formats 10 … 18 wrote, the converter does not raise.
-/
import MitmVerif.Lemmas.C38_Host
namespace MitmVerif.C38Conv
open MitmVerif MitmVerif.C36

/-- a value `decodeHostIn` accepts under a key: absent, falsy, or a list / str / bytes -/
def hostOkB (o : Option Value) : Bool :=
  match o with
  | none => true
  | some v => !truthy v || (match v with | .list _ => true | .str _ => true | .bytes _ => true | _ => false)

theorem decodeHostIn_succeeds (c : Dict) (n : Bytes) (h : hostOkB (dget c n) = true) : ∃ c', decodeHostIn c n = some c' := by
  unfold decodeHostIn
  cases hv : dget c n with
  | none => exact ⟨c, rfl⟩
  | some v =>
    simp only
    by_cases ht : truthy v = true
    · simp only [ht, Bool.not_true, Bool.false_eq_true, if_false]
      rw [hv] at h
      simp only [hostOkB, ht, Bool.not_true, Bool.false_or] at h
      cases v with
      | list l =>
        cases l with
        | nil => exact ⟨c, rfl⟩
        | cons x xs => cases x <;> exact ⟨_, rfl⟩
      | str u => exact ⟨c, rfl⟩
      | bytes u => exact ⟨c, rfl⟩
      | null => simp at h
      | bool b => simp at h
      | int i => simp at h
      | float f => simp at h
      | dict kvs => simp at h
    · have : truthy v = false := by simpa using ht
      simp [this]

theorem dhas_of_dget' {d : Dict} {n : Bytes} {v : Value} (h : dget d n = some v) : dhas d n = true := by
  unfold dget at h
  simp only [Option.map_eq_some_iff] at h
  obtain ⟨kv, hkv, _⟩ := h
  simp only [dhas, List.any_eq_true]
  exact ⟨kv, List.mem_of_find?_eq_some hkv, by simpa using List.find?_some hkv⟩

/-- the per-connection loop body succeeds when `tls_established` is there and the three host fields are acceptable -/
theorem conn18_succeeds (c : Dict) (te : Value) (h0 : dget c (s "tls_established") = some te)
    (h1 : hostOkB (dget c (s "peername")) = true) (h2 : hostOkB (dget c (s "sockname")) = true)
    (h3 : hostOkB (dget c (s "address")) = true) : ∃ c', conn18 c = some c' := by
  have hd : dhas c (s "tls_established") = true := dhas_of_dget' h0
  have f1 : dget (conn18fields c) (s "peername") = dget c (s "peername") :=
    conn18fields_frame c _ (by decide +kernel) (by decide +kernel) (by decide +kernel) (by decide +kernel)
  have f2 : dget (conn18fields c) (s "sockname") = dget c (s "sockname") :=
    conn18fields_frame c _ (by decide +kernel) (by decide +kernel) (by decide +kernel) (by decide +kernel)
  have f3 : dget (conn18fields c) (s "address") = dget c (s "address") :=
    conn18fields_frame c _ (by decide +kernel) (by decide +kernel) (by decide +kernel) (by decide +kernel)
  obtain ⟨c1, hc1⟩ := decodeHostIn_succeeds (conn18fields c) (s "peername") (by rw [f1]; exact h1)
  have g2 : dget c1 (s "sockname") = dget c (s "sockname") := by
    rw [decodeHostIn_frame _ _ _ _ hc1 (by decide +kernel)]; exact f2
  obtain ⟨c2, hc2⟩ := decodeHostIn_succeeds c1 (s "sockname") (by rw [g2]; exact h2)
  have g3 : dget c2 (s "address") = dget c (s "address") := by
    rw [decodeHostIn_frame _ _ _ _ hc2 (by decide +kernel), decodeHostIn_frame _ _ _ _ hc1 (by decide +kernel)]; exact f3
  obtain ⟨c3, hc3⟩ := decodeHostIn_succeeds c2 (s "address") (by rw [g3]; exact h3)
  refine ⟨c3, ?_⟩
  unfold conn18
  simp [hd, hc1, hc2, hc3]

theorem hostOkB_getD (o : Option Value) (h : hostOkB o = true) : hostOkB (some (o.getD .null)) = true := by
  cases o with
  | none => rfl
  | some v => exact h

/-- what the loop body leaves under `address` -/
theorem conn18_address (c c' : Dict) (h : conn18 c = some c') :
    dget c' (s "address") = (match dget c (s "address") with
      | some (.list (.bytes hb :: rest)) => some (.list (.str (bsrUtf8 hb) :: rest))
      | o => o) := by
  unfold conn18 at h
  split at h
  · cases h
  · simp only [Option.bind_eq_bind, Option.bind_eq_some_iff] at h
    obtain ⟨c1, hc1, c2, hc2, h3⟩ := h
    rw [decodeHostIn_same _ _ _ h3]
    have e : dget c2 (s "address") = dget c (s "address") := by
      rw [decodeHostIn_frame _ _ _ _ hc2 (by decide +kernel), decodeHostIn_frame _ _ _ _ hc1 (by decide +kernel)]
      exact conn18fields_frame c _ (by decide +kernel) (by decide +kernel) (by decide +kernel) (by decide +kernel)
    simp only [e]
    generalize dget c (s "address") = o
    cases o with
    | none => rfl
    | some v =>
      cases v with
      | list l =>
        cases l with
        | nil => rfl
        | cons x xs => cases x <;> rfl
      | _ => rfl

theorem client18_succeeds (cc : Dict) (tx te : Value) (h0 : dget cc (s "tls_extensions") = some tx)
    (h1 : dget cc (s "tls_established") = some te) (h2 : hostOkB (dget cc (s "address")) = true)
    (h3 : hostOkB (dget cc (s "sockname")) = true) : ∃ cc', client18 cc = some cc' := by
  have p0 : dget (client18pre cc) (s "tls_extensions") = some tx := by
    unfold client18pre
    rw [dget_tsDefault_ne _ _ (by decide +kernel), dget_rename_ne _ _ _ _ (by decide +kernel) (by decide +kernel)]; exact h0
  have hd : dhas (client18pre cc) (s "tls_extensions") = true := dhas_of_dget' p0
  have q1 : dget (dpop (client18pre cc) (s "tls_extensions")) (s "tls_established") = some te := by
    unfold client18pre
    rw [dget_dpop_ne _ _ _ (by decide +kernel), dget_tsDefault_ne _ _ (by decide +kernel),
      dget_rename_ne _ _ _ _ (by decide +kernel) (by decide +kernel)]; exact h1
  have q2 : dget (dpop (client18pre cc) (s "tls_extensions")) (s "peername") = some ((dget cc (s "address")).getD .null) := by
    unfold client18pre
    rw [dget_dpop_ne _ _ _ (by decide +kernel), dget_tsDefault_ne _ _ (by decide +kernel)]; exact dget_rename_new _ _ _
  have q3 : dget (dpop (client18pre cc) (s "tls_extensions")) (s "sockname") = dget cc (s "sockname") := by
    unfold client18pre
    rw [dget_dpop_ne _ _ _ (by decide +kernel), dget_tsDefault_ne _ _ (by decide +kernel),
      dget_rename_ne _ _ _ _ (by decide +kernel) (by decide +kernel)]
  have q4 : dget (dpop (client18pre cc) (s "tls_extensions")) (s "address") = none := by
    unfold client18pre rename
    rw [dget_dpop_ne _ _ _ (by decide +kernel), dget_tsDefault_ne _ _ (by decide +kernel),
      dget_dset_ne _ _ _ _ (by decide +kernel)]; exact dget_dpop_same _ _
  obtain ⟨c', hc'⟩ := conn18_succeeds _ te q1 (by rw [q2]; exact hostOkB_getD _ h2) (by rw [q3]; exact h3) (by rw [q4]; rfl)
  exact ⟨c', by unfold client18; simp [hd, hc']⟩

/-- the server record: `sni` is a name, None, or `True` with an address pair on record -/
theorem server18_succeeds (sc : Dict) (te sni : Value) (h1 : dget sc (s "tls_established") = some te)
    (h2 : hostOkB (dget sc (s "ip_address")) = true) (h3 : hostOkB (dget sc (s "source_address")) = true)
    (h4 : hostOkB (dget sc (s "address")) = true) (h5 : dget sc (s "sni") = some sni)
    (h6 : sni = .bool true → (dget sc (s "address") = some .null ∨ ∃ hh t, dget sc (s "address") = some (.list (hh :: t)))) :
    ∃ sc', server18 sc = some sc' := by
  have r (key : Bytes) (a : (s "ip_address" == key) = false) (b : (s "peername" == key) = false)
      (c : (s "source_address" == key) = false) (d : (s "sockname" == key) = false) (e : (s "via2" == key) = false)
      (f : (s "via" == key) = false) : dget (server18pre sc) key = dget sc key := by
    unfold server18pre
    rw [dget_rename_ne _ _ _ _ e f, dget_rename_ne _ _ _ _ c d, dget_rename_ne _ _ _ _ a b]
  have q1 : dget (server18pre sc) (s "tls_established") = some te := by
    rw [r _ (by decide +kernel) (by decide +kernel) (by decide +kernel) (by decide +kernel) (by decide +kernel) (by decide +kernel)]; exact h1
  have q2 : dget (server18pre sc) (s "peername") = some ((dget sc (s "ip_address")).getD .null) := by
    unfold server18pre
    rw [dget_rename_ne _ _ _ _ (by decide +kernel) (by decide +kernel), dget_rename_ne _ _ _ _ (by decide +kernel) (by decide +kernel)]
    exact dget_rename_new _ _ _
  have q3 : dget (server18pre sc) (s "sockname") = some ((dget sc (s "source_address")).getD .null) := by
    unfold server18pre
    rw [dget_rename_ne _ _ _ _ (by decide +kernel) (by decide +kernel), dget_rename_new,
      dget_rename_ne _ _ _ _ (by decide +kernel) (by decide +kernel)]
  have q4 : dget (server18pre sc) (s "address") = dget sc (s "address") :=
    r _ (by decide +kernel) (by decide +kernel) (by decide +kernel) (by decide +kernel) (by decide +kernel) (by decide +kernel)
  have q5 : dget (server18pre sc) (s "sni") = some sni := by
    rw [r _ (by decide +kernel) (by decide +kernel) (by decide +kernel) (by decide +kernel) (by decide +kernel) (by decide +kernel)]; exact h5
  obtain ⟨c', hc'⟩ := conn18_succeeds _ te q1 (by rw [q2]; exact hostOkB_getD _ h2) (by rw [q3]; exact hostOkB_getD _ h3)
    (by rw [q4]; exact h4)
  have s1 : dget c' (s "sni") = some sni := by
    rw [conn18_frame _ _ _ hc' (by decide +kernel) (by decide +kernel) (by decide +kernel) (by decide +kernel)
      (by decide +kernel) (by decide +kernel) (by decide +kernel)]; exact q5
  have a1 := conn18_address _ _ hc'
  rw [q4] at a1
  have fin : ∃ sc', sniFix c' = some sc' := by
    unfold sniFix
    simp only [Option.bind_eq_bind, s1, Option.bind_some]
    by_cases ht : sni = .bool true
    · subst ht
      simp only
      rcases h6 rfl with hn | ⟨hh, t, hl⟩
      · rw [hn] at a1
        simp only at a1
        rw [a1]
        exact ⟨dset c' (s "sni") .null, by simp [truthy]⟩
      · rw [hl] at a1
        cases hh with
        | bytes hb =>
          simp only at a1
          rw [a1]
          exact ⟨dset c' (s "sni") (.str (bsrUtf8 hb)), by simp [truthy, firstOf]⟩
        | null => simp only at a1; rw [a1]; exact ⟨dset c' (s "sni") .null, by simp [truthy, firstOf]⟩
        | bool b => simp only at a1; rw [a1]; exact ⟨dset c' (s "sni") (.bool b), by simp [truthy, firstOf]⟩
        | int i => simp only at a1; rw [a1]; exact ⟨dset c' (s "sni") (.int i), by simp [truthy, firstOf]⟩
        | float f => simp only at a1; rw [a1]; exact ⟨dset c' (s "sni") (.float f), by simp [truthy, firstOf]⟩
        | str u => simp only at a1; rw [a1]; exact ⟨dset c' (s "sni") (.str u), by simp [truthy, firstOf]⟩
        | list l => simp only at a1; rw [a1]; exact ⟨dset c' (s "sni") (.list l), by simp [truthy, firstOf]⟩
        | dict kvs => simp only at a1; rw [a1]; exact ⟨dset c' (s "sni") (.dict kvs), by simp [truthy, firstOf]⟩
    · cases sni with
      | bool b =>
        cases b with
        | true => exact absurd rfl ht
        | false => exact ⟨c', rfl⟩
      | _ => exact ⟨c', rfl⟩
  obtain ⟨sc', hsc'⟩ := fin
  exact ⟨sc', by unfold server18; simp [hc', hsc']⟩

end MitmVerif.C38Conv
