/-
  C39 — helper lemmas: case analyses of the model functions, the reachable-state invariant `Inv` and its
  preservation by every operation, and what actions (writes / file opens) each operation can emit.
-/
import MitmVerif.Model.C39
namespace MitmVerif.Lemmas.C39
open MitmVerif.C39
variable {F C : Type}

/-- the part of the invariant that does not mention filters/options -/
structure W (s : St F C) : Prop where
  path : s.stream.isSome = s.curPath.isSome
  nodup : s.active.Nodup
  idle : s.stream = none → s.active = []

theorem rotate_facts (env : Env F C) (s s' : St F C) (spec : Spec) (io : List (Act C))
    (h : rotate env s spec = some (s', io)) :
    s'.optFile = s.optFile ∧ s'.optFilt = s.optFilt ∧ s'.filt = s.filt ∧ s'.active = s.active ∧
    s'.world = s.world ∧ s'.now = s.now ∧ s'.exited = s.exited ∧
    ((s' = s ∧ io = [] ∧ s.curPath = some (env.fmt spec.pat s.now)) ∨
     (s'.stream = some s.filt ∧ s'.curPath = some (env.fmt spec.pat s.now) ∧
      io = [.opn (env.fmt spec.pat s.now) spec.append] ∧ env.openFails (env.fmt spec.pat s.now) = false)) := by
  unfold rotate at h
  simp only at h
  split at h
  · simp at h; obtain ⟨rfl, rfl⟩ := h; simp_all
  · split at h
    · simp at h
    · simp at h; obtain ⟨rfl, rfl⟩ := h; simp_all

theorem rotate_none (env : Env F C) (s : St F C) (spec : Spec) (h : rotate env s spec = none) :
    s.curPath ≠ some (env.fmt spec.pat s.now) ∧ env.openFails (env.fmt spec.pat s.now) = true := by
  unfold rotate at h
  simp only at h
  split at h
  · simp at h
  · split at h
    · simp_all
    · simp at h

theorem saveFlow_cases (env : Env F C) (s : St F C) (f : FlowId) :
    (s.stream = none ∧ saveFlow env s f = (s, [])) ∨
    (s.stream.isSome ∧ s.optFile = none ∧ saveFlow env s f = (s, [])) ∨
    (∃ spec, s.stream.isSome ∧ s.optFile = some spec ∧ rotate env s spec = none ∧
        saveFlow env s f = ({ s with exited := true }, [])) ∨
    (∃ spec s' io flt, s.stream.isSome ∧ s.optFile = some spec ∧ rotate env s spec = some (s', io) ∧
        s'.stream = some flt ∧
        saveFlow env s f = ({ s' with active := s'.active.erase f }, io ++ add env flt s'.world f)) ∨
    (∃ spec s' io, s.stream.isSome ∧ s.optFile = some spec ∧ rotate env s spec = some (s', io) ∧
        s'.stream = none ∧ saveFlow env s f = (s', io)) := by
  unfold saveFlow
  cases h1 : s.stream with
  | none => left; simp
  | some g =>
    right
    cases h2 : s.optFile with
    | none => left; simp
    | some spec =>
      right
      cases h3 : rotate env s spec with
      | none => left; exact ⟨spec, by simp [h3]⟩
      | some r =>
        right
        obtain ⟨s', io⟩ := r
        cases h4 : s'.stream with
        | some flt => left; exact ⟨spec, s', io, flt, by simp [h3, h4]⟩
        | none => right; exact ⟨spec, s', io, by simp [h3, h4]⟩

theorem doneOp_cases (env : Env F C) (s : St F C) :
    (s.stream = none ∧ doneOp env s = (s, [])) ∨
    (∃ flt, s.stream = some flt ∧
      doneOp env s = ({ s with active := [], curPath := none, stream := none },
                      s.active.flatMap (add env flt s.world) ++ [.cls])) := by
  unfold doneOp
  cases h1 : s.stream with
  | none => left; simp
  | some flt => right; exact ⟨flt, by simp⟩

/-- the state after the filter part of configure -/
def filtStep (s : St F C) (updFilt : Bool) : Option (St F C) :=
  if updFilt then
    match s.optFilt with
    | .unset => some { s with filt := none }
    | .ok g => some { s with filt := some g }
    | .bad => none
  else some s

theorem configure_cases (env : Env F C) (s : St F C) (uf ut : Bool) :
    (filtStep s ut = none ∧ configure env s uf ut = (s, [], .optionsError)) ∨
    (∃ s1, filtStep s ut = some s1 ∧ (uf || ut) = false ∧ configure env s uf ut = (s1, [], .ok)) ∨
    (∃ s1, filtStep s ut = some s1 ∧ (uf || ut) = true ∧ s1.optFile = none ∧
        configure env s uf ut = ((doneOp env s1).1, (doneOp env s1).2, .ok)) ∨
    (∃ s1 spec, filtStep s ut = some s1 ∧ (uf || ut) = true ∧ s1.optFile = some spec ∧
        rotate env s1 spec = none ∧ configure env s uf ut = (s1, [], .optionsError)) ∨
    (∃ s1 spec s2 io, filtStep s ut = some s1 ∧ (uf || ut) = true ∧ s1.optFile = some spec ∧
        rotate env s1 spec = some (s2, io) ∧ s2.stream.isSome ∧
        configure env s uf ut = ({ s2 with stream := some s2.filt }, io, .ok)) ∨
    (∃ s1 spec s2 io, filtStep s ut = some s1 ∧ (uf || ut) = true ∧ s1.optFile = some spec ∧
        rotate env s1 spec = some (s2, io) ∧ s2.stream = none ∧
        configure env s uf ut = (s2, io, .otherError)) := by
  have hfs : configure env s uf ut =
      (match filtStep s ut with
       | none => (s, [], .optionsError)
       | some s1 =>
         if uf || ut then
           match s1.optFile with
           | some spec =>
             match rotate env s1 spec with
             | none => (s1, [], .optionsError)
             | some (s2, io) =>
               match s2.stream with
               | some _ => ({ s2 with stream := some s2.filt }, io, .ok)
               | none => (s2, io, .otherError)
           | none => let (s2, io) := doneOp env s1; (s2, io, .ok)
         else (s1, [], .ok)) := by
    unfold configure filtStep; rfl
  rw [hfs]
  cases h1 : filtStep s ut with
  | none => left; simp
  | some s1 =>
    right
    cases h2 : (uf || ut) with
    | false => left; exact ⟨s1, rfl, rfl, by simp⟩
    | true =>
      right
      cases h3 : s1.optFile with
      | none => left; exact ⟨s1, rfl, rfl, h3, by simp [h3]⟩
      | some spec =>
        right
        cases h4 : rotate env s1 spec with
        | none => left; exact ⟨s1, spec, rfl, rfl, h3, h4, by simp [h3, h4]⟩
        | some r =>
          right
          obtain ⟨s2, io⟩ := r
          cases h5 : s2.stream with
          | some g => left; exact ⟨s1, spec, s2, io, rfl, rfl, h3, h4, by simp [h5], by simp [h3, h4, h5]⟩
          | none => right; exact ⟨s1, spec, s2, io, rfl, rfl, h3, h4, h5, by simp [h3, h4, h5]⟩


-- ------------------------------------------------------------------------------------------ invariants
def filtOf : FiltOpt F → Option (Option F)
  | .unset => some none
  | .ok g => some (some g)
  | .bad => none

/-- invariant of every reachable state -/
structure Inv (s : St F C) : Prop extends W s where
  flt : ∀ g, s.stream = some g → g = s.filt                   -- the open writer filters with the current filter
  opt : s.stream.isSome = true → s.optFile.isSome = true       -- a stream is only open while the option is set
  sync : filtOf s.optFilt = some s.filt                        -- self.filt is the parsed option (never unparsable)

theorem filtStep_some (s s1 : St F C) (ut : Bool) (h : filtStep s ut = some s1) :
    s1.optFile = s.optFile ∧ s1.optFilt = s.optFilt ∧ s1.stream = s.stream ∧ s1.curPath = s.curPath ∧
    s1.active = s.active ∧ s1.world = s.world ∧ s1.now = s.now ∧ s1.exited = s.exited ∧
    (ut = false → s1 = s) ∧ (ut = true → filtOf s.optFilt = some s1.filt) := by
  unfold filtStep at h
  cases ut with
  | false => simp at h; subst h; simp
  | true =>
    simp only [if_true] at h
    cases hq : s.optFilt with
    | unset => rw [hq] at h; simp at h; subst h; simp [filtOf]
    | ok g => rw [hq] at h; simp at h; subst h; simp [filtOf]
    | bad => rw [hq] at h; simp at h

theorem filtStep_none (s : St F C) (ut : Bool) (h : filtStep s ut = none) :
    ut = true ∧ filtOf s.optFilt = none := by
  unfold filtStep at h
  cases ut with
  | false => simp at h
  | true =>
    simp only [if_true] at h
    cases hq : s.optFilt with
    | unset => rw [hq] at h; simp at h
    | ok g => rw [hq] at h; simp at h
    | bad => simp [filtOf]

theorem W_of_eq {s s' : St F C} (h : W s) (h1 : s'.stream = s.stream) (h2 : s'.curPath = s.curPath)
    (h3 : s'.active = s.active) : W s' :=
  ⟨by rw [h1, h2]; exact h.path, by rw [h3]; exact h.nodup, by rw [h1, h3]; exact h.idle⟩

theorem rotate_W (env : Env F C) (s s' : St F C) (spec : Spec) (io : List (Act C))
    (h : rotate env s spec = some (s', io)) (hw : W s) : W s' ∧ (s.stream.isSome = true → s'.stream.isSome = true) := by
  obtain ⟨_, _, _, ha, _, _, _, hc⟩ := rotate_facts env s s' spec io h
  rcases hc with ⟨rfl, _, _⟩ | ⟨h1, h2, _, _⟩
  · exact ⟨hw, id⟩
  · refine ⟨⟨by simp [h1, h2], by rw [ha]; exact hw.nodup, by simp [h1]⟩, by simp [h1]⟩

theorem doneOp_W (env : Env F C) (s : St F C) (hw : W s) : W (doneOp env s).1 := by
  rcases doneOp_cases env s with ⟨_, h⟩ | ⟨flt, _, h⟩
  · rw [h]; exact hw
  · rw [h]; exact ⟨rfl, List.nodup_nil, fun _ => rfl⟩

theorem saveFlow_W (env : Env F C) (s : St F C) (f : FlowId) (hw : W s) : W (saveFlow env s f).1 := by
  rcases saveFlow_cases env s f with ⟨_, h⟩ | ⟨_, _, h⟩ | ⟨spec, _, _, _, h⟩ | ⟨spec, s', io, flt, _, _, hr, hs, h⟩ |
      ⟨spec, s', io, _, _, hr, hs, h⟩
  · rw [h]; exact hw
  · rw [h]; exact hw
  · rw [h]; exact W_of_eq hw rfl rfl rfl
  · rw [h]
    have hw' := (rotate_W env s s' spec io hr hw).1
    exact ⟨hw'.path, hw'.nodup.erase f, by simp [hs]⟩
  · rw [h]; exact (rotate_W env s s' spec io hr hw).1

/-- facts about configure that hold for every input state satisfying W -/
theorem configure_W (env : Env F C) (s : St F C) (uf ut : Bool) (hw : W s) :
    let r := configure env s uf ut
    W r.1 ∧ r.2.2 ≠ .otherError ∧
    r.1.optFile = s.optFile ∧ r.1.optFilt = s.optFilt ∧ r.1.world = s.world ∧ r.1.now = s.now ∧
    r.1.exited = s.exited ∧ (ut = false → r.1.filt = s.filt) ∧
    (r.2.2 = .optionsError → r.1.stream = s.stream ∧ r.1.curPath = s.curPath ∧ r.1.active = s.active ∧ r.2.1 = [] ∧
        (ut = true → filtOf s.optFilt = none ∨ filtOf s.optFilt = some r.1.filt)) ∧
    (r.2.2 = .ok → (uf || ut) = true →
        (∀ g, r.1.stream = some g → g = r.1.filt) ∧ (r.1.stream.isSome = true → r.1.optFile.isSome = true) ∧
        (ut = true → filtOf s.optFilt = some r.1.filt)) := by
  intro r
  rcases configure_cases env s uf ut with ⟨h1, h⟩ | ⟨s1, h1, h2, h⟩ | ⟨s1, h1, h2, h3, h⟩ | ⟨s1, spec, h1, h2, h3, h4, h⟩ |
      ⟨s1, spec, s2, io, h1, h2, h3, h4, h5, h⟩ | ⟨s1, spec, s2, io, h1, h2, h3, h4, h5, h⟩
  · have := filtStep_none s ut h1
    rw [show r = _ from h]
    refine ⟨hw, by simp, rfl, rfl, rfl, rfl, rfl, fun _ => rfl, fun _ => ⟨rfl, rfl, rfl, rfl, fun _ => Or.inl this.2⟩, by simp⟩
  · obtain ⟨a1, a2, a3, a4, a5, a6, a7, a8, a9, a10⟩ := filtStep_some s s1 ut h1
    rw [show r = _ from h]
    refine ⟨W_of_eq hw a3 a4 a5, by simp, a1, a2, a6, a7, a8, fun e => by rw [a9 e], by simp, ?_⟩
    intro _ h'; rw [h2] at h'; simp at h'
  · obtain ⟨a1, a2, a3, a4, a5, a6, a7, a8, a9, a10⟩ := filtStep_some s s1 ut h1
    have hw1 : W s1 := W_of_eq hw a3 a4 a5
    rw [show r = _ from h]
    rcases doneOp_cases env s1 with ⟨d1, d⟩ | ⟨flt, d1, d⟩
    · rw [d]
      refine ⟨hw1, by simp, a1, a2, a6, a7, a8, fun e => by rw [a9 e], by simp, fun _ _ => ⟨?_, ?_, a10⟩⟩
      · intro g hg; rw [d1] at hg; simp at hg
      · intro hh; rw [d1] at hh; simp at hh
    · rw [d]
      refine ⟨⟨rfl, List.nodup_nil, fun _ => rfl⟩, by simp, a1, a2, a6, a7, a8, fun e => by simp [a9 e], by simp,
        fun _ _ => ⟨by simp, by simp, a10⟩⟩
  · obtain ⟨a1, a2, a3, a4, a5, a6, a7, a8, a9, a10⟩ := filtStep_some s s1 ut h1
    rw [show r = _ from h]
    refine ⟨W_of_eq hw a3 a4 a5, by simp, a1, a2, a6, a7, a8, fun e => by rw [a9 e],
      fun _ => ⟨a3, a4, a5, rfl, fun e => Or.inr (a10 e)⟩, by simp⟩
  · obtain ⟨a1, a2, a3, a4, a5, a6, a7, a8, a9, a10⟩ := filtStep_some s s1 ut h1
    have hw1 : W s1 := W_of_eq hw a3 a4 a5
    obtain ⟨b1, b2, b3, b4, b5, b6, b7, _⟩ := rotate_facts env s1 s2 spec io h4
    have hw2 := (rotate_W env s1 s2 spec io h4 hw1).1
    rw [show r = _ from h]
    refine ⟨⟨?_, hw2.nodup, by simp⟩, by simp, b1.trans a1, b2.trans a2, b5.trans a6, b6.trans a7, b7.trans a8,
      fun e => by simp [b3, a9 e], by simp, fun _ _ => ⟨by simp, ?_, fun e => by simp [b3, a10 e]⟩⟩
    · have := hw2.path; simp only [h5] at this; simp [← this]
    · intro _; simp [b1, h3]
  · obtain ⟨a1, a2, a3, a4, a5, a6, a7, a8, a9, a10⟩ := filtStep_some s s1 ut h1
    have hw1 : W s1 := W_of_eq hw a3 a4 a5
    exfalso
    obtain ⟨_, _, _, _, _, _, _, hc⟩ := rotate_facts env s1 s2 spec io h4
    rcases hc with ⟨rfl, _, hp⟩ | ⟨hs, _, _, _⟩
    · have := hw1.path; rw [h5, hp] at this; simp at this
    · rw [h5] at hs; simp at hs


/-- the state in which configure runs first: options already set -/
def optSet (s : St F C) (file : Option (Option Spec)) (filt : Option (FiltOpt F)) : St F C :=
  { s with optFile := file.getD s.optFile, optFilt := filt.getD s.optFilt }

/-- the state in which configure runs again after the roll-back of the options -/
def optBack (s s1 : St F C) : St F C := { s1 with optFile := s.optFile, optFilt := s.optFilt }

theorem update_cases (env : Env F C) (s : St F C) (file : Option (Option Spec)) (filt : Option (FiltOpt F)) :
    let r1 := configure env (optSet s file filt) file.isSome filt.isSome
    let r3 := configure env (optBack s r1.1) file.isSome filt.isSome
    ((file.isSome || filt.isSome) = false ∧ update env s file filt = (s, [], false)) ∨
    ((file.isSome || filt.isSome) = true ∧ r1.2.2 = .ok ∧ update env s file filt = (r1.1, r1.2.1, false)) ∨
    ((file.isSome || filt.isSome) = true ∧ r1.2.2 = .otherError ∧ update env s file filt = (r1.1, r1.2.1, false)) ∨
    ((file.isSome || filt.isSome) = true ∧ r1.2.2 = .optionsError ∧
        update env s file filt = (r3.1, r1.2.1 ++ r3.2.1, true)) := by
  intro r1 r3
  unfold update
  cases hb : (file.isSome || filt.isSome) with
  | false => left; simp only [hb]; simp
  | true =>
    right
    simp only [hb, Bool.not_true, Bool.false_eq_true, if_false]
    have e1 : configure env { s with optFile := file.getD s.optFile, optFilt := filt.getD s.optFilt }
        file.isSome filt.isSome = r1 := rfl
    rw [e1]
    rcases hr : r1 with ⟨s1, io1, res⟩
    cases res with
    | ok => left; simp
    | otherError => right; left; simp
    | optionsError =>
      right; right
      have e3 : configure env { s1 with optFile := s.optFile, optFilt := s.optFilt } file.isSome filt.isSome = r3 := by
        simp only [r3, optBack, hr]
      simp only [true_and]
      rw [e3]


theorem Inv_of_eq {s s' : St F C} (h : Inv s) (h1 : s'.stream = s.stream) (h2 : s'.curPath = s.curPath)
    (h3 : s'.active = s.active) (h4 : s'.filt = s.filt) (h5 : s'.optFile = s.optFile) (h6 : s'.optFilt = s.optFilt) :
    Inv s' :=
  { toW := W_of_eq h.toW h1 h2 h3
    flt := by rw [h1, h4]; exact h.flt
    opt := by rw [h1, h5]; exact h.opt
    sync := by rw [h6, h4]; exact h.sync }

theorem update_inv (env : Env F C) (s : St F C) (file : Option (Option Spec)) (filt : Option (FiltOpt F))
    (hi : Inv s) : Inv (update env s file filt).1 := by
  have hw0 : W (optSet s file filt) := W_of_eq hi.toW rfl rfl rfl
  have c1 := configure_W env (optSet s file filt) file.isSome filt.isSome hw0
  rcases update_cases env s file filt with ⟨_, h⟩ | ⟨hb, hr, h⟩ | ⟨_, hr, _⟩ | ⟨hb, hr, h⟩
  · rw [h]; exact hi
  · rw [h]
    obtain ⟨w1, _, f1, f2, _, _, _, f6, _, k⟩ := c1
    obtain ⟨k1, k2, k3⟩ := k hr hb
    refine { toW := w1, flt := k1, opt := k2, sync := ?_ }
    rw [f2]
    rcases Bool.eq_false_or_eq_true filt.isSome with hq | hq
    · exact k3 hq
    · have hn : filt = none := by cases filt <;> simp_all
      have e1 : (optSet s file filt).optFilt = s.optFilt := by simp [optSet, hn]
      have e2 : (optSet s file filt).filt = s.filt := rfl
      rw [f6 hq, e1, e2]; exact hi.sync
  · exact absurd hr c1.2.1
  · rw [h]
    obtain ⟨w1, _, f1, f2, _, _, _, f6, k, _⟩ := c1
    obtain ⟨e1, e2, e3, _, _⟩ := k hr
    have hw2 : W (optBack s (configure env (optSet s file filt) file.isSome filt.isSome).1) :=
      W_of_eq hi.toW e1 e2 e3
    have c3 := configure_W env (optBack s (configure env (optSet s file filt) file.isSome filt.isSome).1)
      file.isSome filt.isSome hw2
    obtain ⟨w3, n3, g1, g2, _, _, _, g6, gk, gok⟩ := c3
    -- the filter seen by the second configure when the filter option was not touched
    have hfilt_nf : filt.isSome = false →
        (optBack s (configure env (optSet s file filt) file.isSome filt.isSome).1).filt = s.filt := by
      intro hf
      have := f6 hf
      simpa [optBack, optSet] using this
    cases hres : (configure env (optBack s (configure env (optSet s file filt) file.isSome filt.isSome).1)
        file.isSome filt.isSome).2.2 with
    | otherError => exact absurd hres n3
    | ok =>
      obtain ⟨k1, k2, k3⟩ := gok hres hb
      refine { toW := w3, flt := k1, opt := k2, sync := ?_ }
      rw [g2]
      rcases Bool.eq_false_or_eq_true filt.isSome with hq | hq
      · exact k3 hq
      · rw [g6 hq, hfilt_nf hq]; exact hi.sync
    | optionsError =>
      obtain ⟨d1, d2, d3, _, d5⟩ := gk hres
      have hfl : (configure env (optBack s (configure env (optSet s file filt) file.isSome filt.isSome).1)
          file.isSome filt.isSome).1.filt = s.filt := by
        rcases Bool.eq_false_or_eq_true filt.isSome with hq | hq
        · rcases d5 hq with d | d
          · have := hi.sync; simp only [optBack] at d; rw [d] at this; simp at this
          · have h0 := hi.sync
            have d' : filtOf s.optFilt = some (configure env (optBack s (configure env (optSet s file filt)
                file.isSome filt.isSome).1) file.isSome filt.isSome).1.filt := d
            rw [d'] at h0
            exact Option.some.inj h0
        · rw [g6 hq, hfilt_nf hq]
      exact Inv_of_eq hi (d1.trans e1) (d2.trans e2) (d3.trans e3) hfl g1 g2

theorem saveFlow_inv (env : Env F C) (s : St F C) (f : FlowId) (hi : Inv s) : Inv (saveFlow env s f).1 := by
  rcases saveFlow_cases env s f with ⟨_, h⟩ | ⟨_, _, h⟩ | ⟨spec, _, _, _, h⟩ | ⟨spec, s', io, flt, _, ho, hr, hs, h⟩ |
      ⟨spec, s', io, _, _, hr, hs, h⟩
  · rw [h]; exact hi
  · rw [h]; exact hi
  · rw [h]; exact Inv_of_eq hi rfl rfl rfl rfl rfl rfl
  · have hw := saveFlow_W env s f hi.toW
    rw [h] at hw ⊢
    obtain ⟨b1, b2, b3, b4, _, _, _, hc⟩ := rotate_facts env s s' spec io hr
    refine { toW := hw, flt := ?_, opt := ?_, sync := ?_ }
    · intro g hg
      simp only at hg
      rcases hc with ⟨rfl, _, _⟩ | ⟨h1, _, _, _⟩
      · exact hi.flt g hg
      · rw [h1] at hg; simp at hg; rw [← hg, b3]
    · intro _; simp [b1, ho]
    · simp only [b2, b3]; exact hi.sync
  · have hw := saveFlow_W env s f hi.toW
    rw [h] at hw ⊢
    obtain ⟨b1, b2, b3, b4, _, _, _, hc⟩ := rotate_facts env s s' spec io hr
    refine { toW := hw, flt := ?_, opt := ?_, sync := ?_ }
    · intro g hg; rw [hs] at hg; simp at hg
    · intro hh; rw [hs] at hh; simp at hh
    · rw [b2, b3]; exact hi.sync

theorem doneOp_inv (env : Env F C) (s : St F C) (hi : Inv s) : Inv (doneOp env s).1 := by
  rcases doneOp_cases env s with ⟨_, h⟩ | ⟨flt, _, h⟩
  · rw [h]; exact hi
  · rw [h]
    exact { path := rfl, nodup := List.nodup_nil, idle := fun _ => rfl, flt := by simp, opt := by simp, sync := hi.sync }

theorem hookOp_inv (env : Env F C) (s : St F C) (h : Hook) (f : FlowId) (hi : Inv s) : Inv (hookOp env s h f).1 := by
  unfold hookOp
  split
  · split
    · rename_i hs
      split
      · exact hi
      · rename_i hc
        refine { path := hi.path, nodup := ?_, idle := ?_, flt := hi.flt, opt := hi.opt, sync := hi.sync }
        · simp only [List.nodup_cons]
          exact ⟨by simpa using hc, hi.nodup⟩
        · intro hn; simp only at hn; rw [hn] at hs; simp at hs
    · exact hi
  · split
    · split
      · exact hi
      · exact saveFlow_inv env s f hi
    · exact saveFlow_inv env s f hi

theorem step_inv (env : Env F C) (s : St F C) (e : Ev F C) (hi : Inv s) : Inv (step env s e).1 := by
  unfold step
  split
  · exact hi
  · cases e with
    | hook h f => exact hookOp_inv env s h f hi
    | edit f c => exact Inv_of_eq hi rfl rfl rfl rfl rfl rfl
    | tick t => exact Inv_of_eq hi rfl rfl rfl rfl rfl rfl
    | update file filt => exact update_inv env s file filt hi
    | done => exact doneOp_inv env s hi

theorem run_inv (env : Env F C) (evs : List (Ev F C)) : ∀ s : St F C, Inv s → Inv (run env s evs).1 := by
  induction evs with
  | nil => intro s hi; exact hi
  | cons e es ih => intro s hi; exact ih _ (step_inv env s e hi)

theorem init_inv (w : FlowId → C) : Inv (init w : St F C) :=
  { path := rfl, nodup := List.nodup_nil, idle := fun _ => rfl, flt := by simp [init], opt := by simp [init],
    sync := rfl }


-- ------------------------------------------------------------------------------------------ emitted actions
@[simp] theorem writes_nil : writes ([] : List (Act C)) = [] := rfl
@[simp] theorem writes_wr (r : Rec C) (l : List (Act C)) : writes (.wr r :: l) = r :: writes l := rfl
@[simp] theorem writes_opn (p : Path) (a : Bool) (l : List (Act C)) : writes (.opn p a :: l) = writes l := rfl
@[simp] theorem writes_cls (l : List (Act C)) : writes (.cls :: l) = writes l := rfl

theorem writes_append (l1 l2 : List (Act C)) : writes (l1 ++ l2) = writes l1 ++ writes l2 := by
  induction l1 with
  | nil => rfl
  | cons a l ih => cases a <;> simp [ih]

theorem writes_add (env : Env F C) (flt : Option F) (w : FlowId → C) (f : FlowId) :
    writes (add env flt w f) = if passes env flt f (w f) then [⟨f, w f⟩] else [] := by
  unfold add; split <;> simp

theorem mem_writes_add (env : Env F C) (flt : Option F) (w : FlowId → C) (f : FlowId) (r : Rec C)
    (h : r ∈ writes (add env flt w f)) : r = ⟨f, w f⟩ ∧ passes env flt f (w f) = true := by
  rw [writes_add] at h
  split at h
  · simp at h; exact ⟨h, by assumption⟩
  · simp at h

theorem mem_writes_flatMap (env : Env F C) (flt : Option F) (w : FlowId → C) (l : List FlowId) (r : Rec C)
    (h : r ∈ writes (l.flatMap (add env flt w))) :
    r.flow ∈ l ∧ r.content = w r.flow ∧ passes env flt r.flow (w r.flow) = true := by
  induction l with
  | nil => simp at h
  | cons x xs ih =>
    rw [List.flatMap_cons, writes_append] at h
    rcases List.mem_append.mp h with h1 | h1
    · obtain ⟨rfl, hp⟩ := mem_writes_add env flt w x r h1
      exact ⟨by simp, rfl, hp⟩
    · obtain ⟨a, b, c⟩ := ih h1
      exact ⟨by simp [a], b, c⟩

/-- the flushed batch contains exactly one record of an open flow (if it passes the filter) -/
theorem writes_flatMap_of (env : Env F C) (flt : Option F) (w : FlowId → C) (f : FlowId) :
    ∀ l : List FlowId, l.Nodup → f ∈ l →
      (writes (l.flatMap (add env flt w))).filter (fun r => r.flow == f) =
        if passes env flt f (w f) then [⟨f, w f⟩] else [] := by
  intro l
  induction l with
  | nil => intro _ h; simp at h
  | cons x xs ih =>
    intro hnd hmem
    rw [List.nodup_cons] at hnd
    rw [List.flatMap_cons, writes_append, List.filter_append]
    by_cases hx : x = f
    · subst hx
      have hrest : (writes (xs.flatMap (add env flt w))).filter (fun r => r.flow == x) = [] := by
        rw [List.filter_eq_nil_iff]
        intro r hr
        have := (mem_writes_flatMap env flt w xs r hr).1
        intro he
        have : r.flow = x := by simpa using he
        exact hnd.1 (this ▸ ‹r.flow ∈ xs›)
      rw [hrest, writes_add]
      split <;> simp
    · have hm : f ∈ xs := by
        rcases List.mem_cons.mp hmem with h | h
        · exact absurd h.symm hx
        · exact h
      have hfirst : (writes (add env flt w x)).filter (fun r => r.flow == f) = [] := by
        rw [writes_add]; split <;> simp [hx]
      rw [hfirst, ih hnd.2 hm]; simp

theorem doneOp_io (env : Env F C) (s : St F C) :
    (∀ r ∈ writes (doneOp env s).2, ∃ flt, s.stream = some flt ∧ r.flow ∈ s.active ∧ r.content = s.world r.flow ∧
        passes env flt r.flow (s.world r.flow) = true) ∧
    (∀ p a, Act.opn p a ∉ (doneOp env s).2) := by
  rcases doneOp_cases env s with ⟨_, h⟩ | ⟨flt, h1, h⟩
  · rw [h]; simp
  · rw [h]
    refine ⟨?_, ?_⟩
    · intro r hr
      rw [writes_append] at hr
      simp at hr
      obtain ⟨a, b, c⟩ := mem_writes_flatMap env flt s.world s.active r hr
      exact ⟨flt, h1, a, b, c⟩
    · intro p a hm
      simp only [List.mem_append, List.mem_flatMap] at hm
      rcases hm with ⟨x, _, hx⟩ | hm
      · unfold add at hx; split at hx <;> simp at hx
      · simp at hm

/-- every action of configure: a write of an open flow through the filter of the stream that was open before,
    or the opening of the file named by the (current) option -/
theorem configure_io (env : Env F C) (s : St F C) (uf ut : Bool) :
    (∀ r ∈ writes (configure env s uf ut).2.1, s.optFile = none ∧ ∃ flt, s.stream = some flt ∧ r.flow ∈ s.active ∧
        r.content = s.world r.flow ∧ passes env flt r.flow (s.world r.flow) = true) ∧
    (∀ p a, Act.opn p a ∈ (configure env s uf ut).2.1 → ∃ spec, s.optFile = some spec ∧ a = spec.append) := by
  rcases configure_cases env s uf ut with ⟨h1, h⟩ | ⟨s1, h1, h2, h⟩ | ⟨s1, h1, h2, h3, h⟩ | ⟨s1, spec, h1, h2, h3, h4, h⟩ |
      ⟨s1, spec, s2, io, h1, h2, h3, h4, h5, h⟩ | ⟨s1, spec, s2, io, h1, h2, h3, h4, h5, h⟩
  · rw [h]; simp
  · rw [h]; simp
  · obtain ⟨a1, a2, a3, a4, a5, a6, _⟩ := filtStep_some s s1 ut h1
    rw [h]
    obtain ⟨d1, d2⟩ := doneOp_io env s1
    refine ⟨?_, fun p a hm => absurd hm (d2 p a)⟩
    intro r hr
    obtain ⟨flt, b1, b2, b3, b4⟩ := d1 r hr
    exact ⟨a1 ▸ h3, flt, a3 ▸ b1, a5 ▸ b2, a6 ▸ b3, a6 ▸ b4⟩
  · rw [h]; simp
  · obtain ⟨a1, _⟩ := filtStep_some s s1 ut h1
    obtain ⟨_, _, _, _, _, _, _, hc⟩ := rotate_facts env s1 s2 spec io h4
    rw [h]
    rcases hc with ⟨_, rfl, _⟩ | ⟨_, _, rfl, _⟩
    · simp
    · refine ⟨by simp, ?_⟩
      intro p a hm
      simp at hm
      exact ⟨spec, a1 ▸ h3, hm.2⟩
  · obtain ⟨a1, _⟩ := filtStep_some s s1 ut h1
    obtain ⟨_, _, _, _, _, _, _, hc⟩ := rotate_facts env s1 s2 spec io h4
    rw [h]
    rcases hc with ⟨_, rfl, _⟩ | ⟨_, _, rfl, _⟩
    · simp
    · refine ⟨by simp, ?_⟩
      intro p a hm
      simp at hm
      exact ⟨spec, a1 ▸ h3, hm.2⟩


theorem saveFlow_writes (env : Env F C) (s : St F C) (f : FlowId) (hi : Inv s) :
    (s.stream = none → (saveFlow env s f).2 = []) ∧
    (s.stream.isSome = true → (∀ spec, s.optFile = some spec → rotate env s spec ≠ none) →
      writes (saveFlow env s f).2 = (if passes env s.filt f (s.world f) then [⟨f, s.world f⟩] else []) ∧
      f ∉ (saveFlow env s f).1.active ∧ (saveFlow env s f).1.stream.isSome = true ∧
      (saveFlow env s f).1.exited = s.exited) ∧
    (∀ r ∈ writes (saveFlow env s f).2, r = ⟨f, s.world f⟩ ∧ passes env s.filt f (s.world f) = true) ∧
    (∀ p a, Act.opn p a ∈ (saveFlow env s f).2 → ∃ spec, s.optFile = some spec ∧ a = spec.append) := by
  rcases saveFlow_cases env s f with ⟨h0, h⟩ | ⟨h0, h1, h⟩ | ⟨spec, h0, h1, h2, h⟩ | ⟨spec, s', io, flt, h0, h1, hr, hs, h⟩ |
      ⟨spec, s', io, h0, h1, hr, hs, h⟩
  · rw [h]; simp [h0]
  · have := hi.opt h0; rw [h1] at this; simp at this
  · rw [h]
    refine ⟨fun _ => rfl, ?_, by simp, by simp⟩
    intro _ hrot; exact absurd h2 (hrot spec h1)
  · rw [h]
    obtain ⟨b1, b2, b3, b4, b5, _, b7, hc⟩ := rotate_facts env s s' spec io hr
    have hflt : flt = s.filt := by
      rcases hc with ⟨rfl, _, _⟩ | ⟨h1', _, _, _⟩
      · exact hi.flt flt hs
      · rw [h1'] at hs; exact (Option.some.inj hs).symm
    have hio : writes io = [] := by
      rcases hc with ⟨_, rfl, _⟩ | ⟨_, _, rfl, _⟩ <;> rfl
    have hnd : s'.active.Nodup := b4 ▸ hi.nodup
    refine ⟨fun hn => by rw [hn] at h0; simp at h0, ?_, ?_, ?_⟩
    · intro _ _
      refine ⟨by rw [writes_append, hio, writes_add, hflt, b5]; simp, ?_, by simp [hs], b7⟩
      simp only
      intro hm
      exact ((List.Nodup.mem_erase_iff hnd).mp hm).1 rfl
    · intro r hr'
      rw [writes_append, hio, List.nil_append, hflt, b5] at hr'
      exact mem_writes_add env s.filt s.world f r hr'
    · intro p a hm
      simp only [List.mem_append] at hm
      rcases hm with hm | hm
      · rcases hc with ⟨_, rfl, _⟩ | ⟨_, _, rfl, _⟩
        · simp at hm
        · simp at hm; exact ⟨spec, h1, hm.2⟩
      · unfold add at hm; split at hm <;> simp at hm
  · exfalso
    have := (rotate_W env s s' spec io hr hi.toW).2 h0
    rw [hs] at this; simp at this

theorem update_io (env : Env F C) (s : St F C) (file : Option (Option Spec)) (filt : Option (FiltOpt F)) (hi : Inv s) :
    (∀ r ∈ writes (update env s file filt).2.1, file = some none ∧ r.flow ∈ s.active ∧ r.content = s.world r.flow ∧
        passes env s.filt r.flow (s.world r.flow) = true) ∧
    (∀ p a, Act.opn p a ∈ (update env s file filt).2.1 →
        (∃ spec, s.optFile = some spec ∧ a = spec.append) ∨ (∃ spec, file = some (some spec) ∧ a = spec.append)) := by
  have io1 := configure_io env (optSet s file filt) file.isSome filt.isSome
  have hw0 : W (optSet s file filt) := W_of_eq hi.toW rfl rfl rfl
  have c1 := configure_W env (optSet s file filt) file.isSome filt.isSome hw0
  -- facts about the first configure, in terms of s
  have w1 : ∀ r ∈ writes (configure env (optSet s file filt) file.isSome filt.isSome).2.1,
      file = some none ∧ r.flow ∈ s.active ∧ r.content = s.world r.flow ∧
        passes env s.filt r.flow (s.world r.flow) = true := by
    intro r hr
    obtain ⟨hn, flt, a1, a2, a3, a4⟩ := io1.1 r hr
    have hflt : flt = s.filt := hi.flt flt a1
    refine ⟨?_, a2, a3, hflt ▸ a4⟩
    cases hf : file with
    | none =>
      have : (optSet s file filt).optFile = s.optFile := by simp [optSet, hf]
      rw [this] at hn
      have := hi.opt (by rw [show s.stream = some flt from a1]; rfl)
      rw [hn] at this; simp at this
    | some v =>
      have : (optSet s file filt).optFile = v := by simp [optSet, hf]
      rw [this] at hn; rw [hn]
  have o1 : ∀ p a, Act.opn p a ∈ (configure env (optSet s file filt) file.isSome filt.isSome).2.1 →
      (∃ spec, s.optFile = some spec ∧ a = spec.append) ∨ (∃ spec, file = some (some spec) ∧ a = spec.append) := by
    intro p a hm
    obtain ⟨spec, e, ea⟩ := io1.2 p a hm
    cases hf : file with
    | none =>
      have : (optSet s file filt).optFile = s.optFile := by simp [optSet, hf]
      left; exact ⟨spec, this ▸ e, ea⟩
    | some v =>
      have : (optSet s file filt).optFile = v := by simp [optSet, hf]
      right; exact ⟨spec, by rw [← e, this], ea⟩
  rcases update_cases env s file filt with ⟨_, h⟩ | ⟨_, _, h⟩ | ⟨_, _, h⟩ | ⟨_, hr, h⟩
  · rw [h]; simp
  · rw [h]; exact ⟨w1, o1⟩
  · rw [h]; exact ⟨w1, o1⟩
  · rw [h]
    obtain ⟨_, _, f1, f2, f3, _, _, _, k, _⟩ := c1
    obtain ⟨e1, e2, e3, e4, _⟩ := k hr
    have io3 := configure_io env (optBack s (configure env (optSet s file filt) file.isSome filt.isSome).1)
      file.isSome filt.isSome
    refine ⟨?_, ?_⟩
    · intro r hr'
      simp only at hr'
      rw [e4, List.nil_append] at hr'
      obtain ⟨hn, flt, a1, _⟩ := io3.1 r hr'
      exfalso
      have hs : s.stream = some flt := by rw [← a1]; simp [optBack]; exact e1.symm
      have := hi.opt (by rw [hs]; rfl)
      have hn' : s.optFile = none := hn
      rw [hn'] at this; simp at this
    · intro p a hm
      simp only at hm
      rw [e4, List.nil_append] at hm
      obtain ⟨spec, e, ea⟩ := io3.2 p a hm
      left; exact ⟨spec, e, ea⟩


-- ------------------------------------------------------------------------------------------ what keeps a flow open
theorem configure_keep (env : Env F C) (s : St F C) (uf ut : Bool) (hw : W s) (ho : s.optFile.isSome = true) :
    (configure env s uf ut).1.active = s.active ∧
    (s.stream.isSome = true → (configure env s uf ut).1.stream.isSome = true) := by
  have cw := configure_W env s uf ut hw
  rcases configure_cases env s uf ut with ⟨h1, h⟩ | ⟨s1, h1, h2, h⟩ | ⟨s1, h1, h2, h3, h⟩ | ⟨s1, spec, h1, h2, h3, h4, h⟩ |
      ⟨s1, spec, s2, io, h1, h2, h3, h4, h5, h⟩ | ⟨s1, spec, s2, io, h1, h2, h3, h4, h5, h⟩
  · rw [h]; exact ⟨rfl, id⟩
  · obtain ⟨a1, a2, a3, a4, a5, _⟩ := filtStep_some s s1 ut h1
    rw [h]; exact ⟨a5, by rw [a3]; exact id⟩
  · obtain ⟨a1, _⟩ := filtStep_some s s1 ut h1
    rw [a1] at h3; rw [h3] at ho; simp at ho
  · obtain ⟨a1, a2, a3, a4, a5, _⟩ := filtStep_some s s1 ut h1
    rw [h]; exact ⟨a5, by rw [a3]; exact id⟩
  · obtain ⟨a1, a2, a3, a4, a5, _⟩ := filtStep_some s s1 ut h1
    obtain ⟨_, _, _, b4, _⟩ := rotate_facts env s1 s2 spec io h4
    rw [h]; exact ⟨b4.trans a5, fun _ => rfl⟩
  · exfalso; apply cw.2.1; rw [h]

theorem update_keep (env : Env F C) (s : St F C) (file : Option (Option Spec)) (filt : Option (FiltOpt F))
    (hi : Inv s) (hf : file ≠ some none) (hs : s.stream.isSome = true) :
    (update env s file filt).1.active = s.active ∧ (update env s file filt).1.stream.isSome = true := by
  have hw0 : W (optSet s file filt) := W_of_eq hi.toW rfl rfl rfl
  have ho0 : (optSet s file filt).optFile.isSome = true := by
    cases hq : file with
    | none => simp [optSet]; exact hi.opt hs
    | some v =>
      cases v with
      | none => exact absurd hq hf
      | some spec => simp [optSet]
  have k1 := configure_keep env (optSet s file filt) file.isSome filt.isSome hw0 ho0
  rcases update_cases env s file filt with ⟨_, h⟩ | ⟨_, _, h⟩ | ⟨_, _, h⟩ | ⟨_, hr, h⟩
  · rw [h]; exact ⟨rfl, hs⟩
  · rw [h]; exact ⟨k1.1, k1.2 hs⟩
  · rw [h]; exact ⟨k1.1, k1.2 hs⟩
  · rw [h]
    have hw2 : W (optBack s (configure env (optSet s file filt) file.isSome filt.isSome).1) :=
      W_of_eq (configure_W env (optSet s file filt) file.isSome filt.isSome hw0).1 rfl rfl rfl
    have ho2 : (optBack s (configure env (optSet s file filt) file.isSome filt.isSome).1).optFile.isSome = true :=
      hi.opt hs
    have k3 := configure_keep env _ file.isSome filt.isSome hw2 ho2
    exact ⟨k3.1.trans k1.1, k3.2 (k1.2 hs)⟩

end MitmVerif.Lemmas.C39
