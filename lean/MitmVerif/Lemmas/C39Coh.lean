/-
  C39 — coherence of the addon's `current_path` with the file system's open handle: replaying the actions of any
  operation moves the open handle exactly to the addon's new `curPath`.
-/
import MitmVerif.Lemmas.C39
namespace MitmVerif.Lemmas.C39
open MitmVerif.C39
variable {F C : Type}

def curStep (c : Option Path) : Act C → Option Path
  | .opn p _ => some p
  | .cls => none
  | .wr _ => c

def curAfter (c : Option Path) (io : List (Act C)) : Option Path := io.foldl curStep c

theorem fsRun_cur (io : List (Act C)) : ∀ fs : FS C, (fsRun fs io).cur = curAfter fs.cur io := by
  induction io with
  | nil => intro fs; rfl
  | cons a l ih =>
    intro fs
    simp only [fsRun, List.foldl_cons, curAfter] at ih ⊢
    rw [ih]
    congr 1
    cases a with
    | opn p b => rfl
    | cls => rfl
    | wr r =>
      simp only [fsStep, curStep]
      cases hc : fs.cur with
      | none => simp [hc]
      | some p => simp

theorem curAfter_append (c : Option Path) (a b : List (Act C)) :
    curAfter c (a ++ b) = curAfter (curAfter c a) b := by
  simp [curAfter, List.foldl_append]

theorem curAfter_add (env : Env F C) (flt : Option F) (w : FlowId → C) (f : FlowId) (c : Option Path) :
    curAfter c (add env flt w f) = c := by
  unfold add; split <;> rfl

theorem curAfter_flatMap_add (env : Env F C) (flt : Option F) (w : FlowId → C) (l : List FlowId) (c : Option Path) :
    curAfter c (l.flatMap (add env flt w)) = c := by
  induction l with
  | nil => rfl
  | cons x xs ih => rw [List.flatMap_cons, curAfter_append, curAfter_add, ih]

theorem rotate_cur (env : Env F C) (s s' : St F C) (spec : Spec) (io : List (Act C))
    (h : rotate env s spec = some (s', io)) : curAfter s.curPath io = s'.curPath := by
  obtain ⟨_, _, _, _, _, _, _, hc⟩ := rotate_facts env s s' spec io h
  rcases hc with ⟨rfl, rfl, _⟩ | ⟨_, h2, rfl, _⟩
  · rfl
  · rw [h2]; rfl

theorem saveFlow_cur (env : Env F C) (s : St F C) (f : FlowId) :
    curAfter s.curPath (saveFlow env s f).2 = (saveFlow env s f).1.curPath := by
  rcases saveFlow_cases env s f with ⟨_, h⟩ | ⟨_, _, h⟩ | ⟨spec, _, _, _, h⟩ | ⟨spec, s', io, flt, _, _, hr, _, h⟩ |
      ⟨spec, s', io, _, _, hr, _, h⟩
  · rw [h]; rfl
  · rw [h]; rfl
  · rw [h]; rfl
  · rw [h, curAfter_append, curAfter_add]; exact rotate_cur env s s' spec io hr
  · rw [h]; exact rotate_cur env s s' spec io hr

theorem doneOp_cur (env : Env F C) (s : St F C) (hw : W s) :
    curAfter s.curPath (doneOp env s).2 = (doneOp env s).1.curPath := by
  rcases doneOp_cases env s with ⟨_, h⟩ | ⟨flt, _, h⟩
  · rw [h]; rfl
  · rw [h, curAfter_append, curAfter_flatMap_add]; rfl

theorem configure_cur (env : Env F C) (s : St F C) (uf ut : Bool) (hw : W s) :
    curAfter s.curPath (configure env s uf ut).2.1 = (configure env s uf ut).1.curPath := by
  rcases configure_cases env s uf ut with ⟨h1, h⟩ | ⟨s1, h1, h2, h⟩ | ⟨s1, h1, h2, h3, h⟩ | ⟨s1, spec, h1, h2, h3, h4, h⟩ |
      ⟨s1, spec, s2, io, h1, h2, h3, h4, h5, h⟩ | ⟨s1, spec, s2, io, h1, h2, h3, h4, h5, h⟩
  · rw [h]; rfl
  · obtain ⟨_, _, a3, a4, a5, _⟩ := filtStep_some s s1 ut h1
    rw [h]; exact a4.symm
  · obtain ⟨_, _, a3, a4, a5, _⟩ := filtStep_some s s1 ut h1
    rw [h, ← a4]; exact doneOp_cur env s1 (W_of_eq hw a3 a4 a5)
  · obtain ⟨_, _, a3, a4, a5, _⟩ := filtStep_some s s1 ut h1
    rw [h]; exact a4.symm
  · obtain ⟨_, _, a3, a4, a5, _⟩ := filtStep_some s s1 ut h1
    rw [h, ← a4]; exact rotate_cur env s1 s2 spec io h4
  · obtain ⟨_, _, a3, a4, a5, _⟩ := filtStep_some s s1 ut h1
    rw [h, ← a4]; exact rotate_cur env s1 s2 spec io h4

theorem update_cur (env : Env F C) (s : St F C) (file : Option (Option Spec)) (filt : Option (FiltOpt F)) (hw : W s) :
    curAfter s.curPath (update env s file filt).2.1 = (update env s file filt).1.curPath := by
  have hw0 : W (optSet s file filt) := W_of_eq hw rfl rfl rfl
  have c1 := configure_cur env (optSet s file filt) file.isSome filt.isSome hw0
  have e0 : (optSet s file filt).curPath = s.curPath := rfl
  rw [e0] at c1
  rcases update_cases env s file filt with ⟨_, h⟩ | ⟨_, _, h⟩ | ⟨_, _, h⟩ | ⟨_, _, h⟩
  · rw [h]; rfl
  · rw [h]; exact c1
  · rw [h]; exact c1
  · rw [h]
    have hw2 : W (optBack s (configure env (optSet s file filt) file.isSome filt.isSome).1) :=
      W_of_eq (configure_W env (optSet s file filt) file.isSome filt.isSome hw0).1 rfl rfl rfl
    have c3 := configure_cur env _ file.isSome filt.isSome hw2
    simp only
    rw [curAfter_append, c1]
    exact c3

theorem step_cur (env : Env F C) (s : St F C) (e : Ev F C) (hi : Inv s) :
    curAfter s.curPath (step env s e).2 = (step env s e).1.curPath := by
  unfold step
  split
  · rfl
  · cases e with
    | hook h f =>
      simp only
      unfold hookOp
      split
      · split <;> rfl
      · split
        · split
          · rfl
          · exact saveFlow_cur env s f
        · exact saveFlow_cur env s f
    | edit f c => rfl
    | tick t => rfl
    | update file filt => exact update_cur env s file filt hi.toW
    | done => exact doneOp_cur env s hi.toW

/-- along every history the file system's open handle is the addon's current path -/
theorem run_cur (env : Env F C) (evs : List (Ev F C)) :
    ∀ (s : St F C) (fs : FS C), Inv s → fs.cur = s.curPath →
      (fsRun fs (run env s evs).2).cur = (run env s evs).1.curPath := by
  induction evs with
  | nil => intro s fs _ h; exact h
  | cons e es ih =>
    intro s fs hi h
    simp only [run]
    have hsplit : fsRun fs ((step env s e).2 ++ (run env (step env s e).1 es).2) =
        fsRun (fsRun fs (step env s e).2) (run env (step env s e).1 es).2 := by
      simp [fsRun, List.foldl_append]
    rw [hsplit]
    apply ih _ _ (step_inv env s e hi)
    rw [fsRun_cur, h]; exact step_cur env s e hi

end MitmVerif.Lemmas.C39
