/-
  C41 — helper lemmas: header multidict operations, message operations on messages without a
  Content-Encoding field, used by `Props/C41.lean` (the guard / comparison predicates live in `Model/C41_Spec.lean`).
-/
import MitmVerif.Model.C41_Spec
namespace MitmVerif.C41

/-- element-wise relation between two lists of the same length, in order -/
inductive InOrder {α β : Type} (R : α → β → Prop) : List α → List β → Prop
  | nil : InOrder R [] []
  | cons {a b l₁ l₂} : R a b → InOrder R l₁ l₂ → InOrder R (a :: l₁) (b :: l₂)

/-! ### multidict -/

theorem nameIs_setv (k : Bytes) (f : Bytes × Bytes) (v : Bytes) : nameIs k (f.1, v) = nameIs k f := rfl

theorem not_contains_iff {h : Hdrs} {k : Bytes} : hcontains h k = false ↔ fieldsOf h k = [] := by
  unfold hcontains; cases fieldsOf h k <;> simp

theorem fieldsOf_nil_iff {h : Hdrs} {k : Bytes} : fieldsOf h k = [] ↔ ∀ f ∈ h, nameIs k f = false := by
  unfold fieldsOf
  simp [List.filter_eq_nil_iff]

theorem hdel_of_not_contains {h : Hdrs} {k : Bytes} (hc : hcontains h k = false) : hdel h k = h := by
  have := fieldsOf_nil_iff.mp (not_contains_iff.mp hc)
  unfold hdel
  apply List.filter_eq_self.mpr
  intro f hf; simp [this f hf]

theorem hget_of_not_contains (lib : Lib) {h : Hdrs} {k : Bytes} (hc : hcontains h k = false) :
    hget lib h k = none := by
  unfold hget; rw [not_contains_iff.mp hc]

theorem hget_congr (lib : Lib) {h h' : Hdrs} {k : Bytes} (e : fieldsOf h' k = fieldsOf h k) :
    hget lib h' k = hget lib h k := by
  unfold hget; rw [e]

theorem hcontains_congr {h h' : Hdrs} {k : Bytes} (e : fieldsOf h' k = fieldsOf h k) :
    hcontains h' k = hcontains h k := by
  unfold hcontains; rw [e]

theorem fieldsOf_cons (f : Bytes × Bytes) (h : Hdrs) (k : Bytes) :
    fieldsOf (f :: h) k = if nameIs k f then f.2 :: fieldsOf h k else fieldsOf h k := by
  unfold fieldsOf; by_cases c : nameIs k f = true <;> simp [List.filter_cons, c]

theorem nameIs_ne {k k' : Bytes} {f : Bytes × Bytes} (hne : k' ≠ k) (hk : nameIs k f = true) : nameIs k' f = false := by
  unfold nameIs at *
  have : asciiLower f.1 = k := by simpa using hk
  simp [this]; exact fun e => hne e.symm

theorem fieldsOf_hsetGo_ne {k k' : Bytes} (v : Bytes) (hne : k' ≠ k) :
    ∀ (h : Hdrs) (done : Bool), fieldsOf (hsetGo k v h done) k' = fieldsOf h k' := by
  intro h
  induction h with
  | nil => intro done; simp [hsetGo]
  | cons f rest ih =>
    intro done
    by_cases c : nameIs k f = true
    · have c' := nameIs_ne hne c
      cases done
      · simp [hsetGo, c, fieldsOf_cons, c', nameIs_setv, ih]
      · simp [hsetGo, c, fieldsOf_cons, c', ih]
    · simp [hsetGo, c, fieldsOf_cons, ih]

theorem fieldsOf_append (h h' : Hdrs) (k : Bytes) : fieldsOf (h ++ h') k = fieldsOf h k ++ fieldsOf h' k := by
  unfold fieldsOf; simp

theorem fieldsOf_hset_ne {k' name : Bytes} (h : Hdrs) (v : Bytes) (hne : k' ≠ asciiLower name) :
    fieldsOf (hset h name v) k' = fieldsOf h k' := by
  unfold hset
  split
  · exact fieldsOf_hsetGo_ne v hne h false
  · rw [fieldsOf_append]
    have : nameIs k' (name, v) = false := by
      unfold nameIs; simp; exact fun e => hne e.symm
    simp [fieldsOf, this]

theorem hdel_hsetGo_same (k v : Bytes) : ∀ (h : Hdrs) (done : Bool), hdel (hsetGo k v h done) k = hdel h k := by
  intro h
  induction h with
  | nil => intro done; simp [hsetGo]
  | cons f rest ih =>
    intro done
    by_cases c : nameIs k f = true
    · cases done
      · simp [hsetGo, c, hdel, List.filter_cons, nameIs_setv]
        simpa [hdel] using ih true
      · simp [hsetGo, c, hdel, List.filter_cons]
        simpa [hdel] using ih true
    · simp [hsetGo, c, hdel, List.filter_cons]
      simpa [hdel] using ih done

theorem hdel_hset_same (h : Hdrs) (name v : Bytes) : hdel (hset h name v) (asciiLower name) = hdel h (asciiLower name) := by
  unfold hset
  split
  · exact hdel_hsetGo_same _ v h false
  · unfold hdel
    simp [List.filter_append, nameIs]

theorem hsetGo_id (k v : Bytes) : ∀ (h : Hdrs),
    (fieldsOf h k = [v] → hsetGo k v h false = h) ∧ (fieldsOf h k = [] → hsetGo k v h true = h) := by
  intro h
  induction h with
  | nil => simp [hsetGo]
  | cons f rest ih =>
    by_cases c : nameIs k f = true
    · constructor
      · intro e
        rw [fieldsOf_cons] at e; simp [c] at e
        obtain ⟨e1, e2⟩ := e
        subst e1
        simp [hsetGo, c, ih.2 e2]
      · intro e
        rw [fieldsOf_cons] at e; simp [c] at e
    · constructor
      · intro e
        rw [fieldsOf_cons] at e; simp [c] at e
        simp [hsetGo, c, ih.1 e]
      · intro e
        rw [fieldsOf_cons] at e; simp [c] at e
        simp [hsetGo, c, ih.2 e]

theorem hset_id {h : Hdrs} {name v : Bytes} (e : fieldsOf h (asciiLower name) = [v]) : hset h name v = h := by
  unfold hset
  have : hcontains h (asciiLower name) = true := by unfold hcontains; rw [e]; rfl
  simp [this, (hsetGo_id _ v h).1 e]

/-! ### "same header fields apart from Content-Length" -/

/-- `h'` differs from `h` at most in its Content-Length fields -/
def SameButCL (h h' : Hdrs) : Prop := dropCL h' = dropCL h ∧ ∀ k, k ≠ kCL → fieldsOf h' k = fieldsOf h k

theorem SameButCL.refl (h : Hdrs) : SameButCL h h := ⟨rfl, fun _ _ => rfl⟩

theorem SameButCL.trans {a b c : Hdrs} (x : SameButCL a b) (y : SameButCL b c) : SameButCL a c :=
  ⟨y.1.trans x.1, fun k hk => (y.2 k hk).trans (x.2 k hk)⟩

theorem lower_kCL : asciiLower kCL = kCL := by decide +kernel

theorem sameButCL_hset (h : Hdrs) (v : Bytes) : SameButCL h (hset h kCL v) := by
  constructor
  · have := hdel_hset_same h kCL v
    rw [lower_kCL] at this; exact this
  · intro k hk
    apply fieldsOf_hset_ne
    rw [lower_kCL]; exact hk

theorem kCE_ne_kCL : kCE ≠ kCL := by decide +kernel
theorem kCT_ne_kCL : kCT ≠ kCL := by decide +kernel
theorem kTE_ne_kCL : kTE ≠ kCL := by decide +kernel
theorem kHost_ne_kCL : kHost ≠ kCL := by decide +kernel

/-! ### messages without Content-Encoding -/

theorem getContentStrict_noCE (lib : Lib) {m : Msg} (h : hcontains m.hdrs kCE = false) :
    getContentStrict lib m = some m.body := by
  unfold getContentStrict; rw [hget_of_not_contains lib h]

theorem getContent_noCE (lib : Lib) {m : Msg} (h : hcontains m.hdrs kCE = false) : getContent lib m = m.body := by
  unfold getContent; rw [getContentStrict_noCE lib h]; rfl

theorem setContent_noCE (lib : Lib) {m : Msg} (h : hcontains m.hdrs kCE = false) (v : Bytes) :
    setContent lib m v =
      { m with hdrs := if hcontains m.hdrs kTE then m.hdrs else hset m.hdrs kCL (natDec v.length), body := v } := by
  unfold setContent; rw [hget_of_not_contains lib h]

theorem setContent_noCE_props (lib : Lib) {m : Msg} (h : hcontains m.hdrs kCE = false) (v : Bytes) :
    (setContent lib m v).ver = m.ver ∧ (setContent lib m v).body = v ∧ SameButCL m.hdrs (setContent lib m v).hdrs := by
  rw [setContent_noCE lib h]
  refine ⟨rfl, rfl, ?_⟩
  by_cases c : hcontains m.hdrs kTE = true
  · simp [c, SameButCL.refl]
  · simp [c]; exact sameButCL_hset _ _

theorem noCE_of_sameButCL {h h' : Hdrs} (s : SameButCL h h') (c : hcontains h kCE = false) : hcontains h' kCE = false := by
  rw [hcontains_congr (s.2 kCE kCE_ne_kCL)]; exact c

/-- `decode()` on a message without Content-Encoding: succeeds, keeps version and body, touches only Content-Length -/
theorem decodeMsg_noCE (lib : Lib) {m : Msg} (strict : Bool) (h : hcontains m.hdrs kCE = false) :
    ∃ m', decodeMsg lib m strict = some m' ∧ m'.ver = m.ver ∧ m'.body = m.body ∧ SameButCL m.hdrs m'.hdrs := by
  unfold decodeMsg
  by_cases e : m.body = []
  · simp [e, SameButCL.refl]
  · have hd : hdel m.hdrs kCE = m.hdrs := hdel_of_not_contains h
    have hc : (if strict = true then getContentStrict lib m else some (getContent lib m)) = some m.body := by
      cases strict <;> simp [getContentStrict_noCE lib h, getContent_noCE lib h]
    simp only [e, if_false, hc, hd]
    have p := setContent_noCE_props lib (m := { m with hdrs := m.hdrs }) h m.body
    exact ⟨_, rfl, p.1, p.2.1, p.2.2⟩

/-- with a Content-Length that is already right (or Transfer-Encoding, or no body) `decode()` changes nothing -/
theorem decodeMsg_noCE_clOk (lib : Lib) {m : Msg} (strict : Bool) (h : hcontains m.hdrs kCE = false)
    (cl : m.body = [] ∨ hcontains m.hdrs kTE = true ∨ fieldsOf m.hdrs kCL = [natDec m.body.length]) :
    decodeMsg lib m strict = some m := by
  unfold decodeMsg
  by_cases e : m.body = []
  · simp [e]
  · have hd : hdel m.hdrs kCE = m.hdrs := hdel_of_not_contains h
    have hc : (if strict = true then getContentStrict lib m else some (getContent lib m)) = some m.body := by
      cases strict <;> simp [getContentStrict_noCE lib h, getContent_noCE lib h]
    simp only [e, if_false, hc, hd]
    rw [setContent_noCE lib (m := { m with hdrs := m.hdrs }) h]
    rcases cl with c | c | c
    · exact absurd c e
    · simp [c]
    · have : hset m.hdrs kCL (natDec m.body.length) = m.hdrs := hset_id (by rw [lower_kCL]; exact c)
      by_cases t : hcontains m.hdrs kTE = true <;> simp [t, this]

end MitmVerif.C41
