/-
  C42 — lemmas about the parser model on rendered concrete syntax.
-/
import MitmVerif.Model.C42_Spec
namespace MitmVerif.C42

/-! ### what may follow a token -/

/-- end of input, white space or `)` -/
def Delim : Str → Prop
  | [] => True
  | c :: _ => isWs c = true ∨ c = ')'

/-- end of input, white space, `)`, `&` or `|` -/
def OpDelim : Str → Prop
  | [] => True
  | c :: _ => isWs c = true ∨ c = ')' ∨ c = '&' ∨ c = '|'

/-- what may follow an expression that ends in an unquoted word (`b`) or not -/
def Fol (b : Bool) (rest : Str) : Prop := OpDelim rest ∧ (b = true → Delim rest)

/-- the first character that is not white space is not `c` -/
def NoOp (c : Char) (rest : Str) : Prop := lit c rest = none

/-- only white space, or white space and `)`, follows -/
def Closed (rest : Str) : Prop := skipWs rest = [] ∨ ∃ r, skipWs rest = ')' :: r

/-! ### white space -/

theorem skipWs_ws {w : Str} (hw : AllWs w) (s : Str) : skipWs (w ++ s) = skipWs s := by
  induction w with
  | nil => rfl
  | cons c w ih =>
    have h1 : isWs c = true := hw.1
    simp [skipWs, h1, ih hw.2]

theorem skipWs_cons {c : Char} (h : isWs c = false) (s : Str) : skipWs (c :: s) = c :: s := by
  simp [skipWs, h]

theorem lit_ws {w : Str} (hw : AllWs w) (c : Char) (s : Str) : lit c (w ++ s) = lit c s := by
  simp [lit, skipWs_ws hw]

theorem lit_hit {c : Char} (h : isWs c = false) (s : Str) : lit c (c :: s) = some s := by
  simp [lit, skipWs_cons h]

theorem lit_miss {c d : Char} (h : isWs d = false) (hne : d ≠ c) (s : Str) : lit c (d :: s) = none := by
  simp [lit, skipWs_cons h, hne]

theorem allWs_append {a b : Str} (ha : AllWs a) (hb : AllWs b) : AllWs (a ++ b) := by
  induction a with
  | nil => exact hb
  | cons c a ih => exact ⟨ha.1, ih ha.2⟩

theorem skipWs_allWs {w : Str} (hw : AllWs w) : skipWs w = [] := by
  have := skipWs_ws hw []
  simpa [skipWs] using this

/-! ### maximal runs -/

/-- the run stops here: end of input or a character outside the class -/
def StopAt (p : Char → Bool) : Str → Prop
  | [] => True
  | c :: _ => p c = false

theorem takeW_append (p : Char → Bool) (a rest : Str) (ha : ∀ c ∈ a, p c = true) (hr : StopAt p rest) :
    takeW p (a ++ rest) = (a, rest) := by
  induction a with
  | nil =>
    cases rest with
    | nil => rfl
    | cons c r => simp [takeW, show p c = false from hr]
  | cons c a ih =>
    have hc : p c = true := ha c (by simp)
    have := ih (fun d hd => ha d (by simp [hd]))
    simp [takeW, hc, this]

theorem allWordCh_forall {a : Str} (h : AllWordCh a) : ∀ c ∈ a, isWordCh c = true := by
  induction a with
  | nil => intro c hc; cases hc
  | cons d a ih =>
    intro c hc
    cases hc with
    | head => exact h.1
    | tail _ hm => exact ih h.2 c hm

theorem allDigit_forall {a : Str} (h : AllDigit a) : ∀ c ∈ a, isDigit c = true := by
  induction a with
  | nil => intro c hc; cases hc
  | cons d a ih =>
    intro c hc
    cases hc with
    | head => exact h.1
    | tail _ hm => exact ih h.2 c hm

/-! ### character facts -/

theorem ws_not_wordCh {c : Char} (h : isWs c = true) : isWordCh c = false := by
  simp [isWordCh, h]

theorem wordCh_not_ws {c : Char} (h : isWordCh c = true) : isWs c = false := by
  cases hw : isWs c with
  | false => rfl
  | true => simp [isWordCh, hw] at h

theorem ws_cases {c : Char} (h : isWs c = true) : c = ' ' ∨ c = '\n' ∨ c = '\t' ∨ c = '\r' := by
  have : ((c = ' ' ∨ c = '\n') ∨ c = '\t') ∨ c = '\r' := by simpa [isWs] using h
  rcases this with ((h | h) | h) | h <;> simp [h]

theorem ws_not_alnum {c : Char} (h : isWs c = true) : isAlnum c = false := by
  rcases ws_cases h with rfl | rfl | rfl | rfl <;> decide

theorem ws_not_digit {c : Char} (h : isWs c = true) : isDigit c = false := by
  rcases ws_cases h with rfl | rfl | rfl | rfl <;> decide

theorem digit_alnum {c : Char} (h : isDigit c = true) : isAlnum c = true := by
  simp [isAlnum, h]

theorem delim_stop_word {rest : Str} (h : Delim rest) : StopAt isWordCh rest := by
  cases rest with
  | nil => trivial
  | cons c r =>
    rcases h with h | rfl
    · exact ws_not_wordCh h
    · exact (by decide : isWordCh ')' = false)

theorem opDelim_wordEnd {rest : Str} (h : OpDelim rest) : wordEnd rest = true := by
  cases rest with
  | nil => rfl
  | cons c r =>
    rcases h with h | rfl | rfl | rfl
    · simp [wordEnd, ws_not_alnum h]
    · exact (by decide : wordEnd [')'] = true)
    · exact (by decide : wordEnd ['&'] = true)
    · exact (by decide : wordEnd ['|'] = true)

theorem opDelim_stop_digit {rest : Str} (h : OpDelim rest) : StopAt isDigit rest := by
  cases rest with
  | nil => trivial
  | cons c r =>
    rcases h with h | rfl | rfl | rfl
    · exact ws_not_digit h
    · exact (by decide : isDigit ')' = false)
    · exact (by decide : isDigit '&' = false)
    · exact (by decide : isDigit '|' = false)

/-! ### operator codes -/

def AllAlnum : Str → Prop
  | [] => True
  | c :: s => isAlnum c = true ∧ AllAlnum s

instance : (s : Str) → Decidable (AllAlnum s)
  | [] => isTrue trivial
  | c :: s =>
    match (inferInstance : Decidable (isAlnum c = true)), instDecidableAllAlnum s with
    | isTrue h1, isTrue h2 => isTrue ⟨h1, h2⟩
    | isFalse h1, _ => isFalse (fun h => h1 h.1)
    | _, isFalse h2 => isFalse (fun h => h2 h.2)

/-- `~code` + WordEnd against the text `code' ++ rest` where `rest` starts with a non-alphanumeric character:
only the code itself matches -/
theorem stripCode (c' c rest : Str) (h' : AllAlnum c') (h : AllAlnum c) (hr : wordEnd rest = true) :
    wordEndO (stripPrefix c' (c ++ rest)) = if c' = c then some rest else none := by
  induction c' generalizing c with
  | nil =>
    cases c with
    | nil => simp [stripPrefix, wordEndO, hr]
    | cons x c => simp [stripPrefix, wordEndO, wordEnd, h.1]
  | cons y c' ih =>
    cases c with
    | nil =>
      cases rest with
      | nil => simp [stripPrefix, wordEndO]
      | cons r rest =>
        have hr' : isAlnum r = false := by simpa [wordEnd] using hr
        have hy : isAlnum y = true := h'.1
        have : y ≠ r := by intro e; rw [e] at hy; rw [hy] at hr'; cases hr'
        simp [stripPrefix, wordEndO, this]
    | cons x c =>
      by_cases hxy : y = x
      · subst hxy
        have := ih c h'.2 h.2
        simp only [List.cons_append, stripPrefix, if_true]
        rw [this]
        by_cases hc : c' = c <;> simp [hc]
      · simp [stripPrefix, wordEndO, hxy]

theorem tryCode_code (c' c rest : Str) (h' : AllAlnum c') (h : AllAlnum c) (hr : wordEnd rest = true) :
    tryCode c' ('~' :: (c ++ rest)) = if c' = c then some rest else none := by
  have := stripCode c' c rest h' h hr
  simpa [tryCode, stripPrefix] using this

theorem tryCode_not_tilde (c' : Str) {d : Char} (hd : d ≠ '~') (s : Str) : tryCode c' (d :: s) = none := by
  have : ¬ ('~' = d) := fun e => hd e.symm
  simp [tryCode, stripPrefix, wordEndO, this]

theorem tryCode_nil (c' : Str) : tryCode c' [] = none := by
  simp [tryCode, stripPrefix, wordEndO]

theorem firstSome_none {α β : Type} (f : α → Option β) (l : List α) (h : ∀ a ∈ l, f a = none) :
    firstSome f l = none := by
  induction l with
  | nil => rfl
  | cons a l ih =>
    simp [firstSome, h a (by simp), ih (fun b hb => h b (by simp [hb]))]

theorem firstSome_hit {α β : Type} (f : α → Option β) (l : List α) (b : β)
    (h : ∀ a ∈ l, f a = none ∨ f a = some b) (hex : ∃ a ∈ l, f a = some b) : firstSome f l = some b := by
  induction l with
  | nil => rcases hex with ⟨a, ha, _⟩; cases ha
  | cons a l ih =>
    rcases h a (by simp) with h0 | h1
    · have : ∃ a' ∈ l, f a' = some b := by
        rcases hex with ⟨a', ha', hf⟩
        cases ha' with
        | head => rw [h0] at hf; cases hf
        | tail _ hm => exact ⟨a', hm, hf⟩
      simp [firstSome, h0, ih (fun x hx => h x (by simp [hx])) this]
    · simp [firstSome, h1]

/-- facts about the generated tables (checked by evaluation whenever the tables change) -/
theorem codes_alnum : ∀ c ∈ Gen.unaryCodes ++ Gen.rexCodes ++ Gen.intCodes, AllAlnum c := by decide +kernel
theorem rex_not_unary : ∀ c ∈ Gen.rexCodes, ∀ c' ∈ Gen.unaryCodes, c' ≠ c := by decide +kernel
theorem int_not_unary : ∀ c ∈ Gen.intCodes, ∀ c' ∈ Gen.unaryCodes, c' ≠ c := by decide +kernel
theorem int_not_rex : ∀ c ∈ Gen.intCodes, ∀ c' ∈ Gen.rexCodes, c' ≠ c := by decide +kernel

theorem unary_alnum {c : Str} (h : c ∈ Gen.unaryCodes) : AllAlnum c := codes_alnum c (by simp [h])
theorem rex_alnum {c : Str} (h : c ∈ Gen.rexCodes) : AllAlnum c := codes_alnum c (by simp [h])
theorem int_alnum {c : Str} (h : c ∈ Gen.intCodes) : AllAlnum c := codes_alnum c (by simp [h])

/-! ### arguments -/

theorem pQuoted_items (q : Char) (hq : q ≠ '\\') (items : List QItem) (rest : Str) (h : ItemsWF q items) :
    pQuoted q (renderItems items ++ q :: rest) = some (renderItems items, rest) := by
  induction items with
  | nil => rw [pQuoted.eq_def]; simp [renderItems]
  | cons i items ih =>
    have ih' := ih h.2
    cases i with
    | raw c =>
      obtain ⟨h1, h2, h3, h4⟩ : c ≠ q ∧ c ≠ '\\' ∧ c ≠ '\n' ∧ c ≠ '\r' := h.1
      simp only [renderItems, QItem.render, List.cons_append, List.nil_append]
      rw [pQuoted.eq_def]; simp [h1, h2, h3, h4, ih']
    | esc c =>
      have hb : ¬ ('\\' = q) := fun e => hq e.symm
      have hn : c ≠ '\n' := by
        rcases h.1 with (rfl | rfl | rfl | rfl) | ⟨_, h⟩
        · decide
        · decide
        · decide
        · decide
        · exact h
      simp only [renderItems, QItem.render, List.cons_append, List.nil_append]
      rw [pQuoted.eq_def]; simp [hb, hn, ih']

theorem escItem_plain {c : Char} (q : Char) (h : (QItem.esc c).WF q) : c ≠ 'x' ∧ c ≠ 'u' ∧ c ≠ '0' := by
  rcases h with (rfl | rfl | rfl | rfl) | ⟨h, _⟩
  · decide
  · decide
  · decide
  · decide
  · refine ⟨?_, ?_, ?_⟩ <;> (intro e; subst e; revert h; decide)

theorem unqF_items (q : Char) (items : List QItem) (h : ItemsWF q items) :
    ∀ n, (renderItems items).length ≤ n → unqF n (renderItems items) = valueItems items := by
  induction items with
  | nil => intro n _; cases n <;> (rw [unqF.eq_def]; simp [renderItems, valueItems])
  | cons i items ih =>
    intro n hn
    cases i with
    | raw c =>
      have h2 : c ≠ '\\' := h.1.2.1
      cases n with
      | zero => simp [renderItems, QItem.render] at hn
      | succ n =>
        have hn' : (renderItems items).length ≤ n := by
          simp [renderItems, QItem.render] at hn; omega
        simp only [renderItems, QItem.render, List.cons_append, List.nil_append]
        rw [unqF.eq_def]; simp [h2, valueItems, QItem.value, ih h.2 n hn']
    | esc c =>
      obtain ⟨hx, hu, h0⟩ := escItem_plain q h.1
      cases n with
      | zero => simp [renderItems, QItem.render] at hn
      | succ n =>
        have hn' : (renderItems items).length ≤ n := by
          simp [renderItems, QItem.render] at hn; omega
        simp only [renderItems, QItem.render, List.cons_append, List.nil_append]
        rw [unqF.eq_def]; simp [hx, hu, h0, valueItems, QItem.value, ih h.2 n hn']

theorem quote_facts {q : Char} (h : q = '"' ∨ q = '\'') :
    q ≠ '\\' ∧ isWs q = false ∧ isWordCh q = false ∧ q ≠ '~' ∧ q ≠ '!' ∧ q ≠ '&' ∧ q ≠ '|' := by
  rcases h with rfl | rfl <;> decide

theorem wordCh_not_tilde {c : Char} (h : isWordCh c = true) : c ≠ '~' := by
  intro e; subst e; revert h; decide

theorem wordCh_not_quote {c : Char} (h : isWordCh c = true) : c ≠ '"' ∧ c ≠ '\'' ∧ c ≠ '(' ∧ c ≠ ')' := by
  refine ⟨?_, ?_, ?_, ?_⟩ <;> (intro e; subst e; revert h; decide)

theorem pRegex_arg (a : Arg) (w rest : Str) (ha : a.WF) (hw : AllWs w) (hr : a.isWord = true → Delim rest) :
    pRegex (w ++ (a.render ++ rest)) = some (a.value, rest) := by
  unfold pRegex
  rw [skipWs_ws hw]
  cases a with
  | word a =>
    obtain ⟨hne, hall⟩ : a ≠ [] ∧ AllWordCh a := ha
    cases a with
    | nil => exact absurd rfl hne
    | cons c a' =>
      have hc : isWordCh c = true := hall.1
      have := takeW_append isWordCh (c :: a') rest (allWordCh_forall hall) (delim_stop_word (hr rfl))
      simp only [Arg.render, List.cons_append] at this ⊢
      rw [skipWs_cons (wordCh_not_ws hc)]
      simp [hc, this, Arg.value]
  | quoted q items =>
    obtain ⟨hq, hit⟩ : (q = '"' ∨ q = '\'') ∧ ItemsWF q items := ha
    obtain ⟨h1, h2, h3, _⟩ := quote_facts hq
    have e : Arg.render (.quoted q items) ++ rest = q :: (renderItems items ++ q :: rest) := by
      simp [Arg.render]
    rw [e, skipWs_cons h2]
    have hq' : q = '"' ∨ q = '\'' := hq
    simp [h3, hq', pQuoted_items q h1 items rest hit, Arg.value, unq, unqF_items q items hit _ (Nat.le_refl _)]

theorem digit_not_ws {c : Char} (h : isDigit c = true) : isWs c = false := by
  cases hw : isWs c with
  | false => rfl
  | true => rw [ws_not_digit hw] at h; cases h

theorem pInt_digits (d w rest : Str) (hne : d ≠ []) (hd : AllDigit d) (hw : AllWs w) (hr : StopAt isDigit rest) :
    pInt (w ++ (d ++ rest)) = some (digitsVal d, rest) := by
  unfold pInt
  rw [skipWs_ws hw]
  cases d with
  | nil => exact absurd rfl hne
  | cons c d' =>
    have hc : isDigit c = true := hd.1
    have := takeW_append isDigit (c :: d') rest (allDigit_forall hd) hr
    simp only [List.cons_append] at this ⊢
    rw [skipWs_cons (digit_not_ws hc), this]

/-! ### leaves -/

theorem ws_head_wordEnd {w : Str} (hne : w ≠ []) (hw : AllWs w) (s : Str) : wordEnd (w ++ s) = true := by
  cases w with
  | nil => exact absurd rfl hne
  | cons c w => simp [wordEnd, ws_not_alnum hw.1]

theorem tilde_not_ws : isWs '~' = false := by decide

/-- the first character of a rendered leaf: not white space, never `&` or `|`, and `!` never -/
theorem atom_head (a : AtomC) (ha : a.WF) (rest : Str) :
    ∃ c r, a.render ++ rest = c :: r ∧ isWs c = false ∧ c ≠ '&' ∧ c ≠ '|' ∧ c ≠ '!' ∧ c ≠ '(' ∧ c ≠ ')' := by
  have tilde : isWs '~' = false ∧ '~' ≠ '&' ∧ '~' ≠ '|' ∧ '~' ≠ '!' ∧ '~' ≠ '(' ∧ '~' ≠ ')' := by decide
  cases a with
  | unary c => exact ⟨'~', c ++ rest, by simp [AtomC.render], tilde⟩
  | rex c w a => exact ⟨'~', c ++ (w ++ (a.render ++ rest)), by simp [AtomC.render], tilde⟩
  | int c w d => exact ⟨'~', c ++ (w ++ (d ++ rest)), by simp [AtomC.render], tilde⟩
  | bare a =>
    cases a with
    | word a =>
      obtain ⟨⟨hne, hall⟩, hop⟩ : (a ≠ [] ∧ AllWordCh a) ∧ (true = true → notOpStart a) := ha
      cases a with
      | nil => exact absurd rfl hne
      | cons c a' =>
        obtain ⟨h1, h2, h3⟩ : c ≠ '!' ∧ c ≠ '&' ∧ c ≠ '|' := hop rfl
        obtain ⟨_, _, h4, h5⟩ := wordCh_not_quote hall.1
        exact ⟨c, a' ++ rest, by simp [AtomC.render, Arg.render], wordCh_not_ws hall.1, h2, h3, h1, h4, h5⟩
    | quoted q items =>
      obtain ⟨⟨hq, _⟩, _⟩ := ha
      obtain ⟨_, h2, _, _, h5, h6, h7⟩ := quote_facts hq
      have h8 : q ≠ '(' ∧ q ≠ ')' := by rcases hq with rfl | rfl <;> decide
      exact ⟨q, renderItems items ++ q :: rest, by simp [AtomC.render, Arg.render], h2, h6, h7, h5, h8.1, h8.2⟩

theorem pAtom_atom (a : AtomC) (w rest : Str) (ha : a.WF) (hw : AllWs w) (hf : Fol a.endsWord rest) :
    pAtom (w ++ (a.render ++ rest)) = some (a.ast, rest) := by
  unfold pAtom
  simp only []
  rw [skipWs_ws hw]
  cases a with
  | unary c =>
    have hc : c ∈ Gen.unaryCodes := ha
    have e : skipWs (AtomC.render (.unary c) ++ rest) = '~' :: (c ++ rest) := by
      simp [AtomC.render, skipWs_cons tilde_not_ws]
    rw [e]
    have key : ∀ c' ∈ Gen.unaryCodes, tryUnary ('~' :: (c ++ rest)) c' = none ∨
        tryUnary ('~' :: (c ++ rest)) c' = some (Ast.unary c, rest) := by
      intro c' hc'
      unfold tryUnary
      rw [tryCode_code c' c rest (unary_alnum hc') (unary_alnum hc) (opDelim_wordEnd hf.1)]
      by_cases h : c' = c <;> simp [h]
    have ex : ∃ c' ∈ Gen.unaryCodes, tryUnary ('~' :: (c ++ rest)) c' = some (Ast.unary c, rest) := by
      refine ⟨c, hc, ?_⟩
      unfold tryUnary
      rw [tryCode_code c c rest (unary_alnum hc) (unary_alnum hc) (opDelim_wordEnd hf.1)]
      simp
    rw [firstSome_hit _ _ _ key ex]
    rfl
  | rex c w' a =>
    obtain ⟨hc, hne, hw', haw⟩ : c ∈ Gen.rexCodes ∧ w' ≠ [] ∧ AllWs w' ∧ a.WF := ha
    have e : skipWs (AtomC.render (.rex c w' a) ++ rest) = '~' :: (c ++ (w' ++ (a.render ++ rest))) := by
      simp [AtomC.render, skipWs_cons tilde_not_ws]
    rw [e]
    have we := ws_head_wordEnd hne hw' (a.render ++ rest)
    have u : firstSome (tryUnary ('~' :: (c ++ (w' ++ (a.render ++ rest))))) Gen.unaryCodes = none := by
      apply firstSome_none
      intro c' hc'
      unfold tryUnary
      rw [tryCode_code c' c _ (unary_alnum hc') (rex_alnum hc) we]
      simp [rex_not_unary c hc c' hc']
    have hr : a.isWord = true → Delim rest := fun h => hf.2 (by simpa [AtomC.endsWord] using h)
    have pr := pRegex_arg a w' rest haw hw' hr
    have key : ∀ c' ∈ Gen.rexCodes, tryRex ('~' :: (c ++ (w' ++ (a.render ++ rest)))) c' = none ∨
        tryRex ('~' :: (c ++ (w' ++ (a.render ++ rest)))) c' = some (Ast.rex c a.value, rest) := by
      intro c' hc'
      unfold tryRex
      rw [tryCode_code c' c _ (rex_alnum hc') (rex_alnum hc) we]
      by_cases h : c' = c <;> simp [h, pr]
    have ex : ∃ c' ∈ Gen.rexCodes, tryRex ('~' :: (c ++ (w' ++ (a.render ++ rest)))) c' = some (Ast.rex c a.value, rest) := by
      refine ⟨c, hc, ?_⟩
      unfold tryRex
      rw [tryCode_code c c _ (rex_alnum hc) (rex_alnum hc) we]
      simp [pr]
    rw [u, firstSome_hit _ _ _ key ex]
    rfl
  | int c w' d =>
    obtain ⟨hc, hne, hw', hdne, hd⟩ : c ∈ Gen.intCodes ∧ w' ≠ [] ∧ AllWs w' ∧ d ≠ [] ∧ AllDigit d := ha
    have e : skipWs (AtomC.render (.int c w' d) ++ rest) = '~' :: (c ++ (w' ++ (d ++ rest))) := by
      simp [AtomC.render, skipWs_cons tilde_not_ws]
    rw [e]
    have we := ws_head_wordEnd hne hw' (d ++ rest)
    have u : firstSome (tryUnary ('~' :: (c ++ (w' ++ (d ++ rest))))) Gen.unaryCodes = none := by
      apply firstSome_none
      intro c' hc'
      unfold tryUnary
      rw [tryCode_code c' c _ (unary_alnum hc') (int_alnum hc) we]
      simp [int_not_unary c hc c' hc']
    have r : firstSome (tryRex ('~' :: (c ++ (w' ++ (d ++ rest))))) Gen.rexCodes = none := by
      apply firstSome_none
      intro c' hc'
      unfold tryRex
      rw [tryCode_code c' c _ (rex_alnum hc') (int_alnum hc) we]
      simp [int_not_rex c hc c' hc']
    have pr := pInt_digits d w' rest hdne hd hw' (opDelim_stop_digit hf.1)
    have key : ∀ c' ∈ Gen.intCodes, tryInt ('~' :: (c ++ (w' ++ (d ++ rest)))) c' = none ∨
        tryInt ('~' :: (c ++ (w' ++ (d ++ rest)))) c' = some (Ast.int c (digitsVal d), rest) := by
      intro c' hc'
      unfold tryInt
      rw [tryCode_code c' c _ (int_alnum hc') (int_alnum hc) we]
      by_cases h : c' = c <;> simp [h, pr]
    have ex : ∃ c' ∈ Gen.intCodes, tryInt ('~' :: (c ++ (w' ++ (d ++ rest)))) c' = some (Ast.int c (digitsVal d), rest) := by
      refine ⟨c, hc, ?_⟩
      unfold tryInt
      rw [tryCode_code c c _ (int_alnum hc) (int_alnum hc) we]
      simp [pr]
    rw [u, r, firstSome_hit _ _ _ key ex]
    rfl
  | bare a =>
    have haw : a.WF := ha.1
    obtain ⟨c0, r0, e0, hws, _, _, _, _, _⟩ := atom_head (.bare a) ha rest
    have hnt : c0 ≠ '~' := by
      cases a with
      | word a =>
        cases a with
        | nil => exact absurd rfl haw.1
        | cons c a' =>
          simp [AtomC.render, Arg.render] at e0
          rw [← e0.1]; exact wordCh_not_tilde haw.2.1
      | quoted q items =>
        simp [AtomC.render, Arg.render] at e0
        rw [← e0.1]; exact (quote_facts haw.1).2.2.2.1
    rw [e0, skipWs_cons hws]
    have u : firstSome (tryUnary (c0 :: r0)) Gen.unaryCodes = none :=
      firstSome_none _ _ (fun c' _ => by simp [tryUnary, tryCode_not_tilde c' hnt])
    have r : firstSome (tryRex (c0 :: r0)) Gen.rexCodes = none :=
      firstSome_none _ _ (fun c' _ => by simp [tryRex, tryCode_not_tilde c' hnt])
    have i : firstSome (tryInt (c0 :: r0)) Gen.intCodes = none :=
      firstSome_none _ _ (fun c' _ => by simp [tryInt, tryCode_not_tilde c' hnt])
    have hr : a.isWord = true → Delim rest := fun h => hf.2 (by simpa [AtomC.endsWord] using h)
    have pr := pRegex_arg a [] rest haw trivial hr
    simp only [List.nil_append] at pr
    have e1 : AtomC.render (.bare a) = a.render := rfl
    rw [e1] at e0
    rw [u, r, i, ← e0, pr]
    rfl

/-! ### operands and operators -/

theorem skipWs_idem (s : Str) : skipWs (skipWs s) = skipWs s := by
  induction s with
  | nil => rfl
  | cons c s ih =>
    cases h : isWs c with
    | true => simp [skipWs, h, ih]
    | false => simp [skipWs, h]

theorem pAtom_skip (s : Str) : pAtom (skipWs s) = pAtom s := by
  simp [pAtom, skipWs_idem]

theorem lit_skip (c : Char) (s : Str) : lit c (skipWs s) = lit c s := by
  simp [lit, skipWs_idem]

theorem pAtom_none_nil : pAtom [] = none := by
  have u : firstSome (tryUnary []) Gen.unaryCodes = none :=
    firstSome_none _ _ (fun c' _ => by simp [tryUnary, tryCode_nil])
  have r : firstSome (tryRex []) Gen.rexCodes = none :=
    firstSome_none _ _ (fun c' _ => by simp [tryRex, tryCode_nil])
  have i : firstSome (tryInt []) Gen.intCodes = none :=
    firstSome_none _ _ (fun c' _ => by simp [tryInt, tryCode_nil])
  simp [pAtom, skipWs, u, r, i, pRegex]

theorem pAtom_none_cons {c : Char} (r0 : Str) (hws : isWs c = false) (h1 : c ≠ '~') (h2 : isWordCh c = false)
    (h3 : c ≠ '"') (h4 : c ≠ '\'') : pAtom (c :: r0) = none := by
  have u : firstSome (tryUnary (c :: r0)) Gen.unaryCodes = none :=
    firstSome_none _ _ (fun c' _ => by simp [tryUnary, tryCode_not_tilde c' h1])
  have r : firstSome (tryRex (c :: r0)) Gen.rexCodes = none :=
    firstSome_none _ _ (fun c' _ => by simp [tryRex, tryCode_not_tilde c' h1])
  have i : firstSome (tryInt (c :: r0)) Gen.intCodes = none :=
    firstSome_none _ _ (fun c' _ => by simp [tryInt, tryCode_not_tilde c' h1])
  simp [pAtom, skipWs_cons hws, u, r, i, pRegex, h2, h3, h4]

theorem pL0_skip (g : P) (s : Str) : pL0 g (skipWs s) = pL0 g s := by
  simp [pL0, pAtom_skip, lit_skip]

theorem pL0_ws (g : P) {w : Str} (hw : AllWs w) (s : Str) : pL0 g (w ++ s) = pL0 g s := by
  rw [← pL0_skip g (w ++ s), skipWs_ws hw, pL0_skip]

theorem pL1_skip (g : P) (s : Str) : pL1 g (skipWs s) = pL1 g s := by
  induction s with
  | nil => rfl
  | cons c s ih =>
    cases h : isWs c with
    | true => simp [skipWs, h, pL1, ih]
    | false => simp [skipWs, h]

theorem pL1_ws (g : P) {w : Str} (hw : AllWs w) (s : Str) : pL1 g (w ++ s) = pL1 g s := by
  rw [← pL1_skip g (w ++ s), skipWs_ws hw, pL1_skip]

theorem pL1_operand (g : P) {c : Char} (r : Str) (hws : isWs c = false) (hne : c ≠ '!') :
    pL1 g (c :: r) = pL0 g (c :: r) := by
  simp [pL1, hws, hne]

theorem pL1_bang (g : P) (s : Str) (t : Ast) (r : Str) (h : pL1 g s = some (t, r)) :
    pL1 g ('!' :: s) = some (Ast.not t, r) := by
  have : isWs '!' = false := by decide
  simp [pL1, this, h]

theorem pL0_none_nil (g : P) : pL0 g [] = none := by
  simp [pL0, pAtom_none_nil, lit, skipWs]

theorem pL0_none_close (g : P) (r : Str) : pL0 g (')' :: r) = none := by
  have h : pAtom (')' :: r) = none :=
    pAtom_none_cons r (by decide) (by decide) (by decide) (by decide) (by decide)
  have l : lit '(' (')' :: r) = none := lit_miss (by decide) (by decide) r
  simp [pL0, h, l]

theorem pL1_none_closed (g : P) (rest : Str) (h : Closed rest) : pL1 g rest = none := by
  rw [← pL1_skip]
  rcases h with h | ⟨r, h⟩
  · rw [h]; simp [pL1, pL0_none_nil]
  · rw [h, pL1_operand g r (by decide) (by decide), pL0_none_close]

theorem chainP_none (mk : List Ast → Ast) (op : Option Char) (item : P) (s : Str) (h : item s = none) :
    chainP mk op item s = none := by
  simp [chainP, h]

theorem pL3_none_closed (g : P) (rest : Str) (h : Closed rest) : pL3 g rest = none :=
  chainP_none _ _ _ _ (chainP_none _ _ _ _ (pL1_none_closed g rest h))

theorem closed_noOp {rest : Str} (h : Closed rest) (c : Char) (hc : c ≠ ')') : NoOp c rest := by
  unfold NoOp lit
  rcases h with h | ⟨r, h⟩
  · rw [h]
  · rw [h]; simp [Ne.symm hc]

/-- the repetition stops at once -/
def Stops (op : Option Char) (item : P) (rest : Str) : Prop :=
  litOpt op rest = none ∨ ∃ s1, litOpt op rest = some s1 ∧ item s1 = none

theorem loopP_stop (op : Option Char) (item : P) (rest : Str) (h : Stops op item rest) :
    ∀ n, loopP op item n rest = ([], rest) := by
  intro n
  cases n with
  | zero => rfl
  | succ n =>
    rcases h with h | ⟨s1, h1, h2⟩
    · simp [loopP, h]
    · simp [loopP, h1, h2]

theorem chainP_single (mk : List Ast → Ast) (op : Option Char) (item : P) (s : Str) (t : Ast) (rest : Str)
    (h : item s = some (t, rest)) (hs : Stops op item rest) : chainP mk op item s = some (t, rest) := by
  simp [chainP, h, loopP_stop op item rest hs]

def parseAt : Nat → Nat → P
  | 0, n => pL0 (pExpr n)
  | 1, n => pL1 (pExpr n)
  | 2, n => pL2 (pExpr n)
  | 3, n => pL3 (pExpr n)
  | _, n => pBody (pExpr n)

/-- what must follow an expression parsed at level `k` for the parser to stop exactly there -/
def Cond (k : Nat) (b : Bool) (rest : Str) : Prop :=
  Fol b rest ∧ (2 ≤ k → NoOp '&' rest) ∧ (3 ≤ k → NoOp '|' rest) ∧ (4 ≤ k → Closed rest)

theorem Cond.mono {j k : Nat} {b : Bool} {rest : Str} (hjk : j ≤ k) (h : Cond k b rest) : Cond j b rest :=
  ⟨h.1, fun hj => h.2.1 (by omega), fun hj => h.2.2.1 (by omega), fun hj => h.2.2.2 (by omega)⟩

/-- one level up: the looser operator is not there, so the same tree comes back -/
theorem lift1 (n : Nat) (s : Str) (t : Ast) (rest : Str) (b : Bool) (j : Nat) (hj : j < 4)
    (hstart : j = 0 → ∃ c r, skipWs s = c :: r ∧ isWs c = false ∧ c ≠ '!')
    (h : parseAt j n s = some (t, rest)) (hc : Cond (j + 1) b rest) : parseAt (j + 1) n s = some (t, rest) := by
  match j, hj with
  | 0, _ =>
    obtain ⟨c, r, e, hws, hne⟩ := hstart rfl
    show pL1 (pExpr n) s = some (t, rest)
    rw [← pL1_skip, e, pL1_operand _ r hws hne, ← e, pL0_skip]
    exact h
  | 1, _ =>
    exact chainP_single _ _ _ s t rest h (Or.inl (hc.2.1 (by omega)))
  | 2, _ =>
    exact chainP_single _ _ _ s t rest h (Or.inl (hc.2.2.1 (by omega)))
  | 3, _ =>
    exact chainP_single _ _ _ s t rest h
      (Or.inr ⟨rest, rfl, pL3_none_closed _ rest (hc.2.2.2 (by omega))⟩)

theorem lift (n : Nat) (s : Str) (t : Ast) (rest : Str) (b : Bool) :
    ∀ (d j : Nat), j + d ≤ 4 → (j = 0 → ∃ c r, skipWs s = c :: r ∧ isWs c = false ∧ c ≠ '!') →
      parseAt j n s = some (t, rest) → Cond (j + d) b rest → parseAt (j + d) n s = some (t, rest) := by
  intro d
  induction d with
  | zero => intro j _ _ h _; exact h
  | succ d ih =>
    intro j hjd hstart h hc
    have h1 := lift1 n s t rest b j (by omega) hstart h (Cond.mono (by omega) hc)
    have := ih (j + 1) (by omega) (fun e => by omega) h1 (by rw [show j + 1 + d = j + (d + 1) by omega]; exact hc)
    rw [show j + 1 + d = j + (d + 1) by omega] at this
    exact this

/-! ### expressions -/

theorem parseAt_ws (k n : Nat) {w : Str} (hw : AllWs w) (s : Str) : parseAt k n (w ++ s) = parseAt k n s := by
  have h1 : pL1 (pExpr n) (w ++ s) = pL1 (pExpr n) s := pL1_ws _ hw s
  have h2 : pL2 (pExpr n) (w ++ s) = pL2 (pExpr n) s := by simp [pL2, chainP, h1]
  have h3 : pL3 (pExpr n) (w ++ s) = pL3 (pExpr n) s := by simp [pL3, chainP, h2]
  have h4 : pBody (pExpr n) (w ++ s) = pBody (pExpr n) s := by simp [pBody, chainP, h3]
  match k with
  | 0 => exact pL0_ws _ hw s
  | 1 => exact h1
  | 2 => exact h2
  | 3 => exact h3
  | _ + 4 => exact h4

theorem parseAt_chain (kd : Kind) (n : Nat) :
    parseAt kd.level n = chainP kd.mk kd.op (parseAt (kd.level - 1) n) := by
  cases kd <;> rfl

theorem kind_level (kd : Kind) : 2 ≤ kd.level ∧ kd.level ≤ 4 := by
  cases kd <;> simp [Kind.level]

/-- the first character of a rendered expression -/
theorem C.start : (e : C) → e.WF → ∀ rest : Str,
    ∃ c r, skipWs (e.render ++ rest) = c :: r ∧ isWs c = false ∧ c ≠ '&' ∧ c ≠ '|' ∧ (e.level = 0 → c ≠ '!')
  | .atom w a, h, rest => by
    simp only [C.WF] at h
    obtain ⟨c, r, e, hws, h1, h2, h3, _, _⟩ := atom_head a h.2 rest
    refine ⟨c, r, ?_, hws, h1, h2, fun _ => h3⟩
    simp only [C.render, List.append_assoc]
    rw [skipWs_ws h.1, e, skipWs_cons hws]
  | .group w1 e w2, h, rest => by
    simp only [C.WF] at h
    refine ⟨'(', e.render ++ (w2 ++ [')']) ++ rest, ?_, by decide, by decide, by decide, fun _ => by decide⟩
    simp only [C.render, List.append_assoc, List.cons_append]
    rw [skipWs_ws h.1, skipWs_cons (by decide)]
  | .not w e, h, rest => by
    simp only [C.WF] at h
    refine ⟨'!', e.render ++ rest, ?_, by decide, by decide, by decide, fun h0 => by simp [C.level] at h0⟩
    simp only [C.render, List.append_assoc, List.cons_append]
    rw [skipWs_ws h.1, skipWs_cons (by decide)]
  | .chain k f r, h, rest => by
    simp only [C.WF] at h
    obtain ⟨c, r0, e, hws, h1, h2, _⟩ := C.start f h.2.1 (r.render k ++ rest)
    refine ⟨c, r0, ?_, hws, h1, h2, fun h0 => ?_⟩
    · simp only [C.render, List.append_assoc]; exact e
    · have := (kind_level k).1; simp [C.level] at h0; omega

theorem C.render_ne_nil (e : C) (h : e.WF) : 1 ≤ e.render.length := by
  obtain ⟨c, r, e0, _⟩ := C.start e h []
  cases hr : e.render with
  | nil => rw [hr] at e0; simp [skipWs] at e0
  | cons _ _ => simp

theorem cond_close (b : Bool) {w2 : Str} (hw : AllWs w2) (rest : Str) : Cond 4 b (w2 ++ ')' :: rest) := by
  have hsk : skipWs (w2 ++ ')' :: rest) = ')' :: rest := by
    rw [skipWs_ws hw, skipWs_cons (by decide)]
  have hcl : Closed (w2 ++ ')' :: rest) := Or.inr ⟨rest, hsk⟩
  refine ⟨⟨?_, fun _ => ?_⟩, fun _ => closed_noOp hcl _ (by decide), fun _ => closed_noOp hcl _ (by decide), fun _ => hcl⟩
  · cases w2 with
    | nil => exact Or.inr (Or.inl rfl)
    | cons c w => exact Or.inl hw.1
  · cases w2 with
    | nil => exact Or.inr rfl
    | cons c w => exact Or.inl hw.1

/-- between two items of a run: what follows the earlier item lets it be parsed one level tighter -/
theorem cond_tail (kd : Kind) (b : Bool) (r : CL) (hwf : r.WF kd b) (rest : Str)
    (hc : Cond kd.level (r.endsWord b) rest) : Cond (kd.level - 1) b (r.render kd ++ rest) := by
  cases r with
  | nil =>
    simp only [CL.render, CL.endsWord, List.nil_append] at hc ⊢
    exact Cond.mono (by omega) hc
  | cons w e r' =>
    simp only [CL.WF] at hwf
    obtain ⟨hw, hne, _, he, _⟩ := hwf
    simp only [CL.render, List.append_assoc]
    have hfol : Fol b (w ++ (kd.opStr ++ (e.render ++ (r'.render kd ++ rest)))) := by
      constructor
      · cases w with
        | nil =>
          cases kd with
          | and => exact Or.inr (Or.inr (Or.inl rfl))
          | or => exact Or.inr (Or.inr (Or.inr rfl))
          | juxt => exact absurd rfl (hne (Or.inr rfl))
        | cons c w => exact Or.inl hw.1
      · intro hb
        cases w with
        | nil => exact absurd rfl (hne (Or.inl hb))
        | cons c w => exact Or.inl hw.1
    obtain ⟨c, r0, e0, hws, h1, h2, _⟩ := C.start e he (r'.render kd ++ rest)
    refine ⟨hfol, fun h2k => ?_, fun h3k => ?_, fun h4k => ?_⟩
    · unfold NoOp
      rw [lit_ws hw]
      cases kd with
      | and => simp [Kind.level] at h2k
      | or => exact lit_miss (by decide) (by decide) _
      | juxt =>
        simp only [Kind.opStr, List.nil_append]
        unfold lit; rw [e0]; simp [h1]
    · unfold NoOp
      rw [lit_ws hw]
      cases kd with
      | and => simp [Kind.level] at h3k
      | or => simp [Kind.level] at h3k
      | juxt =>
        simp only [Kind.opStr, List.nil_append]
        unfold lit; rw [e0]; simp [h2]
    · have := (kind_level kd).2; omega

/-- from the own level of an expression to every looser level -/
theorem atLevel (e : C) (he : e.WF)
    (hmain : ∀ (n : Nat) (rest : Str), e.render.length ≤ n → Cond e.level e.endsWord rest →
      parseAt e.level n (e.render ++ rest) = some (e.ast, rest)) :
    ∀ (k n : Nat) (rest : Str), e.level ≤ k → k ≤ 4 → e.render.length ≤ n → Cond k e.endsWord rest →
      parseAt k n (e.render ++ rest) = some (e.ast, rest) := by
  intro k n rest hk h4 hn hc
  obtain ⟨c, r, e0, hws, _, _, hbang⟩ := C.start e he rest
  have := lift n (e.render ++ rest) e.ast rest e.endsWord (k - e.level) e.level (by omega)
    (fun h0 => ⟨c, r, e0, hws, hbang h0⟩) (hmain n rest hn (Cond.mono hk hc))
    (by rw [show e.level + (k - e.level) = k by omega]; exact hc)
  rw [show e.level + (k - e.level) = k by omega] at this
  exact this

theorem litOpt_hit (kd : Kind) {w : Str} (hw : AllWs w) (X : Str) :
    ∃ Y, litOpt kd.op (w ++ (kd.opStr ++ X)) = some Y ∧ ∀ k n, parseAt k n Y = parseAt k n X := by
  cases kd with
  | and => exact ⟨X, by simp [Kind.op, Kind.opStr, litOpt, lit_ws hw, lit_hit (show isWs '&' = false by decide)], fun _ _ => rfl⟩
  | or => exact ⟨X, by simp [Kind.op, Kind.opStr, litOpt, lit_ws hw, lit_hit (show isWs '|' = false by decide)], fun _ _ => rfl⟩
  | juxt => exact ⟨w ++ X, by simp [Kind.op, Kind.opStr, litOpt], fun k n => parseAt_ws k n hw X⟩

mutual
/-- the parser reads a well-formed rendering back, at the level of its outermost construct -/
theorem main : (e : C) → e.WF → ∀ (n : Nat) (rest : Str), e.render.length ≤ n → Cond e.level e.endsWord rest →
    parseAt e.level n (e.render ++ rest) = some (e.ast, rest)
  | .atom w a, h, n, rest, _, hc => by
    simp only [C.WF] at h
    simp only [C.render, C.level, C.ast, C.endsWord, List.append_assoc] at hc ⊢
    show pL0 (pExpr n) _ = _
    simp [pL0, pAtom_atom a w rest h.2 h.1 hc.1]
  | .group w1 e w2, h, n, rest, hn, _ => by
    simp only [C.WF] at h
    obtain ⟨hw1, hw2, he⟩ := h
    have hlen : e.render.length + 2 ≤ n := by
      simp only [C.render, List.length_append, List.length_cons, List.length_nil] at hn; omega
    cases n with
    | zero => omega
    | succ m =>
      have ih := atLevel e he (main e he) 4 m (w2 ++ ')' :: rest) (by
        cases e with
        | atom _ _ => simp [C.level]
        | group _ _ _ => simp [C.level]
        | not _ _ => simp [C.level]
        | chain k _ _ => exact (kind_level k).2) (Nat.le_refl _) (by omega) (cond_close _ hw2 rest)
      have e1 : (C.group w1 e w2).render ++ rest = w1 ++ ('(' :: (e.render ++ (w2 ++ ')' :: rest))) := by
        simp [C.render]
      have hat : pAtom ('(' :: (e.render ++ (w2 ++ ')' :: rest))) = none :=
        pAtom_none_cons _ (by decide) (by decide) (by decide) (by decide) (by decide)
      have hl : lit '(' ('(' :: (e.render ++ (w2 ++ ')' :: rest))) = some (e.render ++ (w2 ++ ')' :: rest)) :=
        lit_hit (by decide) _
      have hr : lit ')' (w2 ++ ')' :: rest) = some rest := by
        rw [lit_ws hw2]; exact lit_hit (by decide) _
      have ih' : pExpr (m + 1) (e.render ++ (w2 ++ ')' :: rest)) = some (e.ast, w2 ++ ')' :: rest) := ih
      show pL0 (pExpr (m + 1)) _ = _
      rw [e1, pL0_ws _ hw1]
      simp [pL0, hat, hl, ih', hr, C.ast]
  | .not w e, h, n, rest, hn, hc => by
    simp only [C.WF] at h
    obtain ⟨hw, hl, he⟩ := h
    have hlen : e.render.length ≤ n := by
      simp only [C.render, List.length_append, List.length_cons] at hn; omega
    have ih := atLevel e he (main e he) 1 n rest hl (by omega) hlen (by simpa [C.endsWord, C.level] using hc)
    have e1 : (C.not w e).render ++ rest = w ++ ('!' :: (e.render ++ rest)) := by simp [C.render]
    show pL1 (pExpr n) _ = _
    rw [e1, pL1_ws _ hw]
    exact pL1_bang _ _ _ _ ih
  | .chain kd f r, h, n, rest, hn, hc => by
    simp only [C.WF] at h
    obtain ⟨hfl, hf, hnil, hr⟩ := h
    have hlen : f.render.length + (r.render kd).length ≤ n := by
      simp only [C.render, List.length_append] at hn; omega
    simp only [C.level, C.endsWord] at hc
    have ihf := atLevel f hf (main f hf) (kd.level - 1) n (r.render kd ++ rest) (by omega)
      (by have := (kind_level kd).2; omega) (by omega) (cond_tail kd f.endsWord r hr rest hc)
    have ihr := mainL r kd f.endsWord hr n (r.render kd ++ rest).length rest (by omega)
      (by simp) hc
    have e1 : (C.chain kd f r).render ++ rest = f.render ++ (r.render kd ++ rest) := by simp [C.render]
    simp only [C.level]
    rw [e1, parseAt_chain]
    cases r with
    | nil => simp [CL.isNil] at hnil
    | cons w e r' =>
      simp only [CL.asts] at ihr
      simp only [chainP, ihf, ihr, C.ast, CL.asts]
theorem mainL : (l : CL) → (kd : Kind) → (prev : Bool) → l.WF kd prev → ∀ (n fuel : Nat) (rest : Str),
    (l.render kd).length ≤ n → (l.render kd).length ≤ fuel → Cond kd.level (l.endsWord prev) rest →
    loopP kd.op (parseAt (kd.level - 1) n) fuel (l.render kd ++ rest) = (l.asts, rest)
  | .nil, kd, prev, _, n, fuel, rest, _, _, hc => by
    simp only [CL.render, CL.asts, List.nil_append]
    apply loopP_stop
    cases kd with
    | and => exact Or.inl (hc.2.1 (by simp [Kind.level]))
    | or => exact Or.inl (hc.2.2.1 (by simp [Kind.level]))
    | juxt => exact Or.inr ⟨rest, rfl, pL3_none_closed _ rest (hc.2.2.2 (by simp [Kind.level]))⟩
  | .cons w e r', kd, prev, h, n, fuel, rest, hn, hfuel, hc => by
    simp only [CL.WF] at h
    obtain ⟨hw, _, hel, he, hr'⟩ := h
    have hpos := C.render_ne_nil e he
    have hlen : w.length + kd.opStr.length + e.render.length + (r'.render kd).length ≤ n := by
      simp only [CL.render, List.length_append] at hn; omega
    have hlenf : w.length + kd.opStr.length + e.render.length + (r'.render kd).length ≤ fuel := by
      simp only [CL.render, List.length_append] at hfuel; omega
    simp only [CL.endsWord] at hc
    have ihe := atLevel e he (main e he) (kd.level - 1) n (r'.render kd ++ rest) (by omega)
      (by have := (kind_level kd).2; omega) (by omega) (cond_tail kd e.endsWord r' hr' rest hc)
    cases fuel with
    | zero => omega
    | succ f =>
      have ihr := mainL r' kd e.endsWord hr' n f rest (by omega) (by omega) hc
      obtain ⟨Y, hY, hP⟩ := litOpt_hit kd hw (e.render ++ (r'.render kd ++ rest))
      have e1 : (CL.cons w e r').render kd ++ rest = w ++ (kd.opStr ++ (e.render ++ (r'.render kd ++ rest))) := by
        simp [CL.render]
      rw [e1]
      simp [loopP, hY, hP, ihe, ihr, CL.asts]
end

end MitmVerif.C42
