/-
  C42 — the fuel of the parser model is immaterial: every parser returns a suffix no longer than its input, the
  parenthesis parser is only ever called on strictly shorter text, so `pExpr n` is the same function on texts shorter
  than `n` for every `n`.
-/
import MitmVerif.Lemmas.C42Print
namespace MitmVerif.C42

/-- what is left is never longer than the input -/
def Shrinks (p : P) : Prop := ∀ s t r, p s = some (t, r) → r.length ≤ s.length

theorem skipWs_len (s : Str) : (skipWs s).length ≤ s.length := by
  induction s with
  | nil => simp [skipWs]
  | cons c s ih =>
    by_cases h : isWs c = true
    · simp [skipWs, h]; omega
    · simp [skipWs, h]

theorem lit_lt (c : Char) (s r : Str) (h : lit c s = some r) : r.length < s.length := by
  unfold lit at h
  have := skipWs_len s
  cases hs : skipWs s with
  | nil => simp [hs] at h
  | cons d r' =>
    rw [hs] at h this
    by_cases hd : d = c
    · simp [hd] at h; subst h; simp at this; omega
    · simp [hd] at h

theorem litOpt_le (op : Option Char) (s r : Str) (h : litOpt op s = some r) : r.length ≤ s.length := by
  cases op with
  | none => simp [litOpt] at h; subst h; exact Nat.le_refl _
  | some c => exact Nat.le_of_lt (lit_lt c s r (by simpa [litOpt] using h))

theorem stripPrefix_le : ∀ (p s r : Str), stripPrefix p s = some r → r.length ≤ s.length
  | [], s, r, h => by simp [stripPrefix] at h; subst h; exact Nat.le_refl _
  | _ :: _, [], r, h => by simp [stripPrefix] at h
  | p :: ps, c :: s, r, h => by
    by_cases hpc : p = c
    · have := stripPrefix_le ps s r (by simpa [stripPrefix, hpc] using h)
      simp; omega
    · simp [stripPrefix, hpc] at h

theorem tryCode_le (code s r : Str) (h : tryCode code s = some r) : r.length ≤ s.length := by
  unfold tryCode at h
  cases hs : stripPrefix ('~' :: code) s with
  | none => simp [hs, wordEndO] at h
  | some r' =>
    have := stripPrefix_le _ _ _ hs
    by_cases hw : wordEnd r' = true
    · simp [hs, wordEndO, hw] at h; subst h; exact this
    · simp [hs, wordEndO, hw] at h

theorem takeW_le (p : Char → Bool) (s : Str) : (takeW p s).2.length ≤ s.length := by
  induction s with
  | nil => simp [takeW]
  | cons c s ih =>
    by_cases h : p c = true
    · simp [takeW, h]; omega
    · simp [takeW, h]

theorem pQuoted_le (q : Char) : ∀ (n : Nat) (s a r : Str), s.length ≤ n → pQuoted q s = some (a, r) → r.length ≤ s.length := by
  intro n
  induction n with
  | zero =>
    intro s a r hn h
    cases s with
    | nil => rw [pQuoted.eq_def] at h; simp at h
    | cons _ _ => simp at hn
  | succ n ih =>
    intro s a r hn h
    rw [pQuoted.eq_def] at h
    cases s with
    | nil => simp at h
    | cons c s =>
      simp only at h
      by_cases h1 : c = q
      · simp [h1] at h; rw [← h.2]; simp
      · simp only [h1, if_false] at h
        by_cases h2 : c = '\\'
        · simp only [h2, if_true] at h
          cases s with
          | nil => simp at h
          | cons d s' =>
            simp only at h
            by_cases h3 : d = '\n'
            · simp [h3] at h
            · simp only [h3, if_false] at h
              cases hp : pQuoted q s' with
              | none => simp [hp] at h
              | some x =>
                obtain ⟨a', r'⟩ := x
                simp [hp] at h
                have := ih s' a' r' (by simp at hn; omega) hp
                rw [← h.2]; simp; omega
        · simp only [h2, if_false] at h
          by_cases h4 : (c = '\n' || c = '\r') = true
          · simp [h4] at h
          · simp only [h4] at h
            cases hp : pQuoted q s with
            | none => simp [hp] at h
            | some x =>
              obtain ⟨a', r'⟩ := x
              simp [hp] at h
              have := ih s a' r' (by simp at hn; omega) hp
              rw [← h.2]; simp; omega

theorem pRegex_le (s a r : Str) (h : pRegex s = some (a, r)) : r.length ≤ s.length := by
  unfold pRegex at h
  have hs := skipWs_len s
  cases hk : skipWs s with
  | nil => simp [hk] at h
  | cons c r0 =>
    rw [hk] at h hs
    simp only at h
    by_cases h1 : isWordCh c = true
    · simp only [h1, if_true] at h
      have := takeW_le isWordCh (c :: r0)
      have e : (takeW isWordCh (c :: r0)).2 = r := by
        have := Option.some.inj h; rw [this]
      rw [e] at this; omega
    · simp only [h1] at h
      by_cases h2 : c = '"' ∨ c = '\''
      · simp only [h2, if_true] at h
        cases hp : pQuoted c r0 with
        | none => simp [hp] at h
        | some x =>
          obtain ⟨raw, rest⟩ := x
          simp [hp] at h
          have := pQuoted_le c r0.length r0 raw rest (Nat.le_refl _) hp
          rw [← h.2]; simp at hs; omega
      · simp [h2] at h

theorem pInt_le (s : Str) (n : Nat) (r : Str) (h : pInt s = some (n, r)) : r.length ≤ s.length := by
  unfold pInt at h
  have h1 := takeW_le isDigit (skipWs s)
  have h2 := skipWs_len s
  cases hk : takeW isDigit (skipWs s) with
  | mk d r' =>
    rw [hk] at h h1
    cases d with
    | nil => simp at h
    | cons x d' =>
      simp at h
      rw [← h.2]; simp at h1; omega

theorem pAtom_shrinks : Shrinks pAtom := by
  intro s t r h
  have hs := skipWs_len s
  unfold pAtom at h
  simp only [] at h
  cases hu : firstSome (tryUnary (skipWs s)) Gen.unaryCodes with
  | some x =>
    rw [hu] at h
    obtain ⟨c, _, hf⟩ := firstSome_mem _ _ _ hu
    unfold tryUnary at hf
    cases ht : tryCode c (skipWs s) with
    | none => simp [ht] at hf
    | some r' =>
      simp [ht] at hf
      have := tryCode_le _ _ _ ht
      have e : r = r' := by
        have := Option.some.inj h; rw [← hf] at this; exact (Prod.mk.inj this).2.symm
      rw [e]; omega
  | none =>
    rw [hu] at h
    cases hr : firstSome (tryRex (skipWs s)) Gen.rexCodes with
    | some x =>
      rw [hr] at h
      obtain ⟨c, _, hf⟩ := firstSome_mem _ _ _ hr
      unfold tryRex at hf
      cases ht : tryCode c (skipWs s) with
      | none => simp [ht] at hf
      | some r' =>
        simp only [ht] at hf
        cases hp : pRegex r' with
        | none => simp [hp] at hf
        | some ar =>
          obtain ⟨a, r''⟩ := ar
          simp [hp] at hf
          have h1 := tryCode_le _ _ _ ht
          have h2 := pRegex_le _ _ _ hp
          have e : r = r'' := by
            have := Option.some.inj h; rw [← hf] at this; exact (Prod.mk.inj this).2.symm
          rw [e]; omega
    | none =>
      rw [hr] at h
      cases hi : firstSome (tryInt (skipWs s)) Gen.intCodes with
      | some x =>
        rw [hi] at h
        obtain ⟨c, _, hf⟩ := firstSome_mem _ _ _ hi
        unfold tryInt at hf
        cases ht : tryCode c (skipWs s) with
        | none => simp [ht] at hf
        | some r' =>
          simp only [ht] at hf
          cases hp : pInt r' with
          | none => simp [hp] at hf
          | some nr =>
            obtain ⟨n, r''⟩ := nr
            simp [hp] at hf
            have h1 := tryCode_le _ _ _ ht
            have h2 := pInt_le _ _ _ hp
            have e : r = r'' := by
              have := Option.some.inj h; rw [← hf] at this; exact (Prod.mk.inj this).2.symm
            rw [e]; omega
      | none =>
        rw [hi] at h
        cases hp : pRegex (skipWs s) with
        | none => simp [hp] at h
        | some ar =>
          obtain ⟨a, r''⟩ := ar
          simp [hp] at h
          have := pRegex_le _ _ _ hp
          rw [← h.2]; omega

theorem pL0_shrinks (g : P) (hg : Shrinks g) : Shrinks (pL0 g) := by
  intro s t r h
  unfold pL0 at h
  cases ha : pAtom s with
  | some x =>
    simp [ha] at h
    exact pAtom_shrinks s t r (by rw [ha, h])
  | none =>
    simp only [ha] at h
    cases h1 : lit '(' s with
    | none => simp [h1] at h
    | some s1 =>
      simp only [h1] at h
      cases h2 : g s1 with
      | none => simp [h2] at h
      | some ts =>
        obtain ⟨t', s2⟩ := ts
        simp only [h2] at h
        cases h3 : lit ')' s2 with
        | none => simp [h3] at h
        | some s3 =>
          simp [h3] at h
          have a := lit_lt _ _ _ h1
          have b := hg s1 t' s2 h2
          have c := lit_lt _ _ _ h3
          rw [← h.2]; omega

theorem pL1_shrinks (g : P) (hg : Shrinks g) : Shrinks (pL1 g) := by
  intro s
  induction s with
  | nil => intro t r h; exact pL0_shrinks g hg [] t r (by simpa [pL1] using h)
  | cons c s ih =>
    intro t r h
    by_cases hws : isWs c = true
    · have := ih t r (by simpa [pL1, hws] using h); simp; omega
    · by_cases hb : c = '!'
      · subst hb
        cases hp : pL1 g s with
        | some x =>
          obtain ⟨t', r'⟩ := x
          have e : r = r' := by simp [pL1, hws, hp] at h; exact h.2.symm
          have := ih t' r' hp
          rw [e]; simp; omega
        | none => exact pL0_shrinks g hg _ t r (by simpa [pL1, hws, hp] using h)
      · exact pL0_shrinks g hg _ t r (by simpa [pL1, hws, hb] using h)

theorem loopP_shrinks (op : Option Char) (item : P) (hi : Shrinks item) :
    ∀ (n : Nat) (s : Str), (loopP op item n s).2.length ≤ s.length := by
  intro n
  induction n with
  | zero => intro s; simp [loopP]
  | succ n ih =>
    intro s
    cases h1 : litOpt op s with
    | none => simp [loopP, h1]
    | some s1 =>
      cases h2 : item s1 with
      | none => simp [loopP, h1, h2]
      | some x =>
        obtain ⟨t, s2⟩ := x
        simp only [loopP, h1, h2]
        have a := litOpt_le _ _ _ h1
        have b := hi s1 t s2 h2
        have c := ih s2
        omega

theorem chainP_shrinks (mk : List Ast → Ast) (op : Option Char) (item : P) (hi : Shrinks item) :
    Shrinks (chainP mk op item) := by
  intro s t r h
  unfold chainP at h
  cases h1 : item s with
  | none => simp [h1] at h
  | some x =>
    obtain ⟨t0, r0⟩ := x
    simp only [h1] at h
    have a := hi s t0 r0 h1
    have b := loopP_shrinks op item hi r0.length r0
    cases h2 : loopP op item r0.length r0 with
    | mk l r' =>
      rw [h2] at h b
      cases l with
      | nil => simp at h; rw [← h.2]; simp at b; omega
      | cons _ _ => simp at h; rw [← h.2]; simp at b; omega

theorem pExpr_shrinks : ∀ n, Shrinks (pExpr n) := by
  intro n
  induction n with
  | zero => intro s t r h; simp [pExpr] at h
  | succ n ih =>
    exact chainP_shrinks _ _ _ (chainP_shrinks _ _ _ (chainP_shrinks _ _ _ (pL1_shrinks _ ih)))

/-! ### congruence in the parenthesis parser -/

/-- `g` and `g'` agree on every text shorter than `L` -/
def Agree (L : Nat) (g g' : P) : Prop := ∀ s, s.length < L → g s = g' s
/-- … on every text of length at most `L` -/
def AgreeLe (L : Nat) (p p' : P) : Prop := ∀ s, s.length ≤ L → p s = p' s

theorem pL0_congr (L : Nat) (g g' : P) (h : Agree L g g') : AgreeLe L (pL0 g) (pL0 g') := by
  intro s hs
  unfold pL0
  cases ha : pAtom s with
  | some x => rfl
  | none =>
    cases h1 : lit '(' s with
    | none => rfl
    | some s1 =>
      have := lit_lt _ _ _ h1
      simp only [h s1 (by omega)]

theorem pL1_congr (L : Nat) (g g' : P) (h : Agree L g g') : AgreeLe L (pL1 g) (pL1 g') := by
  intro s
  induction s with
  | nil => intro hs; simpa [pL1] using pL0_congr L g g' h [] hs
  | cons c s ih =>
    intro hs
    have hs' : s.length ≤ L := by simp at hs; omega
    have e0 := pL0_congr L g g' h (c :: s) hs
    by_cases hws : isWs c = true
    · simpa [pL1, hws] using ih hs'
    · by_cases hb : c = '!'
      · subst hb
        have hw : isWs '!' = false := by decide
        simp only [pL1, hw, Bool.false_eq_true, if_false, if_true]
        rw [ih hs']
        cases pL1 g' s with
        | some x => rfl
        | none => exact e0
      · simpa [pL1, hws, hb] using e0

theorem loopP_congr (L : Nat) (op : Option Char) (item item' : P) (h : AgreeLe L item item') (hi : Shrinks item) :
    ∀ (n : Nat) (s : Str), s.length ≤ L → loopP op item n s = loopP op item' n s := by
  intro n
  induction n with
  | zero => intro s _; rfl
  | succ n ih =>
    intro s hs
    cases h1 : litOpt op s with
    | none => simp [loopP, h1]
    | some s1 =>
      have a := litOpt_le _ _ _ h1
      have e := h s1 (by omega)
      cases h2 : item s1 with
      | none => simp [loopP, h1, ← e, h2]
      | some x =>
        obtain ⟨t, s2⟩ := x
        have b := hi s1 t s2 h2
        simp [loopP, h1, ← e, h2, ih s2 (by omega)]

theorem chainP_congr (L : Nat) (mk : List Ast → Ast) (op : Option Char) (item item' : P) (h : AgreeLe L item item')
    (hi : Shrinks item) : AgreeLe L (chainP mk op item) (chainP mk op item') := by
  intro s hs
  unfold chainP
  rw [← h s hs]
  cases h1 : item s with
  | none => rfl
  | some x =>
    obtain ⟨t, r⟩ := x
    have := hi s t r h1
    simp only [loopP_congr L op item item' h hi r.length r (by omega)]

theorem pBody_congr (L : Nat) (g g' : P) (h : Agree L g g') (hg : Shrinks g) : AgreeLe L (pBody g) (pBody g') := by
  have s1 := pL1_shrinks g hg
  have c1 := pL1_congr L g g' h
  have s2 : Shrinks (pL2 g) := chainP_shrinks _ _ _ s1
  have c2 : AgreeLe L (pL2 g) (pL2 g') := chainP_congr L _ _ _ _ c1 s1
  have s3 : Shrinks (pL3 g) := chainP_shrinks _ _ _ s2
  have c3 : AgreeLe L (pL3 g) (pL3 g') := chainP_congr L _ _ _ _ c2 s2
  exact chainP_congr L _ _ _ _ c3 s3

/-- any two fuels larger than the text give the same parse -/
theorem pExpr_fuel : ∀ (L n m : Nat), L < n → L < m → AgreeLe L (pExpr n) (pExpr m) := by
  intro L
  induction L with
  | zero =>
    intro n m hn hm
    cases n with
    | zero => omega
    | succ n' =>
      cases m with
      | zero => omega
      | succ m' =>
        exact pBody_congr 0 _ _ (fun s hs => by omega) (pExpr_shrinks n')
  | succ L ih =>
    intro n m hn hm
    cases n with
    | zero => omega
    | succ n' =>
      cases m with
      | zero => omega
      | succ m' =>
        exact pBody_congr (L + 1) _ _ (fun s hs => ih n' m' (by omega) (by omega) s (by omega)) (pExpr_shrinks n')

end MitmVerif.C42
