/-
  C42 — lemmas about the canonical printer and about the range of the parser.
-/
import MitmVerif.Lemmas.C42
import MitmVerif.Model.C42_Print
namespace MitmVerif.C42

/-! ### numbers -/

theorem digitChar_val : ∀ d : Fin 10, (digitChar d.val).toNat - 48 = d.val ∧ isDigit (digitChar d.val) = true := by
  decide

theorem digitChar_lt {d : Nat} (h : d < 10) : (digitChar d).toNat - 48 = d ∧ isDigit (digitChar d) = true :=
  digitChar_val ⟨d, h⟩

theorem digitsVal_snoc (d : Str) (c : Char) : digitsVal (d ++ [c]) = 10 * digitsVal d + (c.toNat - 48) := by
  simp [digitsVal, List.foldl_append]

theorem allDigit_iff (d : Str) : AllDigit d ↔ ∀ c ∈ d, isDigit c = true := by
  induction d with
  | nil => simp [AllDigit]
  | cons c d ih => simp [AllDigit, ih]

theorem revDigits_ok : ∀ (f n : Nat), n ≤ f →
    digitsVal (revDigits f n).reverse = n ∧ (∀ c ∈ revDigits f n, isDigit c = true) ∧ revDigits f n ≠ [] := by
  intro f
  induction f with
  | zero =>
    intro n hn
    have : n = 0 := by omega
    subst this
    refine ⟨by decide, by decide, by decide⟩
  | succ f ih =>
    intro n hn
    by_cases h : n < 10
    · have := digitChar_lt h
      simp [revDigits, h, digitsVal, this]
    · have hm : n % 10 < 10 := Nat.mod_lt _ (by decide)
      have hd := digitChar_lt hm
      obtain ⟨h1, h2, _⟩ := ih (n / 10) (by omega)
      refine ⟨?_, ?_, ?_⟩
      · simp only [revDigits, h, if_false, List.reverse_cons]
        rw [digitsVal_snoc, h1, hd.1]; omega
      · intro c hc
        simp only [revDigits, h, if_false, List.mem_cons] at hc
        rcases hc with rfl | hc
        · exact hd.2
        · exact h2 c hc
      · simp [revDigits, h]

theorem natDigits_ok (n : Nat) : digitsVal (natDigits n) = n ∧ AllDigit (natDigits n) ∧ natDigits n ≠ [] := by
  obtain ⟨h1, h2, h3⟩ := revDigits_ok n n (Nat.le_refl _)
  refine ⟨h1, (allDigit_iff _).2 (fun c hc => h2 c (by simpa [natDigits] using hc)), ?_⟩
  simpa [natDigits] using h3

/-! ### arguments -/

theorem allWordChB_iff (a : Str) : allWordChB a = true ↔ AllWordCh a := by
  induction a with
  | nil => simp [allWordChB, AllWordCh]
  | cons c a ih => simp [allWordChB, AllWordCh, ih]

theorem itemOf_ok (c : Char) : (itemOf c).WF '"' ∧ (itemOf c).value = c := by
  unfold itemOf
  by_cases h1 : c = '"' ∨ c = '\\'
  · rcases h1 with rfl | rfl <;> simp [QItem.WF, QItem.value] <;> decide
  · by_cases h2 : c = '\n'
    · subst h2; simp [QItem.WF, QItem.value]; decide
    · by_cases h3 : c = '\r'
      · subst h3; simp [QItem.WF, QItem.value]; decide
      · have h1' : c ≠ '"' ∧ c ≠ '\\' := by
          constructor <;> (intro e; exact h1 (by simp [e]))
        simp [h1, h2, h3, QItem.WF, QItem.value, h1'.1, h1'.2]

theorem items_ok (a : Str) : ItemsWF '"' (a.map itemOf) ∧ valueItems (a.map itemOf) = a := by
  induction a with
  | nil => simp [ItemsWF, valueItems]
  | cons c a ih =>
    have := itemOf_ok c
    simp [ItemsWF, valueItems, this.1, this.2, ih.1, ih.2]

theorem argOf_ok (a : Str) : (argOf a).WF ∧ (argOf a).value = a := by
  unfold argOf
  by_cases h : wordOk a = true
  · simp only [h, if_true, Arg.WF, Arg.value]
    cases a with
    | nil => simp [wordOk] at h
    | cons c a' =>
      have : allWordChB (c :: a') = true := by simpa [wordOk] using h
      exact ⟨⟨by simp, (allWordChB_iff _).1 this⟩, trivial⟩
  · have := items_ok a
    simp [h, Arg.WF, Arg.value, this.1, this.2]

/-! ### the printer produces well-formed concrete syntax of the right level that denotes the tree -/

theorem sp_allWs : AllWs [' '] := ⟨by decide, trivial⟩

theorem kind_mk_cases (kd : Kind) (h : kd ≠ Kind.juxt) : (kd = .and ∨ kd = .or) := by
  cases kd <;> simp at h ⊢

mutual
theorem pr_ok : (t : Ast) → Printable t → ∀ (lvl : Nat) (w : Str), 1 ≤ lvl → lvl ≤ 3 → AllWs w →
    (pr lvl w t).WF ∧ (pr lvl w t).level ≤ lvl ∧ (pr lvl w t).ast = t
  | .unary c, h, lvl, w, _, _, hw => by
    simp only [Printable] at h
    simp [pr, C.WF, C.level, C.ast, AtomC.WF, AtomC.ast, hw, h]
  | .rex c a, h, lvl, w, _, _, hw => by
    simp only [Printable] at h
    have := argOf_ok a
    simp [pr, C.WF, C.level, C.ast, AtomC.WF, AtomC.ast, hw, h, sp_allWs, this.1, this.2]
  | .int c n, h, lvl, w, _, _, hw => by
    simp only [Printable] at h
    have := natDigits_ok n
    simp [pr, C.WF, C.level, C.ast, AtomC.WF, AtomC.ast, hw, h, sp_allWs, this.1, this.2.1, this.2.2]
  | .not t, h, lvl, w, h1, _, hw => by
    simp only [Printable] at h
    obtain ⟨a, b, c⟩ := pr_ok t h 1 [] (Nat.le_refl _) (by omega) trivial
    simp only [pr, C.WF, C.level, C.ast]
    exact ⟨⟨hw, b, a⟩, h1, by rw [c]⟩
  | .and l, h, lvl, w, _, _, hw => by
    simp only [Printable] at h
    by_cases hl : 2 ≤ lvl
    · obtain ⟨a, b, c⟩ := prL_ok l h.2 h.1 .and (by decide) w hw
      simp only [pr, hl, if_true]
      exact ⟨a, by rw [b]; exact hl, c⟩
    · obtain ⟨a, b, c⟩ := prL_ok l h.2 h.1 .and (by decide) [] trivial
      simp only [pr, hl, if_false, C.WF, C.level, C.ast]
      exact ⟨⟨hw, trivial, a⟩, by omega, c⟩
  | .or l, h, lvl, w, _, _, hw => by
    simp only [Printable] at h
    by_cases hl : 3 ≤ lvl
    · obtain ⟨a, b, c⟩ := prL_ok l h.2 h.1 .or (by decide) w hw
      simp only [pr, hl, if_true]
      exact ⟨a, by rw [b]; exact hl, c⟩
    · obtain ⟨a, b, c⟩ := prL_ok l h.2 h.1 .or (by decide) [] trivial
      simp only [pr, hl, if_false, C.WF, C.level, C.ast]
      exact ⟨⟨hw, trivial, a⟩, by omega, c⟩
theorem prL_ok : (l : List Ast) → PrintableL l → 2 ≤ l.length → ∀ (kd : Kind), kd ≠ Kind.juxt → ∀ (w : Str), AllWs w →
    (prL kd w l).WF ∧ (prL kd w l).level = kd.level ∧ (prL kd w l).ast = kd.mk l
  | [], _, hlen, _, _, _, _ => by simp at hlen
  | t :: r, h, hlen, kd, hk, w, hw => by
    simp only [PrintableL] at h
    have hk2 := kind_level kd
    have hk3 : kd.level - 1 ≤ 3 := by omega
    obtain ⟨a, b, c⟩ := pr_ok t h.1 (kd.level - 1) w (by omega) hk3 hw
    obtain ⟨d, e⟩ := prRest_ok r h.2 kd hk (pr (kd.level - 1) w t).endsWord
    have hr : (prRest kd r).isNil = false := by
      cases r with
      | nil => simp at hlen
      | cons _ _ => simp [prRest, CL.isNil]
    refine ⟨?_, by simp [prL, C.level], ?_⟩
    · simp only [prL, C.WF]; exact ⟨by omega, a, hr, d⟩
    · simp only [prL, C.ast]; rw [c, e]
theorem prRest_ok : (l : List Ast) → PrintableL l → ∀ (kd : Kind), kd ≠ Kind.juxt → ∀ (prev : Bool),
    (prRest kd l).WF kd prev ∧ (prRest kd l).asts = l
  | [], _, _, _, _ => by simp [prRest, CL.WF, CL.asts]
  | t :: r, h, kd, hk, prev => by
    simp only [PrintableL] at h
    have hk2 := kind_level kd
    obtain ⟨a, b, c⟩ := pr_ok t h.1 (kd.level - 1) [' '] (by omega) (by omega) sp_allWs
    obtain ⟨d, e⟩ := prRest_ok r h.2 kd hk (pr (kd.level - 1) [' '] t).endsWord
    simp only [prRest, CL.WF, CL.asts]
    exact ⟨⟨sp_allWs, fun _ => by simp, by omega, a, d⟩, by rw [c, e]⟩
end

/-! ### the range of the parser -/

/-- everything the parser `p` returns is expressible -/
def Good (p : P) : Prop := ∀ s t r, p s = some (t, r) → Printable t

theorem firstSome_mem {α β : Type} (f : α → Option β) (l : List α) (b : β) (h : firstSome f l = some b) :
    ∃ a ∈ l, f a = some b := by
  induction l with
  | nil => simp [firstSome] at h
  | cons a l ih =>
    cases hf : f a with
    | some b' =>
      simp [firstSome, hf] at h
      exact ⟨a, by simp, by rw [hf, h]⟩
    | none =>
      simp [firstSome, hf] at h
      obtain ⟨a', ha', h'⟩ := ih h
      exact ⟨a', by simp [ha'], h'⟩

theorem bare_is_rex : Gen.bareCode ∈ Gen.rexCodes := by decide +kernel

theorem pAtom_good : Good pAtom := by
  intro s t r h
  unfold pAtom at h
  simp only [] at h
  cases hu : firstSome (tryUnary (skipWs s)) Gen.unaryCodes with
  | some x =>
    rw [hu] at h
    obtain ⟨c, hc, hf⟩ := firstSome_mem _ _ _ hu
    unfold tryUnary at hf
    cases ht : tryCode c (skipWs s) with
    | none => simp [ht] at hf
    | some r' =>
      simp [ht] at hf
      have : t = Ast.unary c := by
        have := Option.some.inj h
        rw [← hf] at this
        exact (Prod.mk.inj this).1.symm
      rw [this]; simpa [Printable] using hc
  | none =>
    rw [hu] at h
    cases hr : firstSome (tryRex (skipWs s)) Gen.rexCodes with
    | some x =>
      rw [hr] at h
      obtain ⟨c, hc, hf⟩ := firstSome_mem _ _ _ hr
      unfold tryRex at hf
      cases ht : tryCode c (skipWs s) with
      | none => simp [ht] at hf
      | some r' =>
        simp only [ht] at hf
        cases hp : pRegex r' with
        | none => simp [hp] at hf
        | some ar =>
          obtain ⟨a, r''⟩ := ar
          simp [hp] at hf
          have : t = Ast.rex c a := by
            have := Option.some.inj h
            rw [← hf] at this
            exact (Prod.mk.inj this).1.symm
          rw [this]; simpa [Printable] using hc
    | none =>
      rw [hr] at h
      cases hi : firstSome (tryInt (skipWs s)) Gen.intCodes with
      | some x =>
        rw [hi] at h
        obtain ⟨c, hc, hf⟩ := firstSome_mem _ _ _ hi
        unfold tryInt at hf
        cases ht : tryCode c (skipWs s) with
        | none => simp [ht] at hf
        | some r' =>
          simp only [ht] at hf
          cases hp : pInt r' with
          | none => simp [hp] at hf
          | some nr =>
            obtain ⟨n, r''⟩ := nr
            simp [hp] at hf
            have : t = Ast.int c n := by
              have := Option.some.inj h
              rw [← hf] at this
              exact (Prod.mk.inj this).1.symm
            rw [this]; simpa [Printable] using hc
      | none =>
        rw [hi] at h
        cases hp : pRegex (skipWs s) with
        | none => simp [hp] at h
        | some ar =>
          obtain ⟨a, r''⟩ := ar
          simp [hp] at h
          rw [← h.1]; simpa [Printable] using bare_is_rex

theorem pL0_good (g : P) (hg : Good g) : Good (pL0 g) := by
  intro s t r h
  unfold pL0 at h
  cases ha : pAtom s with
  | some x =>
    simp [ha] at h
    exact pAtom_good s t r (by rw [ha, h])
  | none =>
    simp only [ha] at h
    cases h1 : lit '(' s with
    | none => simp [h1] at h
    | some s1 =>
      simp only [h1] at h
      cases h2 : g s1 with
      | none => simp [h2] at h
      | some ts =>
        obtain ⟨t', s2⟩ := ts
        simp only [h2] at h
        cases h3 : lit ')' s2 with
        | none => simp [h3] at h
        | some s3 =>
          simp [h3] at h
          rw [← h.1]; exact hg s1 t' s2 h2

theorem pL1_good (g : P) (hg : Good g) : Good (pL1 g) := by
  intro s
  induction s with
  | nil => intro t r h; exact pL0_good g hg [] t r (by simpa [pL1] using h)
  | cons c s ih =>
    intro t r h
    by_cases hws : isWs c = true
    · exact ih t r (by simpa [pL1, hws] using h)
    · by_cases hb : c = '!'
      · subst hb
        cases hp : pL1 g s with
        | some x =>
          obtain ⟨t', r'⟩ := x
          have : t = Ast.not t' := by
            simp [pL1, hws, hp] at h; exact h.1.symm
          rw [this]; simpa [Printable] using ih t' r' hp
        | none =>
          exact pL0_good g hg _ t r (by simpa [pL1, hws, hp] using h)
      · exact pL0_good g hg _ t r (by simpa [pL1, hws, hb] using h)

theorem loopP_good (op : Option Char) (item : P) (hi : Good item) :
    ∀ (n : Nat) (s : Str), PrintableL (loopP op item n s).1 := by
  intro n
  induction n with
  | zero => intro s; simp [loopP, PrintableL]
  | succ n ih =>
    intro s
    cases h1 : litOpt op s with
    | none => simp [loopP, h1, PrintableL]
    | some s1 =>
      cases h2 : item s1 with
      | none => simp [loopP, h1, h2, PrintableL]
      | some x =>
        obtain ⟨t, s2⟩ := x
        simp only [loopP, h1, h2, PrintableL]
        exact ⟨hi s1 t s2 h2, ih s2⟩

theorem chainP_good (mk : List Ast → Ast) (hmk : mk = Ast.and ∨ mk = Ast.or) (op : Option Char) (item : P)
    (hi : Good item) : Good (chainP mk op item) := by
  intro s t r h
  unfold chainP at h
  cases h1 : item s with
  | none => simp [h1] at h
  | some x =>
    obtain ⟨t0, r0⟩ := x
    simp only [h1] at h
    have hl := loopP_good op item hi r0.length r0
    cases h2 : loopP op item r0.length r0 with
    | mk l r' =>
      rw [h2] at h hl
      cases l with
      | nil =>
        simp at h
        rw [← h.1]; exact hi s t0 r0 h1
      | cons a l' =>
        simp at h
        have ht0 := hi s t0 r0 h1
        rw [← h.1]
        rcases hmk with rfl | rfl
        · simp only [Printable, PrintableL]
          exact ⟨by simp, ht0, hl⟩
        · simp only [Printable, PrintableL]
          exact ⟨by simp, ht0, hl⟩

theorem pExpr_good : ∀ n, Good (pExpr n) := by
  intro n
  induction n with
  | zero => intro s t r h; simp [pExpr] at h
  | succ n ih =>
    have g1 := pL1_good _ ih
    have g2 : Good (pL2 (pExpr n)) := chainP_good _ (Or.inl rfl) _ _ g1
    have g3 : Good (pL3 (pExpr n)) := chainP_good _ (Or.inr rfl) _ _ g2
    exact chainP_good _ (Or.inl rfl) _ _ g3

theorem parseStruct_printable (s : Str) (t : Ast) (h : parseStruct s = some t) : Printable t := by
  unfold parseStruct at h
  cases hp : pExpr (s.length + 1) s with
  | none => simp [hp] at h
  | some x =>
    obtain ⟨t', r⟩ := x
    simp only [hp] at h
    by_cases hr : skipWs r = []
    · simp [hr] at h
      rw [← h]; exact pExpr_good _ s t' r hp
    · simp [hr] at h

/-! ### evaluation as a Boolean formula over the leaves -/

mutual
/-- the leaves (`_Action` objects) of a tree, left to right -/
def leaves : Ast → List Ast
  | .unary c => [.unary c]
  | .rex c a => [.rex c a]
  | .int c n => [.int c n]
  | .not t => leaves t
  | .and l => leavesL l
  | .or l => leavesL l
def leavesL : List Ast → List Ast
  | [] => []
  | t :: l => leaves t ++ leavesL l
end

mutual
/-- the Boolean formula a tree stands for, under a valuation `v` of its leaves -/
def evalV (v : Ast → Bool) : Ast → Bool
  | .unary c => v (.unary c)
  | .rex c a => v (.rex c a)
  | .int c n => v (.int c n)
  | .not t => !evalV v t
  | .and l => allV v l
  | .or l => anyV v l
def allV (v : Ast → Bool) : List Ast → Bool
  | [] => true
  | t :: l => evalV v t && allV v l
def anyV (v : Ast → Bool) : List Ast → Bool
  | [] => false
  | t :: l => evalV v t || anyV v l
end

theorem evalAll_eq {Flow : Type} (sem : Sem Flow) (f : Flow) (l : List Ast) :
    evalAll sem l f = l.all (fun t => eval sem t f) := by
  induction l with
  | nil => simp [evalAll]
  | cons t l ih => simp [evalAll, ih]

theorem evalAny_eq {Flow : Type} (sem : Sem Flow) (f : Flow) (l : List Ast) :
    evalAny sem l f = l.any (fun t => eval sem t f) := by
  induction l with
  | nil => simp [evalAny]
  | cons t l ih => simp [evalAny, ih]

mutual
theorem eval_evalV {Flow : Type} (sem : Sem Flow) (f : Flow) : (t : Ast) →
    eval sem t f = evalV (fun a => eval sem a f) t
  | .unary c => by simp [evalV]
  | .rex c a => by simp [evalV]
  | .int c n => by simp [evalV]
  | .not t => by simp [eval, evalV, eval_evalV sem f t]
  | .and l => by simp only [eval, evalV]; exact evalAll_allV sem f l
  | .or l => by simp only [eval, evalV]; exact evalAny_anyV sem f l
theorem evalAll_allV {Flow : Type} (sem : Sem Flow) (f : Flow) : (l : List Ast) →
    evalAll sem l f = allV (fun a => eval sem a f) l
  | [] => by simp [evalAll, allV]
  | t :: l => by simp only [evalAll, allV]; rw [← eval_evalV sem f t, ← evalAll_allV sem f l]
theorem evalAny_anyV {Flow : Type} (sem : Sem Flow) (f : Flow) : (l : List Ast) →
    evalAny sem l f = anyV (fun a => eval sem a f) l
  | [] => by simp [evalAny, anyV]
  | t :: l => by simp only [evalAny, anyV]; rw [← eval_evalV sem f t, ← evalAny_anyV sem f l]
end

mutual
theorem evalV_congr (v v' : Ast → Bool) : (t : Ast) → (∀ a ∈ leaves t, v a = v' a) → evalV v t = evalV v' t
  | .unary c, h => by simpa [evalV, leaves] using h
  | .rex c a, h => by simpa [evalV, leaves] using h
  | .int c n, h => by simpa [evalV, leaves] using h
  | .not t, h => by simp only [evalV]; rw [evalV_congr v v' t (by simpa [leaves] using h)]
  | .and l, h => by simp only [evalV]; exact allV_congr v v' l (by simpa [leaves] using h)
  | .or l, h => by simp only [evalV]; exact anyV_congr v v' l (by simpa [leaves] using h)
theorem allV_congr (v v' : Ast → Bool) : (l : List Ast) → (∀ a ∈ leavesL l, v a = v' a) → allV v l = allV v' l
  | [], _ => rfl
  | t :: l, h => by
    simp only [allV]
    rw [evalV_congr v v' t (fun a ha => h a (by simp [leavesL, ha])),
        allV_congr v v' l (fun a ha => h a (by simp [leavesL, ha]))]
theorem anyV_congr (v v' : Ast → Bool) : (l : List Ast) → (∀ a ∈ leavesL l, v a = v' a) → anyV v l = anyV v' l
  | [], _ => rfl
  | t :: l, h => by
    simp only [anyV]
    rw [evalV_congr v v' t (fun a ha => h a (by simp [leavesL, ha])),
        anyV_congr v v' l (fun a ha => h a (by simp [leavesL, ha]))]
end

theorem perm_all {α : Type} (p : α → Bool) {l l' : List α} (h : l.Perm l') : l.all p = l'.all p := by
  induction h with
  | nil => rfl
  | cons x _ ih => simp [ih]
  | swap x y l => simp [Bool.and_left_comm]
  | trans _ _ ih1 ih2 => rw [ih1, ih2]

theorem perm_any {α : Type} (p : α → Bool) {l l' : List α} (h : l.Perm l') : l.any p = l'.any p := by
  induction h with
  | nil => rfl
  | cons x _ ih => simp [ih]
  | swap x y l => simp [Bool.or_left_comm]
  | trans _ _ ih1 ih2 => rw [ih1, ih2]

end MitmVerif.C42
