/-
  C43 — helper lemmas: sorted insertion, the frame of the focus-side functions, the core invariant.
-/
import MitmVerif.Model.C43
set_option linter.unusedSectionVars false
set_option linter.unusedSimpArgs false
set_option linter.unusedVariables false
namespace MitmVerif.C43

/-! ### sorted insertion -/

def SortedBy (k : Nat → Nat) (l : List Nat) : Prop := l.Pairwise (fun a b => k a ≤ k b)

theorem mem_sortedInsert (k : Nat → Nat) (x y : Nat) (l : List Nat) :
    y ∈ sortedInsert k x l ↔ y = x ∨ y ∈ l := by
  induction l with
  | nil => simp [sortedInsert]
  | cons z zs ih =>
    unfold sortedInsert
    split
    · simp only [List.mem_cons, ih]
      constructor
      · rintro (h | h | h)
        · exact Or.inr (Or.inl h)
        · exact Or.inl h
        · exact Or.inr (Or.inr h)
      · rintro (h | h | h)
        · exact Or.inr (Or.inl h)
        · exact Or.inl h
        · exact Or.inr (Or.inr h)
    · simp [List.mem_cons]

theorem sortedInsert_perm (k : Nat → Nat) (x : Nat) (l : List Nat) : (sortedInsert k x l).Perm (x :: l) := by
  induction l with
  | nil => simp [sortedInsert]
  | cons z zs ih =>
    unfold sortedInsert
    split
    · exact (List.Perm.cons z ih).trans (List.Perm.swap x z zs)
    · exact List.Perm.refl _

theorem sortedInsert_nodup (k : Nat → Nat) (x : Nat) (l : List Nat) (hx : x ∉ l) (hl : l.Nodup) :
    (sortedInsert k x l).Nodup :=
  (sortedInsert_perm k x l).nodup_iff.mpr (List.nodup_cons.mpr ⟨hx, hl⟩)

theorem sortedInsert_sorted (k : Nat → Nat) (x : Nat) (l : List Nat) (h : SortedBy k l) :
    SortedBy k (sortedInsert k x l) := by
  induction l with
  | nil => simp [sortedInsert, SortedBy]
  | cons z zs ih =>
    unfold SortedBy at h ih ⊢
    rw [List.pairwise_cons] at h
    unfold sortedInsert
    split
    · rename_i hle
      rw [List.pairwise_cons]
      refine ⟨?_, ih h.2⟩
      intro a ha
      rcases (mem_sortedInsert k x a zs).mp ha with ha | ha
      · subst ha; exact hle
      · exact h.1 a ha
    · rename_i hnle
      rw [List.pairwise_cons]
      refine ⟨?_, List.pairwise_cons.mpr h⟩
      intro a ha
      rcases List.mem_cons.mp ha with ha | ha
      · subst ha; omega
      · have := h.1 a ha; omega

theorem sortedBy_congr {k k' : Nat → Nat} {l : List Nat} (hk : ∀ a ∈ l, k a = k' a) (h : SortedBy k l) :
    SortedBy k' l := by
  unfold SortedBy at h ⊢
  induction l with
  | nil => exact List.Pairwise.nil
  | cons z zs ih =>
    rw [List.pairwise_cons] at h ⊢
    refine ⟨?_, ih (fun a ha => hk a (List.mem_cons_of_mem _ ha)) h.2⟩
    intro a ha
    rw [← hk z (List.mem_cons_self ..), ← hk a (List.mem_cons_of_mem _ ha)]
    exact h.1 a ha

theorem sortedBy_erase {k : Nat → Nat} {l : List Nat} (x : Nat) (h : SortedBy k l) : SortedBy k (l.erase x) :=
  List.Pairwise.sublist List.erase_sublist h

/-- stable insertion sort used by `set_order` -/
def insertAll (k : Nat → Nat) (l : List Nat) : List Nat := l.foldl (fun acc x => sortedInsert k x acc) []

theorem foldl_insert_perm (k : Nat → Nat) (l acc : List Nat) :
    (l.foldl (fun acc x => sortedInsert k x acc) acc).Perm (l ++ acc) := by
  induction l generalizing acc with
  | nil => simp
  | cons x xs ih =>
    simp only [List.foldl_cons]
    refine (ih _).trans ?_
    refine (List.Perm.append_left xs (sortedInsert_perm k x acc)).trans ?_
    simpa using (List.perm_middle (a := x) (l₁ := xs) (l₂ := acc))

theorem foldl_insert_sorted (k : Nat → Nat) (l acc : List Nat) (h : SortedBy k acc) :
    SortedBy k (l.foldl (fun acc x => sortedInsert k x acc) acc) := by
  induction l generalizing acc with
  | nil => exact h
  | cons x xs ih => simp only [List.foldl_cons]; exact ih _ (sortedInsert_sorted k x acc h)

/-! ### the frame of the focus-side functions -/

/-- signals other than `Focus.sig_change` -/
def sigs (s : VS) : List Sig := s.trace.filter (fun g => g != .fchange)

/-- what `probe`, the focus setter and the three focus handlers may change: the focus, the crash flag, the
    trace (only by `fchange`), settings entries of stored flows, and cache cells that were empty (filled with the
    fresh key) -/
structure Frame (s s' : VS) : Prop where
  attrs : s'.attrs = s.attrs
  store : s'.store = s.store
  view : s'.view = s.view
  filt : s'.filt = s.filt
  showMarked : s'.showMarked = s.showMarked
  slot : s'.slot = s.slot
  reversed : s'.reversed = s.reversed
  focusFollow : s'.focusFollow = s.focusFollow
  err : s'.err = s.err
  settings : ∀ g, g ∈ s'.settings → g ∈ s.settings ∨ g ∈ s.store
  settingsMono : ∀ g, g ∈ s.settings → g ∈ s'.settings
  cache : ∀ g sl, s'.cache g sl = s.cache g sl ∨ (s.cache g sl = none ∧ sl = s.slot ∧ s'.cache g sl = some (gen s g))
  sigs : sigs s' = sigs s
  crashMono : s.crash = true → s'.crash = true

theorem Frame.refl (s : VS) : Frame s s :=
  ⟨rfl, rfl, rfl, rfl, rfl, rfl, rfl, rfl, rfl, fun _ h => Or.inl h, fun _ h => h, fun _ _ => Or.inl rfl, rfl, fun h => h⟩

theorem gen_eq_of {s s' : VS} (ha : s'.attrs = s.attrs) (hs : s'.slot = s.slot) (g : Nat) : gen s' g = gen s g := by
  simp [gen, ha, hs]

theorem Frame.trans {a b c : VS} (h1 : Frame a b) (h2 : Frame b c) : Frame a c := by
  refine ⟨h2.attrs.trans h1.attrs, h2.store.trans h1.store, h2.view.trans h1.view, h2.filt.trans h1.filt,
    h2.showMarked.trans h1.showMarked, h2.slot.trans h1.slot, h2.reversed.trans h1.reversed,
    h2.focusFollow.trans h1.focusFollow, h2.err.trans h1.err, ?_, ?_, ?_, h2.sigs.trans h1.sigs, ?_⟩
  · intro g hg
    rcases h2.settings g hg with h | h
    · exact h1.settings g h
    · exact Or.inr (h1.store ▸ h)
  · intro g hg; exact h2.settingsMono g (h1.settingsMono g hg)
  · intro g sl
    rcases h2.cache g sl with h | ⟨hn, hsl, hv⟩
    · rw [h]; exact h1.cache g sl
    · rcases h1.cache g sl with h' | ⟨hn', _, hv'⟩
      · right
        refine ⟨h' ▸ hn, hsl.trans h1.slot, ?_⟩
        rw [hv, gen_eq_of h1.attrs h1.slot]
      · rw [hv'] at hn; cases hn
  · intro h; exact h2.crashMono (h1.crashMono h)

theorem sigs_emit_fchange (s : VS) : sigs (emit s .fchange) = sigs s := by
  simp [sigs, emit, List.filter_append]

theorem sigs_emit (s : VS) (g : Sig) (hg : g ≠ .fchange) : sigs (emit s g) = sigs s ++ [g] := by
  simp [sigs, emit, List.filter_append, hg]

theorem frame_ensure (s : VS) (f : Nat) (hf : f ∈ s.store) : Frame s (ensure s f) := by
  unfold ensure
  split
  · exact Frame.refl s
  · refine ⟨rfl, rfl, rfl, rfl, rfl, rfl, rfl, rfl, rfl, ?_, ?_, fun _ _ => Or.inl rfl, rfl, fun h => h⟩
    · intro g hg
      simp only [List.mem_append, List.mem_singleton] at hg
      rcases hg with hg | hg
      · exact Or.inl hg
      · exact Or.inr (hg ▸ hf)
    · intro g hg; simp [hg]

theorem ensure_fields (s : VS) (f : Nat) :
    (ensure s f).attrs = s.attrs ∧ (ensure s f).store = s.store ∧ (ensure s f).view = s.view ∧
    (ensure s f).cache = s.cache ∧ (ensure s f).slot = s.slot ∧ (ensure s f).focus = s.focus ∧
    (ensure s f).crash = s.crash ∧ (ensure s f).trace = s.trace ∧ (ensure s f).filt = s.filt ∧
    (ensure s f).showMarked = s.showMarked ∧ (ensure s f).reversed = s.reversed ∧
    (ensure s f).focusFollow = s.focusFollow ∧ (ensure s f).err = s.err := by
  unfold ensure; split <;> simp

theorem mem_ensure (s : VS) (f g : Nat) : g ∈ (ensure s f).settings ↔ g ∈ s.settings ∨ g = f := by
  unfold ensure
  split
  · rename_i h
    constructor
    · exact Or.inl
    · rintro (h' | h')
      · exact h'
      · exact h' ▸ h
  · simp

/-- filling an empty cache cell of a stored flow with the fresh key -/
theorem frame_freshen_none (s : VS) (f : Nat) (hf : f ∈ s.store) (hn : s.cache f s.slot = none) :
    Frame s (freshen s f) := by
  have e := ensure_fields s f
  refine ⟨?_, ?_, ?_, ?_, ?_, ?_, ?_, ?_, ?_, ?_, ?_, ?_, ?_, ?_⟩ <;> simp only [freshen, setCache]
  · exact e.1
  · exact e.2.1
  · exact e.2.2.1
  · exact e.2.2.2.2.2.2.2.2.1
  · exact e.2.2.2.2.2.2.2.2.2.1
  · exact e.2.2.2.2.1
  · exact e.2.2.2.2.2.2.2.2.2.2.1
  · exact e.2.2.2.2.2.2.2.2.2.2.2.1
  · exact e.2.2.2.2.2.2.2.2.2.2.2.2
  · intro g hg
    rcases (mem_ensure s f g).mp hg with h | h
    · exact Or.inl h
    · exact Or.inr (h ▸ hf)
  · intro g hg; exact (mem_ensure s f g).mpr (Or.inl hg)
  · intro g sl
    by_cases h : g = f ∧ sl = s.slot
    · right
      obtain ⟨h1, h2⟩ := h
      subst h1; subst h2
      simp [hn]
    · left; simp [h]
  · simp [sigs, e.2.2.2.2.2.2.2.1]
  · intro h; rw [e.2.2.2.2.2.2.1]; exact h

theorem frame_okey (s : VS) (f : Nat) : Frame s (okey s f).1 := by
  unfold okey
  split
  · rename_i hf
    split
    · exact frame_ensure s f hf
    · rename_i hn; exact frame_freshen_none s f hf hn
  · exact Frame.refl s

theorem frame_probe (s : VS) (f : Nat) : Frame s (probe s f) := by
  unfold probe
  split
  · exact Frame.refl s
  · exact frame_okey s f

theorem okey_focus (s : VS) (f : Nat) : (okey s f).1.focus = s.focus ∧ (okey s f).1.crash = s.crash := by
  unfold okey
  split
  · split
    · exact ⟨(ensure_fields s f).2.2.2.2.2.1, (ensure_fields s f).2.2.2.2.2.2.1⟩
    · simp only [freshen, setCache]
      exact ⟨(ensure_fields s f).2.2.2.2.2.1, (ensure_fields s f).2.2.2.2.2.2.1⟩
  · exact ⟨rfl, rfl⟩

theorem probe_focus (s : VS) (f : Nat) : (probe s f).focus = s.focus ∧ (probe s f).crash = s.crash := by
  unfold probe
  split
  · exact ⟨rfl, rfl⟩
  · exact okey_focus s f

theorem frame_focus_update (s : VS) (o : Option Nat) : Frame s (emit { s with focus := o } .fchange) :=
  ⟨rfl, rfl, rfl, rfl, rfl, rfl, rfl, rfl, rfl, fun _ h => Or.inl h, fun _ h => h, fun _ _ => Or.inl rfl,
    by rw [sigs_emit_fchange]; rfl, fun h => h⟩

theorem frame_crash (s : VS) : Frame s { s with crash := true } :=
  ⟨rfl, rfl, rfl, rfl, rfl, rfl, rfl, rfl, rfl, fun _ h => Or.inl h, fun _ h => h, fun _ _ => Or.inl rfl, rfl, fun _ => rfl⟩

theorem frame_setFocus (s : VS) (o : Option Nat) : Frame s (setFocus s o) := by
  cases o with
  | none => exact frame_focus_update s none
  | some f =>
    simp only [setFocus]
    split
    · exact (frame_probe s f).trans (frame_focus_update _ _)
    · exact (frame_probe s f).trans (frame_crash _)

theorem frame_focusAt (s : VS) (i : Nat) : Frame s (focusAt s i) := by
  unfold focusAt
  split
  · exact frame_crash s
  · split
    · exact frame_setFocus s _
    · exact frame_crash s

theorem frame_onViewAdd (s : VS) (f : Nat) : Frame s (onViewAdd s f) := by
  unfold onViewAdd; split
  · exact frame_setFocus s _
  · exact Frame.refl s

theorem frame_onViewRemove (s : VS) (f idx : Nat) : Frame s (onViewRemove s f idx) := by
  unfold onViewRemove; split
  · exact frame_setFocus s _
  · split
    · exact frame_focusAt s _
    · exact Frame.refl s

theorem frame_nearest (s : VS) (f : Nat) : Frame s (nearest s f) := by
  unfold nearest
  exact (frame_okey s f).trans (frame_focusAt _ _)

theorem nearestIdx_lt (s : VS) (k : Nat) (h : 0 < s.view.length) : nearestIdx s k < s.view.length := by
  unfold nearestIdx; simp only; omega

theorem onRefresh_empty {s : VS} (he : s.view.isEmpty = true) : onRefresh s = setFocus s none := by
  simp [onRefresh, he]

theorem onRefresh_none {s : VS} (he : s.view.isEmpty = false) (hf : s.focus = none) : onRefresh s = focusAt s 0 := by
  simp [onRefresh, he, hf]

theorem onRefresh_in {s : VS} {f : Nat} (he : s.view.isEmpty = false) (hf : s.focus = some f)
    (hm : f ∈ (probe s f).view) : onRefresh s = probe s f := by
  simp [onRefresh, he, hf, hm]

theorem onRefresh_out {s : VS} {f : Nat} (he : s.view.isEmpty = false) (hf : s.focus = some f)
    (hm : f ∉ (probe s f).view) : onRefresh s = nearest (probe s f) f := by
  simp [onRefresh, he, hf, hm]

theorem frame_onRefresh (s : VS) : Frame s (onRefresh s) := by
  unfold onRefresh; split
  · exact frame_setFocus s _
  · split
    · exact frame_focusAt s _
    · rename_i f hf
      simp only
      split
      · exact frame_probe s f
      · exact (frame_probe s f).trans (frame_nearest _ f)

/-! ### the focus is valid after each handler -/

/-- the focus is a shown flow, or nothing when nothing is shown -/
def FocusOK (s : VS) : Prop :=
  match s.focus with
  | none => s.view = []
  | some f => f ∈ s.view

theorem setFocus_some_eq {s : VS} {f : Nat} (hf : f ∈ s.view) :
    setFocus s (some f) = emit { probe s f with focus := some f } .fchange := by
  have hv : f ∈ (probe s f).view := by rw [(frame_probe s f).view]; exact hf
  simp only [setFocus, hv, if_true]

theorem setFocus_some {s : VS} {f : Nat} (hf : f ∈ s.view) :
    (setFocus s (some f)).focus = some f ∧ (setFocus s (some f)).crash = s.crash := by
  rw [setFocus_some_eq hf]
  exact ⟨rfl, (probe_focus s f).2⟩

theorem setFocus_none (s : VS) : (setFocus s none).focus = none ∧ (setFocus s none).crash = s.crash :=
  ⟨rfl, rfl⟩

theorem focusAt_ok {s : VS} {i : Nat} (hi : i < s.view.length) :
    (∃ g, g ∈ s.view ∧ (focusAt s i).focus = some g) ∧ (focusAt s i).crash = s.crash := by
  unfold focusAt rawIdx
  cases hr : s.reversed with
  | true =>
    simp only [if_true, hi]
    have hj : s.view.length - 1 - i < s.view.length := by omega
    rw [List.getElem?_eq_getElem hj]
    have hm : s.view[s.view.length - 1 - i] ∈ s.view := List.getElem_mem hj
    exact ⟨⟨_, hm, (setFocus_some hm).1⟩, (setFocus_some hm).2⟩
  | false =>
    simp only [Bool.false_eq_true, if_false]
    rw [List.getElem?_eq_getElem hi]
    have hm : s.view[i] ∈ s.view := List.getElem_mem hi
    exact ⟨⟨_, hm, (setFocus_some hm).1⟩, (setFocus_some hm).2⟩

theorem view_length_pos {s : VS} (h : s.view.isEmpty = false) : 0 < s.view.length := by
  cases hv : s.view with
  | nil => simp [hv] at h
  | cons a l => simp

theorem focusOK_of_frame_focus {s s' : VS} (hf : Frame s s') (hfo : s'.focus = s.focus) (h : FocusOK s) : FocusOK s' := by
  unfold FocusOK at h ⊢
  rw [hfo, hf.view]; exact h

/-- `_sig_view_refresh` always leaves a valid focus -/
theorem onRefresh_ok (s : VS) : FocusOK (onRefresh s) ∧ (onRefresh s).crash = s.crash := by
  have hfr := frame_onRefresh s
  cases he : s.view.isEmpty with
  | true =>
    rw [onRefresh_empty he] at hfr ⊢
    refine ⟨?_, (setFocus_none s).2⟩
    unfold FocusOK
    rw [(setFocus_none s).1, hfr.view]
    simpa using he
  | false =>
    have hpos := view_length_pos he
    cases hfoc : s.focus with
    | none =>
      rw [onRefresh_none he hfoc] at hfr ⊢
      obtain ⟨⟨g, hg, hfo⟩, hc⟩ := focusAt_ok (s := s) (i := 0) hpos
      refine ⟨?_, hc⟩
      unfold FocusOK; rw [hfo, hfr.view]; exact hg
    | some f =>
      have hp := frame_probe s f
      by_cases hm : f ∈ (probe s f).view
      · rw [onRefresh_in he hfoc hm]
        refine ⟨?_, (probe_focus s f).2⟩
        unfold FocusOK; rw [(probe_focus s f).1, hfoc]; exact hm
      · rw [onRefresh_out he hfoc hm] at hfr ⊢
        unfold nearest at hfr ⊢
        have ho := frame_okey (probe s f) f
        have hlen : 0 < (okey (probe s f) f).1.view.length := by rw [ho.view, hp.view]; exact hpos
        obtain ⟨⟨g, hg, hfo⟩, hc⟩ := focusAt_ok (nearestIdx_lt _ (okey (probe s f) f).2 hlen)
        refine ⟨?_, ?_⟩
        · unfold FocusOK; rw [hfo, hfr.view, ← hp.view, ← ho.view]; exact hg
        · rw [hc, (okey_focus _ f).2, (probe_focus s f).2]

/-- `_sig_view_add` for a flow that is now shown -/
theorem onViewAdd_ok {s : VS} {f : Nat} (hf : f ∈ s.view)
    (hold : ∀ g, s.focus = some g → g ∈ s.view) :
    FocusOK (onViewAdd s f) ∧ (onViewAdd s f).crash = s.crash := by
  have hfr := frame_onViewAdd s f
  cases hfoc : s.focus with
  | none =>
    have e : onViewAdd s f = setFocus s (some f) := by simp [onViewAdd, hfoc]
    rw [e] at hfr ⊢
    refine ⟨?_, (setFocus_some hf).2⟩
    unfold FocusOK; rw [(setFocus_some hf).1, hfr.view]; exact hf
  | some g =>
    have e : onViewAdd s f = s := by simp [onViewAdd, hfoc]
    rw [e]
    refine ⟨?_, rfl⟩
    unfold FocusOK; rw [hfoc]; exact hold g hfoc

/-- `_sig_view_remove` after `f` was taken out of a list in which the focus was valid -/
theorem onViewRemove_ok {s : VS} {f idx : Nat} {old : List Nat} (hv : s.view = old.erase f)
    (hfo : ∀ g, s.focus = some g → g ∈ old) (hsome : old ≠ [] → s.focus ≠ none) (hf : f ∈ old) :
    FocusOK (onViewRemove s f idx) ∧ (onViewRemove s f idx).crash = s.crash := by
  have hfr := frame_onViewRemove s f idx
  cases he : s.view.isEmpty with
  | true =>
    have e : onViewRemove s f idx = setFocus s none := by simp [onViewRemove, he]
    rw [e] at hfr ⊢
    refine ⟨?_, (setFocus_none s).2⟩
    unfold FocusOK; rw [(setFocus_none s).1, hfr.view]; simpa using he
  | false =>
    have hpos := view_length_pos he
    by_cases hfoc : s.focus = some f
    · have e : onViewRemove s f idx = focusAt s (min idx (s.view.length - 1)) := by simp [onViewRemove, he, hfoc]
      rw [e] at hfr ⊢
      have hi : min idx (s.view.length - 1) < s.view.length := by omega
      obtain ⟨⟨g, hg, hfo'⟩, hc⟩ := focusAt_ok hi
      refine ⟨?_, hc⟩
      unfold FocusOK; rw [hfo', hfr.view]; exact hg
    · have e : onViewRemove s f idx = s := by simp [onViewRemove, he, hfoc]
      rw [e]
      refine ⟨?_, rfl⟩
      unfold FocusOK
      cases hfc : s.focus with
      | none =>
        exfalso
        exact hsome (fun h0 => by rw [h0] at hf; simp at hf) hfc
      | some g =>
        simp only
        rw [hv]
        have hne : g ≠ f := fun h => hfoc (by rw [hfc, h])
        exact (List.mem_erase_of_ne hne).mpr (hfo g hfc)

end MitmVerif.C43
