/-
  C43 — the core invariant and what each building block of the operations does to it.
-/
import MitmVerif.Lemmas.C43
set_option linter.unusedSectionVars false
set_option linter.unusedSimpArgs false
set_option linter.unusedVariables false
namespace MitmVerif.C43

/-- the invariant of store/view/cache; `D` lists the flows whose attributes have changed since the view last
    evaluated them (their cached key may be stale and they may be on the wrong side of the filter) -/
structure Core (s : VS) (D : List Nat) : Prop where
  storeNodup : s.store.Nodup
  viewNodup : s.view.Nodup
  viewSub : ∀ g, g ∈ s.view → g ∈ s.store
  sorted : SortedBy (ck s) s.view
  cached : ∀ g, g ∈ s.view → ∃ k, s.cache g s.slot = some k ∧ (g ∉ D → k = gen s g)
  vis : ∀ g, g ∈ s.store → g ∉ D → (g ∈ s.view ↔ visible s g = true)

/-- settings entries of the result are old entries or belong to stored flows -/
def SB (s s' : VS) : Prop := ∀ g, g ∈ s'.settings → g ∈ s.settings ∨ g ∈ s.store

theorem SB.refl (s : VS) : SB s s := fun _ h => Or.inl h

theorem SB.trans {a b c : VS} (h1 : SB a b) (h2 : SB b c) (hst : b.store = a.store) : SB a c := by
  intro g hg
  rcases h2 g hg with h | h
  · exact h1 g h
  · exact Or.inr (hst ▸ h)

theorem SB.of_frame {s s' : VS} (h : Frame s s') : SB s s' := h.settings

theorem SB.of_eq {s s' : VS} (h : s'.settings = s.settings) : SB s s' := fun g hg => Or.inl (h ▸ hg)

theorem visible_eq_of {s s' : VS} (ha : s'.attrs = s.attrs) (hm : s'.showMarked = s.showMarked)
    (hf : s'.filt = s.filt) (g : Nat) : visible s' g = visible s g := by
  simp [visible, ha, hm, hf]

/-- states that agree on everything the invariant talks about -/
theorem core_same {s s' : VS} {x : List Nat} (h : Core s x)
    (ha : s'.attrs = s.attrs) (hst : s'.store = s.store) (hv : s'.view = s.view)
    (hc : s'.cache = s.cache) (hf : s'.filt = s.filt) (hm : s'.showMarked = s.showMarked) (hsl : s'.slot = s.slot) :
    Core s' x := by
  have hck : ck s' = ck s := by funext g; simp [ck, hc, hsl]
  refine ⟨hst ▸ h.storeNodup, hv ▸ h.viewNodup, ?_, ?_, ?_, ?_⟩
  · intro g hg; rw [hst]; exact h.viewSub g (hv ▸ hg)
  · rw [hv, hck]; exact h.sorted
  · intro g hg
    obtain ⟨k, h1, h2⟩ := h.cached g (hv ▸ hg)
    exact ⟨k, by rw [hc, hsl]; exact h1, fun hx => by rw [gen_eq_of ha hsl]; exact h2 hx⟩
  · intro g hg hx
    rw [hv, visible_eq_of ha hm hf]; exact h.vis g (hst ▸ hg) hx

theorem core_emit {s : VS} {x : List Nat} (h : Core s x) (g : Sig) : Core (emit s g) x :=
  core_same h rfl rfl rfl rfl rfl rfl rfl

theorem ck_frame {s s' : VS} {x : List Nat} (h : Core s x) (hf : Frame s s') (g : Nat) (hg : g ∈ s.view) :
    s'.cache g s'.slot = s.cache g s.slot := by
  obtain ⟨k, h1, _⟩ := h.cached g hg
  rw [hf.slot]
  rcases hf.cache g s.slot with h' | ⟨hn, _, _⟩
  · exact h'
  · rw [h1] at hn; cases hn

theorem core_frame {s s' : VS} {x : List Nat} (h : Core s x) (hf : Frame s s') : Core s' x := by
  refine ⟨hf.store ▸ h.storeNodup, hf.view ▸ h.viewNodup, ?_, ?_, ?_, ?_⟩
  · intro g hg; rw [hf.store]; exact h.viewSub g (hf.view ▸ hg)
  · rw [hf.view]
    apply sortedBy_congr _ h.sorted
    intro a ha
    simp only [ck, ck_frame h hf a ha]
  · intro g hg
    have hg' : g ∈ s.view := hf.view ▸ hg
    obtain ⟨k, h1, h2⟩ := h.cached g hg'
    exact ⟨k, by rw [ck_frame h hf g hg']; exact h1, fun hx => by rw [gen_eq_of hf.attrs hf.slot]; exact h2 hx⟩
  · intro g hg hx
    rw [hf.view, visible_eq_of hf.attrs hf.showMarked hf.filt]; exact h.vis g (hf.store ▸ hg) hx

theorem core_weaken {s : VS} {D D' : List Nat} (h : Core s D) (hsub : ∀ g, g ∈ D → g ∈ D') : Core s D' :=
  ⟨h.storeNodup, h.viewNodup, h.viewSub, h.sorted,
    fun g hg => by obtain ⟨k, h1, h2⟩ := h.cached g hg; exact ⟨k, h1, fun hx => h2 (fun hd => hx (hsub g hd))⟩,
    fun g hg hx => h.vis g hg (fun hd => hx (hsub g hd))⟩

theorem not_mem_without {D : List Nat} {f g : Nat} (hne : g ≠ f) (h : g ∉ D.filter (fun x => x != f)) : g ∉ D := by
  intro hd; apply h; rw [List.mem_filter]; exact ⟨hd, by simpa using hne⟩

/-- a flow becomes current again once it is on the right side of the filter with a fresh key -/
theorem core_drop {s : VS} {D : List Nat} {f : Nat} (h : Core s D)
    (hv : f ∈ s.store → (f ∈ s.view ↔ visible s f = true))
    (hc : f ∈ s.view → s.cache f s.slot = some (gen s f)) : Core s (D.filter (fun x => x != f)) := by
  refine ⟨h.storeNodup, h.viewNodup, h.viewSub, h.sorted, ?_, ?_⟩
  · intro g hg
    by_cases hgf : g = f
    · subst hgf; exact ⟨_, hc hg, fun _ => rfl⟩
    · obtain ⟨k, h1, h2⟩ := h.cached g hg
      exact ⟨k, h1, fun hx => h2 (not_mem_without hgf hx)⟩
  · intro g hg hx
    by_cases hgf : g = f
    · subst hgf; exact hv hg
    · exact h.vis g hg (not_mem_without hgf hx)

theorem core_setAttr {s : VS} {D : List Nat} (h : Core s D) (f : Nat) (a : Attr) : Core (setAttr s f a) (f :: D) := by
  refine ⟨h.storeNodup, h.viewNodup, h.viewSub, h.sorted, ?_, ?_⟩
  · intro g hg
    obtain ⟨k, h1, h2⟩ := h.cached g hg
    refine ⟨k, h1, fun hx => ?_⟩
    have hx' : g ≠ f ∧ g ∉ D := by simpa using hx
    rw [h2 hx'.2]
    try simp [gen, setAttr, hx'.1]
  · intro g hg hx
    have hx' : g ≠ f ∧ g ∉ D := by simpa using hx
    have : visible (setAttr s f a) g = visible s g := by simp [visible, setAttr, hx'.1]
    rw [this]; exact h.vis g hg hx'.2

/-! ### cache writes -/

theorem setCache_fields (s : VS) (f v : Nat) :
    (setCache s f v).attrs = s.attrs ∧ (setCache s f v).store = s.store ∧ (setCache s f v).view = s.view ∧
    (setCache s f v).slot = s.slot ∧ (setCache s f v).filt = s.filt ∧ (setCache s f v).showMarked = s.showMarked ∧
    (setCache s f v).focus = s.focus ∧ (setCache s f v).crash = s.crash ∧ (setCache s f v).trace = s.trace ∧
    (setCache s f v).reversed = s.reversed ∧ (setCache s f v).focusFollow = s.focusFollow ∧
    (setCache s f v).err = s.err := by
  have e := ensure_fields s f
  simp only [setCache]
  exact ⟨e.1, e.2.1, e.2.2.1, e.2.2.2.2.1, e.2.2.2.2.2.2.2.2.1, e.2.2.2.2.2.2.2.2.2.1, e.2.2.2.2.2.1,
    e.2.2.2.2.2.2.1, e.2.2.2.2.2.2.2.1, e.2.2.2.2.2.2.2.2.2.2.1, e.2.2.2.2.2.2.2.2.2.2.2.1, e.2.2.2.2.2.2.2.2.2.2.2.2⟩

theorem setCache_cache (s : VS) (f v g sl : Nat) :
    (setCache s f v).cache g sl = if g = f ∧ sl = s.slot then some v else s.cache g sl := by
  simp only [setCache]
  try rw [(ensure_fields s f).2.2.2.1, (ensure_fields s f).2.2.2.2.1]

theorem setCache_self (s : VS) (f v : Nat) : (setCache s f v).cache f (setCache s f v).slot = some v := by
  rw [(setCache_fields s f v).2.2.2.1, setCache_cache]; simp

theorem setCache_other (s : VS) (f v g : Nat) (h : g ≠ f) :
    (setCache s f v).cache g (setCache s f v).slot = s.cache g s.slot := by
  rw [(setCache_fields s f v).2.2.2.1, setCache_cache]; simp [h]

theorem ck_setCache_other (s : VS) (f v g : Nat) (h : g ≠ f) : ck (setCache s f v) g = ck s g := by
  simp only [ck, setCache_other s f v g h]

theorem mem_setCache_settings (s : VS) (f v g : Nat) : g ∈ (setCache s f v).settings ↔ g ∈ s.settings ∨ g = f := by
  simp only [setCache]; exact mem_ensure s f g

theorem sigs_of_trace {s s' : VS} (h : s'.trace = s.trace) : sigs s' = sigs s := by simp [sigs, h]

/-! ### `_base_add` -/

theorem baseAdd_fields (s : VS) (f : Nat) :
    (baseAdd s f).attrs = s.attrs ∧ (baseAdd s f).store = s.store ∧ (baseAdd s f).slot = s.slot ∧
    (baseAdd s f).filt = s.filt ∧ (baseAdd s f).showMarked = s.showMarked ∧ (baseAdd s f).focus = s.focus ∧
    (baseAdd s f).crash = s.crash ∧ (baseAdd s f).trace = s.trace ∧ (baseAdd s f).reversed = s.reversed ∧
    (baseAdd s f).focusFollow = s.focusFollow ∧ (baseAdd s f).err = s.err ∧
    (baseAdd s f).view = sortedInsert (ck (freshen s f)) f s.view := by
  have e := setCache_fields s f (gen s f)
  simp only [baseAdd, freshen]
  exact ⟨e.1, e.2.1, e.2.2.2.1, e.2.2.2.2.1, e.2.2.2.2.2.1, e.2.2.2.2.2.2.1, e.2.2.2.2.2.2.2.1,
    e.2.2.2.2.2.2.2.2.1, e.2.2.2.2.2.2.2.2.2.1, e.2.2.2.2.2.2.2.2.2.2.1, e.2.2.2.2.2.2.2.2.2.2.2, by rw [e.2.2.1]⟩

theorem mem_baseAdd_view (s : VS) (f g : Nat) : g ∈ (baseAdd s f).view ↔ g = f ∨ g ∈ s.view := by
  rw [(baseAdd_fields s f).2.2.2.2.2.2.2.2.2.2.2, mem_sortedInsert]

theorem baseAdd_cache (s : VS) (f g sl : Nat) :
    (baseAdd s f).cache g sl = if g = f ∧ sl = s.slot then some (gen s f) else s.cache g sl := by
  simp only [baseAdd, freshen]; exact setCache_cache s f _ g sl

theorem mem_baseAdd_settings (s : VS) (f g : Nat) : g ∈ (baseAdd s f).settings ↔ g ∈ s.settings ∨ g = f := by
  simp only [baseAdd, freshen]; exact mem_setCache_settings s f _ g

/-- inserting a stored, not yet shown flow with a fresh key -/
theorem core_baseAdd {s : VS} {D : List Nat} {f : Nat} (h : Core s D) (hD : f ∈ D) (hst : f ∈ s.store) (hnv : f ∉ s.view) :
    Core (baseAdd s f) D ∧ (baseAdd s f).cache f (baseAdd s f).slot = some (gen (baseAdd s f) f) := by
  have e := baseAdd_fields s f
  have hgen : ∀ g, gen (baseAdd s f) g = gen s g := gen_eq_of e.1 e.2.2.1
  have hself : (baseAdd s f).cache f (baseAdd s f).slot = some (gen s f) := by
    rw [e.2.2.1, baseAdd_cache]; simp
  have hoth : ∀ g, g ≠ f → (baseAdd s f).cache g (baseAdd s f).slot = s.cache g s.slot := by
    intro g hg; rw [e.2.2.1, baseAdd_cache]; simp [hg]
  have hck : ∀ g, g ∈ s.view → ck (baseAdd s f) g = ck (freshen s f) g := by
    intro g hg
    have hne : g ≠ f := fun h' => hnv (h' ▸ hg)
    simp only [ck, hoth g hne, freshen, setCache_other s f _ g hne]
  have hckf : ck (baseAdd s f) f = ck (freshen s f) f := by
    simp only [ck, hself, freshen, setCache_self]
  refine ⟨⟨e.2.1 ▸ h.storeNodup, ?_, ?_, ?_, ?_, ?_⟩, by rw [hself, hgen]⟩
  · rw [e.2.2.2.2.2.2.2.2.2.2.2]; exact sortedInsert_nodup _ _ _ hnv h.viewNodup
  · intro g hg
    rw [e.2.1]
    rcases (mem_baseAdd_view s f g).mp hg with hg | hg
    · exact hg ▸ hst
    · exact h.viewSub g hg
  · rw [e.2.2.2.2.2.2.2.2.2.2.2]
    apply sortedBy_congr (k := ck (freshen s f))
    · intro a ha
      rcases (mem_sortedInsert _ _ _ _).mp ha with ha | ha
      · rw [ha, hckf]
      · rw [hck a ha]
    · apply sortedInsert_sorted
      apply sortedBy_congr _ h.sorted
      intro a ha
      have hne : a ≠ f := fun h' => hnv (h' ▸ ha)
      simp only [freshen, ck_setCache_other s f _ a hne]
  · intro g hg
    by_cases hgf : g = f
    · subst hgf; exact ⟨_, hself, fun _ => (hgen g).symm⟩
    · rcases (mem_baseAdd_view s f g).mp hg with hg' | hg'
      · exact absurd hg' hgf
      · obtain ⟨k, h1, h2⟩ := h.cached g hg'
        exact ⟨k, by rw [hoth g hgf]; exact h1, fun hx => by rw [hgen]; exact h2 hx⟩
  · intro g hg hx
    have hne : g ≠ f := fun h' => hx (h' ▸ hD)
    rw [mem_baseAdd_view, visible_eq_of e.1 e.2.2.2.2.1 e.2.2.2.1]
    rw [e.2.1] at hg
    constructor
    · rintro (h' | h')
      · exact absurd h' hne
      · exact (h.vis g hg hx).mp h'
    · intro h'; exact Or.inr ((h.vis g hg hx).mpr h')

theorem sb_baseAdd (s : VS) (f : Nat) (hst : f ∈ s.store) : SB s (baseAdd s f) := by
  intro g hg
  rcases (mem_baseAdd_settings s f g).mp hg with hg | hg
  · exact Or.inl hg
  · exact Or.inr (hg ▸ hst)

/-- a valid focus stays valid when the list only grows -/
theorem focus_mono {s s' : VS} (hfo : s'.focus = s.focus) (hsub : ∀ g, g ∈ s.view → g ∈ s'.view)
    (g : Nat) (hg : s'.focus = some g) (hok : ∀ g, s.focus = some g → g ∈ s.view) : g ∈ s'.view :=
  hsub g (hok g (hfo ▸ hg))

/-- everything `enterView` guarantees -/
structure EnterSpec (s s' : VS) (D : List Nat) (f : Nat) : Prop where
  core : Core s' (D.filter (fun x => x != f))
  focus : FocusOK s'
  crash : s'.crash = s.crash
  sigs : sigs s' = sigs s ++ [.vadd f]
  view : ∀ g, g ∈ s'.view ↔ g = f ∨ g ∈ s.view
  store : s'.store = s.store
  err : s'.err = s.err
  slot : s'.slot = s.slot
  reversed : s'.reversed = s.reversed
  settings : SB s s'

theorem enterView_spec {s : VS} {D : List Nat} {f : Nat} (h : Core s D) (hD : f ∈ D) (hst : f ∈ s.store) (hnv : f ∉ s.view)
    (hvis : visible s f = true) (hfo : ∀ g, s.focus = some g → g ∈ s.view) : EnterSpec s (enterView s f) D f := by
  obtain ⟨hc, hfresh⟩ := core_baseAdd h hD hst hnv
  have e := baseAdd_fields s f
  have hfin : f ∈ (baseAdd s f).view := (mem_baseAdd_view s f f).mpr (Or.inl rfl)
  -- focus-follow
  let s3 := if (baseAdd s f).focusFollow then setFocus (baseAdd s f) (some f) else baseAdd s f
  have hf3 : Frame (baseAdd s f) s3 := by
    simp only [s3]; split
    · exact frame_setFocus _ _
    · exact Frame.refl _
  have hfo3 : ∀ g, s3.focus = some g → g ∈ s3.view := by
    intro g hg
    rw [hf3.view]
    simp only [s3] at hg
    split at hg
    · rw [(setFocus_some hfin).1] at hg
      cases hg; exact hfin
    · rw [e.2.2.2.2.2.1] at hg
      exact (mem_baseAdd_view s f g).mpr (Or.inr (hfo g hg))
  have hcr3 : s3.crash = s.crash := by
    simp only [s3]; split
    · rw [(setFocus_some hfin).2]; exact e.2.2.2.2.2.2.1
    · exact e.2.2.2.2.2.2.1
  have hfin3 : f ∈ s3.view := hf3.view ▸ hfin
  obtain ⟨hok, hcr4⟩ := onViewAdd_ok hfin3 hfo3
  have hf4 : Frame (baseAdd s f) (onViewAdd s3 f) := hf3.trans (frame_onViewAdd s3 f)
  have hcore4 : Core (onViewAdd s3 f) D := core_frame hc hf4
  have hvis4 : visible (onViewAdd s3 f) f = visible s f := by
    rw [visible_eq_of hf4.attrs hf4.showMarked hf4.filt, visible_eq_of e.1 e.2.2.2.2.1 e.2.2.2.1]
  have hcache4 : (onViewAdd s3 f).cache f (onViewAdd s3 f).slot = some (gen (onViewAdd s3 f) f) := by
    rw [ck_frame hc hf4 f hfin, hfresh, gen_eq_of hf4.attrs hf4.slot]
  have hcore5 : Core (onViewAdd s3 f) (D.filter (fun x => x != f)) :=
    core_drop hcore4 (fun _ => ⟨fun _ => by rw [hvis4]; exact hvis, fun _ => hf4.view ▸ hfin⟩) (fun _ => hcache4)
  have hunf : enterView s f = emit (onViewAdd s3 f) (.vadd f) := rfl
  rw [hunf]
  refine ⟨core_emit hcore5 _, ?_, ?_, ?_, ?_, ?_, ?_, ?_, ?_, ?_⟩
  · exact hok
  · show (onViewAdd s3 f).crash = s.crash
    rw [hcr4, hcr3]
  · rw [sigs_emit _ _ (by simp), hf4.sigs, sigs_of_trace e.2.2.2.2.2.2.2.1]
  · intro g
    show g ∈ (onViewAdd s3 f).view ↔ _
    rw [hf4.view]; exact mem_baseAdd_view s f g
  · show (onViewAdd s3 f).store = s.store
    rw [hf4.store]; exact e.2.1
  · show (onViewAdd s3 f).err = s.err
    rw [hf4.err]; exact e.2.2.2.2.2.2.2.2.2.2.1
  · show (onViewAdd s3 f).slot = s.slot
    rw [hf4.slot]; exact e.2.2.1
  · show (onViewAdd s3 f).reversed = s.reversed
    rw [hf4.reversed]; exact e.2.2.2.2.2.2.2.2.1
  · have h4 : SB (baseAdd s f) (emit (onViewAdd s3 f) (.vadd f)) := fun g hg => hf4.settings g hg
    exact (sb_baseAdd s f hst).trans h4 e.2.1

/-! ### taking a flow out of the list -/

theorem core_eraseView {s : VS} {D : List Nat} {f : Nat} (h : Core s D) (hD : f ∈ D) :
    Core { s with view := s.view.erase f } D := by
  refine ⟨h.storeNodup, h.viewNodup.erase f, ?_, sortedBy_erase f h.sorted, ?_, ?_⟩
  · intro g hg; exact h.viewSub g (List.mem_of_mem_erase hg)
  · intro g hg; exact h.cached g (List.mem_of_mem_erase hg)
  · intro g hg hx
    have hne : g ≠ f := fun h' => hx (h' ▸ hD)
    show g ∈ s.view.erase f ↔ _
    rw [List.mem_erase_of_ne hne]; exact h.vis g hg hx

structure LeaveSpec (s s' : VS) (D : List Nat) (f : Nat) : Prop where
  core : Core s' D
  focus : FocusOK s'
  crash : s'.crash = s.crash
  sigs : sigs s' = sigs s ++ [.vrm f (s.view.idxOf f)]
  view : s'.view = s.view.erase f
  store : s'.store = s.store
  err : s'.err = s.err
  attrs : s'.attrs = s.attrs
  filt : s'.filt = s.filt
  showMarked : s'.showMarked = s.showMarked
  settings : SB s s'

theorem leaveView_spec {s : VS} {D : List Nat} {f : Nat} (h : Core s D) (hD : f ∈ D) (hv : f ∈ s.view) (hfo : FocusOK s) :
    LeaveSpec s (leaveView s f) D f := by
  have hc := core_eraseView h hD
  have hfr := frame_onViewRemove { s with view := s.view.erase f } f (s.view.idxOf f)
  have hok := onViewRemove_ok (s := { s with view := s.view.erase f }) (f := f) (idx := s.view.idxOf f)
    (old := s.view) rfl
    (by
      intro g hg
      unfold FocusOK at hfo
      have hg' : s.focus = some g := hg
      rw [hg'] at hfo; exact hfo)
    (by
      intro hne hnone
      unfold FocusOK at hfo
      have : s.focus = none := hnone
      rw [this] at hfo; exact hne hfo)
    hv
  have hunf : leaveView s f = emit (onViewRemove { s with view := s.view.erase f } f (s.view.idxOf f)) (.vrm f (s.view.idxOf f)) := rfl
  rw [hunf]
  refine ⟨core_emit (core_frame hc hfr) _, hok.1, hok.2, ?_, hfr.view, hfr.store, hfr.err, hfr.attrs, hfr.filt, hfr.showMarked, hfr.settings⟩
  rw [sigs_emit _ _ (by simp), hfr.sigs]; rfl

/-! ### `_OrderKey.refresh` -/

structure RefreshSpec (s s' : VS) (D : List Nat) (f : Nat) : Prop where
  core : Core s' (D.filter (fun x => x != f))
  focus : FocusOK s'
  crash : s'.crash = s.crash
  sigs : sigs s' = sigs s ∨ sigs s' = sigs s ++ [.vrefresh]
  view : ∀ g, g ∈ s'.view ↔ g ∈ s.view
  store : s'.store = s.store
  err : s'.err = s.err
  settings : SB s s'

theorem refreshKey_spec {s : VS} {D : List Nat} {f : Nat} (h : Core s D) (hD : f ∈ D) (hst : f ∈ s.store) (hv : f ∈ s.view)
    (hvis : visible s f = true) (hfo : FocusOK s) : RefreshSpec s (refreshKey s f) D f := by
  obtain ⟨old, hold, _⟩ := h.cached f hv
  have he := frame_ensure s f hst
  have ef := ensure_fields s f
  have hgen0 : gen (ensure s f) f = gen s f := gen_eq_of ef.1 ef.2.2.2.2.1 f
  by_cases heq : old = gen s f
  · have hunf : refreshKey s f = ensure s f := by
      simp only [refreshKey, hold, hgen0, heq, if_true]
    rw [hunf]
    have hc := core_frame h he
    refine ⟨core_drop hc ?_ ?_, ?_, ef.2.2.2.2.2.2.1, Or.inl he.sigs, fun g => by rw [he.view], he.store, he.err, he.settings⟩
    · intro _
      rw [he.view, visible_eq_of he.attrs he.showMarked he.filt]
      exact ⟨fun _ => hvis, fun _ => hv⟩
    · intro _
      rw [ck_frame h he f hv, hold, heq, hgen0]
    · unfold FocusOK; rw [ef.2.2.2.2.2.1, he.view]; exact hfo
  · -- remove, re-key, re-insert
    let s1 : VS := { ensure s f with view := (ensure s f).view.erase f }
    let s2 := setCache s1 f (gen s f)
    let s3 : VS := { s2 with view := sortedInsert (ck s2) f s2.view }
    have hunf : refreshKey s f = emit (onRefresh s3) .vrefresh := by
      simp only [refreshKey, hold, hgen0, heq, if_false, s3, s2, s1]
    have hc0 : Core (ensure s f) D := core_frame h he
    have hc1 : Core s1 D := core_eraseView hc0 hD
    have hnv1 : f ∉ s1.view := by
      show f ∉ (ensure s f).view.erase f
      exact fun hm => (List.Nodup.mem_erase_iff hc0.viewNodup).mp hm |>.1 rfl
    have hst1 : f ∈ s1.store := by show f ∈ (ensure s f).store; rw [ef.2.1]; exact hst
    have hgen1 : gen s1 f = gen s f := hgen0
    have hb : s3 = baseAdd s1 f := by
      simp only [s3, s2, baseAdd, freshen, hgen1]
    obtain ⟨hc3, hfresh3⟩ := core_baseAdd hc1 hD hst1 hnv1
    rw [← hb] at hc3 hfresh3
    have e3 := baseAdd_fields s1 f
    rw [← hb] at e3
    have hmem3 : ∀ g, g ∈ s3.view ↔ g ∈ s.view := by
      intro g
      rw [hb, mem_baseAdd_view]
      show g = f ∨ g ∈ (ensure s f).view.erase f ↔ _
      rw [ef.2.2.1]
      by_cases hgf : g = f
      · subst hgf; simp [hv]
      · rw [List.mem_erase_of_ne hgf]; simp [hgf]
    have hvis3 : visible s3 f = true := by
      rw [visible_eq_of e3.1 e3.2.2.2.2.1 e3.2.2.2.1]
      show visible (ensure s f) f = true
      rw [visible_eq_of ef.1 ef.2.2.2.2.2.2.2.2.2.1 ef.2.2.2.2.2.2.2.2.1]; exact hvis
    have hcore3 : Core s3 (D.filter (fun x => x != f)) :=
      core_drop hc3 (fun _ => ⟨fun _ => hvis3, fun _ => (hmem3 f).mpr hv⟩) (fun _ => hfresh3)
    have hfr := frame_onRefresh s3
    have hok := onRefresh_ok s3
    rw [hunf]
    refine ⟨core_emit (core_frame hcore3 hfr) _, hok.1, ?_, Or.inr ?_, ?_, ?_, ?_, ?_⟩
    · show (onRefresh s3).crash = s.crash
      rw [hok.2, e3.2.2.2.2.2.2.1]; exact ef.2.2.2.2.2.2.1
    · rw [sigs_emit _ _ (by simp), hfr.sigs, sigs_of_trace e3.2.2.2.2.2.2.2.1]
      congr 1
      exact he.sigs
    · intro g
      show g ∈ (onRefresh s3).view ↔ _
      rw [hfr.view]; exact hmem3 g
    · show (onRefresh s3).store = s.store
      rw [hfr.store, e3.2.1]; exact ef.2.1
    · show (onRefresh s3).err = s.err
      rw [hfr.err, e3.2.2.2.2.2.2.2.2.2.2.1]; exact ef.2.2.2.2.2.2.2.2.2.2.2.2
    · have hsb1 : SB s s1 := fun g hg => he.settings g hg
      have hsb3 : SB s1 s3 := by rw [hb]; exact sb_baseAdd s1 f hst1
      have hst1' : s1.store = s.store := ef.2.1
      have h5 : SB s3 (emit (onRefresh s3) .vrefresh) := fun g hg => hfr.settings g hg
      exact (hsb1.trans hsb3 hst1').trans h5 (e3.2.1.trans hst1')

end MitmVerif.C43
