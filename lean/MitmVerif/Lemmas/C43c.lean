/-
  C43 — the wholesale operations (`_refilter`, `set_order`, settings purge) and the specification of every
  operation: invariant preserved, and the shape of what it announces.
-/
import MitmVerif.Lemmas.C43b
set_option linter.unusedSectionVars false
set_option linter.unusedSimpArgs false
set_option linter.unusedVariables false
namespace MitmVerif.C43

/-- invariant (with `D` = the flows changed behind the view's back) + valid focus + no internal exception -/
structure Good (s : VS) (D : List Nat) : Prop where
  core : Core s D
  focus : FocusOK s
  nocrash : s.crash = false
  settings : ∀ g, g ∈ s.settings → g ∈ s.store

/-! ### `_refilter` -/

def refStep (acc : VS) (f : Nat) : VS := if visible acc f then baseAdd acc f else acc

structure LoopInv (s0 acc : VS) (done : List Nat) : Prop where
  attrs : acc.attrs = s0.attrs
  store : acc.store = s0.store
  filt : acc.filt = s0.filt
  showMarked : acc.showMarked = s0.showMarked
  slot : acc.slot = s0.slot
  reversed : acc.reversed = s0.reversed
  focusFollow : acc.focusFollow = s0.focusFollow
  focus : acc.focus = s0.focus
  crash : acc.crash = s0.crash
  trace : acc.trace = s0.trace
  err : acc.err = s0.err
  viewNodup : acc.view.Nodup
  viewIn : ∀ g, g ∈ acc.view → g ∈ done ∧ visible s0 g = true
  viewAll : ∀ g, g ∈ done → visible s0 g = true → g ∈ acc.view
  sorted : SortedBy (ck acc) acc.view
  fresh : ∀ g, g ∈ acc.view → acc.cache g acc.slot = some (gen s0 g)
  settingsSub : ∀ g, g ∈ acc.settings → g ∈ s0.settings ∨ g ∈ s0.store

theorem loop_step {s0 acc : VS} {done : List Nat} {f : Nat} (h : LoopInv s0 acc done)
    (hst : f ∈ s0.store) (hnd : f ∉ done) : LoopInv s0 (refStep acc f) (done ++ [f]) := by
  have hvis : visible acc f = visible s0 f := visible_eq_of h.attrs h.showMarked h.filt f
  have hnv : f ∉ acc.view := fun hm => hnd (h.viewIn f hm).1
  unfold refStep
  by_cases hv : visible acc f = true
  · simp only [hv, if_true]
    have e := baseAdd_fields acc f
    have hgenf : gen acc f = gen s0 f := gen_eq_of h.attrs h.slot f
    have hself : (baseAdd acc f).cache f (baseAdd acc f).slot = some (gen s0 f) := by
      rw [e.2.2.1, baseAdd_cache, ← hgenf]; simp
    have hoth : ∀ g, g ≠ f → (baseAdd acc f).cache g (baseAdd acc f).slot = acc.cache g acc.slot := by
      intro g hg; rw [e.2.2.1, baseAdd_cache]; simp [hg]
    refine ⟨e.1.trans h.attrs, e.2.1.trans h.store, e.2.2.2.1.trans h.filt, e.2.2.2.2.1.trans h.showMarked,
      e.2.2.1.trans h.slot, e.2.2.2.2.2.2.2.2.1.trans h.reversed, e.2.2.2.2.2.2.2.2.2.1.trans h.focusFollow,
      e.2.2.2.2.2.1.trans h.focus, e.2.2.2.2.2.2.1.trans h.crash, e.2.2.2.2.2.2.2.1.trans h.trace,
      e.2.2.2.2.2.2.2.2.2.2.1.trans h.err, ?_, ?_, ?_, ?_, ?_, ?_⟩
    · rw [e.2.2.2.2.2.2.2.2.2.2.2]; exact sortedInsert_nodup _ _ _ hnv h.viewNodup
    · intro g hg
      rcases (mem_baseAdd_view acc f g).mp hg with hg | hg
      · subst hg; exact ⟨by simp, hvis ▸ hv⟩
      · exact ⟨List.mem_append_left _ (h.viewIn g hg).1, (h.viewIn g hg).2⟩
    · intro g hg hgv
      rw [mem_baseAdd_view]
      rcases List.mem_append.mp hg with hg | hg
      · exact Or.inr (h.viewAll g hg hgv)
      · exact Or.inl (by simpa using hg)
    · rw [e.2.2.2.2.2.2.2.2.2.2.2]
      apply sortedBy_congr (k := ck (freshen acc f))
      · intro a ha
        rcases (mem_sortedInsert _ _ _ _).mp ha with ha | ha
        · subst ha
          simp only [ck, hself, freshen, setCache_self, hgenf]
        · have hne : a ≠ f := fun h' => hnv (h' ▸ ha)
          simp only [ck, hoth a hne, freshen, setCache_other acc f _ a hne]
      · apply sortedInsert_sorted
        apply sortedBy_congr _ h.sorted
        intro a ha
        have hne : a ≠ f := fun h' => hnv (h' ▸ ha)
        simp only [freshen, ck_setCache_other acc f _ a hne]
    · intro g hg
      by_cases hgf : g = f
      · subst hgf; exact hself
      · rcases (mem_baseAdd_view acc f g).mp hg with hg' | hg'
        · exact absurd hg' hgf
        · rw [hoth g hgf]; exact h.fresh g hg'
    · intro g hg
      rcases (mem_baseAdd_settings acc f g).mp hg with hg | hg
      · exact h.settingsSub g hg
      · exact Or.inr (hg ▸ hst)
  · simp only [hv]
    have hv' : visible s0 f = false := by rw [← hvis]; simpa using hv
    refine ⟨h.attrs, h.store, h.filt, h.showMarked, h.slot, h.reversed, h.focusFollow, h.focus, h.crash, h.trace,
      h.err, h.viewNodup, ?_, ?_, h.sorted, h.fresh, h.settingsSub⟩
    · intro g hg; exact ⟨List.mem_append_left _ (h.viewIn g hg).1, (h.viewIn g hg).2⟩
    · intro g hg hgv
      rcases List.mem_append.mp hg with hg | hg
      · exact h.viewAll g hg hgv
      · have : g = f := by simpa using hg
        rw [this, hv'] at hgv; cases hgv

theorem loop_all {s0 : VS} : ∀ (rest done : List Nat) (acc : VS), LoopInv s0 acc done →
    (∀ g, g ∈ rest → g ∈ s0.store) → (done ++ rest).Nodup →
    LoopInv s0 (rest.foldl refStep acc) (done ++ rest) := by
  intro rest
  induction rest with
  | nil => intro done acc h _ _; simpa using h
  | cons f rest ih =>
    intro done acc h hst hnd
    simp only [List.foldl_cons]
    have hf : f ∉ done := by
      intro hm
      have := List.nodup_append.mp hnd
      exact this.2.2 f hm f (List.mem_cons_self ..) rfl
    have := ih (done ++ [f]) (refStep acc f) (loop_step h (hst f (List.mem_cons_self ..)) hf)
      (fun g hg => hst g (List.mem_cons_of_mem _ hg)) (by simpa using hnd)
    simpa using this

structure RefilterSpec (s s' : VS) : Prop where
  core : Core s' []
  focus : FocusOK s'
  crash : s'.crash = s.crash
  sigs : sigs s' = sigs s ++ [.vrefresh]
  store : s'.store = s.store
  err : s'.err = s.err
  settings : SB s s'
  attrs : s'.attrs = s.attrs

/-- `_refilter` rebuilds a correct view from any state whose store is duplicate-free -/
theorem refilter_spec {s : VS} (hnd : s.store.Nodup) :
    RefilterSpec s (refilter s) := by
  let s0 : VS := { s with view := [] }
  have h0 : LoopInv s0 s0 [] :=
    ⟨rfl, rfl, rfl, rfl, rfl, rfl, rfl, rfl, rfl, rfl, rfl, List.nodup_nil, by simp [s0], by simp,
      by simp [s0, SortedBy], by simp [s0], fun g hg => Or.inl hg⟩
  have hl := loop_all (s0 := s0) s.store [] s0 h0 (fun g hg => hg) (by simpa using hnd)
  simp only [List.nil_append] at hl
  let s1 := s.store.foldl refStep s0
  have hunf : refilter s = emit (onRefresh s1) .vrefresh := rfl
  have hl' : LoopInv s0 s1 s.store := hl
  have hgen : ∀ g, gen s1 g = gen s0 g := gen_eq_of hl'.attrs hl'.slot
  have hvisq : ∀ g, visible s1 g = visible s0 g := visible_eq_of hl'.attrs hl'.showMarked hl'.filt
  have hcore1 : Core s1 [] := by
    refine ⟨by rw [hl'.store]; exact hnd, hl'.viewNodup, ?_, hl'.sorted, ?_, ?_⟩
    · intro g hg; rw [hl'.store]; exact (hl'.viewIn g hg).1
    · intro g hg; exact ⟨_, hl'.fresh g hg, fun _ => (hgen g).symm⟩
    · intro g hg _
      rw [hvisq]
      exact ⟨fun h => (hl'.viewIn g h).2, fun h => hl'.viewAll g (hl'.store ▸ hg) h⟩
  have hfr := frame_onRefresh s1
  have hok := onRefresh_ok s1
  rw [hunf]
  refine ⟨core_emit (core_frame hcore1 hfr) _, hok.1, ?_, ?_, ?_, ?_, ?_, ?_⟩
  · show (onRefresh s1).crash = s.crash
    rw [hok.2, hl'.crash]
  · rw [sigs_emit _ _ (by simp), hfr.sigs, sigs_of_trace hl'.trace]
    rfl
  · show (onRefresh s1).store = s.store
    rw [hfr.store, hl'.store]
  · show (onRefresh s1).err = s.err
    rw [hfr.err, hl'.err]
  · have h1 : SB s s1 := fun g hg => hl'.settingsSub g hg
    have h2 : SB s1 (emit (onRefresh s1) .vrefresh) := fun g hg => hfr.settings g hg
    exact h1.trans h2 hl'.store
  · show (onRefresh s1).attrs = s.attrs
    rw [hfr.attrs, hl'.attrs]

/-! ### `Settings._sig_store_refresh` -/

theorem core_purge {s : VS} {x : List Nat} (h : Core s x) : Core (purge s) x := by
  have hc : ∀ g, g ∈ s.view → (purge s).cache g (purge s).slot = s.cache g s.slot := by
    intro g hg
    simp [purge, h.viewSub g hg]
  refine ⟨h.storeNodup, h.viewNodup, h.viewSub, ?_, ?_, h.vis⟩
  · apply sortedBy_congr _ h.sorted
    intro a ha
    simp only [ck, hc a ha]
  · intro g hg
    obtain ⟨k, h1, h2⟩ := h.cached g hg
    exact ⟨k, by rw [hc g hg]; exact h1, h2⟩

theorem purge_settings (s : VS) : ∀ g, g ∈ (purge s).settings → g ∈ (purge s).store := by
  intro g hg
  have := (List.mem_filter.mp hg).2
  show g ∈ s.store
  simpa using this

/-! ### `set_order` -/

structure FreshAll (s0 acc : VS) (done : List Nat) : Prop where
  attrs : acc.attrs = s0.attrs
  store : acc.store = s0.store
  view : acc.view = s0.view
  filt : acc.filt = s0.filt
  showMarked : acc.showMarked = s0.showMarked
  slot : acc.slot = s0.slot
  reversed : acc.reversed = s0.reversed
  focus : acc.focus = s0.focus
  crash : acc.crash = s0.crash
  trace : acc.trace = s0.trace
  err : acc.err = s0.err
  fresh : ∀ g, g ∈ done → acc.cache g acc.slot = some (gen s0 g)
  settings : ∀ g, g ∈ acc.settings → g ∈ s0.settings ∨ g ∈ done

theorem freshAll_step {s0 acc : VS} {done : List Nat} (h : FreshAll s0 acc done) (f : Nat) :
    FreshAll s0 (freshen acc f) (done ++ [f]) := by
  have e := setCache_fields acc f (gen acc f)
  have hgenf : gen acc f = gen s0 f := gen_eq_of h.attrs h.slot f
  unfold freshen
  refine ⟨e.1.trans h.attrs, e.2.1.trans h.store, e.2.2.1.trans h.view, e.2.2.2.2.1.trans h.filt,
    e.2.2.2.2.2.1.trans h.showMarked, e.2.2.2.1.trans h.slot, e.2.2.2.2.2.2.2.2.2.1.trans h.reversed,
    e.2.2.2.2.2.2.1.trans h.focus, e.2.2.2.2.2.2.2.1.trans h.crash, e.2.2.2.2.2.2.2.2.1.trans h.trace,
    e.2.2.2.2.2.2.2.2.2.2.2.trans h.err, ?_, ?_⟩
  · intro g hg
    by_cases hgf : g = f
    · subst hgf; rw [setCache_self, hgenf]
    · rw [setCache_other _ _ _ _ hgf]
      rcases List.mem_append.mp hg with hg | hg
      · exact h.fresh g hg
      · exact absurd (by simpa using hg) hgf
  · intro g hg
    rcases (mem_setCache_settings acc f _ g).mp hg with hg | hg
    · rcases h.settings g hg with h' | h'
      · exact Or.inl h'
      · exact Or.inr (List.mem_append_left _ h')
    · exact Or.inr (by simp [hg])

theorem freshAll_all {s0 : VS} : ∀ (rest done : List Nat) (acc : VS), FreshAll s0 acc done →
    FreshAll s0 (rest.foldl (fun a f => freshen a f) acc) (done ++ rest) := by
  intro rest
  induction rest with
  | nil => intro done acc h; simpa using h
  | cons f rest ih =>
    intro done acc h
    simp only [List.foldl_cons]
    have := ih (done ++ [f]) (freshen acc f) (freshAll_step h f)
    simpa using this

structure OrderSpec (s s' : VS) (D : List Nat) : Prop where
  core : Core s' D
  focus : FocusOK s'
  crash : s'.crash = s.crash
  sigs : sigs s' = sigs s
  view : ∀ g, g ∈ s'.view ↔ g ∈ s.view
  store : s'.store = s.store
  err : s'.err = s.err
  settings : SB s s'

theorem setOrder_spec {s : VS} {D : List Nat} (h : Core s D) (hfo : FocusOK s) (sl : Nat) : OrderSpec s (opSetOrder s sl) D := by
  let s1 : VS := { s with slot := sl }
  have h0 : FreshAll s1 s1 [] := ⟨rfl, rfl, rfl, rfl, rfl, rfl, rfl, rfl, rfl, rfl, rfl, by simp, fun g hg => Or.inl hg⟩
  have hl := freshAll_all (s0 := s1) s1.view [] s1 h0
  simp only [List.nil_append] at hl
  let s2 := s1.view.foldl (fun a f => freshen a f) s1
  have hl' : FreshAll s1 s2 s.view := hl
  let s3 : VS := { s2 with view := s2.view.foldl (fun acc x => sortedInsert (ck s2) x acc) [] }
  have hunf : opSetOrder s sl = s3 := rfl
  have hperm : s3.view.Perm s.view := by
    have := foldl_insert_perm (ck s2) s2.view []
    simp only [List.append_nil] at this
    have hv2 : s2.view = s.view := hl'.view
    show (s2.view.foldl (fun acc x => sortedInsert (ck s2) x acc) []).Perm s.view
    rw [hv2] at this ⊢; exact this
  have hmem : ∀ g, g ∈ s3.view ↔ g ∈ s.view := fun g => hperm.mem_iff
  have hgen : ∀ g, gen s3 g = gen s1 g := gen_eq_of hl'.attrs hl'.slot
  rw [hunf]
  refine ⟨⟨?_, ?_, ?_, ?_, ?_, ?_⟩, ?_, hl'.crash, sigs_of_trace hl'.trace, hmem, hl'.store, hl'.err, ?_⟩
  · show s2.store.Nodup; rw [hl'.store]; exact h.storeNodup
  · exact hperm.nodup_iff.mpr h.viewNodup
  · intro g hg
    show g ∈ s2.store
    rw [hl'.store]; exact h.viewSub g ((hmem g).mp hg)
  · show SortedBy (ck s2) (s2.view.foldl (fun acc x => sortedInsert (ck s2) x acc) [])
    exact foldl_insert_sorted _ _ _ (by simp [SortedBy])
  · intro g hg
    exact ⟨_, hl'.fresh g ((hmem g).mp hg), fun _ => (hgen g).symm⟩
  · intro g hg hx
    have hg' : g ∈ s.store := by
      have : g ∈ s2.store := hg
      rw [hl'.store] at this; exact this
    rw [hmem, visible_eq_of (s := s) (s' := s3) hl'.attrs hl'.showMarked hl'.filt]
    exact h.vis g hg' hx
  · unfold FocusOK at hfo ⊢
    have hf3 : s3.focus = s.focus := hl'.focus
    rw [hf3]
    cases hfc : s.focus with
    | none =>
      rw [hfc] at hfo
      simp only
      have : s3.view.Perm [] := hfo ▸ hperm
      exact List.Perm.eq_nil this
    | some g =>
      rw [hfc] at hfo
      exact (hmem g).mpr hfo
  · intro g hg
    rcases hl'.settings g hg with h' | h'
    · exact Or.inl h'
    · exact Or.inr (h.viewSub g h')

end MitmVerif.C43
