/-
  C43 — every operation preserves the invariant and announces its changes in one of seven shapes.
-/
import MitmVerif.Lemmas.C43c
set_option linter.unusedSectionVars false
set_option linter.unusedSimpArgs false
set_option linter.unusedVariables false
namespace MitmVerif.C43

theorem focusOK_some {s : VS} (h : FocusOK s) : ∀ g, s.focus = some g → g ∈ s.view := by
  intro g hg; unfold FocusOK at h; rw [hg] at h; exact h

theorem focusOK_same {s s' : VS} (hf : s'.focus = s.focus) (hv : s'.view = s.view) (h : FocusOK s) : FocusOK s' := by
  unfold FocusOK at h ⊢; rw [hf, hv]; exact h

theorem focusOK_emit {s : VS} (g : Sig) (h : FocusOK s) : FocusOK (emit s g) := focusOK_same rfl rfl h

/-- what an operation announces (signals other than `Focus.sig_change`), against what it did -/
inductive Shape (s s' : VS) : Prop where
  | quiet (hs : sigs s' = []) (hv : ∀ g, g ∈ s'.view ↔ g ∈ s.view) (hst : ∀ g, g ∈ s.store → g ∈ s'.store)
  | enter (f : Nat) (hs : sigs s' = [.vadd f]) (hnv : f ∉ s.view) (hv : ∀ g, g ∈ s'.view ↔ g = f ∨ g ∈ s.view)
      (hst : ∀ g, g ∈ s.store → g ∈ s'.store)
  | leave (f : Nat) (hs : sigs s' = [.vrm f (s.view.idxOf f)]) (hin : f ∈ s.view) (hv : s'.view = s.view.erase f)
      (hst : s'.store = s.store)
  | upd (f : Nat) (hs : sigs s' = [.vupd f] ∨ sigs s' = [.vrefresh, .vupd f]) (hin : f ∈ s.view)
      (hv : ∀ g, g ∈ s'.view ↔ g ∈ s.view) (hst : s'.store = s.store)
  | removeShown (f : Nat) (hs : sigs s' = [.vrm f (s.view.idxOf f), .srm f]) (hin : f ∈ s.view)
      (hv : s'.view = s.view.erase f) (hst : s'.store = s.store.erase f) (hfs : f ∈ s.store)
  | removeHidden (f : Nat) (hs : sigs s' = [.srm f]) (hnv : f ∉ s.view) (hv : s'.view = s.view)
      (hst : s'.store = s.store.erase f) (hfs : f ∈ s.store)
  | wholesale (hs : (sigs s' = [.vrefresh] ∧ s'.store = s.store) ∨ sigs s' = [.vrefresh, .srefresh])

/-- the shape only looks at the list and the store of the state before -/
theorem Shape.transfer {s0 s s' : VS} (hv : s0.view = s.view) (hst : s0.store = s.store) (sh : Shape s0 s') :
    Shape s s' := by
  rcases sh with ⟨a, b, c⟩ | ⟨g, a, b, c, d⟩ | ⟨g, a, b, c, d⟩ | ⟨g, a, b, c, d⟩ | ⟨g, a, b, c, d, e⟩ | ⟨g, a, b, c, d, e⟩ | a
  · exact .quiet a (fun g => by rw [b, hv]) (fun g hg => c g (hst ▸ hg))
  · exact .enter g a (hv ▸ b) (fun x => by rw [c, hv]) (fun x hx => d x (hst ▸ hx))
  · exact .leave g (by rw [a, hv]) (hv ▸ b) (by rw [c, hv]) (by rw [d, hst])
  · exact .upd g a (hv ▸ b) (fun x => by rw [c, hv]) (by rw [d, hst])
  · exact .removeShown g (by rw [a, hv]) (hv ▸ b) (by rw [c, hv]) (by rw [d, hst]) (hst ▸ e)
  · exact .removeHidden g a (hv ▸ b) (by rw [c, hv]) (by rw [d, hst]) (hst ▸ e)
  · refine .wholesale ?_
    rcases a with ⟨a1, a2⟩ | a
    · exact Or.inl ⟨a1, by rw [a2, hst]⟩
    · exact Or.inr a

/-! ### `update` -/

structure UpdSpec (s s' : VS) (D : List Nat) (f : Nat) : Prop where
  core : Core s' (D.filter (fun x => x != f))
  focus : FocusOK s'
  crash : s'.crash = s.crash
  store : s'.store = s.store
  settings : SB s s'
  cases :
    (f ∉ s.view ∧ sigs s' = sigs s ∧ s'.view = s.view) ∨
    (f ∈ s.view ∧ (sigs s' = sigs s ++ [.vupd f] ∨ sigs s' = sigs s ++ [.vrefresh, .vupd f]) ∧
        ∀ g, g ∈ s'.view ↔ g ∈ s.view) ∨
    (f ∉ s.view ∧ sigs s' = sigs s ++ [.vadd f] ∧ ∀ g, g ∈ s'.view ↔ g = f ∨ g ∈ s.view) ∨
    (f ∈ s.view ∧ sigs s' = sigs s ++ [.vrm f (s.view.idxOf f)] ∧ s'.view = s.view.erase f)

theorem updateCore_unfold {s : VS} {f : Nat} (hst : f ∈ s.store) :
    updateCore s f =
      (if visible (probe s f) f then
        (if f ∈ (probe s f).view then emit (refreshKey (probe s f) f) (.vupd f) else enterView (probe s f) f)
      else if f ∈ (probe s f).view then leaveView (probe s f) f else probe s f) := by
  simp only [updateCore, hst, if_true]

theorem updateCore_spec {s : VS} {D : List Nat} {f : Nat} (hc : Core s D) (hD : f ∈ D) (hfo : FocusOK s) :
    UpdSpec s (updateCore s f) D f := by
  by_cases hst : f ∈ s.store
  · have hp := frame_probe s f
    have hcp : Core (probe s f) D := core_frame hc hp
    have hfop : FocusOK (probe s f) := focusOK_same (probe_focus s f).1 hp.view hfo
    have hstp : f ∈ (probe s f).store := hp.store ▸ hst
    rw [updateCore_unfold hst]
    by_cases hvis : visible (probe s f) f = true
    · simp only [hvis, if_true]
      by_cases hv : f ∈ (probe s f).view
      · simp only [hv, if_true]
        have r := refreshKey_spec hcp hD hstp hv hvis hfop
        have hvs : f ∈ s.view := hp.view ▸ hv
        refine ⟨core_emit r.core _, focusOK_emit _ r.focus, ?_, ?_, ?_, Or.inr (Or.inl ⟨hvs, ?_, ?_⟩)⟩
        · show (refreshKey (probe s f) f).crash = s.crash
          rw [r.crash, (probe_focus s f).2]
        · show (refreshKey (probe s f) f).store = s.store
          rw [r.store, hp.store]
        · have h1 : SB s (probe s f) := hp.settings
          have h2 : SB (probe s f) (emit (refreshKey (probe s f) f) (.vupd f)) := fun g hg => r.settings g hg
          exact h1.trans h2 hp.store
        · rw [sigs_emit _ _ (by simp)]
          rcases r.sigs with h | h
          · left; rw [h, hp.sigs]
          · right; rw [h, hp.sigs]; simp
        · intro g
          show g ∈ (refreshKey (probe s f) f).view ↔ _
          rw [r.view, hp.view]
      · simp only [hv, if_false]
        have r := enterView_spec hcp hD hstp hv hvis (focusOK_some hfop)
        have hvs : f ∉ s.view := fun h => hv (hp.view ▸ h)
        refine ⟨r.core, r.focus, ?_, ?_, ?_, Or.inr (Or.inr (Or.inl ⟨hvs, ?_, ?_⟩))⟩
        · rw [r.crash, (probe_focus s f).2]
        · rw [r.store, hp.store]
        · exact (show SB s (probe s f) from hp.settings).trans r.settings hp.store
        · rw [r.sigs, hp.sigs]
        · intro g; rw [r.view, hp.view]
    · have hvis' : visible (probe s f) f = false := by simpa using hvis
      simp only [hvis', Bool.false_eq_true, if_false]
      by_cases hv : f ∈ (probe s f).view
      · simp only [hv, if_true]
        have r := leaveView_spec hcp hD hv hfop
        have hvs : f ∈ s.view := hp.view ▸ hv
        have hnin : f ∉ (leaveView (probe s f) f).view := by
          rw [r.view]
          exact fun hm => ((List.Nodup.mem_erase_iff hcp.viewNodup).mp hm).1 rfl
        have hvq : visible (leaveView (probe s f) f) f = false := by
          rw [visible_eq_of r.attrs r.showMarked r.filt]; exact hvis'
        refine ⟨core_drop r.core ?_ ?_, r.focus, ?_, ?_, ?_, Or.inr (Or.inr (Or.inr ⟨hvs, ?_, ?_⟩))⟩
        · intro _
          constructor
          · intro h; exact absurd h hnin
          · intro h; rw [hvq] at h; cases h
        · intro h; exact absurd h hnin
        · rw [r.crash, (probe_focus s f).2]
        · rw [r.store, hp.store]
        · exact (show SB s (probe s f) from hp.settings).trans r.settings hp.store
        · rw [r.sigs, hp.sigs, hp.view]
        · rw [r.view, hp.view]
      · simp only [hv, if_false]
        have hvs : f ∉ s.view := fun h => hv (hp.view ▸ h)
        refine ⟨core_drop hcp ?_ ?_, hfop, (probe_focus s f).2, hp.store, hp.settings,
          Or.inl ⟨hvs, hp.sigs, hp.view⟩⟩
        · intro _
          constructor
          · intro h; exact absurd h hv
          · intro h; rw [hvis'] at h; cases h
        · intro h; exact absurd h hv
  · have hunf : updateCore s f = s := by simp only [updateCore, hst, if_false]
    rw [hunf]
    have hnv : f ∉ s.view := fun h => hst (hc.viewSub f h)
    refine ⟨core_drop hc (fun h => absurd h hst) (fun h => absurd h hnv), hfo, rfl, rfl, SB.refl s,
      Or.inl ⟨hnv, rfl, rfl⟩⟩

/-- `update`, from a good state with an empty signal trace -/
theorem update_shape {s s' : VS} {D : List Nat} {f : Nat} (hs : sigs s = []) (r : UpdSpec s s' D f) : Shape s s' := by
  rcases r.cases with ⟨_, h1, h2⟩ | ⟨h0, h1, h2⟩ | ⟨h0, h1, h2⟩ | ⟨h0, h1, h2⟩
  · exact .quiet (by rw [h1, hs]) (fun g => by rw [h2]) (fun g hg => r.store ▸ hg)
  · refine .upd f ?_ h0 h2 r.store
    rcases h1 with h1 | h1
    · left; rw [h1, hs]; rfl
    · right; rw [h1, hs]; rfl
  · exact .enter f (by rw [h1, hs]; rfl) h0 h2 (fun g hg => r.store ▸ hg)
  · exact .leave f (by rw [h1, hs]; rfl) h0 h2 r.store

theorem without_cons (D : List Nat) (f : Nat) : ∀ g, g ∈ (f :: D).filter (fun x => x != f) → g ∈ D.filter (fun x => x != f) := by
  intro g hg
  rw [List.mem_filter] at hg ⊢
  have hne : g ≠ f := by simpa using hg.2
  rcases List.mem_cons.mp hg.1 with h | h
  · exact absurd h hne
  · exact ⟨h, hg.2⟩

theorem without_sub (D : List Nat) (f : Nat) : ∀ g, g ∈ D.filter (fun x => x != f) → g ∈ D :=
  fun g hg => (List.mem_filter.mp hg).1

/-- which flows are (still) changed behind the view's back after an operation -/
def dirtyStep (s : VS) (D : List Nat) : Op → List Nat
  | .mutate f a =>
    -- a change that leaves the flow's visibility and its key under the selected order as they were cannot mislead the view
    if visible (setAttr s f a) f = visible s f ∧ gen (setAttr s f a) f = gen s f then D else f :: D
  | .add f _ => if f ∈ s.store then D else D.filter (fun x => x != f)
  | .update f _ => D.filter (fun x => x != f)
  | .setval f => if f ∈ s.store then D.filter (fun x => x != f) else D
  | .clear => []
  | .clearUnmarked => []
  | .setFilter _ => []
  | .toggleMarked => []
  | _ => D

theorem good_setAttr {s : VS} {D : List Nat} (h : Good s D) (f : Nat) (a : Attr) :
    Core (setAttr s f a) (f :: D) ∧ FocusOK (setAttr s f a) := ⟨core_setAttr h.core f a, focusOK_same rfl rfl h.focus⟩

/-- a change of `f` that keeps its visibility and its key under the selected order: the invariant holds as it did -/
theorem core_setAttr_same {s : VS} {D : List Nat} (h : Core s D) (f : Nat) (a : Attr)
    (hv : visible (setAttr s f a) f = visible s f) (hk : gen (setAttr s f a) f = gen s f) : Core (setAttr s f a) D := by
  have hvis : ∀ g, visible (setAttr s f a) g = visible s g := by
    intro g
    by_cases hg : g = f
    · subst hg; exact hv
    · simp [visible, setAttr, hg]
  have hgen : ∀ g, gen (setAttr s f a) g = gen s g := by
    intro g
    by_cases hg : g = f
    · subst hg; exact hk
    · simp [gen, setAttr, hg]
  refine ⟨h.storeNodup, h.viewNodup, h.viewSub, h.sorted, ?_, ?_⟩
  · intro g hg
    obtain ⟨k, h1, h2⟩ := h.cached g hg
    exact ⟨k, h1, fun hx => by rw [hgen]; exact h2 hx⟩
  · intro g hg hx
    rw [hvis]; exact h.vis g hg hx

theorem opMutate_spec {s : VS} {D : List Nat} (h : Good s D) (hs : sigs s = []) (f : Nat) (a : Attr) :
    Good (setAttr s f a)
      (if visible (setAttr s f a) f = visible s f ∧ gen (setAttr s f a) f = gen s f then D else f :: D) ∧
    Shape s (setAttr s f a) := by
  refine ⟨?_, .quiet hs (fun _ => Iff.rfl) (fun _ hg => hg)⟩
  split
  · rename_i hc
    exact ⟨core_setAttr_same h.core f a hc.1 hc.2, focusOK_same rfl rfl h.focus, h.nocrash, h.settings⟩
  · exact ⟨core_setAttr h.core f a, focusOK_same rfl rfl h.focus, h.nocrash, h.settings⟩

theorem opUpdate_spec {s : VS} {D : List Nat} (h : Good s D) (hs : sigs s = []) (f : Nat) (a : Attr) :
    Good (opUpdate s f a) (D.filter (fun x => x != f)) ∧ Shape s (opUpdate s f a) := by
  have r := updateCore_spec (good_setAttr h f a).1 (List.mem_cons_self ..) (good_setAttr h f a).2
  show Good (updateCore (setAttr s f a) f) _ ∧ Shape s (updateCore (setAttr s f a) f)
  refine ⟨⟨core_weaken r.core (without_cons D f), r.focus, by rw [r.crash]; exact h.nocrash, fun g hg => ?_⟩, ?_⟩
  · rw [r.store]
    rcases r.settings g hg with h' | h'
    · exact h.settings g h'
    · exact h'
  · exact Shape.transfer (s0 := setAttr s f a) rfl rfl (update_shape hs r)

theorem opSetval_spec {s : VS} {D : List Nat} (h : Good s D) (hs : sigs s = []) (f : Nat) :
    Good (opSetval s f) (if f ∈ s.store then D.filter (fun x => x != f) else D) ∧ Shape s (opSetval s f) := by
  unfold opSetval
  by_cases hst : f ∈ s.store
  · simp only [hst, if_true]
    have he := frame_ensure s f hst
    have hc : Core (ensure s f) D := core_frame h.core he
    have hfo : FocusOK (ensure s f) := focusOK_same (ensure_fields s f).2.2.2.2.2.1 he.view h.focus
    have r := updateCore_spec (core_weaken hc (fun g hg => List.mem_cons_of_mem f hg)) (List.mem_cons_self ..) hfo
    have hcr : (ensure s f).crash = s.crash := (ensure_fields s f).2.2.2.2.2.2.1
    refine ⟨⟨core_weaken r.core (without_cons D f), r.focus, by rw [r.crash, hcr]; exact h.nocrash, fun g hg => ?_⟩, ?_⟩
    · rw [r.store, he.store]
      rcases r.settings g hg with h' | h'
      · rcases he.settings g h' with h'' | h''
        · exact h.settings g h''
        · exact h''
      · exact he.store ▸ h'
    · exact Shape.transfer he.view he.store (update_shape (he.sigs.trans hs) r)
  · simp only [hst, if_false]
    exact ⟨⟨core_same h.core rfl rfl rfl rfl rfl rfl rfl, focusOK_same rfl rfl h.focus, h.nocrash, h.settings⟩,
      .quiet hs (fun _ => Iff.rfl) (fun _ hg => hg)⟩

/-! ### `add` -/

theorem opAdd_spec {s : VS} {D : List Nat} (h : Good s D) (hs : sigs s = []) (f : Nat) (a : Attr) :
    Good (opAdd s f a) (if f ∈ s.store then D else D.filter (fun x => x != f)) ∧ Shape s (opAdd s f a) := by
  unfold opAdd
  by_cases hst : f ∈ s.store
  · simp only [hst, if_true]
    exact ⟨h, .quiet hs (fun _ => Iff.rfl) (fun _ hg => hg)⟩
  · simp only [hst, if_false]
    let s1 : VS := { setAttr s f a with store := s.store ++ [f] }
    have hnv : f ∉ s.view := fun hm => hst (h.core.viewSub f hm)
    have hc0 := core_setAttr h.core f a
    have hc1 : Core s1 (f :: D) := by
      refine ⟨?_, hc0.viewNodup, ?_, hc0.sorted, hc0.cached, ?_⟩
      · show (s.store ++ [f]).Nodup
        rw [List.nodup_append]
        refine ⟨h.core.storeNodup, by simp, ?_⟩
        intro x hx y hy hxy
        simp at hy; subst hy; subst hxy; exact hst hx
      · intro g hg
        show g ∈ s.store ++ [f]
        exact List.mem_append_left _ (h.core.viewSub g hg)
      · intro g hg hx
        have hne : g ≠ f := fun h' => hx (h' ▸ List.mem_cons_self ..)
        have hg' : g ∈ s.store := by
          have : g ∈ s.store ++ [f] := hg
          rcases List.mem_append.mp this with h' | h'
          · exact h'
          · exact absurd (by simpa using h') hne
        exact hc0.vis g hg' hx
    have hfo1 : FocusOK s1 := focusOK_same rfl rfl h.focus
    have hst1 : f ∈ s1.store := by show f ∈ s.store ++ [f]; simp
    by_cases hvis : visible s1 f = true
    · simp only [s1] at hvis
      simp only [hvis, if_true]
      have r := enterView_spec hc1 (List.mem_cons_self ..) hst1 hnv hvis (focusOK_some hfo1)
      refine ⟨⟨core_weaken r.core (without_cons D f), r.focus, by rw [r.crash]; exact h.nocrash, fun g hg => ?_⟩, ?_⟩
      · rw [r.store]
        show g ∈ s.store ++ [f]
        rcases r.settings g hg with h' | h'
        · exact List.mem_append_left _ (h.settings g h')
        · exact h'
      · refine .enter f (by rw [r.sigs]; show sigs s ++ _ = _; rw [hs]; rfl) hnv r.view ?_
        intro g hg
        rw [r.store]
        exact List.mem_append_left _ hg
    · have hvis' : visible s1 f = false := by simpa using hvis
      simp only [s1] at hvis'
      simp only [hvis', Bool.false_eq_true, if_false]
      refine ⟨⟨core_weaken (core_drop hc1 ?_ ?_) (without_cons D f), hfo1, h.nocrash, fun g hg => ?_⟩, ?_⟩
      · intro _
        constructor
        · intro hm; exact absurd hm hnv
        · intro hv; rw [hvis'] at hv; cases hv
      · intro hm; exact absurd hm hnv
      · show g ∈ s.store ++ [f]
        exact List.mem_append_left _ (h.settings g hg)
      · exact .quiet hs (fun _ => Iff.rfl) (fun g hg => List.mem_append_left _ hg)

/-! ### `remove` -/

theorem opRemove_spec {s : VS} {D : List Nat} (h : Good s D) (hs : sigs s = []) (f : Nat) :
    Good (opRemove s f) D ∧ Shape s (opRemove s f) := by
  unfold opRemove
  by_cases hst : f ∈ s.store
  · simp only [hst, if_true]
    have hp := frame_probe s f
    have hcp : Core (probe s f) (f :: D) := core_weaken (core_frame h.core hp) (fun g hg => List.mem_cons_of_mem f hg)
    have hfop : FocusOK (probe s f) := focusOK_same (probe_focus s f).1 hp.view h.focus
    -- the state after the optional removal from the list
    have key : ∀ s1 : VS, Core s1 (f :: D) → FocusOK s1 → s1.crash = false → f ∉ s1.view → s1.store = s.store →
        SB s s1 →
        Good (emit { s1 with store := s1.store.erase f, settings := s1.settings.filter (fun g => g != f),
                             cache := fun g sl => if g = f then none else s1.cache g sl } (.srm f)) D := by
      intro s1 hc1 hfo1 hcr1 hnv1 hst1 hsb1
      refine ⟨core_emit ?_ _, focusOK_emit _ (focusOK_same rfl rfl hfo1), hcr1, ?_⟩
      · have hcache : ∀ g, g ∈ s1.view → (if g = f then none else s1.cache g s1.slot) = s1.cache g s1.slot := by
          intro g hg
          have : g ≠ f := fun h' => hnv1 (h' ▸ hg)
          simp [this]
        refine ⟨hc1.storeNodup.erase f, hc1.viewNodup, ?_, ?_, ?_, ?_⟩
        · intro g hg
          have hne : g ≠ f := fun h' => hnv1 (h' ▸ hg)
          exact (List.mem_erase_of_ne hne).mpr (hc1.viewSub g hg)
        · apply sortedBy_congr _ hc1.sorted
          intro a ha
          simp only [ck, hcache a ha]
        · intro g hg
          obtain ⟨k, h1, h2⟩ := hc1.cached g hg
          have hne : g ≠ f := fun h' => hnv1 (h' ▸ hg)
          exact ⟨k, by show (if g = f then none else s1.cache g s1.slot) = some k; rw [hcache g hg]; exact h1,
            fun hx => h2 (by simp [hne, hx])⟩
        · intro g hg hx
          have hmem : g ∈ s1.store.erase f := hg
          have hne : g ≠ f := fun h' => by
            rw [h'] at hmem
            exact ((List.Nodup.mem_erase_iff hc1.storeNodup).mp hmem).1 rfl
          exact hc1.vis g (List.mem_of_mem_erase hmem) (by simp [hne, hx])
      · intro g hg
        have hg' : g ∈ s1.settings.filter (fun g => g != f) := hg
        have hne : g ≠ f := by simpa using (List.mem_filter.mp hg').2
        show g ∈ s1.store.erase f
        rw [List.mem_erase_of_ne hne, hst1]
        rcases hsb1 g (List.mem_filter.mp hg').1 with h' | h'
        · exact h.settings g h'
        · exact h'
    by_cases hv : f ∈ (probe s f).view
    · simp only [hv, if_true]
      have r := leaveView_spec hcp (List.mem_cons_self ..) hv hfop
      have hnin : f ∉ (leaveView (probe s f) f).view := by
        rw [r.view]
        exact fun hm => ((List.Nodup.mem_erase_iff hcp.viewNodup).mp hm).1 rfl
      have hsb : SB s (leaveView (probe s f) f) := (show SB s (probe s f) from hp.settings).trans r.settings hp.store
      refine ⟨key _ r.core r.focus (by rw [r.crash, (probe_focus s f).2]; exact h.nocrash) hnin
        (by rw [r.store, hp.store]) hsb, ?_⟩
      refine .removeShown f ?_ (hp.view ▸ hv) ?_ ?_ hst
      · rw [sigs_emit _ _ (by simp)]
        show sigs (leaveView (probe s f) f) ++ _ = _
        rw [r.sigs, hp.sigs, hs, hp.view]; rfl
      · show (leaveView (probe s f) f).view = _
        rw [r.view, hp.view]
      · show (leaveView (probe s f) f).store.erase f = _
        rw [r.store, hp.store]
    · simp only [hv, if_false]
      refine ⟨key _ hcp hfop (by rw [(probe_focus s f).2]; exact h.nocrash) hv hp.store hp.settings, ?_⟩
      refine .removeHidden f ?_ (fun hm => hv (hp.view ▸ hm)) hp.view ?_ hst
      · rw [sigs_emit _ _ (by simp)]
        show sigs (probe s f) ++ _ = _
        rw [hp.sigs, hs]; rfl
      · show (probe s f).store.erase f = _
        rw [hp.store]
  · simp only [hst, if_false]
    exact ⟨h, .quiet hs (fun _ => Iff.rfl) (fun _ hg => hg)⟩

/-! ### wholesale operations -/

theorem good_of_refilter {s s' : VS} (r : RefilterSpec s s') (hcr : s.crash = false)
    (hss : ∀ g, g ∈ s.settings → g ∈ s.store) : Good s' [] :=
  ⟨r.core, r.focus, by rw [r.crash]; exact hcr, fun g hg => by
    rw [r.store]
    rcases r.settings g hg with h' | h'
    · exact hss g h'
    · exact h'⟩

theorem opSetFilter_spec {s : VS} {D : List Nat} (h : Good s D) (hs : sigs s = []) (k : Nat) :
    Good (opSetFilter s k) [] ∧ Shape s (opSetFilter s k) := by
  have r := refilter_spec (s := { s with filt := k }) h.core.storeNodup
  have hunf : opSetFilter s k = refilter { s with filt := k } := rfl
  rw [hunf]
  exact ⟨good_of_refilter r h.nocrash h.settings, .wholesale (Or.inl ⟨by rw [r.sigs]; show sigs s ++ _ = _; rw [hs]; rfl, r.store⟩)⟩

theorem opToggleMarked_spec {s : VS} {D : List Nat} (h : Good s D) (hs : sigs s = []) :
    Good (opToggleMarked s) [] ∧ Shape s (opToggleMarked s) := by
  have r := refilter_spec (s := { s with showMarked := !s.showMarked }) h.core.storeNodup
  have hunf : opToggleMarked s = refilter { s with showMarked := !s.showMarked } := rfl
  rw [hunf]
  exact ⟨good_of_refilter r h.nocrash h.settings, .wholesale (Or.inl ⟨by rw [r.sigs]; show sigs s ++ _ = _; rw [hs]; rfl, r.store⟩)⟩

theorem opSetReversed_spec {s : VS} {D : List Nat} (h : Good s D) (hs : sigs s = []) (b : Bool) :
    Good (opSetReversed s b) D ∧ Shape s (opSetReversed s b) := by
  let s1 : VS := { s with reversed := b }
  have hc1 : Core s1 D := core_same h.core rfl rfl rfl rfl rfl rfl rfl
  have hfr := frame_onRefresh s1
  have hok := onRefresh_ok s1
  have hunf : opSetReversed s b = emit (onRefresh s1) .vrefresh := rfl
  rw [hunf]
  refine ⟨⟨core_emit (core_frame hc1 hfr) _, focusOK_emit _ hok.1, ?_, ?_⟩, ?_⟩
  · show (onRefresh s1).crash = false
    rw [hok.2]; exact h.nocrash
  · intro g hg
    show g ∈ (onRefresh s1).store
    rw [hfr.store]
    rcases hfr.settings g hg with h' | h'
    · exact h.settings g h'
    · exact h'
  · refine .wholesale (Or.inl ⟨?_, hfr.store⟩)
    rw [sigs_emit _ _ (by simp), hfr.sigs]
    show sigs s ++ _ = _
    rw [hs]; rfl

theorem opClear_spec {s : VS} {D : List Nat} (h : Good s D) (hs : sigs s = []) : Good (opClear s) [] ∧ Shape s (opClear s) := by
  let s1 : VS := { s with store := [], view := [] }
  have hfr := frame_onRefresh s1
  have hok := onRefresh_ok s1
  let s2 := emit (onRefresh s1) .vrefresh
  have hunf : opClear s = emit (purge s2) .srefresh := rfl
  have hst2 : s2.store = [] := hfr.store
  have hv2 : s2.view = [] := hfr.view
  rw [hunf]
  refine ⟨⟨core_emit ?_ _, focusOK_emit _ ?_, ?_, ?_⟩, ?_⟩
  · refine ⟨?_, ?_, ?_, ?_, ?_, ?_⟩
    · show s2.store.Nodup; rw [hst2]; exact List.nodup_nil
    · show s2.view.Nodup; rw [hv2]; exact List.nodup_nil
    · intro g hg
      have : g ∈ s2.view := hg
      rw [hv2] at this; simp at this
    · show SortedBy _ s2.view; rw [hv2]; simp [SortedBy]
    · intro g hg
      have : g ∈ s2.view := hg
      rw [hv2] at this; simp at this
    · intro g hg
      have : g ∈ s2.store := hg
      rw [hst2] at this; simp at this
  · exact focusOK_same (s := s2) rfl rfl (focusOK_emit _ hok.1)
  · show (onRefresh s1).crash = false
    rw [hok.2]; exact h.nocrash
  · exact purge_settings s2
  · refine .wholesale (Or.inr ?_)
    rw [sigs_emit _ _ (by simp)]
    show sigs s2 ++ _ = _
    rw [sigs_emit _ _ (by simp), hfr.sigs]
    show (sigs s ++ _) ++ _ = _
    rw [hs]; rfl

theorem opClearUnmarked_spec {s : VS} {D : List Nat} (h : Good s D) (hs : sigs s = []) :
    Good (opClearUnmarked s) [] ∧ Shape s (opClearUnmarked s) := by
  let s1 : VS := { s with store := s.store.filter (fun f => (s.attrs f).marked) }
  have r := refilter_spec (s := s1) (h.core.storeNodup.filter _)
  have hunf : opClearUnmarked s = emit (purge (refilter s1)) .srefresh := rfl
  rw [hunf]
  refine ⟨⟨core_emit (core_purge r.core) _, focusOK_emit _ (focusOK_same (s := refilter s1) rfl rfl r.focus), ?_,
    purge_settings _⟩, ?_⟩
  · show (refilter s1).crash = false
    rw [r.crash]; exact h.nocrash
  · refine .wholesale (Or.inr ?_)
    rw [sigs_emit _ _ (by simp)]
    show sigs (refilter s1) ++ _ = _
    rw [r.sigs]
    show (sigs s ++ _) ++ _ = _
    rw [hs]; rfl

theorem opSetOrder_spec {s : VS} {D : List Nat} (h : Good s D) (hs : sigs s = []) (sl : Nat) :
    Good (opSetOrder s sl) D ∧ Shape s (opSetOrder s sl) := by
  have r := setOrder_spec h.core h.focus sl
  refine ⟨⟨r.core, r.focus, by rw [r.crash]; exact h.nocrash, fun g hg => ?_⟩,
    .quiet (by rw [r.sigs, hs]) r.view (fun g hg => r.store ▸ hg)⟩
  rw [r.store]
  rcases r.settings g hg with h' | h'
  · exact h.settings g h'
  · exact h'

/-! ### operations that only move the focus -/

theorem good_of_frame {s s' : VS} {D : List Nat} (h : Good s D) (hf : Frame s s') (hfo : FocusOK s') (hcr : s'.crash = s.crash) :
    Good s' D :=
  ⟨core_frame h.core hf, hfo, by rw [hcr]; exact h.nocrash, fun g hg => by
    rw [hf.store]
    rcases hf.settings g hg with h' | h'
    · exact h.settings g h'
    · exact h'⟩

theorem shape_of_frame {s s' : VS} (hs : sigs s = []) (hf : Frame s s') : Shape s s' :=
  .quiet (by rw [hf.sigs, hs]) (fun g => by rw [hf.view]) (fun g hg => hf.store ▸ hg)

theorem focusAt_good {s : VS} {D : List Nat} (h : Good s D) (hs : sigs s = []) {i : Nat} (hi : i < s.view.length) :
    Good (focusAt s i) D ∧ Shape s (focusAt s i) := by
  have hf := frame_focusAt s i
  obtain ⟨⟨g, hg, hfo⟩, hc⟩ := focusAt_ok hi
  refine ⟨good_of_frame h hf ?_ hc, shape_of_frame hs hf⟩
  unfold FocusOK; rw [hfo, hf.view]; exact hg

theorem opGo_spec {s : VS} {D : List Nat} (h : Good s D) (hs : sigs s = []) (o : Int) : Good (opGo s o) D ∧ Shape s (opGo s o) := by
  unfold opGo
  cases he : s.view.isEmpty with
  | true => simp only [if_true]; exact ⟨h, shape_of_frame hs (Frame.refl s)⟩
  | false =>
    simp only [Bool.false_eq_true, if_false]
    have hpos := view_length_pos he
    apply focusAt_good h hs
    (repeat' split) <;> omega

theorem probeFocus_frame (s : VS) : Frame s (probeFocus s) ∧ (probeFocus s).focus = s.focus ∧ (probeFocus s).crash = s.crash := by
  unfold probeFocus
  cases hf : s.focus with
  | none => exact ⟨Frame.refl s, hf.symm ▸ rfl, rfl⟩
  | some f => exact ⟨frame_probe s f, (probe_focus s f).1.trans hf, (probe_focus s f).2⟩

theorem probeFocus_good {s : VS} {D : List Nat} (h : Good s D) : Good (probeFocus s) D :=
  good_of_frame h (probeFocus_frame s).1 (focusOK_same (probeFocus_frame s).2.1 (probeFocus_frame s).1.view h.focus)
    (probeFocus_frame s).2.2

theorem opNext_spec {s : VS} {D : List Nat} (h : Good s D) (hs : sigs s = []) : Good (opNext s) D ∧ Shape s (opNext s) := by
  have hp := probeFocus_frame s
  have hg := probeFocus_good h
  have hsp : sigs (probeFocus s) = [] := hp.1.sigs.trans hs
  have lift : ∀ s', Good s' D ∧ Shape (probeFocus s) s' → Good s' D ∧ Shape s s' :=
    fun s' ⟨g1, sh⟩ => ⟨g1, Shape.transfer hp.1.view hp.1.store sh⟩
  unfold opNext
  simp only
  apply lift
  split
  · exact ⟨hg, shape_of_frame hsp (Frame.refl _)⟩
  · split
    · rename_i hlt; exact focusAt_good hg hsp hlt
    · exact ⟨hg, shape_of_frame hsp (Frame.refl _)⟩

theorem opPrev_spec {s : VS} {D : List Nat} (h : Good s D) (hs : sigs s = []) : Good (opPrev s) D ∧ Shape s (opPrev s) := by
  have hp := probeFocus_frame s
  have hg := probeFocus_good h
  have hsp : sigs (probeFocus s) = [] := hp.1.sigs.trans hs
  have lift : ∀ s', Good s' D ∧ Shape (probeFocus s) s' → Good s' D ∧ Shape s s' :=
    fun s' ⟨g1, sh⟩ => ⟨g1, Shape.transfer hp.1.view hp.1.store sh⟩
  unfold opPrev
  simp only
  apply lift
  split
  · exact ⟨hg, shape_of_frame hsp (Frame.refl _)⟩
  · split
    · rename_i hlt; exact focusAt_good hg hsp hlt.2
    · exact ⟨hg, shape_of_frame hsp (Frame.refl _)⟩

theorem opFocus_spec {s : VS} {D : List Nat} (h : Good s D) (hs : sigs s = []) (f : Nat) :
    Good (opFocus s f) D ∧ Shape s (opFocus s f) := by
  unfold opFocus
  by_cases hv : f ∈ s.view
  · simp only [hv, if_true]
    have hf := frame_setFocus s (some f)
    refine ⟨good_of_frame h hf ?_ (setFocus_some hv).2, shape_of_frame hs hf⟩
    unfold FocusOK; rw [(setFocus_some hv).1, hf.view]; exact hv
  · simp only [hv, if_false]
    have hp := frame_probe s f
    have hg := good_of_frame h hp (focusOK_same (probe_focus s f).1 hp.view h.focus) (probe_focus s f).2
    refine ⟨⟨core_same hg.core rfl rfl rfl rfl rfl rfl rfl, focusOK_same rfl rfl hg.focus, hg.nocrash, hg.settings⟩, ?_⟩
    exact .quiet (by show sigs (probe s f) = []; rw [hp.sigs, hs]) (fun g => by show g ∈ (probe s f).view ↔ _; rw [hp.view])
      (fun g hg' => by show g ∈ (probe s f).store; rw [hp.store]; exact hg')

/-! ### all operations -/

theorem apply_spec {s : VS} {D : List Nat} (h : Good s D) (hs : sigs s = []) (op : Op) :
    Good (apply s op) (dirtyStep s D op) ∧ Shape s (apply s op) := by
  cases op with
  | mutate f a => exact opMutate_spec h hs f a
  | add f a => exact opAdd_spec h hs f a
  | update f a => exact opUpdate_spec h hs f a
  | remove f => exact opRemove_spec h hs f
  | clear => exact opClear_spec h hs
  | clearUnmarked => exact opClearUnmarked_spec h hs
  | setFilter k => exact opSetFilter_spec h hs k
  | toggleMarked => exact opToggleMarked_spec h hs
  | setReversed b => exact opSetReversed_spec h hs b
  | setOrder sl =>
    simp only [apply, dirtyStep]
    split
    · exact opSetOrder_spec h hs sl
    · exact ⟨⟨core_same h.core rfl rfl rfl rfl rfl rfl rfl, focusOK_same rfl rfl h.focus, h.nocrash, h.settings⟩,
        .quiet hs (fun _ => Iff.rfl) (fun _ hg => hg)⟩
  | focusFollow b =>
    exact ⟨⟨core_same h.core rfl rfl rfl rfl rfl rfl rfl, focusOK_same rfl rfl h.focus, h.nocrash, h.settings⟩,
      .quiet hs (fun _ => Iff.rfl) (fun _ hg => hg)⟩
  | go o => exact opGo_spec h hs o
  | next => exact opNext_spec h hs
  | prev => exact opPrev_spec h hs
  | focus f => exact opFocus_spec h hs f
  | setval f => exact opSetval_spec h hs f

theorem good_init : Good init [] :=
  ⟨⟨List.nodup_nil, List.nodup_nil, by simp [init], by simp [init, SortedBy], by simp [init], by simp [init]⟩,
    by simp [FocusOK, init], rfl, by simp [init]⟩

theorem good_reset {s : VS} {D : List Nat} (h : Good s D) : Good { s with trace := [], err := false } D :=
  ⟨core_same h.core rfl rfl rfl rfl rfl rfl rfl, focusOK_same rfl rfl h.focus, h.nocrash, h.settings⟩

theorem step_spec {s : VS} {D : List Nat} (h : Good s D) (op : Op) :
    Good (step s op) (dirtyStep s D op) ∧ Shape s (step s op) := by
  have := apply_spec (good_reset h) rfl op
  exact ⟨this.1, Shape.transfer (s0 := { s with trace := [], err := false }) rfl rfl this.2⟩

/-- the state after a history together with the flows that changed behind the view's back and have not been
    re-evaluated since -/
def runD (ops : List Op) : VS × List Nat :=
  ops.foldl (fun p op => (step p.1 op, dirtyStep p.1 p.2 op)) (init, [])

theorem runD_fst (ops : List Op) : (runD ops).1 = run ops := by
  unfold runD run
  have : ∀ (ops : List Op) (p : VS × List Nat),
      (ops.foldl (fun p op => (step p.1 op, dirtyStep p.1 p.2 op)) p).1 = ops.foldl step p.1 := by
    intro ops
    induction ops with
    | nil => intro p; rfl
    | cons o os ih => intro p; simp only [List.foldl_cons]; exact ih _
  exact this ops (init, [])

theorem good_runD (ops : List Op) : Good (runD ops).1 (runD ops).2 := by
  unfold runD
  have : ∀ (ops : List Op) (p : VS × List Nat), Good p.1 p.2 →
      Good (ops.foldl (fun p op => (step p.1 op, dirtyStep p.1 p.2 op)) p).1
           (ops.foldl (fun p op => (step p.1 op, dirtyStep p.1 p.2 op)) p).2 := by
    intro ops
    induction ops with
    | nil => intro p h; exact h
    | cons o os ih => intro p h; simp only [List.foldl_cons]; exact ih _ (step_spec h o).1
  exact this ops (init, []) good_init

theorem good_run (ops : List Op) : Good (run ops) (runD ops).2 := runD_fst ops ▸ good_runD ops

theorem mem_sigs (s : VS) (x : Sig) : x ∈ sigs s ↔ x ∈ s.trace ∧ x ≠ .fchange := by
  simp [sigs, List.mem_filter]

/-- an `update` (or a settings write) of a flow that is shown before and after is announced by `sig_view_update` -/
theorem upd_announced {s s' : VS} {D : List Nat} {f : Nat} (r : UpdSpec s s' D f) (hnd : s.view.Nodup) (h1 : f ∈ s.view) (h2 : f ∈ s'.view) :
    .vupd f ∈ sigs s' := by
  rcases r.cases with ⟨h0, _, _⟩ | ⟨_, hs, _⟩ | ⟨h0, _, _⟩ | ⟨_, _, hv⟩
  · exact absurd h1 h0
  · rcases hs with hs | hs <;> rw [hs] <;> simp
  · exact absurd h1 h0
  · rw [hv] at h2
    exact absurd rfl ((List.Nodup.mem_erase_iff hnd).mp h2).1

theorem step_update_announced {s : VS} {D : List Nat} (h : Good s D) (f : Nat) (a : Attr) (h1 : f ∈ s.view)
    (h2 : f ∈ (step s (.update f a)).view) : .vupd f ∈ (step s (.update f a)).trace := by
  have h0 := good_reset h
  have r := updateCore_spec (good_setAttr h0 f a).1 (List.mem_cons_self ..) (good_setAttr h0 f a).2
  exact ((mem_sigs _ _).mp (upd_announced r h.core.viewNodup h1 h2)).1

theorem step_setval_announced {s : VS} {D : List Nat} (h : Good s D) (f : Nat) (h1 : f ∈ s.view)
    (h2 : f ∈ (step s (.setval f)).view) : .vupd f ∈ (step s (.setval f)).trace := by
  have h0 := good_reset h
  have hst : f ∈ s.store := h.core.viewSub f h1
  let s0 : VS := { s with trace := [], err := false }
  have he := frame_ensure s0 f hst
  have hc : Core (ensure s0 f) D := core_frame h0.core he
  have hfo : FocusOK (ensure s0 f) := focusOK_same (ensure_fields s0 f).2.2.2.2.2.1 he.view h0.focus
  have r := updateCore_spec (core_weaken hc (fun g hg => List.mem_cons_of_mem f hg)) (List.mem_cons_self ..) hfo
  have hunf : step s (.setval f) = updateCore (ensure s0 f) f := by
    show opSetval s0 f = _
    unfold opSetval
    simp only [show f ∈ s0.store from hst, if_true]
  rw [hunf] at h2 ⊢
  have hv : (ensure s0 f).view = s.view := he.view
  exact ((mem_sigs _ _).mp (upd_announced r (hv ▸ h.core.viewNodup) (hv ▸ h1) h2)).1

end MitmVerif.C43
