/-
  C43 — the sorted list as a refinement of "filter, then stable sort": `insertAll k l` (insert the elements of `l`
  one by one at `bisect_right`) is the stable sort of `l` by `k`; `_refilter` produces exactly
  `insertAll key (filter visible store)` and `set_order` exactly `insertAll newkey oldview`.
-/
import MitmVerif.Lemmas.C43d
set_option linter.unusedSectionVars false
set_option linter.unusedSimpArgs false
set_option linter.unusedVariables false
namespace MitmVerif.C43

theorem sortedInsert_congr {k k' : Nat → Nat} (x : Nat) (l : List Nat) (hx : k x = k' x) (hl : ∀ a ∈ l, k a = k' a) :
    sortedInsert k x l = sortedInsert k' x l := by
  induction l with
  | nil => rfl
  | cons y ys ih =>
    simp only [sortedInsert, hx, hl y (List.mem_cons_self ..)]
    rw [ih (fun a ha => hl a (List.mem_cons_of_mem _ ha))]

theorem foldl_insert_congr {k k' : Nat → Nat} (l acc : List Nat) (hl : ∀ a ∈ l, k a = k' a) (ha : ∀ a ∈ acc, k a = k' a) :
    l.foldl (fun acc x => sortedInsert k x acc) acc = l.foldl (fun acc x => sortedInsert k' x acc) acc := by
  induction l generalizing acc with
  | nil => rfl
  | cons x xs ih =>
    simp only [List.foldl_cons]
    rw [sortedInsert_congr x acc (hl x (List.mem_cons_self ..)) ha]
    apply ih _ (fun a h => hl a (List.mem_cons_of_mem _ h))
    intro a h
    rcases (mem_sortedInsert k' x a acc).mp h with h | h
    · rw [h]; exact hl x (List.mem_cons_self ..)
    · exact ha a h

theorem insertAll_congr {k k' : Nat → Nat} (l : List Nat) (hl : ∀ a ∈ l, k a = k' a) : insertAll k l = insertAll k' l :=
  foldl_insert_congr l [] hl (by simp)

theorem insertAll_perm (k : Nat → Nat) (l : List Nat) : (insertAll k l).Perm l := by
  have := foldl_insert_perm k l []
  simpa [insertAll] using this

theorem insertAll_sorted (k : Nat → Nat) (l : List Nat) : SortedBy k (insertAll k l) :=
  foldl_insert_sorted k l [] (by simp [SortedBy])

/-- inserting at `bisect_right` puts the new element behind all elements with the same key -/
theorem filter_sortedInsert (k : Nat → Nat) (c x : Nat) (l : List Nat) (h : SortedBy k l) :
    (sortedInsert k x l).filter (fun y => decide (k y = c)) =
      l.filter (fun y => decide (k y = c)) ++ (if k x = c then [x] else []) := by
  induction l with
  | nil => by_cases hx : k x = c <;> simp [sortedInsert, hx]
  | cons y ys ih =>
    unfold SortedBy at h
    rw [List.pairwise_cons] at h
    unfold sortedInsert
    split
    · rw [List.filter_cons, List.filter_cons, ih h.2]
      split <;> simp
    · rename_i hlt
      by_cases hx : k x = c
      · have hnone : (y :: ys).filter (fun y => decide (k y = c)) = [] := by
          rw [List.filter_eq_nil_iff]
          intro a ha
          have : k y ≤ k a := by
            rcases List.mem_cons.mp ha with h' | h'
            · rw [h']; exact Nat.le_refl _
            · exact h.1 a h'
          simp; omega
        rw [List.filter_cons, hnone]; simp [hx]
      · rw [List.filter_cons]; simp [hx]

theorem foldl_insert_stable (k : Nat → Nat) (c : Nat) (l acc : List Nat) (h : SortedBy k acc) :
    (l.foldl (fun acc x => sortedInsert k x acc) acc).filter (fun y => decide (k y = c)) =
      acc.filter (fun y => decide (k y = c)) ++ l.filter (fun y => decide (k y = c)) := by
  induction l generalizing acc with
  | nil => simp
  | cons x xs ih =>
    simp only [List.foldl_cons]
    rw [ih _ (sortedInsert_sorted k x acc h), filter_sortedInsert k c x acc h, List.filter_cons]
    by_cases hx : k x = c <;> simp [hx]

/-- **stability**: flows with equal keys keep their relative order -/
theorem insertAll_stable (k : Nat → Nat) (c : Nat) (l : List Nat) :
    (insertAll k l).filter (fun y => decide (k y = c)) = l.filter (fun y => decide (k y = c)) := by
  have := foldl_insert_stable k c l [] (by simp [SortedBy])
  simpa [insertAll] using this

/-- a sorted permutation is unique when the keys are pairwise different -/
theorem sorted_perm_unique {k : Nat → Nat} {l1 l2 : List Nat} (hinj : ∀ a b, a ∈ l1 → b ∈ l1 → k a = k b → a = b)
    (h1 : SortedBy k l1) (h2 : SortedBy k l2) (hp : l1.Perm l2) : l1 = l2 := by
  apply List.Perm.eq_of_pairwise (le := fun a b => k a ≤ k b) _ h1 h2 hp
  intro a b ha hb hab hba
  exact hinj a b ha (hp.mem_iff.mpr hb) (Nat.le_antisymm hab hba)

/-! ### `_refilter` builds exactly the stable sort of the filtered store -/

theorem loop_view_step {s0 acc : VS} {done : List Nat} {f : Nat} (h : LoopInv s0 acc done)
    (hv : acc.view = insertAll (gen s0) (done.filter (fun g => visible s0 g))) (hnd : f ∉ done) :
    (refStep acc f).view = insertAll (gen s0) ((done ++ [f]).filter (fun g => visible s0 g)) := by
  have hvis : visible acc f = visible s0 f := visible_eq_of h.attrs h.showMarked h.filt f
  have hnv : f ∉ acc.view := fun hm => hnd (h.viewIn f hm).1
  unfold refStep
  by_cases hvf : visible acc f = true
  · simp only [hvf, if_true]
    have hvf0 : visible s0 f = true := hvis ▸ hvf
    rw [(baseAdd_fields acc f).2.2.2.2.2.2.2.2.2.2.2, List.filter_append]
    simp only [List.filter_cons, hvf0, if_true, List.filter_nil]
    unfold insertAll
    rw [List.foldl_append]
    simp only [List.foldl_cons, List.foldl_nil]
    have : (done.filter (fun g => visible s0 g)).foldl (fun acc x => sortedInsert (gen s0) x acc) [] = acc.view := by
      rw [hv]; rfl
    rw [this]
    apply sortedInsert_congr
    · simp only [ck, freshen, setCache_self]
      exact gen_eq_of h.attrs h.slot f
    · intro a ha
      have hne : a ≠ f := fun h' => hnv (h' ▸ ha)
      simp only [ck, freshen, setCache_other acc f _ a hne, h.fresh a ha, Option.getD_some]
  · simp only [hvf]
    have hvf0 : visible s0 f = false := by rw [← hvis]; simpa using hvf
    rw [List.filter_append]
    simp only [List.filter_cons, hvf0, Bool.false_eq_true, if_false, List.filter_nil, List.append_nil]
    exact hv

theorem loop_view_all {s0 : VS} : ∀ (rest done : List Nat) (acc : VS), LoopInv s0 acc done →
    acc.view = insertAll (gen s0) (done.filter (fun g => visible s0 g)) →
    (∀ g, g ∈ rest → g ∈ s0.store) → (done ++ rest).Nodup →
    (rest.foldl refStep acc).view = insertAll (gen s0) ((done ++ rest).filter (fun g => visible s0 g)) := by
  intro rest
  induction rest with
  | nil => intro done acc _ hv _ _; simpa using hv
  | cons f rest ih =>
    intro done acc h hv hst hnd
    simp only [List.foldl_cons]
    have hf : f ∉ done := by
      intro hm
      exact (List.nodup_append.mp hnd).2.2 f hm f (List.mem_cons_self ..) rfl
    have := ih (done ++ [f]) (refStep acc f) (loop_step h (hst f (List.mem_cons_self ..)) hf)
      (loop_view_step h hv hf) (fun g hg => hst g (List.mem_cons_of_mem _ hg)) (by simpa using hnd)
    simpa using this

/-- `_refilter`: the new list is the stable sort (by the current keys, ties in store order) of the stored flows that
    pass the filter -/
theorem refilter_view {s : VS} (hnd : s.store.Nodup) :
    (refilter s).view = insertAll (gen (refilter s)) ((refilter s).store.filter (fun g => visible (refilter s) g)) := by
  let s0 : VS := { s with view := [] }
  have h0 : LoopInv s0 s0 [] :=
    ⟨rfl, rfl, rfl, rfl, rfl, rfl, rfl, rfl, rfl, rfl, rfl, List.nodup_nil, by simp [s0], by simp,
      by simp [s0, SortedBy], by simp [s0], fun g hg => Or.inl hg⟩
  have hl := loop_all (s0 := s0) s.store [] s0 h0 (fun g hg => hg) (by simpa using hnd)
  have hv := loop_view_all (s0 := s0) s.store [] s0 h0 (by simp [s0, insertAll]) (fun g hg => hg) (by simpa using hnd)
  simp only [List.nil_append] at hl hv
  let s1 := s.store.foldl refStep s0
  have hfr := frame_onRefresh s1
  have hunf : refilter s = emit (onRefresh s1) .vrefresh := rfl
  have hgen : gen (refilter s) = gen s0 := by
    funext g
    rw [hunf]
    show gen (onRefresh s1) g = _
    rw [gen_eq_of hfr.attrs hfr.slot, gen_eq_of hl.attrs hl.slot]
  have hvis : (fun g => visible (refilter s) g) = (fun g => visible s0 g) := by
    funext g
    rw [hunf]
    show visible (onRefresh s1) g = _
    rw [visible_eq_of hfr.attrs hfr.showMarked hfr.filt, visible_eq_of hl.attrs hl.showMarked hl.filt]
  have hst : (refilter s).store = s.store := by
    rw [hunf]; show (onRefresh s1).store = _; rw [hfr.store, hl.store]
  have hview : (refilter s).view = s1.view := by
    rw [hunf]; show (onRefresh s1).view = _; rw [hfr.view]
  rw [hview, hgen, hvis, hst]
  exact hv

/-- `set_order`: the new list is the stable sort of the old list by the new keys -/
theorem setOrder_view {s : VS} (sl : Nat) :
    (opSetOrder s sl).view = insertAll (gen (opSetOrder s sl)) s.view := by
  let s1 : VS := { s with slot := sl }
  have h0 : FreshAll s1 s1 [] := ⟨rfl, rfl, rfl, rfl, rfl, rfl, rfl, rfl, rfl, rfl, rfl, by simp, fun g hg => Or.inl hg⟩
  have hl := freshAll_all (s0 := s1) s1.view [] s1 h0
  simp only [List.nil_append] at hl
  let s2 := s1.view.foldl (fun a f => freshen a f) s1
  have hl' : FreshAll s1 s2 s.view := hl
  have hunf : (opSetOrder s sl).view = insertAll (ck s2) s2.view := rfl
  have hgen : gen (opSetOrder s sl) = gen s1 := by
    funext g
    exact gen_eq_of (s := s1) (s' := opSetOrder s sl) hl'.attrs hl'.slot g
  rw [hunf, hgen, hl'.view]
  apply insertAll_congr
  intro a ha
  simp only [ck, hl'.fresh a ha, Option.getD_some]

end MitmVerif.C43
