/-
  C43 — the order on the real sort keys is a total preorder on keys of one kind.
-/
import MitmVerif.Model.C43_Keys
set_option linter.unusedVariables false
namespace MitmVerif.C43

theorem u8_lt_iff (a b : UInt8) : a < b ↔ a.toNat < b.toNat := UInt8.lt_iff_toNat_lt

theorem lexLe_refl (a : Bytes) : lexLe a a = true := by
  induction a with
  | nil => rfl
  | cons x xs ih =>
    have : ¬ x < x := by rw [u8_lt_iff]; omega
    simp [lexLe, this, ih]

theorem lexLe_total (a b : Bytes) : lexLe a b = true ∨ lexLe b a = true := by
  induction a generalizing b with
  | nil => left; rfl
  | cons x xs ih =>
    cases b with
    | nil => right; rfl
    | cons y ys =>
      by_cases h1 : x < y
      · left; simp [lexLe, h1]
      · by_cases h2 : y < x
        · right; simp [lexLe, h2]
        · simp only [lexLe, h1, h2, if_false]
          exact ih ys

theorem lexLe_trans (a b c : Bytes) (h1 : lexLe a b = true) (h2 : lexLe b c = true) : lexLe a c = true := by
  induction a generalizing b c with
  | nil => rfl
  | cons x xs ih =>
    cases b with
    | nil => simp [lexLe] at h1
    | cons y ys =>
      cases c with
      | nil => simp [lexLe] at h2
      | cons z zs =>
        simp only [lexLe] at h1 h2 ⊢
        have hxy := u8_lt_iff x y; have hyx := u8_lt_iff y x
        have hyz := u8_lt_iff y z; have hzy := u8_lt_iff z y
        have hxz := u8_lt_iff x z; have hzx := u8_lt_iff z x
        by_cases a1 : x < y
        · have : x < z := by
            by_cases a2 : y < z
            · rw [hxz]; rw [hxy] at a1; rw [hyz] at a2; omega
            · by_cases a3 : z < y
              · simp [a2, a3] at h2
              · rw [hxz]; rw [hxy] at a1; rw [hyz] at a2; rw [hzy] at a3; omega
          simp [this]
        · by_cases a1' : y < x
          · simp [a1, a1'] at h1
          · simp only [a1, a1', if_false] at h1
            have exy : x.toNat = y.toNat := by rw [hxy] at a1; rw [hyx] at a1'; omega
            by_cases a2 : y < z
            · have : x < z := by rw [hxz]; rw [hyz] at a2; omega
              simp [this]
            · by_cases a3 : z < y
              · simp [a2, a3] at h2
              · simp only [a2, a3, if_false] at h2
                have n1 : ¬ x < z := by rw [hxz]; rw [hyz] at a2; omega
                have n2 : ¬ z < x := by rw [hzx]; rw [hzy] at a3; omega
                simp only [n1, n2, if_false]
                exact ih ys zs h1 h2

theorem lexLe_antisymm (a b : Bytes) (h1 : lexLe a b = true) (h2 : lexLe b a = true) : a = b := by
  induction a generalizing b with
  | nil => cases b with
    | nil => rfl
    | cons y ys => simp [lexLe] at h2
  | cons x xs ih =>
    cases b with
    | nil => simp [lexLe] at h1
    | cons y ys =>
      simp only [lexLe] at h1 h2
      by_cases a1 : x < y
      · have : ¬ y < x := by rw [u8_lt_iff] at a1 ⊢; omega
        simp [a1, this] at h2
      · by_cases a2 : y < x
        · simp [a1, a2] at h1
        · simp only [a1, a2, if_false] at h1 h2
          have : x = y := by
            apply UInt8.toNat_inj.mp
            rw [u8_lt_iff] at a1 a2; omega
          rw [this, ih ys h1 h2]

/-- keys of one order are all of one kind -/
theorem genKey_kind (slot : Nat) (d : FlowData) : (genKey slot d).isNum = decide (slot ≤ 1 ∨ (slot ≠ 2 ∧ slot ≠ 3)) := by
  unfold genKey
  by_cases h1 : slot ≤ 1
  · simp [h1, SortKey.isNum]
  · by_cases h2 : slot = 2
    · subst h2; cases d <;> simp [SortKey.isNum]
    · by_cases h3 : slot = 3
      · subst h3; cases d <;> simp [SortKey.isNum]
      · simp only [h1, h2, h3, if_false]
        cases d <;> simp [SortKey.isNum, h1, h2, h3]

theorem SortKey.le_total (a b : SortKey) (h : a.isNum = b.isNum) : a.le b = true ∨ b.le a = true := by
  cases a <;> cases b <;> simp [SortKey.isNum] at h
  · simp only [SortKey.le, decide_eq_true_eq]; omega
  · exact lexLe_total _ _

theorem SortKey.le_trans (a b c : SortKey) (h1 : a.le b = true) (h2 : b.le c = true) : a.le c = true := by
  cases a <;> cases b <;> cases c <;> simp [SortKey.le] at h1 h2 ⊢
  · omega
  · exact lexLe_trans _ _ _ h1 h2

theorem SortKey.le_antisymm (a b : SortKey) (h1 : a.le b = true) (h2 : b.le a = true) : a = b := by
  cases a <;> cases b <;> simp [SortKey.le] at h1 h2 ⊢
  · omega
  · exact lexLe_antisymm _ _ h1 h2

end MitmVerif.C43
