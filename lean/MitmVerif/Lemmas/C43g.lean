/-
  C43 — (1) an order-preserving map from the real sort keys occurring in a history to naturals (rank among the
  occurring keys); (2) which operations change a flow's attributes and the store (everything else keeps them).
-/
import MitmVerif.Lemmas.C43e
import MitmVerif.Lemmas.C43f
set_option linter.unusedSectionVars false
set_option linter.unusedSimpArgs false
set_option linter.unusedVariables false
namespace MitmVerif.C43

/-! ### rank among the occurring keys -/

/-- strictly smaller in Python's order (keys of different kinds are unrelated) -/
def SortKey.lt (a b : SortKey) : Bool := a.le b && !b.le a

/-- the number of occurring keys that are strictly smaller -/
def rankIn (K : List SortKey) (k : SortKey) : Nat := K.countP (fun x => x.lt k)

theorem countP_le_of_imp {α : Type} (p q : α → Bool) (l : List α) (h : ∀ x ∈ l, p x = true → q x = true) :
    l.countP p ≤ l.countP q := by
  induction l with
  | nil => simp
  | cons a l ih =>
    have ih' := ih (fun x hx => h x (List.mem_cons_of_mem _ hx))
    have ha := h a (List.mem_cons_self ..)
    simp only [List.countP_cons]
    by_cases hp : p a = true
    · simp [hp, ha hp]; omega
    · simp [hp]; split <;> omega

theorem countP_lt_of_witness {α : Type} (p q : α → Bool) (l : List α) (h : ∀ x ∈ l, p x = true → q x = true)
    (w : α) (hw : w ∈ l) (hq : q w = true) (hp : p w = false) : l.countP p < l.countP q := by
  induction l with
  | nil => simp at hw
  | cons a l ih =>
    simp only [List.countP_cons]
    have hle := countP_le_of_imp p q l (fun x hx => h x (List.mem_cons_of_mem _ hx))
    rcases List.mem_cons.mp hw with hwa | hwl
    · subst hwa; simp [hq, hp]; omega
    · have ih' := ih (fun x hx => h x (List.mem_cons_of_mem _ hx)) hwl
      have ha := h a (List.mem_cons_self ..)
      by_cases hpa : p a = true
      · simp [hpa, ha hpa]; omega
      · simp [hpa]; split <;> omega

/-- **rank reflects the order**: for two occurring keys of one kind, a smaller-or-equal rank means `<=` in Python's
    order on the keys -/
theorem rankIn_reflects (K : List SortKey) (a b : SortKey) (hk : a.isNum = b.isNum) (hb : b ∈ K)
    (h : rankIn K a ≤ rankIn K b) : a.le b = true := by
  cases hab : a.le b with
  | true => rfl
  | false =>
    exfalso
    have hba : b.le a = true := by
      rcases SortKey.le_total a b hk with h' | h'
      · rw [hab] at h'; cases h'
      · exact h'
    have hlt : rankIn K b < rankIn K a := by
      apply countP_lt_of_witness (fun x => x.lt b) (fun x => x.lt a) K _ b hb
      · simp [SortKey.lt, hba, hab]
      · have : b.le b = true := by
          rcases SortKey.le_total b b rfl with h' | h' <;> exact h'
        simp [SortKey.lt, this]
      · intro x _ hx
        simp only [SortKey.lt, Bool.and_eq_true, Bool.not_eq_true'] at hx ⊢
        refine ⟨SortKey.le_trans x b a hx.1 hba, ?_⟩
        cases hax : a.le x with
        | false => rfl
        | true =>
          have := SortKey.le_trans a x b hax hx.1
          rw [hab] at this; cases this
    omega

/-- … and preserves it -/
theorem rankIn_preserves (K : List SortKey) (a b : SortKey) (h : a.le b = true) : rankIn K a ≤ rankIn K b := by
  apply countP_le_of_imp
  intro x _ hx
  simp only [SortKey.lt, Bool.and_eq_true, Bool.not_eq_true'] at hx ⊢
  refine ⟨SortKey.le_trans x a b hx.1 h, ?_⟩
  cases hbx : b.le x with
  | false => rfl
  | true =>
    have := SortKey.le_trans a b x h hbx
    rw [hx.2] at this; cases this

/-! ### which operations touch attributes and the store -/

/-- attributes and store unchanged -/
def Keep (s s' : VS) : Prop := s'.attrs = s.attrs ∧ s'.store = s.store

theorem Keep.refl (s : VS) : Keep s s := ⟨rfl, rfl⟩
theorem Keep.trans {a b c : VS} (h1 : Keep a b) (h2 : Keep b c) : Keep a c := ⟨h2.1.trans h1.1, h2.2.trans h1.2⟩
theorem Keep.of_frame {s s' : VS} (h : Frame s s') : Keep s s' := ⟨h.attrs, h.store⟩
theorem keep_emit (s : VS) (g : Sig) : Keep s (emit s g) := ⟨rfl, rfl⟩

theorem keep_baseAdd (s : VS) (f : Nat) : Keep s (baseAdd s f) := ⟨(baseAdd_fields s f).1, (baseAdd_fields s f).2.1⟩

theorem keep_freshen (s : VS) (f : Nat) : Keep s (freshen s f) :=
  ⟨(setCache_fields s f (gen s f)).1, (setCache_fields s f (gen s f)).2.1⟩

theorem keep_ensure (s : VS) (f : Nat) : Keep s (ensure s f) := ⟨(ensure_fields s f).1, (ensure_fields s f).2.1⟩

theorem keep_refStep (s : VS) (f : Nat) : Keep s (refStep s f) := by
  unfold refStep; split
  · exact keep_baseAdd s f
  · exact Keep.refl s

theorem keep_foldl {α : Type} (g : VS → α → VS) (hg : ∀ s a, Keep s (g s a)) (l : List α) (s : VS) : Keep s (l.foldl g s) := by
  induction l generalizing s with
  | nil => exact Keep.refl s
  | cons a l ih => simp only [List.foldl_cons]; exact (hg s a).trans (ih _)

theorem keep_refilter (s : VS) : Keep s (refilter s) := by
  have h1 : Keep { s with view := [] } (s.store.foldl refStep { s with view := [] }) := keep_foldl refStep keep_refStep _ _
  have h0 : Keep s { s with view := [] } := ⟨rfl, rfl⟩
  exact (h0.trans h1).trans ((Keep.of_frame (frame_onRefresh _)).trans (keep_emit _ _))

theorem keep_purge (s : VS) : Keep s (purge s) := ⟨rfl, rfl⟩

theorem keep_enterView (s : VS) (f : Nat) : Keep s (enterView s f) := by
  unfold enterView
  refine (keep_baseAdd s f).trans ?_
  refine Keep.trans (b := if (baseAdd s f).focusFollow then setFocus (baseAdd s f) (some f) else baseAdd s f) ?_ ?_
  · split
    · exact Keep.of_frame (frame_setFocus _ _)
    · exact Keep.refl _
  · exact (Keep.of_frame (frame_onViewAdd _ f)).trans (keep_emit _ _)

theorem keep_leaveView (s : VS) (f : Nat) : Keep s (leaveView s f) := by
  unfold leaveView
  have h0 : Keep s { s with view := s.view.erase f } := ⟨rfl, rfl⟩
  exact h0.trans ((Keep.of_frame (frame_onViewRemove _ f _)).trans (keep_emit _ _))

theorem keep_refreshKey (s : VS) (f : Nat) : Keep s (refreshKey s f) := by
  unfold refreshKey
  split
  · exact ⟨rfl, rfl⟩
  · simp only
    split
    · exact keep_ensure s f
    · have e := ensure_fields s f
      have h1 : Keep s { ensure s f with view := (ensure s f).view.erase f } := ⟨e.1, e.2.1⟩
      let s1 : VS := { ensure s f with view := (ensure s f).view.erase f }
      have h2 : Keep s1 (setCache s1 f (gen (ensure s f) f)) :=
        ⟨(setCache_fields s1 f _).1, (setCache_fields s1 f _).2.1⟩
      let s2 := setCache s1 f (gen (ensure s f) f)
      have h3 : Keep s2 { s2 with view := sortedInsert (ck s2) f s2.view } := ⟨rfl, rfl⟩
      exact ((h1.trans h2).trans h3).trans ((Keep.of_frame (frame_onRefresh _)).trans (keep_emit _ _))

theorem keep_updateCore (s : VS) (f : Nat) : Keep s (updateCore s f) := by
  by_cases hst : f ∈ s.store
  · rw [updateCore_unfold hst]
    have hp := Keep.of_frame (frame_probe s f)
    split
    · split
      · exact hp.trans ((keep_refreshKey _ f).trans (keep_emit _ _))
      · exact hp.trans (keep_enterView _ f)
    · split
      · exact hp.trans (keep_leaveView _ f)
      · exact hp
  · have : updateCore s f = s := by simp only [updateCore, hst, if_false]
    rw [this]; exact Keep.refl s

theorem keep_opSetOrder (s : VS) (sl : Nat) : Keep s (opSetOrder s sl) := by
  unfold opSetOrder
  have h0 : Keep s { s with slot := sl } := ⟨rfl, rfl⟩
  have h1 := keep_foldl (fun a f => freshen a f) keep_freshen ({ s with slot := sl } : VS).view { s with slot := sl }
  exact (h0.trans h1).trans ⟨rfl, rfl⟩

theorem keep_focusAt (s : VS) (i : Nat) : Keep s (focusAt s i) := Keep.of_frame (frame_focusAt s i)

theorem keep_probeFocus (s : VS) : Keep s (probeFocus s) := Keep.of_frame (probeFocus_frame s).1

theorem keep_opGo (s : VS) (o : Int) : Keep s (opGo s o) := by
  unfold opGo; split
  · exact Keep.refl s
  · exact keep_focusAt s _

theorem keep_opNext (s : VS) : Keep s (opNext s) := by
  unfold opNext
  simp only
  refine (keep_probeFocus s).trans ?_
  split
  · exact Keep.refl _
  · split
    · exact keep_focusAt _ _
    · exact Keep.refl _

theorem keep_opPrev (s : VS) : Keep s (opPrev s) := by
  unfold opPrev
  simp only
  refine (keep_probeFocus s).trans ?_
  split
  · exact Keep.refl _
  · split
    · exact keep_focusAt _ _
    · exact Keep.refl _

theorem keep_opFocus (s : VS) (f : Nat) : Keep s (opFocus s f) := by
  unfold opFocus; split
  · exact Keep.of_frame (frame_setFocus s _)
  · exact ⟨(frame_probe s f).attrs, (frame_probe s f).store⟩

theorem keep_opSetval (s : VS) (f : Nat) : Keep s (opSetval s f) := by
  unfold opSetval; split
  · exact (keep_ensure s f).trans (keep_updateCore _ f)
  · exact ⟨rfl, rfl⟩

theorem opAdd_as (s : VS) (f : Nat) (a : Attr) :
    ((opAdd s f a).attrs = if f ∈ s.store then s.attrs else (setAttr s f a).attrs) ∧
    (∀ g, g ∈ (opAdd s f a).store → g ∈ s.store ∨ (g = f ∧ g ∉ s.store)) := by
  unfold opAdd
  by_cases hst : f ∈ s.store
  · simp only [hst, if_true]
    exact ⟨trivial, fun g hg => Or.inl hg⟩
  · simp only [hst, if_false]
    have hmem : ∀ g, g ∈ s.store ++ [f] → g ∈ s.store ∨ (g = f ∧ g ∉ s.store) := by
      intro g hg
      rcases List.mem_append.mp hg with h | h
      · exact Or.inl h
      · have : g = f := by simpa using h
        subst this; exact Or.inr ⟨rfl, hst⟩
    split
    · have k := keep_enterView ({ setAttr s f a with store := s.store ++ [f] } : VS) f
      refine ⟨k.1, fun g hg => hmem g ?_⟩
      rw [k.2] at hg; exact hg
    · exact ⟨rfl, hmem⟩

theorem opRemove_as (s : VS) (f : Nat) :
    ((opRemove s f).attrs = s.attrs) ∧ (∀ g, g ∈ (opRemove s f).store → g ∈ s.store) := by
  unfold opRemove
  split
  · have hp := Keep.of_frame (frame_probe s f)
    have k1 : Keep s (if f ∈ (probe s f).view then leaveView (probe s f) f else probe s f) := by
      split
      · exact hp.trans (keep_leaveView _ f)
      · exact hp
    refine ⟨k1.1, fun g hg => ?_⟩
    have hg' : g ∈ (if f ∈ (probe s f).view then leaveView (probe s f) f else probe s f).store.erase f := hg
    have := List.mem_of_mem_erase hg'
    rw [k1.2] at this; exact this
  · exact ⟨rfl, fun g hg => hg⟩

theorem opClear_as (s : VS) : ((opClear s).attrs = s.attrs) ∧ (∀ g, g ∈ (opClear s).store → g ∈ s.store) := by
  have hfr := frame_onRefresh ({ s with store := [], view := [] } : VS)
  refine ⟨hfr.attrs, fun g hg => ?_⟩
  have : g ∈ (onRefresh ({ s with store := [], view := [] } : VS)).store := hg
  rw [hfr.store] at this; simp at this

theorem opClearUnmarked_as (s : VS) :
    ((opClearUnmarked s).attrs = s.attrs) ∧ (∀ g, g ∈ (opClearUnmarked s).store → g ∈ s.store) := by
  have k := keep_refilter ({ s with store := s.store.filter (fun f => (s.attrs f).marked) } : VS)
  refine ⟨k.1, fun g hg => ?_⟩
  have : g ∈ (refilter ({ s with store := s.store.filter (fun f => (s.attrs f).marked) } : VS)).store := hg
  rw [k.2] at this
  exact (List.mem_filter.mp this).1

/-- what one operation does to the live attributes and to the store -/
theorem step_attrs_store (s : VS) (op : Op) :
    ((step s op).attrs = match op with
      | .mutate f a => (setAttr s f a).attrs
      | .update f a => (setAttr s f a).attrs
      | .add f a => if f ∈ s.store then s.attrs else (setAttr s f a).attrs
      | _ => s.attrs) ∧
    (∀ g, g ∈ (step s op).store → g ∈ s.store ∨ ∃ a, op = .add g a ∧ g ∉ s.store) := by
  let s0 : VS := { s with trace := [], err := false }
  have hs : step s op = apply s0 op := rfl
  rw [hs]
  cases op with
  | mutate f a => exact ⟨rfl, fun g hg => Or.inl hg⟩
  | update f a =>
    have k := keep_updateCore (setAttr s0 f a) f
    exact ⟨k.1, fun g hg => Or.inl (by have : g ∈ (updateCore (setAttr s0 f a) f).store := hg; rw [k.2] at this; exact this)⟩
  | add f a =>
    have k := opAdd_as s0 f a
    refine ⟨k.1, fun g hg => ?_⟩
    rcases k.2 g hg with h | ⟨h1, h2⟩
    · exact Or.inl h
    · subst h1; exact Or.inr ⟨a, rfl, h2⟩
  | remove f => exact ⟨(opRemove_as s0 f).1, fun g hg => Or.inl ((opRemove_as s0 f).2 g hg)⟩
  | clear => exact ⟨(opClear_as s0).1, fun g hg => Or.inl ((opClear_as s0).2 g hg)⟩
  | clearUnmarked => exact ⟨(opClearUnmarked_as s0).1, fun g hg => Or.inl ((opClearUnmarked_as s0).2 g hg)⟩
  | setFilter k =>
    have kk := keep_refilter ({ s0 with filt := k } : VS)
    exact ⟨kk.1, fun g hg => Or.inl (by have : g ∈ (refilter ({ s0 with filt := k } : VS)).store := hg; rw [kk.2] at this; exact this)⟩
  | toggleMarked =>
    have kk := keep_refilter ({ s0 with showMarked := !s0.showMarked } : VS)
    exact ⟨kk.1, fun g hg => Or.inl (by
      have : g ∈ (refilter ({ s0 with showMarked := !s0.showMarked } : VS)).store := hg; rw [kk.2] at this; exact this)⟩
  | setReversed b =>
    have hfr := frame_onRefresh ({ s0 with reversed := b } : VS)
    exact ⟨hfr.attrs, fun g hg => Or.inl (by
      have : g ∈ (onRefresh ({ s0 with reversed := b } : VS)).store := hg; rw [hfr.store] at this; exact this)⟩
  | setOrder sl =>
    simp only [apply]
    split
    · have kk := keep_opSetOrder s0 sl
      exact ⟨kk.1, fun g hg => Or.inl (by rw [kk.2] at hg; exact hg)⟩
    · exact ⟨rfl, fun g hg => Or.inl hg⟩
  | focusFollow b => exact ⟨rfl, fun g hg => Or.inl hg⟩
  | go o =>
    have kk := keep_opGo s0 o
    exact ⟨kk.1, fun g hg => Or.inl (by have : g ∈ (opGo s0 o).store := hg; rw [kk.2] at this; exact this)⟩
  | next =>
    have kk := keep_opNext s0
    exact ⟨kk.1, fun g hg => Or.inl (by have : g ∈ (opNext s0).store := hg; rw [kk.2] at this; exact this)⟩
  | prev =>
    have kk := keep_opPrev s0
    exact ⟨kk.1, fun g hg => Or.inl (by have : g ∈ (opPrev s0).store := hg; rw [kk.2] at this; exact this)⟩
  | focus f =>
    have kk := keep_opFocus s0 f
    exact ⟨kk.1, fun g hg => Or.inl (by have : g ∈ (opFocus s0 f).store := hg; rw [kk.2] at this; exact this)⟩
  | setval f =>
    have kk := keep_opSetval s0 f
    exact ⟨kk.1, fun g hg => Or.inl (by have : g ∈ (opSetval s0 f).store := hg; rw [kk.2] at this; exact this)⟩

end MitmVerif.C43
