/-
  C43 — histories given by what the key generators read of the flows (`FlowData`): the naturals of the view model are
  then the ranks of the generated keys among all keys of the history, and the view is sorted by the generated keys.
-/
import MitmVerif.Lemmas.C43g
set_option linter.unusedSectionVars false
set_option linter.unusedSimpArgs false
set_option linter.unusedVariables false
namespace MitmVerif.C43

/-- an operation, with the flows described by what the key generators read of them -/
inductive ROp where
  | mutate (f : Nat) (d : FlowData) (marked : Bool) (verdicts : List Bool)
  | add (f : Nat) (d : FlowData) (marked : Bool) (verdicts : List Bool)
  | update (f : Nat) (d : FlowData) (marked : Bool) (verdicts : List Bool)
  | remove (f : Nat)
  | clear
  | clearUnmarked
  | setFilter (k : Nat)
  | toggleMarked
  | setReversed (b : Bool)
  | setOrder (slot : Nat)
  | focusFollow (b : Bool)
  | go (offset : Int)
  | next
  | prev
  | focus (f : Nat)
  | setval (f : Nat)

/-- the attributes the view model is given for a flow: its four generated keys mapped to naturals by `rank` -/
def attrOf (rank : SortKey → Nat) (d : FlowData) (mk : Bool) (vs : List Bool) : Attr :=
  { kt := rank (genKey 1 d), km := rank (genKey 2 d), ku := rank (genKey 3 d), kz := rank (genKey 4 d),
    marked := mk, verdicts := vs }

def toOp (rank : SortKey → Nat) : ROp → Op
  | .mutate f d m v => .mutate f (attrOf rank d m v)
  | .add f d m v => .add f (attrOf rank d m v)
  | .update f d m v => .update f (attrOf rank d m v)
  | .remove f => .remove f
  | .clear => .clear
  | .clearUnmarked => .clearUnmarked
  | .setFilter k => .setFilter k
  | .toggleMarked => .toggleMarked
  | .setReversed b => .setReversed b
  | .setOrder sl => .setOrder sl
  | .focusFollow b => .focusFollow b
  | .go o => .go o
  | .next => .next
  | .prev => .prev
  | .focus f => .focus f
  | .setval f => .setval f

def keys4 (d : FlowData) : List SortKey := [genKey 1 d, genKey 2 d, genKey 3 d, genKey 4 d]

/-- every key that any order could generate for any flow state occurring in the history -/
def keysOf : List ROp → List SortKey
  | [] => []
  | .mutate _ d _ _ :: r => keys4 d ++ keysOf r
  | .add _ d _ _ :: r => keys4 d ++ keysOf r
  | .update _ d _ _ :: r => keys4 d ++ keysOf r
  | _ :: r => keysOf r

/-- the live state of the flows as the history describes it (an `add` of a stored flow is ignored by the view, and the
    harness does not change such a flow) -/
def dataStep (s : VS) (D : Nat → FlowData) : ROp → (Nat → FlowData)
  | .mutate f d _ _ => fun g => if g = f then d else D g
  | .update f d _ _ => fun g => if g = f then d else D g
  | .add f d _ _ => if f ∈ s.store then D else fun g => if g = f then d else D g
  | _ => D

def rrun (rank : SortKey → Nat) (rops : List ROp) : VS × (Nat → FlowData) :=
  rops.foldl (fun p r => (step p.1 (toOp rank r), dataStep p.1 p.2 r)) (init, fun _ => .dns 0 0 none none)

def normSlot (sl : Nat) : Nat := if sl ≤ 1 then 1 else if sl = 2 then 2 else if sl = 3 then 3 else 4

theorem genKey_norm (sl : Nat) (d : FlowData) : genKey sl d = genKey (normSlot sl) d := by
  unfold normSlot genKey
  by_cases h1 : sl ≤ 1
  · simp [h1]
  · by_cases h2 : sl = 2
    · simp [h2]
    · by_cases h3 : sl = 3
      · simp [h3]
      · simp [h1, h2, h3]

theorem attrOf_key (rank : SortKey → Nat) (d : FlowData) (m : Bool) (v : List Bool) (sl : Nat) :
    (attrOf rank d m v).key sl = rank (genKey sl d) := by
  rw [genKey_norm sl d]
  unfold Attr.key attrOf normSlot
  by_cases h1 : sl ≤ 1
  · simp [h1]
  · by_cases h2 : sl = 2
    · simp [h2]
    · by_cases h3 : sl = 3
      · simp [h3]
      · simp [h1, h2, h3]

theorem genKey_mem_keys4 (sl : Nat) (d : FlowData) : genKey sl d ∈ keys4 d := by
  rw [genKey_norm]
  unfold normSlot keys4
  by_cases h1 : sl ≤ 1
  · simp [h1]
  · by_cases h2 : sl = 2
    · simp [h2]
    · by_cases h3 : sl = 3
      · simp [h3]
      · simp [h1, h2, h3]

/-- the naturals in the model are the ranks of the generated keys of the live flow states, and those keys occur in `K` -/
def Synced (rank : SortKey → Nat) (K : List SortKey) (s : VS) (D : Nat → FlowData) : Prop :=
  ∀ f, f ∈ s.store → (∀ sl, (s.attrs f).key sl = rank (genKey sl (D f))) ∧ (∀ sl, genKey sl (D f) ∈ K)

theorem synced_step (rank : SortKey → Nat) (K : List SortKey) (s : VS) (D : Nat → FlowData) (r : ROp)
    (h : Synced rank K s D) (hK : ∀ k, k ∈ keysOf [r] → k ∈ K) :
    Synced rank K (step s (toOp rank r)) (dataStep s D r) := by
  have hs := step_attrs_store s (toOp rank r)
  intro g hg
  have hnew : ∀ d m v, (∀ k, k ∈ keys4 d → k ∈ K) →
      (∀ sl, (attrOf rank d m v).key sl = rank (genKey sl d)) ∧ (∀ sl, genKey sl d ∈ K) :=
    fun d m v hk => ⟨fun sl => attrOf_key rank d m v sl, fun sl => hk _ (genKey_mem_keys4 sl d)⟩
  cases r with
  | mutate f d m v =>
    have hk : ∀ k, k ∈ keys4 d → k ∈ K := fun k hk' => hK k (by simp [keysOf, hk'])
    have hst : g ∈ s.store := by
      rcases hs.2 g hg with h' | ⟨a, h', _⟩
      · exact h'
      · simp [toOp] at h'
    simp only [toOp] at hs hg ⊢
    rw [hs.1]
    by_cases hgf : g = f
    · subst hgf; simpa [setAttr, dataStep] using hnew d m v hk
    · simpa [setAttr, dataStep, hgf] using h g hst
  | update f d m v =>
    have hk : ∀ k, k ∈ keys4 d → k ∈ K := fun k hk' => hK k (by simp [keysOf, hk'])
    have hst : g ∈ s.store := by
      rcases hs.2 g hg with h' | ⟨a, h', _⟩
      · exact h'
      · simp [toOp] at h'
    simp only [toOp] at hs hg ⊢
    rw [hs.1]
    by_cases hgf : g = f
    · subst hgf; simpa [setAttr, dataStep] using hnew d m v hk
    · simpa [setAttr, dataStep, hgf] using h g hst
  | add f d m v =>
    have hk : ∀ k, k ∈ keys4 d → k ∈ K := fun k hk' => hK k (by simp [keysOf, hk'])
    simp only [toOp] at hs hg ⊢
    rw [hs.1]
    by_cases hfs : f ∈ s.store
    · have hst : g ∈ s.store := by
        rcases hs.2 g hg with h' | ⟨a, h', hn⟩
        · exact h'
        · simp only [toOp, Op.add.injEq] at h'
          exact absurd (h'.1 ▸ hfs) hn
      simpa [dataStep, hfs] using h g hst
    · by_cases hgf : g = f
      · subst hgf; simpa [setAttr, dataStep, hfs] using hnew d m v hk
      · have hst : g ∈ s.store := by
          rcases hs.2 g hg with h' | ⟨a, h', _⟩
          · exact h'
          · simp only [toOp, Op.add.injEq] at h'
            exact absurd h'.1.symm hgf
        simpa [setAttr, dataStep, hfs, hgf] using h g hst
  | remove f => simp only [toOp, dataStep] at hs hg ⊢; rw [hs.1]; rcases hs.2 g hg with h' | ⟨a, h', _⟩; exact h g h'; simp at h'
  | clear => simp only [toOp, dataStep] at hs hg ⊢; rw [hs.1]; rcases hs.2 g hg with h' | ⟨a, h', _⟩; exact h g h'; simp at h'
  | clearUnmarked => simp only [toOp, dataStep] at hs hg ⊢; rw [hs.1]; rcases hs.2 g hg with h' | ⟨a, h', _⟩; exact h g h'; simp at h'
  | setFilter k => simp only [toOp, dataStep] at hs hg ⊢; rw [hs.1]; rcases hs.2 g hg with h' | ⟨a, h', _⟩; exact h g h'; simp at h'
  | toggleMarked => simp only [toOp, dataStep] at hs hg ⊢; rw [hs.1]; rcases hs.2 g hg with h' | ⟨a, h', _⟩; exact h g h'; simp at h'
  | setReversed b => simp only [toOp, dataStep] at hs hg ⊢; rw [hs.1]; rcases hs.2 g hg with h' | ⟨a, h', _⟩; exact h g h'; simp at h'
  | setOrder sl => simp only [toOp, dataStep] at hs hg ⊢; rw [hs.1]; rcases hs.2 g hg with h' | ⟨a, h', _⟩; exact h g h'; simp at h'
  | focusFollow b => simp only [toOp, dataStep] at hs hg ⊢; rw [hs.1]; rcases hs.2 g hg with h' | ⟨a, h', _⟩; exact h g h'; simp at h'
  | go o => simp only [toOp, dataStep] at hs hg ⊢; rw [hs.1]; rcases hs.2 g hg with h' | ⟨a, h', _⟩; exact h g h'; simp at h'
  | next => simp only [toOp, dataStep] at hs hg ⊢; rw [hs.1]; rcases hs.2 g hg with h' | ⟨a, h', _⟩; exact h g h'; simp at h'
  | prev => simp only [toOp, dataStep] at hs hg ⊢; rw [hs.1]; rcases hs.2 g hg with h' | ⟨a, h', _⟩; exact h g h'; simp at h'
  | focus f => simp only [toOp, dataStep] at hs hg ⊢; rw [hs.1]; rcases hs.2 g hg with h' | ⟨a, h', _⟩; exact h g h'; simp at h'
  | setval f => simp only [toOp, dataStep] at hs hg ⊢; rw [hs.1]; rcases hs.2 g hg with h' | ⟨a, h', _⟩; exact h g h'; simp at h'

theorem keysOf_append (a b : List ROp) : ∀ k, k ∈ keysOf (a ++ b) ↔ k ∈ keysOf a ∨ k ∈ keysOf b := by
  induction a with
  | nil => intro k; simp [keysOf]
  | cons r rs ih =>
    intro k
    cases r <;> simp [keysOf, ih k, or_assoc]

theorem rrun_fst (rank : SortKey → Nat) (rops : List ROp) : (rrun rank rops).1 = run (rops.map (toOp rank)) := by
  unfold rrun run
  have : ∀ (rops : List ROp) (p : VS × (Nat → FlowData)),
      (rops.foldl (fun p r => (step p.1 (toOp rank r), dataStep p.1 p.2 r)) p).1 = (rops.map (toOp rank)).foldl step p.1 := by
    intro rops
    induction rops with
    | nil => intro p; rfl
    | cons r rs ih => intro p; simp only [List.foldl_cons, List.map_cons]; exact ih _
  exact this rops _

theorem synced_rrun (rank : SortKey → Nat) (K : List SortKey) (rops : List ROp) (hK : ∀ k, k ∈ keysOf rops → k ∈ K) :
    Synced rank K (rrun rank rops).1 (rrun rank rops).2 := by
  unfold rrun
  have : ∀ (rops : List ROp) (p : VS × (Nat → FlowData)), Synced rank K p.1 p.2 → (∀ k, k ∈ keysOf rops → k ∈ K) →
      Synced rank K (rops.foldl (fun p r => (step p.1 (toOp rank r), dataStep p.1 p.2 r)) p).1
        (rops.foldl (fun p r => (step p.1 (toOp rank r), dataStep p.1 p.2 r)) p).2 := by
    intro rops
    induction rops with
    | nil => intro p h _; exact h
    | cons r rs ih =>
      intro p h hk
      simp only [List.foldl_cons]
      apply ih
      · exact synced_step rank K p.1 p.2 r h (fun k hk' => hk k ((keysOf_append [r] rs k).mpr (Or.inl hk')))
      · exact fun k hk' => hk k ((keysOf_append [r] rs k).mpr (Or.inr hk'))
  exact this rops _ (by intro f hf; simp [init] at hf) hK

end MitmVerif.C43
