/-
  C48 — lemmas about Model.Sh: how the reading of a command line advances over unquoted safe words,
  single-quoted segments and `shlex.quote`d arguments.
-/
import MitmVerif.Model.C48
namespace MitmVerif.Lemmas.C48
open MitmVerif MitmVerif.C48 MitmVerif.C48.Sh

theorem steps_append (hex : Bool) : ∀ (a b : Bytes) (s : St),
    steps hex s (a ++ b) = (steps hex s a).bind (fun s' => steps hex s' b) := by
  intro a
  induction a with
  | nil => intro b s; simp [steps]
  | cons c r ih =>
    intro b s
    simp only [List.cons_append, steps]
    cases h : step hex s c with
    | none => simp
    | some s' => simp [ih]

theorem safe_not_special_fin : ∀ n : Fin 256, safe (UInt8.ofNat n.val) = true →
    n.val ≠ 32 ∧ n.val ≠ 39 ∧ n.val ≠ 34 ∧ n.val ≠ 60 ∧ n.val ≠ 41 := by decide +kernel

theorem safe_not_special (c : UInt8) (h : safe c = true) :
    c ≠ 32 ∧ c ≠ 39 ∧ c ≠ 34 ∧ c ≠ 60 ∧ c ≠ 41 := by
  have := safe_not_special_fin ⟨c.toNat, UInt8.toNat_lt c⟩ (by simpa using h)
  obtain ⟨h1, h2, h3, h4, h5⟩ := this
  refine ⟨?_, ?_, ?_, ?_, ?_⟩ <;> (intro hc; subst hc; simp at *)

/-- bytes appended to the word under construction -/
def addBytes (w : Option Word) (b : Bytes) : Option Word :=
  match b with
  | [] => w
  | _ :: _ => Word.append w b

theorem push_eq (w : Option Word) (c : UInt8) : Word.push w c = Word.append w [c] := by
  cases w <;> rfl

/-- unquoted safe characters are collected literally -/
theorem steps_safe (hex : Bool) : ∀ (w : Bytes) (s : St), s.mode = .normal → w.all safe = true →
    steps hex s w = some { s with cur := addBytes s.cur w } := by
  intro w
  induction w with
  | nil => intro s _ _; simp [steps, addBytes]
  | cons c r ih =>
    intro s hm hs
    simp only [List.all_cons, Bool.and_eq_true] at hs
    obtain ⟨h1, h2, h3, h4, h5⟩ := safe_not_special c hs.1
    have hstep : step hex s c = some { s with cur := Word.push s.cur c } := by
      simp [step, hm, h1, h2, h3, h4, h5, hs.1]
    simp only [steps, hstep]
    rw [ih _ (by simpa using hm) hs.2]
    cases hc : s.cur with
    | none =>
      cases r <;> simp [addBytes, Word.push, Word.append]
    | some w0 =>
      cases r <;> simp [addBytes, Word.push, Word.append]

/-- inside single quotes, the escaped form of `a` contributes exactly `a` and the reader is inside quotes again -/
theorem steps_escSq (hex : Bool) : ∀ (a : Bytes) (s : St) (w : Word), s.mode = .sq → s.cur = some w →
    steps hex s (escSq a) = some { s with cur := some ⟨w.bytes ++ a, w.op⟩ } := by
  intro a
  induction a with
  | nil => intro s w _ hc; cases s; simp_all [escSq, steps]
  | cons c r ih =>
    intro s w hm hc
    by_cases h : c = 39
    · subst h
      have : escSq (39 :: r) = 39 :: 34 :: 39 :: 34 :: 39 :: escSq r := by simp [escSq, qSq]
      rw [this]
      simp only [steps]
      simp only [step, hm, hc, Word.start, Word.push]
      simp
      have := ih ⟨.sq, some ⟨w.bytes ++ [39], w.op⟩, s.acc, s.frame⟩ ⟨w.bytes ++ [39], w.op⟩ rfl rfl
      simpa [List.append_assoc] using this
    · have : escSq (c :: r) = c :: escSq r := by simp [escSq, h]
      rw [this]
      simp only [steps]
      have hstep : step hex s c = some { s with cur := Word.push s.cur c } := by simp [step, hm, h]
      simp only [hstep]
      have := ih { s with cur := Word.push s.cur c } ⟨w.bytes ++ [c], w.op⟩ (by simpa using hm) (by simp [hc, Word.push])
      simpa [List.append_assoc] using this

/-- a `shlex.quote`d argument read from the start of a word yields exactly that argument as the word -/
theorem steps_quote (hex : Bool) (a : Bytes) (s : St) (hm : s.mode = .normal) (hc : s.cur = none) :
    steps hex s (quote a) = some { s with cur := some ⟨a, false⟩ } := by
  unfold quote
  by_cases he : a.isEmpty = true
  · have : a = [] := by simpa using he
    subst this
    simp [steps, step, hm, hc, Word.start]
  · simp only [he, Bool.false_eq_true, if_false]
    by_cases hs : a.all safe = true
    · simp only [hs, if_true]
      rw [steps_safe hex a s hm hs]
      cases a with
      | nil => simp at he
      | cons x xs => simp [addBytes, Word.append, hc]
    · simp only [hs, Bool.false_eq_true, if_false]
      rw [show ([39] : Bytes) ++ escSq a ++ [39] = 39 :: (escSq a ++ [39]) by simp]
      simp only [steps]
      have h1 : step hex s 39 = some { s with mode := .sq, cur := some ⟨[], false⟩ } := by
        simp [step, hm, hc, Word.start]
      simp only [h1]
      rw [steps_append, steps_escSq hex a _ ⟨[], false⟩ rfl rfl]
      simp [steps, step, hm]

def mkWord (b : Bytes) : Word := ⟨b, false⟩

/-- the whole joined command line: every argument comes back as one word -/
theorem steps_join (hex : Bool) : ∀ (args : List Bytes) (s : St), s.mode = .normal → s.cur = none →
    ∃ s', steps hex s (joinSp (args.map quote)) = some s' ∧ s'.mode = .normal ∧ s'.frame = s.frame ∧
      finish s' = (args.map mkWord).reverse ++ s.acc := by
  intro args
  induction args with
  | nil => intro s hm hc; exact ⟨s, by simp [joinSp, steps], hm, rfl, by simp [finish, hc]⟩
  | cons a r ih =>
    intro s hm hc
    cases r with
    | nil =>
      refine ⟨{ s with cur := some ⟨a, false⟩ }, ?_, by simpa using hm, rfl, ?_⟩
      · simpa [joinSp] using steps_quote hex a s hm hc
      · simp [finish, mkWord]
    | cons b r' =>
      have hj : joinSp ((a :: b :: r').map quote) = quote a ++ ([32] ++ joinSp ((b :: r').map quote)) := by
        simp [joinSp]
      rw [hj, steps_append, steps_quote hex a s hm hc]
      simp only [Option.bind_some, List.singleton_append, steps]
      have hsp : step hex { s with cur := some ⟨a, false⟩ } 32 =
          some ⟨.normal, none, ⟨a, false⟩ :: s.acc, s.frame⟩ := by
        simp [step, hm, finish]
      simp only [hsp]
      obtain ⟨s', h1, h2, h3, h4⟩ := ih ⟨.normal, none, ⟨a, false⟩ :: s.acc, s.frame⟩ rfl rfl
      exact ⟨s', h1, h2, h3, by simp [h4, mkWord]⟩

theorem interp_plain : ∀ ws : List Bytes, interp (ws.map mkWord) = some ⟨ws, none⟩ := by
  intro ws
  induction ws with
  | nil => simp [interp]
  | cons w r ih =>
    have : interp (mkWord w :: r.map mkWord) = (interp (r.map mkWord)).map fun e => ⟨w :: e.argv, e.stdin⟩ := by
      rw [interp.eq_def]; simp [mkWord]
    simp only [List.map_cons, this, ih]; rfl

end MitmVerif.Lemmas.C48
