/-
  C48 — lemmas: curl's reading of the argv that `curl_command` builds.
-/
import MitmVerif.Model.C48
namespace MitmVerif.Lemmas.C48
open MitmVerif MitmVerif.C48

theorem dec_H (v : Bytes) (r : List Bytes) (c : Curl) :
    decodeCurlArgs (sH :: v :: r) .none c = decodeCurlArgs r .none { c with headers := c.headers ++ [v] } := by
  simp [decodeCurlArgs, decStep]

theorem dec_X (v : Bytes) (r : List Bytes) (c : Curl) :
    decodeCurlArgs (sX :: v :: r) .none c = decodeCurlArgs r .none { c with method := some v } := by
  simp [decodeCurlArgs, decStep, sX, sH]

theorem dec_D (v : Bytes) (r : List Bytes) (c : Curl) :
    decodeCurlArgs (sD :: v :: r) .none c = decodeCurlArgs r .none { c with data := some v } := by
  simp [decodeCurlArgs, decStep, sX, sH, sD]

theorem dec_R (v : Bytes) (r : List Bytes) (c : Curl) :
    decodeCurlArgs (sResolve :: v :: r) .none c = decodeCurlArgs r .none { c with resolve := c.resolve ++ [v] } := by
  simp [decodeCurlArgs, decStep, sX, sH, sD, sResolve]

theorem dec_C (r : List Bytes) (c : Curl) :
    decodeCurlArgs (sCompressed :: r) .none c = decodeCurlArgs r .none { c with compressed := true } := by
  simp [decodeCurlArgs, decStep, sX, sH, sD, sResolve, sCompressed]

theorem dec_G (r : List Bytes) (c : Curl) :
    decodeCurlArgs (sGloboff :: r) .none c = decodeCurlArgs r .none { c with globoff := true } := by
  simp [decodeCurlArgs, decStep, sX, sH, sD, sResolve, sCompressed, sGloboff]

/-- a word that does not start with `-` is a URL -/
theorem dec_url (u : Bytes) (r : List Bytes) (c : Curl) (h : u.head? ≠ some 45) :
    decodeCurlArgs (u :: r) .none c = decodeCurlArgs r .none { c with urls := c.urls ++ [u] } := by
  have h1 : u ≠ sH := by intro e; rw [e] at h; revert h; decide
  have h2 : u ≠ sX := by intro e; rw [e] at h; revert h; decide
  have h3 : u ≠ sD := by intro e; rw [e] at h; revert h; decide
  have h4 : u ≠ sResolve := by intro e; rw [e] at h; revert h; decide
  have h5 : u ≠ sCompressed := by intro e; rw [e] at h; revert h; decide
  have h6 : u ≠ sGloboff := by intro e; rw [e] at h; revert h; decide
  have h7 : u ≠ sPathAsIs := by intro e; rw [e] at h; revert h; decide
  simp [decodeCurlArgs, decStep, h1, h2, h3, h4, h5, h6, h7, h]

theorem dec_headers : ∀ (hs : List (Bytes × Bytes)) (rest : List Bytes) (c : Curl),
    decodeCurlArgs (curlHeaderArgs hs ++ rest) .none c =
      decodeCurlArgs rest .none { c with
        headers := c.headers ++ (hs.filter (fun h => lname h.1 ≠ sAE)).map headerArg,
        compressed := c.compressed || hs.any (fun h => lname h.1 = sAE) } := by
  intro hs
  induction hs with
  | nil => intro rest c; simp [curlHeaderArgs]
  | cons h r ih =>
    intro rest c
    by_cases hae : lname h.1 = sAE
    · simp only [curlHeaderArgs, hae, if_true, List.append_assoc, List.singleton_append, List.cons_append, List.nil_append]
      rw [dec_C, ih]
      simp [hae]
    · simp only [curlHeaderArgs, hae, if_false, List.append_assoc, List.cons_append, List.nil_append]
      rw [dec_H, ih]
      simp [hae, List.append_assoc]

/-- the `--resolve` part of the argv -/
def resolveArgs (p : Bool) (addr : Option Bytes) (r : Req) : List Bytes :=
  match addr with
  | some a =>
    if p ∧ ¬ a.isEmpty ∧ r.prettyHost ≠ a then
      [sResolve, r.prettyHost ++ [58] ++ decBytes r.port ++ [58, 91] ++ a ++ [93]]
    else []
  | none => []

/-- the method part of the argv -/
def methodArgs (r : Req) : List Bytes :=
  if r.method ≠ sGET then
    (if r.body = .none then [sH, sCL0] else []) ++ [sX, r.method]
  else if r.body ≠ .none then [sX, sGET]
  else []

theorem dec_P (r : List Bytes) (c : Curl) :
    decodeCurlArgs (sPathAsIs :: r) .none c = decodeCurlArgs r .none { c with pathAsIs := true } := by
  simp [decodeCurlArgs, decStep, sX, sH, sD, sResolve, sCompressed, sGloboff, sPathAsIs]

/-- the `--globoff` / `--path-as-is` part of the argv -/
def globArgs (r : Req) : List Bytes :=
  (if hasGlob r.url then [sGloboff] else []) ++ (if hasSlashDot r.url then [sPathAsIs] else [])

theorem dec_glob (r : Req) (rest : List Bytes) (c : Curl) :
    decodeCurlArgs (globArgs r ++ rest) .none c =
      decodeCurlArgs rest .none { c with globoff := c.globoff || hasGlob r.url, pathAsIs := c.pathAsIs || hasSlashDot r.url } := by
  unfold globArgs
  by_cases h : hasGlob r.url = true <;> by_cases h2 : hasSlashDot r.url = true
  · simp only [h, h2, if_true, List.cons_append, List.nil_append]
    rw [dec_G, dec_P]; simp
  · simp only [h, h2, if_true, Bool.false_eq_true, if_false, List.cons_append, List.nil_append, List.append_nil]
    rw [dec_G]; simp
  · simp only [h, h2, if_true, Bool.false_eq_true, if_false, List.cons_append, List.nil_append]
    rw [dec_P]; simp
  · simp [h, h2]

theorem curlArgs_split (p : Bool) (addr : Option Bytes) (r : Req) :
    curlArgs p addr r = [[99, 117, 114, 108]] ++ globArgs r ++ resolveArgs p addr r ++
      curlHeaderArgs (popHeaders r.host r.headers) ++ methodArgs r ++ [r.url] := by
  cases addr <;> simp [curlArgs, globArgs, resolveArgs, methodArgs, sResolve]

theorem dec_resolve (p : Bool) (addr : Option Bytes) (r : Req) (rest : List Bytes) (c : Curl) :
    ∃ rs, decodeCurlArgs (resolveArgs p addr r ++ rest) .none c =
      decodeCurlArgs rest .none { c with resolve := c.resolve ++ rs } := by
  unfold resolveArgs
  cases addr with
  | none => exact ⟨[], by simp⟩
  | some a =>
    by_cases hc : p = true ∧ ¬ a.isEmpty = true ∧ r.prettyHost ≠ a
    · refine ⟨[r.prettyHost ++ [58] ++ decBytes r.port ++ [58, 91] ++ a ++ [93]], ?_⟩
      dsimp only
      rw [if_pos hc]
      simp only [List.cons_append, List.nil_append]
      rw [dec_R]
    · exact ⟨[], by dsimp only; rw [if_neg hc]; simp⟩

/-- the method part: what it adds to the decoded record -/
theorem dec_method (r : Req) (rest : List Bytes) (c : Curl) :
    decodeCurlArgs (methodArgs r ++ rest) .none c =
      decodeCurlArgs rest .none { c with
        headers := c.headers ++ (if r.method ≠ sGET ∧ r.body = .none then [sCL0] else []),
        method := if r.method ≠ sGET then some r.method else if r.body ≠ .none then some sGET else c.method } := by
  unfold methodArgs
  by_cases hm : r.method = sGET
  · by_cases hb : r.body = .none
    · simp [hm, hb]
    · simp only [hm, hb, ne_eq, not_true_eq_false, not_false_eq_true, if_false, if_true, List.cons_append,
        List.nil_append, false_and]
      rw [dec_X]; simp
  · by_cases hb : r.body = .none
    · simp only [hm, hb, ne_eq, not_false_eq_true, if_true, List.cons_append, List.nil_append, and_self]
      rw [dec_H, dec_X]
    · simp only [hm, hb, ne_eq, not_false_eq_true, if_true, if_false, List.cons_append, List.nil_append, and_false]
      rw [dec_X]; simp

end MitmVerif.Lemmas.C48
