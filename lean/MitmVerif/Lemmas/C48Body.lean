/-
  C48 — lemmas: printf format round trip, the `-d` / `<<<` tails of the exported command lines.
-/
import MitmVerif.Lemmas.C48
namespace MitmVerif.Lemmas.C48
open MitmVerif MitmVerif.C48 MitmVerif.C48.Sh

theorem hexVal_hexDigit : ∀ n : Fin 16, hexVal (hexDigit n.val) = some n.val := by decide

theorem hexDigit_plain : ∀ n : Fin 16, hexDigit n.val ≠ 92 ∧ hexDigit n.val ≠ 37 := by decide

theorem byte_recompose_fin : ∀ n : Fin 256,
    UInt8.ofNat (n.val / 16) * 16 + UInt8.ofNat (n.val % 16) = UInt8.ofNat n.val := by decide +kernel

theorem byte_recompose (c : UInt8) : UInt8.ofNat (c.toNat / 16) * 16 + UInt8.ofNat (c.toNat % 16) = c := by
  have := byte_recompose_fin ⟨c.toNat, UInt8.toNat_lt c⟩
  simpa using this

theorem ctl_ne (c : UInt8) (h : c.toNat < 32) : c ≠ 92 ∧ c ≠ 37 := by
  constructor <;> (intro hc; subst hc; simp at h)

/-- bash's printf gives back the byte that `printf_escapes` encoded -/
theorem printf_escByte_hex (c : UInt8) (rest : Bytes) :
    pfGo true .n (escByte c ++ rest) = (pfGo true .n rest).map (c :: ·) := by
  unfold escByte
  by_cases h1 : c.toNat < 32
  · have hhi : c.toNat / 16 < 16 := by omega
    have hlo : c.toNat % 16 < 16 := by omega
    simp only [h1, if_true, List.cons_append, List.nil_append]
    simp [pfGo, pfStep, hexVal_hexDigit ⟨_, hhi⟩, hexVal_hexDigit ⟨_, hlo⟩]
    cases pfGo true .n rest <;> simp [byte_recompose]
  · simp only [h1, if_false]
    by_cases h2 : c = 92
    · subst h2; simp [pfGo, pfStep]; cases pfGo true .n rest <;> simp
    · by_cases h3 : c = 37
      · subst h3; simp [pfGo, pfStep]; cases pfGo true .n rest <;> simp
      · simp [h2, h3, pfGo, pfStep]

theorem printf_esc_hex : ∀ t : Bytes, printfFmt true (t.flatMap escByte) = some t := by
  intro t
  unfold printfFmt
  induction t with
  | nil => simp [pfGo]
  | cons c r ih => simp [List.flatMap_cons, printf_escByte_hex, ih]

/-- what a printf without `\x` support (dash) makes of one encoded byte -/
def dashByte (c : UInt8) : Bytes :=
  if c.toNat < 32 then [92, 120, hexDigit (c.toNat / 16), hexDigit (c.toNat % 16)] else [c]

theorem printf_escByte_nohex (c : UInt8) (rest : Bytes) :
    pfGo false .n (escByte c ++ rest) = (pfGo false .n rest).map (dashByte c ++ ·) := by
  unfold escByte dashByte
  by_cases h1 : c.toNat < 32
  · have hhi : c.toNat / 16 < 16 := by omega
    have hlo : c.toNat % 16 < 16 := by omega
    obtain ⟨a1, a2⟩ := hexDigit_plain ⟨_, hhi⟩
    obtain ⟨b1, b2⟩ := hexDigit_plain ⟨_, hlo⟩
    simp only [h1, if_true, List.cons_append, List.nil_append]
    simp [pfGo, pfStep, a1, a2, b1, b2]
    cases pfGo false .n rest <;> simp
  · simp only [h1, if_false]
    by_cases h2 : c = 92
    · subst h2; simp [pfGo, pfStep]; cases pfGo false .n rest <;> simp
    · by_cases h3 : c = 37
      · subst h3; simp [pfGo, pfStep]; cases pfGo false .n rest <;> simp
      · simp [h2, h3, pfGo, pfStep]

theorem printf_esc_nohex : ∀ t : Bytes, printfFmt false (t.flatMap escByte) = some (t.flatMap dashByte) := by
  intro t
  unfold printfFmt
  induction t with
  | nil => simp [pfGo]
  | cons c r ih => simp [List.flatMap_cons, printf_escByte_nohex, ih]

theorem interp_here : ∀ (ws : List Bytes) (x : Bytes),
    interp (ws.map mkWord ++ [⟨sHere, true⟩, ⟨x, false⟩]) = some ⟨ws, some (x ++ [10])⟩ := by
  intro ws x
  induction ws with
  | nil => rw [interp.eq_def]; simp [sHere]; rw [interp.eq_def]
  | cons w r ih =>
    have : interp (mkWord w :: (r.map mkWord ++ [⟨sHere, true⟩, ⟨x, false⟩])) =
        (interp (r.map mkWord ++ [⟨sHere, true⟩, ⟨x, false⟩])).map fun e => ⟨w :: e.argv, e.stdin⟩ := by
      rw [interp.eq_def]; simp [mkWord]
    simp only [List.map_cons, List.cons_append, this, ih]; rfl

theorem sPrintf_safe : sPrintf.all safe = true := by decide

/-- reading ` -d ` + a quoted word after the joined arguments -/
theorem run_tail_quoted (hex : Bool) (args : List Bytes) (flag : Bytes) (w : Word)
    (hflag : ∀ acc, steps hex ⟨.normal, none, acc, none⟩ flag = some ⟨.normal, some w, acc, none⟩)
    (x : Bytes) :
    ∃ s', steps hex St.init (joinSp (args.map quote) ++ ([32] ++ flag ++ [32]) ++ quote x) = some s' ∧
      s'.mode = .normal ∧ s'.frame = none ∧
      finish s' = ⟨x, false⟩ :: w :: (args.map mkWord).reverse := by
  obtain ⟨s1, h1, hm1, hfr1, hfin1⟩ := steps_join hex args St.init rfl rfl
  simp only [St.init, List.append_nil] at hfr1 hfin1
  rw [steps_append, steps_append, h1]
  simp only [Option.bind_some]
  have hsp : steps hex s1 ([32] ++ flag ++ [32]) =
      some ⟨.normal, none, w :: (args.map mkWord).reverse, none⟩ := by
    rw [show ([32] : Bytes) ++ flag ++ [32] = 32 :: (flag ++ [32]) by simp]
    simp only [steps]
    have : step hex s1 32 = some ⟨.normal, none, finish s1, none⟩ := by
      cases s1; simp_all [step]
    rw [hfin1] at this
    simp only [this]
    rw [steps_append, hflag]
    simp [steps, step, finish]
  rw [hsp]
  simp only [Option.bind_some]
  exact ⟨_, steps_quote hex x _ rfl rfl, rfl, rfl, by simp [finish]⟩

def sSubstOpen : Bytes := [34, 36, 40, 112, 114, 105, 110, 116, 102, 32]    -- "$(printf␠
def sSubstClose : Bytes := [41, 34]                                          -- )"

/-- reading ` -d "$(printf FMT)"` after the joined arguments -/
theorem run_tail_subst (hex : Bool) (args : List Bytes) (flag : Bytes) (w : Word)
    (hflag : ∀ acc, steps hex ⟨.normal, none, acc, none⟩ flag = some ⟨.normal, some w, acc, none⟩)
    (fmt out : Bytes) (hp : printfFmt hex fmt = some out) (hdash : fmt.head? ≠ some 45) :
    ∃ s', steps hex St.init (joinSp (args.map quote) ++ ([32] ++ flag ++ [32]) ++
        (sSubstOpen ++ quote fmt ++ sSubstClose)) = some s' ∧
      s'.mode = .normal ∧ s'.frame = none ∧
      finish s' = ⟨stripNl out, false⟩ :: w :: (args.map mkWord).reverse := by
  obtain ⟨s1, h1, hm1, hfr1, hfin1⟩ := steps_join hex args St.init rfl rfl
  simp only [St.init, List.append_nil] at hfr1 hfin1
  rw [steps_append, steps_append, h1]
  simp only [Option.bind_some]
  have hsp : steps hex s1 ([32] ++ flag ++ [32]) =
      some ⟨.normal, none, w :: (args.map mkWord).reverse, none⟩ := by
    rw [show ([32] : Bytes) ++ flag ++ [32] = 32 :: (flag ++ [32]) by simp]
    simp only [steps]
    have : step hex s1 32 = some ⟨.normal, none, finish s1, none⟩ := by
      cases s1; simp_all [step]
    rw [hfin1] at this
    simp only [this]
    rw [steps_append, hflag]
    simp [steps, step, finish]
  rw [hsp]
  simp only [Option.bind_some]
  generalize hA : (w :: (args.map mkWord).reverse : List Word) = A
  -- "$(
  have hopen : steps hex ⟨.normal, none, A, none⟩ sSubstOpen =
      some ⟨.normal, none, [⟨sPrintf, false⟩], some (some ⟨[], false⟩, A)⟩ := by
    simp [sSubstOpen, steps, step, Word.start, Word.push, finish, sPrintf, safe]
  rw [steps_append, steps_append, hopen]
  simp only [Option.bind_some]
  rw [steps_quote hex fmt _ rfl rfl]
  simp only [Option.bind_some]
  refine ⟨⟨.normal, some ⟨stripNl out, false⟩, A, none⟩, ?_, rfl, rfl, by simp [finish]⟩
  simp [sSubstClose, steps, step, finish, sPrintf, hp, Word.append, hdash]

theorem flag_d (hex : Bool) : ∀ acc, steps hex ⟨.normal, none, acc, none⟩ [45, 100] =
    some ⟨.normal, some ⟨[45, 100], false⟩, acc, none⟩ := by
  intro acc; simp [steps, step, safe, Word.push]

theorem flag_here (hex : Bool) : ∀ acc, steps hex ⟨.normal, none, acc, none⟩ [60, 60, 60] =
    some ⟨.normal, some ⟨sHere, true⟩, acc, none⟩ := by
  intro acc; simp [steps, step, Word.pushOp, sHere]

theorem stripNl_of_last (t : Bytes) (h : t.getLast? ≠ some 10) : stripNl t = t := by
  unfold stripNl
  cases hr : t.reverse with
  | nil => simp [List.reverse_eq_nil_iff.mp hr]
  | cons x xs =>
    have hx : t.getLast? = some x := by
      have : t = (x :: xs).reverse := by rw [← hr]; simp
      rw [this]; simp
    have : x ≠ 10 := by intro hx'; subst hx'; exact h hx
    simp [List.dropWhile, this]
    rw [← List.reverse_cons, ← hr]; simp

theorem escText_head (t : Bytes) : (escText t).head? ≠ some 45 := by
  cases t with
  | nil => simp [escText]
  | cons c r =>
    unfold escText
    by_cases hc : c = 45
    · simp [hc]
    · simp only [hc, if_false, List.flatMap_cons]
      unfold escByte
      by_cases h1 : c.toNat < 32
      · simp [h1]
      · by_cases h2 : c = 92
        · subst h2; simp
        · by_cases h3 : c = 37
          · subst h3; simp
          · simp [h1, h2, h3, hc]

theorem printf_escText_hex (t : Bytes) : printfFmt true (escText t) = some t := by
  cases t with
  | nil => simp [escText, printfFmt, pfGo]
  | cons c r =>
    unfold escText
    by_cases hc : c = 45
    · subst hc
      have := printf_esc_hex r
      unfold printfFmt at this ⊢
      simp [pfGo, pfStep, this]
    · simp only [hc, if_false]
      exact printf_esc_hex (c :: r)

/-- what a printf without `\x` makes of the whole text -/
theorem printf_escText_nohex (t : Bytes) : printfFmt false (escText t) = some (t.flatMap dashByte) := by
  cases t with
  | nil => simp [escText, printfFmt, pfGo]
  | cons c r =>
    unfold escText
    by_cases hc : c = 45
    · subst hc
      have := printf_esc_nohex r
      unfold printfFmt at this ⊢
      simp [pfGo, pfStep, this, dashByte]
    · simp only [hc, if_false]
      exact printf_esc_nohex (c :: r)

end MitmVerif.Lemmas.C48

