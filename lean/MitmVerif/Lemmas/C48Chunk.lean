/-
  C48 — lemmas: the chunk-framed body reads back.
-/
import MitmVerif.Lemmas.C48Raw
import MitmVerif.Lemmas.C48Body
namespace MitmVerif.Lemmas.C48
open MitmVerif MitmVerif.C48

theorem hexDigit_ne_cr : ∀ n : Fin 16, hexDigit n.val ≠ 13 := by decide

theorem valRev_hexRev : ∀ (f n : Nat), n < f → valRev (hexRev f n) = some n := by
  intro f
  induction f with
  | zero => intro n h; omega
  | succ f ih =>
    intro n h
    unfold hexRev
    by_cases hn : n < 16
    · simp [hn, valRev, hexVal_hexDigit ⟨n, hn⟩]
    · have hlt : n % 16 < 16 := by omega
      have hdiv : n / 16 < f := by omega
      simp only [hn, if_false, valRev, hexVal_hexDigit ⟨_, hlt⟩, ih _ hdiv]
      congr 1; omega

theorem hexRev_noCR : ∀ (f n : Nat), noByte 13 (hexRev f n) = true := by
  intro f
  induction f with
  | zero => intro n; simp [hexRev, noByte]
  | succ f ih =>
    intro n
    unfold hexRev
    by_cases hn : n < 16
    · have := hexDigit_ne_cr ⟨n, hn⟩
      simp [hn, noByte, this]
    · have hlt : n % 16 < 16 := by omega
      have h1 := hexDigit_ne_cr ⟨_, hlt⟩
      have h2 := ih (n / 16)
      simp only [hn, if_false]
      unfold noByte at h2 ⊢
      simp [h1, h2]

theorem hexRev_ne_nil (n : Nat) : hexRev (n + 1) n ≠ [] := by
  unfold hexRev; by_cases hn : n < 16 <;> simp [hn]

theorem parseHex_hexNat (n : Nat) : parseHex (hexNat n) = some n := by
  unfold parseHex hexNat
  have : (hexRev (n + 1) n).reverse.isEmpty = false := by simpa using hexRev_ne_nil n
  simp [this, valRev_hexRev (n + 1) n (by omega)]

theorem hexNat_noCR (n : Nat) : noByte 13 (hexNat n) = true := by
  have := hexRev_noCR (n + 1) n
  unfold hexNat noByte at *
  simpa using this

theorem parseChunked_final (f : Nat) : parseChunked (f + 1) [48, 13, 10, 13, 10] = some [] := by
  have h1 : takeLine ([48] ++ crlf ++ [13, 10]) = some ([48], [13, 10]) := takeLine_append [48] [13, 10] (by decide)
  have h1' : takeLine [48, 13, 10, 13, 10] = some ([48], [13, 10]) := by simpa [crlf] using h1
  have h2 : parseHex [48] = some 0 := by decide
  simp [parseChunked, h1', h2, crlf]

/-- the chunk-framed body reads back, for every body -/
theorem parseChunked_chunkedBody (body : Bytes) (f : Nat) (hf : 2 ≤ f) : parseChunked f (chunkedBody body) = some body := by
  obtain ⟨g, rfl⟩ : ∃ g, f = g + 2 := ⟨f - 2, by omega⟩
  unfold chunkedBody
  by_cases hb : body.isEmpty = true
  · have : body = [] := by simpa using hb
    subst this
    simpa using parseChunked_final (g + 1)
  · simp only [hb, Bool.false_eq_true, if_false]
    have hsplit : hexNat body.length ++ crlf ++ body ++ crlf ++ [48, 13, 10, 13, 10] =
        hexNat body.length ++ crlf ++ (body ++ (13 :: 10 :: [48, 13, 10, 13, 10])) := by simp [crlf]
    rw [hsplit]
    have hlen : body.length ≠ 0 := by
      intro h0; have : body = [] := List.length_eq_zero_iff.mp h0; simp [this] at hb
    rw [parseChunked, takeLine_append _ _ (hexNat_noCR _)]
    simp only [parseHex_hexNat, hlen, if_false]
    have hl : ¬ (body ++ (13 :: 10 :: [48, 13, 10, 13, 10])).length < body.length + 2 := by simp
    simp only [hl, if_false, List.drop_left, List.take_left]
    rw [parseChunked_final g]
    simp

end MitmVerif.Lemmas.C48
