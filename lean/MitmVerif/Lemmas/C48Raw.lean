/-
  C48 — lemmas: the minimal HTTP/1 reader recovers what `rawRequest` wrote.
-/
import MitmVerif.Model.C48
namespace MitmVerif.Lemmas.C48
open MitmVerif MitmVerif.C48

def noByte (c : UInt8) (b : Bytes) : Bool := b.all (fun x => !(x == c))

/-- a request HTTP/1 can represent: no SP/CR in method and target, no CR in the version, no ':'/CR in field names,
    no CR in field values -/
def wireSafe (r : RawReq) : Bool :=
  noByte 32 r.method && noByte 13 r.method && noByte 32 r.target && noByte 13 r.target && noByte 13 r.version &&
  r.fields.all (fun f => noByte 58 f.1 && noByte 13 f.1 && noByte 13 f.2)

abbrev WireSafe (r : RawReq) : Prop := wireSafe r = true

theorem takeTo_append (p : UInt8 → Bool) : ∀ (a : Bytes) (c : UInt8) (rest : Bytes),
    a.all (fun x => !p x) = true → p c = true → takeTo p (a ++ c :: rest) = some (a, rest) := by
  intro a
  induction a with
  | nil => intro c rest _ hc; simp [takeTo, hc]
  | cons x xs ih =>
    intro c rest ha hc
    simp only [List.all_cons, Bool.and_eq_true, Bool.not_eq_true'] at ha
    simp [takeTo, ha.1, ih c rest ha.2 hc]

theorem noByte_all (c : UInt8) (b : Bytes) (h : noByte c b = true) : b.all (fun x => !(x == c)) = true := h

theorem takeLine_append (l rest : Bytes) (h : noByte 13 l = true) : takeLine (l ++ crlf ++ rest) = some (l, rest) := by
  unfold takeLine
  have := takeTo_append (fun x => x == 13) l 13 (10 :: rest) (noByte_all 13 l h) (by simp)
  have h2 : takeTo (fun x => x == 13) (l ++ crlf ++ rest) = some (l, 10 :: rest) := by
    simpa [crlf] using this
  rw [h2]; rfl

theorem noByte_append (c : UInt8) (a b : Bytes) : noByte c (a ++ b) = (noByte c a && noByte c b) := by
  unfold noByte; rw [List.all_append]

theorem parseField_line (n v : Bytes) (h : noByte 58 n = true) : parseField (n ++ [58, 32] ++ v) = some (n, v) := by
  unfold parseField
  have := takeTo_append (fun x => x == 58) n 58 (32 :: v) (noByte_all 58 n h) (by simp)
  have h2 : takeTo (fun x => x == 58) (n ++ [58, 32] ++ v) = some (n, 32 :: v) := by
    simpa using this
  rw [h2]; rfl

theorem parseFields_flat : ∀ (fs : List (Bytes × Bytes)) (body : Bytes) (fuel : Nat),
    fs.all (fun f => noByte 58 f.1 && noByte 13 f.1 && noByte 13 f.2) = true → fs.length + 1 ≤ fuel →
    parseFields fuel (fs.flatMap fieldLine ++ crlf ++ body) = some (fs, body) := by
  intro fs
  induction fs with
  | nil =>
    intro body fuel _ hf
    cases fuel with
    | zero => omega
    | succ k =>
      have : takeLine (([] : Bytes) ++ crlf ++ body) = some ([], body) := takeLine_append [] body (by simp [noByte])
      simp only [List.flatMap_nil]
      rw [parseFields, this]
  | cons f r ih =>
    intro body fuel hs hf
    cases fuel with
    | zero => omega
    | succ k =>
      simp only [List.all_cons, Bool.and_eq_true] at hs
      obtain ⟨⟨⟨h58, h13n⟩, h13v⟩, hr⟩ := hs
      have hline : noByte 13 (f.1 ++ [58, 32] ++ f.2) = true := by
        rw [noByte_append, noByte_append, h13n, h13v]; decide
      have hsplit : (f :: r).flatMap fieldLine ++ crlf ++ body =
          (f.1 ++ [58, 32] ++ f.2) ++ crlf ++ (r.flatMap fieldLine ++ crlf ++ body) := by
        simp [List.flatMap_cons, fieldLine, List.append_assoc]
      rw [hsplit, parseFields, takeLine_append _ _ hline]
      have hne : ∃ x xs, f.1 ++ [58, 32] ++ f.2 = x :: xs := by
        cases hn : f.1 with
        | nil => exact ⟨58, 32 :: f.2, by simp⟩
        | cons a as => exact ⟨a, as ++ [58, 32] ++ f.2, by simp⟩
      obtain ⟨x, xs, hx⟩ := hne
      have hpf := parseField_line f.1 f.2 h58
      rw [hx] at hpf ⊢
      simp only [hpf, ih body k (by simpa using hr) (by simp at hf; omega)]

theorem flat_length (fs : List (Bytes × Bytes)) : fs.length ≤ (fs.flatMap fieldLine).length := by
  induction fs with
  | nil => simp
  | cons f r ih =>
    have : 1 ≤ (fieldLine f).length := by simp [fieldLine, crlf]; omega
    simp only [List.flatMap_cons, List.length_append, List.length_cons]; omega

theorem parseRaw_rawRequest (r : RawReq) (h : WireSafe r) : parseRaw (rawRequest r) = some r := by
  unfold WireSafe wireSafe at h
  simp only [Bool.and_eq_true] at h
  obtain ⟨⟨⟨⟨⟨hm32, hm13⟩, ht32⟩, ht13⟩, hv13⟩, hfs⟩ := h
  have hrl : noByte 13 (r.method ++ [32] ++ r.target ++ [32] ++ r.version) = true := by
    rw [noByte_append, noByte_append, noByte_append, noByte_append, hm13, ht13, hv13]; decide
  have hsplit : rawRequest r = (r.method ++ [32] ++ r.target ++ [32] ++ r.version) ++ crlf ++
      (r.fields.flatMap fieldLine ++ crlf ++ r.body) := by
    simp [rawRequest, List.append_assoc]
  unfold parseRaw
  rw [hsplit, takeLine_append _ _ hrl]
  have h1 : takeTo (fun x => x == 32) (r.method ++ [32] ++ r.target ++ [32] ++ r.version) =
      some (r.method, r.target ++ [32] ++ r.version) := by
    have := takeTo_append (fun x => x == 32) r.method 32 (r.target ++ [32] ++ r.version) (noByte_all 32 _ hm32) (by simp)
    simpa [List.append_assoc] using this
  have h2 : takeTo (fun x => x == 32) (r.target ++ [32] ++ r.version) = some (r.target, r.version) := by
    have := takeTo_append (fun x => x == 32) r.target 32 r.version (noByte_all 32 _ ht32) (by simp)
    simpa [List.append_assoc] using this
  have h3 := parseFields_flat r.fields r.body ((r.fields.flatMap fieldLine ++ crlf ++ r.body).length + 1) hfs
    (by have := flat_length r.fields; simp only [List.length_append]; omega)
  simp only [h1, h2, h3]

end MitmVerif.Lemmas.C48
