/-
  C48 — lemmas: the authority of `unparse scheme host port path` reads back as (host, port).
-/
import MitmVerif.Model.C48_Url
namespace MitmVerif.Lemmas.C48
open MitmVerif MitmVerif.C48

theorem tw_app (p : Nat → Bool) : ∀ (l : List Nat) (c : Nat) (r : List Nat), l.all p = true → p c = false →
    (l ++ c :: r).takeWhile p = l ∧ (l ++ c :: r).dropWhile p = c :: r := by
  intro l
  induction l with
  | nil => intro c r _ hc; simp [List.takeWhile, List.dropWhile, hc]
  | cons x xs ih =>
    intro c r hl hc
    simp only [List.all_cons, Bool.and_eq_true] at hl
    obtain ⟨h1, h2⟩ := ih c r hl.2 hc
    simp [List.takeWhile, List.dropWhile, hl.1, h1, h2]

theorem tw_all (p : Nat → Bool) : ∀ (l : List Nat), l.all p = true → l.takeWhile p = l ∧ l.dropWhile p = [] := by
  intro l
  induction l with
  | nil => intro _; simp
  | cons x xs ih =>
    intro hl
    simp only [List.all_cons, Bool.and_eq_true] at hl
    obtain ⟨h1, h2⟩ := ih hl.2
    simp [List.takeWhile, List.dropWhile, hl.1, h1, h2]

theorem decDigitsF_digits : ∀ (f n : Nat), (C33.decDigitsF f n).all isDig = true := by
  intro f
  induction f with
  | zero => intro n; simp [C33.decDigitsF]
  | succ f ih =>
    intro n
    unfold C33.decDigitsF
    by_cases h : n < 10
    · simp [h, isDig]; omega
    · simp only [h, if_false, List.all_append, ih, Bool.true_and, List.all_cons, List.all_nil, Bool.and_true]
      simp [isDig]; omega

theorem decDigits_digits (n : Nat) : (C33.decDigits n).all isDig = true := decDigitsF_digits _ _

theorem decDigits_ne_nil (n : Nat) : C33.decDigits n ≠ [] := by
  unfold C33.decDigits C33.decDigitsF
  by_cases h : n < 10 <;> simp [h]

/-- a host a URL authority can carry: non-empty, none of `/ ? # [ ] @` -/
def hostCarried (h : UStr) : Bool :=
  !h.isEmpty && h.all (fun c => c != 47 && c != 63 && c != 35 && c != 91 && c != 93 && c != 64)


theorem S_sep : C33.S "://" = [58, 47, 47] := by decide

theorem readAuthority_bracketed (h ds : UStr) (h93 : h.all (fun c => decide (c ≠ 93)) = true) :
    readAuthority (91 :: (h ++ [93])) = some (h, none) ∧
    (ds ≠ [] → ds.all isDig = true → readAuthority (91 :: (h ++ 93 :: 58 :: ds)) = some (h, some ds)) := by
  constructor
  · obtain ⟨t, d⟩ := tw_app (fun x => !decide (x = 93)) h 93 [] (by simpa using h93) (by simp)
    simp [readAuthority, t, d]
  · intro hne hd
    obtain ⟨t, d⟩ := tw_app (fun x => !decide (x = 93)) h 93 (58 :: ds) (by simpa using h93) (by simp)
    have hne' : ds.isEmpty = false := by cases ds <;> simp at hne ⊢
    simp [readAuthority, t, d, hne', hd]

theorem readAuthority_plain (x : Nat) (xs ds : UStr) (hx : x ≠ 91)
    (h58 : (x :: xs).all (fun c => decide (c ≠ 58)) = true) :
    readAuthority (x :: xs) = some (x :: xs, none) ∧
    (ds ≠ [] → ds.all isDig = true → readAuthority ((x :: xs) ++ 58 :: ds) = some (x :: xs, some ds)) := by
  constructor
  · obtain ⟨t, d⟩ := tw_all (fun x => !decide (x = 58)) (x :: xs) (by simpa using h58)
    unfold readAuthority
    split
    · rename_i r heq; cases heq; exact absurd rfl hx
    · simp [d]
  · intro hne hd
    obtain ⟨t, d⟩ := tw_app (fun x => !decide (x = 58)) (x :: xs) 58 ds (by simpa using h58) (by simp)
    have hne' : ds.isEmpty = false := by cases ds <;> simp at hne ⊢
    unfold readAuthority
    split
    · rename_i r heq; simp at heq; exact absurd heq.1 hx
    · simp only [List.cons_append] at t d
      have hd' : ∀ x ∈ ds, isDig x = true := by simpa using hd
      simp [d, t, hne]
      exact hd'


/-- what follows the authority in the URL: nothing, or something that starts with `/`, `?` or `#` -/
def pathStarts (path : UStr) : Bool :=
  match path with
  | [] => true
  | c :: _ => authEnd c

theorem takeAuth (hp path : UStr) (hhp : hp.all (fun c => !authEnd c) = true) (hpath : pathStarts path = true) :
    (hp ++ path).takeWhile (fun c => !authEnd c) = hp := by
  cases path with
  | nil => simpa using (tw_all (fun c => !authEnd c) hp hhp).1
  | cons c r =>
    have hc : authEnd c = true := by simpa [pathStarts] using hpath
    exact (tw_app (fun c => !authEnd c) hp c r hhp (by simp [hc])).1

theorem dial_unparse (scheme h path : UStr) (port : Nat)
    (hs : scheme.all (fun c => decide (c ≠ 58)) = true) (hh : hostCarried h = true) (hpath : pathStarts path = true)
    (hv6 : h.contains 58 = true ∨ h.all (fun c => decide (c ≠ 58)) = true) :
    dial (C33.unparse scheme h port path) =
      some (h, if C33.defaultPort scheme = some port then none else some (C33.decDigits port)) := by
  simp only [hostCarried, Bool.and_eq_true, Bool.not_eq_true', List.all_eq_true, bne_iff_ne, ne_eq] at hh
  obtain ⟨hne, hall⟩ := hh
  obtain ⟨x, xs, rfl⟩ : ∃ x xs, h = x :: xs := by
    cases h with
    | nil => simp at hne
    | cons x xs => exact ⟨x, xs, rfl⟩
  obtain ⟨⟨⟨⟨⟨_, _⟩, _⟩, hx91⟩, _⟩, _⟩ := hall x List.mem_cons_self
  have hds := decDigits_digits port
  have hdn := decDigits_ne_nil port
  -- scheme split
  have hsplit : splitScheme (C33.unparse scheme (x :: xs) port path) =
      some (scheme, C33.hostport scheme (x :: xs) port ++ path) := by
    unfold splitScheme C33.unparse
    rw [S_sep]
    obtain ⟨t, d⟩ := tw_app (fun c => decide (c ≠ 58)) scheme 58 (47 :: 47 :: (C33.hostport scheme (x :: xs) port ++ path)) hs (by simp)
    have e : scheme ++ [58, 47, 47] ++ C33.hostport scheme (x :: xs) port ++ path =
        scheme ++ 58 :: 47 :: 47 :: (C33.hostport scheme (x :: xs) port ++ path) := by simp
    rw [e, d, t]
    rfl
  unfold dial
  rw [hsplit]
  simp only
  -- the characters of hostport never end the authority
  have hauth_h : (x :: xs).all (fun c => !authEnd c) = true := by
    simp only [List.all_eq_true]
    intro c hc
    obtain ⟨⟨⟨⟨⟨a47, a63⟩, a35⟩, _⟩, _⟩, _⟩ := hall c hc
    simp [authEnd, a47, a63, a35]
  have hauth_d : (C33.decDigits port).all (fun c => !authEnd c) = true := by
    simp only [List.all_eq_true]
    intro c hc
    have : isDig c = true := (List.all_eq_true.mp hds) c hc
    simp [isDig] at this
    simp [authEnd]; omega
  have hax : (!authEnd x) = true := by
    have := hauth_h; simp only [List.all_cons, Bool.and_eq_true] at this; exact this.1
  have haxs : xs.all (fun c => !authEnd c) = true := by
    have := hauth_h; simp only [List.all_cons, Bool.and_eq_true] at this; exact this.2
  have e91 : authEnd 91 = false := by decide
  have e93 : authEnd 93 = false := by decide
  have e58 : authEnd 58 = false := by decide
  rcases hv6 with h6 | h4
  · -- IPv6 literal: bracketed
    have h93 : (x :: xs).all (fun c => decide (c ≠ 93)) = true := by
      simp only [List.all_eq_true, decide_eq_true_eq]
      intro c hc; exact (hall c hc).1.2
    have hbr : C33.bracket (x :: xs) = 91 :: ((x :: xs) ++ [93]) := by
      unfold C33.bracket
      rw [h6]
      simp [hx91]
    obtain ⟨r1, r2⟩ := readAuthority_bracketed (x :: xs) (C33.decDigits port) h93
    by_cases hd : C33.defaultPort scheme = some port
    · have hp : C33.hostport scheme (x :: xs) port = 91 :: ((x :: xs) ++ [93]) := by simp [C33.hostport, hd, hbr]
      rw [hp, takeAuth _ path (by simp only [List.all_cons, List.all_append, List.all_nil, hax, haxs, hauth_d, e91, e93, e58, Bool.not_false, Bool.and_self, Bool.and_true, Bool.true_and]) hpath, r1]; simp [hd]
    · have hp : C33.hostport scheme (x :: xs) port = 91 :: ((x :: xs) ++ 93 :: 58 :: C33.decDigits port) := by
        simp [C33.hostport, hd, hbr]
      rw [hp, takeAuth _ path (by simp only [List.all_cons, List.all_append, List.all_nil, hax, haxs, hauth_d, e91, e93, e58, Bool.not_false, Bool.and_self, Bool.and_true, Bool.true_and]) hpath,
        r2 hdn hds]; simp [hd]
  · -- a name / IPv4 literal: as it is
    have hbr : C33.bracket (x :: xs) = x :: xs := by
      have : (x :: xs).contains 58 = false := by
        simp only [List.all_eq_true, decide_eq_true_eq] at h4
        simp only [List.contains_eq_any_beq, List.any_eq_false, beq_iff_eq]
        intro c hc e; exact h4 c hc e.symm
      unfold C33.bracket
      rw [this]; rfl
    obtain ⟨r1, r2⟩ := readAuthority_plain x xs (C33.decDigits port) hx91 h4
    by_cases hd : C33.defaultPort scheme = some port
    · have hp : C33.hostport scheme (x :: xs) port = x :: xs := by simp [C33.hostport, hd, hbr]
      rw [hp, takeAuth _ path hauth_h hpath, r1]; simp [hd]
    · have hp : C33.hostport scheme (x :: xs) port = (x :: xs) ++ 58 :: C33.decDigits port := by
        simp [C33.hostport, hd, hbr]
      rw [hp, takeAuth _ path (by simp only [List.all_cons, List.all_append, List.all_nil, hax, haxs, hauth_d, e91, e93, e58, Bool.not_false, Bool.and_self, Bool.and_true, Bool.true_and]) hpath, r2 hdn hds]; simp [hd]

end MitmVerif.Lemmas.C48
