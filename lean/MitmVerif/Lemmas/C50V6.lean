/-
  C50 — `str(IPv6Address(data))` (Model/C50_V6 `Codecs.pyTextV6`) is read back by C22's `parseIp` to the same 128-bit value.
  Outside the two embedded-IPv4 shapes the text equals C21's inet_ntop6 text, whose read-back C21 proved
  (`parseIp_words`); the two shapes `::x:y` and `::ffff:x:y` are read directly.
-/
import MitmVerif.Model.C50_V6
import MitmVerif.Lemmas.C21V6Back
set_option linter.unusedSimpArgs false
set_option linter.unusedVariables false
set_option linter.unusedSectionVars false
namespace MitmVerif.C50.V6
open MitmVerif MitmVerif.C21 MitmVerif.C50

/-- is this the shape for which inet_ntop6 writes a dotted quad? -/
def embedded (best : Option Run) (w5 : Nat) : Prop :=
  match best with
  | some b => b.base = 0 ∧ (b.len = 6 ∨ (b.len = 5 ∧ w5 = 0xffff))
  | none => False

theorem emitV6_eq_emitPy (best : Option Run) (w5 : Nat) (l4 : Bytes) (h : ¬ embedded best w5) :
    ∀ (ws : List Nat) (i : Nat), emitV6 best w5 l4 ws i = Codecs.emitPy best ws i := by
  intro ws
  induction ws with
  | nil => intro i; rfl
  | cons w r ih =>
    intro i
    cases best with
    | none => simp only [emitV6, Codecs.emitPy, ih]
    | some b =>
      have hb : ¬ (b.base = 0 ∧ (b.len = 6 ∨ (b.len = 5 ∧ w5 = 0xffff))) := h
      simp only [emitV6, Codecs.emitPy, ih]
      split
      · rfl
      · have : ¬ (i = 6 ∧ b.base = 0 ∧ (b.len = 6 ∨ b.len = 5 ∧ w5 = 65535)) := fun hh => hb hh.2
        simp only [this, if_false]

section
variable (w0 w1 w2 w3 w4 w5 w6 w7 : Nat)
  (f0 : WF w0) (f1 : WF w1) (f2 : WF w2) (f3 : WF w3) (f4 : WF w4) (f5 : WF w5) (f6 : WF w6) (f7 : WF w7)
include f0 f1 f2 f3 f4 f5 f6 f7

theorem read_py_0_6 :
    C22.parseIp (asciiBytes (Codecs.emitPy (some ⟨0, 6⟩) [0, 0, 0, 0, 0, 0, w6, w7] 0 ++ [])) =
      some (.v6 (fw (fw 0 [] * 65536 ^ 6) [w6, w7]) none) := by
  simp only [Codecs.emitPy, asciiBytes_append, asciiBytes_cons, asciiBytes_nil, H_def, List.nil_append, List.append_nil,
    Nat.reduceAdd, Nat.reduceLeDiff, Nat.reduceLT, Nat.reduceEqDiff, Nat.zero_le, Nat.le_refl, Nat.lt_irrefl,
    ne_eq, not_true_eq_false, not_false_eq_true, if_true, if_false, List.cons_append, colon_byte,
    true_and, and_true, false_and, and_false, Nat.not_lt_zero, Nat.zero_lt_succ, Nat.lt_add_one, Nat.not_succ_le_self,
    reduceCtorEq, or_false, false_or, and_self, List.append_assoc, and_self]
  rw [parseIp_of_v6 _ (by simp [f0.c2e, f1.c2e, f2.c2e, f3.c2e, f4.c2e, f5.c2e, f6.c2e, f7.c2e])
    (by simp [f0.c25, f1.c25, f2.c25, f3.c25, f4.c25, f5.c25, f6.c25, f7.c25])
    (by simp [f0.c2f, f1.c2f, f2.c2f, f3.c2f, f4.c2f, f5.c2f, f6.c2f, f7.c2f])]
  simp only [C22.parseV6Int, C22.v6Parts, splitOn_append_sep, splitOn_no_sep, splitOn_sep_cons, splitOn_nil,
    f0.c3a, f1.c3a, f2.c3a, f3.c3a, f4.c3a, f5.c3a, f6.c3a, f7.c3a, not_false_eq_true, List.not_mem_nil]
  simp [f0.c2e, f1.c2e, f2.c2e, f3.c2e, f4.c2e, f5.c2e, f6.c2e, f7.c2e, f0.ne, f1.ne, f2.ne, f3.ne, f4.ne, f5.ne, f6.ne, f7.ne]
  simp [C22.assembleV6, C22.interiorEmpty, List.range_succ, C22.Part.isEmpty,
    f0.ne, f1.ne, f2.ne, f3.ne, f4.ne, f5.ne, f6.ne, f7.ne]
  simp [C22.assembleSkip, C22.foldParts, C22.Part.val, f0.ph, f1.ph, f2.ph, f3.ph, f4.ph, f5.ph, f6.ph, f7.ph, fw, -Nat.reducePow]

theorem read_py_0_5 :
    C22.parseIp (asciiBytes (Codecs.emitPy (some ⟨0, 5⟩) [0, 0, 0, 0, 0, w5, w6, w7] 0 ++ [])) =
      some (.v6 (fw (fw 0 [] * 65536 ^ 5) [w5, w6, w7]) none) := by
  simp only [Codecs.emitPy, asciiBytes_append, asciiBytes_cons, asciiBytes_nil, H_def, List.nil_append, List.append_nil,
    Nat.reduceAdd, Nat.reduceLeDiff, Nat.reduceLT, Nat.reduceEqDiff, Nat.zero_le, Nat.le_refl, Nat.lt_irrefl,
    ne_eq, not_true_eq_false, not_false_eq_true, if_true, if_false, List.cons_append, colon_byte,
    true_and, and_true, false_and, and_false, Nat.not_lt_zero, Nat.zero_lt_succ, Nat.lt_add_one, Nat.not_succ_le_self,
    reduceCtorEq, or_false, false_or, and_self, List.append_assoc, and_self]
  rw [parseIp_of_v6 _ (by simp [f0.c2e, f1.c2e, f2.c2e, f3.c2e, f4.c2e, f5.c2e, f6.c2e, f7.c2e])
    (by simp [f0.c25, f1.c25, f2.c25, f3.c25, f4.c25, f5.c25, f6.c25, f7.c25])
    (by simp [f0.c2f, f1.c2f, f2.c2f, f3.c2f, f4.c2f, f5.c2f, f6.c2f, f7.c2f])]
  simp only [C22.parseV6Int, C22.v6Parts, splitOn_append_sep, splitOn_no_sep, splitOn_sep_cons, splitOn_nil,
    f0.c3a, f1.c3a, f2.c3a, f3.c3a, f4.c3a, f5.c3a, f6.c3a, f7.c3a, not_false_eq_true, List.not_mem_nil]
  simp [f0.c2e, f1.c2e, f2.c2e, f3.c2e, f4.c2e, f5.c2e, f6.c2e, f7.c2e, f0.ne, f1.ne, f2.ne, f3.ne, f4.ne, f5.ne, f6.ne, f7.ne]
  simp [C22.assembleV6, C22.interiorEmpty, List.range_succ, C22.Part.isEmpty,
    f0.ne, f1.ne, f2.ne, f3.ne, f4.ne, f5.ne, f6.ne, f7.ne]
  simp [C22.assembleSkip, C22.foldParts, C22.Part.val, f0.ph, f1.ph, f2.ph, f3.ph, f4.ph, f5.ph, f6.ph, f7.ph, fw, -Nat.reducePow]

theorem parseIp_words_py (a b c d : UInt8) (h6 : w6 = a.toNat * 256 + b.toNat) (h7 : w7 = c.toNat * 256 + d.toNat) :
    C22.parseIp (asciiBytes (Codecs.emitPy (bestRun [w0, w1, w2, w3, w4, w5, w6, w7])
        [w0, w1, w2, w3, w4, w5, w6, w7] 0 ++ v6Tail (bestRun [w0, w1, w2, w3, w4, w5, w6, w7]))) =
      some (.v6 (wordsVal [w0, w1, w2, w3, w4, w5, w6, w7]) none) := by
  by_cases hemb : embedded (bestRun [w0, w1, w2, w3, w4, w5, w6, w7]) w5
  · have hs := bestRun_spec [w0, w1, w2, w3, w4, w5, w6, w7] rfl
    cases hb : bestRun [w0, w1, w2, w3, w4, w5, w6, w7] with
    | none => rw [hb] at hemb; exact absurd hemb (by simp [embedded])
    | some r =>
      obtain ⟨bb, ll⟩ := r
      rw [hb] at hs hemb
      simp only [embedded] at hemb
      obtain ⟨hb0, hl⟩ := hemb
      subst hb0
      simp only [bestRunSpec, Bool.and_eq_true, decide_eq_true_eq] at hs
      obtain ⟨⟨h2, hz⟩, _⟩ := hs
      simp only [List.map_cons, List.map_nil] at hz
      simp only [v6Tail]
      rcases hl with hl | ⟨hl, h5⟩
      · subst hl
        have z0 := zeroRun_get _ _ _ 0 hz (by omega)
        have z1 := zeroRun_get _ _ _ 1 hz (by omega)
        have z2 := zeroRun_get _ _ _ 2 hz (by omega)
        have z3 := zeroRun_get _ _ _ 3 hz (by omega)
        have z4 := zeroRun_get _ _ _ 4 hz (by omega)
        have z5 := zeroRun_get _ _ _ 5 hz (by omega)
        simp at z0 z1 z2 z3 z4 z5
        subst z0; subst z1; subst z2; subst z3; subst z4; subst z5
        have hv : wordsVal ([] ++ List.replicate 6 0 ++ [w6, w7]) = fw (fw 0 [] * 65536 ^ 6) [w6, w7] := wordsVal_skip _ _ _
        have := read_py_0_6 _ _ _ _ _ _ _ _ f0 f1 f2 f3 f4 f5 f6 f7
        simp only [List.append_nil, Nat.reduceAdd, Nat.reduceEqDiff, if_true, if_false] at this ⊢
        rw [this]; exact congrArg (fun n => some (C22.Addr.v6 n none)) hv.symm
      · subst hl
        have z0 := zeroRun_get _ _ _ 0 hz (by omega)
        have z1 := zeroRun_get _ _ _ 1 hz (by omega)
        have z2 := zeroRun_get _ _ _ 2 hz (by omega)
        have z3 := zeroRun_get _ _ _ 3 hz (by omega)
        have z4 := zeroRun_get _ _ _ 4 hz (by omega)
        simp at z0 z1 z2 z3 z4
        subst z0; subst z1; subst z2; subst z3; subst z4
        have hv : wordsVal ([] ++ List.replicate 5 0 ++ [w5, w6, w7]) = fw (fw 0 [] * 65536 ^ 5) [w5, w6, w7] := wordsVal_skip _ _ _
        have := read_py_0_5 _ _ _ _ _ _ _ _ f0 f1 f2 f3 f4 f5 f6 f7
        simp only [List.append_nil, Nat.reduceAdd, Nat.reduceEqDiff, if_true, if_false] at this ⊢
        rw [this]; exact congrArg (fun n => some (C22.Addr.v6 n none)) hv.symm
  · rw [← emitV6_eq_emitPy _ w5 [a, b, c, d] hemb]
    exact parseIp_words _ _ _ _ _ _ _ _ f0 f1 f2 f3 f4 f5 f6 f7 a b c d h6 h7

end

/-- **str(IPv6Address(ad)) reads back**: for every 16-byte address, C22's transcription of `ipaddress` applied to the
    text `Codecs.pyTextV6 ad` gives the IPv6 address with exactly these 8 words and no scope -/
theorem parseIp_pyTextV6 (ad : Bytes) (h : ad.length = 16) :
    C22.parseIp (asciiBytes (Codecs.pyTextV6 ad)) = some (.v6 (beNat ad) none) := by
  rw [← wordsVal_words16 ad h]
  match ad, h with
  | [b0, b1, b2, b3, b4, b5, b6, b7, b8, b9, b10, b11, b12, b13, b14, b15], _ =>
    have lt : ∀ x y : UInt8, x.toNat * 256 + y.toNat < 65536 := by
      intro x y; have := x.toNat_lt; have := y.toNat_lt; omega
    have := parseIp_words_py _ _ _ _ _ _ _ _ (WF_of_lt _ (lt b0 b1)) (WF_of_lt _ (lt b2 b3)) (WF_of_lt _ (lt b4 b5))
      (WF_of_lt _ (lt b6 b7)) (WF_of_lt _ (lt b8 b9)) (WF_of_lt _ (lt b10 b11)) (WF_of_lt _ (lt b12 b13))
      (WF_of_lt _ (lt b14 b15)) b12 b13 b14 b15 rfl rfl
    simp only [Codecs.pyTextV6, words16]
    revert this
    generalize bestRun [b0.toNat * 256 + b1.toNat, b2.toNat * 256 + b3.toNat, b4.toNat * 256 + b5.toNat,
      b6.toNat * 256 + b7.toNat, b8.toNat * 256 + b9.toNat, b10.toNat * 256 + b11.toNat,
      b12.toNat * 256 + b13.toNat, b14.toNat * 256 + b15.toNat] = best
    intro this
    cases best with
    | none => simpa [v6Tail] using this
    | some r => simpa [v6Tail] using this

end MitmVerif.C50.V6

namespace MitmVerif.C50.V6
open MitmVerif MitmVerif.C21 MitmVerif.C50

theorem beNat_snoc (l : Bytes) (b : UInt8) : beNat (l ++ [b]) = beNat l * 256 + b.toNat := by
  simp [beNat, List.foldl_append]

theorem beBytes_beNat : ∀ (k : Nat) (l : Bytes), l.length = k → Codecs.beBytes k (beNat l) = l := by
  intro k
  induction k with
  | zero => intro l h; have : l = [] := List.length_eq_zero_iff.mp h; subst this; rfl
  | succ k ih =>
    intro l h
    have hne : l ≠ [] := by intro e; subst e; simp at h
    have hsplit := List.dropLast_concat_getLast hne
    have hlen : l.dropLast.length = k := by simp [List.length_dropLast, h]
    rw [← hsplit, beNat_snoc]
    have hb := UInt8.toNat_lt (l.getLast hne)
    have h1 : (beNat l.dropLast * 256 + (l.getLast hne).toNat) / 256 = beNat l.dropLast := by omega
    have h2 : (beNat l.dropLast * 256 + (l.getLast hne).toNat) % 256 = (l.getLast hne).toNat := by omega
    simp only [Codecs.beBytes, h1, h2, ih _ hlen]
    simp

theorem hexChar_ascii : ∀ n : Fin 16, (hexChar n.val).toNat < 128 := by decide

theorem hexWord_ascii (w : Nat) : ∀ c ∈ hexWord w, c.toNat < 128 := by
  intro c hc
  unfold hexWord at hc
  have hx : ∀ n, n < 16 → (hexChar n).toNat < 128 := fun n hn => hexChar_ascii ⟨n, hn⟩
  split at hc
  · rename_i h; simp at hc; subst hc; exact hx _ h
  · split at hc
    · simp at hc; rcases hc with rfl | rfl <;> exact hx _ (by omega)
    · split at hc
      · simp at hc; rcases hc with rfl | rfl | rfl <;> exact hx _ (by omega)
      · simp at hc; rcases hc with rfl | rfl | rfl | rfl <;> exact hx _ (by omega)

theorem emitPy_ascii (best : Option Run) : ∀ (ws : List Nat) (i : Nat), ∀ c ∈ Codecs.emitPy best ws i, c.toNat < 128 := by
  intro ws
  induction ws with
  | nil => intro i c hc; simp [Codecs.emitPy] at hc
  | cons w r ih =>
    intro i c hc
    cases best with
    | none =>
      simp only [Codecs.emitPy, List.mem_append] at hc
      rcases hc with (hc | hc) | hc
      · split at hc <;> simp at hc; subst hc; decide
      · exact hexWord_ascii w c hc
      · exact ih _ c hc
    | some b =>
      simp only [Codecs.emitPy] at hc
      split at hc
      · simp only [List.mem_append] at hc
        rcases hc with hc | hc
        · split at hc <;> simp at hc; subst hc; decide
        · exact ih _ c hc
      · simp only [List.mem_append] at hc
        rcases hc with (hc | hc) | hc
        · split at hc <;> simp at hc; subst hc; decide
        · exact hexWord_ascii w c hc
        · exact ih _ c hc

theorem pyTextV6_ascii (ad : Bytes) : ∀ c ∈ Codecs.pyTextV6 ad, c.toNat < 128 := by
  intro c hc
  simp only [Codecs.pyTextV6, List.mem_append] at hc
  rcases hc with hc | hc
  · exact emitPy_ascii _ _ _ c hc
  · split at hc
    · split at hc <;> simp at hc; subst hc; decide
    · simp at hc

theorem bytesOf_text (t : List Char) : Codecs.bytesOf (t.map Char.toNat) = asciiBytes t := by
  simp [Codecs.bytesOf, asciiBytes, List.map_map, Function.comp_def]

/-- **AAAA.** `IPv6Address(str(IPv6Address(data))).packed = data` for every 16-byte rdata -/
theorem ip6_dec_enc (data : Bytes) (s : List Nat) (h : Codecs.ip6Dec data = some s) : Codecs.ip6Enc s = some data := by
  unfold Codecs.ip6Dec at h
  split at h
  · rename_i hlen
    cases h
    have hasc : ((Codecs.pyTextV6 data).map Char.toNat).all (· < 128) = true := by
      simp only [List.all_eq_true, List.mem_map, decide_eq_true_eq]
      rintro x ⟨c, hc, rfl⟩
      exact pyTextV6_ascii data c hc
    have hp := parseIp_pyTextV6 data hlen
    have hv6 : C22.parseV6 (asciiBytes (Codecs.pyTextV6 data)) = some (.v6 (beNat data) none) := by
      unfold C22.parseIp at hp
      cases h4 : C22.parseV4 (asciiBytes (Codecs.pyTextV6 data)) with
      | some n => simp [h4] at hp
      | none => simpa [h4] using hp
    unfold Codecs.ip6Enc
    rw [if_pos hasc, bytesOf_text, hv6]
    simp only [Codecs.be128]
    rw [beBytes_beNat 16 data hlen]
  · cases h

end MitmVerif.C50.V6
