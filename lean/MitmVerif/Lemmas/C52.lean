/-
  C52 — helper lemmas: association-list dictionary operations, successive `list.remove`, and the
  invariant tying `flowmap` to `recorded`.
-/
import MitmVerif.Model.C52
set_option linter.unusedSectionVars false
set_option linter.unusedSimpArgs false
set_option linter.unusedVariables false
namespace MitmVerif.C52

section
variable {O Req Key : Type} [DecidableEq Req] [DecidableEq Key]

def keys (fm : FlowMap Req Key) : List Key := fm.map (·.1)

/-! ### dictionary operations -/

theorem fmLookup_not_mem {fm : FlowMap Req Key} {k : Key} (h : k ∉ keys fm) : fmLookup fm k = none := by
  induction fm with
  | nil => rfl
  | cons e rest ih =>
    obtain ⟨k', l⟩ := e
    simp [keys] at h
    have : k' ≠ k := fun h' => h.1 h'.symm
    simp [fmLookup, this]
    exact ih (by simpa [keys] using h.2)

theorem fmLookup_append (fm : FlowMap Req Key) (k : Key) (r : Rec Req) (k' : Key) :
    fmLookup (fmAppend fm k r) k' =
      if k' = k then some ((fmLookup fm k).getD [] ++ [r]) else fmLookup fm k' := by
  induction fm with
  | nil =>
    by_cases h : k' = k
    · subst h; simp [fmAppend, fmLookup]
    · have : k ≠ k' := fun h' => h h'.symm
      simp [fmAppend, fmLookup, h, this]
  | cons e rest ih =>
    obtain ⟨k₀, l⟩ := e
    by_cases h0 : k₀ = k
    · subst h0
      by_cases h : k' = k₀
      · subst h; simp [fmAppend, fmLookup]
      · have : k₀ ≠ k' := fun h' => h h'.symm
        simp [fmAppend, fmLookup, h, this]
    · by_cases h : k' = k
      · subst h
        simp [fmAppend, fmLookup, h0, ih]
      · by_cases h1 : k₀ = k'
        · subst h1; simp [fmAppend, fmLookup, h0, h]
        · simp [fmAppend, fmLookup, h0, h, h1, ih]

theorem keys_append (fm : FlowMap Req Key) (k : Key) (r : Rec Req) :
    keys (fmAppend fm k r) = if k ∈ keys fm then keys fm else keys fm ++ [k] := by
  induction fm with
  | nil => simp [fmAppend, keys]
  | cons e rest ih =>
    obtain ⟨k₀, l⟩ := e
    by_cases h0 : k₀ = k
    · subst h0; simp [fmAppend, keys]
    · have h0' : k ≠ k₀ := fun h => h0 h.symm
      simp only [fmAppend, h0, if_false]
      simp only [keys, List.map_cons, List.mem_cons, h0', false_or] at ih ⊢
      rw [ih]
      split <;> simp [*]

theorem nodup_append {fm : FlowMap Req Key} (k : Key) (r : Rec Req) (h : (keys fm).Nodup) :
    (keys (fmAppend fm k r)).Nodup := by
  rw [keys_append]
  split
  · exact h
  · rename_i hk
    rw [List.nodup_append]
    refine ⟨h, by simp, ?_⟩
    intro a ha b hb
    simp at hb; subst hb
    intro hab; subst hab; exact hk ha

theorem keys_del_sub (fm : FlowMap Req Key) (k : Key) : ∀ x, x ∈ keys (fmDel fm k) → x ∈ keys fm := by
  induction fm with
  | nil => intro x h; exact h
  | cons e rest ih =>
    obtain ⟨k₀, l⟩ := e
    intro x h
    by_cases h0 : k₀ = k
    · simp [fmDel, h0, keys] at h ⊢; exact Or.inr h
    · simp only [fmDel, h0, if_false, keys, List.map_cons, List.mem_cons] at h ⊢
      rcases h with h | h
      · exact Or.inl h
      · exact Or.inr (ih x h)

theorem nodup_del {fm : FlowMap Req Key} (k : Key) (h : (keys fm).Nodup) : (keys (fmDel fm k)).Nodup := by
  induction fm with
  | nil => exact h
  | cons e rest ih =>
    obtain ⟨k₀, l⟩ := e
    simp only [keys, List.map_cons, List.nodup_cons] at h
    by_cases h0 : k₀ = k
    · simp [fmDel, h0]; exact h.2
    · simp only [fmDel, h0, if_false, keys, List.map_cons, List.nodup_cons]
      exact ⟨fun hm => h.1 (keys_del_sub rest k _ hm), ih h.2⟩

theorem fmLookup_del {fm : FlowMap Req Key} (k k' : Key) (h : (keys fm).Nodup) :
    fmLookup (fmDel fm k) k' = if k' = k then none else fmLookup fm k' := by
  induction fm with
  | nil => simp [fmDel, fmLookup]
  | cons e rest ih =>
    obtain ⟨k₀, l⟩ := e
    simp only [keys, List.map_cons, List.nodup_cons] at h
    by_cases h0 : k₀ = k
    · subst h0
      by_cases h1 : k' = k₀
      · subst h1
        simp [fmDel, fmLookup]
        exact fmLookup_not_mem h.1
      · have : k₀ ≠ k' := fun h' => h1 h'.symm
        simp [fmDel, fmLookup, h1, this]
    · by_cases h1 : k' = k
      · subst h1; simp [fmDel, fmLookup, h0, ih h.2]
      · by_cases h2 : k₀ = k'
        · subst h2; simp [fmDel, fmLookup, h0, h1]
        · simp [fmDel, fmLookup, h0, h1, h2, ih h.2]

theorem keys_set (fm : FlowMap Req Key) (k : Key) (l : List (Rec Req)) : keys (fmSet fm k l) = keys fm := by
  induction fm with
  | nil => rfl
  | cons e rest ih =>
    obtain ⟨k₀, l₀⟩ := e
    by_cases h0 : k₀ = k
    · simp [fmSet, h0, keys]
    · simp only [fmSet, h0, if_false, keys, List.map_cons] at ih ⊢
      rw [ih]

theorem fmLookup_set (fm : FlowMap Req Key) (k k' : Key) (l : List (Rec Req)) :
    fmLookup (fmSet fm k l) k' = if k' = k then (fmLookup fm k).map (fun _ => l) else fmLookup fm k' := by
  induction fm with
  | nil => simp [fmSet, fmLookup]
  | cons e rest ih =>
    obtain ⟨k₀, l₀⟩ := e
    by_cases h0 : k₀ = k
    · subst h0
      by_cases h1 : k' = k₀
      · subst h1; simp [fmSet, fmLookup]
      · have : k₀ ≠ k' := fun h' => h1 h'.symm
        simp [fmSet, fmLookup, h1, this]
    · by_cases h1 : k' = k
      · subst h1; simp [fmSet, fmLookup, h0, ih]
      · by_cases h2 : k₀ = k'
        · subst h2; simp [fmSet, fmLookup, h0, h1]
        · simp [fmSet, fmLookup, h0, h1, h2, ih]

/-! ### successive `list.remove` -/

theorem eraseAll_cons (l : List (Rec Req)) (p : Rec Req) (ps : List (Rec Req)) :
    eraseAll l (p :: ps) = eraseAll (l.erase p) ps := rfl

theorem eraseAll_nil (l : List (Rec Req)) : eraseAll l [] = l := rfl

theorem eraseAll_append (l ps qs : List (Rec Req)) : eraseAll l (ps ++ qs) = eraseAll (eraseAll l ps) qs := by
  simp [eraseAll, List.foldl_append]

/-- elements different from the head are erased below it -/
theorem eraseAll_under (y : Rec Req) (l qs : List (Rec Req)) (h : y ∉ qs) :
    eraseAll (y :: l) qs = y :: eraseAll l qs := by
  induction qs generalizing l with
  | nil => rfl
  | cons q qs ih =>
    simp only [List.mem_cons, not_or] at h
    have hne : ¬ (y == q) = true := by simpa using h.1
    rw [eraseAll_cons, eraseAll_cons, List.erase_cons_tail hne, ih _ h.2]

/-- removing, in order, all elements that satisfy `P` leaves the others -/
theorem eraseAll_filter (P : Rec Req → Bool) (l : List (Rec Req)) :
    eraseAll l (l.filter P) = l.filter (fun x => !P x) := by
  induction l with
  | nil => rfl
  | cons y l ih =>
    by_cases hy : P y = true
    · simp only [List.filter_cons, hy, if_true, eraseAll_cons, List.erase_cons_head]
      simpa [hy] using ih
    · have hy' : P y = false := by simpa using hy
      have e1 : (y :: l).filter P = l.filter P := by simp [hy']
      have e2 : (y :: l).filter (fun x => !P x) = y :: l.filter (fun x => !P x) := by simp [hy']
      rw [e1, e2, eraseAll_under, ih]
      · intro hm
        have := (List.mem_filter.mp hm).2
        simp [hy'] at this

/-- the popped prefix of a bucket followed by the served element: where they sit in `l`, and what is left -/
theorem eraseAll_prefix (P : Rec Req → Bool) (l ps tl : List (Rec Req)) (r : Rec Req)
    (h : l.filter P = ps ++ r :: tl) :
    ∃ pre post, l = pre ++ r :: post ∧ pre.filter P = ps ∧ post.filter P = tl ∧
      eraseAll l (ps ++ [r]) = pre.filter (fun x => !P x) ++ post := by
  induction l generalizing ps with
  | nil => simp at h
  | cons y l ih =>
    by_cases hy : P y = true
    · simp only [List.filter_cons, hy, if_true] at h
      cases ps with
      | nil =>
        simp only [List.nil_append, List.cons.injEq] at h
        obtain ⟨h1, h2⟩ := h
        subst h1
        exact ⟨[], l, by simp, by simp, h2, by simp [eraseAll]⟩
      | cons p ps =>
        simp only [List.cons_append, List.cons.injEq] at h
        obtain ⟨h1, h2⟩ := h
        subst h1
        obtain ⟨pre, post, e1, e2, e3, e4⟩ := ih ps h2
        refine ⟨y :: pre, post, by simp [e1], by simp [hy, e2], e3, ?_⟩
        simp only [List.cons_append, eraseAll_cons, List.erase_cons_head]
        rw [e4]; simp [hy]
    · have hy' : P y = false := by simpa using hy
      have e0 : (y :: l).filter P = l.filter P := by simp [hy']
      rw [e0] at h
      obtain ⟨pre, post, e1, e2, e3, e4⟩ := ih ps h
      refine ⟨y :: pre, post, by simp [e1], by simp [hy', e2], e3, ?_⟩
      have hin : y ∉ ps ++ [r] := by
        intro hm
        have hm' : y ∈ l.filter P := by
          rw [h]; simp only [List.mem_append, List.mem_cons, List.mem_singleton, List.not_mem_nil, or_false] at hm ⊢
          rcases hm with hm | hm
          · exact Or.inl hm
          · exact Or.inr (Or.inl hm)
        have := (List.mem_filter.mp hm').2
        simp [hy'] at this
      rw [eraseAll_under _ _ _ hin, e4]
      simp [hy']

/-! ### takeWhile / dropWhile on a bucket -/

theorem take_drop (p : Rec Req → Bool) (b : List (Rec Req)) : b = b.takeWhile p ++ b.dropWhile p :=
  (List.takeWhile_append_dropWhile (p := p) (l := b)).symm

theorem mem_takeWhile (p : Rec Req → Bool) (b : List (Rec Req)) : ∀ x ∈ b.takeWhile p, p x = true := by
  induction b with
  | nil => intro x h; simp at h
  | cons y b ih =>
    intro x h
    by_cases hy : p y = true
    · simp only [List.takeWhile_cons, hy, if_true, List.mem_cons] at h
      rcases h with h | h
      · subst h; exact hy
      · exact ih x h
    · simp [List.takeWhile_cons, hy] at h

theorem head_dropWhile (p : Rec Req → Bool) (b : List (Rec Req)) (r : Rec Req) (rest : List (Rec Req))
    (h : b.dropWhile p = r :: rest) : p r = false := by
  induction b with
  | nil => simp at h
  | cons y b ih =>
    by_cases hy : p y = true
    · simp only [List.dropWhile_cons, hy, if_true] at h; exact ih h
    · simp only [List.dropWhile_cons, hy] at h
      simp only [Bool.false_eq_true, if_false, List.cons.injEq] at h
      obtain ⟨h1, _⟩ := h
      subst h1; simpa using hy

end

/-! ### the invariant -/
section
variable {O Req Key : Type} [DecidableEq Req] [DecidableEq Key] (hash : O → Req → Key)

/-- the pending recordings with key `k`, in recording order -/
def bucket (o : O) (recd : List (Rec Req)) (k : Key) : List (Rec Req) :=
  recd.filter (fun r => decide (hash o r.req = k))

def optNE {α : Type} (l : List α) : Option (List α) := if l.isEmpty then none else some l

structure Inv (s : State O Req Key) : Prop where
  nodup : (keys s.flowmap).Nodup
  look : ∀ k, fmLookup s.flowmap k = optNE (bucket hash s.opts s.recorded k)
  http : ∀ r ∈ s.recorded, r.isHttp = true

theorem inv_empty (o : O) : Inv hash ({ opts := o, recorded := [], flowmap := [] } : State O Req Key) :=
  ⟨by simp [keys], by intro k; simp [fmLookup, bucket, optNE], by simp⟩

theorem inv_addOne {s : State O Req Key} (h : Inv hash s) (r : Rec Req) : Inv hash (addOne hash s r) := by
  unfold addOne
  by_cases hr : r.isHttp = true
  · simp only [hr, if_true]
    refine ⟨nodup_append _ _ h.nodup, ?_, ?_⟩
    · intro k'
      simp only
      rw [fmLookup_append, h.look]
      by_cases hk : k' = hash s.opts r.req
      · subst hk
        simp only [if_true, bucket, List.filter_append]
        simp [optNE]
        split <;> simp_all
      · have hk' : ¬ hash s.opts r.req = k' := fun h' => hk h'.symm
        simp [hk, bucket, List.filter_append, hk']
        simpa [bucket] using h.look k'
    · intro x hx
      simp only [List.mem_append, List.mem_singleton] at hx
      rcases hx with hx | hx
      · exact h.http x hx
      · subst hx; exact hr
  · simp only [hr]; exact h

theorem addOne_opts (s : State O Req Key) (r : Rec Req) : (addOne hash s r).opts = s.opts := by
  unfold addOne; split <;> rfl

theorem addOne_recorded (s : State O Req Key) (r : Rec Req) :
    (addOne hash s r).recorded = s.recorded ++ [r].filter (·.isHttp) := by
  unfold addOne; by_cases hr : r.isHttp = true <;> simp [hr]

theorem inv_addFlows {s : State O Req Key} (h : Inv hash s) (rs : List (Rec Req)) : Inv hash (addFlows hash s rs) := by
  unfold addFlows
  induction rs generalizing s with
  | nil => exact h
  | cons r rs ih => exact ih (inv_addOne hash h r)

theorem addFlows_opts (s : State O Req Key) (rs : List (Rec Req)) : (addFlows hash s rs).opts = s.opts := by
  unfold addFlows
  induction rs generalizing s with
  | nil => rfl
  | cons r rs ih => simp only [List.foldl_cons]; rw [ih, addOne_opts]

theorem addFlows_recorded (s : State O Req Key) (rs : List (Rec Req)) :
    (addFlows hash s rs).recorded = s.recorded ++ rs.filter (·.isHttp) := by
  unfold addFlows
  induction rs generalizing s with
  | nil => simp
  | cons r rs ih =>
    simp only [List.foldl_cons]; rw [ih, addOne_recorded]
    by_cases hr : r.isHttp = true <;> simp [hr]

theorem inv_loadFlows (s : State O Req Key) (rs : List (Rec Req)) : Inv hash (loadFlows hash s rs) :=
  inv_addFlows hash (inv_empty hash s.opts) rs

theorem loadFlows_recorded (s : State O Req Key) (rs : List (Rec Req)) :
    (loadFlows hash s rs).recorded = rs.filter (·.isHttp) := by
  unfold loadFlows; rw [addFlows_recorded]; simp

theorem loadFlows_opts (s : State O Req Key) (rs : List (Rec Req)) : (loadFlows hash s rs).opts = s.opts := by
  unfold loadFlows; rw [addFlows_opts]

theorem inv_configure (s : State O Req Key) (o : O) : Inv hash (configure hash s o) := inv_loadFlows hash _ _

theorem configure_opts (s : State O Req Key) (o : O) : (configure hash s o).opts = o := by
  unfold configure recompute; rw [loadFlows_opts]

theorem configure_recorded {s : State O Req Key} (h : Inv hash s) (o : O) :
    (configure hash s o).recorded = s.recorded := by
  unfold configure recompute; rw [loadFlows_recorded]
  simp only
  apply List.filter_eq_self.mpr
  exact h.http

/-- replay is inactive exactly when nothing is pending -/
theorem flowmap_empty_iff {s : State O Req Key} (h : Inv hash s) : s.flowmap.isEmpty = true ↔ s.recorded = [] := by
  constructor
  · intro he
    have he' : s.flowmap = [] := by simpa using he
    cases hr : s.recorded with
    | nil => rfl
    | cons r rest =>
      have := h.look (hash s.opts r.req)
      rw [he', hr] at this
      simp [fmLookup, optNE, bucket] at this
  · intro hr
    cases hf : s.flowmap with
    | nil => rfl
    | cons e rest =>
      have := h.look e.1
      rw [hf, hr] at this
      simp [fmLookup, optNE, bucket] at this

end
/-! ### what one request does, in terms of the pending recordings in recording order -/
section
variable {O Req Key : Type} [DecidableEq Req] [DecidableEq Key] (hash : O → Req → Key)

/-- does the recording `x` have the same matching key as the request `q` under options `o` -/
def sameKey (o : O) (q : Req) (x : Rec Req) : Bool := decide (hash o x.req = hash o q)

def noResp (r : Rec Req) : Bool := !r.hasResp

theorem nextFlow_none {s : State O Req Key} {q : Req} (b : Bool)
    (hl : fmLookup s.flowmap (hash s.opts q) = none) : nextFlow hash s q b = (s, .nothing) := by
  simp [nextFlow, hl]

theorem nextFlow_reuse {s : State O Req Key} {q : Req} {bk : List (Rec Req)}
    (hl : fmLookup s.flowmap (hash s.opts q) = some bk) :
    nextFlow hash s q true = (s, match bk.find? (·.hasResp) with | some r => .found r | none => .nothing) := by
  cases hf : bk.find? (·.hasResp) <;> simp [nextFlow, hl, hf]

theorem nextFlow_pop_nil {s : State O Req Key} {q : Req} {b0 : Rec Req} {bs : List (Rec Req)}
    (hl : fmLookup s.flowmap (hash s.opts q) = some (b0 :: bs))
    (hd : (b0 :: bs).dropWhile (fun r => !r.hasResp) = []) :
    nextFlow hash s q false =
      ({ s with flowmap := fmDel s.flowmap (hash s.opts q),
                recorded := eraseAll s.recorded ((b0 :: bs).takeWhile (fun r => !r.hasResp)) }, .nothing) := by
  simp only [nextFlow, hl, hd]
  simp

theorem nextFlow_pop_cons {s : State O Req Key} {q : Req} {b0 r : Rec Req} {bs rest : List (Rec Req)}
    (hl : fmLookup s.flowmap (hash s.opts q) = some (b0 :: bs))
    (hd : (b0 :: bs).dropWhile (fun r => !r.hasResp) = r :: rest) :
    nextFlow hash s q false =
      ({ s with flowmap := if rest.isEmpty then fmDel s.flowmap (hash s.opts q) else fmSet s.flowmap (hash s.opts q) rest,
                recorded := eraseAll s.recorded ((b0 :: bs).takeWhile (fun r => !r.hasResp) ++ [r]) }, .found r) := by
  simp only [nextFlow, hl, hd]
  simp

theorem request_inactive {s : State O Req Key} (h : Inv hash s) (hr : s.recorded = []) (q : Req) (c : RCfg) :
    request hash s q c = (s, .forwarded) := by
  have := (flowmap_empty_iff hash h).mpr hr
  simp [request, this]

theorem flowmap_nonempty {s : State O Req Key} (h : Inv hash s) (hne : s.recorded ≠ []) : s.flowmap.isEmpty = false := by
  cases hf : s.flowmap.isEmpty with
  | false => rfl
  | true => exact absurd ((flowmap_empty_iff hash h).mp hf) hne

theorem bucket_eq (o : O) (recd : List (Rec Req)) (q : Req) :
    bucket hash o recd (hash o q) = recd.filter (sameKey hash o q) := rfl

theorem request_reuse {s : State O Req Key} (h : Inv hash s) (hne : s.recorded ≠ []) (q : Req) (c : RCfg)
    (hc : (c.reuse || c.nopop) = true) :
    request hash s q c =
      (s, match s.recorded.find? (fun x => sameKey hash s.opts q x && x.hasResp) with
          | some r => .served r
          | none => unmatched c) := by
  have hfe := flowmap_nonempty hash h hne
  have hlook := h.look (hash s.opts q)
  rw [bucket_eq] at hlook
  have hfind : (s.recorded.filter (sameKey hash s.opts q)).find? (·.hasResp)
      = s.recorded.find? (fun x => sameKey hash s.opts q x && x.hasResp) := by
    rw [List.find?_filter]; congr 1; funext a; simp
  cases hb : s.recorded.filter (sameKey hash s.opts q) with
  | nil =>
    rw [hb] at hlook hfind
    have hl : fmLookup s.flowmap (hash s.opts q) = none := by simpa [optNE] using hlook
    simp only [request, hfe, hc, nextFlow_none hash true hl]
    rw [← hfind]; simp
  | cons b0 bs =>
    rw [hb] at hlook hfind
    have hl : fmLookup s.flowmap (hash s.opts q) = some (b0 :: bs) := by simpa [optNE] using hlook
    simp only [request, hfe, hc, nextFlow_reuse hash hl]
    rw [← hfind]
    cases (b0 :: bs).find? (·.hasResp) <;> simp

theorem request_nr {s : State O Req Key} (h : Inv hash s) (hne : s.recorded ≠ []) (q : Req) (c : RCfg)
    (hc : (c.reuse || c.nopop) = false) :
    (∃ pre r post, s.recorded = pre ++ r :: post ∧
        (∀ x ∈ pre, ¬ (sameKey hash s.opts q x = true ∧ x.hasResp = true)) ∧
        sameKey hash s.opts q r = true ∧ r.hasResp = true ∧
        (request hash s q c).2 = .served r ∧
        (request hash s q c).1.recorded = pre.filter (fun x => !sameKey hash s.opts q x) ++ post ∧
        (request hash s q c).1.opts = s.opts ∧ Inv hash (request hash s q c).1)
    ∨ ((∀ x ∈ s.recorded, ¬ (sameKey hash s.opts q x = true ∧ x.hasResp = true)) ∧
        (request hash s q c).2 = unmatched c ∧
        (request hash s q c).1.recorded = s.recorded.filter (fun x => !sameKey hash s.opts q x) ∧
        (request hash s q c).1.opts = s.opts ∧ Inv hash (request hash s q c).1) := by
  have hfe := flowmap_nonempty hash h hne
  have hlook := h.look (hash s.opts q)
  rw [bucket_eq] at hlook
  cases hb : s.recorded.filter (sameKey hash s.opts q) with
  | nil =>
    rw [hb] at hlook
    have hl : fmLookup s.flowmap (hash s.opts q) = none := by simpa [optNE] using hlook
    right
    have hreq : request hash s q c = (s, unmatched c) := by
      simp [request, hfe, hc, nextFlow_none hash false hl]
    have hall : ∀ x ∈ s.recorded, sameKey hash s.opts q x = false := by
      intro x hx
      cases hsk : sameKey hash s.opts q x with
      | false => rfl
      | true =>
        have : x ∈ s.recorded.filter (sameKey hash s.opts q) := List.mem_filter.mpr ⟨hx, hsk⟩
        rw [hb] at this; simp at this
    rw [hreq]
    refine ⟨?_, rfl, ?_, rfl, h⟩
    · intro x hx hh; rw [hall x hx] at hh; simp at hh
    · symm; apply List.filter_eq_self.mpr
      intro x hx; simp [hall x hx]
  | cons b0 bs =>
    rw [hb] at hlook
    have hl : fmLookup s.flowmap (hash s.opts q) = some (b0 :: bs) := by simpa [optNE] using hlook
    have htd := take_drop (fun r : Rec Req => !r.hasResp) (b0 :: bs)
    cases hd : (b0 :: bs).dropWhile (fun r => !r.hasResp) with
    | nil =>
      right
      rw [hd, List.append_nil] at htd
      have hreq : request hash s q c =
          ({ s with flowmap := fmDel s.flowmap (hash s.opts q),
                    recorded := eraseAll s.recorded ((b0 :: bs).takeWhile (fun r => !r.hasResp)) }, unmatched c) := by
        simp [request, hfe, hc, nextFlow_pop_nil hash hl hd]
      have hrec : eraseAll s.recorded ((b0 :: bs).takeWhile (fun r => !r.hasResp))
          = s.recorded.filter (fun x => !sameKey hash s.opts q x) := by
        rw [← htd, ← hb, eraseAll_filter]
      rw [hreq]
      refine ⟨?_, rfl, hrec, rfl, ?_⟩
      · intro x hx hh
        have hm : x ∈ (b0 :: bs) := by rw [← hb]; exact List.mem_filter.mpr ⟨hx, hh.1⟩
        rw [htd] at hm
        have := mem_takeWhile _ _ x hm
        simp [hh.2] at this
      · refine ⟨nodup_del _ h.nodup, ?_, ?_⟩
        · intro k'
          simp only [hrec]
          rw [fmLookup_del _ _ h.nodup]
          by_cases hk : k' = hash s.opts q
          · subst hk
            simp [bucket, optNE, List.filter_filter, sameKey]
          · rw [if_neg hk, h.look k']
            congr 1
            simp only [bucket, List.filter_filter]
            apply List.filter_congr
            intro x hx
            by_cases hx' : hash s.opts x.req = k'
            · have : hash s.opts x.req ≠ hash s.opts q := by rw [hx']; exact hk
              simp [sameKey, hx', hk]
            · simp [hx']
        · intro x hx
          simp only [hrec] at hx
          exact h.http x (List.mem_filter.mp hx).1
    | cons r rest =>
      left
      have hrr : r.hasResp = true := by
        have := head_dropWhile _ _ _ _ hd
        simpa using this
      rw [hd] at htd
      have hfil : s.recorded.filter (sameKey hash s.opts q)
          = (b0 :: bs).takeWhile (fun r => !r.hasResp) ++ r :: rest := by rw [hb]; exact htd
      obtain ⟨pre, post, e1, e2, e3, e4⟩ := eraseAll_prefix _ _ _ _ _ hfil
      have hreq : request hash s q c =
          ({ s with flowmap := if rest.isEmpty then fmDel s.flowmap (hash s.opts q) else fmSet s.flowmap (hash s.opts q) rest,
                    recorded := eraseAll s.recorded ((b0 :: bs).takeWhile (fun r => !r.hasResp) ++ [r]) }, .served r) := by
        simp [request, hfe, hc, nextFlow_pop_cons hash hl hd]
      have hrk : sameKey hash s.opts q r = true := by
        have : r ∈ s.recorded.filter (sameKey hash s.opts q) := by rw [hfil]; simp
        exact (List.mem_filter.mp this).2
      rw [hreq]
      refine ⟨pre, r, post, e1, ?_, hrk, hrr, rfl, e4, rfl, ?_⟩
      · intro x hx hh
        have hm : x ∈ pre.filter (sameKey hash s.opts q) := List.mem_filter.mpr ⟨hx, hh.1⟩
        rw [e2] at hm
        have := mem_takeWhile _ _ x hm
        simp [hh.2] at this
      · have hkr : hash s.opts r.req = hash s.opts q := by simpa [sameKey] using hrk
        refine ⟨?_, ?_, ?_⟩
        · simp only
          split
          · exact nodup_del _ h.nodup
          · rw [keys_set]; exact h.nodup
        · intro k'
          simp only [e4]
          by_cases hk : k' = hash s.opts q
          · subst hk
            have hbk : bucket hash s.opts (pre.filter (fun x => !sameKey hash s.opts q x) ++ post) (hash s.opts q) = rest := by
              rw [bucket_eq, List.filter_append, e3, List.filter_filter]
              simp
            rw [hbk]
            cases hre : rest with
            | nil => simp [fmLookup_del _ _ h.nodup, optNE]
            | cons r1 rest1 => simp [fmLookup_set, hl, optNE]
          · have hlk : fmLookup (if rest.isEmpty then fmDel s.flowmap (hash s.opts q) else fmSet s.flowmap (hash s.opts q) rest) k'
                = fmLookup s.flowmap k' := by
              split
              · rw [fmLookup_del _ _ h.nodup, if_neg hk]
              · rw [fmLookup_set, if_neg hk]
            rw [hlk, h.look k']
            congr 1
            rw [e1]
            simp only [bucket, List.filter_append, List.filter_filter, List.filter_cons]
            have : ¬ hash s.opts r.req = k' := by rw [hkr]; exact fun h' => hk h'.symm
            simp only [this, decide_false, Bool.false_eq_true, if_false]
            congr 1
            apply List.filter_congr
            intro x hx
            by_cases hx' : hash s.opts x.req = k'
            · have : hash s.opts x.req ≠ hash s.opts q := by rw [hx']; exact hk
              simp [sameKey, hx', hk]
            · simp [hx']
        · intro x hx
          simp only [e4] at hx
          apply h.http x
          rw [e1]
          simp only [List.mem_append, List.mem_cons] at hx ⊢
          rcases hx with hx | hx
          · exact Or.inl (List.mem_filter.mp hx).1
          · exact Or.inr (Or.inr hx)

end
end MitmVerif.C52
