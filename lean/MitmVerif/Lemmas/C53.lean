/-
  C53 — invariants of the client-replay model (Model/C53.lean).
-/
import MitmVerif.Model.C53
namespace MitmVerif.C53

/-! ### start_replay touches neither the playback loop nor the log -/

theorem startOne_frame (s : St) (i : Nat) :
    (startOne s i).inflight = s.inflight ∧ (startOne s i).log = s.log ∧ (startOne s i).attrs = s.attrs ∧
    (startOne s i).glog = s.glog ∧ (startOne s i).bg = s.bg := by
  unfold startOne prepare
  split <;> (try split) <;> simp

theorem startReplay_frame : ∀ (idxs : List Nat) (s : St),
    (startReplay s idxs).inflight = s.inflight ∧ (startReplay s idxs).log = s.log ∧
    (startReplay s idxs).attrs = s.attrs ∧ (startReplay s idxs).glog = s.glog ∧ (startReplay s idxs).bg = s.bg := by
  intro idxs
  induction idxs with
  | nil => intro s; simp [startReplay]
  | cons i is ih =>
    intro s
    have h1 := startOne_frame s i
    have h2 := ih (startOne s i)
    simp only [startReplay, List.foldl_cons] at h2 ⊢
    exact ⟨h2.1.trans h1.1, h2.2.1.trans h1.2.1, h2.2.2.1.trans h1.2.2.1, h2.2.2.2.1.trans h1.2.2.2.1,
      h2.2.2.2.2.trans h1.2.2.2.2⟩

/-- lifting a step-invariant through start_replay's loop -/
theorem startReplay_ind (P : St → Prop) (hstep : ∀ s i, P s → P (startOne s i)) :
    ∀ (idxs : List Nat) (s : St), P s → P (startReplay s idxs) := by
  intro idxs
  induction idxs with
  | nil => intro s h; simpa [startReplay] using h
  | cons i is ih =>
    intro s h
    have := ih (startOne s i) (hstep s i h)
    simpa [startReplay] using this

/-! ### sequential -/

def SeqInv (s : St) : Prop := logStatus s.log = some (statusOf s.inflight)

theorem SeqInv.pres {s s' : St} {o : Op} (hi : SeqInv s) (h : step s o = some s') : SeqInv s' := by
  unfold SeqInv at hi ⊢
  cases o with
  | start idxs =>
    simp only [step, Option.some.injEq] at h; subst h
    have := startReplay_frame idxs s
    rw [this.1, this.2.1]; exact hi
  | stop =>
    simp only [step] at h
    split at h
    · simp at h
    · simp only [Option.some.injEq] at h; subst h; exact hi
  | edit i => simp only [step, Option.some.injEq] at h; subst h; exact hi
  | take =>
    simp only [step] at h
    split at h
    · rename_i e rest hinf hq
      split at h
      · simp only [Option.some.injEq] at h; subst h
        simp only [hinf, statusOf] at hi
        simp [logStatus, hi, statusOf]
      · simp only [Option.some.injEq] at h; subst h; exact hi
    · simp at h
  | send =>
    simp only [step] at h
    split at h
    · rename_i e hinf
      simp only [Option.some.injEq] at h; subst h
      simp only [hinf, statusOf] at hi
      simp [logStatus, hi, statusOf]
    · simp at h
  | finish r =>
    simp only [step] at h
    split at h
    · rename_i e ph hinf
      simp only [Option.some.injEq] at h; subst h
      cases ph <;> simp only [hinf, statusOf] at hi <;> simp [logStatus, hi, statusOf]
    · simp at h
  | setopt b => simp only [step, Option.some.injEq] at h; subst h; exact hi
  | bsend t =>
    simp only [step] at h
    split at h
    · simp only [Option.some.injEq] at h; subst h; exact hi
    · simp at h
  | bfinish t r =>
    simp only [step] at h
    split at h
    · simp only [Option.some.injEq] at h; subst h; exact hi
    · simp at h

/-! ### queue order -/

structure OrdInv (s : St) : Prop where
  sorted : (s.queue.map (·.ticket)).Pairwise (· < ·)
  below : ∀ e ∈ s.queue, e.ticket < s.next
  ahead : ∀ t ∈ startTickets s.log, ∀ e ∈ s.queue, t < e.ticket
  old : ∀ t ∈ startTickets s.log, t < s.next
  order : (startTickets s.log).Pairwise (· > ·)

theorem OrdInv.presStart {s : St} (hi : OrdInv s) (i : Nat) : OrdInv (startOne s i) := by
  unfold MitmVerif.C53.startOne prepare
  split
  · split
    · exact hi
    · constructor
      · simp only [List.map_append, List.map_cons, List.map_nil]
        rw [List.pairwise_append]
        refine ⟨hi.sorted, by simp, ?_⟩
        intro a ha b hb
        simp only [List.mem_singleton] at hb; subst hb
        obtain ⟨e, he, rfl⟩ := List.mem_map.mp ha
        exact hi.below e he
      · intro e he
        simp only [List.mem_append, List.mem_singleton] at he
        rcases he with he | rfl
        · have := hi.below e he; show e.ticket < s.next + 1; omega
        · show s.next < s.next + 1; omega
      · intro t ht e he
        simp only [List.mem_append, List.mem_singleton] at he
        rcases he with he | rfl
        · exact hi.ahead t ht e he
        · exact hi.old t ht
      · intro t ht; have := hi.old t ht; show t < s.next + 1; omega
      · exact hi.order
  · exact hi

theorem OrdInv.pres {s s' : St} {o : Op} (hi : OrdInv s) (h : step s o = some s') : OrdInv s' := by
  cases o with
  | start idxs =>
    simp only [MitmVerif.C53.step, Option.some.injEq] at h; subst h
    exact startReplay_ind OrdInv (fun s i h => h.presStart i) idxs s hi
  | stop =>
    simp only [MitmVerif.C53.step] at h
    split at h
    · simp at h
    simp only [Option.some.injEq] at h; subst h
    exact ⟨by simp [stopReplay], by simp [stopReplay], by simp [stopReplay], hi.old, hi.order⟩
  | edit i =>
    simp only [MitmVerif.C53.step, Option.some.injEq] at h; subst h
    exact ⟨hi.sorted, hi.below, hi.ahead, hi.old, hi.order⟩
  | take =>
    simp only [MitmVerif.C53.step] at h
    split at h
    · rename_i e rest hinf hq
      have hs := hi.sorted
      rw [hq] at hs
      simp only [List.map_cons, List.pairwise_cons] at hs
      split at h
      rotate_left
      · -- background dispatch: the sequential log is not touched
        simp only [Option.some.injEq] at h; subst h
        exact ⟨hs.2, fun e' he' => hi.below e' (by rw [hq]; exact List.mem_cons_of_mem _ he'),
          fun t ht e' he' => hi.ahead t ht e' (by rw [hq]; exact List.mem_cons_of_mem _ he'), hi.old, hi.order⟩
      simp only [Option.some.injEq] at h; subst h
      constructor
      · exact hs.2
      · intro e' he'; exact hi.below e' (by rw [hq]; exact List.mem_cons_of_mem _ he')
      · intro t ht e' he'
        simp only [startTickets, List.mem_cons] at ht
        rcases ht with rfl | ht
        · exact hs.1 _ (List.mem_map.mpr ⟨e', he', rfl⟩)
        · exact hi.ahead t ht e' (by rw [hq]; exact List.mem_cons_of_mem _ he')
      · intro t ht
        simp only [startTickets, List.mem_cons] at ht
        rcases ht with rfl | ht
        · exact hi.below e (by rw [hq]; exact List.mem_cons_self)
        · exact hi.old t ht
      · simp only [startTickets, List.pairwise_cons]
        refine ⟨?_, hi.order⟩
        intro t ht
        exact hi.ahead t ht e (by rw [hq]; exact List.mem_cons_self)
    · simp at h
  | send =>
    simp only [MitmVerif.C53.step] at h
    split at h
    · simp only [Option.some.injEq] at h; subst h
      exact ⟨hi.sorted, hi.below, by simpa [startTickets] using hi.ahead, by simpa [startTickets] using hi.old,
        by simpa [startTickets] using hi.order⟩
    · simp at h
  | finish r =>
    simp only [MitmVerif.C53.step] at h
    split at h
    · simp only [Option.some.injEq] at h; subst h
      exact ⟨hi.sorted, hi.below, by simpa [startTickets] using hi.ahead, by simpa [startTickets] using hi.old,
        by simpa [startTickets] using hi.order⟩
    · simp at h
  | setopt b => simp only [MitmVerif.C53.step, Option.some.injEq] at h; subst h; exact ⟨hi.sorted, hi.below, hi.ahead, hi.old, hi.order⟩
  | bsend t =>
    simp only [MitmVerif.C53.step] at h
    split at h
    · simp only [Option.some.injEq] at h; subst h; exact ⟨hi.sorted, hi.below, hi.ahead, hi.old, hi.order⟩
    · simp at h
  | bfinish t r =>
    simp only [MitmVerif.C53.step] at h
    split at h
    · simp only [Option.some.injEq] at h; subst h; exact ⟨hi.sorted, hi.below, hi.ahead, hi.old, hi.order⟩
    · simp at h

/-! ### only replayable flows are queued -/

def ReplInv (s : St) : Prop :=
  ∀ e ∈ s.queue, ∃ a, s.attrs[e.idx]? = some a ∧ replayable a = true

theorem check_none_replayable {s : St} {i : Nat} (h : check s i = none) :
    ∃ a, s.attrs[i]? = some a ∧ replayable a = true := by
  unfold check at h
  split at h
  · simp at h
  · rename_i a ha
    refine ⟨a, ha, ?_⟩
    rcases a with ⟨l, ic, ht, hr, hc, w⟩
    cases hx : isInflight s i <;> cases hy : isLive s i <;> cases l <;> cases ic <;> cases ht <;> cases hr <;> cases hc <;> cases w <;>
      simp_all [replayable]

theorem ReplInv.presStart {s : St} (hi : ReplInv s) (i : Nat) : ReplInv (startOne s i) := by
  unfold MitmVerif.C53.startOne
  split
  · rename_i hc
    unfold prepare
    split
    · exact hi
    · intro e he
      simp only [List.mem_append, List.mem_singleton] at he
      rcases he with he | rfl
      · exact hi e he
      · exact check_none_replayable (s := s) hc
  · exact hi

theorem ReplInv.pres {s s' : St} {o : Op} (hi : ReplInv s) (h : step s o = some s') : ReplInv s' := by
  cases o with
  | start idxs =>
    simp only [MitmVerif.C53.step, Option.some.injEq] at h; subst h
    exact startReplay_ind ReplInv (fun s i h => h.presStart i) idxs s hi
  | stop =>
    simp only [MitmVerif.C53.step] at h
    split at h
    · simp at h
    simp only [Option.some.injEq] at h; subst h
    intro e he; simp [stopReplay] at he
  | edit i =>
    simp only [MitmVerif.C53.step, Option.some.injEq] at h; subst h; exact hi
  | take =>
    simp only [MitmVerif.C53.step] at h
    split at h
    · rename_i e rest hinf hq
      split at h <;> (simp only [Option.some.injEq] at h; subst h
                      intro e' he'; exact hi e' (by rw [hq]; exact List.mem_cons_of_mem _ he'))
    · simp at h
  | send =>
    simp only [MitmVerif.C53.step] at h
    split at h
    · simp only [Option.some.injEq] at h; subst h; exact hi
    · simp at h
  | finish r =>
    simp only [MitmVerif.C53.step] at h
    split at h
    · simp only [Option.some.injEq] at h; subst h; exact hi
    · simp at h
  | setopt b => simp only [MitmVerif.C53.step, Option.some.injEq] at h; subst h; exact hi
  | bsend t =>
    simp only [MitmVerif.C53.step] at h
    split at h
    · simp only [Option.some.injEq] at h; subst h; exact hi
    · simp at h
  | bfinish t r =>
    simp only [MitmVerif.C53.step] at h
    split at h
    · simp only [Option.some.injEq] at h; subst h; exact hi
    · simp at h

/-! ### stop restores -/

/-- a queued flow that had no backup when it was prepared still carries its pre-replay state as backup -/
def BackInv (s : St) : Prop :=
  ∀ e ∈ s.queue, e.fresh = true → ∃ f, s.fs[e.idx]? = some f ∧ f.backup = some e.pre

/-- updating flow `j` in a way that keeps an existing backup keeps the invariant's fact about flow `i` -/
theorem keep_backup {fs : List FState} {i j : Nat} {f g : FState} {b : Cur}
    (hf : fs[i]? = some f) (hb : f.backup = some b) (hj : fs[j]? = some g)
    (g' : FState) (hg : ∀ c, g.backup = some c → g'.backup = some c) :
    ∃ f', (fs.set j g')[i]? = some f' ∧ f'.backup = some b := by
  by_cases hij : j = i
  · subst hij
    have hlt : j < fs.length := by
      rcases Nat.lt_or_ge j fs.length with h | h
      · exact h
      · simp [List.getElem?_eq_none h] at hf
    rw [hf] at hj; cases hj
    exact ⟨g', by simp [hlt], hg b hb⟩
  · exact ⟨f, by simp [List.getElem?_set, hij, hf], hb⟩

theorem BackInv.presStart {s : St} (hi : BackInv s) (i : Nat) : BackInv (startOne s i) := by
  unfold MitmVerif.C53.startOne
  split
  · unfold prepare
    split
    · exact hi
    · rename_i g hg
      intro e he hfresh
      simp only [List.mem_append, List.mem_singleton] at he
      rcases he with he | rfl
      · obtain ⟨f, hf, hb⟩ := hi e he hfresh
        exact keep_backup hf hb hg _ (by intro c hc; simp [hc])
      · simp only [Option.isNone_iff_eq_none] at hfresh
        have hlt : i < s.fs.length := by
          rcases Nat.lt_or_ge i s.fs.length with h | h
          · exact h
          · simp [List.getElem?_eq_none h] at hg
        refine ⟨{ g with cur := { g.cur with resp := false, err := false, marked := true }, backup := some g.cur }, ?_, rfl⟩
        simp [hlt, hfresh]
  · exact hi

theorem BackInv.pres {s s' : St} {o : Op} (hi : BackInv s) (h : step s o = some s') : BackInv s' := by
  cases o with
  | start idxs =>
    simp only [MitmVerif.C53.step, Option.some.injEq] at h; subst h
    exact startReplay_ind BackInv (fun s i h => h.presStart i) idxs s hi
  | stop =>
    simp only [MitmVerif.C53.step] at h
    split at h
    · simp at h
    simp only [Option.some.injEq] at h; subst h
    intro e he; simp [stopReplay] at he
  | edit i =>
    simp only [MitmVerif.C53.step, Option.some.injEq] at h; subst h
    intro e he hfresh
    obtain ⟨f, hf, hb⟩ := hi e he hfresh
    show ∃ f', (editFlow s.fs i)[e.idx]? = some f' ∧ f'.backup = some e.pre
    unfold editFlow
    split
    · rename_i g hg
      exact keep_backup hf hb hg _ (by intro c hc; simp [hc])
    · exact ⟨f, hf, hb⟩
  | take =>
    simp only [MitmVerif.C53.step] at h
    split at h
    · rename_i e rest hinf hq
      have key : ∀ e' ∈ rest, e'.fresh = true →
          ∃ f', (markLive s.fs e.idx)[e'.idx]? = some f' ∧ f'.backup = some e'.pre := by
        intro e' he' hfresh
        obtain ⟨f, hf, hb⟩ := hi e' (by rw [hq]; exact List.mem_cons_of_mem _ he') hfresh
        unfold markLive
        split
        · rename_i g hg
          exact keep_backup hf hb hg _ (by intro c hc; simp [hc])
        · exact ⟨f, hf, hb⟩
      split at h <;> (simp only [Option.some.injEq] at h; subst h; exact key)
    · simp at h
  | send =>
    simp only [MitmVerif.C53.step] at h
    split at h
    · simp only [Option.some.injEq] at h; subst h; exact hi
    · simp at h
  | finish r =>
    simp only [MitmVerif.C53.step] at h
    split at h
    · rename_i e0 ph hinf
      simp only [Option.some.injEq] at h; subst h
      intro e he hfresh
      obtain ⟨f, hf, hb⟩ := hi e he hfresh
      show ∃ f', (finishFlow s.fs e0.idx r)[e.idx]? = some f' ∧ f'.backup = some e.pre
      unfold finishFlow
      split
      · rename_i g hg
        exact keep_backup hf hb hg _ (by intro c hc; simp [hc])
      · exact ⟨f, hf, hb⟩
    · simp at h
  | setopt b => simp only [MitmVerif.C53.step, Option.some.injEq] at h; subst h; exact hi
  | bsend t =>
    simp only [MitmVerif.C53.step] at h
    split at h
    · simp only [Option.some.injEq] at h; subst h; exact hi
    · simp at h
  | bfinish t r =>
    simp only [MitmVerif.C53.step] at h
    split at h
    · rename_i p hp
      simp only [Option.some.injEq] at h; subst h
      intro e he hfresh
      obtain ⟨f, hf, hb⟩ := hi e he hfresh
      show ∃ f', (finishFlow s.fs p.1.idx r)[e.idx]? = some f' ∧ f'.backup = some e.pre
      unfold finishFlow
      split
      · rename_i g hg
        exact keep_backup hf hb hg _ (by intro c hc; simp [hc])
      · exact ⟨f, hf, hb⟩
    · simp at h

/-- every queued flow carries, as its backup, the backup recorded for its entry when it was queued -/
def BkInv (s : St) : Prop :=
  ∀ e ∈ s.queue, ∃ f, s.fs[e.idx]? = some f ∧ f.backup = some e.bk

theorem BkInv.presStart {s : St} (hi : BkInv s) (i : Nat) : BkInv (startOne s i) := by
  unfold MitmVerif.C53.startOne
  split
  · unfold prepare
    split
    · exact hi
    · rename_i g hg
      intro e he
      simp only [List.mem_append, List.mem_singleton] at he
      rcases he with he | rfl
      · obtain ⟨f, hf, hb⟩ := hi e he
        exact keep_backup hf hb hg _ (by intro c hc; simp [hc])
      · have hlt : i < s.fs.length := by
          rcases Nat.lt_or_ge i s.fs.length with h | h
          · exact h
          · simp [List.getElem?_eq_none h] at hg
        refine ⟨{ g with cur := { g.cur with resp := false, err := false, marked := true },
                         backup := some (match g.backup with | none => g.cur | some b => b) }, ?_, rfl⟩
        simp [hlt]
        cases g.backup <;> rfl
  · exact hi

theorem BkInv.pres {s s' : St} {o : Op} (hi : BkInv s) (h : step s o = some s') : BkInv s' := by
  cases o with
  | start idxs =>
    simp only [MitmVerif.C53.step, Option.some.injEq] at h; subst h
    exact startReplay_ind BkInv (fun s i h => h.presStart i) idxs s hi
  | stop =>
    simp only [MitmVerif.C53.step] at h
    split at h
    · simp at h
    simp only [Option.some.injEq] at h; subst h
    intro e he; simp [stopReplay] at he
  | edit i =>
    simp only [MitmVerif.C53.step, Option.some.injEq] at h; subst h
    intro e he
    obtain ⟨f, hf, hb⟩ := hi e he
    show ∃ f', (editFlow s.fs i)[e.idx]? = some f' ∧ f'.backup = some e.bk
    unfold editFlow
    split
    · rename_i g hg
      exact keep_backup hf hb hg _ (by intro c hc; simp [hc])
    · exact ⟨f, hf, hb⟩
  | take =>
    simp only [MitmVerif.C53.step] at h
    split at h
    · rename_i e rest hinf hq
      have key : ∀ e' ∈ rest,
          ∃ f', (markLive s.fs e.idx)[e'.idx]? = some f' ∧ f'.backup = some e'.bk := by
        intro e' he'
        obtain ⟨f, hf, hb⟩ := hi e' (by rw [hq]; exact List.mem_cons_of_mem _ he')
        unfold markLive
        split
        · rename_i g hg
          exact keep_backup hf hb hg _ (by intro c hc; simp [hc])
        · exact ⟨f, hf, hb⟩
      split at h <;> (simp only [Option.some.injEq] at h; subst h; exact key)
    · simp at h
  | send =>
    simp only [MitmVerif.C53.step] at h
    split at h
    · simp only [Option.some.injEq] at h; subst h; exact hi
    · simp at h
  | finish r =>
    simp only [MitmVerif.C53.step] at h
    split at h
    · rename_i e0 ph hinf
      simp only [Option.some.injEq] at h; subst h
      intro e he
      obtain ⟨f, hf, hb⟩ := hi e he
      show ∃ f', (finishFlow s.fs e0.idx r)[e.idx]? = some f' ∧ f'.backup = some e.bk
      unfold finishFlow
      split
      · rename_i g hg
        exact keep_backup hf hb hg _ (by intro c hc; simp [hc])
      · exact ⟨f, hf, hb⟩
    · simp at h
  | setopt b => simp only [MitmVerif.C53.step, Option.some.injEq] at h; subst h; exact hi
  | bsend t =>
    simp only [MitmVerif.C53.step] at h
    split at h
    · simp only [Option.some.injEq] at h; subst h; exact hi
    · simp at h
  | bfinish t r =>
    simp only [MitmVerif.C53.step] at h
    split at h
    · rename_i p hp
      simp only [Option.some.injEq] at h; subst h
      intro e he
      obtain ⟨f, hf, hb⟩ := hi e he
      show ∃ f', (finishFlow s.fs p.1.idx r)[e.idx]? = some f' ∧ f'.backup = some e.bk
      unfold finishFlow
      split
      · rename_i g hg
        exact keep_backup hf hb hg _ (by intro c hc; simp [hc])
      · exact ⟨f, hf, hb⟩
    · simp at h


/-- reverting other flows, or a flow without backup, leaves flow `i` alone -/
theorem revertAll_keep : ∀ (idxs : List Nat) (fs : List FState) (i : Nat) (g : FState),
    fs[i]? = some g → g.backup = none → (revertAll fs idxs)[i]? = some g := by
  intro idxs
  induction idxs with
  | nil => intro fs i g h _; simpa [revertAll] using h
  | cons j js ih =>
    intro fs i g h hb
    simp only [revertAll, List.foldl_cons]
    apply ih (revert fs j) i g _ hb
    unfold revert
    split
    · rename_i f hf
      split
      · rename_i b hfb
        by_cases hji : j = i
        · subst hji; rw [h] at hf; cases hf; simp [hb] at hfb
        · simp [List.getElem?_set, hji, h]
      · exact h
    · exact h

theorem revertAll_restores : ∀ (idxs : List Nat) (fs : List FState) (i : Nat) (f : FState) (b : Cur),
    i ∈ idxs → fs[i]? = some f → f.backup = some b →
    ((revertAll fs idxs)[i]?).map (·.cur) = some b := by
  intro idxs
  induction idxs with
  | nil => intro fs i f b hi; simp at hi
  | cons j js ih =>
    intro fs i f b hi hf hb
    simp only [revertAll, List.foldl_cons]
    by_cases hji : j = i
    · subst hji
      have hlt : j < fs.length := by
        rcases Nat.lt_or_ge j fs.length with h | h
        · exact h
        · simp [List.getElem?_eq_none h] at hf
      have : (revert fs j)[j]? = some { f with cur := b, backup := none } := by
        unfold revert; rw [hf]; simp only [hb]; simp [hlt]
      have := revertAll_keep js (revert fs j) j _ this rfl
      simp only [revertAll] at this
      simp [this]
    · have hmem : i ∈ js := by
        rcases List.mem_cons.mp hi with h | h
        · exact absurd h.symm hji
        · exact h
      have : (revert fs j)[i]? = some f := by
        unfold revert
        split
        · split
          · simp [List.getElem?_set, hji, hf]
          · exact hf
        · exact hf
      have := ih (revert fs j) i f b hmem this hb
      simpa [revertAll] using this

/-- an entry prepared for a flow without backup records that flow's pre-replay state as its backup -/
def FreshInv (s : St) : Prop := ∀ e ∈ s.queue, e.fresh = true → e.bk = e.pre

theorem FreshInv.presStart {s : St} (hi : FreshInv s) (i : Nat) : FreshInv (startOne s i) := by
  unfold MitmVerif.C53.startOne
  split
  · unfold prepare
    split
    · exact hi
    · rename_i g hg
      intro e he hf
      simp only [List.mem_append, List.mem_singleton] at he
      rcases he with he | rfl
      · exact hi e he hf
      · simp only [Option.isNone_iff_eq_none] at hf
        simp [hf]
  · exact hi

theorem FreshInv.pres {s s' : St} {o : Op} (hi : FreshInv s) (h : step s o = some s') : FreshInv s' := by
  cases o with
  | start idxs =>
    simp only [MitmVerif.C53.step, Option.some.injEq] at h; subst h
    exact startReplay_ind FreshInv (fun s i h => h.presStart i) idxs s hi
  | stop =>
    simp only [MitmVerif.C53.step] at h
    split at h
    · simp at h
    simp only [Option.some.injEq] at h; subst h
    intro e he; simp [stopReplay] at he
  | edit i => simp only [MitmVerif.C53.step, Option.some.injEq] at h; subst h; exact hi
  | setopt b => simp only [MitmVerif.C53.step, Option.some.injEq] at h; subst h; exact hi
  | take =>
    simp only [MitmVerif.C53.step] at h
    split at h
    · rename_i e rest hinf hq
      split at h <;> (simp only [Option.some.injEq] at h; subst h
                      intro e' he'; exact hi e' (by rw [hq]; exact List.mem_cons_of_mem _ he'))
    · simp at h
  | send =>
    simp only [MitmVerif.C53.step] at h
    split at h
    · simp only [Option.some.injEq] at h; subst h; exact hi
    · simp at h
  | finish r =>
    simp only [MitmVerif.C53.step] at h
    split at h
    · simp only [Option.some.injEq] at h; subst h; exact hi
    · simp at h
  | bsend t =>
    simp only [MitmVerif.C53.step] at h
    split at h
    · simp only [Option.some.injEq] at h; subst h; exact hi
    · simp at h
  | bfinish t r =>
    simp only [MitmVerif.C53.step] at h
    split at h
    · simp only [Option.some.injEq] at h; subst h; exact hi
    · simp at h

/-! ### both modes: the option is read at dispatch time -/

/-- while a replay that was started with the option at 1 is running, nothing else is started -/
def GSeqInv (s : St) : Prop := seqStatus s.glog = some (openTicket s)

theorem GSeqInv.pres {s s' : St} {o : Op} (hi : GSeqInv s) (h : step s o = some s') : GSeqInv s' := by
  unfold GSeqInv openTicket at hi ⊢
  cases o with
  | start idxs =>
    simp only [MitmVerif.C53.step, Option.some.injEq] at h; subst h
    have := startReplay_frame idxs s
    rw [this.1, this.2.2.2.1]; exact hi
  | stop =>
    simp only [MitmVerif.C53.step] at h
    split at h
    · simp at h
    · simp only [Option.some.injEq] at h; subst h; exact hi
  | edit i => simp only [MitmVerif.C53.step, Option.some.injEq] at h; subst h; exact hi
  | setopt b => simp only [MitmVerif.C53.step, Option.some.injEq] at h; subst h; exact hi
  | take =>
    simp only [MitmVerif.C53.step] at h
    split at h
    · rename_i e rest hinf hq
      simp only [hinf, Option.map_none] at hi
      split at h
      · simp only [Option.some.injEq] at h; subst h
        simp [seqStatus, hi]
      · simp only [Option.some.injEq] at h; subst h
        simp [seqStatus, hi, hinf]
    · simp at h
  | send =>
    simp only [MitmVerif.C53.step] at h
    split at h
    · rename_i e hinf
      simp only [Option.some.injEq] at h; subst h
      simp only [hinf, Option.map_some] at hi
      simpa using hi
    · simp at h
  | finish r =>
    simp only [MitmVerif.C53.step] at h
    split at h
    · rename_i e ph hinf
      simp only [Option.some.injEq] at h; subst h
      simp only [hinf, Option.map_some] at hi
      simp [seqStatus, hi]
    · simp at h
  | bsend t =>
    simp only [MitmVerif.C53.step] at h
    split at h
    · simp only [Option.some.injEq] at h; subst h; exact hi
    · simp at h
  | bfinish t r =>
    simp only [MitmVerif.C53.step] at h
    split at h
    · simp only [Option.some.injEq] at h; subst h
      cases hinf : s.inflight with
      | none => simp only [hinf, Option.map_none] at hi; simp [seqStatus, hi]
      | some p => simp only [hinf, Option.map_some] at hi; simp [seqStatus, hi]
    · simp at h

/-- every replay that was ever started has finished, is the one the loop awaits, or runs in the background -/
def GClosed (s : St) : Prop :=
  ∀ t ∈ gstartTickets s.glog, t ∈ gfinTickets s.glog ∨ openTicket s = some t ∨ t ∈ s.bg.map (·.1.ticket)

theorem markSent_ticket (t : Nat) (l : List (Entry × Phase)) :
    (l.map (markSent t)).map (·.1.ticket) = l.map (·.1.ticket) := by
  induction l with
  | nil => rfl
  | cons p ps ih =>
    simp only [List.map_cons, ih]
    congr 1
    unfold markSent; split <;> rfl

theorem GClosed.pres {s s' : St} {o : Op} (hi : GClosed s) (h : step s o = some s') : GClosed s' := by
  unfold GClosed openTicket at hi ⊢
  cases o with
  | start idxs =>
    simp only [MitmVerif.C53.step, Option.some.injEq] at h; subst h
    have := startReplay_frame idxs s
    rw [this.1, this.2.2.2.1, this.2.2.2.2]; exact hi
  | stop =>
    simp only [MitmVerif.C53.step] at h
    split at h
    · simp at h
    · simp only [Option.some.injEq] at h; subst h; exact hi
  | edit i => simp only [MitmVerif.C53.step, Option.some.injEq] at h; subst h; exact hi
  | setopt b => simp only [MitmVerif.C53.step, Option.some.injEq] at h; subst h; exact hi
  | take =>
    simp only [MitmVerif.C53.step] at h
    split at h
    · rename_i e rest hinf hq
      split at h
      · simp only [Option.some.injEq] at h; subst h
        intro t ht
        simp only [gstartTickets, List.mem_cons] at ht
        rcases ht with rfl | ht
        · right; left; rfl
        · rcases hi t ht with h1 | h1 | h1
          · left; simpa [gfinTickets] using h1
          · simp [hinf] at h1
          · right; right; exact h1
      · simp only [Option.some.injEq] at h; subst h
        intro t ht
        simp only [gstartTickets, List.mem_cons] at ht
        rcases ht with rfl | ht
        · right; right; simp
        · rcases hi t ht with h1 | h1 | h1
          · left; simpa [gfinTickets] using h1
          · simp [hinf] at h1
          · right; right; simp only [List.map_append, List.mem_append]; exact Or.inl h1
    · simp at h
  | send =>
    simp only [MitmVerif.C53.step] at h
    split at h
    · rename_i e hinf
      simp only [Option.some.injEq] at h; subst h
      intro t ht
      rcases hi t ht with h1 | h1 | h1
      · exact Or.inl h1
      · right; left; simpa [hinf] using h1
      · exact Or.inr (Or.inr h1)
    · simp at h
  | finish r =>
    simp only [MitmVerif.C53.step] at h
    split at h
    · rename_i e ph hinf
      simp only [Option.some.injEq] at h; subst h
      intro t ht
      simp only [gstartTickets] at ht
      rcases hi t ht with h1 | h1 | h1
      · left; simp [gfinTickets, h1]
      · left; simp [hinf] at h1; simp [gfinTickets, h1]
      · exact Or.inr (Or.inr h1)
    · simp at h
  | bsend t0 =>
    simp only [MitmVerif.C53.step] at h
    split at h
    · simp only [Option.some.injEq] at h; subst h
      intro t ht
      rcases hi t ht with h1 | h1 | h1
      · exact Or.inl h1
      · exact Or.inr (Or.inl h1)
      · right; right; show t ∈ (s.bg.map (markSent t0)).map (·.1.ticket); rw [markSent_ticket]; exact h1
    · simp at h
  | bfinish t0 r =>
    simp only [MitmVerif.C53.step] at h
    split at h
    · simp only [Option.some.injEq] at h; subst h
      intro t ht
      simp only [gstartTickets] at ht
      rcases hi t ht with h1 | h1 | h1
      · left; simp [gfinTickets, h1]
      · exact Or.inr (Or.inl h1)
      · by_cases htt : t = t0
        · left; simp [gfinTickets, htt]
        · right; right
          obtain ⟨p, hp, rfl⟩ := List.mem_map.mp h1
          exact List.mem_map.mpr ⟨p, List.mem_filter.mpr ⟨hp, by simpa using htt⟩, rfl⟩
    · simp at h

/-! ### everything together -/

structure Inv (s : St) : Prop where
  seq : SeqInv s
  ord : OrdInv s
  repl : ReplInv s
  back : BackInv s
  bk : BkInv s
  fresh : FreshInv s
  gseq : GSeqInv s
  gclosed : GClosed s

theorem init_inv (attrs : List Attr) (fs : List FState) : Inv (init attrs fs) := by
  refine ⟨by simp [SeqInv, init, logStatus, statusOf], ⟨?_, ?_, ?_, ?_, ?_⟩, ?_, ?_, ?_, ?_, ?_, ?_⟩ <;>
    simp [init, startTickets, ReplInv, BackInv, BkInv, FreshInv, GSeqInv, GClosed, seqStatus, openTicket, gstartTickets]

theorem Inv.presRun : ∀ (os : List Op) (s s' : St), Inv s → MitmVerif.C53.run s os = some s' → Inv s' := by
  intro os
  induction os with
  | nil => intro s s' hi h; simp [MitmVerif.C53.run] at h; subst h; exact hi
  | cons o os ih =>
    intro s s' hi h
    simp only [MitmVerif.C53.run] at h
    cases hs : step s o with
    | none => simp [hs] at h
    | some s1 =>
      simp only [hs] at h
      exact ih s1 s' ⟨hi.seq.pres hs, hi.ord.pres hs, hi.repl.pres hs, hi.back.pres hs, hi.bk.pres hs, hi.fresh.pres hs, hi.gseq.pres hs,
        hi.gclosed.pres hs⟩ h

theorem Reach.inv {attrs : List Attr} {fs : List FState} {s : St} (h : Reach attrs fs s) : Inv s := by
  obtain ⟨os, ho⟩ := h
  exact Inv.presRun os _ _ (init_inv attrs fs) ho

/-! ### liveness: the variant -/

theorem run_append : ∀ (os1 os2 : List Op) (s s1 : St), MitmVerif.C53.run s os1 = some s1 →
    MitmVerif.C53.run s (os1 ++ os2) = MitmVerif.C53.run s1 os2 := by
  intro os1
  induction os1 with
  | nil => intro os2 s s1 h; simp [MitmVerif.C53.run] at h; subst h; rfl
  | cons o os ih =>
    intro os2 s s1 h
    simp only [MitmVerif.C53.run, List.cons_append] at h ⊢
    cases hs : step s o with
    | none => simp [hs] at h
    | some s2 => simp only [hs] at h ⊢; exact ih os2 s2 s1 h

theorem Reach.extend {attrs : List Attr} {fs : List FState} {s s' : St} {os : List Op}
    (h : Reach attrs fs s) (hr : MitmVerif.C53.run s os = some s') : Reach attrs fs s' := by
  obtain ⟨os0, h0⟩ := h
  exact ⟨os0 ++ os, by rw [run_append os0 os _ _ h0]; exact hr⟩

theorem bgWork_append (l : List (Entry × Phase)) (p : Entry × Phase) : bgWork (l ++ [p]) = bgWork l + phaseWork p.2 := by
  induction l with
  | nil => simp [bgWork]
  | cons q qs ih => simp [bgWork, ih]; omega

theorem phaseWork_pos (ph : Phase) : 1 ≤ phaseWork ph := by cases ph <;> simp [phaseWork]

theorem markSent_le (t : Nat) (p : Entry × Phase) : phaseWork (markSent t p).2 ≤ phaseWork p.2 := by
  unfold markSent
  split
  · rename_i hc
    simp only [Bool.and_eq_true, beq_iff_eq] at hc
    rw [hc.2]; simp [phaseWork]
  · exact Nat.le_refl _

theorem markSent_lt (t : Nat) (p : Entry × Phase) (h : (p.1.ticket == t && p.2 == .taken) = true) :
    phaseWork (markSent t p).2 + 1 ≤ phaseWork p.2 := by
  unfold markSent
  simp only [h, if_true]
  simp only [Bool.and_eq_true, beq_iff_eq] at h
  rw [h.2]; simp [phaseWork]

theorem bgWork_map_le (t : Nat) : ∀ (m : List (Entry × Phase)), bgWork (m.map (markSent t)) ≤ bgWork m := by
  intro m
  induction m with
  | nil => simp [bgWork]
  | cons x xs ihx =>
    simp only [List.map_cons, bgWork]
    have := markSent_le t x
    omega

theorem bgWork_send : ∀ (l : List (Entry × Phase)) (t : Nat),
    l.any (fun p => p.1.ticket == t && p.2 == .taken) = true →
    bgWork (l.map (markSent t)) + 1 ≤ bgWork l := by
  intro l t
  induction l with
  | nil => intro h; simp at h
  | cons q qs ih =>
    intro h
    simp only [List.map_cons, bgWork]
    cases hq : (q.1.ticket == t && q.2 == Phase.taken) with
    | true =>
      have := markSent_lt t q hq
      have := bgWork_map_le t qs
      omega
    | false =>
      simp only [List.any_cons, hq, Bool.false_or] at h
      have := ih h
      have := markSent_le t q
      omega

theorem bgWork_finish : ∀ (l : List (Entry × Phase)) (t : Nat) (p : Entry × Phase),
    l.find? (fun p => p.1.ticket == t) = some p →
    bgWork (l.filter (fun q => !(q.1.ticket == t))) + 1 ≤ bgWork l := by
  intro l t
  induction l with
  | nil => intro p h; simp at h
  | cons q qs ih =>
    intro p h
    have hmono : ∀ (m : List (Entry × Phase)), bgWork (m.filter (fun q => !(q.1.ticket == t))) ≤ bgWork m := by
      intro m
      induction m with
      | nil => simp [bgWork]
      | cons x xs ihx =>
        simp only [List.filter_cons]
        split
        · simp only [bgWork]; omega
        · simp only [bgWork]; omega
    simp only [List.filter_cons]
    by_cases hq : (q.1.ticket == t) = true
    · simp only [hq, Bool.not_true, Bool.false_eq_true, if_false, bgWork]
      have := hmono qs
      have := phaseWork_pos q.2
      omega
    · have hq' : (q.1.ticket == t) = false := by simpa using hq
      simp only [hq', Bool.not_false, if_true, bgWork]
      simp only [List.find?_cons, hq'] at h
      have := ih p h
      omega

/-- every loop / server operation strictly decreases the variant -/
theorem variant_step {s s' : St} {o : Op} (ho : isLoopOp o = true) (h : step s o = some s') :
    variant s' + 1 ≤ variant s := by
  cases o with
  | start _ => simp [isLoopOp] at ho
  | stop => simp [isLoopOp] at ho
  | edit _ => simp [isLoopOp] at ho
  | take =>
    simp only [MitmVerif.C53.step] at h
    split at h
    · rename_i e rest hinf hq
      split at h
      · simp only [Option.some.injEq] at h; subst h
        simp [variant, hinf, hq]; omega
      · simp only [Option.some.injEq] at h; subst h
        simp [variant, hinf, hq, bgWork_append, bgWork, phaseWork]; omega
    · simp at h
  | send =>
    simp only [MitmVerif.C53.step] at h
    split at h
    · rename_i e hinf
      simp only [Option.some.injEq] at h; subst h
      simp [variant, hinf]; omega
    · simp at h
  | finish r =>
    simp only [MitmVerif.C53.step] at h
    split at h
    · rename_i e ph hinf
      simp only [Option.some.injEq] at h; subst h
      cases ph <;> simp [variant, hinf] <;> omega
    · simp at h
  | setopt _ => simp [isLoopOp] at ho
  | bsend t =>
    simp only [MitmVerif.C53.step] at h
    split at h
    · rename_i hany
      simp only [Option.some.injEq] at h; subst h
      have := bgWork_send s.bg t hany
      simp only [variant]; omega
    · simp at h
  | bfinish t r =>
    simp only [MitmVerif.C53.step] at h
    split at h
    · rename_i p hp
      simp only [Option.some.injEq] at h; subst h
      have := bgWork_finish s.bg t p hp
      simp only [variant]; omega
    · simp at h

theorem variant_run : ∀ (os : List Op) (s s' : St), (∀ o ∈ os, isLoopOp o = true) →
    MitmVerif.C53.run s os = some s' → os.length + variant s' ≤ variant s := by
  intro os
  induction os with
  | nil => intro s s' _ h; simp [MitmVerif.C53.run] at h; subst h; simp
  | cons o os ih =>
    intro s s' hall h
    simp only [MitmVerif.C53.run] at h
    cases hs : step s o with
    | none => simp [hs] at h
    | some s1 =>
      simp only [hs] at h
      have h1 := variant_step (hall o List.mem_cons_self) hs
      have h2 := ih s1 s' (fun o' ho' => hall o' (List.mem_cons_of_mem _ ho')) h
      simp only [List.length_cons]; omega

/-- while work is left, a terminal event is enabled: the loop can take the next flow, or the replay in flight
    can be completed by the server's response / failure -/
theorem progress (s : St) (h : quiescent s = false) :
    (∃ s', step s .take = some s') ∨ (∀ r, ∃ s', step s (.finish r) = some s') := by
  unfold quiescent at h
  cases hinf : s.inflight with
  | some p =>
    right; intro r
    obtain ⟨e, ph⟩ := p
    exact Option.isSome_iff_exists.mp (by simp [MitmVerif.C53.step, hinf])
  | none =>
    left
    cases hq : s.queue with
    | nil => simp [hinf, hq] at h
    | cons e rest =>
      exact Option.isSome_iff_exists.mp (by cases hs : s.seq <;> simp [MitmVerif.C53.step, hinf, hq, hs])

/-- a fair completion exists and is short: at most `variant s` loop/server operations drain everything -/
theorem drain_exists : ∀ (n : Nat) (s : St), variant s ≤ n →
    ∃ os s', (∀ o ∈ os, isLoopOp o = true) ∧ os.length ≤ variant s ∧
      MitmVerif.C53.run s os = some s' ∧ quiescent s' = true := by
  intro n
  induction n with
  | zero =>
    intro s hv
    refine ⟨[], s, by simp, by simp, rfl, ?_⟩
    unfold variant at hv
    unfold quiescent
    cases hinf : s.inflight with
    | none =>
      cases hq : s.queue with
      | nil => simp
      | cons e rest => simp [hinf, hq] at hv
    | some p => obtain ⟨e, ph⟩ := p; cases ph <;> simp [hinf] at hv
  | succ n ih =>
    intro s hv
    cases hqs : quiescent s with
    | true => exact ⟨[], s, by simp, by simp, rfl, hqs⟩
    | false =>
      rcases progress s hqs with ⟨s1, h1⟩ | hfin
      · have hd := variant_step (o := .take) rfl h1
        obtain ⟨os, s', ha, hl, hr, hq⟩ := ih s1 (by omega)
        refine ⟨.take :: os, s', ?_, by simp only [List.length_cons]; omega, by simp [MitmVerif.C53.run, h1, hr], hq⟩
        intro o ho
        rcases List.mem_cons.mp ho with rfl | ho
        · rfl
        · exact ha o ho
      · obtain ⟨s1, h1⟩ := hfin true
        have hd := variant_step (o := .finish true) rfl h1
        obtain ⟨os, s', ha, hl, hr, hq⟩ := ih s1 (by omega)
        refine ⟨.finish true :: os, s', ?_, by simp only [List.length_cons]; omega, by simp [MitmVerif.C53.run, h1, hr], hq⟩
        intro o ho
        rcases List.mem_cons.mp ho with rfl | ho
        · rfl
        · exact ha o ho

/-- a log the status function accepts: every started ticket is finished, except the one the status names -/
theorem log_closed : ∀ (log : List Ev) (st : Status), logStatus log = some st →
    ∀ t ∈ startTickets log, t ∈ finTickets log ∨ st = .started t ∨ st = .sentS t := by
  intro log
  induction log with
  | nil => intro st _ t ht; simp [startTickets] at ht
  | cons e rest ih =>
    intro st h t ht
    simp only [logStatus] at h
    cases hr : logStatus rest with
    | none => simp [hr] at h
    | some st0 =>
      have ih0 := ih st0 hr
      cases e with
      | start t0 =>
        cases st0 <;> simp [hr] at h
        subst h
        simp only [startTickets, List.mem_cons] at ht
        rcases ht with rfl | ht
        · right; left; rfl
        · rcases ih0 t ht with h | h | h
          · left; simpa [finTickets] using h
          · simp at h
          · simp at h
      | sent t0 =>
        cases st0 with
        | idle => simp [hr] at h
        | sentS _ => simp [hr] at h
        | started t1 =>
          simp only [hr] at h
          split at h
          · rename_i heq
            simp only [Option.some.injEq] at h; subst h; subst heq
            simp only [startTickets] at ht
            rcases ih0 t ht with h | h | h
            · left; simpa [finTickets] using h
            · right; right; simp at h; subst h; rfl
            · simp at h
          · simp at h
      | fin t0 =>
        cases st0 with
        | idle => simp [hr] at h
        | started t1 =>
          simp only [hr] at h
          split at h
          · rename_i heq
            simp only [Option.some.injEq] at h; subst h; subst heq
            simp only [startTickets] at ht
            rcases ih0 t ht with h | h | h
            · left; simp [finTickets, h]
            · simp at h; subst h; left; simp [finTickets]
            · simp at h
          · simp at h
        | sentS t1 =>
          simp only [hr] at h
          split at h
          · rename_i heq
            simp only [Option.some.injEq] at h; subst h; subst heq
            simp only [startTickets] at ht
            rcases ih0 t ht with h | h | h
            · left; simp [finTickets, h]
            · simp at h
            · simp at h; subst h; left; simp [finTickets]
          · simp at h

end MitmVerif.C53
