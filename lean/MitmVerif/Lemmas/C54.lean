/-
  C54 — helper lemmas: the implemented matchers against RFC 6265, jar membership facts.
-/
import MitmVerif.Model.C54
namespace MitmVerif.C54

/-- A notion of "this host string is an IP address" (RFC 6265 §5.1.3 leaves it to the host syntax).
    The theorems hold for every notion obeying two laws true of IPv4 / IPv6 literals:
    an IP literal does not start with a dot, and one that contains a dot ends in `.<digits>`
    (dotted quad, or IPv6 with an embedded IPv4 tail). -/
structure IPNotion where
  isIP : Bytes → Bool
  no_leading_dot : ∀ h, isIP h = true → h.head? ≠ some dot
  dotted_tail : ∀ h, isIP h = true → dot ∈ h → ipv4re h = true

/-- the concrete notion used by the driver satisfies the laws -/
def stdIPNotion : IPNotion where
  isIP := stdIP
  no_leading_dot := by
    intro h hh
    simp only [stdIP, Bool.or_eq_true] at hh
    rcases hh with hh | hh
    · cases h with
      | nil => simp [isIPv4Like] at hh
      | cons c t =>
        simp only [isIPv4Like, Bool.and_eq_true] at hh
        intro hc
        simp at hc
        rw [hc] at hh
        have : isDigit dot = false := by decide
        rw [this] at hh; simp at hh
    · simp only [isIPv6Like, Bool.and_eq_true] at hh
      simpa using hh.1.2
  dotted_tail := by
    intro h hh hd
    simp only [stdIP, Bool.or_eq_true] at hh
    rcases hh with hh | hh
    · simp only [isIPv4Like, Bool.and_eq_true] at hh; exact hh.2
    · simp only [isIPv6Like, Bool.and_eq_true, Bool.or_eq_true] at hh
      rcases hh.2 with h1 | h1
      · have : h.contains dot = true := List.contains_iff_mem.mpr hd
        simp at h1
        exact absurd hd h1
      · exact h1

theorem dropDot_cons_dot (t : Bytes) : dropDot (dot :: t) = t := by simp [dropDot]

/-- **the implemented domain match implies the RFC 6265 one** -/
theorem isHDN_ne_nil {t : Bytes} (h : isHDN t = true) : t ≠ [] := by
  intro e; subst e; simp [isHDN, ipv4re, ipv4reRev] at h

theorem implDomainMatch_sound (ip : IPNotion) (a b : Bytes) (h : implDomainMatch a b = true) :
    domainMatch6265 ip.isIP a b = true := by
  unfold implDomainMatch at h
  unfold domainMatch6265
  generalize asciiLower a = A at *
  generalize asciiLower b = B at *
  simp only [Bool.or_eq_true, decide_eq_true_eq]
  by_cases h1 : (B.isSuffixOf A && cjMatch A B) = true
  · simp only [Bool.and_eq_true] at h1
    obtain ⟨hsuf, hcj⟩ := h1
    unfold cjMatch at hcj
    by_cases hAB : A = B
    · subst hAB
      cases A with
      | nil => left; rfl
      | cons c t =>
        by_cases hc : c = dot
        · subst hc
          right
          rw [dropDot_cons_dot]
          by_cases ht : t = []
          · simp [ht]
          · simp only [ht, if_false, Bool.and_eq_true, Bool.not_eq_true']
            refine ⟨List.isSuffixOf_iff_suffix.mpr (List.suffix_refl _), ?_⟩
            cases hip : ip.isIP (dot :: t) with
            | false => rfl
            | true => exact absurd (by simp) (ip.no_leading_dot _ hip)
        · left; simp [dropDot, hc]
    · simp only [hAB, if_false] at hcj
      split at hcj
      · cases hcj
      · rename_i hhdn
        split at hcj
        · cases hcj
        · split at hcj
          · cases hcj
          · rename_i hhead
            simp only [ne_eq, Decidable.not_not] at hhead
            cases B with
            | nil => simp at hhead
            | cons c t =>
              simp at hhead; subst hhead
              right
              rw [dropDot_cons_dot]
              have ht : t ≠ [] := isHDN_ne_nil (by simpa using hcj)
              simp only [ht, if_false, Bool.and_eq_true, Bool.not_eq_true']
              refine ⟨hsuf, ?_⟩
              cases hip : ip.isIP A with
              | false => rfl
              | true =>
                have hmem : dot ∈ A :=
                  (List.isSuffixOf_iff_suffix.mp hsuf).subset (by simp)
                have hre := ip.dotted_tail A hip hmem
                simp [isHDN, hre] at hhdn
  · have h1' : (B.isSuffixOf A && cjMatch A B) = false := by simpa using h1
    simp only [h1'] at h
    simp at h
    left; exact h

/-- **the implemented path match is the RFC 6265 one** on the path part of the request target -/
theorem implPathMatch_eq (req c : Bytes) : implPathMatch req c = pathMatch6265 (uriPath req) c := by
  unfold implPathMatch pathMatch6265
  by_cases h1 : uriPath req = c
  · simp [h1]
  · by_cases h2 : c.isPrefixOf (uriPath req) = true
    · simp [h1, h2]
    · simp [h1, h2]

/-! ### jar membership -/

theorem jarLookup_mem {k : JKey} {d : Dict} {jar : Jar} (h : jarLookup k jar = some d) : (k, d) ∈ jar := by
  induction jar with
  | nil => simp [jarLookup] at h
  | cons p rest ih =>
    obtain ⟨k', d'⟩ := p
    simp only [jarLookup] at h
    split at h
    · rename_i hk; simp at h; subst hk; subst h; simp
    · exact List.mem_cons_of_mem _ (ih h)

theorem jarLookup_none_not_mem {k : JKey} {jar : Jar} (h : jarLookup k jar = none) (d : Dict) : (k, d) ∉ jar := by
  induction jar with
  | nil => simp
  | cons p rest ih =>
    obtain ⟨k', d'⟩ := p
    simp only [jarLookup] at h
    split at h
    · cases h
    · rename_i hk
      intro hm
      rcases List.mem_cons.mp hm with h1 | h1
      · simp at h1; exact hk h1.1.symm
      · exact ih h h1

theorem mem_dictSet {n n' : Bytes} {v v' : Val} {d : Dict} (h : (n', v') ∈ dictSet n v d) :
    (n', v') ∈ d ∨ (n' = n ∧ v' = v) := by
  induction d with
  | nil => right; simpa [dictSet] using h
  | cons p rest ih =>
    obtain ⟨pn, pv⟩ := p
    simp only [dictSet] at h
    split at h
    · rename_i hn
      rcases List.mem_cons.mp h with h1 | h1
      · right; simp at h1; exact ⟨h1.1.trans hn, h1.2⟩
      · left; exact List.mem_cons_of_mem _ h1
    · rcases List.mem_cons.mp h with h1 | h1
      · left; rw [h1]; simp
      · rcases ih h1 with h2 | h2
        · left; exact List.mem_cons_of_mem _ h2
        · right; exact h2

theorem dictSet_ne_nil (n : Bytes) (v : Val) (d : Dict) : dictSet n v d ≠ [] := by
  cases d with
  | nil => simp [dictSet]
  | cons p rest => obtain ⟨pn, pv⟩ := p; simp only [dictSet]; split <;> simp

/-- where a cookie in the jar after one Set-Cookie comes from -/
theorem setCookie_mem {jar : Jar} {host : Bytes} {port : Nat} {c : Cookie} {k : JKey} {d : Dict} {n : Bytes} {v : Val}
    (hk : (k, d) ∈ setCookie jar host port c) (hn : (n, v) ∈ d) :
    (∃ d0, (k, d0) ∈ jar ∧ (n, v) ∈ d0) ∨
    (k = ckey c host port ∧ n = c.name ∧ v = c.value ∧ c.expired = false ∧
      implDomainMatch host (ckey c host port).domain = true) := by
  unfold setCookie at hk
  simp only at hk
  split at hk
  · rename_i hdm
    split at hk
    · split at hk
      · left; exact ⟨d, hk, hn⟩
      · rename_i hexp
        rcases List.mem_append.mp hk with h1 | h1
        · left; exact ⟨d, h1, hn⟩
        · simp at h1
          obtain ⟨hk1, hd1⟩ := h1
          subst hd1; simp at hn
          right; exact ⟨hk1, hn.1, hn.2, by simpa using hexp, hdm⟩
    · rename_i d0 hl
      have hm0 := jarLookup_mem hl
      split at hk
      · split at hk
        · left; exact ⟨d, (List.mem_filter.mp hk).1, hn⟩
        · obtain ⟨p, hp, hpe⟩ := List.mem_map.mp hk
          split at hpe
          · rename_i hpk
            simp at hpe
            obtain ⟨e1, e2⟩ := hpe
            subst e2
            left; refine ⟨d0, ?_, (List.mem_filter.mp hn).1⟩
            rw [← e1, hpk]; exact hm0
          · subst hpe; left; exact ⟨d, hp, hn⟩
      · rename_i hexp
        obtain ⟨p, hp, hpe⟩ := List.mem_map.mp hk
        split at hpe
        · rename_i hpk
          simp at hpe
          obtain ⟨e1, e2⟩ := hpe
          subst e2
          rcases mem_dictSet hn with h2 | h2
          · left; refine ⟨d0, ?_, h2⟩
            rw [← e1, hpk]; exact hm0
          · right; exact ⟨by rw [← e1, hpk], h2.1, h2.2, by simpa using hexp, hdm⟩
        · subst hpe; left; exact ⟨d, hp, hn⟩
  · left; exact ⟨d, hk, hn⟩

/-- cookie `(n, v)` under key `k` was put there by a Set-Cookie of a response in `evs` that was not expired and
    whose host passed the (implemented) domain check for the key's domain -/
def SetBy (evs : List Event) (k : JKey) (n : Bytes) (v : Val) : Prop :=
  ∃ host port cs c, Event.resp host port cs ∈ evs ∧ c ∈ cs ∧ c.name = n ∧ c.value = v ∧ c.expired = false ∧
    k = ckey c host port ∧ implDomainMatch host k.domain = true

theorem foldl_setCookie_mem {cs : List Cookie} : ∀ {jar : Jar} {host : Bytes} {port : Nat} {k : JKey} {d : Dict}
    {n : Bytes} {v : Val}, (k, d) ∈ cs.foldl (fun j c => setCookie j host port c) jar → (n, v) ∈ d →
    (∃ d0, (k, d0) ∈ jar ∧ (n, v) ∈ d0) ∨
    (∃ c ∈ cs, k = ckey c host port ∧ n = c.name ∧ v = c.value ∧ c.expired = false ∧
      implDomainMatch host (ckey c host port).domain = true) := by
  induction cs with
  | nil => intro jar host port k d n v hk hn; left; exact ⟨d, by simpa using hk, hn⟩
  | cons c cs ih =>
    intro jar host port k d n v hk hn
    simp only [List.foldl_cons] at hk
    rcases ih hk hn with ⟨d0, h0, hn0⟩ | ⟨c', hc', r⟩
    · rcases setCookie_mem h0 hn0 with h1 | h1
      · left; exact h1
      · right; exact ⟨c, by simp, h1⟩
    · right; exact ⟨c', List.mem_cons_of_mem _ hc', r⟩

theorem response_mem {cs : List Cookie} {jar : Jar} {host : Bytes} {port : Nat} {k : JKey} {d : Dict} {n : Bytes} {v : Val}
    (hk : (k, d) ∈ response jar host port cs) (hn : (n, v) ∈ d) :
    (∃ d0, (k, d0) ∈ jar ∧ (n, v) ∈ d0) ∨ SetBy [Event.resp host port cs] k n v := by
  rcases foldl_setCookie_mem (by simpa [response] using hk) hn with h1 | ⟨c, hc, h1, h2, h3, h4, h5⟩
  · left; exact h1
  · right
    exact ⟨host, port, cs, c, by simp, hc, h2.symm, h3.symm, h4, h1, by rw [h1]; exact h5⟩

theorem origin_run (evs : List Event) : ∀ (jar : Jar) (P : JKey → Bytes → Val → Prop),
    (∀ k d n v, (k, d) ∈ jar → (n, v) ∈ d → P k n v) →
    ∀ k d n v, (k, d) ∈ runJar jar evs → (n, v) ∈ d → P k n v ∨ SetBy evs k n v := by
  induction evs with
  | nil => intro jar P h k d n v hk hn; left; exact h k d n v (by simpa [runJar] using hk) hn
  | cons ev evs ih =>
    intro jar P h k d n v hk hn
    simp only [runJar, List.foldl_cons] at hk
    have step : ∀ k d n v, (k, d) ∈ stepJar jar ev → (n, v) ∈ d → P k n v ∨ SetBy [ev] k n v := by
      intro k d n v hk hn
      cases ev with
      | req f h' p' pa => left; exact h k d n v hk hn
      | resp host port cs =>
        rcases response_mem hk hn with ⟨d0, h0, hn0⟩ | h1
        · left; exact h k d0 n v h0 hn0
        · right; exact h1
    rcases ih (stepJar jar ev) (fun k n v => P k n v ∨ SetBy [ev] k n v) step k d n v hk hn with
      (h1 | ⟨ho, po, cso, co, hev, r⟩) | ⟨ho, po, cso, co, hev, r⟩
    · left; exact h1
    · right; simp at hev; exact ⟨ho, po, cso, co, by simp [hev], r⟩
    · right; exact ⟨ho, po, cso, co, List.mem_cons_of_mem _ hev, r⟩

/-! ### no empty dicts -/

theorem setCookie_nonempty {jar : Jar} (h : ∀ k d, (k, d) ∈ jar → d ≠ []) (host : Bytes) (port : Nat) (c : Cookie) :
    ∀ k d, (k, d) ∈ setCookie jar host port c → d ≠ [] := by
  intro k d hk
  unfold setCookie at hk
  simp only at hk
  split at hk
  · split at hk
    · split at hk
      · exact h k d hk
      · rcases List.mem_append.mp hk with h1 | h1
        · exact h k d h1
        · simp at h1; rw [h1.2]; simp
    · split at hk
      · split at hk
        · exact h k d (List.mem_filter.mp hk).1
        · rename_i hne
          obtain ⟨p, hp, hpe⟩ := List.mem_map.mp hk
          split at hpe
          · simp at hpe; rw [← hpe.2]; simpa using hne
          · subst hpe; exact h _ _ hp
      · obtain ⟨p, hp, hpe⟩ := List.mem_map.mp hk
        split at hpe
        · simp at hpe; rw [← hpe.2]; exact dictSet_ne_nil _ _ _
        · subst hpe; exact h _ _ hp
  · exact h k d hk

theorem response_nonempty (cs : List Cookie) : ∀ {jar : Jar}, (∀ k d, (k, d) ∈ jar → d ≠ []) →
    ∀ (host : Bytes) (port : Nat) k d, (k, d) ∈ response jar host port cs → d ≠ [] := by
  induction cs with
  | nil => intro jar h host port k d hk; exact h k d (by simpa [response] using hk)
  | cons c cs ih =>
    intro jar h host port k d hk
    simp only [response, List.foldl_cons] at hk
    exact ih (setCookie_nonempty h host port c) host port k d (by simpa [response] using hk)

theorem run_nonempty (evs : List Event) : ∀ {jar : Jar}, (∀ k d, (k, d) ∈ jar → d ≠ []) →
    ∀ k d, (k, d) ∈ runJar jar evs → d ≠ [] := by
  induction evs with
  | nil => intro jar h k d hk; exact h k d (by simpa [runJar] using hk)
  | cons ev evs ih =>
    intro jar h k d hk
    simp only [runJar, List.foldl_cons] at hk
    refine ih (jar := stepJar jar ev) ?_ k d (by simpa [runJar] using hk)
    cases ev with
    | req f h' p' pa => exact h
    | resp host port cs => exact response_nonempty cs h host port

end MitmVerif.C54

namespace MitmVerif.C54

/-! ### the jar as a function of the history (last write wins) -/

theorem jarLookup_append (k' k : JKey) (d : Dict) (jar : Jar) :
    jarLookup k' (jar ++ [(k, d)]) =
      match jarLookup k' jar with | some x => some x | none => if k = k' then some d else none := by
  induction jar with
  | nil => simp [jarLookup]
  | cons p rest ih =>
    obtain ⟨pk, pd⟩ := p
    simp only [List.cons_append, jarLookup]
    split
    · rfl
    · exact ih

theorem jarLookup_map_replace (k' k : JKey) (d' : Dict) (jar : Jar) :
    jarLookup k' (jar.map (fun p => if p.1 = k then (p.1, d') else p)) =
      if k' = k then (jarLookup k jar).map (fun _ => d') else jarLookup k' jar := by
  induction jar with
  | nil => simp [jarLookup]
  | cons p rest ih =>
    obtain ⟨pk, pd⟩ := p
    simp only [List.map_cons]
    by_cases h1 : pk = k
    · subst h1
      by_cases h2 : k' = pk
      · subst h2; simp [jarLookup]
      · have h2' : ¬ pk = k' := fun h => h2 h.symm
        simp [jarLookup, h2, h2'] at ih ⊢; exact ih
    · by_cases h2 : k' = k
      · subst h2; simp [jarLookup, h1] at ih ⊢; exact ih
      · simp only [h1, if_false, jarLookup, h2] at ih ⊢
        split
        · rfl
        · exact ih

theorem jarLookup_filter_ne (k' k : JKey) (jar : Jar) :
    jarLookup k' (jar.filter (fun p => decide (p.1 ≠ k))) = if k' = k then none else jarLookup k' jar := by
  induction jar with
  | nil => simp [jarLookup]
  | cons p rest ih =>
    obtain ⟨pk, pd⟩ := p
    by_cases h1 : pk = k
    · subst h1
      by_cases h2 : k' = pk
      · subst h2; simp [List.filter, jarLookup] at ih ⊢; exact ih
      · have h2' : ¬ pk = k' := fun h => h2 h.symm
        simp [List.filter, jarLookup, h2, h2'] at ih ⊢; exact ih
    · by_cases h2 : k' = k
      · subst h2; simp [List.filter, h1, jarLookup] at ih ⊢; exact ih
      · simp only [List.filter, h1, ne_eq, not_false_eq_true, decide_true, jarLookup, h2, if_false] at ih ⊢
        split
        · rfl
        · exact ih

theorem dictGet_dictSet (n' n : Bytes) (v : Val) (d : Dict) :
    dictGet n' (dictSet n v d) = if n' = n then some v else dictGet n' d := by
  induction d with
  | nil => by_cases h : n' = n <;> simp [dictSet, dictGet, h, eq_comm]
  | cons p rest ih =>
    obtain ⟨pn, pv⟩ := p
    simp only [dictSet]
    by_cases h1 : pn = n
    · subst h1
      by_cases h2 : n' = pn
      · subst h2; simp [dictGet]
      · have h2' : ¬ pn = n' := fun h => h2 h.symm
        simp [dictGet, h2, h2']
    · by_cases h2 : n' = n
      · subst h2; simp [h1, dictGet] at ih ⊢; exact ih
      · simp only [h1, if_false, dictGet, h2] at ih ⊢
        split
        · rfl
        · exact ih

theorem dictGet_filter_ne (n' n : Bytes) (d : Dict) :
    dictGet n' (d.filter (fun p => decide (p.1 ≠ n))) = if n' = n then none else dictGet n' d := by
  induction d with
  | nil => simp [dictGet]
  | cons p rest ih =>
    obtain ⟨pn, pv⟩ := p
    by_cases h1 : pn = n
    · subst h1
      by_cases h2 : n' = pn
      · subst h2; simp [List.filter, dictGet] at ih ⊢; exact ih
      · have h2' : ¬ pn = n' := fun h => h2 h.symm
        simp [List.filter, dictGet, h2, h2'] at ih ⊢; exact ih
    · by_cases h2 : n' = n
      · subst h2; simp [List.filter, h1, dictGet] at ih ⊢; exact ih
      · simp only [List.filter, h1, ne_eq, not_false_eq_true, decide_true, dictGet, h2, if_false] at ih ⊢
        split
        · rfl
        · exact ih

/-- the dict stored under the cookie's own key after an accepted Set-Cookie -/
def newDict (cur : Option Dict) (c : Cookie) : Option Dict :=
  match cur with
  | none => if c.expired then none else some [(c.name, c.value)]
  | some d =>
    if c.expired then
      (if d.filter (fun p => decide (p.1 ≠ c.name)) = [] then none else some (d.filter (fun p => decide (p.1 ≠ c.name))))
    else some (dictSet c.name c.value d)

theorem jarLookup_setCookie (jar : Jar) (host : Bytes) (port : Nat) (c : Cookie) (k' : JKey)
    (hdm : implDomainMatch host (ckey c host port).domain = true) :
    jarLookup k' (setCookie jar host port c) =
      if k' = ckey c host port then newDict (jarLookup (ckey c host port) jar) c else jarLookup k' jar := by
  unfold setCookie
  simp only [hdm, if_true]
  cases hl : jarLookup (ckey c host port) jar with
  | none =>
    by_cases hexp : c.expired = true
    · simp only [hexp, if_true, newDict]
      split
      · rename_i hk; rw [hk, hl]
      · rfl
    · simp only [hexp, Bool.false_eq_true, if_false, newDict]
      rw [jarLookup_append]
      by_cases hk : k' = ckey c host port
      · subst hk; simp [hl]
      · have hk' : ¬ ckey c host port = k' := fun h => hk h.symm
        simp only [hk, hk', if_false]
        cases jarLookup k' jar <;> rfl
  | some d =>
    by_cases hexp : c.expired = true
    · simp only [hexp, if_true, newDict]
      by_cases hnil : d.filter (fun p => decide (p.1 ≠ c.name)) = []
      · simp only [hnil, if_true]
        rw [jarLookup_filter_ne]
      · simp only [hnil, if_false]
        rw [jarLookup_map_replace, hl]; rfl
    · simp only [hexp, Bool.false_eq_true, if_false, newDict]
      rw [jarLookup_map_replace, hl]; rfl

theorem dictGet_newDict (cur : Option Dict) (c : Cookie) (n : Bytes) :
    (newDict cur c).bind (dictGet n) =
      if c.name = n then (if c.expired then none else some c.value) else cur.bind (dictGet n) := by
  have hfl := dictGet_filter_ne n c.name
  cases cur with
  | none =>
    simp only [newDict]
    by_cases hexp : c.expired = true
    · simp [hexp]
    · simp only [hexp, Bool.false_eq_true, if_false, Option.bind_some, Option.bind_none, dictGet]
  | some d =>
    simp only [newDict]
    by_cases hexp : c.expired = true
    · simp only [hexp, if_true]
      by_cases hnil : d.filter (fun p => decide (p.1 ≠ c.name)) = []
      · simp only [hnil, if_true, Option.bind_none, Option.bind_some]
        have := hfl d
        rw [hnil] at this
        simp only [dictGet] at this
        by_cases hn : c.name = n
        · simp [hn]
        · have hn' : ¬ n = c.name := fun h => hn h.symm
          simp only [hn, hn', if_false] at this ⊢
          exact this
      · simp only [hnil, if_false, Option.bind_some]
        rw [hfl d]
        by_cases hn : c.name = n
        · simp [hn]
        · have hn' : ¬ n = c.name := fun h => hn h.symm
          simp [hn, hn']
    · simp only [hexp, Bool.false_eq_true, if_false, Option.bind_some]
      rw [dictGet_dictSet]
      by_cases hn : c.name = n
      · simp [hn]
      · have hn' : ¬ n = c.name := fun h => hn h.symm
        simp [hn, hn']

/-- one Set-Cookie changes exactly the slot `(ckey, name)`, as `writeCookie` says -/
theorem jarGet_setCookie (jar : Jar) (host : Bytes) (port : Nat) (c : Cookie) (k : JKey) (n : Bytes) :
    jarGet (setCookie jar host port c) k n = writeCookie host port k n (jarGet jar k n) c := by
  unfold writeCookie jarGet
  by_cases hdm : implDomainMatch host (ckey c host port).domain = true
  · rw [jarLookup_setCookie jar host port c k hdm]
    simp only [hdm, Bool.true_and]
    by_cases hk : k = ckey c host port
    · subst hk
      simp only [if_true, decide_true, Bool.true_and, dictGet_newDict]
      by_cases hn : c.name = n <;> simp [hn]
    · have hk' : ¬ ckey c host port = k := fun h => hk h.symm
      simp [hk, hk']
  · have : setCookie jar host port c = jar := by
      unfold setCookie; simp [hdm]
    rw [this]; simp [hdm]

theorem jarGet_response (cs : List Cookie) : ∀ (jar : Jar) (host : Bytes) (port : Nat) (k : JKey) (n : Bytes),
    jarGet (response jar host port cs) k n = cs.foldl (writeCookie host port k n) (jarGet jar k n) := by
  induction cs with
  | nil => intro jar host port k n; rfl
  | cons c cs ih =>
    intro jar host port k n
    simp only [response, List.foldl_cons] at ih ⊢
    rw [ih, jarGet_setCookie]

theorem jarGet_run (evs : List Event) : ∀ (jar : Jar) (k : JKey) (n : Bytes),
    jarGet (runJar jar evs) k n = lastWriteFrom (jarGet jar k n) evs k n := by
  induction evs with
  | nil => intro jar k n; rfl
  | cons ev evs ih =>
    intro jar k n
    simp only [runJar, lastWriteFrom, List.foldl_cons] at ih ⊢
    rw [ih]
    cases ev with
    | resp host port cs => simp only [stepJar]; rw [jarGet_response]
    | req f h p pa => rfl

/-! ### keys and cookie names stay unique (the association lists behave like Python dicts) -/

def JarWF (jar : Jar) : Prop :=
  (jar.map (·.1)).Nodup ∧ ∀ k d, (k, d) ∈ jar → (d.map (·.1)).Nodup

theorem dictSet_names (n : Bytes) (v : Val) (d : Dict) :
    (dictSet n v d).map (·.1) = if n ∈ d.map (·.1) then d.map (·.1) else d.map (·.1) ++ [n] := by
  induction d with
  | nil => simp [dictSet]
  | cons p rest ih =>
    obtain ⟨pn, pv⟩ := p
    simp only [dictSet]
    by_cases h1 : pn = n
    · subst h1; simp
    · have h1' : ¬ n = pn := fun h => h1 h.symm
      simp only [h1, if_false, List.map_cons, ih, List.mem_cons, h1', false_or]
      split <;> simp

theorem dictSet_nodup (n : Bytes) (v : Val) (d : Dict) (h : (d.map (·.1)).Nodup) : ((dictSet n v d).map (·.1)).Nodup := by
  rw [dictSet_names]
  split
  · exact h
  · rename_i hn
    rw [List.nodup_append]
    refine ⟨h, by simp, ?_⟩
    intro a ha b hb
    simp at hb; subst hb
    intro hab; subst hab; exact hn ha

theorem setCookie_wf {jar : Jar} (h : JarWF jar) (host : Bytes) (port : Nat) (c : Cookie) :
    JarWF (setCookie jar host port c) := by
  unfold setCookie
  simp only
  split
  · split
    · rename_i hl
      split
      · exact h
      · refine ⟨?_, ?_⟩
        · rw [List.map_append, List.nodup_append]
          refine ⟨h.1, by simp, ?_⟩
          intro a ha b hb
          simp at hb; subst hb
          intro hab; subst hab
          obtain ⟨p, hp, hpe⟩ := List.mem_map.mp ha
          exact jarLookup_none_not_mem hl p.2 (by rw [← hpe]; exact hp)
        · intro k d hkd
          rcases List.mem_append.mp hkd with h1 | h1
          · exact h.2 k d h1
          · simp at h1; rw [h1.2]; simp
    · rename_i d0 hl
      have hd0 := h.2 _ _ (jarLookup_mem hl)
      have hmapkeys : ∀ d', (jar.map (fun p => if p.1 = ckey c host port then (p.1, d') else p)).map (·.1) = jar.map (·.1) := by
        intro d'
        rw [List.map_map]
        apply List.map_congr_left
        intro p _
        simp only [Function.comp]
        split <;> rfl
      split
      · split
        · refine ⟨(List.filter_sublist.map _).nodup h.1, ?_⟩
          intro k d hkd
          exact h.2 k d (List.mem_filter.mp hkd).1
        · refine ⟨by rw [hmapkeys]; exact h.1, ?_⟩
          intro k d hkd
          obtain ⟨p, hp, hpe⟩ := List.mem_map.mp hkd
          split at hpe
          · simp at hpe; rw [← hpe.2]
            exact (List.filter_sublist.map _).nodup hd0
          · subst hpe; exact h.2 _ _ hp
      · refine ⟨by rw [hmapkeys]; exact h.1, ?_⟩
        intro k d hkd
        obtain ⟨p, hp, hpe⟩ := List.mem_map.mp hkd
        split at hpe
        · simp at hpe; rw [← hpe.2]
          exact dictSet_nodup _ _ _ hd0
        · subst hpe; exact h.2 _ _ hp
  · exact h

theorem response_wf (cs : List Cookie) : ∀ {jar : Jar}, JarWF jar → ∀ (host : Bytes) (port : Nat),
    JarWF (response jar host port cs) := by
  induction cs with
  | nil => intro jar h host port; exact h
  | cons c cs ih =>
    intro jar h host port
    simp only [response, List.foldl_cons]
    exact ih (setCookie_wf h host port c) host port

theorem run_wf (evs : List Event) : ∀ {jar : Jar}, JarWF jar → JarWF (runJar jar evs) := by
  induction evs with
  | nil => intro jar h; exact h
  | cons ev evs ih =>
    intro jar h
    simp only [runJar, List.foldl_cons]
    refine ih (jar := stepJar jar ev) ?_
    cases ev with
    | req f h' p' pa => exact h
    | resp host port cs => exact response_wf cs h host port

theorem jarLookup_of_mem_nodup {jar : Jar} (h : (jar.map (·.1)).Nodup) {k : JKey} {d : Dict} (hm : (k, d) ∈ jar) :
    jarLookup k jar = some d := by
  induction jar with
  | nil => simp at hm
  | cons p rest ih =>
    obtain ⟨pk, pd⟩ := p
    simp only [List.map_cons, List.nodup_cons] at h
    rcases List.mem_cons.mp hm with h1 | h1
    · simp at h1; simp [jarLookup, h1.1, h1.2]
    · have hne : ¬ pk = k := by
        intro heq; subst heq
        exact h.1 (List.mem_map.mpr ⟨(pk, d), h1, rfl⟩)
      simp only [jarLookup, hne, if_false]
      exact ih h.2 h1

theorem dictGet_of_mem_nodup {d : Dict} (h : (d.map (·.1)).Nodup) {n : Bytes} {v : Val} (hm : (n, v) ∈ d) :
    dictGet n d = some v := by
  induction d with
  | nil => simp at hm
  | cons p rest ih =>
    obtain ⟨pn, pv⟩ := p
    simp only [List.map_cons, List.nodup_cons] at h
    rcases List.mem_cons.mp hm with h1 | h1
    · simp at h1; simp [dictGet, h1.1, h1.2]
    · have hne : ¬ pn = n := by
        intro heq; subst heq
        exact h.1 (List.mem_map.mpr ⟨(pn, v), h1, rfl⟩)
      simp only [dictGet, hne, if_false]
      exact ih h.2 h1

end MitmVerif.C54
