/-
  C01 — HTTP/1 forwarding is framing-consistent.

  Executable model of the HTTP/1 parsing / assembling functions of mitmproxy (after the `fix:` commits recorded in
  known/C01.json):
    * h11 `ReceiveBuffer.maybe_extract_lines`                                   → `extractLines`
    * `net/http/http1/read.py` `_read_headers`, `_read_request_line`,
      `_read_response_line`, `expected_http_body_size`, `connection_close`      → `readHeaders`, `readRequestLine`, …
    * `net/http/validate.py` `validate_headers`, `parse_content_length`,
      `parse_transfer_encoding` (whitelist regenerated into `Gen/C01.lean`)     → `validateHeaders`, `parseCL`, `parseTE`
    * `net/http/http1/assemble.py` head assembly + the re-framing of
      `Http1Client.send` / `Http1Server.send`                                   → `assembleRequestHead`, `forwardRequest`, …
  and of the SPEC side: `Ref`, a strict RFC 9112 reader (twin of harness/common/refparsers.py).

  Library behaviour that is *not* modelled is a parameter: `authOk` (mitmproxy.net.http.url.parse_authority /
  url.parse accepting the authority of a request target).
-/
import MitmVerif.Basic.Bytes
import MitmVerif.Gen.C01
namespace MitmVerif.C01
open MitmVerif

abbrev Field := Bytes × Bytes

def cCR : UInt8 := 13
def cLF : UInt8 := 10
def cSP : UInt8 := 32
def cHT : UInt8 := 9
def cColon : UInt8 := 58
def cComma : UInt8 := 44

/-! ### byte-string helpers (Python `bytes` methods) -/

/-- `bytes.split(sep)` for a one-byte separator: always at least one piece -/
def splitOn (sep : UInt8) : Bytes → List Bytes
  | [] => [[]]
  | c :: rest =>
    if c = sep then [] :: splitOn sep rest
    else match splitOn sep rest with
      | [] => [[c]]
      | p :: ps => (c :: p) :: ps

def lstripBy (p : UInt8 → Bool) : Bytes → Bytes
  | [] => []
  | c :: rest => if p c then lstripBy p rest else c :: rest

def rstripBy (p : UInt8 → Bool) : Bytes → Bytes
  | [] => []
  | c :: rest =>
    match rstripBy p rest with
    | [] => if p c then [] else [c]
    | r :: rs => c :: r :: rs
def stripBy (p : UInt8 → Bool) (b : Bytes) : Bytes := rstripBy p (lstripBy p b)

/-- OWS = SP / HTAB -/
def isOws (c : UInt8) : Bool := c = 32 || c = 9
/-- what `_read_headers` strips from a value: SP HTAB CR LF -/
def isOwsNl (c : UInt8) : Bool := c = 32 || c = 9 || c = 13 || c = 10
/-- Python `bytes.split()` / `bytes.strip()` whitespace: SP HT LF VT FF CR -/
def isPyWs (c : UInt8) : Bool := c = 32 || (9 ≤ c.toNat && c.toNat ≤ 13)

def isDigit (c : UInt8) : Bool := 48 ≤ c.toNat && c.toNat ≤ 57
def isAlpha (c : UInt8) : Bool := (65 ≤ c.toNat && c.toNat ≤ 90) || (97 ≤ c.toNat && c.toNat ≤ 122)
/-- RFC 9110 tchar -/
def isTchar (c : UInt8) : Bool :=
  isDigit c || isAlpha c || c = 33 || c = 35 || c = 36 || c = 37 || c = 38 || c = 39 || c = 42 || c = 43 ||
  c = 45 || c = 46 || c = 94 || c = 95 || c = 96 || c = 124 || c = 126

def isToken (b : Bytes) : Bool := !b.isEmpty && b.all isTchar

def natOfDigits (b : Bytes) : Nat := b.foldl (fun n c => n * 10 + (c.toNat - 48)) 0

/-- `bytes.split()` (no argument): runs of non-whitespace -/
def splitWs : Bytes → List Bytes
  | [] => []
  | c :: rest =>
    if isPyWs c then splitWs rest
    else match rest with
      | [] => [[c]]
      | d :: _ =>
        if isPyWs d then [c] :: splitWs rest
        else match splitWs rest with
          | [] => [[c]]
          | p :: ps => (c :: p) :: ps

/-- `a in b` for byte strings -/
def containsSub (needle : Bytes) : Bytes → Bool
  | [] => needle.isEmpty
  | c :: rest => needle.isPrefixOf (c :: rest) || containsSub needle rest

def joinWith (sep : Bytes) : List Bytes → Bytes
  | [] => []
  | [x] => x
  | x :: xs => x ++ sep ++ joinWith sep xs

def sChunked : Bytes := [99, 104, 117, 110, 107, 101, 100]           -- "chunked"
def sTE : Bytes := [116,114,97,110,115,102,101,114,45,101,110,99,111,100,105,110,103]   -- "transfer-encoding"
def sCL : Bytes := [99,111,110,116,101,110,116,45,108,101,110,103,116,104]              -- "content-length"
def sConnection : Bytes := [99,111,110,110,101,99,116,105,111,110]
def sClose : Bytes := [99,108,111,115,101]
def sKeepAlive : Bytes := [107,101,101,112,45,97,108,105,118,101]
def sHEAD : Bytes := [72,69,65,68]
def sCONNECT : Bytes := [67,79,78,78,69,67,84]
def sHttp11 : Bytes := [72,84,84,80,47,49,46,49]
def crlf : Bytes := [13, 10]
def colonSp : Bytes := [58, 32]
def commaSp : Bytes := [44, 32]
def foldSep : Bytes := [13, 10, 32]     -- how `_read_headers` joins a continuation line

/-! ### h11 ReceiveBuffer.maybe_extract_lines -/

/-- length of a match of `\n\r?\n` at the start of `b` -/
def blankAt : Bytes → Option Nat
  | a :: b :: rest =>
    if a = 10 ∧ b = 10 then some 2
    else if a = 10 ∧ b = 13 then (match rest with | c :: _ => if c = 10 then some 3 else none | [] => none)
    else none
  | _ => none

/-- end offset of the first match of `\n\r?\n` -/
def findBlank : Bytes → Option Nat
  | [] => none
  | c :: rest =>
    match blankAt (c :: rest) with
    | some n => some n
    | none => (findBlank rest).map (· + 1)

def stripOneCR (l : Bytes) : Bytes :=
  match l.getLast? with
  | some c => if c = 13 then l.dropLast else l
  | none => l

inductive Extract where
  | more                                  -- `None`: need more data
  | blank (rest : Bytes)                  -- `[]`: an immediate empty line was consumed
  | lines (ls : List Bytes) (rest : Bytes)
  deriving Repr, DecidableEq

def extractLines (buf : Bytes) : Extract :=
  match buf with
  | a :: rest =>
    if a = 10 then .blank rest
    else if a = 13 ∧ rest.head? = some 10 then .blank rest.tail
    else match findBlank buf with
      | none => .more
      | some idx =>
        let ls := (splitOn 10 (buf.take idx)).map stripOneCR
        .lines (ls.dropLast.dropLast) (buf.drop idx)
  | [] => .more

/-! ### read.py -/

/-- `_read_headers`; `none` = ValueError -/
def readHeadersAux : List Bytes → List Field → Option (List Field)
  | [], acc => some acc.reverse
  | line :: rest, acc =>
    match line with
    | [] => none                       -- cannot happen for lines produced by `extractLines`
    | c :: _ =>
      if c = 32 ∨ c = 9 then
        match acc with
        | [] => none
        | (n, v) :: acc' => readHeadersAux rest ((n, v ++ foldSep ++ stripBy isOwsNl line) :: acc')
      else
        match splitOn 58 line with
        | name :: p :: ps =>
          if name.isEmpty then none
          else readHeadersAux rest ((name, stripBy isOwsNl (joinWith [58] (p :: ps))) :: acc)
        | _ => none

def readHeaders (lines : List Bytes) : Option (List Field) := readHeadersAux lines []

/-- `^HTTP/\d\.\d$` -/
def versionOk (v : Bytes) : Bool :=
  match v with
  | [72, 84, 84, 80, 47, a, 46, b] => isDigit a && isDigit b
  | _ => false

structure ReqHead where
  method : Bytes
  scheme : Bytes
  authority : Bytes
  path : Bytes
  version : Bytes
  fields : List Field
  deriving Repr, DecidableEq

structure RespHead where
  version : Bytes
  status : Nat
  reason : Bytes
  fields : List Field
  deriving Repr, DecidableEq

/-- position of the first occurrence of "://" : (before, after) -/
def splitScheme : Bytes → Option (Bytes × Bytes)
  | [] => none
  | c :: rest =>
    if [58, 47, 47].isPrefixOf (c :: rest) then some ([], rest.drop 2)
    else (splitScheme rest).map fun (a, b) => (c :: a, b)

def sHttp : Bytes := [104, 116, 116, 112]
def sHttps : Bytes := [104, 116, 116, 112, 115]

/-- `_read_request_line`; `authOk scheme authority` stands for url.parse_authority(check=True) giving a host and
    (with the scheme's default) a port, and url.parse accepting the target. -/
def readRequestLine (authOk : Bytes → Bytes → Bool) (line : Bytes) : Option ReqHead :=
  match splitWs line with
  | [method, target, version] =>
    if !versionOk version then none
    else if target = [42] ∨ target.head? = some 47 then
      some ⟨method, [], [], target, version, []⟩
    else if method = sCONNECT then
      if authOk [] target then some ⟨method, [], target, [], version, []⟩ else none
    else
      match splitScheme target with
      | none => none
      | some (scheme, rest) =>
        let scheme := asciiLower scheme
        let authority := rest.takeWhile (· ≠ 47)
        let path := (47 : UInt8) :: (rest.dropWhile (· ≠ 47)).drop 1
        if authOk scheme authority then some ⟨method, scheme, authority, path, version, []⟩ else none
  | _ => none

/-- `line.split(None, 2)` -/
def splitWs2 (line : Bytes) : List Bytes :=
  let l1 := lstripBy isPyWs line
  if l1.isEmpty then [] else
  let a := l1.takeWhile (fun c => !isPyWs c)
  let r1 := lstripBy isPyWs (l1.dropWhile (fun c => !isPyWs c))
  if r1.isEmpty then [a] else
  let b := r1.takeWhile (fun c => !isPyWs c)
  let r2 := lstripBy isPyWs (r1.dropWhile (fun c => !isPyWs c))
  if r2.isEmpty then [a, b] else [a, b, r2]

/-- `_read_response_line` (status-code must be `[1-9]\d\d`) -/
def readResponseLine (line : Bytes) : Option RespHead :=
  let go (v s reason : Bytes) : Option RespHead :=
    match s with
    | [a, b, c] =>
      if isDigit a && a ≠ 48 && isDigit b && isDigit c && versionOk v then
        some ⟨v, natOfDigits s, reason, []⟩ else none
    | _ => none
  match splitWs2 line with
  | [v, s] => go v s []
  | [v, s, r] => go v s r
  | _ => none

def readRequestHead (authOk : Bytes → Bytes → Bool) (lines : List Bytes) : Option ReqHead :=
  match lines with
  | [] => none
  | l :: rest =>
    match readRequestLine authOk l, readHeaders rest with
    | some h, some fs => some { h with fields := fs }
    | _, _ => none

def readResponseHead (lines : List Bytes) : Option RespHead :=
  match lines with
  | [] => none
  | l :: rest =>
    match readResponseLine l, readHeaders rest with
    | some h, some fs => some { h with fields := fs }
    | _, _ => none

/-! ### Headers (multidict) -/

def getAll (fs : List Field) (lname : Bytes) : List Bytes :=
  (fs.filter fun f => asciiLower f.1 = lname).map (·.2)

/-- `headers.get(name)`: all values joined with ", " ; `none` if absent -/
def getJoined (fs : List Field) (lname : Bytes) : Option Bytes :=
  match getAll fs lname with
  | [] => none
  | vs => some (joinWith commaSp vs)

/-! ### validate.py -/

/-- Python's `$` also matches just before one trailing "\n" -/
def dropFinalLF (v : Bytes) : Bytes :=
  match v.getLast? with
  | some c => if c = 10 then v.dropLast else v
  | none => v

def clDigits (v : Bytes) : Option Nat :=
  match v with
  | [] => none
  | [48] => some 0
  | c :: rest => if isDigit c && c ≠ 48 && rest.all isDigit then some (natOfDigits v) else none

/-- `^(?:0|[1-9][0-9]*)$` followed by `int()` -/
def parseCL (v : Bytes) : Option Nat := clDigits (dropFinalLF v)

/-- `^[!#$%&'*+\-.^_`|~0-9a-zA-Z]+$` -/
def nameOk (n : Bytes) : Bool := isToken (dropFinalLF n)

/-- `re.sub(r"[\t ]*,[\t ]*", ",", te)`: the comma-separated pieces, whitespace next to a comma removed -/
def teNormalize (v : Bytes) : Bytes :=
  let ps := splitOn 44 v
  match ps with
  | [] => []
  | [p] => p
  | p :: rest =>
    let mid := rest.dropLast.map (stripBy isOws)
    let last := match rest.getLast? with | some l => lstripBy isOws l | none => []
    joinWith [44] (rstripBy isOws p :: mid ++ [last])

inductive TE where
  | chunkedFinal        -- "chunked" | "compress,chunked" | "deflate,chunked" | "gzip,chunked"
  | other               -- "compress" | "deflate" | "gzip" | "identity"
  deriving Repr, DecidableEq

/-- `parse_transfer_encoding` over the regenerated whitelist -/
def parseTE (v : Bytes) : Option (TE × Bytes) :=
  if !v.all (fun c => c.toNat < 128) then none
  else
    let te := teNormalize (asciiLower v)
    if Gen.C01.teChunked.contains te then some (.chunkedFinal, te)
    else if Gen.C01.teOther.contains te then some (.other, te)
    else none

/-- `_invalid_header_value`: NUL, CR not followed by LF, LF not followed by SP/HTAB -/
def valueOk : Bytes → Bool
  | [] => true
  | c :: rest =>
    if c = 0 then false
    else if c = 13 then (match rest with | d :: _ => d = 10 && valueOk rest | [] => false)
    else if c = 10 then (match rest with | d :: _ => (d = 32 || d = 9) && valueOk rest | [] => false)
    else valueOk rest

inductive Kind where
  | request
  | response (status : Nat)
  deriving Repr, DecidableEq

/-- `validate_headers(message)`; `true` = no ValueError -/
def validateHeaders (kind : Kind) (version reason : Bytes) (fs : List Field) : Bool :=
  (match kind with | .response _ => valueOk reason | .request => true) &&
  fs.all (fun f => nameOk f.1 && valueOk f.2) &&
  (let te := getAll fs sTE
   let cl := getAll fs sCL
   if !te.isEmpty && !cl.isEmpty then false
   else match te with
     | t :: more =>
       more.isEmpty && version = sHttp11 &&
       (match kind with | .response st => !((100 ≤ st && st ≤ 199) || st = 204) | .request => true) &&
       (match parseTE t with
        | some (.chunkedFinal, _) => true
        | some (.other, _) => (match kind with | .request => false | .response _ => true)
        | none => false)
     | [] =>
       match cl with
       | c :: more => more.isEmpty && (parseCL c).isSome
       | [] => true)

/-! ### expected_http_body_size -/

inductive BodySize where
  | len (n : Nat)
  | chunked
  | untilEof
  deriving Repr, DecidableEq

/-- the part of `expected_http_body_size` after the status/method shortcuts (steps 3–7); `none` = ValueError -/
def sizeFromHeaders (isResponse : Bool) (fs : List Field) : Option BodySize :=
  let clPart : Option BodySize :=
    match getJoined fs sCL with
    | some cl => if cl.isEmpty then (if isResponse then some .untilEof else some (.len 0))
                 else (parseCL cl).map .len
    | none => if isResponse then some .untilEof else some (.len 0)
  match getJoined fs sTE with
  | some te =>
    if te.isEmpty then clPart
    else match parseTE te with
      | none => none
      | some (.chunkedFinal, _) => some .chunked
      | some (.other, t) =>
        if isResponse then some .untilEof
        else if t = Gen.C01.teIdentity ∨ (getAll fs sCL).length > 0 then clPart
        else some .untilEof
  | none => clPart

def requestBodySize (r : ReqHead) : Option BodySize := sizeFromHeaders false r.fields

def responseBodySize (reqMethod : Bytes) (r : RespHead) : Option BodySize :=
  if asciiUpper reqMethod = sHEAD then some (.len 0)
  else if 100 ≤ r.status ∧ r.status ≤ 199 then some (.len 0)
  else if r.status = 204 ∨ r.status = 304 then some (.len 0)
  else if 200 ≤ r.status ∧ r.status ≤ 299 ∧ asciiUpper reqMethod = sCONNECT then some (.len 0)
  else sizeFromHeaders true r.fields

/-- `str.strip()` whitespace on the ASCII range (the header value is a `str` here): TAB LF VT FF CR, FS GS RS US, SP.
    Non-ASCII values (U+0085, U+00A0, … are whitespace for `str.strip` too) are outside the model: the harness does not
    compare the keep/close verdict for them. -/
def isStrWs (c : UInt8) : Bool := c = 32 || (9 ≤ c.toNat && c.toNat ≤ 13) || (28 ≤ c.toNat && c.toNat ≤ 31)

/-- `connection_close(http_version, headers)` -/
def connectionClose (version : Bytes) (fs : List Field) : Bool :=
  let toks := match getJoined fs sConnection with
    | some v => (splitOn 44 v).map (stripBy isStrWs)
    | none => []
  if toks.contains sClose then true
  else if toks.contains sKeepAlive then false
  else !(version = sHttp11 ∨ version = [72,84,84,80,47,50,46,48])

/-! ### assemble.py and the re-framing on send -/

def assembleFields : List Field → Bytes
  | [] => []
  | (n, v) :: rest => n ++ colonSp ++ v ++ crlf ++ assembleFields rest

def requestTarget (r : ReqHead) : Bytes :=
  if asciiUpper r.method = sCONNECT then r.authority
  else if !r.authority.isEmpty then r.scheme ++ [58, 47, 47] ++ r.authority ++ r.path
  else r.path

def assembleRequestHead (r : ReqHead) : Bytes :=
  r.method ++ [32] ++ requestTarget r ++ [32] ++ r.version ++ crlf ++ assembleFields r.fields ++ crlf

/-- `b"%d" % status` on the domain of status codes the HTTP/1 reader produces (`[1-9]\d\d`, i.e. 100..999): three digits -/
def decDigits (n : Nat) : Bytes :=
  [UInt8.ofNat (48 + n / 100 % 10), UInt8.ofNat (48 + n / 10 % 10), UInt8.ofNat (48 + n % 10)]

def assembleResponseHead (r : RespHead) : Bytes :=
  r.version ++ [32] ++ decDigits r.status ++ [32] ++ r.reason ++ crlf ++ assembleFields r.fields ++ crlf

def hexDigit (n : Nat) : UInt8 := if n < 10 then UInt8.ofNat (48 + n) else UInt8.ofNat (87 + n)

def hexDigitsAux : Nat → Nat → Bytes → Bytes
  | 0, _, acc => acc
  | f + 1, n, acc => if n < 16 then hexDigit n :: acc else hexDigitsAux f (n / 16) (hexDigit (n % 16) :: acc)

/-- `b"%x" % n` -/
def hexDigits (n : Nat) : Bytes := hexDigitsAux (n + 1) n []

/-- `"chunked" in headers.get("transfer-encoding", "").lower()` -/
def sendsChunked (fs : List Field) : Bool :=
  match getJoined fs sTE with
  | some v => containsSub sChunked (asciiLower v)
  | none => false

def chunk (data : Bytes) : Bytes := hexDigits data.length ++ crlf ++ data ++ crlf
def lastChunk : Bytes := [48, 13, 10, 13, 10]

/-- what `Http1Client.send` writes for RequestHeaders, RequestData(body) (buffered: one data event, skipped when
    empty), RequestEndOfMessage -/
def forwardRequest (r : ReqHead) (body : Bytes) : Bytes :=
  assembleRequestHead r ++
  (if sendsChunked r.fields then (if body.isEmpty then [] else chunk body) ++ lastChunk else body)

def noBodyStatus (st : Nat) : Bool := (100 ≤ st && st ≤ 199) || st = 204 || st = 304

/-- what `Http1Server.send` writes for ResponseHeaders, ResponseData(body), ResponseEndOfMessage: data is not written
    for a response to HEAD or a 204/304 (nor when empty); the last-chunk not for HEAD / 1xx / 204 / 304 -/
def relayResponse (reqMethod : Bytes) (r : RespHead) (body : Bytes) : Bytes :=
  let dataWritten : Bool := !body.isEmpty && !(asciiUpper reqMethod = sHEAD || r.status = 204 || r.status = 304)
  assembleResponseHead r ++
  (if sendsChunked r.fields then
     (if dataWritten then chunk body else []) ++
     (if asciiUpper reqMethod ≠ sHEAD ∧ !noBodyStatus r.status then lastChunk else [])
   else (if dataWritten then body else []))

/-! ### SPEC: strict RFC 9112 reference reader (twin of harness/common/refparsers.py) -/
namespace Ref

inductive Err where
  | incomplete
  | malformed
  | ambiguous (cls : Nat)
  deriving Repr, DecidableEq

/- ambiguity classes -/
def cBadName : Nat := 1
def cClTe : Nat := 2
def cTeUnknown : Nat := 3
def cTeNotFinal : Nat := 4
def cTeHttp10 : Nat := 5
def cTe1xx204 : Nat := 6
def cTeReqNotChunked : Nat := 7
def cClMalformed : Nat := 8
def cClConflict : Nat := 9

/-- one head line: up to LF, an optional CR before it removed; a CR anywhere else in the line is a bare CR.
    `none` = no LF yet. -/
def takeLine : Bytes → Option (Except Unit Bytes × Bytes)
  | [] => none
  | c :: rest =>
    if c = 10 then some (.ok [], rest)
    else if c = 13 then
      match rest with
      | d :: rest' => if d = 10 then some (.ok [], rest') else
          (match takeLine rest with | some (_, r) => some (.error (), r) | none => none)
      | [] => none
    else match takeLine rest with
      | some (.ok l, r) => some (.ok (c :: l), r)
      | some (.error e, r) => some (.error e, r)
      | none => none

/-- the lines of a head up to and excluding the empty line (fuel = buffer length) -/
def headLines : Nat → Bytes → Except Err (List Bytes × Bytes)
  | 0, _ => .error .incomplete
  | f + 1, b =>
    match takeLine b with
    | none => .error .incomplete
    | some (.error _, _) => .error .malformed
    | some (.ok l, rest) =>
      if l.isEmpty then .ok ([], rest)
      else match headLines f rest with
        | .ok (ls, r) => .ok (l :: ls, r)
        | .error e => .error e

/-- field lines → fields; obs-fold joined with one SP, OWS removed (see `unfold` in refparsers.py) -/
def fieldsAux : List Bytes → List Field → Except Err (List Field)
  | [], acc => .ok acc.reverse
  | line :: rest, acc =>
    match line with
    | [] => .error .malformed
    | c :: _ =>
      if c = 32 ∨ c = 9 then
        match acc with
        | [] => .error .malformed
        | (n, v) :: acc' => fieldsAux rest ((n, stripBy isOws (v ++ [32] ++ stripBy isOws line)) :: acc')
      else
        match splitOn 58 line with
        | name :: p :: ps =>
          if !isToken name then .error (.ambiguous cBadName)
          else fieldsAux rest ((name, stripBy isOws (joinWith [58] (p :: ps))) :: acc)
        | _ => .error .malformed

def fields (lines : List Bytes) : Except Err (List Field) :=
  match fieldsAux lines [] with
  | .ok fs => if fs.all (fun f => !f.2.contains 0) then .ok fs else .error .malformed
  | .error e => .error e

def knownCodings : List Bytes := Gen.C01.refCodings

inductive Framing where
  | none
  | cl (n : Nat)
  | chunked
  | eof
  deriving Repr, DecidableEq

def allDigits (b : Bytes) : Bool := !b.isEmpty && b.all isDigit

def codingsOf (te : List Bytes) : List Bytes :=
  (te.flatMap (splitOn 44)).map (fun c => asciiLower (stripBy isOws c))

/-- Transfer-Encoding checks of §6.1/§6.3 on the list of codings: `some cls` = ambiguous -/
def teErrorC (codings : List Bytes) (version : Bytes) (kind : Kind) : Option Nat :=
  if codings.any (fun c => !knownCodings.contains c) then some cTeUnknown
  else if codings.count sChunked > 1 ∨ (codings.contains sChunked ∧ codings.getLast? ≠ some sChunked) then some cTeNotFinal
  else if version ≠ sHttp11 then some cTeHttp10
  else match kind with
    | .response st => if (100 ≤ st && st ≤ 199) || st = 204 then some cTe1xx204 else none
    | .request => if codings.getLast? ≠ some sChunked then some cTeReqNotChunked else none

def teError (te : List Bytes) (version : Bytes) (kind : Kind) : Option Nat :=
  if te.isEmpty then none else teErrorC (codingsOf te) version kind

def clItems (cl : List Bytes) : List Bytes := (cl.flatMap (splitOn 44)).map (stripBy isOws)

def clError (cl : List Bytes) : Option Nat :=
  let items := clItems cl
  if !cl.isEmpty && items.any (fun c => !allDigits c) then some cClMalformed
  else if !cl.isEmpty && (items.map natOfDigits).any (fun n => some n ≠ (items.map natOfDigits).head?) then some cClConflict
  else none

def noBody (kind : Kind) (reqMethod : Bytes) : Bool :=
  match kind with
  | .response st => asciiUpper reqMethod = sHEAD || noBodyStatus st ||
                    (asciiUpper reqMethod = sCONNECT && 200 ≤ st && st ≤ 299)
  | .request => false

/-- RFC 9112 §6.3 -/
def framing (fs : List Field) (version : Bytes) (kind : Kind) (reqMethod : Bytes) : Except Err Framing :=
  let te := getAll fs sTE
  let cl := getAll fs sCL
  if !te.isEmpty && !cl.isEmpty then .error (.ambiguous cClTe) else
  match teError te version kind with
  | some c => .error (.ambiguous c)
  | none =>
    match clError cl with
    | some c => .error (.ambiguous c)
    | none =>
      if noBody kind reqMethod then .ok .none
      else if !te.isEmpty then (if (codingsOf te).getLast? = some sChunked then .ok .chunked else .ok .eof)
      else match ((clItems cl).map natOfDigits).head? with
        | some n => .ok (.cl n)
        | none => match kind with | .request => .ok .none | .response _ => .ok .eof

def isHex (c : UInt8) : Bool := isDigit c || (65 ≤ c.toNat && c.toNat ≤ 70) || (97 ≤ c.toNat && c.toNat ≤ 102)
def hexVal (c : UInt8) : Nat := if isDigit c then c.toNat - 48 else if c.toNat ≥ 97 then c.toNat - 87 else c.toNat - 55

/-- a CRLF-terminated line (strict): `none` = no CRLF yet; bare LF before it → malformed -/
def takeCrlfLine : Bytes → Option (Except Unit Bytes × Bytes)
  | [] => none
  | c :: rest =>
    if c = 13 then
      match rest with
      | d :: rest' => if d = 10 then some (.ok [], rest') else
          (match takeCrlfLine rest with | some (_, r) => some (.error (), r) | none => none)
      | [] => none
    else if c = 10 then some (.error (), rest)
    else match takeCrlfLine rest with
      | some (.ok l, r) => some (.ok (c :: l), r)
      | some (.error e, r) => some (.error e, r)
      | none => none

/-- chunked body §7.1 (fuel = buffer length): returns decoded body and the rest -/
def chunkedBody : Nat → Bytes → Bytes → Bool → Except Err (Bytes × Bytes)
  | 0, _, _, _ => .error .incomplete
  | f + 1, b, acc, inTrailer =>
    match takeCrlfLine b with
    | none => if b.contains 10 then .error .malformed else .error .incomplete
    | some (.error _, _) => .error .malformed
    | some (.ok line, rest) =>
      if inTrailer then
        if line.isEmpty then .ok (acc, rest)
        else match splitOn 58 line with
          | name :: _ :: _ => if isToken name && !line.contains 0 then chunkedBody f rest acc true else .error .malformed
          | _ => .error .malformed
      else
        let size := line.takeWhile isHex
        let ext := line.dropWhile isHex
        if size.isEmpty then .error .malformed
        else if !(ext.isEmpty || ext.head? = some 59) || ext.contains 0 then .error .malformed
        else
          let n := size.foldl (fun a c => a * 16 + hexVal c) 0
          if n = 0 then chunkedBody f rest acc true
          else if rest.length < n + 2 then
            (if rest.length > n ∧ (rest.drop n).head? ≠ some 13 then .error .malformed else .error .incomplete)
          else if (rest.drop n).take 2 ≠ crlf then .error .malformed
          else chunkedBody f (rest.drop (n + 2)) (acc ++ rest.take n) false

structure Msg where
  a : Bytes          -- method | version
  b : Bytes          -- target | status digits
  c : Bytes          -- version | reason
  fields : List Field
  body : Bytes
  framing : Framing
  deriving Repr, DecidableEq

def noWs (b : Bytes) : Bool := !b.isEmpty && b.all (fun c => !(c = 9 || c = 11 || c = 12))

/-- request-line = method SP target SP version (single SP; parts are non-empty runs without other whitespace) -/
def requestLine (l : Bytes) : Option (Bytes × Bytes × Bytes) :=
  match splitOn 32 l with
  | [m, t, v] => if noWs m && noWs t && versionOk v then some (m, t, v) else none
  | _ => none

/-- status-line = version SP 3DIGIT [SP reason] -/
def statusLine (l : Bytes) : Option (Bytes × Nat × Bytes) :=
  let v := l.take 8
  let r := l.drop 8
  if !versionOk v then none else
  match r with
  | [sp, a, b, c] => if sp = 32 && isDigit a && isDigit b && isDigit c then some (v, natOfDigits [a, b, c], []) else none
  | sp :: a :: b :: c :: sp2 :: reason =>
    if sp = 32 && isDigit a && isDigit b && isDigit c && sp2 = 32 then some (v, natOfDigits [a, b, c], reason) else none
  | _ => none

/-- one request from the front of `data` -/
def parseRequest (data : Bytes) : Except Err (Msg × Bytes) :=
  match headLines (data.length + 1) data with
  | .error e => .error e
  | .ok ([], _) => .error .malformed
  | .ok (l :: ls, rest) =>
    match requestLine l with
    | none => .error .malformed
    | some (m, t, v) =>
      match fields ls with
      | .error e => .error e
      | .ok fs =>
        match framing fs v .request [] with
        | .error e => .error e
        | .ok .none => .ok (⟨m, t, v, fs, [], .none⟩, rest)
        | .ok (.cl n) => if rest.length < n then .error .incomplete else .ok (⟨m, t, v, fs, rest.take n, .cl n⟩, rest.drop n)
        | .ok .chunked =>
          (match chunkedBody (rest.length + 1) rest [] false with
           | .ok (body, r) => .ok (⟨m, t, v, fs, body, .chunked⟩, r)
           | .error e => .error e)
        | .ok .eof => .error .malformed     -- unreachable for requests

/-- one response from the front of `data`, in the context of the request method; `eof`: the stream has ended -/
def parseResponse (reqMethod : Bytes) (eof : Bool) (data : Bytes) : Except Err (Msg × Bytes) :=
  match headLines (data.length + 1) data with
  | .error e => .error e
  | .ok ([], _) => .error .malformed
  | .ok (l :: ls, rest) =>
    match statusLine l with
    | none => .error .malformed
    | some (v, st, reason) =>
      match fields ls with
      | .error e => .error e
      | .ok fs =>
        let digits := (l.drop 9).take 3
        match framing fs v (.response st) reqMethod with
        | .error e => .error e
        | .ok .none => .ok (⟨v, digits, reason, fs, [], .none⟩, rest)
        | .ok (.cl n) => if rest.length < n then .error .incomplete else .ok (⟨v, digits, reason, fs, rest.take n, .cl n⟩, rest.drop n)
        | .ok .chunked =>
          (match chunkedBody (rest.length + 1) rest [] false with
           | .ok (body, r) => .ok (⟨v, digits, reason, fs, body, .chunked⟩, r)
           | .error e => .error e)
        | .ok .eof => if eof then .ok (⟨v, digits, reason, fs, rest, .eof⟩, []) else .error .incomplete

/-- a stream of pipelined requests (fuel = length): messages read, and why reading stopped (`none` = consumed) -/
def parseRequests : Nat → Bytes → List Msg × Option Err
  | 0, _ => ([], none)
  | f + 1, data =>
    match data with
    | [] => ([], none)
    | a :: rest =>
      -- §2.2: empty lines before the request-line are ignored
      if a = 10 then parseRequests f rest
      else if a = 13 ∧ rest.head? = some 10 then parseRequests f rest.tail
      else match parseRequest data with
        | .error e => ([], some e)
        | .ok (m, r) =>
          let (ms, e) := parseRequests f r
          (m :: ms, e)

/-- the canonical reading of a recorded field value (refparsers.unfold) -/
def unfold (v : Bytes) : Bytes :=
  let parts := splitOn 10 v
  let parts := parts.dropLast.map stripOneCR ++ (match parts.getLast? with | some l => [l] | none => [])
  match parts.map (stripBy isOws) with
  | [] => []
  | p :: ps => ps.foldl (fun acc q => stripBy isOws (acc ++ [32] ++ q)) p

end Ref
end MitmVerif.C01
