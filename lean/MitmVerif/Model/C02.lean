/-
  C02 — HTTP/1 behaviour does not depend on TCP segmentation or pipelining.

  Model of the read side of `Http1Connection` (mitmproxy/proxy/layers/http/_http1.py, after the fix that makes
  `read_headers` skip leading blank lines in the same pass) as a buffered consumer:

    state      = (phase, buf)            `Http1Connection.state` + `Http1Connection.buf`
    head       `read_headers`: `buf.maybe_extract_lines()` (C01.extractLines), blank lines skipped in a loop,
               then the framing decision `sizeOf` (read_request_head + expected_http_body_size; `none` = ValueError → 400 + done)
    cl n acc   `read_body` with h11 `ContentLengthReader` (takes what is there, at most `n`); the data events are
               accumulated as `HttpStream.request_body_buf` does
    untilEof   `read_body` with h11 `Http10Reader` (takes everything)
    wait       `Http1Connection.wait`: bytes are only buffered until the flow is done (`release` = mark_done → next head)
    closed     `done`

  The h11 ChunkedReader is not part of this machine (requests whose framing decision is "chunked" are outside `sizeOf`):
  see Props/C02.lean for what is and is not covered.
-/
import MitmVerif.Model.C01
import MitmVerif.Basic.Seg
namespace MitmVerif.C02
open MitmVerif MitmVerif.C01

inductive Size where
  | len (n : Nat)
  | untilEof
  deriving Repr, DecidableEq

inductive Phase where
  | head
  | cl (remainingPred : Nat) (acc : Bytes) (hd : List Bytes)      -- remaining = remainingPred + 1 ≥ 1
  | untilEof (acc : Bytes) (hd : List Bytes)
  | wait
  | closed
  deriving Repr, DecidableEq

inductive Out where
  | msg (head : List Bytes) (body : Bytes)      -- a complete message: RequestHeaders … RequestEndOfMessage
  | reject (head : List Bytes)                  -- ValueError in read_request_head / expected_http_body_size
  deriving Repr, DecidableEq

/-- one iteration of the drain loop; `none` = nothing more can be done with what is buffered -/
def step (sizeOf : List Bytes → Option Size) (p : Phase) (b : Bytes) : Option (List Out × Phase × Bytes) :=
  match p with
  | .head =>
    match extractLines b with
    | .more => none
    | .blank rest => some ([], .head, rest)
    | .lines ls rest =>
      match sizeOf ls with
      | none => some ([.reject ls], .closed, rest)
      | some (.len 0) => some ([.msg ls []], .wait, rest)
      | some (.len (n + 1)) => some ([], .cl n [] ls, rest)
      | some .untilEof => some ([], .untilEof [] ls, rest)
  | .cl m acc hd =>
    if b.isEmpty then none
    else if m + 1 ≤ b.length then some ([.msg hd (acc ++ b.take (m + 1))], .wait, b.drop (m + 1))
    else some ([], .cl (m - b.length) (acc ++ b) hd, [])
  | .untilEof acc hd => if b.isEmpty then none else some ([], .untilEof (acc ++ b) hd, [])
  | .wait => none
  | .closed => none

/-- the `while True` loops of read_headers / read_body; every iteration consumes at least one byte -/
def drainF (sizeOf : List Bytes → Option Size) : Nat → Phase → Bytes → List Out × Phase × Bytes
  | 0, p, b => ([], p, b)
  | f + 1, p, b =>
    match step sizeOf p b with
    | none => ([], p, b)
    | some (o, p', r) =>
      let d := drainF sizeOf f p' r
      (o ++ d.1, d.2.1, d.2.2)

def drain (sizeOf : List Bytes → Option Size) (p : Phase) (b : Bytes) : List Out × Phase × Bytes :=
  drainF sizeOf b.length p b

structure St where
  phase : Phase
  buf : Bytes
  deriving Repr, DecidableEq

/-- `_handle_event(DataReceived)`: `self.buf += data; self.state(event)` -/
def feed (sizeOf : List Bytes → Option Size) (s : St) (data : Bytes) : St × List Out :=
  if data.isEmpty then (s, [])          -- the server never delivers an empty segment
  else
    let d := drain sizeOf s.phase (s.buf ++ data)
    (⟨d.2.1, d.2.2⟩, d.1)

/-- `mark_done` once the response has been sent: back to read_headers, and if bytes are buffered, process them -/
def release (sizeOf : List Bytes → Option Size) (s : St) : St × List Out :=
  match s.phase with
  | .wait => let d := drain sizeOf .head s.buf; (⟨d.2.1, d.2.2⟩, d.1)
  | _ => (s, [])

def machine (sizeOf : List Bytes → Option Size) : Incremental St Out := ⟨feed sizeOf⟩

/-- the machine *before* the fix (a blank line ends the pass: `if request_head:` is false for `[]`) -/
def stepOld (sizeOf : List Bytes → Option Size) (p : Phase) (b : Bytes) : Option (List Out × Phase × Bytes) × Bool :=
  match p, extractLines b with
  | .head, .blank rest => (some ([], .head, rest), true)       -- consumed, but the loop stops here
  | _, _ => (step sizeOf p b, false)

def drainOldF (sizeOf : List Bytes → Option Size) : Nat → Phase → Bytes → List Out × Phase × Bytes
  | 0, p, b => ([], p, b)
  | f + 1, p, b =>
    match stepOld sizeOf p b with
    | (none, _) => ([], p, b)
    | (some (o, p', r), true) => (o, p', r)
    | (some (o, p', r), false) =>
      let d := drainOldF sizeOf f p' r
      (o ++ d.1, d.2.1, d.2.2)

def feedOld (sizeOf : List Bytes → Option Size) (s : St) (data : Bytes) : St × List Out :=
  let d := drainOldF sizeOf (s.buf ++ data).length s.phase (s.buf ++ data)
  (⟨d.2.1, d.2.2⟩, d.1)

/-- the framing decision of the real code for requests, restricted to what this machine covers -/
def requestSize (lines : List Bytes) : Option Size :=
  match readRequestHead (fun _ _ => true) lines with
  | none => none
  | some r =>
    match requestBodySize r with
    | some (.len n) => some (.len n)
    | some .untilEof => some .untilEof
    | _ => none

end MitmVerif.C02
