/-
  C02 — HTTP/1 behaviour does not depend on TCP segmentation or pipelining.

  Model of the read side of `Http1Connection` (mitmproxy/proxy/layers/http/_http1.py, after the fix that makes
  `read_headers` skip leading blank lines in the same pass) as a buffered consumer:

    state      = (phase, buf)            `Http1Connection.state` + `Http1Connection.buf`
    head       `read_headers`: `buf.maybe_extract_lines()` (C01.extractLines), blank lines skipped in a loop,
               then the framing decision `sizeOf` (read_request_head + expected_http_body_size; `none` = ValueError → 400 + done)
    cl n acc   `read_body` with h11 `ContentLengthReader` (takes what is there, at most `n`); the data events are
               accumulated as `HttpStream.request_body_buf` does
    untilEof   `read_body` with h11 `Http10Reader` (takes everything)
    wait       `Http1Connection.wait`: bytes are only buffered until the flow is done (`release` = mark_done → next head)
    closed     `done`

    chunk…     the four sub-states of the h11 `ChunkedReader`: size line (`maybe_extract_next_line` + the `chunk_header`
               regex incl. extensions and trailing OWS), chunk data, the CR LF after the data (`_bytes_to_discard`, matched
               byte by byte here — h11 matches as many bytes as are there, which is the same under the drain loop), the
               trailer section (`maybe_extract_lines`; an empty one ends the message, anything else is the protocol error of
               fix 4f0e88849)
-/
import MitmVerif.Model.C01
import MitmVerif.Basic.Seg
namespace MitmVerif.C02
open MitmVerif MitmVerif.C01

inductive Size where
  | len (n : Nat)
  | untilEof
  | chunked
  | skip            -- Http1Client: an interim 1xx response is swallowed, the next head is read
  deriving Repr, DecidableEq

inductive Phase where
  | head
  | cl (remainingPred : Nat) (acc : Bytes) (hd : List Bytes)      -- remaining = remainingPred + 1 ≥ 1
  | untilEof (acc : Bytes) (hd : List Bytes)
  -- h11 ChunkedReader: `_bytes_in_chunk == 0` (size line next), `_bytes_in_chunk > 0`, `_bytes_to_discard`, `_reading_trailer`
  | chunkSize (acc : Bytes) (hd : List Bytes)
  | chunkData (remainingPred : Nat) (acc : Bytes) (hd : List Bytes)
  | chunkDiscard (e : UInt8) (es : Bytes) (acc : Bytes) (hd : List Bytes)     -- still to be matched: e :: es (a suffix of CR LF)
  | chunkTrailer (acc : Bytes) (hd : List Bytes)
  | wait
  | closed
  deriving Repr, DecidableEq

inductive Out where
  | msg (head : List Bytes) (body : Bytes)      -- a complete message: RequestHeaders … RequestEndOfMessage
  | reject (head : List Bytes)                  -- ValueError in read_request_head / expected_http_body_size
  | protoError (head : List Bytes)              -- h11 ProtocolError / trailers in read_body: CloseConnection + ProtocolError
  deriving Repr, DecidableEq

/-- end offset of the first CR LF (h11 `maybe_extract_next_line`) -/
def findCrlf : Bytes → Option Nat
  | [] => none
  | [_] => none
  | a :: b :: rest => if a = 13 ∧ b = 10 then some 2 else (findCrlf (b :: rest)).map (· + 1)

/-- h11 `chunk_header` regex on the line without its CR LF:
    `[0-9A-Fa-f]{1,20}(;.*)?[ \t]*` (`.` does not match LF) → chunk size -/
def chunkHeader (line : Bytes) : Option Nat :=
  let digits := line.takeWhile Ref.isHex
  let ext := line.dropWhile Ref.isHex
  if digits.isEmpty || digits.length > 20 then none
  else if ext.head? = some 59 then (if ext.contains 10 then none else some (digits.foldl (fun a c => a * 16 + Ref.hexVal c) 0))
  else if ext.all isOws then some (digits.foldl (fun a c => a * 16 + Ref.hexVal c) 0)
  else none

/-- one iteration of the drain loop; `none` = nothing more can be done with what is buffered -/
def step (sizeOf : List Bytes → Option Size) (p : Phase) (b : Bytes) : Option (List Out × Phase × Bytes) :=
  match p with
  | .head =>
    match extractLines b with
    | .more => none
    | .blank rest => some ([], .head, rest)
    | .lines ls rest =>
      match sizeOf ls with
      | none => some ([.reject ls], .closed, rest)
      | some (.len 0) => some ([.msg ls []], .wait, rest)
      | some (.len (n + 1)) => some ([], .cl n [] ls, rest)
      | some .untilEof => some ([], .untilEof [] ls, rest)
      | some .chunked => some ([], .chunkSize [] ls, rest)
      | some .skip => some ([], .head, rest)
  | .cl m acc hd =>
    if b.isEmpty then none
    else if m + 1 ≤ b.length then some ([.msg hd (acc ++ b.take (m + 1))], .wait, b.drop (m + 1))
    else some ([], .cl (m - b.length) (acc ++ b) hd, [])
  | .untilEof acc hd => if b.isEmpty then none else some ([], .untilEof (acc ++ b) hd, [])
  | .chunkSize acc hd =>
    match findCrlf b with
    | none => none
    | some idx =>
      match chunkHeader (b.take (idx - 2)) with
      | none => some ([.protoError hd], .closed, [])
      | some 0 => some ([], .chunkTrailer acc hd, b.drop idx)
      | some (n + 1) => some ([], .chunkData n acc hd, b.drop idx)
  | .chunkData m acc hd =>
    if b.isEmpty then none
    else if m + 1 ≤ b.length then some ([], .chunkDiscard 13 [10] (acc ++ b.take (m + 1)) hd, b.drop (m + 1))
    else some ([], .chunkData (m - b.length) (acc ++ b) hd, [])
  | .chunkDiscard e es acc hd =>
    match b with
    | [] => none
    | c :: rest =>
      if c ≠ e then some ([.protoError hd], .closed, [])
      else match es with
        | [] => some ([], .chunkSize acc hd, rest)
        | e' :: es' => some ([], .chunkDiscard e' es' acc hd, rest)
  | .chunkTrailer acc hd =>
    match extractLines b with
    | .more => none
    | .blank rest => some ([.msg hd acc], .wait, rest)
    | .lines _ _ => some ([.protoError hd], .closed, [])     -- trailers (or malformed trailer lines): protocol error
  | .wait => none
  | .closed => if b.isEmpty then none else some ([], .closed, [])      -- the connection is closed: nothing is read any more

/-- the `while True` loops of read_headers / read_body; every iteration consumes at least one byte -/
def drainF (sizeOf : List Bytes → Option Size) : Nat → Phase → Bytes → List Out × Phase × Bytes
  | 0, p, b => ([], p, b)
  | f + 1, p, b =>
    match step sizeOf p b with
    | none => ([], p, b)
    | some (o, p', r) =>
      let d := drainF sizeOf f p' r
      (o ++ d.1, d.2.1, d.2.2)

def drain (sizeOf : List Bytes → Option Size) (p : Phase) (b : Bytes) : List Out × Phase × Bytes :=
  drainF sizeOf b.length p b

structure St where
  phase : Phase
  buf : Bytes
  deriving Repr, DecidableEq

/-- `_handle_event(DataReceived)`: `self.buf += data; self.state(event)` -/
def feed (sizeOf : List Bytes → Option Size) (s : St) (data : Bytes) : St × List Out :=
  if data.isEmpty then (s, [])          -- the server never delivers an empty segment
  else
    let d := drain sizeOf s.phase (s.buf ++ data)
    (⟨d.2.1, d.2.2⟩, d.1)

/-- `mark_done` once the response has been sent: back to read_headers, and if bytes are buffered, process them -/
def release (sizeOf : List Bytes → Option Size) (s : St) : St × List Out :=
  match s.phase with
  | .wait => let d := drain sizeOf .head s.buf; (⟨d.2.1, d.2.2⟩, d.1)
  | _ => (s, [])

def machine (sizeOf : List Bytes → Option Size) : Incremental St Out := ⟨feed sizeOf⟩

/-- the machine *before* the fix (a blank line ends the pass: `if request_head:` is false for `[]`) -/
def stepOld (sizeOf : List Bytes → Option Size) (p : Phase) (b : Bytes) : Option (List Out × Phase × Bytes) × Bool :=
  match p, extractLines b with
  | .head, .blank rest => (some ([], .head, rest), true)       -- consumed, but the loop stops here
  | _, _ => (step sizeOf p b, false)

def drainOldF (sizeOf : List Bytes → Option Size) : Nat → Phase → Bytes → List Out × Phase × Bytes
  | 0, p, b => ([], p, b)
  | f + 1, p, b =>
    match stepOld sizeOf p b with
    | (none, _) => ([], p, b)
    | (some (o, p', r), true) => (o, p', r)
    | (some (o, p', r), false) =>
      let d := drainOldF sizeOf f p' r
      (o ++ d.1, d.2.1, d.2.2)

def feedOld (sizeOf : List Bytes → Option Size) (s : St) (data : Bytes) : St × List Out :=
  let d := drainOldF sizeOf (s.buf ++ data).length s.phase (s.buf ++ data)
  (⟨d.2.1, d.2.2⟩, d.1)

/-- the framing decision of the real code for requests, restricted to what this machine covers -/
def requestSize (lines : List Bytes) : Option Size :=
  match readRequestHead (fun _ _ => true) lines with
  | none => none
  | some r =>
    match requestBodySize r with
    | some (.len n) => some (.len n)
    | some .untilEof => some .untilEof
    | some .chunked => some .chunked
    | none => none

/-- the client side (`Http1Client.read_headers` for a request with method `reqMethod`): response head, interim 1xx
    swallowed, framing decision of `expected_http_body_size(request, response)`.  After the response the real code is idle
    until the next request is sent (`release`); bytes that arrive in between are the unsolicited data the real code
    answers by closing the connection — in this machine they stay buffered (`wait`), the causality assumption of C02
    excludes them. -/
def responseSize (reqMethod : Bytes) (lines : List Bytes) : Option Size :=
  match readResponseHead lines with
  | none => none
  | some r =>
    if 100 ≤ r.status ∧ r.status ≤ 199 ∧ r.status ≠ 101 then
      (match responseBodySize reqMethod r with | some _ => some .skip | none => none)
    else match responseBodySize reqMethod r with
      | some (.len n) => some (.len n)
      | some .untilEof => some .untilEof
      | some .chunked => some .chunked
      | none => none

/-- `HttpUpstreamProxy.receive_handshake_data` (after fix 10ec47d6b): the third inbound HTTP/1 reader — the parent proxy's
    reply to the CONNECT the proxy sent.  Only the head is read: a 2xx status opens the tunnel (`msg`; what is left in the
    buffer is handed to the tunnel, here it stays buffered in `wait`), any other status or a malformed head fails the
    connection attempt (`reject`, closed). -/
def handshakeSize (lines : List Bytes) : Option Size :=
  match readResponseHead lines with
  | none => none
  | some r => if 200 ≤ r.status ∧ r.status < 300 then some (.len 0) else none

/-! ### both connections together (buffered mode): merged schedules of client and server segments -/

/-- a segment arriving on the client connection / on the upstream connection -/
inductive Ev where
  | client (d : Bytes)
  | server (d : Bytes)
  deriving Repr, DecidableEq

inductive SysOut where
  | request (o : Out)        -- emitted by the reader of the client stream: forwarded upstream
  | response (o : Out)       -- emitted by the reader of the origin's stream: relayed to the client
  deriving Repr, DecidableEq

structure Sys where
  s : St        -- Http1Server: reads the client stream
  c : St        -- Http1Client: reads the origin's stream
  deriving Repr, DecidableEq

def hasMsg (os : List Out) : Bool := os.any fun o => match o with | .msg _ _ => true | _ => false

/-- the request has been forwarded: the upstream reader now expects a response head.  (Nothing is drained here: under
    causality nothing is buffered on an idle upstream connection — the real code closes it when something arrives.)
    The `| _ => c` branch is a totalising default; `Props.C02.expect_only_when_idle` shows it is never taken under `Inv`. -/
def expect (c : St) : St :=
  match c.phase with
  | .wait => ⟨.head, c.buf⟩
  | _ => c

/-- one received segment.  A completed request makes the upstream reader expect a response; a completed response finishes
    the flow: `mark_done` releases the reader of the client stream, which may complete the next pipelined request at once. -/
def sysStep (sizeQ sizeR : List Bytes → Option Size) (σ : Sys) : Ev → Sys × List SysOut
  | .client d =>
    let r := feed sizeQ σ.s d
    (⟨r.1, cond (hasMsg r.2) (expect σ.c) σ.c⟩, r.2.map .request)
  | .server e =>
    let r := feed sizeR σ.c e
    let q := release sizeQ σ.s
    cond (hasMsg r.2)
      (⟨q.1, cond (hasMsg q.2) (expect r.1) r.1⟩, r.2.map .response ++ q.2.map .request)
      (⟨σ.s, r.1⟩, r.2.map .response)

def sysRun (sizeQ sizeR : List Bytes → Option Size) (σ : Sys) : List Ev → Sys × List SysOut
  | [] => (σ, [])
  | ev :: rest =>
    let r := sysStep sizeQ sizeR σ ev
    let t := sysRun sizeQ sizeR r.1 rest
    (t.1, r.2 ++ t.2)

/-- causality (buffered mode): a segment of the origin arrives only while a request is outstanding, i.e. while the reader
    of the client stream waits for the flow to finish -/
def Causal (sizeQ sizeR : List Bytes → Option Size) (σ : Sys) : List Ev → Prop
  | [] => True
  | .client d :: rest => Causal sizeQ sizeR (sysStep sizeQ sizeR σ (.client d)).1 rest
  | .server e :: rest => σ.s.phase = .wait ∧ Causal sizeQ sizeR (sysStep sizeQ sizeR σ (.server e)).1 rest

/-- the environment's side of causality, stated on what the origin can observe: a segment of the origin arrives only while
    the upstream reader expects or reads a response (a request has been forwarded and not yet answered) -/
def Expected (sizeQ sizeR : List Bytes → Option Size) (σ : Sys) : List Ev → Prop
  | [] => True
  | .client d :: rest => Expected sizeQ sizeR (sysStep sizeQ sizeR σ (.client d)).1 rest
  | .server e :: rest => σ.c.phase ≠ .wait ∧ Expected sizeQ sizeR (sysStep sizeQ sizeR σ (.server e)).1 rest

/-- while a response is outstanding the reader of the client stream waits -/
def Inv (σ : Sys) : Prop := σ.c.phase ≠ .wait → σ.s.phase = .wait

def isMsg : Out → Bool
  | .msg _ _ => true
  | _ => false

/-- the completed messages among the outputs, in order: `true` = a request was forwarded, `false` = a response was relayed -/
def msgsOf : List SysOut → List Bool
  | [] => []
  | .request o :: rest => if isMsg o then true :: msgsOf rest else msgsOf rest
  | .response o :: rest => if isMsg o then false :: msgsOf rest else msgsOf rest

/-- `altEnd t l = some t'`: `l` alternates starting with `t`, and `t'` is what comes next -/
def altEnd : Bool → List Bool → Option Bool
  | t, [] => some t
  | t, x :: xs => if x = t then altEnd (!t) xs else none

def clientBytes : List Ev → Bytes
  | [] => []
  | .client d :: rest => d ++ clientBytes rest
  | .server _ :: rest => clientBytes rest

def serverEvs : List Ev → List Ev
  | [] => []
  | .client _ :: rest => serverEvs rest
  | .server e :: rest => .server e :: serverEvs rest

end MitmVerif.C02
