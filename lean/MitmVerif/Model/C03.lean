/-
  C03 — every HTTP flow has an ordered hook lifecycle and exactly one outcome.

  Model of `mitmproxy.proxy.layers.http.HttpStream` (one stream = one flow) together with the pause
  semantics of `mitmproxy.proxy.layer.Layer.handle_event` it runs under.

  * `Core` is the finite control state of one stream: `client_state × server_state`, the suspension point
    of the `_handle_event` generator (`K`, one constructor per blocking `yield`), the flow attributes the
    code branches on (`live`, `error`, `response`, `request.stream`, `response.stream`, `websocket`), plus
    ghost state: the hook monitor `Mon` and the event-grammar monitor (`bad`).
  * Bodies are abstracted to lengths: the concrete state `St` keeps `len(request_body_buf)`,
    `len(response_body_buf)` and the two size options; `check_body_size` becomes a `Verdict`.
  * Inputs are exactly what `HttpStream.handle_event` receives: the `HttpEvent`s `Http1Server`/`Http1Client`
    emit, hook completions (with what the addon did), `GetHttpConnectionCompleted`, `OpenConnectionCompleted`.
  * The event grammar (what `Http1Server`/`Http1Client`/`HttpLayer` can deliver to one stream) is a monitor:
    an input outside it sets `bad` (absorbing).  The correspondence run checks that real traces never do.

  Core Lean only — compiled into the driver `mv_c03`.
-/
namespace MitmVerif.C03

inductive CS where
  | uninit | waitHdr | consume | stream | done | errored
  deriving DecidableEq, Repr, Inhabited, Hashable

inductive SS where
  | uninit | waitHdr | consume | stream | done | errored
  deriving DecidableEq, Repr, Inhabited, Hashable

inductive Hook where
  | requestheaders | request | responseheaders | response | error
  | connect | connected | connectError
  deriving DecidableEq, Repr, Inhabited, Hashable

inductive Action where
  | pass | kill | resp | stream
  deriving DecidableEq, Repr, Inhabited, Hashable

inductive ReqKind where
  | norm | connect | nohost | invalid
  deriving DecidableEq, Repr, Inhabited, Hashable

inductive RespKind where
  | norm | ws101 | up101 | invalid
  deriving DecidableEq, Repr, Inhabited, Hashable

/-- outcome of `check_body_size` steps 2/3 for an expected size -/
inductive Verdict where
  | ok | stream | tooLarge
  deriving DecidableEq, Repr, Inhabited, Hashable

/-- `flow.error`: unset, `Error.KILLED_MESSAGE`, anything else -/
inductive ErrK where
  | none | killed | other
  deriving DecidableEq, Repr, Inhabited, Hashable

/-- where `handle_protocol_error` returns to -/
inductive Ret where
  | top          -- called from `_handle_event`, or from `make_server_connection` in `state_consume_request_body`
  | streamHdr    -- `start_request_stream` called from `state_wait_for_request_headers`
  | streamLate   -- `start_request_stream` called from `check_body_size` (late streaming)
  deriving DecidableEq, Repr, Inhabited, Hashable

/-- suspension points of the generator: the blocking command it waits for -/
inductive K where
  | reqHeadersHook (endStream : Bool)       -- `yield HttpRequestHeadersHook` in state_wait_for_request_headers
  | streamConn (late : Bool)                -- GetHttpConnection in start_request_stream
  | requestHookStream                       -- `yield HttpRequestHook` in state_stream_request_body
  | requestHook                             -- `yield HttpRequestHook` in state_consume_request_body
  | respHeadersEmul                         -- emulated responseheaders hook (response set by an addon)
  | conn                                    -- GetHttpConnection in state_consume_request_body
  | respHeadersHook (endStream : Bool)      -- `yield HttpResponseHeadersHook` in state_wait_for_response_headers
  | responseHook (alreadyStreamed : Bool)   -- `yield HttpResponseHook` in send_response
  | killedErr                               -- error hook inside check_killed(True)
  | peErr (isResp : Bool) (ret : Ret)       -- error hook inside handle_protocol_error
  | cbsHdr (request : Bool)                 -- requestheaders/responseheaders hook inside check_body_size
  | cbsErr (request : Bool)                 -- error hook inside check_body_size
  | invHdr                                  -- requestheaders hook inside check_invalid(True)
  | invErr (request : Bool)                 -- error hook inside check_invalid
  | connectHook | connectOpen | connectedHook | connectErrHook
  deriving DecidableEq, Repr, Inhabited, Hashable

inductive Tag where
  | rh | rd | re | rx | sh | sd | se | sx
  deriving DecidableEq, Repr, Inhabited, Hashable

/-- commands yielded by the stream (Log omitted) -/
inductive Out where
  | hook (h : Hook)
  | send (toClient : Bool) (t : Tag)     -- SendHttp
  | drop                                 -- DropStream
  | getConn                              -- GetHttpConnection
  | openConn                             -- OpenConnection (CONNECT, eager)
  | closeServer                          -- CloseConnection(flow.server_conn) in check_invalid(False)
  | crash                                -- an exception escaped `_handle_event`
  | streamStart                          -- ghost: start_request_stream sent the request headers upstream
  deriving DecidableEq, Repr, Inhabited, Hashable

/-- monitor over the emitted commands: which lifecycle hooks fired, and the five ordering violations -/
structure Mon where
  fRH : Bool := false
  fReq : Bool := false
  fRespH : Bool := false
  fResp : Bool := false
  fErr : Bool := false
  streamed : Bool := false
  v1 : Bool := false    -- a lifecycle hook other than requestheaders fired before requestheaders, or requestheaders twice
  v2 : Bool := false    -- request fired twice
  v3 : Bool := false    -- responseheaders twice, or response without responseheaders before it, or response twice
  v4 : Bool := false    -- response and error both fired
  v5 : Bool := false    -- responseheaders fired, request not fired before it, request body not streamed
  deriving DecidableEq, Repr, Inhabited, Hashable

def mon (m : Mon) : Out → Mon
  | .hook .requestheaders => { m with fRH := true, v1 := m.v1 || m.fRH || m.fReq || m.fRespH || m.fResp || m.fErr }
  | .hook .request => { m with fReq := true, v1 := m.v1 || !m.fRH, v2 := m.v2 || m.fReq }
  | .hook .responseheaders =>
    { m with fRespH := true, v1 := m.v1 || !m.fRH, v3 := m.v3 || m.fRespH || m.fResp,
             v5 := m.v5 || (!m.fReq && !m.streamed) }
  | .hook .response =>
    { m with fResp := true, v1 := m.v1 || !m.fRH, v3 := m.v3 || !m.fRespH || m.fResp, v4 := m.v4 || m.fErr }
  | .hook .error => { m with fErr := true, v1 := m.v1 || !m.fRH, v4 := m.v4 || m.fResp }
  | .streamStart => { m with streamed := true }
  | _ => m

structure Core where
  cs : CS := .waitHdr          -- after events.Start
  ss : SS := .uninit
  pt : Bool := false           -- `_handle_event = passthrough`
  paused : Option K := none
  hasFlow : Bool := false      -- `self.flow` exists
  live : Bool := false
  err : ErrK := .none
  hasResp : Bool := false      -- flow.response is set
  respKind : RespKind := .norm
  reqStream : Bool := false    -- flow.request.stream
  respStream : Bool := false   -- flow.response.stream
  reqWs : Bool := false        -- request carries Sec-WebSocket-Version: 13
  websocket : Bool := false    -- flow.websocket is set
  isConnect : Bool := false
  connect2xx : Bool := true
  reqBody : Bool := false      -- flow.request.raw_content non-empty
  respBody : Bool := false     -- flow.response.raw_content non-empty
  -- ghost
  attached : Bool := false     -- request headers were sent to a server connection
  dropped : Bool := false      -- DropStream emitted
  procReqErr : Bool := false   -- a RequestProtocolError has been handled
  seenReqHdr : Bool := false
  draining : Bool := false     -- inside `__continue`'s replay loop (set by a completion, cleared by the next direct event)
  stale : Bool := false        -- an exception escaped from `__continue` while queued events were (possibly) left behind
  bad : Bool := false          -- an input outside the event grammar was handled
  m : Mon := {}
  deriving DecidableEq, Repr, Inhabited, Hashable

/-- writer: the core state and the commands emitted during this call (newest first) -/
structure W where
  c : Core
  out : List Out := []
  crashed : Bool := false      -- an exception escaped from this call
  deriving Repr, Inhabited

namespace W
def emit (w : W) (o : Out) : W := { w with c := { w.c with m := mon w.c.m o }, out := o :: w.out }
def upd (w : W) (f : Core → Core) : W := { w with c := f w.c }
def pause (w : W) (k : K) : W := w.upd fun c => { c with paused := some k }
def fire (w : W) (h : Hook) (k : K) : W := (w.emit (.hook h)).pause k
def crash (w : W) : W := { w.emit .crash with crashed := true }
end W

/-- the hook a suspension point waits for (none: a connection command) -/
def K.hook : K → Option Hook
  | .reqHeadersHook _ => some .requestheaders
  | .streamConn _ => none
  | .requestHookStream => some .request
  | .requestHook => some .request
  | .respHeadersEmul => some .responseheaders
  | .conn => none
  | .respHeadersHook _ => some .responseheaders
  | .responseHook _ => some .response
  | .killedErr => some .error
  | .peErr _ _ => some .error
  | .cbsHdr true => some .requestheaders
  | .cbsHdr false => some .responseheaders
  | .cbsErr _ => some .error
  | .invHdr => some .requestheaders
  | .invErr _ => some .error
  | .connectHook => some .connect
  | .connectOpen => none
  | .connectedHook => some .connected
  | .connectErrHook => some .connectError

/-- abstract inputs of the core (sizes replaced by verdicts) -/
inductive AEv where
  | reqHeaders (endStream : Bool) (kind : ReqKind) (ws : Bool) (v : Verdict)
  | reqData (v : Verdict)                 -- v: check_body_size on the buffer *after* appending (only used in consume)
  | reqEOM (nonEmpty : Bool)              -- nonEmpty: the buffered body is non-empty (only used in consume)
  | reqErr
  | respHeaders (endStream : Bool) (kind : RespKind) (v : Verdict)
  | respData (v : Verdict)
  | respEOM (nonEmpty : Bool)
  | respErr
  | hookDone (h : Hook) (a : Action)
  | connDone (ok : Bool)
  | openDone (ok : Bool)
  deriving DecidableEq, Repr, Inhabited, Hashable

def AEv.isDone : AEv → Bool
  | .hookDone _ _ | .connDone _ | .openDone _ => true
  | _ => false

-- ------------------------------------------------------------------------------------------------
-- helpers shared by several states

/-- tail of check_killed once it decided "killed": SendHttp(ResponseProtocolError kill), live=False, both errored -/
def killFinish (w : W) : W :=
  (w.emit (.send true .sx)).upd fun c => { c with live := false, cs := .errored, ss := .errored }

/-- `check_killed(emit_error_hook)`; `peek`: a RequestProtocolError waits in `_paused_event_queue`.
    `none`: not killed, the caller continues; `some w`: killed, the caller returns. -/
def checkKilled (w : W) (emitHook : Bool) (peek : Bool) : Option W :=
  let byUs := w.c.err == .killed
  let w := if peek && w.c.err == .none then w.upd fun c => { c with err := .other } else w
  if byUs || peek then
    if emitHook then some (w.fire .error .killedErr) else some (killFinish w)
  else none

def peRet (w : W) : Ret → W
  | .top => w
  | .streamHdr => w.upd fun c => { c with cs := .errored, ss := .waitHdr }
  | .streamLate => w.upd fun c => { c with cs := .errored }

/-- handle_protocol_error after the (optional) error hook -/
def peAfter (w : W) (isResp : Bool) (ret : Ret) (peek : Bool) : W :=
  match checkKilled w false peek with
  | some w' => peRet w' ret
  | none =>
    let w := if isResp then
        let w := if w.c.cs != .errored then w.emit (.send true .sx) else w
        w.upd fun c => { c with ss := .errored }
      else w
    let w := w.upd fun c => { c with live := false }
    let w := (w.emit .drop).upd fun c => { c with dropped := true }
    peRet w ret

/-- handle_protocol_error -/
def handlePE (w : W) (isResp : Bool) (ret : Ret) (peek : Bool) : W :=
  if !w.c.hasFlow then w.crash            -- AttributeError: no flow yet
  else
    let c := w.c
    let upstream := !isResp && (c.cs == .stream || c.cs == .done) && !(c.ss == .done || c.ss == .errored)
    let need := !(c.cs == .errored || c.ss == .done || c.ss == .errored)
    let w := if upstream then (w.emit (.send false .rx)).upd fun c => { c with ss := .errored } else w
    let w := if !isResp then w.upd fun c => { c with cs := .errored } else w
    if need then (w.upd fun c => { c with err := .other }).fire .error (.peErr isResp ret)
    else peAfter w isResp ret peek

def flowDone (w : W) : W :=
  let w := if !w.c.websocket then w.upd fun c => { c with live := false } else w
  if w.c.respKind == .ws101 || w.c.respKind == .up101 then
    -- status 101: websocket / raw tcp child layer, the stream becomes a pipe
    (w.upd fun c => { c with pt := true }).emit (.send true .se)
  else
    ((w.emit .drop).upd fun c => { c with dropped := true }).emit (.send true .se)

def sendResponse (w : W) (alreadyStreamed : Bool) : W :=
  let ws := w.c.respKind == .ws101 && w.c.reqWs
  (w.upd fun c => { c with websocket := c.websocket || ws }).fire .response (.responseHook alreadyStreamed)

def startRequestStream (w : W) (late : Bool) : W :=
  if w.c.hasResp then w.crash             -- NotImplementedError
  else (w.emit .getConn).pause (.streamConn late)

def cbsErrFire (w : W) (request : Bool) : W :=
  (w.upd fun c => { c with err := .other }).fire .error (.cbsErr request)

def connectFinish (w : W) : W :=
  let w := if !w.c.hasResp then w.upd fun c => { c with hasResp := true, connect2xx := true, respBody := false } else w
  if w.c.connect2xx then w.fire .connected .connectedHook else w.fire .connectError .connectErrHook

def connectSends (w : W) : W :=
  let w := w.emit (.send true .sh)
  let w := if w.c.respBody then w.emit (.send true .sd) else w
  w.emit (.send true .se)

-- ------------------------------------------------------------------------------------------------
-- an event handled by `_handle_event` (layer not paused)

def onReqHeaders (w : W) (e : Bool) (kind : ReqKind) (ws : Bool) (v : Verdict) : W :=
  let w := w.upd fun c => { c with hasFlow := true, live := true, reqWs := ws, isConnect := kind == .connect }
  -- check_invalid(True)
  if kind == .invalid then (w.upd fun c => { c with err := .other }).fire .requestheaders .invHdr
  else if kind == .connect then
    (w.upd fun c => { c with cs := .done }).fire .connect .connectHook
  else if kind == .nohost then
    (w.emit (.send true .sx)).upd fun c => { c with cs := .errored }
  else
    -- check_body_size(True), early case, only `if not event.end_stream`
    let v := if e then .ok else v
    match v with
    | .tooLarge => w.fire .requestheaders (.cbsHdr true)
    | .stream => (w.upd fun c => { c with reqStream := true }).fire .requestheaders (.reqHeadersHook e)
    | .ok => w.fire .requestheaders (.reqHeadersHook e)

def clientEvent (w : W) (ev : AEv) (peek : Bool) : W :=
  match w.c.cs, ev with
  | .waitHdr, .reqHeaders e kind ws v => onReqHeaders w e kind ws v
  | .consume, .reqData v =>
    match v with
    | .ok => w
    | .tooLarge => cbsErrFire w true
    | .stream => startRequestStream (w.upd fun c => { c with reqStream := true }) true
  | .consume, .reqEOM ne =>
    (w.upd fun c => { c with cs := .done, reqBody := ne }).fire .request .requestHook
  | .stream, .reqData _ => w.emit (.send false .rd)
  | .stream, .reqEOM _ => w.fire .request .requestHookStream
  | .errored, _ => w
  | _, _ => let _ := peek; w.crash            -- @expect(...) AssertionError

def serverEvent (w : W) (ev : AEv) : W :=
  match w.c.ss, ev with
  | .waitHdr, .respHeaders e kind v =>
    let w := w.upd fun c => { c with hasResp := true, respKind := kind, respStream := false }
    let v := if e then .ok else v
    match v with
    | .tooLarge => w.fire .responseheaders (.cbsHdr false)
    | _ =>
      let w := if v == .stream then w.upd fun c => { c with respStream := true } else w
      if kind == .invalid then
        ((w.upd fun c => { c with err := .other }).emit .closeServer).fire .error (.invErr false)
      else w.fire .responseheaders (.respHeadersHook e)
  | .consume, .respData v =>
    match v with
    | .ok => w
    | .tooLarge => cbsErrFire w false
    | .stream =>
      -- start_response_stream, then the buffered data is re-dispatched as ResponseData
      let w := (w.upd fun c => { c with respStream := true }).emit (.send true .sh)
      (w.upd fun c => { c with ss := .stream }).emit (.send true .sd)
  | .consume, .respEOM ne => sendResponse (w.upd fun c => { c with respBody := ne }) false
  | .stream, .respData _ => w.emit (.send true .sd)
  | .stream, .respEOM _ => sendResponse w true
  | .errored, _ => w
  | _, _ => w.crash

/-- the event grammar, checked when an HttpEvent is handled.  Events are handled in arrival order (events queued
    before a DropStream are still replayed after it, so `dropped` restricts nothing) — unless an exception escaped
    from `__continue` earlier and left part of the queue behind (`stale`): those events are replayed later, after
    newer ones, so the order-related rules are not assumed any more. -/
def grammarOk (c : Core) : AEv → Bool
  | .reqHeaders .. => !c.seenReqHdr && (c.stale || !c.procReqErr)
  | .reqData _ | .reqEOM _ => c.stale || !c.procReqErr
  | .reqErr => true
  | .respHeaders .. | .respData _ | .respEOM _ | .respErr => c.attached
  | _ => false

def badCore : Core := { bad := true, cs := .errored, ss := .errored }

/-- an HttpEvent handled by `_handle_event`; `queued`: it is replayed from `_paused_event_queue` by `__continue` -/
def procEv (c : Core) (ev : AEv) (peek : Bool) (queued : Bool) : W :=
  if c.bad then { c := c }
  else if c.pt then { c := c }
  else if !grammarOk c ev then { c := badCore }
  else
    let queued := queued && c.draining
    let w : W := { c := { c with draining := queued } }
    let w := match ev with
      | .reqErr => (handlePE w false .top peek).upd fun c => { c with procReqErr := true }
      | .respErr => handlePE w true .top peek
      | .reqHeaders .. => (clientEvent w ev peek).upd fun c => { c with seenReqHdr := true }
      | .reqData _ | .reqEOM _ => clientEvent w ev peek
      | _ => serverEvent w ev
    -- an exception that escapes from `__continue` leaves the rest of `_paused_event_queue` behind
    if queued && w.crashed then w.upd fun c => { c with stale := true } else w

-- ------------------------------------------------------------------------------------------------
-- a completion resumes the generator

def applyAction (c : Core) (h : Hook) : Action → Core
  | .pass => c
  | .kill => if c.live && c.err != .killed then { c with err := .killed, live := false } else c
  | .resp => { c with hasResp := true, respKind := .norm, respStream := false, respBody := true, connect2xx := true }
  | .stream =>
    if h == .requestheaders || h == .request then { c with reqStream := true }
    else if c.hasResp then { c with respStream := true } else c

/-- continuation after the blocking command of suspension point `k` completed (`ok`: connection result) -/
def resume (w : W) (k : K) (ok : Bool) (peek : Bool) : W :=
  match k with
  | .reqHeadersHook e =>
    match checkKilled w true peek with
    | some w' => w'
    | none =>
      if w.c.reqStream && !e then startRequestStream w false
      else w.upd fun c => { c with cs := .consume, ss := .waitHdr }
  | .streamConn late =>
    if ok then
      let w := (w.upd fun c => { c with attached := true }).emit (.send false .rh)
      let w := (w.emit .streamStart).upd fun c => { c with cs := .stream }
      if late then w.emit (.send false .rd) else w.upd fun c => { c with ss := .waitHdr }
    else handlePE w true (if late then .streamLate else .streamHdr) peek
  | .requestHookStream =>
    let w := (w.upd fun c => { c with cs := .done }).emit (.send false .re)
    if w.c.ss == .done then flowDone w else w
  | .requestHook =>
    match checkKilled w true peek with
    | some w' => w'
    | none =>
      if w.c.hasResp then w.fire .responseheaders .respHeadersEmul
      else (w.emit .getConn).pause .conn
  | .respHeadersEmul =>
    match checkKilled w true peek with
    | some w' => w'
    | none => sendResponse w false
  | .conn =>
    if ok then
      let w := (w.upd fun c => { c with attached := true }).emit (.send false .rh)
      let w := if w.c.reqBody then w.emit (.send false .rd) else w
      w.emit (.send false .re)
    else handlePE w true .top peek
  | .respHeadersHook e =>
    match checkKilled w true peek with
    | some w' => w'
    | none =>
      if w.c.respStream && !e then (w.emit (.send true .sh)).upd fun c => { c with ss := .stream }
      else w.upd fun c => { c with ss := .consume }
  | .responseHook already =>
    let w := w.upd fun c => { c with ss := .done }
    match checkKilled w false peek with
    | some w' => w'
    | none =>
      let w := if !already then
          let w := w.emit (.send true .sh)
          if w.c.respBody then w.emit (.send true .sd) else w
        else w
      if w.c.cs == .done then flowDone w else w
  | .killedErr => killFinish w
  | .peErr isResp ret => peAfter w isResp ret peek
  | .cbsHdr request => cbsErrFire w request
  | .cbsErr request =>
    let w := (w.emit (.send true .sx)).upd fun c => { c with cs := .errored }
    let w := if !request then (w.emit (.send false .rx)).upd fun c => { c with ss := .errored } else w
    w.upd fun c => { c with live := false }
  | .invHdr => w.fire .error (.invErr true)
  | .invErr _ =>
    (w.emit (.send true .sx)).upd fun c => { c with live := false, cs := .errored, ss := .errored }
  | .connectHook =>
    match checkKilled w false peek with
    | some w' => w'
    | none =>
      if !w.c.hasResp then (w.emit .openConn).pause .connectOpen      -- regular mode, connection_strategy eager
      else connectFinish w
  | .connectOpen =>
    if ok then connectFinish w
    else connectFinish (w.upd fun c => { c with hasResp := true, connect2xx := false, respBody := true })
  | .connectedHook => connectSends (w.upd fun c => { c with pt := true })
  | .connectErrHook => connectSends (w.upd fun c => { c with cs := .errored, live := false })

/-- an exception that escapes from `__continue` leaves the rest of `_paused_event_queue` behind -/
def markStale (w : W) : W := if w.crashed then w.upd fun c => { c with stale := true } else w

/-- a CommandCompleted event for the command the layer is paused on -/
def procDone (c : Core) (ev : AEv) (peek : Bool) : W :=
  if c.bad then { c := c }
  else match c.paused with
  | none => { c := badCore }
  | some k =>
    let w : W := { c := { c with paused := none, draining := true } }
    markStale <| match ev, k.hook with
    | .hookDone h a, some h' =>
      if h == h' then resume (w.upd fun c => applyAction c h a) k true peek else { c := badCore }
    | .connDone ok, none =>
      if k == .connectOpen then { c := badCore } else resume w k ok peek
    | .openDone ok, none =>
      if k == .connectOpen then resume w k ok peek else { c := badCore }
    | _, _ => { c := badCore }

-- ------------------------------------------------------------------------------------------------
-- concrete layer: sizes and the paused-event queue

inductive Ev where
  | reqHeaders (endStream : Bool) (esize : Nat) (kind : ReqKind) (ws : Bool)
  | reqData (n : Nat)
  | reqEOM
  | reqErr
  | respHeaders (endStream : Bool) (esize : Nat) (kind : RespKind)
  | respData (n : Nat)
  | respEOM
  | respErr
  | hookDone (h : Hook) (a : Action)
  | connDone (ok : Bool)
  | openDone (ok : Bool)
  deriving DecidableEq, Repr, Inhabited, Hashable

def Ev.isDone : Ev → Bool
  | .hookDone _ _ | .connDone _ | .openDone _ => true
  | _ => false

def Ev.isReqErr : Ev → Bool
  | .reqErr => true
  | _ => false

structure St where
  core : Core := {}
  limit : Nat := 0        -- body_size_limit (0: unset)
  thresh : Nat := 0       -- stream_large_bodies (0: unset)
  reqBuf : Nat := 0       -- len(request_body_buf)
  respBuf : Nat := 0
  queue : List Ev := []   -- _paused_event_queue
  crashed : Bool := false -- the last call of _handle_event raised
  outs : List Out := []   -- every command emitted so far, newest first
  deriving Repr, Inhabited

/-- check_body_size steps 1–3 on an expected size (0: unknown / none) -/
def verdict (limit thresh expected : Nat) : Verdict :=
  if expected = 0 then .ok
  else if limit ≠ 0 ∧ expected > limit then .tooLarge
  else if thresh ≠ 0 ∧ expected > thresh then .stream
  else .ok

/-- abstraction of a concrete event in state `s` (the buffers as they are when the event is handled) -/
def abstractEv (s : St) : Ev → AEv
  | .reqHeaders e n k ws => .reqHeaders e k ws (verdict s.limit s.thresh n)
  | .reqData n => .reqData (verdict s.limit s.thresh (s.reqBuf + n))
  | .reqEOM => .reqEOM (decide (s.reqBuf > 0))
  | .reqErr => .reqErr
  | .respHeaders e n k => .respHeaders e k (verdict s.limit s.thresh n)
  | .respData n => .respData (verdict s.limit s.thresh (s.respBuf + n))
  | .respEOM => .respEOM (decide (s.respBuf > 0))
  | .respErr => .respErr
  | .hookDone h a => .hookDone h a
  | .connDone ok => .connDone ok
  | .openDone ok => .openDone ok

/-- buffer bookkeeping of state_consume_request_body / state_consume_response_body / check_body_size -/
def bufAfter (s : St) (ev : Ev) : Nat × Nat :=
  let live := !s.core.bad && !s.core.pt
  match ev with
  | .reqData n =>
    if live && s.core.cs == .consume then
      if verdict s.limit s.thresh (s.reqBuf + n) == .stream then (0, s.respBuf) else (s.reqBuf + n, s.respBuf)
    else (s.reqBuf, s.respBuf)
  | .reqEOM => if live && s.core.cs == .consume then (0, s.respBuf) else (s.reqBuf, s.respBuf)
  | .respData n =>
    if live && s.core.ss == .consume then
      if verdict s.limit s.thresh (s.respBuf + n) == .stream then (s.reqBuf, 0) else (s.reqBuf, s.respBuf + n)
    else (s.reqBuf, s.respBuf)
  | .respEOM => if live && s.core.ss == .consume then (s.reqBuf, 0) else (s.reqBuf, s.respBuf)
  | _ => (s.reqBuf, s.respBuf)

/-- one call of `_handle_event` / `__continue`'s first part on event `ev` (the queue is what remains) -/
def handleNow (s : St) (ev : Ev) (queued : Bool) : St :=
  let peek := s.queue.any Ev.isReqErr
  let a := abstractEv s ev
  let w := if ev.isDone then procDone s.core a peek else procEv s.core a peek queued
  let (rb, sb) := bufAfter s ev
  { s with core := w.c, crashed := w.crashed, reqBuf := rb, respBuf := sb, outs := w.out ++ s.outs }

/-- `__continue`'s loop: replay queued events until paused again (or an exception escaped) -/
def drain : Nat → St → St
  | 0, s => s
  | fuel + 1, s =>
    if s.core.paused.isSome || s.crashed then s
    else match s.queue with
      | [] => s
      | e :: q => drain fuel (handleNow { s with queue := q } e true)

/-- `Layer.handle_event` -/
def step (s : St) (ev : Ev) : St :=
  if s.core.paused.isSome then
    if ev.isDone then
      let s := handleNow s ev false
      drain s.queue.length s
    else { s with queue := s.queue ++ [ev] }
  else handleNow s ev false

def init (limit thresh : Nat) : St := { limit, thresh }

def run (limit thresh : Nat) (evs : List Ev) : St := evs.foldl step (init limit thresh)

/-- the hooks fired so far, oldest first -/
def St.trace (s : St) : List Out := s.outs.reverse

/-- the environment has closed the client side of this stream and nothing is pending -/
def St.settled (s : St) : Bool :=
  s.core.paused.isNone && (s.core.procReqErr || s.core.dropped)

end MitmVerif.C03
