/-
  C03 — every HTTP flow has an ordered hook lifecycle and exactly one outcome.

  Model of `mitmproxy.proxy.layers.http.HttpStream` (one stream = one flow) together with the pause
  semantics of `mitmproxy.proxy.layer.Layer.handle_event` it runs under.

  * `Core` is the finite control state of one stream: `client_state × server_state`, the suspension point
    of the `_handle_event` generator (`K`, one constructor per blocking `yield`), the flow attributes the
    code branches on (`live`, `error`, `response`, `request.stream`, `response.stream`, `websocket`), plus
    ghost state: the hook monitor `Mon` and the event-grammar monitor (`bad`).
  * Bodies are abstracted to lengths: the concrete state `St` keeps `len(request_body_buf)`,
    `len(response_body_buf)` and the two size options; `check_body_size` becomes a `Verdict`.
  * Inputs are exactly what `HttpStream.handle_event` receives: the `HttpEvent`s `Http1Server`/`Http1Client`
    emit, hook completions (with what the addon did), `GetHttpConnectionCompleted`, `OpenConnectionCompleted`.
  * The event grammar (what `Http1Server`/`Http1Client`/`HttpLayer` can deliver to one stream) is a monitor:
    an input outside it sets `bad` (absorbing).  The correspondence run checks that real traces never do.

  Core Lean only — compiled into the driver `mv_c03`.
-/
namespace MitmVerif.C03

inductive CS where
  | uninit | waitHdr | consume | stream | done | errored
  deriving DecidableEq, Repr, Inhabited, Hashable

inductive SS where
  | uninit | waitHdr | consume | stream | done | errored
  deriving DecidableEq, Repr, Inhabited, Hashable

inductive Hook where
  | requestheaders | request | responseheaders | response | error
  | connect | connected | connectError
  deriving DecidableEq, Repr, Inhabited, Hashable

inductive Action where
  | pass | kill | resp | stream
  deriving DecidableEq, Repr, Inhabited, Hashable

inductive ReqKind where
  | norm | connect | nohost | invalid
  deriving DecidableEq, Repr, Inhabited, Hashable

inductive RespKind where
  | norm | ws101 | up101 | invalid
  deriving DecidableEq, Repr, Inhabited, Hashable

/-- outcome of `check_body_size` steps 2/3 for an expected size -/
inductive Verdict where
  | ok | stream | tooLarge
  deriving DecidableEq, Repr, Inhabited, Hashable

/-- `flow.error`: unset, `Error.KILLED_MESSAGE`, anything else -/
inductive ErrK where
  | none | killed | other
  deriving DecidableEq, Repr, Inhabited, Hashable

/-- where `handle_protocol_error` returns to -/
inductive Ret where
  | top          -- called from `_handle_event`, or from `make_server_connection` in `state_consume_request_body`
  | streamHdr    -- `start_request_stream` called from `state_wait_for_request_headers`
  | streamLate   -- `start_request_stream` called from `check_body_size` (late streaming)
  deriving DecidableEq, Repr, Inhabited, Hashable

/-- suspension points of the generator: the blocking command it waits for -/
inductive K where
  | reqHeadersHook (endStream : Bool)       -- `yield HttpRequestHeadersHook` in state_wait_for_request_headers
  | streamConn (late : Bool)                -- GetHttpConnection in start_request_stream
  | requestHookStream                       -- `yield HttpRequestHook` in state_stream_request_body
  | requestHook                             -- `yield HttpRequestHook` in state_consume_request_body
  | respHeadersEmul                         -- emulated responseheaders hook (response set by an addon)
  | conn                                    -- GetHttpConnection in state_consume_request_body
  | respHeadersHook (endStream : Bool)      -- `yield HttpResponseHeadersHook` in state_wait_for_response_headers
  | responseHook (alreadyStreamed : Bool)   -- `yield HttpResponseHook` in send_response
  | killedErr                               -- error hook inside check_killed(True)
  | peErr (isResp : Bool) (ret : Ret)       -- error hook inside handle_protocol_error
  | cbsHdr (request : Bool)                 -- requestheaders/responseheaders hook inside check_body_size
  | cbsErr (request : Bool)                 -- error hook inside check_body_size
  | invHdr                                  -- requestheaders hook inside check_invalid(True)
  | invErr (request : Bool)                 -- error hook inside check_invalid
  | connectHook | connectOpen | connectedHook | connectErrHook
  deriving DecidableEq, Repr, Inhabited, Hashable

inductive Tag where
  | rh | rd | rt | re | rx | sh | sd | st | se | sx
  deriving DecidableEq, Repr, Inhabited, Hashable

/-- commands yielded by the stream (Log omitted) -/
inductive Out where
  | hook (h : Hook)
  | send (toClient : Bool) (t : Tag)     -- SendHttp
  | drop                                 -- DropStream
  | getConn                              -- GetHttpConnection
  | openConn                             -- OpenConnection (CONNECT, eager)
  | closeServer                          -- CloseConnection(flow.server_conn) in check_invalid(False)
  | crash                                -- an exception escaped `_handle_event`
  | streamStart                          -- ghost: start_request_stream sent the request headers upstream
  deriving DecidableEq, Repr, Inhabited, Hashable

/-- monitor over the emitted commands: which lifecycle hooks fired, and the five ordering violations -/
structure Mon where
  fRH : Bool := false
  fReq : Bool := false
  fRespH : Bool := false
  fResp : Bool := false
  fErr : Bool := false
  streamed : Bool := false
  v1 : Bool := false    -- a lifecycle hook other than requestheaders fired before requestheaders, or requestheaders twice
  v2 : Bool := false    -- request fired twice
  v3 : Bool := false    -- responseheaders twice, or response without responseheaders before it, or response twice
  v4 : Bool := false    -- response and error both fired
  v5 : Bool := false    -- responseheaders fired, request not fired before it, request body not streamed
  deriving DecidableEq, Repr, Inhabited, Hashable

def mon (m : Mon) : Out → Mon
  | .hook .requestheaders => { m with fRH := true, v1 := m.v1 || m.fRH || m.fReq || m.fRespH || m.fResp || m.fErr }
  | .hook .request => { m with fReq := true, v1 := m.v1 || !m.fRH, v2 := m.v2 || m.fReq }
  | .hook .responseheaders =>
    { m with fRespH := true, v1 := m.v1 || !m.fRH, v3 := m.v3 || m.fRespH || m.fResp,
             v5 := m.v5 || (!m.fReq && !m.streamed) }
  | .hook .response =>
    { m with fResp := true, v1 := m.v1 || !m.fRH, v3 := m.v3 || !m.fRespH || m.fResp, v4 := m.v4 || m.fErr }
  | .hook .error => { m with fErr := true, v1 := m.v1 || !m.fRH, v4 := m.v4 || m.fResp }
  | .streamStart => { m with streamed := true }
  | _ => m

structure Core where
  cs : CS := .waitHdr          -- after events.Start
  ss : SS := .uninit
  pt : Bool := false           -- `_handle_event = passthrough`
  paused : Option K := none
  hasFlow : Bool := false      -- `self.flow` exists
  live : Bool := false
  err : ErrK := .none
  hasResp : Bool := false      -- flow.response is set
  respKind : RespKind := .norm
  reqStream : Bool := false    -- flow.request.stream
  respStream : Bool := false   -- flow.response.stream
  reqWs : Bool := false        -- request carries Sec-WebSocket-Version: 13
  websocket : Bool := false    -- flow.websocket is set
  isConnect : Bool := false
  connect2xx : Bool := true
  reqBody : Bool := false      -- flow.request.raw_content non-empty
  respBody : Bool := false     -- flow.response.raw_content non-empty
  reqTrailers : Bool := false  -- flow.request.trailers set (HTTP/2, HTTP/3)
  respTrailers : Bool := false -- flow.response.trailers set
  -- ghost
  attached : Bool := false     -- request headers were sent to a server connection
  dropped : Bool := false      -- DropStream emitted
  procReqErr : Bool := false   -- a RequestProtocolError has been handled
  seenReqHdr : Bool := false
  draining : Bool := false     -- inside `__continue`'s replay loop (set by a completion, cleared by the next direct event)
  stale : Bool := false        -- an exception escaped from `__continue` while queued events were (possibly) left behind
  bad : Bool := false          -- an input outside the event grammar was handled
  m : Mon := {}
  deriving DecidableEq, Repr, Inhabited, Hashable

/-- result of one call into the stream: the new core state, the commands emitted (oldest first), and whether an
    exception escaped.  Every function below is written as a decision tree whose leaves are plain record updates
    of the incoming state (no state is threaded through intermediate `if`s), so that the projection `.c` of a
    result is again a decision tree over simple updates. -/
structure W where
  c : Core
  out : List Out := []
  crashed : Bool := false      -- an exception escaped from this call
  deriving Repr, Inhabited

def mk (c : Core) (out : List Out) : W := { c, out }
/-- an exception escapes: state as it is -/
def crash (c : Core) : W := { c, out := [.crash], crashed := true }

namespace W
/-- commands emitted before the rest -/
def pre (o : List Out) (w : W) : W := { w with out := o ++ w.out }
/-- an exception that escapes from `__continue` (`q`) leaves the rest of `_paused_event_queue` behind -/
def fin (q : Bool) (w : W) : W := { w with c := { w.c with stale := w.c.stale || (q && w.crashed) } }
end W

def outIf (b : Bool) (o : Out) : List Out := if b then [o] else []

/-- the state after firing hook `h` and suspending at `k` -/
def fireC (c : Core) (h : Hook) (k : K) : Core := { c with m := mon c.m (.hook h), paused := some k }
def fire (c : Core) (h : Hook) (k : K) : W := mk (fireC c h k) [.hook h]

/-- the hook a suspension point waits for (none: a connection command) -/
def K.hook : K → Option Hook
  | .reqHeadersHook _ => some .requestheaders
  | .streamConn _ => none
  | .requestHookStream => some .request
  | .requestHook => some .request
  | .respHeadersEmul => some .responseheaders
  | .conn => none
  | .respHeadersHook _ => some .responseheaders
  | .responseHook _ => some .response
  | .killedErr => some .error
  | .peErr _ _ => some .error
  | .cbsHdr request => some (if request then .requestheaders else .responseheaders)
  | .cbsErr _ => some .error
  | .invHdr => some .requestheaders
  | .invErr _ => some .error
  | .connectHook => some .connect
  | .connectOpen => none
  | .connectedHook => some .connected
  | .connectErrHook => some .connectError

/-- abstract inputs of the core (sizes replaced by verdicts) -/
inductive AEv where
  | reqHeaders (endStream : Bool) (kind : ReqKind) (ws : Bool) (v : Verdict)
  | reqData (v : Verdict)                 -- v: check_body_size on the buffer *after* appending (only used in consume)
  | reqEOM (nonEmpty : Bool)              -- nonEmpty: the buffered body is non-empty (only used in consume)
  | reqTrailers
  | reqErr
  | respHeaders (endStream : Bool) (kind : RespKind) (v : Verdict)
  | respData (v : Verdict)
  | respEOM (nonEmpty : Bool)
  | respTrailers
  | respErr
  | hookDone (h : Hook) (a : Action)
  | connDone (ok : Bool)
  | openDone (ok : Bool)
  deriving DecidableEq, Repr, Inhabited, Hashable

def AEv.isDone : AEv → Bool
  | .hookDone _ _ | .connDone _ | .openDone _ => true
  | _ => false

-- ------------------------------------------------------------------------------------------------
-- helpers shared by several states

/-- check_killed decides "killed": by us (`flow.error` is the kill message) or by the remote
    (`peek`: a RequestProtocolError waits in `_paused_event_queue`) -/
def killedNow (c : Core) (peek : Bool) : Bool := c.err == .killed || peek
/-- `if killed_by_remote and not flow.error: flow.error = Error(killed_by_remote)` -/
def errPeek (c : Core) (peek : Bool) : ErrK := if peek && c.err == .none then .other else c.err

/-- tail of check_killed once it decided "killed": live=False, both states errored (+ SendHttp kill) -/
def killFinishC (c : Core) (peek : Bool) : Core :=
  { c with err := errPeek c peek, live := false, cs := .errored, ss := .errored }
/-- check_killed(True), killed: the error hook is fired first -/
def killedFire (c : Core) (peek : Bool) : W := fire { c with err := errPeek c peek } .error .killedErr
/-- check_killed(False), killed -/
def killedSilent (c : Core) (peek : Bool) : W := mk (killFinishC c peek) [.send true .sx]

def peRetC (c : Core) : Ret → Core
  | .top => c
  | .streamHdr => { c with cs := .errored, ss := .waitHdr }
  | .streamLate => { c with cs := .errored }

/-- handle_protocol_error after the (optional) error hook -/
def peAfter (c : Core) (isResp : Bool) (ret : Ret) (peek : Bool) : W :=
  if killedNow c peek then mk (peRetC (killFinishC c peek) ret) [.send true .sx]
  else if isResp then
    mk (peRetC { c with ss := .errored, live := false, dropped := true } ret)
       (outIf (c.cs != .errored) (.send true .sx) ++ [.drop])
  else mk (peRetC { c with live := false, dropped := true } ret) [.drop]

/-- handle_protocol_error -/
def handlePE (c : Core) (isResp : Bool) (ret : Ret) (peek : Bool) : W :=
  if !c.hasFlow then crash c            -- AttributeError: no flow yet
  else
    let upstream := !isResp && (c.cs == .stream || c.cs == .done) && !(c.ss == .done || c.ss == .errored)
    let need := !(c.cs == .errored || c.ss == .done || c.ss == .errored)
    -- a client error always marks the client side errored; if we already talk upstream the server side too
    if isResp then
      if need then fire { c with err := .other } .error (.peErr true ret)
      else peAfter c true ret peek
    else if upstream then
      if need then (fire { c with cs := .errored, ss := .errored, err := .other } .error (.peErr false ret)).pre [.send false .rx]
      else (peAfter { c with cs := .errored, ss := .errored } false ret peek).pre [.send false .rx]
    else
      if need then fire { c with cs := .errored, err := .other } .error (.peErr false ret)
      else peAfter { c with cs := .errored } false ret peek

def is101 (c : Core) : Bool := c.respKind == .ws101 || c.respKind == .up101

def sendResponse (c : Core) (alreadyStreamed : Bool) : W :=
  fire { c with websocket := c.websocket || (c.respKind == .ws101 && c.reqWs) } .response (.responseHook alreadyStreamed)

def startRequestStream (c : Core) (late : Bool) : W :=
  if c.hasResp then crash c             -- NotImplementedError
  else mk { c with paused := some (.streamConn late) } [.getConn]

def cbsErrFire (c : Core) (request : Bool) : W := fire { c with err := .other } .error (.cbsErr request)

def connectFinish (c : Core) : W :=
  let ok := c.connect2xx || !c.hasResp
  if ok then fire { c with hasResp := true, connect2xx := true, respBody := c.respBody && c.hasResp } .connected .connectedHook
  else fire { c with hasResp := true, connect2xx := false, respBody := c.respBody && c.hasResp } .connectError .connectErrHook

def connectSends (c : Core) : List Out :=
  [.send true .sh] ++ outIf c.respBody (.send true .sd) ++ [.send true .se]

-- ------------------------------------------------------------------------------------------------
-- an event handled by `_handle_event` (layer not paused)

def onReqHeaders (c : Core) (e : Bool) (kind : ReqKind) (ws : Bool) (v : Verdict) : W :=
  match kind with
  | .invalid =>    -- check_invalid(True)
    fire { c with hasFlow := true, live := true, reqWs := ws, isConnect := false, err := .other } .requestheaders .invHdr
  | .connect =>
    fire { c with hasFlow := true, live := true, reqWs := ws, isConnect := true, cs := .done } .connect .connectHook
  | .nohost =>
    mk { c with hasFlow := true, live := true, reqWs := ws, isConnect := false, cs := .errored } [.send true .sx]
  | .norm =>
    -- check_body_size(True), early case, only `if not event.end_stream`
    match (if e then Verdict.ok else v) with
    | .tooLarge => fire { c with hasFlow := true, live := true, reqWs := ws, isConnect := false } .requestheaders (.cbsHdr true)
    | .stream =>
      fire { c with hasFlow := true, live := true, reqWs := ws, isConnect := false, reqStream := true } .requestheaders (.reqHeadersHook e)
    | .ok => fire { c with hasFlow := true, live := true, reqWs := ws, isConnect := false } .requestheaders (.reqHeadersHook e)

def clientEvent (c : Core) (ev : AEv) : W :=
  match c.cs, ev with
  | .waitHdr, .reqHeaders e kind ws v => onReqHeaders c e kind ws v
  | .consume, .reqData .ok => mk c []
  | .consume, .reqData .tooLarge => cbsErrFire c true
  | .consume, .reqData .stream =>   -- check_body_size step 3: `if request and not self.flow.response`
    if c.hasResp then mk c [] else startRequestStream { c with reqStream := true } true
  | .consume, .reqEOM ne => fire { c with cs := .done, reqBody := ne } .request .requestHook
  | .consume, .reqTrailers => mk { c with reqTrailers := true } []
  | .stream, .reqData _ => mk c [.send false .rd]
  | .stream, .reqTrailers => mk { c with reqTrailers := true } []   -- sent after the request hook
  | .stream, .reqEOM _ => fire c .request .requestHookStream
  | .errored, _ => mk c []
  | _, _ => crash c                     -- @expect(...) AssertionError

def serverEvent (c : Core) (ev : AEv) : W :=
  match c.ss, ev with
  | .waitHdr, .respHeaders e kind v =>
    match (if e then Verdict.ok else v) with
    | .tooLarge => fire { c with hasResp := true, respKind := kind, respStream := false, respTrailers := false } .responseheaders (.cbsHdr false)
    | v' =>
      if kind == .invalid then   -- check_invalid(False)
        (fire { c with hasResp := true, respKind := kind, respStream := v' == .stream, respTrailers := false, err := .other } .error (.invErr false)).pre [.closeServer]
      else fire { c with hasResp := true, respKind := kind, respStream := v' == .stream, respTrailers := false } .responseheaders (.respHeadersHook e)
  | .consume, .respData .ok => mk c []
  | .consume, .respData .tooLarge => cbsErrFire c false
  | .consume, .respData .stream =>
    -- start_response_stream, then the buffered data is re-dispatched as ResponseData
    mk { c with respStream := true, ss := .stream } [.send true .sh, .send true .sd]
  | .consume, .respEOM ne => sendResponse { c with respBody := ne } false
  | .consume, .respTrailers => mk { c with respTrailers := true } []
  | .stream, .respData _ => mk c [.send true .sd]
  | .stream, .respTrailers => mk { c with respTrailers := true } []  -- sent after the response hook
  | .stream, .respEOM _ => sendResponse c true
  | .errored, _ => mk c []
  | _, _ => crash c

/-- the event grammar, checked when an HttpEvent is handled.  Events are handled in arrival order (events queued
    before a DropStream are still replayed after it, so `dropped` restricts nothing) — unless an exception escaped
    from `__continue` earlier and left part of the queue behind (`stale`): those events are replayed later, after
    newer ones, so the order-related rules are not assumed any more. -/
def grammarOk (c : Core) : AEv → Bool
  | .reqHeaders .. => !c.seenReqHdr && (c.stale || !c.procReqErr)
  | .reqData _ | .reqEOM _ | .reqTrailers => c.stale || !c.procReqErr
  | .reqErr => true
  | .respHeaders .. | .respData _ | .respEOM _ | .respTrailers | .respErr => c.attached
  | _ => false

def badCore : Core := { bad := true, cs := .errored, ss := .errored }

/-- an HttpEvent handled by `_handle_event`; `queued`: it is replayed from `_paused_event_queue` by `__continue` -/
def procEv (c : Core) (ev : AEv) (peek : Bool) (queued : Bool) : W :=
  if c.bad then mk c []
  else if c.pt then mk c []
  else if !grammarOk c ev then mk badCore []
  else
    let q := queued && c.draining
    W.fin q <| match ev with
      | .reqErr => handlePE { c with draining := q, procReqErr := true } false .top peek
      | .respErr => handlePE { c with draining := q } true .top peek
      | .reqHeaders .. => clientEvent { c with draining := q, seenReqHdr := true } ev
      | .reqData _ | .reqEOM _ | .reqTrailers => clientEvent { c with draining := q } ev
      | _ => serverEvent { c with draining := q } ev

-- ------------------------------------------------------------------------------------------------
-- a completion resumes the generator

def applyAction (c : Core) (h : Hook) : Action → Core
  | .pass => c
  | .kill =>   -- `if flow.killable: flow.kill()`
    { c with err := if c.live && c.err != .killed then .killed else c.err, live := c.live && c.err == .killed }
  | .resp => { c with hasResp := true, respKind := .norm, respStream := false, respBody := true, respTrailers := false, connect2xx := true }
  | .stream =>
    { c with reqStream := c.reqStream || (h == .requestheaders || h == .request),
             respStream := c.respStream || (!(h == .requestheaders || h == .request) && c.hasResp) }

/-- flow_done, entered with both sides done -/
def flowDone (c : Core) (before : List Out) : W :=
  if is101 c then
    -- status 101: websocket / raw tcp child layer, the stream becomes a pipe
    mk { c with live := c.live && c.websocket, pt := true } (before ++ [.send true .se])
  else mk { c with live := c.live && c.websocket, dropped := true } (before ++ [.drop, .send true .se])

/-- continuation after the blocking command of suspension point `k` completed (`ok`: connection result) -/
def resume (c : Core) (k : K) (ok : Bool) (peek : Bool) : W :=
  match k with
  | .reqHeadersHook e =>
    if killedNow c peek then killedFire c peek
    else if c.reqStream && !e && !c.hasResp then startRequestStream c false   -- a response set by an addon: consume, do not stream
    else mk { c with cs := .consume, ss := .waitHdr } []
  | .streamConn late =>
    if ok then
      if late then mk { c with attached := true, cs := .stream, m := mon c.m .streamStart } [.send false .rh, .streamStart, .send false .rd]
      else mk { c with attached := true, cs := .stream, ss := .waitHdr, m := mon c.m .streamStart } [.send false .rh, .streamStart]
    else handlePE c true (if late then .streamLate else .streamHdr) peek
  | .requestHookStream =>
    -- trailers are delayed until after the request hook
    if c.ss == .done then flowDone { c with cs := .done } (outIf c.reqTrailers (.send false .rt) ++ [.send false .re])
    else mk { c with cs := .done } (outIf c.reqTrailers (.send false .rt) ++ [.send false .re])
  | .requestHook =>
    if killedNow c peek then killedFire c peek
    else if c.hasResp then fire c .responseheaders .respHeadersEmul
    else mk { c with paused := some .conn } [.getConn]
  | .respHeadersEmul =>
    if killedNow c peek then killedFire c peek
    else sendResponse c false
  | .conn =>
    if ok then mk { c with attached := true } ([.send false .rh] ++ outIf c.reqBody (.send false .rd) ++ outIf c.reqTrailers (.send false .rt) ++ [.send false .re])
    else handlePE c true .top peek
  | .respHeadersHook e =>
    if killedNow c peek then killedFire c peek
    else if c.respStream && !e then mk { c with ss := .stream } [.send true .sh]
    else mk { c with ss := .consume } []
  | .responseHook already =>
    if killedNow c peek then killedSilent { c with ss := .done } peek
    else if c.cs == .done then
      flowDone { c with ss := .done } (outIf (!already) (.send true .sh) ++ outIf (!already && c.respBody) (.send true .sd) ++ outIf c.respTrailers (.send true .st))
    else mk { c with ss := .done } (outIf (!already) (.send true .sh) ++ outIf (!already && c.respBody) (.send true .sd) ++ outIf c.respTrailers (.send true .st))
  | .killedErr => killedSilent c false
  | .peErr isResp ret => peAfter c isResp ret peek
  | .cbsHdr request => cbsErrFire c request
  | .cbsErr true => mk { c with cs := .errored, live := false } [.send true .sx]
  | .cbsErr false => mk { c with cs := .errored, ss := .errored, live := false } [.send true .sx, .send false .rx]
  | .invHdr => fire c .error (.invErr true)
  | .invErr _ => mk { c with live := false, cs := .errored, ss := .errored } [.send true .sx]
  | .connectHook =>
    if killedNow c peek then killedSilent c peek
    else if !c.hasResp then mk { c with paused := some .connectOpen } [.openConn]      -- regular mode, connection_strategy eager
    else connectFinish c
  | .connectOpen =>
    if ok then connectFinish c
    else connectFinish { c with hasResp := true, connect2xx := false, respBody := true }
  | .connectedHook => mk { c with pt := true } (connectSends c)
  | .connectErrHook => mk { c with cs := .errored, live := false } (connectSends c)

/-- a CommandCompleted event for the command the layer is paused on -/
def procDone (c : Core) (ev : AEv) (peek : Bool) : W :=
  if c.bad then mk c []
  else match c.paused with
  | none => mk badCore []
  | some k =>
    match ev, k.hook with
    | .hookDone h a, some h' =>
      if h == h' then W.fin true (resume (applyAction { c with paused := none, draining := true } h a) k true peek)
      else mk badCore []
    | .connDone ok, none =>
      if k == .connectOpen then mk badCore [] else W.fin true (resume { c with paused := none, draining := true } k ok peek)
    | .openDone ok, none =>
      if k == .connectOpen then W.fin true (resume { c with paused := none, draining := true } k ok peek) else mk badCore []
    | _, _ => mk badCore []

-- ------------------------------------------------------------------------------------------------
-- concrete layer: sizes and the paused-event queue

inductive Ev where
  | reqHeaders (endStream : Bool) (esize : Nat) (kind : ReqKind) (ws : Bool)
  | reqData (n : Nat)
  | reqEOM
  | reqTrailers
  | reqErr
  | respHeaders (endStream : Bool) (esize : Nat) (kind : RespKind)
  | respData (n : Nat)
  | respEOM
  | respTrailers
  | respErr
  | hookDone (h : Hook) (a : Action)
  | connDone (ok : Bool)
  | openDone (ok : Bool)
  deriving DecidableEq, Repr, Inhabited, Hashable

def Ev.isDone : Ev → Bool
  | .hookDone _ _ | .connDone _ | .openDone _ => true
  | _ => false

def Ev.isReqErr : Ev → Bool
  | .reqErr => true
  | _ => false

structure St where
  core : Core := {}
  limit : Nat := 0        -- body_size_limit (0: unset)
  thresh : Nat := 0       -- stream_large_bodies (0: unset)
  reqBuf : Nat := 0       -- len(request_body_buf)
  respBuf : Nat := 0
  queue : List Ev := []   -- _paused_event_queue
  crashed : Bool := false -- the last call of _handle_event raised
  outs : List Out := []   -- every command emitted so far, oldest first
  deriving Repr, Inhabited

/-- check_body_size steps 1–3 on an expected size (0: unknown / none) -/
def verdict (limit thresh expected : Nat) : Verdict :=
  if expected = 0 then .ok
  else if limit ≠ 0 ∧ expected > limit then .tooLarge
  else if thresh ≠ 0 ∧ expected > thresh then .stream
  else .ok

/-- abstraction of a concrete event in state `s` (the buffers as they are when the event is handled) -/
def abstractEv (s : St) : Ev → AEv
  | .reqHeaders e n k ws => .reqHeaders e k ws (verdict s.limit s.thresh n)
  | .reqData n => .reqData (verdict s.limit s.thresh (s.reqBuf + n))
  | .reqEOM => .reqEOM (decide (s.reqBuf > 0))
  | .reqErr => .reqErr
  | .reqTrailers => .reqTrailers
  | .respTrailers => .respTrailers
  | .respHeaders e n k => .respHeaders e k (verdict s.limit s.thresh n)
  | .respData n => .respData (verdict s.limit s.thresh (s.respBuf + n))
  | .respEOM => .respEOM (decide (s.respBuf > 0))
  | .respErr => .respErr
  | .hookDone h a => .hookDone h a
  | .connDone ok => .connDone ok
  | .openDone ok => .openDone ok

/-- buffer bookkeeping of state_consume_request_body / state_consume_response_body / check_body_size -/
def bufAfter (s : St) (ev : Ev) : Nat × Nat :=
  let live := !s.core.bad && !s.core.pt
  match ev with
  | .reqData n =>
    if live && s.core.cs == .consume then
      if verdict s.limit s.thresh (s.reqBuf + n) == .stream && !s.core.hasResp then (0, s.respBuf) else (s.reqBuf + n, s.respBuf)
    else (s.reqBuf, s.respBuf)
  | .reqEOM => if live && s.core.cs == .consume then (0, s.respBuf) else (s.reqBuf, s.respBuf)
  | .respData n =>
    if live && s.core.ss == .consume then
      if verdict s.limit s.thresh (s.respBuf + n) == .stream then (s.reqBuf, 0) else (s.reqBuf, s.respBuf + n)
    else (s.reqBuf, s.respBuf)
  | .respEOM => if live && s.core.ss == .consume then (s.reqBuf, 0) else (s.reqBuf, s.respBuf)
  | _ => (s.reqBuf, s.respBuf)

/-- one call of `_handle_event` / `__continue`'s first part on event `ev` (the queue is what remains) -/
def handleNow (s : St) (ev : Ev) (queued : Bool) : St :=
  let peek := s.queue.any Ev.isReqErr
  let a := abstractEv s ev
  let w := if ev.isDone then procDone s.core a peek else procEv s.core a peek queued
  let (rb, sb) := bufAfter s ev
  { s with core := w.c, crashed := w.crashed, reqBuf := rb, respBuf := sb, outs := s.outs ++ w.out }

/-- `__continue`'s loop: replay queued events until paused again (or an exception escaped) -/
def drain : Nat → St → St
  | 0, s => s
  | fuel + 1, s =>
    if s.core.paused.isSome || s.crashed then s
    else match s.queue with
      | [] => s
      | e :: q => drain fuel (handleNow { s with queue := q } e true)

/-- `Layer.handle_event` -/
def step (s : St) (ev : Ev) : St :=
  if s.core.paused.isSome then
    if ev.isDone then
      let s := handleNow s ev false
      drain s.queue.length s
    else { s with queue := s.queue ++ [ev] }
  else handleNow s ev false

def init (limit thresh : Nat) : St := { limit, thresh }

def run (limit thresh : Nat) (evs : List Ev) : St := evs.foldl step (init limit thresh)

/-- the commands emitted so far, oldest first -/
def St.trace (s : St) : List Out := s.outs

/-- the environment has closed the client side of this stream and nothing is pending -/
def St.settled (s : St) : Bool :=
  s.core.paused.isNone && (s.core.procReqErr || s.core.dropped)

end MitmVerif.C03
