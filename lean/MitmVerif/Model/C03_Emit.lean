/-
  C03 — the emitter: what `Http1Server`, `Http1Client`, `HttpLayer` and the proxy server can deliver to ONE
  `HttpStream`, as a closed loop with the stream model (the emitter sees what the stream emitted).

  * request side (Http1Server / Http2Server for this stream id): `RequestHeaders` once; then `RequestData`*,
    (HTTP/2: `RequestTrailers`) and `RequestEndOfMessage` while the body is being read; `RequestProtocolError` at any time after the headers (bad
    body → the connection is closed; disconnect while waiting; the closed connection reporting EOF again) — and after
    a protocol error nothing but further protocol errors.
  * response side (Http1Client of the connection the request went to): any response event, but only once the stream
    has sent its request headers upstream (`attached`).
  * completions: `HookCompleted` / `GetHttpConnectionCompleted` / `OpenConnectionCompleted` exactly for the command
    the stream is blocked on (`HttpLayer.command_sources` routes a completion to the stream that issued it).
-/
import MitmVerif.Model.C03
namespace MitmVerif.C03

inductive RqPhase where
  | none | body | ended | errored
  deriving DecidableEq, Repr, Inhabited

def Ev.isReqPart : Ev → Bool
  | .reqHeaders .. | .reqData _ | .reqEOM | .reqTrailers => true
  | _ => false

def Ev.isReqHeaders : Ev → Bool
  | .reqHeaders .. => true
  | _ => false

def Ev.isResp : Ev → Bool
  | .respHeaders .. | .respData _ | .respEOM | .respTrailers | .respErr => true
  | _ => false

/-- may the environment deliver `ev` now? -/
def enabled (s : St) (rq : RqPhase) : Ev → Bool
  | .reqHeaders .. => rq == .none
  | .reqData _ | .reqEOM | .reqTrailers => rq == .body
  | .reqErr => rq != .none
  | .respHeaders .. | .respData _ | .respEOM | .respTrailers | .respErr => s.core.attached
  | .hookDone h _ => match s.core.paused with
    | some k => k.hook == some h
    | none => false
  | .connDone _ => match s.core.paused with
    | some k => k.hook.isNone && k != .connectOpen
    | none => false
  | .openDone _ => s.core.paused == some .connectOpen

def rqNext (rq : RqPhase) : Ev → RqPhase
  | .reqHeaders .. => .body
  | .reqEOM => .ended
  | .reqErr => .errored
  | _ => rq

/-- every event of the history was one the emitter could deliver when it did -/
def admissible : St → RqPhase → List Ev → Bool
  | _, _, [] => true
  | s, rq, ev :: evs => enabled s rq ev && admissible (step s ev) (rqNext rq ev) evs

def Admissible (l t : Nat) (evs : List Ev) : Prop := admissible (init l t) .none evs = true

end MitmVerif.C03
