/-
  C03 — a compact numbering of `Core` states (mixed radix), used to write down the certificate of reachable
  abstract states (`Lemmas/C03Cert.lean`) as a list of numerals.  Only `dec` is used in proofs; `enc` is used by
  the certificate generator (`mv_c03 cert`), and nothing is assumed about the two being inverse.
-/
import MitmVerif.Model.C03
namespace MitmVerif.C03

def CS.toNat : CS → Nat
  | .uninit => 0 | .waitHdr => 1 | .consume => 2 | .stream => 3 | .done => 4 | .errored => 5
def CS.fromN : Nat → CS
  | 0 => .uninit | 1 => .waitHdr | 2 => .consume | 3 => .stream | 4 => .done | _ => .errored
def SS.toNat : SS → Nat
  | .uninit => 0 | .waitHdr => 1 | .consume => 2 | .stream => 3 | .done => 4 | .errored => 5
def SS.fromN : Nat → SS
  | 0 => .uninit | 1 => .waitHdr | 2 => .consume | 3 => .stream | 4 => .done | _ => .errored
def ErrK.toNat : ErrK → Nat
  | .none => 0 | .killed => 1 | .other => 2
def ErrK.fromN : Nat → ErrK
  | 0 => .none | 1 => .killed | _ => .other
def RespKind.toNat : RespKind → Nat
  | .norm => 0 | .ws101 => 1 | .up101 => 2 | .invalid => 3
def RespKind.fromN : Nat → RespKind
  | 0 => .norm | 1 => .ws101 | 2 => .up101 | _ => .invalid
def Ret.toNat : Ret → Nat
  | .top => 0 | .streamHdr => 1 | .streamLate => 2
def Ret.fromN : Nat → Ret
  | 0 => .top | 1 => .streamHdr | _ => .streamLate
def b2n (b : Bool) : Nat := if b then 1 else 0
def n2b (n : Nat) : Bool := n % 2 == 1

/-- 0 = not paused -/
def pausedToNat : Option K → Nat
  | none => 0
  | some (.reqHeadersHook e) => 1 + b2n e
  | some (.streamConn l) => 3 + b2n l
  | some .requestHookStream => 5
  | some .requestHook => 6
  | some .respHeadersEmul => 7
  | some .conn => 8
  | some (.respHeadersHook e) => 9 + b2n e
  | some (.responseHook a) => 11 + b2n a
  | some .killedErr => 13
  | some (.peErr r ret) => 14 + 3 * b2n r + ret.toNat
  | some (.cbsHdr r) => 20 + b2n r
  | some (.cbsErr r) => 22 + b2n r
  | some .invHdr => 24
  | some (.invErr r) => 25 + b2n r
  | some .connectHook => 27
  | some .connectOpen => 28
  | some .connectedHook => 29
  | some .connectErrHook => 30

def pausedOfNat (n : Nat) : Option K :=
  if n = 0 then none
  else if n < 3 then some (.reqHeadersHook (n == 2))
  else if n < 5 then some (.streamConn (n == 4))
  else if n = 5 then some .requestHookStream
  else if n = 6 then some .requestHook
  else if n = 7 then some .respHeadersEmul
  else if n = 8 then some .conn
  else if n < 11 then some (.respHeadersHook (n == 10))
  else if n < 13 then some (.responseHook (n == 12))
  else if n = 13 then some .killedErr
  else if n < 20 then some (.peErr (n ≥ 17) (Ret.fromN ((n - 14) % 3)))
  else if n < 22 then some (.cbsHdr (n == 21))
  else if n < 24 then some (.cbsErr (n == 23))
  else if n = 24 then some .invHdr
  else if n < 27 then some (.invErr (n == 26))
  else if n = 27 then some .connectHook
  else if n = 28 then some .connectOpen
  else if n = 29 then some .connectedHook
  else some .connectErrHook

def Mon.enc (m : Mon) : Nat :=
  b2n m.fRH + 2 * (b2n m.fReq + 2 * (b2n m.fRespH + 2 * (b2n m.fResp + 2 * (b2n m.fErr + 2 * (b2n m.streamed
    + 2 * (b2n m.v1 + 2 * (b2n m.v2 + 2 * (b2n m.v3 + 2 * (b2n m.v4 + 2 * b2n m.v5)))))))))

def Mon.dec (n : Nat) : Mon :=
  { fRH := n2b n, fReq := n2b (n / 2), fRespH := n2b (n / 4), fResp := n2b (n / 8), fErr := n2b (n / 16),
    streamed := n2b (n / 32), v1 := n2b (n / 64), v2 := n2b (n / 128), v3 := n2b (n / 256), v4 := n2b (n / 512),
    v5 := n2b (n / 1024) }

/-- the 20 boolean fields, in a fixed order -/
def Core.flags (c : Core) : List Bool :=
  [c.pt, false, c.hasFlow, c.live, c.hasResp, c.reqStream, c.respStream, c.reqWs, c.websocket, c.isConnect,
   c.connect2xx, c.reqBody, c.respBody, c.attached, c.dropped, c.procReqErr, c.seenReqHdr, c.draining, c.stale, c.bad]

def bitsToNat : List Bool → Nat
  | [] => 0
  | b :: bs => b2n b + 2 * bitsToNat bs

def Core.enc (c : Core) : Nat :=
  c.cs.toNat + 6 * (c.ss.toNat + 6 * (pausedToNat c.paused + 31 * (c.err.toNat + 3 * (c.respKind.toNat
    + 4 * (c.m.enc + 2048 * bitsToNat c.flags)))))

def Core.dec (n : Nat) : Core :=
  let cs := n % 6; let n := n / 6
  let ss := n % 6; let n := n / 6
  let p := n % 31; let n := n / 31
  let e := n % 3; let n := n / 3
  let rk := n % 4; let n := n / 4
  let m := n % 2048; let f := n / 2048
  { cs := CS.fromN cs, ss := SS.fromN ss, paused := pausedOfNat p, err := ErrK.fromN e, respKind := RespKind.fromN rk,
    m := Mon.dec m,
    pt := n2b f, hasFlow := n2b (f / 4), live := n2b (f / 8), hasResp := n2b (f / 16),
    reqStream := n2b (f / 32), respStream := n2b (f / 64), reqWs := n2b (f / 128), websocket := n2b (f / 256),
    isConnect := n2b (f / 512), connect2xx := n2b (f / 1024), reqBody := n2b (f / 2048), respBody := n2b (f / 4096),
    attached := n2b (f / 8192), dropped := n2b (f / 16384), procReqErr := n2b (f / 32768),
    seenReqHdr := n2b (f / 65536), draining := n2b (f / 131072), stale := n2b (f / 262144), bad := n2b (f / 524288) }

end MitmVerif.C03
