/-
  C03 — the inductive invariant of the abstract core, as a computable predicate (so that the driver can
  test it on the reachable set: `mv_c03 checkinv`).  It only mentions the control skeleton and ghost state,
  never the auxiliary flow attributes (`err`, `hasResp`, `respKind`, `reqStream`, `respStream`, `reqWs`, …):
  the lifecycle order holds whatever the addons do with those.
-/
import MitmVerif.Model.C03
namespace MitmVerif.C03

@[inline] def imp (a b : Bool) : Bool := !a || b

def isErrHookK : Option K → Bool
  | some .killedErr | some (.peErr _ _) | some (.cbsErr _) | some (.invErr _) => true
  | _ => false

/-- suspension points at which responseheaders has fired while server_state is still wait_for_response_headers -/
def isRespSideK : Option K → Bool
  | some (.respHeadersHook _) | some (.cbsHdr false) | some (.cbsErr false) | some .killedErr => true
  | _ => false

def isRespHookK : Option K → Bool
  | some (.responseHook _) => true
  | _ => false

/-- what being suspended at `k` implies (a function of the few fields it mentions, so that it is
    syntactically insensitive to updates of the others) -/
def pausedOK (cs : CS) (ss : SS) (m : Mon) (procReqErr attached isConnect : Bool) : K → Bool
  | .reqHeadersHook _ => cs == .waitHdr && ss == .uninit && m.fRH && !m.fErr && !procReqErr
  | .streamConn false => cs == .waitHdr && ss == .uninit && m.fRH && !m.fErr && !procReqErr
  | .streamConn true => cs == .consume && ss == .waitHdr && m.fRH && !m.fErr && !procReqErr
  | .requestHookStream => cs == .stream && m.fReq && !procReqErr
  | .requestHook => cs == .done && ss == .waitHdr && m.fReq && !m.fRespH && !m.fErr && !attached && !isConnect
  | .respHeadersEmul => cs == .done && ss == .waitHdr && m.fReq && m.fRespH && !m.fResp && !m.fErr && !attached
  | .conn => cs == .done && ss == .waitHdr && m.fReq && !m.fRespH && !m.fErr && !attached && !isConnect
  | .respHeadersHook _ => ss == .waitHdr && m.fRespH && !m.fResp && !m.fErr && attached
  | .responseHook _ => m.fRespH && m.fResp && (ss == .waitHdr || ss == .consume || ss == .stream)
  | .killedErr => m.fErr
  | .peErr isResp ret => m.fErr && (isResp || cs == .errored) &&
      (match ret with
       | .top => imp isResp (cs != .consume && cs != .waitHdr)
       | .streamHdr => isResp && cs == .waitHdr && ss == .uninit
       | .streamLate => isResp && cs == .consume && ss == .waitHdr)
  | .cbsHdr true => cs == .waitHdr && ss == .uninit && m.fRH && !m.fErr
  | .cbsHdr false => ss == .waitHdr && m.fRespH && !m.fResp && !m.fErr
  | .cbsErr true => m.fErr && (cs == .waitHdr || cs == .consume)
  | .cbsErr false => m.fErr
  | .invHdr => cs == .waitHdr && ss == .uninit && m.fRH && !m.fErr
  | .invErr _ => m.fErr
  | .connectHook | .connectOpen | .connectedHook | .connectErrHook => isConnect && cs == .done

def InvB (c : Core) : Bool :=
  c.bad ||
  (let m := c.m
   -- the monitor never rejected
   !m.v1 && !m.v2 && !m.v3 && !m.v4 && !m.v5
   -- relations between the hooks fired
   && imp (m.fReq || m.fRespH || m.fResp || m.fErr || m.streamed) m.fRH
   && imp m.fResp m.fRespH && !(m.fResp && m.fErr) && imp (m.fRespH && !m.fReq) m.streamed
   && imp c.attached (m.fReq || m.streamed)
   && imp m.fRH c.hasFlow && imp c.hasFlow c.seenReqHdr && imp c.live c.hasFlow
   && imp c.isConnect (c.hasFlow && !m.fRH)
   -- before the request headers arrived nothing has happened
   && imp (!c.seenReqHdr) (c.paused.isNone && !c.stale && !c.draining && !c.dropped && !c.attached && !c.pt
                           && c.cs == .waitHdr && c.ss == .uninit && !c.isConnect)
   -- an outcome state has an outcome hook; an outcome hook has an outcome state (or is being delivered)
   && imp (m.fRH && (c.cs == .errored || c.ss == .errored || c.ss == .done)) (m.fResp || m.fErr)
   && imp m.fResp (c.ss == .done || c.ss == .errored || isRespHookK c.paused)
   && imp m.fErr (c.cs == .errored || c.ss == .errored || isErrHookK c.paused)
   -- request side
   && c.cs != .uninit
   && imp (c.cs == .waitHdr || c.cs == .consume) (!m.fReq && !c.attached && !m.fRespH)
   && imp (c.cs == .consume || c.cs == .stream) m.fRH
   && imp (c.cs == .consume) (c.ss == .waitHdr)
   && imp (c.cs == .stream) (c.attached && m.streamed && imp m.fReq (c.paused == some .requestHookStream))
   && imp (c.cs == .done) (m.fReq || c.isConnect)
   -- response side
   && imp (c.ss == .uninit) (!c.attached && !m.fRespH)
   && imp (c.ss == .waitHdr && c.attached) (imp m.fRespH (isRespSideK c.paused) && imp m.fErr (isErrHookK c.paused))
   && imp (c.ss == .consume || c.ss == .stream) (m.fRespH && c.attached)
   && imp (c.attached && (c.ss == .waitHdr || c.ss == .consume || c.ss == .stream)) (c.cs == .stream || c.cs == .done)
   -- flows without lifecycle hooks (CONNECT, no host header) are finished whenever the layer is not paused
   && imp (c.hasFlow && !m.fRH && c.paused.isNone && !c.pt) (c.cs == .errored)
   -- the suspension point
   && (match c.paused with | none => true | some k => pausedOK c.cs c.ss c.m c.procReqErr c.attached c.isConnect k)
   -- closure
   && imp (c.procReqErr && c.hasFlow) (c.cs == .errored)
   && imp (c.dropped && m.fRH) (m.fResp || m.fErr)
   && imp (c.live && c.dropped) c.websocket
   && imp (c.live && c.procReqErr) (match c.paused with | some (.peErr false _) => true | _ => false))

end MitmVerif.C03
