/-
  C03 — the inductive invariant of the abstract core, as a computable predicate (so that the driver can
  test it on the reachable set: `mv_c03 checkinv`).  It only mentions the control skeleton and ghost state,
  never the auxiliary flow attributes (`err`, `hasResp`, `respKind`, `reqStream`, `respStream`, `reqWs`, …):
  the lifecycle order holds whatever the addons do with those.
-/
import MitmVerif.Model.C03
namespace MitmVerif.C03

@[inline] def imp (a b : Bool) : Bool := !a || b

def isErrHookK : Option K → Bool
  | some .killedErr | some (.peErr _ _) | some (.cbsErr _) | some (.invErr _) => true
  | _ => false

/-- suspension points at which responseheaders has fired while server_state is still wait_for_response_headers -/
def isRespSideK : Option K → Bool
  | some (.respHeadersHook _) | some (.cbsHdr false) | some (.cbsErr false) | some .killedErr => true
  | _ => false

def isRespHookK : Option K → Bool
  | some (.responseHook _) => true
  | _ => false

/-- what being suspended at `k` implies -/
def pausedOK (c : Core) : K → Bool
  | .reqHeadersHook _ => c.cs == .waitHdr && c.ss == .uninit && c.m.fRH && !c.m.fErr && !c.procReqErr
  | .streamConn false => c.cs == .waitHdr && c.ss == .uninit && c.m.fRH && !c.m.fErr && !c.procReqErr
  | .streamConn true => c.cs == .consume && c.ss == .waitHdr && c.m.fRH && !c.m.fErr && !c.procReqErr
  | .requestHookStream => c.cs == .stream && c.m.fReq && !c.procReqErr
  | .requestHook => c.cs == .done && c.ss == .waitHdr && c.m.fReq && !c.m.fRespH && !c.m.fErr && !c.attached && !c.isConnect
  | .respHeadersEmul => c.cs == .done && c.ss == .waitHdr && c.m.fReq && c.m.fRespH && !c.m.fResp && !c.m.fErr && !c.attached
  | .conn => c.cs == .done && c.ss == .waitHdr && c.m.fReq && !c.m.fRespH && !c.m.fErr && !c.attached && !c.isConnect
  | .respHeadersHook _ => c.ss == .waitHdr && c.m.fRespH && !c.m.fResp && !c.m.fErr && c.attached
  | .responseHook _ => c.m.fRespH && c.m.fResp && (c.ss == .waitHdr || c.ss == .consume || c.ss == .stream)
  | .killedErr => c.m.fErr
  | .peErr isResp ret => c.m.fErr && (isResp || c.cs == .errored) &&
      (match ret with
       | .top => imp isResp (c.cs != .consume && c.cs != .waitHdr)
       | .streamHdr => isResp && c.cs == .waitHdr && c.ss == .uninit
       | .streamLate => isResp && c.cs == .consume && c.ss == .waitHdr)
  | .cbsHdr true => c.cs == .waitHdr && c.ss == .uninit && c.m.fRH && !c.m.fErr
  | .cbsHdr false => c.ss == .waitHdr && c.m.fRespH && !c.m.fResp && !c.m.fErr
  | .cbsErr true => c.m.fErr && (c.cs == .waitHdr || c.cs == .consume)
  | .cbsErr false => c.m.fErr
  | .invHdr => c.cs == .waitHdr && c.ss == .uninit && c.m.fRH && !c.m.fErr
  | .invErr _ => c.m.fErr
  | .connectHook | .connectOpen | .connectedHook | .connectErrHook => c.isConnect && c.cs == .done

def InvB (c : Core) : Bool :=
  c.bad ||
  (let m := c.m
   -- the monitor never rejected
   !m.v1 && !m.v2 && !m.v3 && !m.v4 && !m.v5
   -- relations between the hooks fired
   && imp (m.fReq || m.fRespH || m.fResp || m.fErr || m.streamed) m.fRH
   && imp m.fResp m.fRespH && !(m.fResp && m.fErr) && imp (m.fRespH && !m.fReq) m.streamed
   && imp c.attached (m.fReq || m.streamed)
   && imp m.fRH c.hasFlow && imp c.hasFlow c.seenReqHdr && imp c.live c.hasFlow
   && imp c.isConnect (c.hasFlow && !m.fRH)
   -- before the request headers arrived nothing has happened
   && imp (!c.seenReqHdr) (c.paused.isNone && !c.stale && !c.draining && !c.dropped && !c.attached && !c.pt
                           && c.cs == .waitHdr && c.ss == .uninit && !c.isConnect)
   -- an outcome state has an outcome hook; an outcome hook has an outcome state (or is being delivered)
   && imp (m.fRH && (c.cs == .errored || c.ss == .errored || c.ss == .done)) (m.fResp || m.fErr)
   && imp m.fResp (c.ss == .done || c.ss == .errored || isRespHookK c.paused)
   && imp m.fErr (c.cs == .errored || c.ss == .errored || isErrHookK c.paused)
   -- request side
   && c.cs != .uninit
   && imp (c.cs == .waitHdr || c.cs == .consume) (!m.fReq && !c.attached && !m.fRespH)
   && imp (c.cs == .consume || c.cs == .stream) m.fRH
   && imp (c.cs == .consume) (c.ss == .waitHdr)
   && imp (c.cs == .stream) (c.attached && m.streamed && imp m.fReq (c.paused == some .requestHookStream))
   && imp (c.cs == .done) (m.fReq || c.isConnect)
   -- response side
   && imp (c.ss == .uninit) (!c.attached && !m.fRespH)
   && imp (c.ss == .waitHdr && c.attached) (imp m.fRespH (isRespSideK c.paused) && imp m.fErr (isErrHookK c.paused))
   && imp (c.ss == .consume || c.ss == .stream) (m.fRespH && c.attached)
   && imp (c.attached && (c.ss == .waitHdr || c.ss == .consume || c.ss == .stream)) (c.cs == .stream || c.cs == .done)
   -- flows without lifecycle hooks (CONNECT, no host header) are finished whenever the layer is not paused
   && imp (c.hasFlow && !m.fRH && c.paused.isNone && !c.pt) (c.cs == .errored)
   -- the suspension point
   && (match c.paused with | none => true | some k => pausedOK c k)
   -- closure
   && imp (c.procReqErr && c.hasFlow) (c.cs == .errored)
   && imp (c.dropped && m.fRH) (m.fResp || m.fErr)
   && imp (c.live && c.dropped) c.websocket
   && imp (c.live && c.procReqErr) (match c.paused with | some (.peErr false _) => true | _ => false))

end MitmVerif.C03
