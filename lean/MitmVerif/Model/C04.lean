/-
  C04 — blocked layers process events exactly once, in order.

  Executable model of `mitmproxy/proxy/layer.py`:

  * `Gen`        a Python generator returned by `Layer._handle_event`, as a resumption tree:
                 it is finished (`done`) or suspended at a `yield cmd` (`yield`), and `k v` is what
                 `generator.send(v)` runs next.  Every node carries the layer's attribute state at that
                 point (`s`), because a layer's attributes live on the heap and stay readable while the
                 generator is suspended.
  * `Blk`        the `Command.blocking` attribute: `False`, `True`, or "a layer object" (`owned`): the
                 hand-off `command.blocking = self` that tells outer layers not to pause.
  * `Cmd`        abstract, with decidable equality = Python object identity
                 (`event.command is self._paused.command`).
  * `run`        `Layer.__process` (and its inlined copy in `handle_event`): drive the generator, passing
                 `None` (`nil`) after every non-blocking command, stop at the first `blocking is True`.
  * `handleEvent`/`drain`   `Layer.handle_event` / `Layer.__continue`.
  * `PGen`/`lower`          a parent layer whose `_handle_event` may `yield from child.handle_event(ev)`.
  * `nlHandler`/`nlHandleEvent`   `NextLayer._handle_event/_ask/handle_event`.

  `log` and `arrived` are ghost fields (no effect on behaviour); the theorems are stated over them.
  Assumption (what proxy/server.py does): the commands produced by one `handle_event` call are consumed
  completely before the next event is delivered, so a call can be modelled as a function returning the
  list of emitted commands.
-/
namespace MitmVerif.C04

inductive Blk where
  | no | yes | owned
  deriving DecidableEq, Repr

inductive Gen (σ Cmd Reply : Type) where
  | done (s : σ)
  | yield (s : σ) (c : Cmd) (b : Blk) (k : Reply → Gen σ Cmd Reply)

inductive Event (Ev Cmd Reply : Type) where
  | plain (e : Ev)
  | completed (c : Cmd) (r : Reply)      -- events.CommandCompleted(command, reply)
  deriving DecidableEq

/-- ghost trace of one layer -/
inductive Entry (Ev Cmd Reply : Type) where
  | handle (ev : Event Ev Cmd Reply)     -- `_handle_event(ev)` is called
  | emit (c : Cmd) (b : Blk)             -- a command leaves `handle_event`, with the `blocking` it carries then
  | pause (c : Cmd)                      -- `_paused = Paused(c, generator)`
  | resume (c : Cmd) (r : Reply)         -- the paused generator (waiting on `c`) is sent `r`

abbrev Out (Cmd : Type) := List (Cmd × Blk)

structure Layer (σ Ev Cmd Reply : Type) where
  st      : σ
  paused  : Option (Cmd × (Reply → Gen σ Cmd Reply))     -- Layer._paused
  queue   : List (Event Ev Cmd Reply)                    -- Layer._paused_event_queue
  log     : List (Entry Ev Cmd Reply)                    -- ghost
  arrived : List (Event Ev Cmd Reply)                    -- ghost: every event passed to handle_event

section core
variable {σ Ev Cmd Reply : Type}

/-- result of driving a generator until it finishes or pauses -/
structure PRes (σ Ev Cmd Reply : Type) where
  st     : σ
  paused : Option (Cmd × (Reply → Gen σ Cmd Reply))
  ents   : List (Entry Ev Cmd Reply)
  out    : Out Cmd

/-- `Layer.__process`: `nil` is Python's `None` sent by `next(generator)` -/
def run (nil : Reply) : Gen σ Cmd Reply → PRes σ Ev Cmd Reply
  | .done s => ⟨s, none, [], []⟩
  | .yield s c b k =>
    match b with
    | .yes => ⟨s, some (c, k), [.emit c .owned, .pause c], [(c, .owned)]⟩
    | b' =>
      let r := run nil (k nil)
      ⟨r.st, r.paused, .emit c b' :: r.ents, (c, b') :: r.out⟩

abbrev Handler (σ Ev Cmd Reply : Type) := σ → Event Ev Cmd Reply → Gen σ Cmd Reply

/-- not paused: `command_generator = self._handle_event(event)` and process it -/
def handleFresh (H : Handler σ Ev Cmd Reply) (nil : Reply) (L : Layer σ Ev Cmd Reply)
    (ev : Event Ev Cmd Reply) : Layer σ Ev Cmd Reply × Out Cmd :=
  let r : PRes σ Ev Cmd Reply := run nil (H L.st ev)
  ({ L with st := r.st, paused := r.paused, log := L.log ++ .handle ev :: r.ents }, r.out)

/-- the `while not self._paused and self._paused_event_queue` loop of `__continue`; the queue is passed
    separately (the `queue` field of the argument is ignored and rewritten) -/
def drain (H : Handler σ Ev Cmd Reply) (nil : Reply) :
    Layer σ Ev Cmd Reply → List (Event Ev Cmd Reply) → Layer σ Ev Cmd Reply × Out Cmd
  | L, [] => ({ L with queue := [] }, [])
  | L, ev :: rest =>
    match L.paused with
    | some _ => ({ L with queue := ev :: rest }, [])
    | none =>
      let r1 := handleFresh H nil L ev
      let r2 := drain H nil r1.1 rest
      (r2.1, r1.2 ++ r2.2)

/-- `Layer.__continue(event)` for the completion `(c, r)` of the command the layer is paused on -/
def resumeWith (H : Handler σ Ev Cmd Reply) (nil : Reply) (L : Layer σ Ev Cmd Reply)
    (c : Cmd) (k : Reply → Gen σ Cmd Reply) (r : Reply) : Layer σ Ev Cmd Reply × Out Cmd :=
  let pr : PRes σ Ev Cmd Reply := run nil (k r)
  let L1 := { L with st := pr.st, paused := pr.paused, log := L.log ++ .resume c r :: pr.ents }
  let r2 := drain H nil L1 L1.queue
  (r2.1, pr.out ++ r2.2)

def enqueue (L : Layer σ Ev Cmd Reply) (ev : Event Ev Cmd Reply) : Layer σ Ev Cmd Reply × Out Cmd :=
  ({ L with queue := L.queue ++ [ev] }, [])

/-- `Layer.handle_event` -/
def handleEvent [DecidableEq Cmd] (H : Handler σ Ev Cmd Reply) (nil : Reply) (L0 : Layer σ Ev Cmd Reply)
    (ev : Event Ev Cmd Reply) : Layer σ Ev Cmd Reply × Out Cmd :=
  let L := { L0 with arrived := L0.arrived ++ [ev] }
  match L.paused with
  | none => handleFresh H nil L ev
  | some (c, k) =>
    match ev with
    | .completed c' r => if c' = c then resumeWith H nil L c k r else enqueue L ev
    | .plain _ => enqueue L ev

/-- a whole schedule -/
def runSched [DecidableEq Cmd] (H : Handler σ Ev Cmd Reply) (nil : Reply) (L : Layer σ Ev Cmd Reply) :
    List (Event Ev Cmd Reply) → Layer σ Ev Cmd Reply
  | [] => L
  | ev :: evs => runSched H nil (handleEvent H nil L ev).1 evs

def Layer.init (s : σ) : Layer σ Ev Cmd Reply := ⟨s, none, [], [], []⟩

end core

/-! ### reference semantics: blocking code (what `sequential_blocking_equivalence` in Props compares with) -/
section reference
variable {σ Ev Cmd Reply : Type}

/-- result of the reference interpreter -/
structure SeqCfg (σ Ev Cmd Reply : Type) where
  st      : σ
  waiting : Option (Cmd × (Reply → Gen σ Cmd Reply))   -- the handler in progress, blocked on this command
  log     : List (Entry Ev Cmd Reply)
  out     : Out Cmd
  todo    : List (Event Ev Cmd Reply)                   -- events whose handler has not been started
  unused  : List Reply

/-- **Reference semantics: blocking code.**  One thread of control, no queue, no command matching, no
    interleaving: `xs` are the events to handle, `rs` the answers to the blocking commands in the order the
    commands are issued.  If a handler is in progress and blocked, it takes the next answer and continues
    (`run` = execute until the handler returns or blocks again); only when no handler is in progress is the
    next event taken and its handler started — the handler bound in the CURRENT state.  It stops when it needs
    an answer / an event that is not there. -/
def seq (H : Handler σ Ev Cmd Reply) (nil : Reply) (st : σ) (waiting : Option (Cmd × (Reply → Gen σ Cmd Reply)))
    (log : List (Entry Ev Cmd Reply)) (out : Out Cmd) (xs : List (Event Ev Cmd Reply)) (rs : List Reply) :
    SeqCfg σ Ev Cmd Reply :=
  match waiting with
  | some (c, k) =>
    match rs with
    | [] => ⟨st, some (c, k), log, out, xs, []⟩
    | r :: rs' =>
      seq H nil (run (Ev := Ev) nil (k r)).st (run (Ev := Ev) nil (k r)).paused
        (log ++ .resume c r :: (run (Ev := Ev) nil (k r)).ents) (out ++ (run (Ev := Ev) nil (k r)).out) xs rs'
  | none =>
    match xs with
    | [] => ⟨st, none, log, out, [], rs⟩
    | ev :: xs' =>
      seq H nil (run (Ev := Ev) nil (H st ev)).st (run (Ev := Ev) nil (H st ev)).paused
        (log ++ .handle ev :: (run (Ev := Ev) nil (H st ev)).ents) (out ++ (run (Ev := Ev) nil (H st ev)).out) xs' rs
termination_by xs.length + rs.length

end reference

/-! ### parent layers relaying child layers -/
section composite
variable {σp σc Ev Cmd Reply : Type}

/-- a parent's `_handle_event` generator: like `Gen`, plus `yield from children[i].handle_event(ev)` -/
inductive PGen (σ Ev Cmd Reply : Type) where
  | done (s : σ)
  | yield (s : σ) (c : Cmd) (b : Blk) (k : Reply → PGen σ Ev Cmd Reply)
  | child (s : σ) (i : Nat) (ev : Event Ev Cmd Reply) (k : PGen σ Ev Cmd Reply)

/-- `yield from <already computed commands>`: the values sent back are ignored by `handle_event` -/
def relay {σ : Type} (s : σ) : Out Cmd → Gen σ Cmd Reply → Gen σ Cmd Reply
  | [], g => g
  | (c, b) :: t, g => .yield s c b (fun _ => relay s t g)

/-- the parent's state is its own attributes plus its child layers -/
def lower [DecidableEq Cmd] (Hc : Nat → Handler σc Ev Cmd Reply) (nil : Reply) :
    PGen σp Ev Cmd Reply → List (Layer σc Ev Cmd Reply) → Gen (σp × List (Layer σc Ev Cmd Reply)) Cmd Reply
  | .done s, chs => .done (s, chs)
  | .yield s c b k, chs => .yield (s, chs) c b (fun r => lower Hc nil (k r) chs)
  | .child s i ev k, chs =>
    match chs[i]? with
    | none => lower Hc nil k chs
    | some ch =>
      let r := handleEvent (Hc i) nil ch ev
      let chs' := chs.set i r.1
      relay (s, chs') r.2 (lower Hc nil k chs')

/-- a layer without children ignores `child` nodes -/
def PGen.flat : PGen σp Ev Cmd Reply → Gen σp Cmd Reply
  | .done s => .done s
  | .yield s c b k => .yield s c b (fun r => (k r).flat)
  | .child _ _ _ k => k.flat

def parentHandler [DecidableEq Cmd] (PH : σp → Event Ev Cmd Reply → PGen σp Ev Cmd Reply)
    (Hc : Nat → Handler σc Ev Cmd Reply) (nil : Reply) :
    Handler (σp × List (Layer σc Ev Cmd Reply)) Ev Cmd Reply :=
  fun s ev => lower Hc nil (PH s.1 ev) s.2

end composite

/-! ### NextLayer -/
section nextlayer
variable {σc Ev Cmd Reply : Type}

inductive NLKind where
  | start | data | clientClosed | other
  deriving DecidableEq, Repr

structure NLParams (Ev Cmd Reply : Type) where
  kind       : Ev → NLKind          -- isinstance tests of `_handle_event`
  askOnStart : Bool
  hookCmd    : Nat → Cmd            -- the n-th command object created by this layer, if it is a NextLayerHook
  closeCmd   : Nat → Cmd            -- … if it is CloseConnection(client)
  decide     : Reply → Bool         -- did the addon set `data.layer` while the hook was pending

structure NLState (σc Ev Cmd Reply : Type) where
  events : List (Event Ev Cmd Reply)          -- NextLayer.events
  child  : Layer σc Ev Cmd Reply              -- the layer the addon assigns (untouched until chosen)
  handed : Bool                               -- `_handle is not None`
  ctr    : Nat

/-- `for e in self.events: yield from self.layer.handle_event(e)` -/
def replay [DecidableEq Cmd] (Hc : Handler σc Ev Cmd Reply) (nil : Reply) :
    Layer σc Ev Cmd Reply → List (Event Ev Cmd Reply) → Layer σc Ev Cmd Reply × Out Cmd
  | ch, [] => (ch, [])
  | ch, e :: t =>
    let r := handleEvent Hc nil ch e
    let r2 := replay Hc nil r.1 t
    (r2.1, r.2 ++ r2.2)

/-- the rest of `_ask` after `yield NextLayerHook(self)` -/
def nlAskCont [DecidableEq Cmd] (P : NLParams Ev Cmd Reply) (Hc : Handler σc Ev Cmd Reply) (nil : Reply)
    (s : NLState σc Ev Cmd Reply) : Reply → Gen (NLState σc Ev Cmd Reply) Cmd Reply :=
  fun r =>
    if P.decide r then
      let rp := replay Hc nil s.child s.events
      let s' : NLState σc Ev Cmd Reply := { s with events := [], child := rp.1, handed := true }
      relay s' rp.2 (.done s')
    else .done s

def nlKind (P : NLParams Ev Cmd Reply) : Event Ev Cmd Reply → NLKind
  | .plain e => P.kind e
  | .completed _ _ => .other

def nlAsk [DecidableEq Cmd] (P : NLParams Ev Cmd Reply) (Hc : Handler σc Ev Cmd Reply) (nil : Reply)
    (s1 : NLState σc Ev Cmd Reply) : Gen (NLState σc Ev Cmd Reply) Cmd Reply :=
  let s2 := { s1 with ctr := s1.ctr + 1 }
  .yield s2 (P.hookCmd s1.ctr) .yes (nlAskCont P Hc nil s2)

/-- `NextLayer._handle_event`; after the hand-over it is `self.layer.handle_event` -/
def nlHandler [DecidableEq Cmd] (P : NLParams Ev Cmd Reply) (Hc : Handler σc Ev Cmd Reply) (nil : Reply) :
    Handler (NLState σc Ev Cmd Reply) Ev Cmd Reply :=
  fun s ev =>
    if s.handed then
      let r := handleEvent Hc nil s.child ev
      let s' := { s with child := r.1 }
      relay s' r.2 (.done s')
    else
      let s1 := { s with events := s.events ++ [ev] }
      match nlKind P ev with
      | .start => if P.askOnStart then nlAsk P Hc nil s1 else .done s1
      | .data => nlAsk P Hc nil s1
      | .clientClosed =>
        let s2 := { s1 with ctr := s1.ctr + 1 }
        .yield s2 (P.closeCmd s1.ctr) .no (fun _ => .done s2)
      | .other => .done s1

/-- `NextLayer.handle_event` -/
def nlHandleEvent [DecidableEq Cmd] (P : NLParams Ev Cmd Reply) (Hc : Handler σc Ev Cmd Reply) (nil : Reply)
    (L : Layer (NLState σc Ev Cmd Reply) Ev Cmd Reply) (ev : Event Ev Cmd Reply) :
    Layer (NLState σc Ev Cmd Reply) Ev Cmd Reply × Out Cmd :=
  if L.st.handed then
    let r := handleEvent Hc nil L.st.child ev
    ({ L with st := { L.st with child := r.1 }, arrived := L.arrived ++ [ev] }, r.2)
  else handleEvent (nlHandler P Hc nil) nil L ev

def nlRunSched [DecidableEq Cmd] (P : NLParams Ev Cmd Reply) (Hc : Handler σc Ev Cmd Reply) (nil : Reply)
    (L : Layer (NLState σc Ev Cmd Reply) Ev Cmd Reply) :
    List (Event Ev Cmd Reply) → Layer (NLState σc Ev Cmd Reply) Ev Cmd Reply
  | [] => L
  | ev :: evs => nlRunSched P Hc nil (nlHandleEvent P Hc nil L ev).1 evs

def nlInit (ch : Layer σc Ev Cmd Reply) : Layer (NLState σc Ev Cmd Reply) Ev Cmd Reply :=
  Layer.init ⟨[], ch, false, 0⟩

end nextlayer

/-! ### the program interpreter used by the correspondence run (mirrors harness/c04.py `ProgLayer`) -/
namespace Prog

structure Cmd where
  layer : Nat
  n     : Nat
  label : Nat
  seen  : Nat
  deriving DecidableEq, Repr

structure Ev where
  label : Nat
  uid   : Nat
  deriving DecidableEq, Repr

abbrev Reply := Nat
abbrev E := Event Ev Cmd Reply

structure S where
  ctr  : Nat
  seen : Nat
  deriving Repr

inductive Act where
  | y (label : Nat) (blocking : Bool)
  | ch (i : Nat)
  | sw (m : Nat)          -- re-bind `self._handle_event` to handler number m (only meaningful for `Node`s)
  deriving Repr

abbrev Table := List (List Act)

/-- owners of the commands of child i's subtree, for layer `idx` of the fixed tree 1-(2-(4),3-(5)) -/
def subtree (idx i : Nat) : List Nat :=
  match idx, i with
  | 1, 0 => [2, 4]
  | 1, 1 => [3, 5]
  | 2, 0 => [4]
  | 3, 0 => [5]
  | _, _ => []

def kindOf (idx : Nat) : E → Nat
  | .plain e => e.label
  | .completed c _ =>
    if c.layer = idx then 7
    else if (subtree idx 0).contains c.layer then 8
    else if (subtree idx 1).contains c.layer then 9
    else 10

def runActs (idx : Nat) (ev : E) : List Act → S → PGen S Ev Cmd Reply
  | [], s => .done s
  | .y label b :: t, s =>
    let c : Cmd := ⟨idx, s.ctr, label, s.seen⟩
    let s1 : S := { s with ctr := s.ctr + 1 }
    .yield s1 c (if b then .yes else .no) (fun r => runActs idx ev t { s1 with seen := r })
  | .ch i :: t, s => .child s i ev (runActs idx ev t s)
  | .sw _ :: t, s => runActs idx ev t s

def interp (idx : Nat) (tab : Table) (s : S) (ev : E) : PGen S Ev Cmd Reply :=
  runActs idx ev (tab.getD (kindOf idx ev) []) s

/-! #### layer trees of arbitrary depth and branching, with re-bindable handlers -/

/-- the attributes of one layer of a tree: interpreter registers, its index, one program table per handler
    (`self._handle_event = self._handlers[m]` selects table m), and for each child the owners of the
    commands of that child's subtree (to route completions) -/
structure Node where
  s     : S
  mode  : Nat
  idx   : Nat
  tabs  : List Table
  route : List (List Nat)

def kindOfN (n : Node) : E → Nat
  | .plain e => e.label
  | .completed c _ =>
    if c.layer = n.idx then 7
    else match n.route.findIdx? (fun l => l.contains c.layer) with
      | some i => if i < 3 then 8 + i else 11
      | none => 11

def runActsN (ev : E) : List Act → Node → PGen Node Ev Cmd Reply
  | [], n => .done n
  | .y label b :: t, n =>
    let c : Cmd := ⟨n.idx, n.s.ctr, label, n.s.seen⟩
    let n1 : Node := { n with s := { n.s with ctr := n.s.ctr + 1 } }
    .yield n1 c (if b then .yes else .no) (fun r => runActsN ev t { n1 with s := { n1.s with seen := r } })
  | .ch i :: t, n => .child n i ev (runActsN ev t n)
  | .sw m :: t, n => runActsN ev t { n with mode := m }

/-- the handler currently bound: table `mode` of the node as it is NOW -/
def interpN (n : Node) (ev : E) : PGen Node Ev Cmd Reply :=
  runActsN ev ((n.tabs.getD n.mode []).getD (kindOfN n ev) []) n

/-- state of a tree of height ≤ d+1: a node and the layers of its children (any number of them) -/
def TS : Nat → Type
  | 0 => Node
  | d + 1 => Node × List (Layer (TS d) Ev Cmd Reply)

/-- the handler of a tree of height ≤ d+1 -/
def HT : (d : Nat) → Handler (TS d) Ev Cmd Reply
  | 0 => fun n ev => (interpN n ev).flat
  | d + 1 => parentHandler interpN (fun _ => HT d) 0

end Prog

end MitmVerif.C04
