/-
  C05 — HTTP/2 streams are isolated and correctly mapped.

  Model `H2Map` of
    * `_http_h2.BufferedH2Connection` — per-stream send buffers (`stream_buffers`, an insertion-ordered dict of
      FIFOs of `SendH2Data(data, end_stream)`), `stream_trailers`, `send_data` (splitting at the peer's maximum
      frame size, sending what the flow-control window allows, buffering the rest), `send_trailers`, `end_stream`,
      `reset_stream`, `stream_window_updated`, `connection_window_updated` (round robin) and the post-processing
      of `receive_data` (WINDOW_UPDATE, SETTINGS INITIAL_WINDOW_SIZE, RST_STREAM, GOAWAY);
    * `_http2.Http2Client` — `our_stream_id` / `their_stream_id`, `stream_queue`, `provisional_max_concurrency`,
      the resume rule at the end of `_handle_event` (with its recursion, modelled by an explicit call stack),
      `_handle_event2` / `Http2Connection._handle_event` for the five request events, `handle_h2_event` for the
      events hyper-h2 reports, `close_connection` / `protocol_error` and the failing of queued streams;
    * `HttpLayer.streams` routing by stream id (`route`).
  hyper-h2 itself is abstracted to what mitmproxy reads from it: per stream the flow-control window and whether
  each side is still open (so: `open_outbound_streams`, `is_open_for_us`, `is_closed`), the connection window,
  `max_outbound_frame_size`, `remote_settings.max_concurrent_streams / initial_window_size`,
  `get_next_available_stream_id`.  Its inputs are the EVENTS hyper-h2 reports for a received segment.
-/
import MitmVerif.Basic.Bytes
namespace MitmVerif.C05
open MitmVerif

/-! ### hyper-h2 as far as mitmproxy looks at it, and the send buffers on top -/

structure Chunk where
  data : Bytes
  fin : Bool
deriving Repr, DecidableEq

inductive Frame where
  | hdr (sid : Nat) (fin : Bool)
  | data (sid : Nat) (b : Bytes) (fin : Bool)
  | trailers (sid : Nat)
  | rst (sid : Nat)
deriving Repr, DecidableEq

structure Stream where
  win : Int
  localOpen : Bool      -- END_STREAM not yet sent by us
  remoteOpen : Bool     -- END_STREAM not yet received
  rst : Bool
deriving Repr, DecidableEq

def Stream.live (s : Stream) : Bool := s.localOpen && !s.rst
def Stream.closed (s : Stream) : Bool := s.rst || (!s.localOpen && !s.remoteOpen)

structure Conn where
  connWin : Int
  mfs : Nat
  iws : Int
  streams : List (Nat × Stream)
  bufs : List (Nat × List Chunk)     -- stream_buffers (dict order); no entry is empty
  trl : List Nat                      -- keys of stream_trailers
  out : List Frame
  dead : Bool                         -- GOAWAY received: h2's connection state machine is CLOSED
deriving Repr

def Conn.init : Conn := ⟨65535, 16384, 65535, [], [], [], [], false⟩

def alookup {α : Type} (k : Nat) : List (Nat × α) → Option α
  | [] => none
  | (k', v) :: rest => if k' = k then some v else alookup k rest

def aset {α : Type} (k : Nat) (v : α) : List (Nat × α) → List (Nat × α)
  | [] => [(k, v)]
  | (k', v') :: rest => if k' = k then (k, v) :: rest else (k', v') :: aset k v rest

def aerase {α : Type} (k : Nat) (l : List (Nat × α)) : List (Nat × α) := l.filter (fun p => p.1 != k)

def Conn.getS (c : Conn) (sid : Nat) : Option Stream := alookup sid c.streams
def Conn.buf (c : Conn) (sid : Nat) : List Chunk := (alookup sid c.bufs).getD []

def Conn.liveS (c : Conn) (sid : Nat) : Bool :=
  !c.dead && (match c.getS sid with | some s => s.live | none => false)
/-- `is_closed` -/
def Conn.closedS (c : Conn) (sid : Nat) : Bool :=
  c.dead || (match c.getS sid with | some s => s.closed | none => true)
/-- `open_outbound_streams` -/
def Conn.openCount (c : Conn) : Nat := (c.streams.filter (fun p => !p.2.closed)).length

/-- `local_flow_control_window` -/
def Conn.localWin (c : Conn) (sid : Nat) : Int :=
  match c.getS sid with | some s => min c.connWin s.win | none => 0

def Conn.updS (c : Conn) (sid : Nat) (f : Stream → Stream) : Conn :=
  match c.getS sid with
  | some s => { c with streams := aset sid (f s) c.streams }
  | none => c

/-- hyper-h2 `send_data`: one DATA frame, both windows shrink -/
def Conn.rawSend (c : Conn) (sid : Nat) (d : Bytes) (fin : Bool) : Conn :=
  let c := c.updS sid fun s => { s with win := s.win - d.length, localOpen := s.localOpen && !fin }
  { c with connWin := c.connWin - d.length, out := c.out ++ [Frame.data sid d fin] }

/-- hyper-h2 `send_headers(trailers, end_stream=True)` -/
def Conn.rawTrailers (c : Conn) (sid : Nat) : Conn :=
  let c := c.updS sid fun s => { s with localOpen := false }
  { c with out := c.out ++ [Frame.trailers sid] }

def Conn.appendBuf (c : Conn) (sid : Nat) (ch : Chunk) : Conn :=
  { c with bufs := aset sid (c.buf sid ++ [ch]) c.bufs }

/-- `BufferedH2Connection.send_data` for a chunk that fits into one frame -/
def Conn.sendData1 (c : Conn) (sid : Nat) (d : Bytes) (fin : Bool) : Conn :=
  if !(c.buf sid).isEmpty then c.appendBuf sid ⟨d, fin⟩
  else
    let w := c.localWin sid
    if (d.length : Int) ≤ w then c.rawSend sid d fin
    else if w > 0 then (c.rawSend sid (d.take w.toNat) false).appendBuf sid ⟨d.drop w.toNat, fin⟩
    else c.appendBuf sid ⟨d, fin⟩

/-- the splitting loop of `send_data` (`fuel` ≥ number of pieces) -/
def Conn.sendPieces : Nat → Conn → Nat → Bytes → Bool → Conn
  | 0, c, _, _, _ => c
  | f + 1, c, sid, d, fin =>
    if d.length ≤ c.mfs then c.sendData1 sid d fin
    else Conn.sendPieces f (c.sendData1 sid (d.take c.mfs) false) sid (d.drop c.mfs) fin

/-- `BufferedH2Connection.send_data` -/
def Conn.sendData (c : Conn) (sid : Nat) (d : Bytes) (fin : Bool) : Conn :=
  if d.length > c.mfs ∧ c.mfs > 0 then Conn.sendPieces (d.length + 1) c sid d fin else c.sendData1 sid d fin

/-- `send_trailers` -/
def Conn.sendTrailers (c : Conn) (sid : Nat) : Conn :=
  if !(c.buf sid).isEmpty then { c with trl := if c.trl.contains sid then c.trl else c.trl ++ [sid] }
  else c.rawTrailers sid

/-- `end_stream` -/
def Conn.endStream (c : Conn) (sid : Nat) : Conn :=
  if c.trl.contains sid then c else c.sendData sid [] true

/-- `reset_stream` -/
def Conn.resetStream (c : Conn) (sid : Nat) : Conn :=
  let c := { c with bufs := aerase sid c.bufs }
  let c := c.updS sid fun s => { s with rst := true }
  { c with out := c.out ++ [Frame.rst sid] }

/-- the `while available_window > 0 and stream_id in self.stream_buffers` loop -/
def Conn.flushLoop : Nat → Conn → Nat → Int → Bool → Conn × Bool
  | 0, c, _, _, sent => (c, sent)
  | f + 1, c, sid, w, sent =>
    if w > 0 then
      match c.buf sid with
      | [] => (c, sent)
      | ch :: rest =>
        let lim : Int := min w c.mfs        -- sendable = min(available_window, max_outbound_frame_size)
        let (now, rest') : Chunk × List Chunk :=
          if (ch.data.length : Int) > lim then (⟨ch.data.take lim.toNat, false⟩, ⟨ch.data.drop lim.toNat, ch.fin⟩ :: rest)
          else (ch, rest)
        let c := c.rawSend sid now.data now.fin
        let c :=
          if rest'.isEmpty then
            let c := { c with bufs := aerase sid c.bufs }
            if c.trl.contains sid then { (c.rawTrailers sid) with trl := c.trl.filter (· != sid) } else c
          else { c with bufs := aset sid rest' c.bufs }
        Conn.flushLoop f c sid (w - now.data.length) true
    else (c, sent)

/-- `stream_window_updated` -/
def Conn.streamWindowUpdated (c : Conn) (sid : Nat) : Conn × Bool :=
  if !c.liveS sid then ({ c with bufs := aerase sid c.bufs }, false)
  else Conn.flushLoop ((c.buf sid).length + ((c.buf sid).map (·.data.length)).sum + 1) c sid (c.localWin sid) false

/-- one pass of the `for stream_id in list(self.stream_buffers)` loop -/
def Conn.rrPass : List Nat → Conn → Bool → Conn × Bool × Bool     -- (conn, sent_any, returned early)
  | [], c, sent => (c, sent, false)
  | sid :: rest, c, sent =>
    let c := { c with bufs := aerase sid c.bufs ++ [(sid, c.buf sid)] }      -- move to end of dict
    let (c, s) := c.streamWindowUpdated sid
    if s then
      if c.connWin = 0 then (c, true, true) else Conn.rrPass rest c true
    else Conn.rrPass rest c sent

/-- `connection_window_updated` -/
def Conn.connWindowUpdated : Nat → Conn → Conn
  | 0, c => c
  | f + 1, c =>
    let (c, sent, early) := Conn.rrPass (c.bufs.map (·.1)) c false
    if early || !sent then c else Conn.connWindowUpdated f c

def Conn.totalBuffered (c : Conn) : Nat := (c.bufs.map fun p => (p.2.map fun ch => ch.data.length + 1).sum).sum

def Conn.connWindowUpdated' (c : Conn) : Conn := Conn.connWindowUpdated (c.totalBuffered + 2) c

/-! ### what hyper-h2 reports for a received segment -/

inductive SEv where
  | settings (maxc : Option Nat) (iws : Option Nat) (mfs : Option Nat)
  | winUpd (sid : Nat) (n : Nat)                 -- sid = 0: connection
  | respHdr (sid : Nat) (fin : Bool) (ok : Bool) -- ok: parse_h2_response_headers accepts
  | info (sid : Nat)
  | respData (sid : Nat) (len : Nat) (fin : Bool)
  | respTrailers (sid : Nat)
  | ended (sid : Nat)
  | reset (sid : Nat)
  | goaway
  | protoErr
  | other
deriving Repr, DecidableEq

/-- hyper-h2's own bookkeeping for one event (all events of a segment are applied before anything else runs) -/
def Conn.absorbH2 (c : Conn) : SEv → Conn
  | .settings _ iws mfs =>
    let c := match mfs with | some m => { c with mfs := m } | none => c
    match iws with
    | some w =>
      let delta : Int := (w : Int) - c.iws
      { c with iws := w, streams := c.streams.map fun (p : Nat × Stream) => (p.1, { p.2 with win := p.2.win + delta }) }
    | none => c
  | .winUpd sid n =>
    if sid = 0 then { c with connWin := c.connWin + n } else c.updS sid fun s => { s with win := s.win + n }
  | .respHdr sid fin _ => if fin then c.updS sid fun s => { s with remoteOpen := false } else c
  | .respData sid _ fin => if fin then c.updS sid fun s => { s with remoteOpen := false } else c
  | .respTrailers sid => c.updS sid fun s => { s with remoteOpen := false }
  | .reset sid => c.updS sid fun s => { s with rst := true }
  | .goaway => { c with dead := true }
  | _ => c

/-- the post-processing loop of `BufferedH2Connection.receive_data`, event by event -/
def Conn.absorbBuf (c : Conn) : SEv → Conn
  | .settings _ (some _) _ => c.connWindowUpdated'
  | .winUpd sid _ => if sid = 0 then c.connWindowUpdated' else (c.streamWindowUpdated sid).1
  | .reset sid => { c with bufs := aerase sid c.bufs }
  | .goaway => { c with bufs := [] }
  | _ => c

def Conn.absorb (c : Conn) (evs : List SEv) : Conn := evs.foldl Conn.absorbBuf (evs.foldl Conn.absorbH2 c)

/-! ### Http2Client -/

inductive Ev where
  | hdr (fin : Bool)
  | data (b : Bytes)
  | trailers
  | eom
  | err
deriving Repr, DecidableEq

def Ev.isHdr : Ev → Bool
  | .hdr _ => true
  | _ => false

inductive UpKind where
  | hdr (fin : Bool) | data (len : Nat) | trailers | eom | err
deriving Repr, DecidableEq

structure St where
  conn : Conn
  ours : List (Nat × Nat)          -- our_stream_id: their ↦ ours
  theirs : List (Nat × Nat)        -- their_stream_id: ours ↦ their
  queue : List (Nat × List Ev)     -- stream_queue (dict order)
  stack : List (Nat × Ev)          -- events the enclosing `for event in events` loops still have to handle
  prov : Option Nat                -- provisional_max_concurrency
  maxc : Nat                       -- remote_settings.max_concurrent_streams
  nextId : Nat                     -- get_next_available_stream_id()
  ms : List (Nat × Bool)           -- Http2Connection.streams: ours ↦ (HEADERS_RECEIVED?)
  closed : Bool                    -- _handle_event is self.done
  up : List (Nat × UpKind × Option Nat)  -- ReceiveHttp events: client-side stream id, kind (+ ghost: the upstream id)
  crashed : Bool                   -- KeyError in their_stream_id[...]: only for a stream id hyper-h2 never reports (see `crashed_only_by_unknown_trailers`)
  -- ghost state (written, never read by the transitions)
  sub : List (Nat × Ev)            -- every event submitted by the HTTP layer
  fw : List (Nat × Nat × Ev)       -- (their, ours, event) in the order `_handle_event2` saw them
  allocs : List (Nat × Nat × Nat)  -- (their, open_outbound_streams before, limit) at each id allocation
  arr : List Nat                   -- client stream ids in the order their first event arrived
deriving Repr

def St.init : St :=
  ⟨Conn.init, [], [], [], [], some 10, 4294967297, 1, [], false, [], false, [], [], [], []⟩

/-- `self.provisional_max_concurrency or self.h2_conn.remote_settings.max_concurrent_streams` -/
def St.limit (σ : St) : Nat :=
  match σ.prov with
  | some p => if p = 0 then σ.maxc else p
  | none => σ.maxc

def St.noFree (σ : St) : Bool := decide (σ.limit ≤ σ.conn.openCount)

/-- `Http2Client._handle_event2` + `Http2Connection._handle_event` for an event whose stream id is mapped -/
def St.process (σ : St) (o : Nat) (ev : Ev) : St :=
  match ev with
  | .hdr fin =>
    let c := σ.conn
    let c := { c with streams := aset o ⟨c.iws, !fin, true, false⟩ c.streams, out := c.out ++ [Frame.hdr o fin] }
    { σ with conn := c, nextId := o + 2, ms := aset o false σ.ms }
  | .data b => if σ.conn.liveS o then { σ with conn := σ.conn.sendData o b false } else σ
  | .trailers => if σ.conn.liveS o then { σ with conn := σ.conn.sendTrailers o } else σ
  | .eom => if σ.conn.liveS o then { σ with conn := σ.conn.endStream o } else σ
  | .err => if !σ.conn.closedS o then { σ with conn := σ.conn.resetStream o } else σ

/-- `can_resume_queue`: pop the oldest queued stream and handle its events -/
def St.resume (σ : St) : St :=
  match σ.queue with
  | [] => σ
  | (t, evs) :: rest =>
    if σ.noFree then σ else { σ with queue := rest, stack := evs.map (fun e => (t, e)) ++ σ.stack }

def St.enqueue (σ : St) (t : Nat) (ev : Ev) : St :=
  { σ with queue := aset t ((alookup t σ.queue).getD [] ++ [ev]) σ.queue }

/-- one call of `Http2Client._handle_event` for an HttpEvent: the event on top of the stack -/
def St.tick (σ : St) : St :=
  match σ.stack with
  | [] => σ
  | (t, ev) :: rest =>
    let σ := { σ with stack := rest }
    if σ.closed then σ
    else match alookup t σ.ours with
      | some o => ({ (σ.process o ev) with fw := σ.fw ++ [(t, o, ev)] }).resume
      | none =>
        if σ.noFree then σ.enqueue t ev
        else
          let o := σ.nextId
          let σ := { σ with ours := σ.ours ++ [(t, o)], theirs := aset o t σ.theirs,
                            allocs := σ.allocs ++ [(t, σ.conn.openCount, σ.limit)] }
          ({ (σ.process o ev) with fw := σ.fw ++ [(t, o, ev)] }).resume

def St.drain : Nat → St → St
  | 0, σ => σ
  | f + 1, σ => if σ.stack.isEmpty then σ else St.drain f σ.tick

def St.pending (σ : St) : Nat := σ.stack.length + (σ.queue.map (·.2.length)).sum

/-- mitmproxy's reaction to one reported event; `true`: stop processing the rest of the segment -/
def St.upward (σ : St) (o : Nat) (k : UpKind) : St :=
  match alookup o σ.theirs with
  | some t => { σ with up := σ.up ++ [(t, k, some o)] }
  | none => { σ with crashed := true }

/-- `close_connection`: every stream we have opened and not seen finished gets a protocol error -/
def St.closeConnection (σ : St) : St :=
  let σ := σ.ms.foldl (fun σ p => σ.upward p.1 .err) σ
  { σ with ms := [], closed := true }

def St.handleH2 (σ : St) : SEv → St × Bool
  | .respHdr o fin ok =>
    if alookup o σ.ms != some false then (σ.closeConnection, true)
    else if !ok then (σ.closeConnection, true)
    else (({ σ with ms := aset o true σ.ms }).upward o (.hdr fin), false)
  | .respData o len fin =>
    match alookup o σ.ms with
    | some true => (if fin && len = 0 then σ else σ.upward o (.data len), false)
    | some false => (σ.closeConnection, true)
    | none => (σ, false)
  | .respTrailers o => (σ.upward o .trailers, false)
  | .ended o =>
    let σ := if alookup o σ.ms == some true then σ.upward o .eom else σ
    (if σ.conn.closedS o then { σ with ms := aerase o σ.ms } else σ, false)
  | .reset o =>
    if (alookup o σ.ms).isSome then ({ (σ.upward o .err) with ms := aerase o σ.ms }, false) else (σ, false)
  | .protoErr => (σ.closeConnection, true)
  | .goaway => (σ.closeConnection, true)
  | .settings _ _ _ => ({ σ with prov := none }, false)
  | _ => (σ, false)

def St.handleAll : St → List SEv → St
  | σ, [] => σ
  | σ, e :: rest => let (σ', stop) := σ.handleH2 e; if stop then σ' else St.handleAll σ' rest

/-- queued streams are failed once the connection is gone -/
def St.failQueued (σ : St) : St :=
  { σ with up := σ.up ++ σ.queue.map (fun p => (p.1, UpKind.err, none)), queue := [] }

inductive Input where
  | client (t : Nat) (ev : Ev)
  | server (evs : List SEv)        -- the events of one received segment
  | connClosed
deriving Repr

/-- one top-level `handle_event` of the Http2Client layer -/
def St.step (σ : St) : Input → St
  | .client t ev =>
    if σ.closed then σ       -- `done`: the event is ignored
    else
      let isNew := (alookup t σ.ours).isNone && !(σ.queue.map (·.1)).contains t
      let σ := { σ with sub := σ.sub ++ [(t, ev)], stack := [(t, ev)], arr := if isNew then σ.arr ++ [t] else σ.arr }
      St.drain (σ.pending + 1) σ
  | .server evs =>
    if σ.closed then σ
    else
      let maxc := evs.foldl (fun m e => match e with | .settings (some v) _ _ => v | _ => m) σ.maxc
      let σ := { σ with conn := σ.conn.absorb evs, maxc := maxc }
      let σ := St.handleAll σ evs
      if σ.closed then σ.failQueued
      else let σ := σ.resume; St.drain (σ.pending + 1) σ
  | .connClosed =>
    if σ.closed then σ else σ.closeConnection.failQueued

/-! ### HttpLayer.streams: routing of ReceiveHttp events by stream id -/

/-- `self.streams[command.event.stream_id]` (KeyError: the event is dropped) -/
def route {α : Type} (streams : List (Nat × α)) (sid : Nat) : Option α := alookup sid streams

/-- an `HttpStream` as far as routing is concerned: the stream id it was created for -/
structure HStream where
  id : Nat
deriving Repr, DecidableEq

/-- what happens to `HttpLayer.streams`: `make_stream` (on a RequestHeaders event, `HttpStream(ctx, stream_id)` is
    stored under `stream_id`) and `DropStream` -/
inductive LayerOp where
  | make (sid : Nat)
  | drop (sid : Nat)
deriving Repr, DecidableEq

def applyLayerOp (streams : List (Nat × HStream)) : LayerOp → List (Nat × HStream)
  | .make sid => aset sid ⟨sid⟩ streams
  | .drop sid => aerase sid streams

end MitmVerif.C05
