/-
  C06 — translating between HTTP versions preserves message semantics.

  Model of
    * hyper-h2's inbound header validator `h2.utilities.validate_headers` (the predicate `h2Valid`;
      in the theorems it is a HYPOTHESIS about the header block, in the driver it is executed so that
      the model can be compared with the real layers, which run with `validate_inbound_headers`)
    * `_http2.split_pseudo_headers`, `parse_h2_request_headers`, `parse_h2_response_headers`
    * `layers/http/__init__.validate_request` + `net/http/validate.validate_headers`
    * `_http1.Http1Client.send` (RequestHeaders of an HTTP/2 request: version, Host insertion,
      Cookie joining with "; ", Content-Length for a buffered body) and `Http1Server.send`
      (reason phrase synthesis, no body for HEAD/204/304)
    * `http1.assemble_request_head` / `assemble_response_head`
    * `_http2.format_h2_request_headers` / `format_h2_response_headers` with
      `h2.utilities.normalize_outbound_headers` (`normalize_h1_headers`) and `normalize_h2_headers`
  and of an independent strict HTTP/1 message-stream reader `Ref` (RFC 9112: LF or CRLF line ends, bare CR
  invalid, `method SP target SP HTTP/d.d`, `token ":" OWS value OWS`, no obs-fold, NUL invalid,
  Content-Length / chunked framing with conflicting or unknown framing rejected) — the SPEC side.

  `url.parse_authority(check=True)` is a parameter (`authOk`): its verdict is supplied per case.
-/
import MitmVerif.Basic.Bytes
import MitmVerif.Gen.C06
namespace MitmVerif.C06
open MitmVerif

abbrev Field := Bytes × Bytes
abbrev Block := List Field

/-! ### byte classes -/

def isDigit (c : UInt8) : Bool := 48 ≤ c.toNat && c.toNat ≤ 57
def isAlpha (c : UInt8) : Bool := (65 ≤ c.toNat && c.toNat ≤ 90) || (97 ≤ c.toNat && c.toNat ≤ 122)
/-- RFC 9110 tchar -/
def isTokenByte (c : UInt8) : Bool :=
  isDigit c || isAlpha c || c = 0x21 || c = 0x23 || c = 0x24 || c = 0x25 || c = 0x26 || c = 0x27 || c = 0x2a
    || c = 0x2b || c = 0x2d || c = 0x2e || c = 0x5e || c = 0x5f || c = 0x60 || c = 0x7c || c = 0x7e
def isToken (b : Bytes) : Bool := !b.isEmpty && b.all isTokenByte
def isOws (c : UInt8) : Bool := c = 0x20 || c = 0x09
/-- bytes.strip() without argument: ASCII whitespace -/
def isPyWs (c : UInt8) : Bool := c = 0x20 || c = 0x09 || c = 0x0a || c = 0x0d || c = 0x0b || c = 0x0c
/-- the characters `validate_request` refuses in method and path -/
def isLineWs (c : UInt8) : Bool := isPyWs c

def dropEndWhile (p : UInt8 → Bool) (b : Bytes) : Bytes := (b.reverse.dropWhile p).reverse
def stripOws (v : Bytes) : Bytes := dropEndWhile isOws (v.dropWhile isOws)
def pyStrip (v : Bytes) : Bytes := dropEndWhile isPyWs (v.dropWhile isPyWs)

def lower (b : Bytes) : Bytes := asciiLower b
def nameIs (n : Bytes) (f : Field) : Bool := lower f.1 == n

def crlf : Bytes := [13, 10]
def colonSp : Bytes := [58, 32]
def sHost : Bytes := [72, 111, 115, 116]                                   -- "Host"
def sHostL : Bytes := [104, 111, 115, 116]                                 -- "host"
def sCookieL : Bytes := [99, 111, 111, 107, 105, 101]                      -- "cookie"
def sCL : Bytes := [99, 111, 110, 116, 101, 110, 116, 45, 108, 101, 110, 103, 116, 104]   -- "content-length"
def sTE : Bytes := [116, 114, 97, 110, 115, 102, 101, 114, 45, 101, 110, 99, 111, 100, 105, 110, 103]  -- "transfer-encoding"
def sTe : Bytes := [116, 101]                                              -- "te"
def sTrailers : Bytes := [116, 114, 97, 105, 108, 101, 114, 115]           -- "trailers"
def sChunked : Bytes := [99, 104, 117, 110, 107, 101, 100]                 -- "chunked"
def sHttp11 : Bytes := [72, 84, 84, 80, 47, 49, 46, 49]                    -- "HTTP/1.1"
def sHttp : Bytes := [104, 116, 116, 112]                                  -- "http"
def sHttps : Bytes := [104, 116, 116, 112, 115]                            -- "https"
def sSemiSp : Bytes := [59, 32]                                            -- "; "
def pMethod : Bytes := [58, 109, 101, 116, 104, 111, 100]                  -- ":method"
def pScheme : Bytes := [58, 115, 99, 104, 101, 109, 101]                   -- ":scheme"
def pPath : Bytes := [58, 112, 97, 116, 104]                               -- ":path"
def pAuthority : Bytes := [58, 97, 117, 116, 104, 111, 114, 105, 116, 121] -- ":authority"
def pStatus : Bytes := [58, 115, 116, 97, 116, 117, 115]                   -- ":status"
def pProtocol : Bytes := [58, 112, 114, 111, 116, 111, 99, 111, 108]       -- ":protocol"
def sConnect : Bytes := [67, 79, 78, 78, 69, 67, 84]                       -- "CONNECT"
def sHead : Bytes := [72, 69, 65, 68]                                      -- "HEAD"

def isPseudo (f : Field) : Bool := f.1.head? == some 58

/-! ### hyper-h2: `validate_headers` (inbound) -/

/-- `_reject_illegal_characters`, name part -/
def h2NameOk (n : Bytes) : Bool :=
  n.all (fun c => !(0x41 ≤ c.toNat && c.toNat ≤ 0x5a) && 0x20 < c.toNat && c.toNat < 0x7f)
    && (n.drop 1).all (· != 58)
/-- `_reject_illegal_characters`, value part -/
def h2ValueOk (v : Bytes) : Bool :=
  v.all (fun c => c != 0 && c != 10 && c != 13)
    && (match v.head? with | some c => !isOws c | none => true)
    && (match v.getLast? with | some c => !isOws c | none => true)

def pseudoAllowed : List Bytes := [pMethod, pScheme, pAuthority, pPath, pStatus, pProtocol]

/-- `_reject_pseudo_header_fields`: no duplicate, none after a regular field, only known ones -/
def pseudoSeqOk : List Bytes → Bool → Block → Bool
  | _, _, [] => true
  | seen, reg, f :: rest =>
    if isPseudo f then
      !seen.contains f.1 && !reg && pseudoAllowed.contains f.1 && pseudoSeqOk (f.1 :: seen) reg rest
    else pseudoSeqOk seen true rest

def pseudoNames (b : Block) : List Bytes := (b.filter isPseudo).map (·.1)
def valuesOf (n : Bytes) (b : Block) : List Bytes := (b.filter (fun f => f.1 == n)).map (·.2)

/-- `_check_pseudo_header_field_acceptability` for a request header block -/
def reqPseudoOk (b : Block) : Bool :=
  let ps := pseudoNames b
  let isConnect := valuesOf pMethod b == [sConnect]
  let ext := isConnect && ps.contains pProtocol
  ps.contains pMethod
    && (if isConnect && !ext then !ps.contains pScheme && !ps.contains pPath
        else ps.contains pScheme && ps.contains pPath)
    && !ps.contains pStatus
    && (isConnect || !ps.contains pProtocol)

/-- … for a response header block -/
def respPseudoOk (b : Block) : Bool :=
  let ps := pseudoNames b
  ps.contains pStatus && !ps.contains pScheme && !ps.contains pPath && !ps.contains pAuthority
    && !ps.contains pMethod && !ps.contains pProtocol

/-- `_validate_host_authority_header` -/
def hostAuthOk (b : Block) : Bool :=
  let hosts := valuesOf sHostL b
  let auths := valuesOf pAuthority b
  hosts.length ≤ 1 && !(hosts.isEmpty && auths.isEmpty)
    && (match hosts, auths with | [h], a :: _ => h == a | _, _ => true)

def fieldOk (f : Field) : Bool :=
  h2NameOk f.1 && h2ValueOk f.2 && !f.1.isEmpty
    && !(f.1 == sTe && lower f.2 != sTrailers)
    && !Gen.C06.connectionHeaders.contains f.1

/-- the inbound validator for a request header block -/
def h2ValidReq (b : Block) : Bool :=
  b.all fieldOk && pseudoSeqOk [] false b && reqPseudoOk b && hostAuthOk b
    && (valuesOf pPath b).all (fun v => !v.isEmpty)

/-- the inbound validator for a response header block -/
def h2ValidResp (b : Block) : Bool :=
  b.all fieldOk && pseudoSeqOk [] false b && respPseudoOk b

/-- trailers: no pseudo-header at all -/
def h2ValidTrailers (b : Block) : Bool := b.all fieldOk && b.all (fun f => !isPseudo f)

/-! ### mitmproxy: split_pseudo_headers / parse_h2_*_headers -/

/-- leading pseudo-headers into an association list (duplicate → ValueError), the rest are the fields -/
def splitPseudo : Block → List Field → Option (List Field × List Field)
  | [], acc => some (acc, [])
  | f :: rest, acc =>
    if isPseudo f then
      if acc.any (fun g => g.1 == f.1) then none else splitPseudo rest (acc ++ [f])
    else some (acc, f :: rest)

def lookup (n : Bytes) (l : List Field) : Option Bytes := (l.find? (fun f => f.1 == n)).map (·.2)
def without (n : Bytes) (l : List Field) : List Field := l.filter (fun f => f.1 != n)

structure Req where
  method : Bytes
  scheme : Bytes
  authority : Bytes
  path : Bytes
  fields : List Field
deriving Repr, DecidableEq

/-- `parse_h2_request_headers`; `authOk` = `url.parse_authority(authority, check=True)` does not raise -/
def parseH2Request (authOk : Bool) (b : Block) : Option Req :=
  match splitPseudo b [] with
  | none => none
  | some (ps, fs) =>
    match lookup pMethod ps, lookup pScheme ps, lookup pPath ps with
    | some m, some s, some p =>
      let a := (lookup pAuthority ps).getD []
      let restPs := without pAuthority (without pPath (without pScheme (without pMethod ps)))
      if !restPs.isEmpty then none
      else if !a.isEmpty && !authOk then none
      else some ⟨m, s, a, p, fs⟩
    | _, _, _ => none

def decVal (c : UInt8) : Nat := c.toNat - 48

/-- `parse_h2_response_headers` (status: exactly three digits, 100..999) -/
def parseH2Response (b : Block) : Option (Nat × List Field) :=
  match splitPseudo b [] with
  | none => none
  | some (ps, fs) =>
    match lookup pStatus ps with
    | some [a, b', c] =>
      if isDigit a && isDigit b' && isDigit c && a != 48 && (without pStatus ps).isEmpty then
        some (decVal a * 100 + decVal b' * 10 + decVal c, fs)
      else none
    | _ => none

/-! ### mitmproxy: validate_headers / validate_request -/

/-- `_invalid_header_value = \x00|\r(?!\n)|\n(?![ \t])` has no match -/
def valueReOk : Bytes → Bool
  | [] => true
  | c :: rest =>
    if c = 0 then false
    else if c = 13 then (match rest with | d :: _ => d = 10 && valueReOk rest | [] => false)
    else if c = 10 then (match rest with | d :: _ => isOws d && valueReOk rest | [] => false)
    else valueReOk rest

/-- `(?:0|[1-9][0-9]*)` -/
def clStrict (v : Bytes) : Bool :=
  match v with
  | [] => false
  | [c] => isDigit c
  | c :: rest => isDigit c && c != 48 && rest.all isDigit

def splitOn (sep : UInt8) : Bytes → List Bytes
  | [] => [[]]
  | c :: cs =>
    if c = sep then [] :: splitOn sep cs
    else match splitOn sep cs with
      | h :: t => (c :: h) :: t
      | [] => [[c]]

def joinWith (sep : Bytes) : List Bytes → Bytes
  | [] => []
  | [x] => x
  | x :: rest => x ++ sep ++ joinWith sep rest

/-- `re.sub(r"[\t ]*,[\t ]*", ",", te.lower())` -/
def normTE (v : Bytes) : Bytes :=
  let parts := splitOn 44 (lower v)
  let n := parts.length
  joinWith [44] (parts.zipIdx.map fun (p, i) =>
    let p := if i = 0 then p else p.dropWhile isOws
    if i + 1 = n then p else dropEndWhile isOws p)

def teChunkedFinal : List Bytes := Gen.C06.teChunked
def teOther : List Bytes := Gen.C06.teOther

/-- `validate_headers(message)`; `http11` = message.is_http11, `isReq`, `noTeStatus` = response 1xx/204 -/
def validateHeaders (fields : List Field) (http11 isReq noTeStatus : Bool) : Bool :=
  fields.all (fun f => isToken f.1 && valueReOk f.2)
  && (let te := (fields.filter (nameIs sTE)).map (·.2)
      let cl := (fields.filter (nameIs sCL)).map (·.2)
      if !te.isEmpty && !cl.isEmpty then false
      else match te with
        | [t] =>
          http11 && !noTeStatus && t.all (fun c => c.toNat < 128)
            && (teChunkedFinal.contains (normTE t) || (!isReq && teOther.contains (normTE t)))
        | _ :: _ :: _ => false
        | [] =>
          match cl with
          | [] => true
          | [c] => clStrict c
          | _ => false)

/-- `validate_request` (mode is transparent: no CONNECT) -/
def validateRequest (r : Req) (http11 : Bool) : Bool :=
  (r.scheme == sHttp || r.scheme == sHttps || r.scheme.isEmpty)
    && r.method != sConnect
    && !r.method.isEmpty && !r.method.any isLineWs && !r.path.any isLineWs
    && validateHeaders r.fields http11 true false

/-! ### Http1Client.send: conversion of an HTTP/2 request -/

def natDigits : Nat → Nat → Bytes
  | 0, _ => []
  | f + 1, n => if n < 10 then [UInt8.ofNat (48 + n)] else natDigits f (n / 10) ++ [UInt8.ofNat (48 + n % 10)]
/-- `str(n).encode()` / `b"%d" % n` -/
def natDec (n : Nat) : Bytes := natDigits (n + 1) n

/-- `MultiDict.set_all(key, [value])` -/
def setAll (key value : Bytes) : List Field → Bool → List Field
  | [], done => if done then [] else [(key, value)]
  | f :: rest, done =>
    if lower f.1 == lower key then
      if done then setAll key value rest true else (f.1, value) :: setAll key value rest true
    else f :: setAll key value rest done

def hasName (n : Bytes) (fs : List Field) : Bool := fs.any (nameIs n)
def cookieValues (fs : List Field) : List Bytes := (fs.filter (nameIs sCookieL)).map (·.2)

def insertHost (r : Req) : List Field :=
  if !hasName sHostL r.fields && !r.authority.isEmpty then (sHost, r.authority) :: r.fields else r.fields

def joinCookies (fs : List Field) : List Field :=
  let cs := cookieValues fs
  if cs.length > 1 then setAll sCookieL (joinWith sSemiSp cs) fs false else fs

def addFraming (fs : List Field) (body : Bytes) : List Field :=
  if !body.isEmpty && !hasName sCL fs && !hasName sTE fs then fs ++ [(sCL, natDec body.length)] else fs

/-- header list written to the HTTP/1 server for an HTTP/2 request `r` with buffered body `body` -/
def toH1Fields (r : Req) (body : Bytes) : List Field := addFraming (joinCookies (insertHost r)) body

def fieldLine (f : Field) : Bytes := f.1 ++ colonSp ++ f.2 ++ crlf
def fieldLines (fs : List Field) : Bytes := fs.flatMap fieldLine

/-- `assemble_request_head` in origin form -/
def assembleRequestHead (method path version : Bytes) (fs : List Field) : Bytes :=
  method ++ [32] ++ path ++ [32] ++ version ++ crlf ++ fieldLines fs ++ crlf

/-- bytes written to an HTTP/1 server for the HTTP/2 header block `b` with buffered body `body` -/
def h2ToH1 (authOk : Bool) (b : Block) (body : Bytes) : Option Bytes :=
  match parseH2Request authOk b with
  | none => none
  | some r =>
    if validateRequest r false then
      some (assembleRequestHead r.method r.path sHttp11 (toH1Fields r body) ++ body)
    else none

/-- header list written for a STREAMED HTTP/2 request (flow.request.stream): `raw_content` is None when the head is
    written, so no Content-Length is added -/
def toH1FieldsStreamed (r : Req) : List Field := joinCookies (insertHost r)

/-- bytes written to an HTTP/1 server for the HTTP/2 header block `b` whose body is streamed as the DATA frames
    `chunks` arrive: the head, then every non-empty chunk as it is (chunked re-framing happens only when the head
    carries Transfer-Encoding: chunked, which an HTTP/2 request cannot), nothing at the end of the message -/
def h2ToH1Streamed (authOk : Bool) (b : Block) (chunks : List Bytes) : Option Bytes :=
  match parseH2Request authOk b with
  | none => none
  | some r =>
    if validateRequest r false then
      some (assembleRequestHead r.method r.path sHttp11 (toH1FieldsStreamed r) ++ chunks.flatten)
    else none

/-! ### format_h2_request_headers / format_h2_response_headers -/

def pyIsLower (n : Bytes) : Bool :=
  n.any (fun c => 97 ≤ c.toNat && c.toNat ≤ 122) && !n.any (fun c => 65 ≤ c.toNat && c.toNat ≤ 90)
/-- `normalize_h2_headers` (option normalize_outbound_headers, default on) -/
def normalizeH2 (fs : List Field) : List Field := fs.map fun f => if pyIsLower f.1 then f else (lower f.1, f.2)
/-- `normalize_h1_headers` = h2 `normalize_outbound_headers`: lower-case, strip, drop connection-specific -/
def normalizeH1 (fs : List Field) : List Field :=
  (fs.map fun f => (pyStrip (lower f.1), pyStrip f.2)).filter fun f => !Gen.C06.connectionHeaders.contains f.1

/-- `b", ".join(values)` -/
def sCommaSp : Bytes := [44, 32]

/-- `format_h2_request_headers`; `fromH2` = request.is_http2 or is_http3 -/
def formatH2Request (r : Req) (fromH2 : Bool) : Block :=
  let ps := [(pMethod, r.method), (pScheme, r.scheme), (pPath, r.path)]
  let ps := if !r.authority.isEmpty then ps ++ [(pAuthority, r.authority)] else ps
  if fromH2 then ps ++ normalizeH2 r.fields
  else if r.authority.isEmpty && hasName sHostL r.fields then
    ps ++ [(pAuthority, joinWith sCommaSp ((r.fields.filter (nameIs sHostL)).map (·.2)))]
      ++ normalizeH1 (r.fields.filter (fun f => !nameIs sHostL f))
  else ps ++ normalizeH1 r.fields

/-- `format_h2_response_headers` -/
def formatH2Response (status : Nat) (fs : List Field) (fromH2 : Bool) : Block :=
  let hs := (pStatus, natDec status) :: fs
  if fromH2 then normalizeH2 hs else normalizeH1 hs

/-! ### sending a recorded message (again) -/

inductive Hop where
  | h1 | h2
deriving Repr, DecidableEq

/-- One send of the recorded request `r` (version `fromH2`, buffered body) to the next hop: what is then stored in the
    flow, and what goes on the wire.  `Http1Client.send` converts a COPY (`request.copy()`), `format_h2_request_headers`
    pops Host out of a COPY of the headers (`headers.copy()`): the stored request is what it was. -/
def sendRequest (r : Req) (fromH2 : Bool) (body : Bytes) : Hop → Req × (Bytes ⊕ Block)
  | .h1 => (r, .inl (assembleRequestHead r.method r.path sHttp11 (if fromH2 then toH1Fields r body else r.fields) ++ body))
  | .h2 => (r, .inr (formatH2Request r fromH2))

/-- a history of sends of the same flow (the live exchange, then client replays), threading the stored request -/
def sendAll (r : Req) (fromH2 : Bool) (body : Bytes) : List Hop → Req × List (Bytes ⊕ Block)
  | [] => (r, [])
  | h :: rest =>
    let (r1, out) := sendRequest r fromH2 body h
    let (r2, outs) := sendAll r1 fromH2 body rest
    (r2, out :: outs)

/-! ### Http1Server.send: conversion of an HTTP/2 response -/

def reason (status : Nat) : Bytes := ((Gen.C06.reasons.find? (fun p => p.1 == status)).map (·.2)).getD []

def assembleResponseHead (version : Bytes) (status : Nat) (reasonPhrase : Bytes) (fs : List Field) : Bytes :=
  version ++ [32] ++ natDec status ++ [32] ++ reasonPhrase ++ crlf ++ fieldLines fs ++ crlf

def bodiless (reqMethod : Bytes) (status : Nat) : Bool :=
  asciiUpper reqMethod == sHead || status = 204 || status = 304

/-- bytes written to an HTTP/1 client for the HTTP/2 response block `b` with buffered body `body` -/
def h2RespToH1 (reqMethod : Bytes) (b : Block) (body : Bytes) : Option Bytes :=
  match parseH2Response b with
  | none => none
  | some (st, fs) =>
    if validateHeaders fs false false (decide (100 ≤ st ∧ st ≤ 199) || st = 204) then
      some (assembleResponseHead sHttp11 st (reason st) fs ++ (if bodiless reqMethod st then [] else body))
    else none

/-! ### Reference reader (the specification side) -/
namespace Ref

structure Msg where
  method : Bytes
  target : Bytes
  version : Bytes
  fields : List Field
  body : Bytes
deriving Repr, DecidableEq

/-- bytes up to the first LF (exclusive) and what follows it -/
def splitAtLF : Bytes → Option (Bytes × Bytes)
  | [] => none
  | c :: cs =>
    if c = 10 then some ([], cs)
    else match splitAtLF cs with
      | some (l, r) => some (c :: l, r)
      | none => none

/-- a line without its terminator: one trailing CR belongs to the terminator, any other CR is invalid -/
def lineOf (raw : Bytes) : Option Bytes :=
  let l := if raw.getLast? == some 13 then raw.dropLast else raw
  if l.contains 13 then none else some l

/-- the lines of a header section up to the empty line, and what follows -/
def headLines : Nat → Bytes → Option (List Bytes × Bytes)
  | 0, _ => none
  | f + 1, bs =>
    match splitAtLF bs with
    | none => none
    | some (raw, rest) =>
      match lineOf raw with
      | none => none
      | some [] => some ([], rest)
      | some (c :: l) =>
        match headLines f rest with
        | some (ls, r) => some ((c :: l) :: ls, r)
        | none => none

def isVersion (v : Bytes) : Bool :=
  match v with
  | [72, 84, 84, 80, 47, a, 46, b] => isDigit a && isDigit b
  | _ => false

def badTargetByte (c : UInt8) : Bool := c = 9 || c = 0x0b || c = 0x0c

/-- request-line = method SP request-target SP HTTP-version -/
def parseRequestLine (l : Bytes) : Option (Bytes × Bytes × Bytes) :=
  match splitOn 32 l with
  | [m, t, v] =>
    if !m.isEmpty && !t.isEmpty && isVersion v && !(m ++ t).any badTargetByte then some (m, t, v) else none
  | _ => none

/-- field-line = field-name ":" OWS field-value OWS (no whitespace before the colon, no obs-fold, no NUL) -/
def parseFieldLine (l : Bytes) : Option Field :=
  let name := l.takeWhile (· != 58)
  match l.dropWhile (· != 58) with
  | [] => none
  | _ :: v => if isToken name && !v.contains 0 then some (name, stripOws v) else none

def parseFields : List Bytes → Option (List Field)
  | [] => some []
  | l :: ls =>
    match parseFieldLine l, parseFields ls with
    | some f, some fs => some (f :: fs)
    | _, _ => none

def decStep (acc : Option Nat) (c : UInt8) : Option Nat :=
  match acc with
  | some n => if isDigit c then some (n * 10 + decVal c) else none
  | none => none
def parseDec (v : Bytes) : Option Nat := if v.isEmpty then none else v.foldl decStep (some 0)

inductive Framing where
  | none | cl (n : Nat) | chunked
deriving Repr, DecidableEq

def knownCodings : List Bytes := Gen.C06.knownCodings

/-- RFC 9112 §6.3 for a request; anything ambiguous is refused -/
def framing (version : Bytes) (fs : List Field) : Option Framing :=
  let te := (fs.filter (nameIs sTE)).map (·.2)
  let cl := (fs.filter (nameIs sCL)).map (·.2)
  if !te.isEmpty && !cl.isEmpty then Option.none
  else if !te.isEmpty then
    let codings := (te.flatMap (splitOn 44)).map (fun c => lower (stripOws c))
    if codings.all (fun c => knownCodings.contains c) && version == sHttp11
        && codings.getLast? == some sChunked && (codings.filter (· == sChunked)).length = 1
    then some .chunked else Option.none
  else if cl.isEmpty then some .none
  else
    let items := (cl.flatMap (splitOn 44)).map stripOws
    match items.map parseDec with
    | some n :: rest => if rest.all (· == some n) then some (.cl n) else Option.none
    | _ => Option.none

def hexVal (c : UInt8) : Option Nat :=
  if isDigit c then some (c.toNat - 48)
  else if 97 ≤ c.toNat && c.toNat ≤ 102 then some (c.toNat - 87)
  else if 65 ≤ c.toNat && c.toNat ≤ 70 then some (c.toNat - 55)
  else none

/-- CRLF-terminated line (chunk framing is CRLF-strict) -/
def takeCrlfLine : Bytes → Option (Bytes × Bytes)
  | [] => none
  | [_] => none
  | c :: d :: rest =>
    if c = 13 && d = 10 then some ([], rest)
    else if c = 10 then none
    else match takeCrlfLine (d :: rest) with
      | some (l, r) => some (c :: l, r)
      | none => none

def chunkSize (line : Bytes) : Option Nat :=
  let digits := line.takeWhile (fun c => (hexVal c).isSome)
  let ext := line.dropWhile (fun c => (hexVal c).isSome)
  if digits.isEmpty || !(ext.isEmpty || ext.head? == some 59) || ext.contains 13 || ext.contains 0 then none
  else some (digits.foldl (fun n c => n * 16 + (hexVal c).getD 0) 0)

/-- chunked body: chunks, last-chunk, trailer section of field lines, final CRLF -/
def chunked : Nat → Bytes → Option (Bytes × Bytes)
  | 0, _ => none
  | f + 1, bs =>
    match takeCrlfLine bs with
    | none => none
    | some (line, rest) =>
      match chunkSize line with
      | none => none
      | some 0 =>
        -- trailer section
        let rec trailers : Nat → Bytes → Option Bytes
          | 0, _ => none
          | g + 1, r =>
            match takeCrlfLine r with
            | none => none
            | some ([], r') => some r'
            | some (l, r') => if (parseFieldLine l).isSome && !l.contains 13 then trailers g r' else none
        (trailers (f + 1) rest).map fun r => ([], r)
      | some n =>
        if rest.length < n + 2 then none
        else if (rest.drop n).take 2 != crlf then none
        else match chunked f (rest.drop (n + 2)) with
          | some (b, r) => some (rest.take n ++ b, r)
          | none => none

/-- all messages of a request stream; `none` if any part is malformed, ambiguous or incomplete -/
def parseRequests : Nat → Bytes → Option (List Msg)
  | 0, _ => none
  | f + 1, bs =>
    if bs.isEmpty then some []
    else match headLines (bs.length + 1) bs with
      | none => none
      | some ([], rest) => parseRequests f rest     -- an empty line before the request line is skipped
      | some (first :: ls, rest) =>
        match parseRequestLine first, parseFields ls with
        | some (m, t, v), some fs =>
          match framing v fs with
          | none => none
          | some .none => (parseRequests f rest).map (⟨m, t, v, fs, []⟩ :: ·)
          | some (.cl n) =>
            if rest.length < n then none
            else (parseRequests f (rest.drop n)).map (⟨m, t, v, fs, rest.take n⟩ :: ·)
          | some .chunked =>
            match chunked (rest.length + 1) rest with
            | none => none
            | some (b, r) => (parseRequests f r).map (⟨m, t, v, fs, b⟩ :: ·)
        | _, _ => none

/-- the reading of a complete byte stream -/
def parse (bs : Bytes) : Option (List Msg) := parseRequests (bs.length + 2) bs

/-- status-line of a response: version SP 3DIGIT SP reason -/
def parseStatusLine (l : Bytes) : Option (Bytes × Nat × Bytes) :=
  match splitOn 32 l with
  | v :: [a, b, c] :: reasonParts =>
    if isVersion v && isDigit a && isDigit b && isDigit c then
      some (v, decVal a * 100 + decVal b * 10 + decVal c, joinWith [32] reasonParts)
    else none
  | _ => none

/-! #### the response side: a stream of responses, the last one possibly delimited by the close of the connection -/

structure RMsg where
  version : Bytes
  status : Nat
  reason : Bytes
  fields : List Field
  body : Bytes
deriving Repr, DecidableEq

inductive RFraming where
  | none | cl (n : Nat) | chunked | eof
deriving Repr, DecidableEq

/-- RFC 9112 §6.3 for a response to a request with method `method`; anything ambiguous is refused -/
def framingResp (version : Bytes) (status : Nat) (method : Bytes) (fs : List Field) : Option RFraming :=
  let te := (fs.filter (nameIs sTE)).map (·.2)
  let cl := (fs.filter (nameIs sCL)).map (·.2)
  let codings := (te.flatMap (splitOn 44)).map (fun c => lower (stripOws c))
  let bodilessR := asciiUpper method == sHead || (100 ≤ status && status ≤ 199) || status = 204 || status = 304
                    || (asciiUpper method == sConnect && 200 ≤ status && status ≤ 299)
  if !te.isEmpty && !cl.isEmpty then Option.none
  else if !te.isEmpty && !(codings.all (fun c => knownCodings.contains c) && version == sHttp11
      && (codings.filter (· == sChunked)).length ≤ 1
      && (!codings.contains sChunked || codings.getLast? == some sChunked)
      && !((100 ≤ status && status ≤ 199) || status = 204)) then Option.none
  else
    let items := (cl.flatMap (splitOn 44)).map stripOws
    match (if cl.isEmpty then some Option.none else
            match items.map parseDec with
            | some n :: rest => if rest.all (· == some n) then some (some n) else Option.none
            | _ => Option.none) with
    | Option.none => Option.none
    | some n? =>
      if bodilessR then some .none
      else if !te.isEmpty then (if codings.getLast? == some sChunked then some .chunked else some .eof)
      else match n? with
        | some n => some (.cl n)
        | Option.none => some .eof

/-- all responses of a byte stream; `eof`: the sender has closed the connection (this is what ends a close-delimited
    body); `methods`: the methods of the requests the responses answer, in order.  `none` if any part is malformed,
    ambiguous or incomplete — or if anything follows a response that turns the connection into a tunnel. -/
def parseResponses : Nat → Bool → List Bytes → Bytes → Option (List RMsg)
  | 0, _, _, _ => none
  | f + 1, eof, methods, bs =>
    if bs.isEmpty then some []
    else match headLines (bs.length + 1) bs with
      | none => none
      | some ([], _) => none                       -- an empty line where a status line is expected
      | some (first :: ls, rest) =>
        match parseStatusLine first, parseFields ls with
        | some (v, st, reason), some fs =>
          let method := methods.headD []
          let interim := decide (100 ≤ st ∧ st ≤ 199 ∧ st ≠ 101)
          let methods' := if interim then methods else methods.drop 1
          let tunnel := st = 101 || (asciiUpper method == sConnect && 200 ≤ st && st ≤ 299)
          let next (body : Bytes) (r : Bytes) : Option (List RMsg) :=
            if tunnel then (if r.isEmpty then some [⟨v, st, reason, fs, body⟩] else none)
            else (parseResponses f eof methods' r).map (⟨v, st, reason, fs, body⟩ :: ·)
          match framingResp v st method fs with
          | none => none
          | some .none => next [] rest
          | some (.cl n) => if rest.length < n then none else next (rest.take n) (rest.drop n)
          | some .chunked =>
            match chunked (rest.length + 1) rest with
            | none => none
            | some (b, r) => next b r
          | some .eof => if eof then next rest [] else none
        | _, _ => none

def parseResp (eof : Bool) (methods : List Bytes) (bs : Bytes) : Option (List RMsg) :=
  parseResponses (bs.length + 2) eof methods bs

end Ref
/-- hyper-h2 `_initialize_content_length` + `_track_content_length`: what hyper-h2 checks of a message's DATA frames
    against its content-length field(s) (`headResp`: the response to a HEAD request; `endOnTrailers`: the stream is
    ended by a trailers HEADERS frame) -/
def h2ClOk (headResp : Bool) (b : Block) (bodyLen : Nat) (endOnTrailers : Bool := false) : Bool :=
  let cls := valuesOf sCL b
  if headResp then bodyLen = 0
  else if !cls.all (fun v => !v.isEmpty && v.all isDigit) then false
  else match cls.map Ref.parseDec with
    | [] => true
    | some n :: rest =>
      -- the final comparison is made on the DATA frame that carries END_STREAM; a stream ended by trailers only
      -- passes the running check "not more than announced"
      rest.all (· == some n) && (bodyLen = 0 || (if endOnTrailers then decide (bodyLen ≤ n) else n = bodyLen))
    | _ => false

end MitmVerif.C06
