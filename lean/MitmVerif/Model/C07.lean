/-
  C07 — model of HttpStream's body handling (mitmproxy/proxy/layers/http/__init__.py):
  check_body_size (early/late case, abort before stream), state_consume_*_body, state_stream_*_body,
  start_*_stream, the late switch to streaming, store_streamed_bodies; and of human.parse_size.

  One message travels in one direction.  The HTTP/1 (or HTTP/2) connection layer turns the wire into the events
  `headers`, `data`, `eom`; the model consumes those and emits what HttpStream emits: hooks, SendHttp of the
  head / data chunks / end of message to the peer, and the error responses.
  The stream callable an addon may install is an arbitrary function `Bytes → Ret`.
-/
import MitmVerif.Basic.Bytes
import MitmVerif.Gen.C07
namespace MitmVerif.C07
open MitmVerif

/-! ## human.parse_size -/

/-- characters `int(str)` strips from an ASCII string (CPython 3.12: TAB LF VT FF CR SP) -/
def isSpace (c : UInt8) : Bool := (9 ≤ c.toNat && c.toNat ≤ 13) || c.toNat = 32
def isDigit (c : UInt8) : Bool := 48 ≤ c.toNat && c.toNat ≤ 57
def digitVal (c : UInt8) : Nat := c.toNat - 48

/-- after at least one digit: more digits, single underscores only between digits (`us` = the previous character was
    an underscore); returns value and the rest -/
def digitsTail (acc : Nat) (us : Bool) : Bytes → Option (Nat × Bytes)
  | [] => if us then none else some (acc, [])
  | c :: r =>
    if isDigit c then digitsTail (acc * 10 + digitVal c) false r
    else if us then none
    else if c = 0x5f then digitsTail acc true r
    else some (acc, c :: r)

/-- CPython `int(s)` for an ASCII string: whitespace, optional sign, decimal digits with `_` separators -/
def pyInt (s : Bytes) : Option Int :=
  let s1 := s.dropWhile isSpace
  let (neg, s2) : Bool × Bytes := match s1 with
    | c :: r => if c = 0x2d then (true, r) else if c = 0x2b then (false, r) else (false, s1)
    | [] => (false, [])
  match s2 with
  | c :: r =>
    if isDigit c then
      match digitsTail (digitVal c) false r with
      | some (n, rest) => if (rest.dropWhile isSpace).isEmpty then some (if neg then -(n : Int) else (n : Int)) else none
      | none => none
    else none
  | [] => none

/-- `for i in SIZE_UNITS: if s.endswith(i): try: return int(s[:-1]) * SIZE_UNITS[i] except ValueError: break` -/
def unitLoop (s : Bytes) : List (Bytes × Nat) → Option Int
  | [] => none
  | (k, mult) :: rest =>
    if k.isSuffixOf s then (pyInt s.dropLast).map (· * (mult : Int))
    else unitLoop s rest

/-- human.parse_size on a string (None is handled by the caller): `none` = ValueError -/
def parseSizeWith (units : List (Bytes × Nat)) (s : Bytes) : Option Int :=
  match pyInt s with
  | some n => some n
  | none => unitLoop s units

def parseSize (s : Bytes) : Option Int := parseSizeWith Gen.C07.sizeUnits s

/-! ## the body state machine -/

structure Opts where
  limit : Option Int      -- parse_size(body_size_limit)
  thr   : Option Int      -- parse_size(stream_large_bodies)
  store : Bool            -- store_streamed_bodies
deriving Repr, DecidableEq

/-- expected_http_body_size: `None` (chunked) / `-1` (read until EOF) / known length -/
inductive ExpSize | unknown | untilEof | known (n : Nat)
deriving Repr, DecidableEq

/-- what a stream callable returns: `bytes` or an iterable of `bytes` -/
inductive Ret | one (b : Bytes) | many (l : List Bytes)
deriving Repr, DecidableEq

/-- what the requestheaders/responseheaders addon does with `.stream` -/
inductive Policy | none | setTrue | setFalse | callable
deriving Repr, DecidableEq

inductive Phase | waitHeaders | consume | stream | done | errored
deriving Repr, DecidableEq

inductive Ev | headers (exp : ExpSize) (endStream : Bool) | data (b : Bytes) | eom
deriving Repr, DecidableEq

inductive Out
  | hookHeaders | hookError | errClient | errServer
  | sendHead | sendData (b : Bytes) | hookMsg | sendEnd
deriving Repr, DecidableEq

structure St where
  phase : Phase := .waitHeaders
  buf : Bytes := []                 -- request_body_buf / response_body_buf
  useF : Bool := false              -- `.stream` is a callable
  exp : ExpSize := .unknown
  content : Option Bytes := none    -- message.data.content
deriving Repr, DecidableEq

def init : St := {}

inductive Verdict | pass | abort | stream
deriving Repr, DecidableEq

/-- step 1 of check_body_size: late case = bytes buffered so far, early case = from the headers -/
def expectedSize (exp : ExpSize) (buf : Bytes) : Option Int :=
  if buf ≠ [] then some (buf.length : Int)
  else match exp with
    | .known n => some (n : Int)
    | .untilEof => some (-1)
    | .unknown => none

def exceeds (n : Int) : Option Int → Bool
  | some l => decide (n > l)
  | none => false

def check (o : Opts) (exp : ExpSize) (buf : Bytes) : Verdict :=
  if o.limit.isNone && o.thr.isNone then .pass
  else match expectedSize exp buf with
    | none => .pass
    | some n =>
      if n ≤ 0 then .pass
      else if exceeds n o.limit then .abort
      else if exceeds n o.thr then .stream
      else .pass

/-- step 2 of check_body_size: hooks and error responses of an abort -/
def abortOuts (resp : Bool) (bufEmpty : Bool) : List Out :=
  (if bufEmpty then [.hookHeaders] else []) ++ [.hookError, .errClient] ++ (if resp then [.errServer] else [])

def normData : Ret → List Bytes
  | .one b => [b]
  | .many l => l

def normEnd : Ret → List Bytes
  | .one b => if b = [] then [] else [b]
  | .many l => l

/-- `for chunk in chunks: if store: buf += chunk; yield SendHttp(Data(chunk))` -/
def relay (o : Opts) (st : St) (chunks : List Bytes) : St × List Out :=
  ({ st with buf := if o.store then st.buf ++ chunks.flatten else st.buf }, chunks.map .sendData)

def step (o : Opts) (resp : Bool) (pol : Policy) (f : Bytes → Ret) (st : St) : Ev → St × List Out
  | .headers exp endS =>
    match st.phase with
    | .waitHeaders =>
      let v := if endS then Verdict.pass else check o exp []
      if v = .abort then ({ st with phase := .errored, exp := exp }, abortOuts resp true)
      else
        let flag0 := decide (v = .stream)
        let flag := match pol with | .none => flag0 | .setTrue => true | .setFalse => false | .callable => true
        let useF := decide (pol = .callable)
        if flag && !endS then ({ st with phase := .stream, useF := useF, exp := exp }, [.hookHeaders, .sendHead])
        else ({ st with phase := .consume, useF := useF, exp := exp }, [.hookHeaders])
    | _ => (st, [])
  | .data b =>
    match st.phase with
    | .consume =>
      let buf := st.buf ++ b
      match check o st.exp buf with
      | .abort => ({ st with buf := buf, phase := .errored }, abortOuts resp buf.isEmpty)
      | .stream =>
        if buf ≠ [] then
          -- `.stream = True`; clear the buffer, start streaming, replay what was buffered as one data event
          let r := relay o { st with buf := [], phase := .stream, useF := false } [buf]
          (r.1, .sendHead :: r.2)
        else ({ st with buf := buf }, [])
      | .pass => ({ st with buf := buf }, [])
    | .stream => relay o st (if st.useF then normData (f b) else [b])
    | _ => (st, [])
  | .eom =>
    match st.phase with
    | .consume =>
      ({ st with phase := .done, content := some st.buf, buf := [] },
        [.hookMsg, .sendHead] ++ (if st.buf ≠ [] then [.sendData st.buf] else []) ++ [.sendEnd])
    | .stream =>
      let r := relay o st (if st.useF then normEnd (f []) else [])
      let st' := r.1
      ({ st' with phase := .done,
                  content := if o.store then some st'.buf else st'.content,
                  buf := if o.store then [] else st'.buf },
        r.2 ++ [.hookMsg, .sendEnd])
    | _ => (st, [])

def run (o : Opts) (resp : Bool) (pol : Policy) (f : Bytes → Ret) : St → List Ev → St × List Out
  | st, [] => (st, [])
  | st, e :: es =>
    let r := step o resp pol f st e
    let r' := run o resp pol f r.1 es
    (r'.1, r.2 ++ r'.2)

/-- buffer length after every event -/
def samples (o : Opts) (resp : Bool) (pol : Policy) (f : Bytes → Ret) : St → List Ev → List Nat
  | _, [] => []
  | st, e :: es =>
    let st' := (step o resp pol f st e).1
    st'.buf.length :: samples o resp pol f st' es

def dataOf : List Out → List Bytes
  | [] => []
  | .sendData b :: r => b :: dataOf r
  | _ :: r => dataOf r

/-! ## the concrete callables the correspondence uses -/
def callableOf (name : String) : Option (Bytes → Ret) :=
  match name with
  | "id" => some (fun d => .one d)
  | "upper" => some (fun d => .one (asciiUpper d))
  | "drop" => some (fun _ => .one [])
  | "dropl" => some (fun _ => .many [])
  | "dup" => some (fun d => .many [d, d])
  | "mark" => some (fun d => .one (if d = [] then [0x21] else d))
  | "tup" => some (fun d => .many [d])
  | "gen" => some (fun d => .many [d.take 1, d.drop 1])
  | "iter" => some (fun d => .many [d, d])
  | "egen" => some (fun _ => .many [])
  | "genmark" => some (fun d => .many [if d = [] then [0x21] else d])
  | _ => none

end MitmVerif.C07
