/-
  C07 — one exchange: HttpStream handles the request body and the response body of the same flow.  The two directions
  have separate buffers, separate `.stream` attributes and separate calls of check_body_size(request: bool); what they
  share is the error state: check_body_size's abort of the response sets client_state = errored as well (request events
  are consumed silently from then on), and after an aborted request nothing of the response is handled.
  Events carry their direction.
-/
import MitmVerif.Model.C07
namespace MitmVerif.C07
open MitmVerif

structure XSt where
  req : St := {}
  resp : St := {}
deriving Repr, DecidableEq

/-- per-direction addon policy and callable -/
structure Side where
  pol : Policy
  f : Bytes → Ret

def stepX (o : Opts) (rq rs : Side) (x : XSt) : Bool × Ev → XSt × List (Bool × Out)
  | (false, e) =>
    if x.resp.phase = .errored then (x, [])          -- client_state = state_errored after a response abort
    else let r := step o false rq.pol rq.f x.req e; ({ x with req := r.1 }, r.2.map (fun out => (false, out)))
  | (true, e) =>
    if x.req.phase = .errored then (x, [])           -- the flow is dead after a request abort
    else let r := step o true rs.pol rs.f x.resp e; ({ x with resp := r.1 }, r.2.map (fun out => (true, out)))

def runX (o : Opts) (rq rs : Side) : XSt → List (Bool × Ev) → XSt × List (Bool × Out)
  | x, [] => (x, [])
  | x, e :: es =>
    let r := stepX o rq rs x e
    let r' := runX o rq rs r.1 es
    (r'.1, r.2 ++ r'.2)

/-- the events / outputs of one direction -/
def evsOf (d : Bool) : List (Bool × Ev) → List Ev
  | [] => []
  | (d', e) :: r => if d' = d then e :: evsOf d r else evsOf d r

def outsOf (d : Bool) : List (Bool × Out) → List Out
  | [] => []
  | (d', out) :: r => if d' = d then out :: outsOf d r else outsOf d r

/-- buffer length of direction `d` after every event of that direction -/
def samplesX (o : Opts) (rq rs : Side) (d : Bool) : XSt → List (Bool × Ev) → List Nat
  | _, [] => []
  | x, e :: es =>
    let x' := (stepX o rq rs x e).1
    if e.1 = d then (if d then x'.resp.buf.length else x'.req.buf.length) :: samplesX o rq rs d x' es
    else samplesX o rq rs d x' es

end MitmVerif.C07
