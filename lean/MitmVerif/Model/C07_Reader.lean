/-
  C07 — the HTTP/1 body readers that turn the wire into data events for HttpStream
  (h11._readers.ContentLengthReader / ChunkedReader / Http10Reader as driven by
  mitmproxy/proxy/layers/http/_http1.py Http1Connection.read_body), as an `Incremental` byte consumer.

  The readers work on a ReceiveBuffer (extract at most n bytes / extract the next CRLF line); here they are written as
  byte automata: every decision h11 takes only depends on the bytes seen so far, and where h11 waits for a complete
  line before it judges it (chunk header) the automaton records the verdict and delivers it when the CRLF arrives.
  Items: the body bytes, a `cut` where h11 ends a Data event although more bytes are available (chunk boundary),
  end of message, protocol error, and `trailer` (a non-empty trailer section: not supported by mitmproxy).
  Data events = the maximal runs of bytes between cuts within one `feed` call (`eventsOf`).
-/
import MitmVerif.Basic.Seg
import MitmVerif.Model.C07
namespace MitmVerif.C07
open MitmVerif

inductive Framing | cl (n : Nat) | chunked | untilEof
deriving Repr, DecidableEq

inductive Item | byte (b : UInt8) | cut | eom | err | trailer
deriving Repr, DecidableEq

/-- progress through a chunk header line `HEXDIG{1,20} (";" .*)? OWS CRLF` -/
structure SizeLine where
  digits : Nat := 0          -- hex digits read
  value : Nat := 0
  mode : Nat := 0            -- 0 = in the size, 1 = trailing OWS, 2 = inside a chunk extension
  bad : Bool := false        -- the line can no longer match
  cr : Bool := false         -- the previous byte was CR (line end if LF follows, content otherwise)
deriving Repr, DecidableEq

inductive RSt
  | cl (rem : Nat)                 -- ContentLengthReader with `rem` bytes to go (rem > 0)
  | size (l : SizeLine)            -- ChunkedReader: reading a chunk header
  | data (rem : Nat)               -- ChunkedReader: inside a chunk
  | dataEnd (k : Nat)              -- ChunkedReader: `k` bytes of the CRLF after the chunk data seen
  | trailer (cr : Bool)            -- ChunkedReader: after the last-chunk line
  | untilEof                       -- Http10Reader
  | stop                           -- message complete or failed: the reader is not called again
deriving Repr, DecidableEq

def hexVal (c : UInt8) : Option Nat :=
  let n := c.toNat
  if 48 ≤ n ∧ n ≤ 57 then some (n - 48)
  else if 97 ≤ n ∧ n ≤ 102 then some (n - 87)
  else if 65 ≤ n ∧ n ≤ 70 then some (n - 55)
  else none

/-- one byte of line content (not the terminating CRLF) -/
def sizeContent (l : SizeLine) (c : UInt8) : SizeLine :=
  if l.mode = 0 then
    match hexVal c with
    | some d => { l with digits := l.digits + 1, value := l.value * 16 + d, bad := l.bad || decide (l.digits + 1 > 20) }
    | none =>
      if c = 0x3b then { l with mode := 2, bad := l.bad || decide (l.digits = 0) }
      else if c = 0x20 ∨ c = 0x09 then { l with mode := 1, bad := l.bad || decide (l.digits = 0) }
      else { l with bad := true }
  else if l.mode = 1 then
    if c = 0x20 ∨ c = 0x09 then l else { l with bad := true }
  else
    if c = 0x0a then { l with bad := true } else l      -- `.` does not match LF

def stepByte : RSt → UInt8 → RSt × List Item
  | .cl rem, c => if rem ≤ 1 then (.stop, [.byte c, .eom]) else (.cl (rem - 1), [.byte c])
  | .untilEof, c => (.untilEof, [.byte c])
  | .data rem, c => if rem ≤ 1 then (.dataEnd 0, [.byte c, .cut]) else (.data (rem - 1), [.byte c])
  | .dataEnd k, c =>
    if k = 0 then (if c = 0x0d then (.dataEnd 1, []) else (.stop, [.err]))
    else (if c = 0x0a then (.size {}, []) else (.stop, [.err]))
  | .size l, c =>
    if l.cr ∧ c = 0x0a then
      -- the line is complete: now h11 validates it
      if l.bad ∨ l.digits = 0 then (.stop, [.err])
      else if l.value = 0 then (.trailer false, [])
      else (.data l.value, [])
    else
      -- a pending CR turns out to be content
      let l1 := if l.cr then sizeContent { l with cr := false } 0x0d else l
      if c = 0x0d then (.size { l1 with cr := true }, [])
      else (.size (sizeContent l1 c), [])
  | .trailer cr, c =>
    if cr then (if c = 0x0a then (.stop, [.eom]) else (.stop, [.trailer]))
    else if c = 0x0a then (.stop, [.eom])
    else if c = 0x0d then (.trailer true, [])
    else (.stop, [.trailer])
  | .stop, _ => (.stop, [])

def feed (s : RSt) : Bytes → RSt × List Item
  | [] => (s, [])
  | c :: cs =>
    let r := stepByte s c
    let r' := feed r.1 cs
    (r'.1, r.2 ++ r'.2)

def readerInc : Incremental RSt Item := ⟨feed⟩

/-- what read_body does before the first body byte: ContentLengthReader(0) reports the end at once -/
def startReader : Framing → RSt × List Item
  | .cl 0 => (.stop, [.eom])
  | .cl n => (.cl n, [])
  | .chunked => (.size {}, [])
  | .untilEof => (.untilEof, [])

/-- ConnectionClosed while reading the body: Http10Reader.read_eof ends the message, the others raise -/
def closeReader : RSt → RSt × List Item
  | .untilEof => (.stop, [.eom])
  | .stop => (.stop, [])
  | _ => (.stop, [.err])

/-- the events one read_body call hands to HttpStream: a data event per run of bytes, end of message; a protocol
    error (or an unsupported trailer) ends the list -/
def eventsGo (acc : Bytes) : List Item → List Ev × Bool
  | [] => (if acc = [] then [] else [.data acc], false)
  | .byte b :: r => eventsGo (acc ++ [b]) r
  | .cut :: r => let x := eventsGo [] r; ((if acc = [] then [] else [.data acc]) ++ x.1, x.2)
  | .eom :: r => let x := eventsGo [] r; ((if acc = [] then [] else [.data acc]) ++ [.eom] ++ x.1, x.2)
  | .err :: _ => (if acc = [] then [] else [.data acc], true)
  | .trailer :: _ => (if acc = [] then [] else [.data acc], true)

def eventsOf (items : List Item) : List Ev × Bool := eventsGo [] items

def bytesOf : List Item → Bytes
  | [] => []
  | .byte b :: r => b :: bytesOf r
  | _ :: r => bytesOf r

/-- the whole receive path: reader state, HttpStream state, everything emitted, buffer length after every delivery;
    after a protocol error nothing more reaches HttpStream -/
structure Wire where
  rs : RSt
  st : St
  dead : Bool := false          -- the connection is closed: a reader error, or HttpStream refused the body
  protoErr : Bool := false      -- ... because the reader raised a protocol error
  sawTrailer : Bool := false
  errBlocked : Bool := false    -- the delivery in which HttpStream refused the body also made the readers raise: the connection
                                -- is closed as a protocol error before the error response can be written to it
  outs : List Out := []
  smp : List Nat := []

def Wire.deliverItems (o : Opts) (resp : Bool) (pol : Policy) (f : Bytes → Ret) (w : Wire) (rs' : RSt) (items : List Item) : Wire :=
  if w.dead then { w with smp := w.smp ++ [w.st.buf.length] }
  else
    let ev := eventsOf items
    let r := run o resp pol f w.st ev.1
    -- handle_protocol_error fires the error hook only if the flow has not errored already (body_size_limit abort)
    { rs := rs', st := r.1, dead := ev.2 || decide (r.1.phase = .errored), protoErr := ev.2 && !decide (r.1.phase = .errored),
      sawTrailer := items.contains .trailer,
      errBlocked := w.errBlocked || (ev.2 && decide (r.1.phase = .errored)), outs := w.outs ++ r.2,
      smp := w.smp ++ [r.1.buf.length] }

def Wire.recv (o : Opts) (resp : Bool) (pol : Policy) (f : Bytes → Ret) (w : Wire) (seg : Bytes) : Wire :=
  let r := feed w.rs seg
  w.deliverItems o resp pol f r.1 r.2

def Wire.close (o : Opts) (resp : Bool) (pol : Policy) (f : Bytes → Ret) (w : Wire) : Wire :=
  let r := closeReader w.rs
  w.deliverItems o resp pol f r.1 r.2

/-- expected_http_body_size of a message with that framing -/
def Framing.exp : Framing → ExpSize
  | .cl n => .known n
  | .chunked => .unknown
  | .untilEof => .untilEof

/-- the head arrives (its own delivery), then the body segments, then optionally the peer's close -/
def wireRun (o : Opts) (resp : Bool) (pol : Policy) (f : Bytes → Ret) (fr : Framing) (segs : List Bytes) (close : Bool) : Wire :=
  let exp := fr.exp
  let endS := decide (fr = .cl 0)
  let s0 := startReader fr
  let r0 := run o resp pol f init (Ev.headers exp endS :: (eventsOf s0.2).1)
  let w0 : Wire := { rs := s0.1, st := r0.1, dead := decide (r0.1.phase = .errored), outs := r0.2, smp := [r0.1.buf.length] }
  let w1 := segs.foldl (fun w seg => w.recv o resp pol f seg) w0
  if close then w1.close o resp pol f else w1

end MitmVerif.C07
