/-
  C07 — the body part of the HTTP/1 writers (mitmproxy/proxy/layers/http/_http1.py Http1Client.send for
  RequestData / RequestEndOfMessage, Http1Server.send for ResponseData / ResponseEndOfMessage):
  a data event becomes one chunk `%x CRLF data CRLF` when the head says chunked (nothing at all for an empty piece),
  the raw bytes otherwise; the end of the message becomes the last-chunk `0 CRLF CRLF` when chunked.
-/
import MitmVerif.Model.C07
import MitmVerif.Model.C01
namespace MitmVerif.C07
open MitmVerif

def crlf : Bytes := [13, 10]

/-- `raw = b"%x\r\n%s\r\n" % (len(data), data)` / `raw = data`; `if event.data: yield SendData(raw)` -/
def frameData (chunked : Bool) (d : Bytes) : Bytes :=
  if d = [] then [] else if chunked then C01.hexDigits d.length ++ crlf ++ d ++ crlf else d

/-- `yield SendData(b"0\r\n\r\n")` when chunked -/
def frameEnd (chunked : Bool) : Bytes := if chunked then [48, 13, 10, 13, 10] else []

/-- the bytes after the head that the peer is sent for what HttpStream emitted -/
def wireOf (chunked : Bool) : List Out → Bytes
  | [] => []
  | .sendData b :: r => frameData chunked b ++ wireOf chunked r
  | .sendEnd :: r => frameEnd chunked ++ wireOf chunked r
  | _ :: r => wireOf chunked r

end MitmVerif.C07
