/-
  C08 — model of HttpLayer's upstream connection pool (mitmproxy/proxy/layers/http/__init__.py:
  GetHttpConnection.connection_spec_matches, HttpLayer.get_connection, HttpLayer.register_connection,
  `connections` (ordered dict), `waiting_for_establishment`) and of the Server.__setattr__ guard
  (mitmproxy/connection.py).

  Hosts and ports are abstract numbers, an upstream proxy is its address; a connection's position in `connections`
  (insertion order, the client connection left out) is its identity.  `connections` also holds the tunnel
  connections (the TCP connection to an upstream proxy): HttpLayer.event_to_child registers every OpenConnection.
-/
namespace MitmVerif.C08

/-- what a GetHttpConnection command asks for: (address, tls, via, transport_protocol) -/
structure Spec where
  host : Nat
  port : Nat
  tls : Bool
  via : Option (Nat × Nat)
  udp : Bool
deriving DecidableEq, Repr

/-- a `connection.Server` as far as the pool looks at it -/
structure Conn where
  addr : Option (Nat × Nat)                 -- Server.address (None: placeholder of regular/upstream mode)
  tls : Bool
  via : Option (Nat × Nat)
  udp : Bool
  tunnel : Bool                             -- registered for event routing only: `conn != handler.context.server`
  canRead : Bool                            -- ConnectionState.CAN_READ
  canWrite : Bool                           -- ConnectionState.CAN_WRITE
  error : Bool                              -- Server.error is set
  alpnH2 : Bool                             -- Server.alpn == b"h2"
  waiting : Option (List (Nat × Spec))      -- `conn in waiting_for_establishment` ↔ some; the commands waiting
deriving DecidableEq, Repr

/-- Connection.connected: state is ConnectionState.OPEN -/
def Conn.connected (c : Conn) : Bool := c.canRead && c.canWrite

/-- GetHttpConnection.connection_spec_matches -/
def specMatches (s : Spec) (c : Conn) : Bool :=
  c.addr == some (s.host, s.port) && c.tls == s.tls && c.via == s.via && c.udp == s.udp

structure Pool where
  conns : List Conn := []      -- HttpLayer.connections (Server keys, in insertion order)
  ctx : Conn                   -- HttpLayer.context.server as long as it is not in `connections`
  ctxIn : Option Nat := none   -- its index once it is
  clientH2 : Bool := false     -- context.client.alpn == b"h2"
deriving Repr

inductive Out
  | routed (rid : Nat) (s : Spec) (cid : Nat)   -- GetHttpConnectionCompleted(cmd, (connection, None)): the head goes there
  | failed (rid : Nat)                          -- GetHttpConnectionCompleted(cmd, (None, err))
  | opened (cid : Nat)                          -- a new Server was put into `connections` and OpenConnection issued
  | waitOn (rid : Nat) (cid : Nat)              -- the command was appended to waiting_for_establishment[cid]
deriving DecidableEq, Repr

inductive Scan | wait (i : Nat) | fail (i : Nat) | reuse (i : Nat) | none
deriving DecidableEq, Repr

/-- `for connection in self.connections:` of get_connection -/
def scan (clientH2 : Bool) (s : Spec) : Nat → List Conn → Scan
  | _, [] => .none
  | i, c :: cs =>
    if !c.tunnel && specMatches s c then
      if c.waiting.isSome then .wait i
      else if c.error then .fail i
      else if c.connected then
        (if clientH2 && !c.alpnH2 then scan clientH2 s (i + 1) cs else .reuse i)
      else scan clientH2 s (i + 1) cs          -- at least half-closed: we want a new one
    else scan clientH2 s (i + 1) cs

/-- `Server(address=event.address, transport_protocol=...)`, `.via = event.via`, TLS layer sets `.tls = True` -/
def newConn (s : Spec) : Conn :=
  { addr := some (s.host, s.port), tls := s.tls, via := s.via, udp := s.udp, tunnel := false,
    canRead := false, canWrite := false, error := false, alpnH2 := false, waiting := none }

/-- `connection.Server(address=address)` of HttpUpstreamProxy.make: the TCP connection to the proxy -/
def tunnelConn (a : Nat × Nat) : Conn :=
  { addr := some a, tls := false, via := none, udp := false, tunnel := true,
    canRead := false, canWrite := false, error := false, alpnH2 := false, waiting := none }

def addWaiting (w : Nat × Spec) (c : Conn) : Conn :=
  { c with waiting := some ((c.waiting.getD []) ++ [w]) }

def updAt (l : List Conn) (i : Nat) (f : Conn → Conn) : List Conn :=
  match l[i]? with
  | some c => l.set i (f c)
  | none => l

/-- HttpLayer.get_connection below the reuse loop: the context connection, or a new one -/
def getFresh (p : Pool) (rid : Nat) (s : Spec) : Pool × List Out :=
  let ctxMatches := p.ctxIn.isNone && specMatches s p.ctx
  if ctxMatches && p.ctx.error then (p, [.failed rid])
  else if ctxMatches && p.ctx.connected then
    -- the context connection goes into `connections`; HttpClient finds it connected and registers it at once
    ({ p with conns := p.conns ++ [{ p.ctx with waiting := none }], ctxIn := some p.conns.length },
     [.routed rid s p.conns.length])
  else
    -- HttpClient issues OpenConnection at once; with an upstream proxy that is for the tunnel connection, which
    -- event_to_child registers right behind the new one
    ({ p with conns := p.conns ++ [{ newConn s with waiting := some [(rid, s)] }] ++
                        (match s.via with | some a => [tunnelConn a] | none => []) },
     [.opened p.conns.length, .waitOn rid p.conns.length])

/-- HttpLayer.get_connection -/
def getConn (p : Pool) (reuse : Bool) (rid : Nat) (s : Spec) : Pool × List Out :=
  match (if reuse then scan p.clientH2 s 0 p.conns else Scan.none) with
  | .wait i => ({ p with conns := updAt p.conns i (addWaiting (rid, s)) }, [.waitOn rid i])
  | .fail _ => (p, [.failed rid])
  | .reuse i => (p, [.routed rid s i])
  | .none => getFresh p rid s

/-- outcome of the connection attempt as RegisterHttpConnection reports it; `setsError`: the failure was recorded in
    Server.error (TCP connect of a direct connection, TLS handshake) or not (upstream proxy refused CONNECT) -/
inductive Res | ok (alpnH2 : Bool) | fail (setsError : Bool)
deriving DecidableEq, Repr

def regetAll (p : Pool) : List (Nat × Spec) → Pool × List Out
  | [] => (p, [])
  | w :: ws =>
    let r := getConn p false w.1 w.2
    let r' := regetAll r.1 ws
    (r'.1, r.2 ++ r'.2)

/-- the connection attempt of `cid` completed (state/error/alpn as the server and the tunnel layers set them), then
    HttpLayer.register_connection -/
def register (p : Pool) (cid : Nat) (res : Res) : Pool × List Out :=
  match p.conns[cid]? with
  | none => (p, [])
  | some c =>
    match c.waiting with
    | none => (p, [])
    | some ws =>
      match res with
      | .fail setsErr =>
        ({ p with conns := p.conns.set cid { c with waiting := none, error := c.error || setsErr } },
         ws.map (fun w => Out.failed w.1))
      | .ok h2 =>
        let p' := { p with conns := p.conns.set cid { c with waiting := none, canRead := true, canWrite := true, alpnH2 := h2 } }
        if p.clientH2 && !h2 then
          -- HTTP/2 -> HTTP/1: only the first waiting flow gets the connection, the others get one of their own
          match ws with
          | [] => (p', [])
          | w :: rest =>
            let r := regetAll p' rest
            (r.1, Out.routed w.1 w.2 cid :: r.2)
        else (p', ws.map (fun w => Out.routed w.1 w.2 cid))

inductive Field | addr (v : Option (Nat × Nat)) | via (v : Option (Nat × Nat))
deriving DecidableEq, Repr

/-- Server.__setattr__ for "address"/"via": (connection afterwards, raised RuntimeError) -/
def setAttr (c : Conn) : Field → Conn × Bool
  | .addr v => if c.connected && c.addr != v then (c, true) else ({ c with addr := v }, false)
  | .via v => if c.connected && c.via != v then (c, true) else ({ c with via := v }, false)

inductive Target | ctx | conn (i : Nat)
deriving DecidableEq, Repr

inductive Ev
  | get (rid : Nat) (s : Spec)                       -- a stream yields GetHttpConnection
  | result (cid : Nat) (r : Res)                     -- the pending connection attempt of `cid` finished
  | setState (t : Target) (r w : Bool)               -- Connection.state changes not modelled below (teardown, tunnels)
  | peerClose (t : Target)                           -- the server sends FIN on an established connection
  | responseDone (t : Target) (closeHdr : Bool)      -- the HTTP/1 exchange on the connection is complete
  | setError (t : Target)                            -- Server.error set on an established / context connection
  | poke (t : Target) (f : Field)                    -- an addon assigns server.address / server.via
deriving DecidableEq, Repr

/-- the Conn a target denotes (the context connection lives in `conns` once it has been used) -/
def Pool.target (p : Pool) : Target → Option Conn
  | .ctx => match p.ctxIn with | some i => p.conns[i]? | none => some p.ctx
  | .conn i => p.conns[i]?

def Pool.updTarget (p : Pool) (t : Target) (f : Conn → Conn) : Pool :=
  match t with
  | .ctx => match p.ctxIn with
    | some i => { p with conns := updAt p.conns i f }
    | none => { p with ctx := f p.ctx }
  | .conn i => { p with conns := updAt p.conns i f }

inductive Note | none | raised | set
deriving DecidableEq, Repr

def step (p : Pool) : Ev → Pool × List Out × Note
  | .get rid s => let r := getConn p true rid s; (r.1, r.2, .none)
  | .result cid res => let r := register p cid res; (r.1, r.2, .none)
  | .setState t r w => (p.updTarget t (fun c => { c with canRead := r, canWrite := w }), [], .none)
  | .peerClose t =>
    -- Http1Client on ConnectionClosed: `if conn.state & CAN_WRITE: yield CloseConnection(conn)` — the connection ends
    -- fully closed; a connection that cannot be read (pending, closed) does not deliver the event
    (p.updTarget t (fun c => if c.canRead then { c with canRead := false, canWrite := false } else c), [], .none)
  | .responseDone t closeHdr =>
    -- Http1Connection.mark_done: connection_done if `Connection: close` or the request came over HTTP/2 or HTTP/3
    (p.updTarget t (fun c => if closeHdr || p.clientH2 then { c with canRead := false, canWrite := false } else c), [], .none)
  | .setError t =>
    -- server.py turns an error set on a pending connection into a failed attempt; elsewhere it is just recorded
    match p.target t with
    | some c => if c.waiting.isSome then (p, [], .none) else (p.updTarget t (fun c => { c with error := true }), [], .none)
    | none => (p, [], .none)
  | .poke t f =>
    match p.target t with
    | some c => (p.updTarget t (fun c' => (setAttr c' f).1), [], if (setAttr c f).2 then .raised else .set)
    | none => (p, [], .none)

/-- after every event: the pool and what the event produced -/
def trace (p : Pool) : List Ev → List (Pool × List Out)
  | [] => []
  | e :: es => let r := step p e; (r.1, r.2.1) :: trace r.1 es

def run (p : Pool) : List Ev → Pool
  | [] => p
  | e :: es => run (step p e).1 es

end MitmVerif.C08
