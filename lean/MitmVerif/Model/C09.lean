/-
  C09 — connection lifecycle events pair up, per-destination concurrency is bounded.

  Model of `mitmproxy.proxy.server.ConnectionHandler` (handle_client, open_connection, handle_connection,
  hook_task, server_event, release_transport) as a small task system.  Every task is a program counter
  that sits at an *await point of the code* (or between two observable actions of one synchronous
  stretch); a `Label` is one observable action of one task.  The scheduler, the environment and the
  layer are not modelled — they are *arbitrary*: any task may take its next action at any time, every
  await may return normally, fail, or deliver a cancellation (no `cancel()` request is needed for a
  cancellation to arrive, which over-approximates asyncio), and every `server_event` may return any
  list of commands.  The parts of asyncio the code relies on are an explicit small-step scheduler:
    * every handler task carries its list of done-callbacks in registration order (`cbs`):
      `release_transport` is registered when the task is created, `asyncio.wait`'s completion
      callback (`waitH`) when handle_client starts waiting for it; label `cb t` runs the FIRST
      pending callback of task `t`, and only once `t` has finished (asyncio: a future's callbacks are
      scheduled at completion, in registration order, each exactly once);
    * `asyncio.wait` is its counter (`hcount`): set to the number of awaited tasks, decremented by
      each `waitH` callback; handle_client resumes only at zero;
    * `asyncio.Semaphore` (CPython 3.12) is transcribed: a counter per address (`semv`) and a FIFO of
      waiters (`waiters`); `acquire` takes a slot at once when the semaphore is not locked, otherwise
      queues; `release` increments the counter and wakes the first queued waiter whose future is still
      pending, handing it the slot (counter decremented on its behalf: pc `semWoken`); a cancellation
      request marks a queued waiter's future cancelled (`creq`: pc `semCancelled`) — when that task
      resumes it leaves the queue WITHOUT touching the counter; a waiter that had already been handed
      a slot when the cancellation arrives gives the slot back and wakes the next one.
  Any interleaving = any choice of the next runnable task action or callback.
  `handle_client` itself is assumed not to be cancelled from outside.
  Hook counters (`nCC`, `nSC`, …) are ghost state: they count the `hook` labels of the trace.
-/
namespace MitmVerif.C09

inductive Res where | ok | err | cancel | data | eof
  deriving DecidableEq, Repr

inductive Hk where | cc | cd | sc | sd | se | sx | hk
  deriving DecidableEq, Repr

/-- what a layer may ask for in a `server_event` (SendData/Close*/Log have no effect on this model:
    cancellation requests are over-approximated, bytes are not modelled) -/
inductive Cmd where
  | opn (key : Nat) (addr : Option Nat)     -- OpenConnection(server `key`), address id or none
  | spawn                                    -- StartHook → hook_task
  deriving DecidableEq, Repr

inductive EvKind where | start | data | closed | cok | cerr | hookdone
  deriving DecidableEq, Repr

inductive Act where
  | start                                   -- first step of the task's coroutine
  | hook (h : Hk)                           -- handle_hook entered: the hook fires
  | hookret (r : Res) (kill : Bool)         -- handle_hook returns (ok) or is cancelled; kill: `.error` was set
  | semwait | semacq | semcancel            -- `async with self.max_conns[address]`
  | creq                                    -- Task.cancel() while the task is queued on the semaphore
  | dial (a : Nat)                          -- an addon rewrote data.server.address in the server_connect hook
  | connret (r : Res)                       -- asyncio.open_connection returns / raises OSError / is cancelled
  | ev (k : EvKind) (cmds : List Cmd)       -- server_event(k) and the commands the layer returned
  | readret (r : Res)                       -- reader.read returns data / eof / raises OSError / is cancelled
  | wclose                                  -- writer.close() (+ transports.pop)
  | semrel                                  -- leaving the `async with`
  | fin                                     -- the task is done (returned, raised, or was cancelled before it ran)
  deriving DecidableEq, Repr

inductive Tid where | H | C | S (i : Nat) | K (i : Nat)
  deriving DecidableEq, Repr

/-- a done-callback of a handler task -/
inductive Cb where
  | release      -- ConnectionHandler.release_transport (registered at task creation)
  | waitH        -- asyncio.wait's _on_completion (registered when handle_client waits for the task)
  deriving DecidableEq, Repr

inductive Label where
  | act (t : Tid) (a : Act)
  | cb (t : Tid)                            -- the event loop runs the first pending done-callback of task t
  deriving DecidableEq, Repr

/-- why server_connect_error is being fired -/
inductive Mode where | kill | canc | heldErr | heldCanc
  deriving DecidableEq, Repr

def Mode.held : Mode → Bool
  | .heldErr | .heldCanc => true
  | _ => false

/-- program counter of one open_connection task -/
inductive PC where
  | created | started | inSC | preSem | inSem
  | semCancelled        -- queued; its future has been cancelled, the task has not resumed yet
  | semWoken            -- queued; a releaser has handed it a slot (future result set), not resumed yet
  | preSE (m : Mode) | inSE (m : Mode) | preEvErr (m : Mode)
  | inConn | preSD | inSD | preEvOk | inRead | preEvData | afterData | preEvClosed | preClose
  | preSX | inSX | preRel | finishing | done
  deriving DecidableEq, Repr

structure Conn where
  key   : Nat
  req   : Option Nat    -- the address the layer asked for (`command.connection.address` when the task starts)
  want  : Option Nat    -- the address an addon wrote in the server_connect hook, if any
  addr  : Option Nat    -- the address that is dialled = the key of `self.max_conns[...]`: read AFTER the server_connect
                        -- hook has returned (none until then)
  pc    : PC
  entry : Bool          -- `transports[connection]` exists and belongs to this task
  cbs   : List Cb       -- done-callbacks not yet run, in registration order
  late  : Bool          -- ghost: the layer asked for this connection after handle_client had collected the transports to wait for
  nSC : Nat
  nSD : Nat
  nSE : Nat
  nSX : Nat
  deriving DecidableEq, Repr

/-- the task is inside `async with self.max_conns[address]` -/
def holding : PC → Bool
  | .inConn | .preSD | .inSD | .preEvOk | .inRead | .preEvData | .afterData | .preEvClosed | .preClose
  | .preSX | .inSX | .preRel => true
  | .preSE m | .inSE m | .preEvErr m => m.held
  | _ => false

/-- the upstream socket exists and `close()` has not been called -/
def wopen : PC → Bool
  | .preSD | .inSD | .preEvOk | .inRead | .preEvData | .afterData | .preEvClosed | .preClose => true
  | _ => false

/-- one action of an open_connection task; `ok`: the semaphore's `locked()` test agrees with the action
    (see `semGuard`).  Returns the new task state and the commands the layer returned (if the action is a
    server_event).  What the action does to the semaphore itself is `semEffect`. -/
def stepS (c : Conn) (a : Act) (ok : Bool) : Option (Conn × List Cmd) :=
  match c.pc, a with
  | .created, .start => some ({ c with pc := .started }, [])
  | .created, .fin => some ({ c with pc := .done }, [])                       -- cancelled before its first step
  | .started, .ev .cerr cmds => if c.req = none then some ({ c with pc := .finishing }, cmds) else none
  | .started, .hook .sc => if c.req = none then none else some ({ c with pc := .inSC, nSC := c.nSC + 1 }, [])
  | .inSC, .dial a => some ({ c with want := some a }, [])
  | .inSC, .hookret .ok false =>
    -- `self.max_conns[command.connection.address]` is evaluated now, with the address as the hook left it (set once)
    some ({ c with pc := .preSem, addr := if c.addr.isNone then (match c.want with | some a => some a | none => c.req) else c.addr }, [])
  | .inSC, .hookret .ok true => some ({ c with pc := .preSE .kill }, [])
  | .inSC, .hookret .cancel _ => some ({ c with pc := .preSE .canc }, [])
  | .preSem, .semwait => if ok then some ({ c with pc := .inSem }, []) else none      -- locked(): queue
  | .preSem, .semacq => if ok then some ({ c with pc := .inConn }, []) else none     -- not locked(): take a slot
  | .inSem, .creq => some ({ c with pc := .semCancelled }, [])
  | .semWoken, .creq => some ({ c with pc := .semWoken }, [])                        -- future already done
  | .semWoken, .semacq => some ({ c with pc := .inConn }, [])
  | .semWoken, .semcancel => some ({ c with pc := .preSE .canc }, [])
  | .semCancelled, .semcancel => some ({ c with pc := .preSE .canc }, [])
  | .preSE m, .hook .se => some ({ c with pc := .inSE m, nSE := c.nSE + 1 }, [])
  | .inSE m, .hookret .ok _ => some ({ c with pc := .preEvErr m }, [])
  | .inSE .kill, .hookret .cancel _ => some ({ c with pc := .finishing }, [])
  | .inSE .canc, .hookret .cancel _ => some ({ c with pc := .finishing }, [])
  | .inSE .heldErr, .hookret .cancel _ => some ({ c with pc := .preRel }, [])
  | .inSE .heldCanc, .hookret .cancel _ => some ({ c with pc := .preRel }, [])
  | .preEvErr .kill, .ev .cerr cmds => some ({ c with pc := .finishing }, cmds)
  | .preEvErr .canc, .ev .cerr cmds => some ({ c with pc := .finishing }, cmds)
  | .preEvErr .heldErr, .ev .cerr cmds => some ({ c with pc := .preRel }, cmds)
  | .preEvErr .heldCanc, .ev .cerr cmds => some ({ c with pc := .preRel }, cmds)
  | .inConn, .connret .ok => some ({ c with pc := .preSD }, [])
  | .inConn, .connret .err => some ({ c with pc := .preSE .heldErr }, [])
  | .inConn, .connret .cancel => some ({ c with pc := .preSE .heldCanc }, [])
  | .preSD, .hook .sd => some ({ c with pc := .inSD, nSD := c.nSD + 1 }, [])
  | .inSD, .hookret .ok _ => some ({ c with pc := .preEvOk }, [])
  | .inSD, .hookret .cancel _ => some ({ c with pc := .preClose }, [])       -- finally: release_transport
  | .preEvOk, .ev .cok cmds => some ({ c with pc := .inRead }, cmds)
  | .inRead, .readret .data => some ({ c with pc := .preEvData }, [])
  | .inRead, .readret .eof => some ({ c with pc := .preEvClosed }, [])
  | .inRead, .readret .err => some ({ c with pc := .preEvClosed }, [])
  | .inRead, .readret .cancel => some ({ c with pc := .preEvClosed }, [])
  | .preEvData, .ev .data cmds => some ({ c with pc := .afterData }, cmds)
  | .afterData, .readret .data => some ({ c with pc := .preEvData }, [])     -- drained, next read
  | .afterData, .readret .eof => some ({ c with pc := .preEvClosed }, [])
  | .afterData, .readret .err => some ({ c with pc := .preEvClosed }, [])
  | .afterData, .readret .cancel => some ({ c with pc := .preEvClosed }, [])
  | .afterData, .ev .closed cmds => some ({ c with pc := .preClose }, cmds)   -- cancelled in drain_writers
  | .preEvClosed, .ev .closed cmds => some ({ c with pc := .preClose }, cmds)
  | .preClose, .wclose => some ({ c with pc := .preSX }, [])
  | .preSX, .hook .sx => some ({ c with pc := .inSX, entry := false, nSX := c.nSX + 1 }, [])
  | .inSX, .hookret _ _ => some ({ c with pc := .preRel }, [])
  | .preRel, .semrel => some ({ c with pc := .finishing }, [])
  | .finishing, .fin => some ({ c with pc := .done }, [])
  | _, _ => none

/-- program counter of the client connection handler task (handle_connection(client)) -/
inductive CPC where
  | absent | created | inRead | preEvData | afterData | preEvClosed | preClose | finishing | done
  deriving DecidableEq, Repr

/-- (new pc, commands, writer closed + entry popped in this action) -/
def stepC (pc : CPC) (a : Act) : Option (CPC × List Cmd × Bool) :=
  match pc, a with
  | .created, .start => some (.inRead, [], false)
  | .created, .fin => some (.done, [], false)
  | .inRead, .readret .data => some (.preEvData, [], false)
  | .inRead, .readret .eof => some (.preEvClosed, [], false)
  | .inRead, .readret .err => some (.preEvClosed, [], false)
  | .inRead, .readret .cancel => some (.preEvClosed, [], false)
  | .preEvData, .ev .data cmds => some (.afterData, cmds, false)
  | .afterData, .readret .data => some (.preEvData, [], false)
  | .afterData, .readret .eof => some (.preEvClosed, [], false)
  | .afterData, .readret .err => some (.preEvClosed, [], false)
  | .afterData, .readret .cancel => some (.preEvClosed, [], false)
  | .afterData, .ev .closed cmds => some (.preClose, cmds, false)
  | .preEvClosed, .ev .closed cmds => some (.preClose, cmds, false)
  | .preClose, .wclose => some (.finishing, [], true)
  | .finishing, .fin => some (.done, [], false)
  | _, _ => none

/-- program counter of a hook task -/
inductive KPC where
  | created | started | inHK | preEv | finishing | done
  deriving DecidableEq, Repr

def stepK (pc : KPC) (a : Act) : Option (KPC × List Cmd) :=
  match pc, a with
  | .created, .start => some (.started, [])
  | .started, .hook .hk => some (.inHK, [])
  | .inHK, .hookret _ _ => some (.preEv, [])
  | .preEv, .ev .hookdone cmds => some (.finishing, cmds)
  | .preEv, .fin => some (.done, [])            -- non-blocking hook, or cancelled
  | .finishing, .fin => some (.done, [])
  | _, _ => none

/-- program counter of handle_client -/
inductive HPC where
  | h0 | inCC | killClose | preStart | waitC | preCD | inCD
  | final                           -- `await asyncio.wait(handlers of the entries still in transports)`
  | returned
  deriving DecidableEq, Repr

structure St where
  size   : Nat
  hpc    : HPC
  cpc    : CPC
  centry : Bool          -- transports[client] exists
  cwopen : Bool          -- client writer not closed
  ccbs   : List Cb       -- pending done-callbacks of the client connection handler task
  hcount : Nat           -- asyncio.wait: tasks handle_client is still waiting for
  conns  : List Conn     -- open_connection tasks in creation order
  hooks  : List KPC
  nCC : Nat
  nCD : Nat
  lateOpen : Bool        -- ghost: a layer asked for a connection after handle_client had collected the transports to wait for
  semv    : Nat → Nat         -- asyncio.Semaphore._value of `max_conns[address]` (defaultdict: `size` until first used)
  waiters : Nat → List Nat    -- asyncio.Semaphore._waiters: queued open_connection tasks, FIFO

def init (size : Nat) : St :=
  { size, hpc := .h0, cpc := .absent, centry := true, cwopen := true, ccbs := [], hcount := 0, conns := [], hooks := [],
    nCC := 0, nCD := 0, lateOpen := false, semv := fun _ => size, waiters := fun _ => [] }

def isLate : HPC → Bool
  | .final | .returned => true
  | _ => false

/-- `assert command.connection not in self.transports` -/
def keyFree (conns : List Conn) (key : Nat) : Bool :=
  conns.all (fun c => !(c.entry && c.key == key))

def newConn (key : Nat) (addr : Option Nat) (late : Bool) : Conn :=
  { key, req := addr, want := none, addr := none, late, pc := .created, entry := true, cbs := [.release], nSC := 0, nSD := 0, nSE := 0, nSX := 0 }

def applyCmd (s : St) : Cmd → Option St
  | .opn key addr =>
    if keyFree s.conns key then
      some { s with conns := s.conns ++ [newConn key addr (isLate s.hpc)], lateOpen := s.lateOpen || isLate s.hpc }
    else none
  | .spawn => some { s with hooks := s.hooks ++ [.created] }

def applyCmds (s : St) : List Cmd → Option St
  | [] => some s
  | c :: cs => match applyCmd s c with
    | some s' => applyCmds s' cs
    | none => none

def holdsAt (a : Nat) (c : Conn) : Bool := holding c.pc && c.addr == some a
def openAt (a : Nat) (c : Conn) : Bool := wopen c.pc && c.addr == some a

def wokenAt (a : Nat) (c : Conn) : Bool := (c.pc == .semWoken) && c.addr == some a

def upd {β : Type} (f : Nat → β) (k : Nat) (v : β) : Nat → β := fun x => if x = k then v else f x

/-- `Semaphore.locked()`: no free slot, or somebody whose future is not cancelled is queued -/
def locked (s : St) (ad : Nat) : Bool :=
  s.semv ad == 0 ||
    (s.waiters ad).any (fun j => match s.conns[j]? with | some d => d.pc != .semCancelled | none => false)

/-- `acquire()` takes the fast path exactly when the semaphore is not locked -/
def semGuard (s : St) (c : Conn) (a : Act) : Bool :=
  match c.addr with
  | none => true
  | some ad =>
    match c.pc, a with
    | .preSem, .semacq => !locked s ad
    | .preSem, .semwait => locked s ad
    | _, _ => true

/-- the first queued waiter whose future is still pending -/
def firstWaiting (conns : List Conn) : List Nat → Option Nat
  | [] => none
  | j :: js =>
    match conns[j]? with
    | some d => if d.pc = .inSem then some j else firstWaiting conns js
    | none => firstWaiting conns js

/-- `_wake_up_next()` (called with a free slot): hand the slot to the first pending waiter -/
def wakeNext (s : St) (ad : Nat) : St :=
  if s.semv ad = 0 then s else
  match firstWaiting s.conns (s.waiters ad) with
  | none => s
  | some j =>
    match s.conns[j]? with
    | some d => { s with semv := upd s.semv ad (s.semv ad - 1), conns := s.conns.set j { d with pc := .semWoken } }
    | none => s

/-- what an action of task `i` (state `c` before the action) does to its address' semaphore -/
def semEffect (s : St) (i : Nat) (c : Conn) (a : Act) : St :=
  match c.addr with
  | none => s
  | some ad =>
    match c.pc, a with
    | .preSem, .semwait => { s with waiters := upd s.waiters ad (s.waiters ad ++ [i]) }
    | .preSem, .semacq => { s with semv := upd s.semv ad (s.semv ad - 1) }
    | .semWoken, .semacq =>                -- resumed with the slot: leave the queue; `if self._value > 0: wake next`
      wakeNext { s with waiters := upd s.waiters ad ((s.waiters ad).erase i) } ad
    | .semCancelled, .semcancel =>         -- cancelled while queued: leave the queue, the counter is not touched
      { s with waiters := upd s.waiters ad ((s.waiters ad).erase i) }
    | .semWoken, .semcancel =>             -- cancelled after the hand-off: give the slot back, wake the next one
      wakeNext { s with waiters := upd s.waiters ad ((s.waiters ad).erase i),
                        semv := upd s.semv ad (s.semv ad + 1) } ad
    | .preRel, .semrel => wakeNext { s with semv := upd s.semv ad (s.semv ad + 1) } ad
    | _, _ => s

/-- `asyncio.wait([x.handler for x in self.transports.values() if x.handler])` registers its completion
    callback on every task whose entry is still in transports -/
def regWait (c : Conn) : Conn := if c.entry then { c with cbs := c.cbs ++ [.waitH] } else c

def stepH (s : St) (a : Act) : Option St :=
  match s.hpc, a with
  | .h0, .hook .cc => some { s with hpc := .inCC, nCC := s.nCC + 1 }
  | .inCC, .hookret .ok true => some { s with hpc := .killClose }
  | .inCC, .hookret .ok false => some { s with hpc := .preStart }
  | .killClose, .wclose => some { s with hpc := .preCD, centry := false, cwopen := false }
  | .preStart, .ev .start cmds =>
    -- create the client connection handler (its release_transport callback), then asyncio.wait([handler])
    applyCmds { s with hpc := .waitC, cpc := .created, ccbs := [.release, .waitH], hcount := 1 } cmds
  | .waitC, .hook .cd => if s.hcount = 0 then some { s with hpc := .inCD, nCD := s.nCD + 1 } else none
  | .preCD, .hook .cd => some { s with hpc := .inCD, nCD := s.nCD + 1 }
  | .inCD, .hookret .ok _ =>
    some { s with hpc := .final, conns := s.conns.map regWait, hcount := s.conns.countP (·.entry) }
  | .final, .fin => if s.hcount = 0 then some { s with hpc := .returned } else none
  | _, _ => none

def step (s : St) : Label → Option St
  | .act .H a => stepH s a
  | .act .C a =>
    match stepC s.cpc a with
    | some (pc, cmds, closed) =>
      if closed then applyCmds { s with cpc := pc, centry := false, cwopen := false } cmds
      else applyCmds { s with cpc := pc } cmds
    | none => none
  | .act (.S i) a =>
    match s.conns[i]? with
    | some c =>
      match stepS c a (semGuard s c a) with
      | some (c', cmds) => applyCmds (semEffect { s with conns := s.conns.set i c' } i c a) cmds
      | none => none
    | none => none
  | .act (.K i) a =>
    match s.hooks[i]? with
    | some pc =>
      match stepK pc a with
      | some (pc', cmds) => applyCmds { s with hooks := s.hooks.set i pc' } cmds
      | none => none
    | none => none
  | .cb .C =>
    if s.cpc = .done then
      match s.ccbs with
      | .release :: rest =>
        -- release_transport: the entry is still there only if the handler never got to pop it
        if s.centry then some { s with ccbs := rest, centry := false, cwopen := false } else some { s with ccbs := rest }
      | .waitH :: rest => some { s with ccbs := rest, hcount := s.hcount - 1 }
      | [] => none
    else none
  | .cb (.S i) =>
    match s.conns[i]? with
    | some c =>
      if c.pc = .done then
        match c.cbs with
        | .release :: rest => some { s with conns := s.conns.set i { c with cbs := rest, entry := false } }
        | .waitH :: rest => some { s with conns := s.conns.set i { c with cbs := rest }, hcount := s.hcount - 1 }
        | [] => none
      else none
    | none => none
  | .cb _ => none

def run (s : St) : List Label → Option St
  | [] => some s
  | l :: ls => match step s l with
    | some s' => run s' ls
    | none => none

/-- states reachable by some schedule -/
def Reach (size : Nat) (s : St) : Prop := ∃ ls, run (init size) ls = some s

end MitmVerif.C09
