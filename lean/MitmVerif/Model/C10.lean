/-
  C10 — idle timeout, never while a hook is pending.
  Model of `mitmproxy.proxy.server.TimeoutWatchdog` over a discrete clock (ticks).  The watcher
  coroutine is a program counter; the environment performs `activity` (register_activity),
  `enter`/`exit` (the `disarm()` context manager around a hook) and lets time pass.  After every
  environment step the watcher runs until it blocks (`run`), exactly as the event loop does.

  Discretisation of the one float comparison: the real loop wakes a timer strictly after its
  deadline, so `last_activity + timeout < time.time()` at wake-up is `last + timeout ≤ now` in ticks.
-/
namespace MitmVerif.C10

inductive PC where
  | wait                 -- blocked in `await can_timeout.wait()` (or about to test it)
  | sleep (wake : Nat)   -- in `asyncio.sleep`, timer due at `wake`
  | fired                -- callback called, coroutine returned
  deriving DecidableEq, Repr

structure St where
  timeout : Nat
  now     : Nat
  last    : Nat          -- last_activity
  blocker : Nat
  can     : Bool         -- can_timeout.is_set()
  pc      : PC
  deriving DecidableEq, Repr

inductive Op where
  | activity
  | enter
  | exit
  | tick (d : Nat)
  deriving DecidableEq, Repr

def init (timeout : Nat) : St :=
  { timeout, now := 0, last := 0, blocker := 0, can := true, pc := .wait }

/-- one resumption of the watcher coroutine -/
def runStep (s : St) : St :=
  match s.pc with
  | .wait =>
    if s.can then { s with pc := .sleep (s.now + (s.last + s.timeout - s.now)) }   -- sleep(timeout - (now - last)); negative = 0
    else s
  | .sleep w =>
    if w ≤ s.now then
      if s.can && decide (s.last + s.timeout ≤ s.now) then { s with pc := .fired }
      else { s with pc := .wait }
    else s
  | .fired => s

/-- the watcher runs until it blocks: at most sleep→wait→sleep -/
def run (s : St) : St := runStep (runStep (runStep s))

def env (s : St) : Op → St
  | .activity => { s with last := s.now }
  | .enter    => { s with can := false, blocker := s.blocker + 1 }
  | .exit     =>
    if s.blocker = 0 then s                                   -- unmatched exit cannot happen (context manager)
    else if s.blocker = 1 then { s with blocker := 0, last := s.now, can := true }
    else { s with blocker := s.blocker - 1 }
  | .tick d   => { s with now := s.now + d }

def step (s : St) (o : Op) : St := run (env s o)

def start (timeout : Nat) : St := run (init timeout)

def exec (s : St) (ops : List Op) : St := ops.foldl step s

/-- states in which the watcher is quiescent: another resumption changes nothing -/
def Quiescent (s : St) : Prop := runStep s = s

end MitmVerif.C10
