/-
  C11 — intercepted flows are held until resumed, killed flows are never forwarded.

  Three small models, and their product (`S`/`pstep`/`prun`, at the end of this file):

  * `L`: one protocol layer under the pause semantics of `mitmproxy.proxy.layer.Layer.handle_event`, reduced to
    what matters here: a message arrives → its hook is fired and the layer pauses; events arriving meanwhile are
    queued; when the hook completes the layer runs its "send after hook" step (`afterHook`, per protocol) and
    replays the queue until it pauses again.  The hook completes when `ProxyConnectionHandler.handle_hook`
    returns, i.e. after `Flow.wait_for_resume` — so an intercepted message is exactly a paused layer.
  * `P`: a parent (HttpLayer for HTTP/2, or the connection handler) routing events to child layers by key
    (`command.blocking = self`: only the child pauses).
  * `F`/`A`: `Flow.intercept / resume / kill / wait_for_resume` and the hook tasks awaiting them.

  Core Lean only.
-/
namespace MitmVerif.C11

/-- the "send after hook" step of the layer a message belongs to -/
inductive Kind where
  | http      -- HttpStream: check_killed after request/response(headers) hooks
  | dnsReq    -- DNSLayer.handle_request: `elif flow.error: handle_error`
  | dnsResp   -- DNSLayer.handle_response: `if flow.response: send`
  | ws        -- WebsocketLayer: `if not message.dropped: send`
  | tcp       -- TCPLayer: `yield SendData` unconditionally
  | udp       -- UDPLayer: the same
  deriving DecidableEq, Repr, Inhabited

/-- does the step consult `flow.error` (set by `Flow.kill`)? -/
def Kind.honoursKill : Kind → Bool
  | .http | .dnsReq => true
  | _ => false

structure Msg where
  id : Nat
  content : Nat
  deriving DecidableEq, Repr, Inhabited

/-- what the user did to the flow/message while its hook was pending -/
structure Verdict where
  killed : Bool       -- Flow.kill()
  dropped : Bool      -- WebSocketMessage.drop()
  content : Nat       -- the message content when the hook completes (edited or not)
  deriving DecidableEq, Repr, Inhabited

inductive In where
  | arrive (m : Msg)          -- DataReceived carrying a complete message
  | complete (v : Verdict)    -- HookCompleted for the hook the layer is paused on
  | close (kills gone : Bool) -- the source closes.  `kills`: for the held message this counts as a kill by the remote
                              -- (HTTP requests: check_killed finds the RequestProtocolError in the paused-event queue);
                              -- `gone`: the destination is gone with it (a UDP association ends as a whole)
  deriving DecidableEq, Repr, Inhabited

inductive Out where
  | hook (id : Nat)               -- StartHook for message `id`
  | send (id content : Nat)       -- the message is forwarded to its destination
  | error (id : Nat)              -- the flow ends with an error instead (error hook / kill response)
  deriving DecidableEq, Repr, Inhabited

structure L where
  paused : Option Msg := none     -- the message whose hook is pending
  queue : List Msg := []          -- _paused_event_queue
  remoteKill : Bool := false      -- the source closed while a message was held, and the layer treats that as a kill
  gone : Bool := false            -- the destination no longer exists
  deriving DecidableEq, Repr, Inhabited

def afterHook (k : Kind) (s : L) (m : Msg) (v : Verdict) : List Out :=
  if k.honoursKill && (v.killed || (k == .http && s.remoteKill)) then [.error m.id]
  else if s.gone then []
  else if k == .ws && v.dropped then []
  else [.send m.id v.content]

def step (k : Kind) (s : L) : In → L × List Out
  | .arrive m =>
    match s.paused with
    | some _ => ({ s with queue := s.queue ++ [m] }, [])
    | none => ({ s with paused := some m }, [.hook m.id])
  | .complete v =>
    match s.paused with
    | none => (s, [])                       -- no completion without a pending hook
    | some m =>
      match s.queue with
      | [] => ({ s with paused := none, queue := [] }, afterHook k s m v)
      | n :: q => ({ s with paused := some n, queue := q }, afterHook k s m v ++ [.hook n.id])
  | .close kills gone =>
    ({ s with remoteKill := s.remoteKill || (kills && s.paused.isSome), gone := s.gone || gone }, [])

/-- state and all outputs (oldest first) after a schedule -/
def run (k : Kind) : L → List In → L × List Out
  | s, [] => (s, [])
  | s, i :: is =>
    let (s1, o1) := step k s i
    let (s2, o2) := run k s1 is
    (s2, o1 ++ o2)

def arrivals : List In → List Nat
  | [] => []
  | .arrive m :: is => m.id :: arrivals is
  | .complete _ :: is => arrivals is
  | .close _ _ :: is => arrivals is

def Out.isSendOf (id : Nat) : Out → Bool
  | .send i _ => i == id
  | _ => false

-- ------------------------------------------------------------------------------------------------
-- parent routing to children by key

structure P where
  kids : List (Nat × L) := []
  deriving Repr, Inhabited

def P.get (p : P) (key : Nat) : L :=
  match p.kids.find? (·.1 == key) with
  | some (_, l) => l
  | none => {}

def P.set (p : P) (key : Nat) (l : L) : P :=
  { kids := (key, l) :: p.kids.filter (·.1 != key) }

def stepP (k : Kind) (p : P) (key : Nat) (i : In) : P × List Out :=
  let r := step k (p.get key) i
  (p.set key r.1, r.2)

def runP (k : Kind) : P → List (Nat × In) → P × List Out
  | p, [] => (p, [])
  | p, (key, i) :: is =>
    let (p1, o1) := stepP k p key i
    let (p2, o2) := runP k p1 is
    (p2, o1 ++ o2)

-- ------------------------------------------------------------------------------------------------
-- Flow.intercept / resume / kill / wait_for_resume and the hook tasks (mode_servers.handle_hook)

structure F where
  intercepted : Bool := false
  event : Option Bool := none     -- `_resume_event`: none = not created; some b = is_set()
  error : Bool := false
  live : Bool := true
  deriving DecidableEq, Repr, Inhabited

def F.intercept (f : F) : F :=
  if f.intercepted then f
  else { f with intercepted := true, event := f.event.map fun _ => false }

def F.resume (f : F) : F :=
  if !f.intercepted then f
  else { f with intercepted := false, event := f.event.map fun _ => true }

def F.killable (f : F) : Bool := f.live && !f.error

/-- `Flow.kill` (the caller checked `killable`): the resume event is set so that a pending hook completes -/
def F.kill (f : F) : F :=
  { f with error := true, intercepted := false, live := false, event := f.event.map fun _ => true }

/-- a hook task: running the addons, then awaiting `wait_for_resume` -/
inductive Task where
  | waiting       -- blocked in `await self._resume_event.wait()`
  | done          -- handle_hook returned (HookCompleted is delivered)
  deriving DecidableEq, Repr, Inhabited

/-- `wait_for_resume` entered: returns at once unless the flow is intercepted (and the event not set) -/
def F.wait (f : F) : F × Task :=
  if !f.intercepted then (f, .done)
  else
    let f := if f.event.isNone then { f with event := some false } else f
    if f.event == some true then (f, .done) else (f, .waiting)

structure A where
  f : F := {}
  tasks : List Task := []          -- one per hook started for this flow, in start order
  deriving DecidableEq, Repr, Inhabited

inductive Op where
  | hook (addonIntercepts : Bool)   -- a hook task starts: the Intercept addon intercepts or not, then wait_for_resume
  | intercept | resume | kill
  deriving DecidableEq, Repr, Inhabited

/-- waiting tasks wake when the event is set -/
def wake (f : F) (ts : List Task) : List Task :=
  if f.event == some true then ts.map fun _ => .done else ts

def stepA (a : A) : Op → A
  | .hook ai =>
    let f := if ai then a.f.intercept else a.f
    let (f, t) := f.wait
    { f, tasks := a.tasks ++ [t] }
  | .intercept => { a with f := a.f.intercept }
  | .resume => let f := a.f.resume; { f, tasks := wake f a.tasks }
  | .kill => if a.f.killable then (let f := a.f.kill; { f, tasks := wake f a.tasks }) else a

def runA (a : A) (ops : List Op) : A := ops.foldl stepA a

-- ------------------------------------------------------------------------------------------------
-- the product: one flow's layer together with the flow object and its hook tasks.
-- `In.complete` is no longer a free input: `deliver` (the event loop handing HookCompleted to the layer) is enabled only
-- when the hook task of the pending message is `done`, i.e. `handle_hook` has returned from `wait_for_resume`; the
-- verdict is read off the flow (error flag) and the message (content / dropped) as they are at that moment.

structure S where
  l : L := {}
  a : A := {}
  cur : Nat := 0            -- content of the message whose hook is pending, as the flow object holds it now
  dropped : Bool := false   -- WebSocketMessage.drop() was called on it
  deriving DecidableEq, Repr, Inhabited

inductive PIn where
  | arrive (m : Msg)
  | deliver                     -- HookCompleted reaches the layer (if the hook task is done; otherwise nothing happens)
  | close (kills gone : Bool)
  | intercept | resume | kill   -- the user (or an addon) acts on the flow
  | edit (c : Nat)              -- the user edits the held message
  | drop
  deriving DecidableEq, Repr, Inhabited

/-- what the layer sees of a product input; `none`: nothing.  `deliver` is ENABLED only if the pending hook's task
    (the most recently started one) is `done`. -/
def lin (s : S) : PIn → Option In
  | .arrive m => some (.arrive m)
  | .deliver =>
    if s.l.paused.isSome && s.a.tasks.getLast? == some Task.done
    then some (.complete ⟨s.a.f.error, s.dropped, s.cur⟩) else none
  | .close kl gn => some (.close kl gn)
  | _ => none

/-- the message whose hook fires in `step k l x` (the layer becomes paused on it) -/
def newHook (l : L) : In → Option Msg
  | .arrive m => match l.paused with | some _ => none | none => some m
  | .complete _ => match l.paused with
    | none => none
    | some _ => l.queue.head?
  | .close _ _ => none

/-- a hook task starts for message `n`: the Intercept addon intercepts it or not (`pol`), then `wait_for_resume` -/
def startHook (pol : Nat → Bool) (s : S) (n : Msg) : S :=
  { s with a := stepA s.a (.hook (pol n.id)), cur := n.content, dropped := false }

/-- the user's part of a product input -/
def userStep (s : S) : PIn → S
  | .intercept => { s with a := stepA s.a .intercept }
  | .resume => { s with a := stepA s.a .resume }
  | .kill => { s with a := stepA s.a .kill }
  | .edit c => { s with cur := c }
  | .drop => { s with dropped := true }
  | _ => s

def pstep (k : Kind) (pol : Nat → Bool) (s : S) (i : PIn) : S × List Out :=
  match lin s i with
  | none => (userStep s i, [])
  | some x =>
    let r := step k s.l x
    let s2 : S := { s with l := r.1 }
    match newHook s.l x with
    | some n => (startHook pol s2 n, r.2)
    | none => (s2, r.2)

def prun (k : Kind) (pol : Nat → Bool) : S → List PIn → S × List Out
  | s, [] => (s, [])
  | s, i :: is =>
    let (s1, o1) := pstep k pol s i
    let (s2, o2) := prun k pol s1 is
    (s2, o1 ++ o2)

def parrivals : List PIn → List Nat
  | [] => []
  | .arrive m :: is => m.id :: parrivals is
  | _ :: is => parrivals is

end MitmVerif.C11
