/-
  C12 — error pages never reflect unescaped client input.

  Model of
    * `html.escape(s, quote=True)`                                   → `htmlEscape`
    * `textwrap.dedent` (CPython 3.12: blank-line normalisation, margin = longest common leading
      blank prefix of the lines that have text, `(?m)^margin` removal)  → `dedent`
    * `str.strip()` (on the ASCII range)                              → `pyStrip`
    * `mitmproxy.proxy.layers.http._base.format_error`                → `formatError`
    * `_http1.make_error_response` = `Response.make` + `http1.assemble_response` → `makeErrorResponse`
    * the header list of the HTTP/2 (and HTTP/3) error-page path      → `h2ErrorHeaders`
  and of an independent reference reader for HTTP/1.1 responses (`refParse`, RFC 9112 §2–§6:
  status-line, field lines `name ":" OWS value OWS`, empty line, content-length framed body).

  Text is modelled by its UTF-8 bytes: all primitives above inspect/insert ASCII characters only,
  so they commute with UTF-8 encoding (`message.encode("utf8","replace")` is what the harness feeds).
  The status code is rendered with three digits (domain 100..999, every status mitmproxy uses).
-/
import MitmVerif.Basic.Bytes
import MitmVerif.Gen.C12
namespace MitmVerif.C12
open MitmVerif

/-! ### html.escape -/

def eAmp : Bytes := [0x26, 0x61, 0x6d, 0x70, 0x3b]          -- "&amp;"
def eLt : Bytes := [0x26, 0x6c, 0x74, 0x3b]                 -- "&lt;"
def eGt : Bytes := [0x26, 0x67, 0x74, 0x3b]                 -- "&gt;"
def eQuot : Bytes := [0x26, 0x71, 0x75, 0x6f, 0x74, 0x3b]   -- "&quot;"
def eApos : Bytes := [0x26, 0x23, 0x78, 0x32, 0x37, 0x3b]   -- "&#x27;"

def escByte (b : UInt8) : Bytes :=
  if b = 0x26 then eAmp
  else if b = 0x3c then eLt
  else if b = 0x3e then eGt
  else if b = 0x22 then eQuot
  else if b = 0x27 then eApos
  else [b]

def htmlEscape (m : Bytes) : Bytes := m.flatMap escByte

/-- the characters that can open/close a tag or an attribute value -/
def isMarkup (b : UInt8) : Bool := b = 0x3c || b = 0x3e || b = 0x22 || b = 0x27

/-- the entity bodies (what follows `&`) html.escape produces, with the character they stand for -/
def entities : List (Bytes × UInt8) :=
  [([0x61, 0x6d, 0x70, 0x3b], 0x26), ([0x6c, 0x74, 0x3b], 0x3c), ([0x67, 0x74, 0x3b], 0x3e),
   ([0x71, 0x75, 0x6f, 0x74, 0x3b], 0x22), ([0x23, 0x78, 0x32, 0x37, 0x3b], 0x27)]

def matchEntity (rest : Bytes) : Option (UInt8 × Nat) :=
  entities.findSome? fun e => if e.1.isPrefixOf rest then some (e.2, e.1.length) else none

def entityAt (rest : Bytes) : Bool := entities.any fun e => e.1.isPrefixOf rest

/-- every `&` starts one of the five entities -/
def ampsOk : Bytes → Bool
  | [] => true
  | c :: rest => (c != 0x26 || entityAt rest) && ampsOk rest

/-- decoding of the five entities (what a browser shows for the text node); fuel ≥ length -/
def unescF : Nat → Bytes → Bytes
  | 0, _ => []
  | _, [] => []
  | f + 1, c :: rest =>
    if c = 0x26 then
      match matchEntity rest with
      | some (ch, n) => ch :: unescF f (rest.drop n)
      | none => c :: unescF f rest
    else c :: unescF f rest

def unescape (b : Bytes) : Bytes := unescF b.length b

/-! ### textwrap.dedent and str.strip -/

def isBlank (b : UInt8) : Bool := b = 0x20 || b = 0x09

/-- `str.isspace` on the ASCII range: TAB LF VT FF CR, FS GS RS US, SPACE -/
def isSpace (b : UInt8) : Bool :=
  b = 0x20 || (0x09 ≤ b.toNat && b.toNat ≤ 0x0d) || (0x1c ≤ b.toNat && b.toNat ≤ 0x1f)

def splitNl : Bytes → List Bytes
  | [] => [[]]
  | c :: cs =>
    if c = 0x0a then [] :: splitNl cs
    else match splitNl cs with
      | l :: ls => (c :: l) :: ls
      | [] => [[c]]

def joinNl : List Bytes → Bytes
  | [] => []
  | [l] => l
  | l :: l' :: ls => l ++ 0x0a :: joinNl (l' :: ls)

/-- `_whitespace_only_re.sub('', text)`: a line made of blanks only becomes empty -/
def blankOut (l : Bytes) : Bytes := if l.all isBlank then [] else l

/-- `_leading_whitespace_re` matches on this line (a non-blank, non-newline character follows the indent) -/
def hasText (l : Bytes) : Bool := !(l.all isBlank)

def indentOf (l : Bytes) : Bytes := l.takeWhile isBlank

def commonPrefix : Bytes → Bytes → Bytes
  | a :: as, b :: bs => if a = b then a :: commonPrefix as bs else []
  | _, _ => []

/-- the three branches of dedent's loop all yield the longest common prefix -/
def marginStep (m : Option Bytes) (l : Bytes) : Option Bytes :=
  match m with
  | none => some (indentOf l)
  | some m => some (commonPrefix m (indentOf l))

def margin (ls : List Bytes) : Bytes := ((ls.filter hasText).foldl marginStep none).getD []

/-- `re.sub(r'(?m)^' + margin, '', text)` on one line -/
def stripPre (p l : Bytes) : Bytes := if p.isPrefixOf l then l.drop p.length else l

def dedent (t : Bytes) : Bytes :=
  let ls := (splitNl t).map blankOut
  joinNl (ls.map (stripPre (margin ls)))

def pyStrip (t : Bytes) : Bytes := ((t.dropWhile isSpace).reverse.dropWhile isSpace).reverse

/-! ### format_error -/

def lookupReason (s : Nat) : Option Bytes := (Gen.C12.responses.find? (fun e => e.1 == s)).map (·.2)

def unknownReason : Bytes := [0x55, 0x6e, 0x6b, 0x6e, 0x6f, 0x77, 0x6e]   -- "Unknown"

/-- `RESPONSES.get(status, "Unknown")` (page) and `RESPONSES.get(status, "")` (status line) -/
def reasonPage (s : Nat) : Bytes := (lookupReason s).getD unknownReason
def reasonLine (s : Nat) : Bytes := (lookupReason s).getD []

def digit (n : Nat) : UInt8 := UInt8.ofNat (48 + n % 10)
def dec3 (s : Nat) : Bytes := [digit (s / 100), digit (s / 10), digit s]

def statusText (s : Nat) : Bytes := dec3 s ++ 0x20 :: reasonPage s

def tplA : Bytes := [0x0a, 0x20, 0x20, 0x20, 0x20, 0x3c, 0x68, 0x74, 0x6d, 0x6c, 0x3e, 0x0a, 0x20, 0x20, 0x20, 0x20, 0x3c, 0x68, 0x65, 0x61, 0x64, 0x3e, 0x0a, 0x20, 0x20, 0x20, 0x20, 0x20, 0x20, 0x20, 0x20, 0x3c, 0x74, 0x69, 0x74, 0x6c, 0x65, 0x3e]   -- "\n    <html>\n    <head>\n        <title>"
def tplB : Bytes := [0x3c, 0x2f, 0x74, 0x69, 0x74, 0x6c, 0x65, 0x3e, 0x0a, 0x20, 0x20, 0x20, 0x20, 0x3c, 0x2f, 0x68, 0x65, 0x61, 0x64, 0x3e, 0x0a, 0x20, 0x20, 0x20, 0x20, 0x3c, 0x62, 0x6f, 0x64, 0x79, 0x3e, 0x0a, 0x20, 0x20, 0x20, 0x20, 0x20, 0x20, 0x20, 0x20, 0x3c, 0x68, 0x31, 0x3e]   -- "</title>\n    </head>\n    <body>\n        <h1>"
def tplC : Bytes := [0x3c, 0x2f, 0x68, 0x31, 0x3e, 0x0a, 0x20, 0x20, 0x20, 0x20, 0x20, 0x20, 0x20, 0x20, 0x3c, 0x70, 0x3e]   -- "</h1>\n        <p>"
def tplD : Bytes := [0x3c, 0x2f, 0x70, 0x3e, 0x0a, 0x20, 0x20, 0x20, 0x20, 0x3c, 0x2f, 0x62, 0x6f, 0x64, 0x79, 0x3e, 0x0a, 0x20, 0x20, 0x20, 0x20, 0x3c, 0x2f, 0x68, 0x74, 0x6d, 0x6c, 0x3e, 0x0a, 0x20, 0x20, 0x20, 0x20]   -- "</p>\n    </body>\n    </html>\n    "

/-- the f-string of `format_error` with the already escaped message `e` -/
def template (s : Nat) (e : Bytes) : Bytes :=
  tplA ++ statusText s ++ tplB ++ statusText s ++ tplC ++ e ++ tplD

def formatError (s : Nat) (m : Bytes) : Bytes := pyStrip (dedent (template s (htmlEscape m)))

/-! ### make_error_response -/

def decRev : Nat → Nat → Bytes
  | 0, _ => []
  | f + 1, n => digit n :: (if n < 10 then [] else decRev f (n / 10))

/-- decimal rendering of a natural number (`b"%d"`, `str(len(content))`) -/
def natDec (n : Nat) : Bytes := (decRev (n + 1) n).reverse

def crlf : Bytes := [0x0d, 0x0a]
def httpVer : Bytes := [0x48, 0x54, 0x54, 0x50, 0x2f, 0x31, 0x2e, 0x31, 0x20]   -- "HTTP/1.1 "
def hServer : Bytes := [0x53, 0x65, 0x72, 0x76, 0x65, 0x72, 0x3a, 0x20]   -- "Server: "
def hConn : Bytes := [0x43, 0x6f, 0x6e, 0x6e, 0x65, 0x63, 0x74, 0x69, 0x6f, 0x6e, 0x3a, 0x20, 0x63, 0x6c, 0x6f, 0x73, 0x65]   -- "Connection: close"
def hCT : Bytes := [0x43, 0x6f, 0x6e, 0x74, 0x65, 0x6e, 0x74, 0x2d, 0x54, 0x79, 0x70, 0x65, 0x3a, 0x20, 0x74, 0x65, 0x78, 0x74, 0x2f, 0x68, 0x74, 0x6d, 0x6c]   -- "Content-Type: text/html"
def hCL : Bytes := [0x63, 0x6f, 0x6e, 0x74, 0x65, 0x6e, 0x74, 0x2d, 0x6c, 0x65, 0x6e, 0x67, 0x74, 0x68, 0x3a, 0x20]   -- "content-length: "
def nServer : Bytes := [0x73, 0x65, 0x72, 0x76, 0x65, 0x72]   -- "server"
def nConn : Bytes := [0x63, 0x6f, 0x6e, 0x6e, 0x65, 0x63, 0x74, 0x69, 0x6f, 0x6e]   -- "connection"
def nCT : Bytes := [0x63, 0x6f, 0x6e, 0x74, 0x65, 0x6e, 0x74, 0x2d, 0x74, 0x79, 0x70, 0x65]   -- "content-type"
def nCL : Bytes := [0x63, 0x6f, 0x6e, 0x74, 0x65, 0x6e, 0x74, 0x2d, 0x6c, 0x65, 0x6e, 0x67, 0x74, 0x68]   -- "content-length"
def vClose : Bytes := [0x63, 0x6c, 0x6f, 0x73, 0x65]   -- "close"
def vHtml : Bytes := [0x74, 0x65, 0x78, 0x74, 0x2f, 0x68, 0x74, 0x6d, 0x6c]   -- "text/html"
def nStatus : Bytes := [0x3a, 0x73, 0x74, 0x61, 0x74, 0x75, 0x73]   -- ":status"

/-- `http1.assemble_response(Response.make(status, body, Headers(Server=…, Connection="close", Content_Type="text/html")))` -/
def assembleError (s : Nat) (body : Bytes) : Bytes :=
  (httpVer ++ dec3 s ++ 0x20 :: reasonLine s) ++ crlf
  ++ (hServer ++ Gen.C12.serverHeader) ++ crlf
  ++ hConn ++ crlf
  ++ hCT ++ crlf
  ++ (hCL ++ natDec body.length) ++ crlf
  ++ crlf ++ body

def makeErrorResponse (s : Nat) (m : Bytes) : Bytes := assembleError s (formatError s m)

/-- header list of the HTTP/2 / HTTP/3 error page (`send_headers` in `_http2.py` / `_http3.py`) -/
def h2ErrorHeaders (s : Nat) : List (Bytes × Bytes) :=
  [(nStatus, dec3 s), (nServer, Gen.C12.serverHeader), (nCT, vHtml)]

/-- `ErrorCode.http_status_code()` by enum value (none: no page is sent) -/
def errorStatus (code : Nat) : Option Nat :=
  match Gen.C12.errorStatus.find? (fun e => e.1 == code) with
  | some (_, 0) => none
  | some (_, s) => some s
  | none => none

/-- `Http1Server.send(ResponseProtocolError(code, message))`: (bytes written to the client, connection closed).
    Nothing at all once the client side cannot be written to; a page only if no response has been started and the
    code maps to a status; the connection is closed in every other case. -/
def h1ErrorReply (canWrite responseStarted : Bool) (code : Nat) (m : Bytes) : Option Bytes × Bool :=
  if !canWrite then (none, false)
  else match errorStatus code with
    | some s => if responseStarted then (none, true) else (some (makeErrorResponse s m), true)
    | none => (none, true)

/-- the same send site, with WHICH response head has been relayed to this client before the error as input
    (`none`: nothing yet; `some st`: the head of a response with status `st` — mitmproxy's own `100 Continue`,
    a `101 Switching Protocols`, or a final head, possibly followed by part of its body).  `Http1Server` keeps the
    last head it wrote in `self.response` and writes an error page only while that is `None`. -/
def h1ErrorReplyAfter (canWrite : Bool) (relayed : Option Nat) (code : Nat) (m : Bytes) : Option Bytes × Bool :=
  h1ErrorReply canWrite relayed.isSome code m

/-- the client's view of the exchange: the bytes of what was relayed before, then what the error path writes -/
def clientWire (relayedBytes : Bytes) (canWrite : Bool) (relayed : Option Nat) (code : Nat) (m : Bytes) : Bytes :=
  relayedBytes ++ ((h1ErrorReplyAfter canWrite relayed code m).1).getD []

/-! ### a whole HTTP/1 client connection -/

/-- what `Http1Server` is asked to do on one client connection, in order -/
inductive H1Op where
  | relay (st : Nat) (headBytes : Bytes)      -- `send(ResponseHeaders)`: a head with status `st`, assembled to `headBytes`
  | body (chunk : Bytes)                      -- `send(ResponseData)`
  | error (code : Nat) (m : Bytes)            -- `send(ResponseProtocolError)`

structure H1Conn where
  relayed : Option Nat      -- `self.response` (status of the last head written)
  canWrite : Bool           -- the client connection can still be written to (writes after our close are dropped)
  wire : Bytes              -- everything the client has received
  pages : Nat               -- number of error pages written so far
deriving DecidableEq, Repr

def h1Step (c : H1Conn) : H1Op → H1Conn
  | .relay st hb => { c with relayed := some st, wire := if c.canWrite then c.wire ++ hb else c.wire }
  | .body ch => { c with wire := if c.canWrite && c.relayed.isSome then c.wire ++ ch else c.wire }   -- `assert self.response`
  | .error code m =>
    let r := h1ErrorReplyAfter c.canWrite c.relayed code m
    { c with wire := c.wire ++ r.1.getD [], canWrite := c.canWrite && !r.2, pages := c.pages + (if r.1.isSome then 1 else 0) }

def h1Run (ops : List H1Op) : H1Conn := ops.foldl h1Step ⟨none, true, [], 0⟩

/-! ### the HTTP/2 send site -/

/-- what `Http2Connection._handle_event(ResponseProtocolError)` does on the client's stream -/
inductive H2Reply where
  | nothing                                         -- the stream is closed already
  | page (headers : List (Bytes × Bytes)) (body : Bytes)   -- HEADERS + DATA(END_STREAM)
  | reset (h2code : Nat)                            -- RST_STREAM
deriving DecidableEq, Repr

/-- the `match event.code` of the RST_STREAM branch, by `ErrorCode.value` (h2 error codes: 8 CANCEL, 2 INTERNAL_ERROR,
    13 HTTP_1_1_REQUIRED) -/
def h2ResetCode (code : Nat) : Nat :=
  if code = 11 ∨ code = 10 ∨ code = 6 then 8 else if code = 8 then 13 else 2

/-- `closed`: `is_closed(stream)`; `openForUs`: `is_open_for_us(stream)`; `headersSent`: response HEADERS already sent -/
def h2ErrorReply (closed openForUs headersSent : Bool) (code : Nat) (m : Bytes) : H2Reply :=
  if closed then .nothing
  else match errorStatus code with
    | some s => if openForUs && !headersSent then .page (h2ErrorHeaders s) (formatError s m) else .reset (h2ResetCode code)
    | none => .reset (h2ResetCode code)

/-! ### reference HTTP/1.1 response reader -/

structure Resp where
  status : Nat
  reason : Bytes
  headers : List (Bytes × Bytes)
  body : Bytes
deriving DecidableEq, Repr

/-- one line up to CRLF; a bare CR is an error -/
def takeLine : Bytes → Option (Bytes × Bytes)
  | [] => none
  | c :: rest =>
    if c = 0x0d then
      match rest with
      | d :: rest' => if d = 0x0a then some ([], rest') else none
      | [] => none
    else (takeLine rest).map fun p => (c :: p.1, p.2)

def isOws (b : UInt8) : Bool := b = 0x20 || b = 0x09
def trimOws (v : Bytes) : Bytes := ((v.dropWhile isOws).reverse.dropWhile isOws).reverse

def isDigit (b : UInt8) : Bool := 48 ≤ b.toNat && b.toNat ≤ 57

def parseDecStep (acc : Option Nat) (c : UInt8) : Option Nat :=
  match acc with
  | some a => if isDigit c then some (a * 10 + (c.toNat - 48)) else none
  | none => none

def parseDec (b : Bytes) : Option Nat := if b = [] then none else b.foldl parseDecStep (some 0)

/-- field-line = field-name ":" OWS field-value OWS ; the name is lower-cased -/
def splitColon : Bytes → Option (Bytes × Bytes)
  | [] => none
  | c :: rest => if c = 0x3a then some ([], rest) else (splitColon rest).map fun p => (c :: p.1, p.2)

def splitField (l : Bytes) : Option (Bytes × Bytes) :=
  match splitColon l with
  | some (name, v) => if name = [] then none else some (asciiLower name, trimOws v)
  | none => none

def parseHeaders : Nat → Bytes → Option (List (Bytes × Bytes) × Bytes)
  | 0, _ => none
  | f + 1, b =>
    match takeLine b with
    | none => none
    | some ([], rest) => some ([], rest)
    | some (l, rest) =>
      match splitField l with
      | none => none
      | some h => (parseHeaders f rest).map fun p => (h :: p.1, p.2)

/-- status-line = "HTTP/1.1" SP 3DIGIT SP reason-phrase -/
def parseStatusLine (l : Bytes) : Option (Nat × Bytes) :=
  if httpVer.isPrefixOf l then
    match l.drop httpVer.length with
    | a :: b :: c :: sp :: reason =>
      if isDigit a && isDigit b && isDigit c && sp = 0x20 then
        some ((a.toNat - 48) * 100 + (b.toNat - 48) * 10 + (c.toNat - 48), reason)
      else none
    | _ => none
  else none

/-- a complete, correctly framed response: status line, fields, empty line, exactly content-length
    body bytes and nothing after them -/
def refParse (b : Bytes) : Option Resp :=
  match takeLine b with
  | none => none
  | some (sl, rest) =>
    match parseStatusLine sl with
    | none => none
    | some (st, reason) =>
      match parseHeaders b.length rest with
      | none => none
      | some (hs, body) =>
        match (hs.filter (fun h => h.1 == nCL)) with
        | [cl] =>
          match parseDec cl.2 with
          | some n => if n = body.length then some ⟨st, reason, hs, body⟩ else none
          | none => none
        | _ => none

/-- what the reference reader must return for `make_error_response(status, m)` with page `body` -/
def expected (s : Nat) (body : Bytes) : Resp :=
  ⟨s, reasonLine s,
   [(nServer, Gen.C12.serverHeader), (nConn, vClose), (nCT, vHtml), (nCL, natDec body.length)], body⟩

end MitmVerif.C12
