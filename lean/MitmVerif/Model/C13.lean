/-
  C13 — ClientHello parsing is total and independent of segmentation.

  Model of
    * mitmproxy/proxy/layers/tls.py : handshake_record_contents / dtls_handshake_record_contents  (`nextRecord`)
                                      get_client_hello / get_dtls_client_hello                     (`getHello`)
                                      parse_client_hello / dtls_parse_client_hello                 (`parse`)
                                      ClientTLSLayer.receive_handshake_data (recv_buffer)          (`feedAll`)
    * mitmproxy/contrib/kaitaistruct/{tls,dtls}_client_hello.py : the kaitai grammar               (`parseBody`)
    * mitmproxy/tls.py : ClientHello.cipher_suites / extensions / alpn_protocols / sni             (`Hello.*`)
    * mitmproxy/net/tls.py : starts_like_tls_record / starts_like_dtls_record — as tables regenerated from the
      code on every run (`Gen.C13`).
  `check.is_valid_host` is a parameter of `Hello.sni`.
  Python's three outcomes  None | ClientHello | ValueError  are `Res.incomplete | Res.ok | Res.invalid`;
  kaitai's EOFError is `Option.none` of `parseBody`.

  The second half (`Build`) is the *specification side*: a structured ClientHello builder following
  RFC 5246 §7.4.1.2 / RFC 6347 §4.2.1-4.2.3, used by the theorems only.
-/
import MitmVerif.Basic.Bytes
import MitmVerif.Gen.C13
import MitmVerif.Model.C22
namespace MitmVerif.C13

inductive Res (α : Type) where
  | incomplete
  | ok (a : α)
  | invalid
  deriving Repr, DecidableEq

def be16 (a b : UInt8) : Nat := a.toNat * 256 + b.toNat
def be24 (a b c : UInt8) : Nat := a.toNat * 65536 + b.toNat * 256 + c.toNat

/-! ## record layer -/

/-- TLS record header: 5 bytes; DTLS: 13 bytes (epoch + sequence number between version and length) -/
def hdrLen (dtls : Bool) : Nat := if dtls then 13 else 5

def startsTab (dtls : Bool) : List (Nat × Nat × List Nat) :=
  if dtls then Gen.C13.dtlsStarts else Gen.C13.tlsStarts

/-- `starts_like_tls_record` / `starts_like_dtls_record` -/
def startsLike (dtls : Bool) (d : Bytes) : Bool :=
  match d with
  | a :: b :: c :: _ =>
    (startsTab dtls).any (fun t => t.1 == a.toNat && t.2.1 == b.toNat && t.2.2.contains c.toNat)
  | _ => false

def startsPred (dtls : Bool) : Nat × Nat × Nat × Nat × Nat :=
  if dtls then Gen.C13.dtlsPred else Gen.C13.tlsPred

/-- the source expression of `starts_like_tls_record` / `starts_like_dtls_record`, transcribed:
    `len(d) > N and d[0] == A and d[1] == B and LO <= d[2] <= HI` (constants from the AST, `Gen.C13`) -/
def startsP (dtls : Bool) (d : Bytes) : Bool :=
  let p := startsPred dtls
  decide (p.1 < d.length) && (d.getD 0 0).toNat == p.2.1 && (d.getD 1 0).toNat == p.2.2.1 &&
    decide (p.2.2.2.1 ≤ (d.getD 2 0).toNat) && decide ((d.getD 2 0).toNat ≤ p.2.2.2.2)

/-- one iteration of `handshake_record_contents`: `ok (record_body, remaining data)`,
    `incomplete` = the generator returns, `invalid` = it raises ValueError -/
def nextRecord (dtls : Bool) (d : Bytes) : Res (Bytes × Bytes) :=
  let n := hdrLen dtls
  if d.length < n then .incomplete
  else
    let hdr := d.take n
    if startsLike dtls hdr = false then .invalid
    else
      let size := be16 (hdr.getD (n - 2) 0) (hdr.getD (n - 1) 0)
      if size = 0 then .invalid
      else if d.length < n + size then .incomplete
      else .ok ((d.drop n).take size, d.drop (n + size))

/-- length of the handshake header that precedes the ClientHello body (DTLS adds message_seq,
    fragment_offset, fragment_length) -/
def msgHdrLen (dtls : Bool) : Nat := if dtls then 12 else 4

/-- `client_hello_size` once enough bytes are there (`len >= 4` resp. `len >= 13`) -/
def helloSize? (dtls : Bool) (acc : Bytes) : Option Nat :=
  if dtls then
    if 13 ≤ acc.length then some (be24 (acc.getD 9 0) (acc.getD 10 0) (acc.getD 11 0) + 12) else none
  else
    if 4 ≤ acc.length then some (be24 (acc.getD 1 0) (acc.getD 2 0) (acc.getD 3 0) + 4) else none

/-- the check inside the loop of `get_client_hello` after `client_hello += d` -/
def complete? (dtls : Bool) (acc : Bytes) : Option Bytes :=
  match helloSize? dtls acc with
  | some n => if n ≤ acc.length then some (acc.take n) else none
  | none => none

/-- `get_client_hello` / `get_dtls_client_hello`; `acc` = `client_hello` so far. Fuel > data length. -/
def getHelloF : Nat → Bool → Bytes → Bytes → Res Bytes
  | 0, _, _, _ => .incomplete
  | f + 1, dtls, acc, d =>
    match nextRecord dtls d with
    | .incomplete => .incomplete
    | .invalid => .invalid
    | .ok (body, rest) =>
      match complete? dtls (acc ++ body) with
      | some m => .ok m
      | none => getHelloF f dtls (acc ++ body) rest

def getHello (dtls : Bool) (acc d : Bytes) : Res Bytes := getHelloF (d.length + 1) dtls acc d

/-! ## kaitai grammar -/

def takeN (n : Nat) (d : Bytes) : Option (Bytes × Bytes) :=
  if d.length < n then none else some (d.take n, d.drop n)

def u1 : Bytes → Option (Nat × Bytes)
  | a :: r => some (a.toNat, r)
  | [] => none

def u2 : Bytes → Option (Nat × Bytes)
  | a :: b :: r => some (be16 a b, r)
  | _ => none

/-- `for i in range(n): read_u2be()` -/
def u2s : Nat → Bytes → Option (List Nat × Bytes)
  | 0, d => some ([], d)
  | n + 1, d =>
    match u2 d with
    | none => none
    | some (c, d1) =>
      match u2s n d1 with
      | none => none
      | some (cs, d2) => some (c :: cs, d2)

/-- `Sni.server_names`: `while not eof: ServerName` (name_type u1, length u2, host_name) -/
def namesF : Nat → Bytes → Option (List (Nat × Bytes))
  | _, [] => some []
  | 0, _ :: _ => none
  | f + 1, a :: d =>
    match u2 d with
    | none => none
    | some (l, d2) =>
      match takeN l d2 with
      | none => none
      | some (nm, d3) =>
        match namesF f d3 with
        | none => none
        | some r => some ((a.toNat, nm) :: r)

/-- `Alpn.alpn_protocols`: `while not eof: Protocol` (strlen u1, name) -/
def protosF : Nat → Bytes → Option (List Bytes)
  | _, [] => some []
  | 0, _ :: _ => none
  | f + 1, a :: d =>
    match takeN a.toNat d with
    | none => none
    | some (p, d2) =>
      match protosF f d2 with
      | none => none
      | some r => some (p :: r)

/-- `Sni`: list_length (u2, not used) then the names, on the sub-stream of the extension body -/
def parseSni (raw : Bytes) : Option (List (Nat × Bytes)) :=
  match u2 raw with
  | none => none
  | some (_, d) => namesF d.length d

/-- `Alpn`: ext_len (u2, not used) then the protocols -/
def parseAlpn (raw : Bytes) : Option (List Bytes) :=
  match u2 raw with
  | none => none
  | some (_, d) => protosF d.length d

structure Ext where
  typ : Nat
  raw : Bytes                    -- `_raw_body` / `body`
  names : List (Nat × Bytes)     -- `body.server_names` (type 0)
  protos : List Bytes            -- `body.alpn_protocols` (type 16)
  deriving Repr, DecidableEq

/-- `Extension._read`'s switch on the type -/
def mkExt (t : Nat) (raw : Bytes) : Option Ext :=
  if t = 0 then
    match parseSni raw with
    | some ns => some ⟨t, raw, ns, []⟩
    | none => none
  else if t = 16 then
    match parseAlpn raw with
    | some ps => some ⟨t, raw, [], ps⟩
    | none => none
  else some ⟨t, raw, [], []⟩

/-- `Extensions.extensions`: `while not eof: Extension` -/
def extsF : Nat → Bytes → Option (List Ext)
  | _, [] => some []
  | 0, _ :: _ => none
  | f + 1, d@(_ :: _) =>
    match u2 d with
    | none => none
    | some (t, d1) =>
      match u2 d1 with
      | none => none
      | some (l, d2) =>
        match takeN l d2 with
        | none => none
        | some (raw, d3) =>
          match mkExt t raw with
          | none => none
          | some e =>
            match extsF f d3 with
            | none => none
            | some r => some (e :: r)

structure Hello where
  ciphers : List Nat
  exts : List Ext                -- [] when the extension block is absent
  deriving Repr, DecidableEq

/-- `Cookie` is only in the DTLS grammar -/
def skipCookie (dtls : Bool) (d : Bytes) : Option Bytes :=
  if dtls then
    match u1 d with
    | none => none
    | some (cl, d1) =>
      match takeN cl d1 with
      | none => none
      | some (_, d2) => some d2
  else some d

/-- the part after compression_methods: `if not is_eof: Extensions` (len u2 not used) -/
def parseTail (cs : List Nat) (d : Bytes) : Option Hello :=
  if d.isEmpty then some ⟨cs, []⟩
  else
    match u2 d with
    | none => none
    | some (_, d1) =>
      match extsF d1.length d1 with
      | none => none
      | some es => some ⟨cs, es⟩

/-- `TlsClientHello._read` / `DtlsClientHello._read`; `none` = EOFError -/
def parseBody (dtls : Bool) (d : Bytes) : Option Hello :=
  match takeN 2 d with                     -- version
  | none => none
  | some (_, d) =>
  match takeN 32 d with                    -- random (u4 + 28 bytes)
  | none => none
  | some (_, d) =>
  match u1 d with                          -- session_id
  | none => none
  | some (sl, d) =>
  match takeN sl d with
  | none => none
  | some (_, d) =>
  match skipCookie dtls d with             -- cookie (DTLS)
  | none => none
  | some d =>
  match u2 d with                          -- cipher_suites
  | none => none
  | some (cl, d) =>
  match u2s (cl / 2) d with
  | none => none
  | some (cs, d) =>
  match u1 d with                          -- compression_methods
  | none => none
  | some (ml, d) =>
  match takeN ml d with
  | none => none
  | some (_, d) => parseTail cs d

/-- `parse_client_hello` / `dtls_parse_client_hello` -/
def parse (dtls : Bool) (d : Bytes) : Res Hello :=
  match getHello dtls [] d with
  | .incomplete => .incomplete
  | .invalid => .invalid
  | .ok m =>
    match parseBody dtls (m.drop (msgHdrLen dtls)) with
    | some h => .ok h
    | none => .invalid

/-! ## `mitmproxy.net.check.is_valid_host` on bytes -/

/-- what stays library: consulted only on the two paths named -/
structure HostLib where
  /-- `host.decode("idna")` succeeds — asked only when `b"xn--"` occurs in the name (slow path: punycode, nameprep) -/
  ace : Bytes → Bool
  /-- `ipaddress.ip_address(host.decode("idna"))` succeeds — asked only when some label fails the DNS-label regex -/
  ip : Bytes → Bool

def isInfix (p : Bytes) : Bytes → Bool
  | [] => p.isEmpty
  | b :: r => p.isPrefixOf (b :: r) || isInfix p r

def acePrefix : Bytes := [0x78, 0x6e, 0x2d, 0x2d]   -- b"xn--"

/-- `bytes.decode("idna")` of CPython 3.12: empty → ok; no `xn--` anywhere → fast path `decode("ascii")`, and the
    slow path fails on the same non-ASCII label; otherwise the library decides -/
def idnaOk (lib : HostLib) (nm : Bytes) : Bool :=
  if isInfix acePrefix nm then lib.ace nm else nm.all (fun b => b.toNat < 128)

/-- character class of `_label_valid = re.compile(rb"[A-Z\d\-_]{1,63}$", re.IGNORECASE)` -/
def labelChar (b : UInt8) : Bool :=
  (65 ≤ b.toNat && b.toNat ≤ 90) || (97 ≤ b.toNat && b.toNat ≤ 122) || (48 ≤ b.toNat && b.toNat ≤ 57) ||
    b == 0x2d || b == 0x5f

/-- `_label_valid.match(label)`: 1..63 class characters, then the end — or one `\n` and the end (`$`) -/
def labelValid (l : Bytes) : Bool :=
  let n := (l.takeWhile labelChar).length
  decide (1 ≤ n) && decide (n ≤ 63) && (l.drop n == [] || l.drop n == [0x0a])

/-- `bytes.split(b".")` -/
def splitDot : Bytes → List Bytes
  | [] => [[]]
  | b :: r =>
    if b = 0x2e then [] :: splitDot r
    else
      match splitDot r with
      | l :: ls => (b :: l) :: ls
      | [] => [[b]]

/-- `if host_bytes and host_bytes.endswith(b"."): host_bytes = host_bytes[:-1]` -/
def stripDot (d : Bytes) : Bytes := if d.getLast? = some 0x2e then d.dropLast else d

/-- `is_valid_host(host: bytes)` -/
def validHost (lib : HostLib) (nm : Bytes) : Bool :=
  if idnaOk lib nm = false then false
  else if 255 < nm.length then false
  else
    let hb := stripDot nm
    if (splitDot hb).all labelValid then true else lib.ip hb

/-! ### the two `HostLib` answers, transcribed as far as mitmproxy-independent CPython code allows

`ipaddress.ip_address` is the transcription `C22.parseIp` (CPython 3.12 `IPv4Address`/`IPv6Address` string parsers,
tied by C22's own differential run); what remains a parameter is `bytes.decode("idna")` on inputs that contain
`b"xn--"` — the punycode/nameprep slow path — now returning the decoded TEXT (UTF-8), because the ip path parses it. -/

structure IdnaLib where
  /-- `raw.decode("idna")` as UTF-8 bytes for a `raw` containing `b"xn--"`; `none` = UnicodeError -/
  idna : Bytes → Option Bytes

/-- `raw.decode("idna")`: empty / no `xn--` → the ASCII fast path (and the slow path fails on the same non-ASCII label) -/
def idnaText (I : IdnaLib) (raw : Bytes) : Option Bytes :=
  if isInfix acePrefix raw then I.idna raw
  else if raw.all (fun b => b.toNat < 128) then some raw else none

/-- `ipaddress.ip_address(host_bytes.decode("idna"))` succeeds -/
def ipOk (I : IdnaLib) (hb : Bytes) : Bool :=
  match idnaText I hb with
  | some t => (C22.parseIp t).isSome
  | none => false

/-- the old two-answer library, with both answers computed -/
def hostLibOf (I : IdnaLib) : HostLib := ⟨fun nm => (I.idna nm).isSome, ipOk I⟩

/-- `is_valid_host(host: bytes)` with `ipaddress` inside the model -/
def validHostT (I : IdnaLib) (nm : Bytes) : Bool := validHost (hostLibOf I) nm

/-- an `IdnaLib` that fails on everything: for names without `xn--` it is never asked -/
def noIdna : IdnaLib := ⟨fun _ => none⟩

/-! ## accessors of `mitmproxy.tls.ClientHello` -/

/-- host names of the extensions that pass the structural part of `is_valid_sni_extension` -/
def Hello.sniCandidates (h : Hello) : List Bytes :=
  h.exts.filterMap (fun e =>
    if e.typ = 0 then
      match e.names with
      | [(t, nm)] => if t = 0 then some nm else none
      | _ => none
    else none)

/-- `ClientHello.sni` (as bytes; the code decodes them as ASCII); `valid` = `check.is_valid_host` -/
def Hello.sni (valid : Bytes → Bool) (h : Hello) : Option Bytes := h.sniCandidates.find? valid

/-- `ClientHello.alpn_protocols` -/
def Hello.alpn (h : Hello) : List Bytes :=
  match h.exts.find? (fun e => e.typ == 16) with
  | some e => e.protos
  | none => []

/-- `ClientHello.extensions` -/
def Hello.extView (h : Hello) : List (Nat × Bytes) := h.exts.map (fun e => (e.typ, e.raw))

/-- SPECIFICATION: the result as a function of the concatenated handshake payload alone -/
def helloOf (dtls : Bool) (payload : Bytes) : Res Hello :=
  match complete? dtls payload with
  | none => .incomplete
  | some m =>
    match parseBody dtls (m.drop (msgHdrLen dtls)) with
    | some h => .ok h
    | none => .invalid

/-- SPECIFICATION: the result as a function of the ClientHello handshake message alone -/
def helloOfMsg (dtls : Bool) (m : Bytes) : Res Hello :=
  match parseBody dtls (m.drop (msgHdrLen dtls)) with
  | some h => .ok h
  | none => .invalid

/-! ## `ClientTLSLayer.receive_handshake_data` before the hello is parsed -/

/-- `recv_buffer.extend(data)`; parse; `None` → wait for more; anything else ends this phase -/
def feedAll (dtls : Bool) : Bytes → List Bytes → Res Hello
  | _, [] => .incomplete
  | buf, s :: ss =>
    match parse dtls (buf ++ s) with
    | .incomplete => feedAll dtls (buf ++ s) ss
    | r => r

/-! ## specification side: a structured builder -/
namespace Build

def w8 (n : Nat) : Bytes := [UInt8.ofNat n]
def w16 (n : Nat) : Bytes := [UInt8.ofNat (n / 256), UInt8.ofNat (n % 256)]
def w24 (n : Nat) : Bytes := [UInt8.ofNat (n / 65536), UInt8.ofNat (n / 256 % 256), UInt8.ofNat (n % 256)]

/-- a record: `pre` = content type, version (and epoch/sequence for DTLS), then the length, then the body -/
def mkRecord (pre c : Bytes) : Bytes := pre ++ w16 c.length ++ c

def records (chunks : List (Bytes × Bytes)) : Bytes := chunks.flatMap (fun ch => mkRecord ch.1 ch.2)

def contents (chunks : List (Bytes × Bytes)) : Bytes := (chunks.map (·.2)).flatten

/-- a record the record layer accepts: right header length, plausible start, 0 < length < 2^16 -/
def ValidChunk (dtls : Bool) (ch : Bytes × Bytes) : Prop :=
  ch.1.length + 2 = hdrLen dtls ∧ startsLike dtls ch.1 = true ∧ 0 < ch.2.length ∧ ch.2.length < 65536

inductive BExt where
  | sni (names : List (Nat × Bytes))
  | alpn (protos : List Bytes)
  | other (typ : Nat) (raw : Bytes)
  deriving Repr, DecidableEq

def encName (n : Nat × Bytes) : Bytes := w8 n.1 ++ w16 n.2.length ++ n.2
def encNames (ns : List (Nat × Bytes)) : Bytes := ns.flatMap encName
def encProto (p : Bytes) : Bytes := w8 p.length ++ p
def encProtos (ps : List Bytes) : Bytes := ps.flatMap encProto

def BExt.typ : BExt → Nat
  | .sni _ => 0
  | .alpn _ => 16
  | .other t _ => t

def BExt.raw : BExt → Bytes
  | .sni ns => w16 (encNames ns).length ++ encNames ns
  | .alpn ps => w16 (encProtos ps).length ++ encProtos ps
  | .other _ r => r

def BExt.view (e : BExt) : Ext :=
  match e with
  | .sni ns => ⟨0, e.raw, ns, []⟩
  | .alpn ps => ⟨16, e.raw, [], ps⟩
  | .other t r => ⟨t, r, [], []⟩

def BExt.WF (e : BExt) : Prop :=
  e.raw.length < 65536 ∧
  match e with
  | .sni ns => ∀ n ∈ ns, n.1 < 256 ∧ n.2.length < 65536
  | .alpn ps => ∀ p ∈ ps, p.length < 256
  | .other t _ => t ≠ 0 ∧ t ≠ 16 ∧ t < 65536

def encExt (e : BExt) : Bytes := w16 e.typ ++ w16 e.raw.length ++ e.raw
def encExts (es : List BExt) : Bytes := es.flatMap encExt

structure BHello where
  ver : Bytes
  random : Bytes
  sid : Bytes
  cookie : Bytes                 -- DTLS only
  ciphers : List Nat
  comp : Bytes
  exts : Option (List BExt)      -- none: no extension block
  deriving Repr

def encTail : Option (List BExt) → Bytes
  | none => []
  | some es => w16 (encExts es).length ++ encExts es

def BHello.body (dtls : Bool) (h : BHello) : Bytes :=
  h.ver ++ (h.random ++ (w8 h.sid.length ++ (h.sid ++
    ((if dtls then w8 h.cookie.length ++ h.cookie else []) ++
      (w16 (2 * h.ciphers.length) ++ (h.ciphers.flatMap w16 ++
        (w8 h.comp.length ++ (h.comp ++ encTail h.exts))))))))

def BHello.WF (dtls : Bool) (h : BHello) : Prop :=
  h.ver.length = 2 ∧ h.random.length = 32 ∧ h.sid.length < 256 ∧ h.cookie.length < 256 ∧
  2 * h.ciphers.length < 65536 ∧ (∀ c ∈ h.ciphers, c < 65536) ∧ h.comp.length < 256 ∧
  (∀ es, h.exts = some es → ∀ e ∈ es, e.WF) ∧
  (h.body dtls).length < 16777216

def viewExts : Option (List BExt) → List Ext
  | none => []
  | some es => es.map BExt.view

/-- what a reader of the structured hello reports -/
def BHello.view (h : BHello) : Hello := ⟨h.ciphers, viewExts h.exts⟩

/-- reader of the structured hello: the first ALPN extension's protocols -/
def builtAlpn : List BExt → List Bytes
  | [] => []
  | .alpn ps :: _ => ps
  | _ :: es => builtAlpn es

/-- reader of the structured hello: host name of the first server_name extension that consists of a
    single host_name (type 0) entry accepted by `valid` -/
def builtSni (valid : Bytes → Bool) : List BExt → Option Bytes
  | [] => none
  | .sni [(t, nm)] :: es => if t = 0 ∧ valid nm = true then some nm else builtSni valid es
  | _ :: es => builtSni valid es

/-- `b".".join(labels)` -/
def joinDot : List Bytes → Bytes
  | [] => []
  | [l] => l
  | l :: ls => l ++ 0x2e :: joinDot ls

/-- handshake header of an unfragmented message: type 1, length (and seq, offset 0, fragment length for DTLS) -/
def msgHdr (dtls : Bool) (seq : Bytes) (n : Nat) : Bytes :=
  if dtls then [1] ++ w24 n ++ seq ++ w24 0 ++ w24 n else [1] ++ w24 n

def BHello.message (dtls : Bool) (seq : Bytes) (h : BHello) : Bytes :=
  msgHdr dtls seq (h.body dtls).length ++ h.body dtls

/-- RFC 6347 §4.2.3: fragments of a DTLS handshake message, each with the full 12-byte header -/
def fragsOf (seq : Bytes) (total : Nat) : Nat → Bytes → List Nat → List Bytes
  | _, _, [] => []
  | off, body, s :: ss =>
    ([1] ++ w24 total ++ seq ++ w24 off ++ w24 s ++ body.take s) :: fragsOf seq total (off + s) (body.drop s) ss

/-- a DTLS flight carrying the ClientHello body in fragments of the given sizes, one record per fragment -/
def dtlsFlight (pre seq body : Bytes) (sizes : List Nat) : Bytes :=
  (fragsOf seq body.length 0 body sizes).flatMap (mkRecord pre)

/-- FULL statement of fragmentation-independence for DTLS: a well-formed ClientHello sent as any sequence of
    in-order handshake fragments (one per record) is read like the unfragmented one.
    The current code does NOT satisfy this (finding F-C13a): `get_dtls_client_hello` concatenates record
    contents and takes `fragment_length + 12` bytes, i.e. it returns the first fragment only. -/
def DtlsFragmentInvariant : Prop :=
  ∀ (h : BHello) (pre seq : Bytes) (sizes : List Nat),
    h.WF true → seq.length = 2 → pre.length + 2 = hdrLen true → startsLike true pre = true →
    (∀ s ∈ sizes, 0 < s ∧ s + 12 < 65536) → sizes.sum = (h.body true).length →
    parse true (dtlsFlight pre seq (h.body true) sizes) = .ok h.view

end Build
end MitmVerif.C13
