/-
  C13 — the slow path of `bytes.decode("idna")` (CPython 3.12 `encodings/idna.py`, `encodings/punycode.py`),
  i.e. what `check.is_valid_host` runs for names that contain `b"xn--"`:

    Codec.decode  → split on ".", trailing dot, `ToUnicode` per label, join            (`decodeIdna`)
    ToUnicode     → ACE prefix, punycode decode, `ToASCII` of the result, round-trip    (`toUnicode`)
    ToASCII       → ASCII shortcut, nameprep, ACE-prefix check, punycode encode, size   (`toAscii`)
    punycode      → RFC 3492 decoder / encoder as written in `encodings/punycode.py`    (`punyDecode`, `punyEncode`)

  Code points are `Nat`s. The only thing left as a parameter is `nameprep` (stringprep tables B.1/B.2/C.x/D.x and
  `unicodedata.normalize("NFKC")` — Unicode data tables of the interpreter).
-/
import MitmVerif.Model.C13
namespace MitmVerif.C13.Idna
open MitmVerif MitmVerif.C13

abbrev Cps := List Nat

structure Nameprep where
  /-- `encodings.idna.nameprep(label)`; `none` = UnicodeError -/
  prep : Cps → Option Cps

/-! ### punycode parameters -/

/-- `T(j, bias)`: `36 * (j + 1) - bias` clamped to 1..26 -/
def T (j bias : Nat) : Nat :=
  if 36 * (j + 1) < bias + 1 then 1
  else if 36 * (j + 1) - bias > 26 then 26 else 36 * (j + 1) - bias

/-- the `while delta > 455` loop of `adapt` -/
def adaptLoop : Nat → Nat → Nat → Nat × Nat
  | 0, delta, divs => (delta, divs)
  | f + 1, delta, divs => if delta > 455 then adaptLoop f (delta / 35) (divs + 36) else (delta, divs)

def adapt (delta : Nat) (first : Bool) (numchars : Nat) : Nat :=
  let d := if first then delta / 700 else delta / 2
  let d := d + d / numchars
  let r := adaptLoop (d.log2 + 1) d 0
  r.2 + (36 * r.1 / (r.1 + 38))

/-! ### decoding -/

/-- digit value of an (upper-cased) extended character: A-Z → 0..25, 0-9 → 26..35 -/
def digitVal (c : Nat) : Option Nat :=
  if 0x41 ≤ c ∧ c ≤ 0x5A then some (c - 0x41)
  else if 0x30 ≤ c ∧ c ≤ 0x39 then some (c - 22)
  else none

/-- `decode_generalized_number` (strict): remaining input and the number -/
def decodeNum : Nat → List Nat → Nat → Nat → Nat → Nat → Option (List Nat × Nat)
  | 0, _, _, _, _, _ => none
  | _ + 1, [], _, _, _, _ => none                              -- "incomplete punicode string"
  | f + 1, c :: rest, bias, result, w, j =>
    match digitVal c with
    | none => none                                             -- "Invalid extended code point"
    | some digit =>
      let t := T j bias
      let result := result + digit * w
      if digit < t then some (rest, result) else decodeNum f rest bias result (w * (36 - t)) (j + 1)

/-- `base[:pos] + chr(char) + base[pos:]` -/
def insertAt (l : Cps) (pos : Nat) (c : Nat) : Cps := l.take pos ++ c :: l.drop pos

/-- `insertion_sort` (strict). `pos1` = Python's `pos + 1` (starts at 0), `first` = `extpos == 0` -/
def insertionSort : Nat → Cps → List Nat → Nat → Nat → Nat → Bool → Option Cps
  | 0, _, _, _, _, _, _ => none
  | _ + 1, base, [], _, _, _, _ => some base
  | f + 1, base, ext@(_ :: _), char, pos1, bias, first =>
    match decodeNum (ext.length + 1) ext bias 0 1 0 with
    | none => none
    | some (rest, delta) =>
      let pos := pos1 + delta
      let char := char + pos / (base.length + 1)
      if char > 0x10FFFF then none
      else
        let pos := pos % (base.length + 1)
        let base := insertAt base pos char
        insertionSort f base rest char (pos + 1) (adapt delta first base.length) false

def upperAscii (c : Nat) : Nat := if 0x61 ≤ c ∧ c ≤ 0x7a then c - 32 else c
def lowerAscii (c : Nat) : Nat := if 0x41 ≤ c ∧ c ≤ 0x5a then c + 32 else c

/-- split at the LAST `-` (`text.rfind(b"-")`): `(text[:pos], text[pos+1:])`, `none` when there is no `-` -/
def rsplitDash : List Nat → Option (List Nat × List Nat)
  | [] => none
  | c :: r =>
    match rsplitDash r with
    | some (a, b) => some (c :: a, b)
    | none => if c = 0x2d then some ([], r) else none

/-- `label1.decode("punycode")` on bytes (strict) -/
def punyDecode (text : List Nat) : Option Cps :=
  if text.any (fun c => c ≥ 128) then none                     -- `str(…, "ascii")` raises
  else
    let (base, ext) := match rsplitDash text with
      | some (a, b) => (a, b)
      | none => ([], text)
    insertionSort (ext.length + 1) base (ext.map upperAscii) 0x80 0 72 true

/-! ### encoding -/

def insertSorted (x : Nat) : List Nat → List Nat
  | [] => [x]
  | y :: r => if x < y then x :: y :: r else if x = y then y :: r else y :: insertSorted x r

/-- `sorted(set(non-ASCII characters))` -/
def extendedOf (s : Cps) : List Nat := (s.filter (· ≥ 128)).foldl (fun acc x => insertSorted x acc) []

def digitChar (d : Nat) : Nat := if d < 26 then 0x61 + d else 0x30 + (d - 26)

/-- `generate_generalized_integer` -/
def genInt : Nat → Nat → Nat → Nat → List Nat
  | 0, _, _, _ => []
  | f + 1, n, bias, j =>
    let t := T j bias
    if n < t then [digitChar n]
    else digitChar (t + (n - t) % (36 - t)) :: genInt f ((n - t) / (36 - t)) bias (j + 1)

structure EncSt where
  delta : Nat
  bias : Nat
  h : Nat
  out : List Nat

/-- one pass over the text for the current code point `n` (RFC 3492 §6.3 inner loop = `selective_find` loop) -/
def encPass (b n : Nat) : Cps → EncSt → EncSt
  | [], st => st
  | c :: r, st =>
    if c < n then encPass b n r { st with delta := st.delta + 1 }
    else if c = n then
      encPass b n r { delta := 0, bias := adapt st.delta (st.h == b) (st.h + 1), h := st.h + 1,
                      out := st.out ++ genInt (st.delta.log2 + 2) st.delta st.bias 0 }
    else encPass b n r st

/-- outer loop over the distinct non-ASCII code points in ascending order; `n` = next candidate code point -/
def encOuter (text : Cps) (b : Nat) : List Nat → Nat → EncSt → EncSt
  | [], _, st => st
  | m :: ms, n, st =>
    let st := { st with delta := st.delta + (m - n) * (st.h + 1) }
    let st := encPass b m text st
    encOuter text b ms (m + 1) { st with delta := st.delta + 1 }

/-- `text.encode("punycode")` -/
def punyEncode (text : Cps) : List Nat :=
  let base := text.filter (· < 128)
  let st := encOuter text base.length (extendedOf text) 128 ⟨0, 72, base.length, []⟩
  if base.isEmpty then st.out else base ++ 0x2d :: st.out

/-! ### ToASCII / ToUnicode / Codec.decode -/

def aceCps : List Nat := [0x78, 0x6e, 0x2d, 0x2d]

def sizeOk (l : List Nat) : Option (List Nat) := if 0 < l.length ∧ l.length < 64 then some l else none

/-- `ToASCII(label: str)` -/
def toAscii (N : Nameprep) (label : Cps) : Option (List Nat) :=
  if label.all (· < 128) then sizeOk label
  else
    match N.prep label with
    | none => none
    | some l =>
      if l.all (· < 128) then sizeOk l
      else if aceCps.isPrefixOf l then none
      else sizeOk (aceCps ++ punyEncode l)

/-- `ToUnicode(label: bytes)` -/
def toUnicode (N : Nameprep) (label : List Nat) : Option Cps :=
  if label.length > 1024 then none
  else if !aceCps.isPrefixOf label then
    (if label.all (· < 128) then some label else none)
  else
    match punyDecode (label.drop 4) with
    | none => none
    | some result =>
      match toAscii N result with
      | none => none
      | some label2 => if label.map lowerAscii = label2 then some result else none

def mapAll {α β : Type} (f : α → Option β) : List α → Option (List β)
  | [] => some []
  | a :: r =>
    match f a, mapAll f r with
    | some b, some bs => some (b :: bs)
    | _, _ => none

def joinCps : List Cps → Cps
  | [] => []
  | [l] => l
  | l :: ls => l ++ 0x2e :: joinCps ls

/-- `if labels and len(labels[-1]) == 0: trailing_dot = '.'; del labels[-1]` -/
def trimLabels (labels : List Cps) : List Cps × Cps :=
  match labels.getLast? with
  | some [] => (labels.dropLast, [0x2e])
  | _ => (labels, [])

/-- `Codec.decode(input)` of `encodings.idna` for a non-empty input on the slow path -/
def decodeIdna (N : Nameprep) (raw : Bytes) : Option Cps :=
  let p := trimLabels ((splitDot raw).map (fun l => l.map UInt8.toNat))
  match mapAll (toUnicode N) p.1 with
  | none => none
  | some rs => some (joinCps rs ++ p.2)

/-- the questions `raw.decode("idna")` can put to nameprep: punycode decodings of the dot-separated labels that start with `xn--` -/
def Asked (raw : Bytes) (r : Cps) : Prop :=
  ∃ l ∈ splitDot raw, aceCps.isPrefixOf (l.map UInt8.toNat) = true ∧ punyDecode ((l.map UInt8.toNat).drop 4) = some r

/-- UTF-8 of one code point (surrogates as `surrogatepass` would) -/
def utf8 (c : Nat) : Bytes :=
  if c < 0x80 then [UInt8.ofNat c]
  else if c < 0x800 then [UInt8.ofNat (0xC0 + c / 64), UInt8.ofNat (0x80 + c % 64)]
  else if c < 0x10000 then [UInt8.ofNat (0xE0 + c / 4096), UInt8.ofNat (0x80 + c / 64 % 64), UInt8.ofNat (0x80 + c % 64)]
  else [UInt8.ofNat (0xF0 + c / 262144), UInt8.ofNat (0x80 + c / 4096 % 64), UInt8.ofNat (0x80 + c / 64 % 64),
        UInt8.ofNat (0x80 + c % 64)]

/-- the `IdnaLib` computed by the transcription: only `nameprep` is left open -/
def idnaOf (N : Nameprep) : IdnaLib := ⟨fun raw => (decodeIdna N raw).map (fun t => t.flatMap utf8)⟩

/-- `is_valid_host(host: bytes)` with `ipaddress` and the `idna` codec inside the model -/
def validHostN (N : Nameprep) (nm : Bytes) : Bool := validHostT (idnaOf N) nm

end MitmVerif.C13.Idna
