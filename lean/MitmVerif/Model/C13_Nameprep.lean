/-
  C13 — `encodings.idna.nameprep` (RFC 3491 profile of stringprep as CPython 3.12 runs it), the last library
  parameter of `is_valid_host`:

      Map (B.1 → nothing, B.2 case folding)  →  NFKC as `unicodedata.ucd_3_2_0.normalize` computes it
      →  prohibited characters (C.1.2, C.2.2, C.3–C.9)  →  bidi rule (D.1 / D.2)

  The per-character data (`Gen.C13Np`) is regenerated from the running interpreter; the string-level algorithms are
  transcribed from `Modules/unicodedata.c` (`nfd_nfkd`: decomposition, canonical ordering; `nfc_nfkc`: Hangul and
  pair composition with blocking) and `encodings/idna.py`.
-/
import MitmVerif.Model.C13_Idna
import MitmVerif.Gen.C13_Np
namespace MitmVerif.C13.Np
open MitmVerif MitmVerif.Gen.C13Np

def B : Nat := 2097153                -- 2^21 + 1
def S : Nat := 2097152                -- 2^21

/-- digits-plus-one in base `B`, least significant first; digit 0 ends the sequence -/
def unpackF : Nat → Nat → List Nat
  | 0, _ => []
  | f + 1, n => if n % B = 0 then [] else (n % B - 1) :: unpackF f (n / B)

def unpack (n : Nat) : List Nat := unpackF 24 n

/-- binary search in an array sorted by `key` -/
def bsearch (a : Array Nat) (key : Nat → Nat) (k : Nat) : Nat → Nat → Nat → Option Nat
  | 0, _, _ => none
  | f + 1, lo, hi =>
    if lo ≥ hi then none
    else
      let mid := (lo + hi) / 2
      let e := a.getD mid 0
      if key e = k then some e
      else if key e < k then bsearch a key k f (mid + 1) hi
      else bsearch a key k f lo mid

def find (a : Array Nat) (key : Nat → Nat) (k : Nat) : Option Nat := bsearch a key k (a.size.log2 + 2) 0 a.size

/-- replacement sequence of a code point in a packed table (`mapTab`, `decTab`) -/
def lookupSeq (a : Array Nat) (cp : Nat) : Option (List Nat) :=
  (find a (fun e => e % B - 1) cp).map (fun e => (unpack e).drop 1)

def inRanges (a : Array Nat) (cp : Nat) : Bool := a.toList.any (fun e => decide (e / S ≤ cp) && decide (cp ≤ e % S))

/-- canonical combining class as the normaliser reads it -/
def ccc (cp : Nat) : Nat :=
  match cccTab.toList.find? (fun e => decide (e / 256 / S ≤ cp) && decide (cp ≤ e / 256 % S)) with
  | some e => e % 256
  | none => 0

def pair (a b : Nat) : Option Nat := (find pairTab (fun e => e / S) (a * S + b)).map (· % S)

/-! ### NFKD -/

def decompOne (cp : Nat) : List Nat :=
  if 0xAC00 ≤ cp ∧ cp < 0xAC00 + 11172 then
    let i := cp - 0xAC00
    let l := 0x1100 + i / 588
    let v := 0x1161 + i % 588 / 28
    if i % 28 = 0 then [l, v] else [l, v, 0x11A7 + i % 28]
  else (lookupSeq decTab cp).getD [cp]

/-- move a mark with class `k` backwards over marks of a higher class (`rev` = output so far, reversed) -/
def insertMark (c k : Nat) : List Nat → List Nat
  | [] => [c]
  | p :: r => if ccc p = 0 ∨ ccc p ≤ k then c :: p :: r else p :: insertMark c k r

/-- the "Sort canonically" loop -/
def reorderRev : List Nat → List Nat → List Nat
  | [], acc => acc
  | c :: r, acc => if ccc c = 0 then reorderRev r (c :: acc) else reorderRev r (insertMark c (ccc c) acc)

def nfkd (s : List Nat) : List Nat := (reorderRev (s.flatMap decompOne) []).reverse

/-! ### composition -/

/-- "Find next unblocked character" loop of `nfc_nfkc` for the base `base`; `comb` = class of the last mark kept -/
def scan (base : Nat) : List Nat → Nat → Nat × List Nat
  | [], _ => (base, [])
  | c1 :: t, comb =>
    if comb ≠ 0 ∧ ccc c1 = 0 then (base, c1 :: t)
    else if comb ≠ 0 ∧ comb ≥ ccc c1 then
      let r := scan base t comb
      (r.1, c1 :: r.2)
    else
      match pair base c1 with
      | some code => scan code t comb
      | none =>
        if ccc c1 = 0 then (base, c1 :: t)
        else
          let r := scan base t (ccc c1)
          (r.1, c1 :: r.2)

def compose : Nat → List Nat → List Nat
  | 0, _ => []
  | _ + 1, [] => []
  | f + 1, c :: rest =>
    let general : List Nat := (scan c rest 0).1 :: compose f (scan c rest 0).2
    if 0x1100 ≤ c ∧ c < 0x1113 then
      match rest with
      | v :: r2 =>
        if 0x1161 ≤ v ∧ v < 0x1176 then
          let lv := 0xAC00 + ((c - 0x1100) * 21 + (v - 0x1161)) * 28
          match r2 with
          | t :: r3 => if 0x11A7 < t ∧ t < 0x11A7 + 28 then (lv + (t - 0x11A7)) :: compose f r3 else lv :: compose f r2
          | [] => [lv]
        else general
      | [] => general
    else general

/-- `unicodedata.ucd_3_2_0.normalize("NFKC", s)` -/
def nfkc (s : List Nat) : List Nat := let d := nfkd s; compose (d.length + 1) d

/-! ### nameprep -/

def prohibitedCp (c : Nat) : Bool := inRanges prohibited c
def isRandAL (c : Nat) : Bool := inRanges randAL c
def isLCat (c : Nat) : Bool := inRanges lCat c

/-- `encodings.idna.nameprep(label)`; `none` = UnicodeError -/
def nameprep (label : List Nat) : Option (List Nat) :=
  let mapped := label.flatMap (fun c => (lookupSeq mapTab c).getD [c])
  let n := nfkc mapped
  if n.any prohibitedCp then none
  else if n.any isRandAL then
    if n.any isLCat then none
    else if (n.head?.map isRandAL).getD false && (n.getLast?.map isRandAL).getD false then some n else none
  else some n

/-- the parameter of `Idna`, instantiated: nothing of `is_valid_host` is left open -/
def theNameprep : Idna.Nameprep := ⟨nameprep⟩

/-- `is_valid_host(host: bytes)`, complete -/
def validHostFull (nm : Bytes) : Bool := Idna.validHostN theNameprep nm

end MitmVerif.C13.Np
