/-
  C14 — TLS interception is byte-transparent after the handshake.

  Executable model of `TunnelLayer` (mitmproxy/proxy/tunnel.py) specialised by `TLSLayer`, `ServerTLSLayer` and
  `ClientTLSLayer` (mitmproxy/proxy/layers/tls.py):

  * tunnel state INACTIVE / ESTABLISHING / OPEN / CLOSED, `command_to_reply_to`, `_event_queue`, `event_to_child`,
    `_handle_command` (SendData / CloseConnection / OpenConnection of the inner connection, everything else passes up),
    `_handshake_finished`, the `ConnectionClosed` branches;
  * `start_tls` (the tls_start_* hook supplies the OpenSSL object or nothing), `tls_interact` (the `bio_read` loop),
    `receive_handshake_data` (`do_handshake`: WantRead / error / done → established hook → `receive_data(b"")`),
    `on_handshake_error` (failed hook, CloseConnection, ClientTLSLayer: `event_to_child = self.errored`),
    `receive_data` (`bio_write`, the `recv` loop with WantRead / ZeroReturn / Error, then `tls_interact`, then
    DataReceived and ConnectionClosed to the child), `receive_close` (`get_shutdown() & RECEIVED_SHUTDOWN`), `send_data`;
  * ClientTLSLayer's ClientHello buffering (`recv_buffer`, `client_hello_parsed`, parse result incomplete / invalid /
    complete as a parameter; `establish_server_tls_first` → OpenConnection(context.server)).

  OpenSSL is the parameter `Codec` (an abstract state machine with exactly the calls the layer makes).  Its single
  assumed law, *stream faithfulness*, is the structure `Laws` (fields, not axioms).

  Not modelled: `ignore_connection` (no TLS is terminated then), ServerTLSLayer's `wait_for_clienthello` hand-over (a
  composition of two layers), DTLS, the pause/resume machinery of `Layer.handle_event` (C04): hooks and
  `OpenConnection` are answered before the next event is handled, so one `handle` call = one `_handle_event` run.
  The child layer is any deterministic function of the events it has seen so far.
  `openReply` (the answer to the layer's own OpenConnection) is only considered while `command_to_reply_to` is set; a
  second `start_tls` is the real code's `assert not self.tls` (`crashed`).
-/
import MitmVerif.Basic.Bytes
namespace MitmVerif.C14

inductive RecvRes where
  | data (d : Bytes) | wantRead | zeroReturn | error
  deriving DecidableEq, Repr

inductive HsRes where
  | wantRead | done | error
  deriving DecidableEq, Repr

/-- the pyOpenSSL connection as the layer uses it -/
structure Codec where
  σ : Type
  feed : σ → Bytes → σ                  -- bio_write
  recv : σ → RecvRes × σ                -- recv(65535)
  send : σ → Bytes → Bool × σ           -- sendall; false = ZeroReturnError / SysCallError (swallowed by send_data)
  out : σ → Option Bytes × σ            -- bio_read(65535); none = WantReadError
  handshake : σ → HsRes × σ             -- do_handshake
  gotShutdown : σ → Bool                -- get_shutdown() & RECEIVED_SHUTDOWN
  inPending : σ → Nat                   -- bound on the number of further successful recv calls
  outPending : σ → Nat                  -- bound on the number of further successful bio_read calls

inductive TState where
  | inactive | establishing | open_ | closed
  deriving DecidableEq, Repr

inductive Side where
  | server | client
  deriving DecidableEq, Repr

/-- events given to the child layer -/
inductive CEv where
  | start
  | data (d : Bytes)                    -- DataReceived(conn, d)
  | closed                              -- ConnectionClosed(conn)
  | opened (err : Bool)                 -- OpenConnectionCompleted(command_to_reply_to, err)
  | other (n : Nat)                     -- any event that is not about the tunnel connection
  deriving DecidableEq, Repr

/-- commands of the child layer -/
inductive CCmd where
  | send (d : Bytes)                    -- SendData(conn, d)
  | close                               -- CloseConnection(conn)
  | open_                               -- OpenConnection(conn)
  | other (n : Nat)
  deriving DecidableEq, Repr

/-- commands leaving the TLS layer -/
inductive Up where
  | send (d : Bytes)                    -- SendData(tunnel_connection, ciphertext)
  | close                               -- CloseConnection(tunnel_connection)
  | openTunnel                          -- OpenConnection(tunnel_connection)
  | openServer                          -- ClientTLSLayer.start_server_tls: OpenConnection(context.server)
  | hook (n : Nat)                      -- 0 tls_start 1 tls_clienthello 2 tls_established 3 tls_failed
  | log (n : Nat)                       -- 0 "No TLS context" 1 "TLS Error" 2 handshake failed
  | other (n : Nat)
  deriving DecidableEq, Repr

inductive Hello where
  | incomplete | invalid | complete
  deriving DecidableEq, Repr

/-- environment: what the hooks answer and how ClientHello bytes parse -/
structure Env (K : Codec) where
  mkTls : Option K.σ                    -- tls_start_*: the ssl_conn the addon provides
  parse : Bytes → Hello                 -- parse_client_hello on the accumulated buffer
  serverFirst : Bool                    -- tls_clienthello: establish_server_tls_first (and server TLS not yet established)

/-- events given to the TLS layer -/
inductive Ev where
  | start (connOpen : Bool)             -- Start; is tunnel_connection.state ≠ CLOSED
  | data (d : Bytes)                    -- DataReceived(tunnel_connection, d)
  | closeEv                             -- ConnectionClosed(tunnel_connection)
  | other (n : Nat)
  | openReply (err : Bool)              -- the answer to our own OpenConnection(tunnel_connection)
  deriving DecidableEq, Repr

structure St (K : Codec) where
  side : Side
  st : TState := .inactive
  replyTo : Bool := false               -- command_to_reply_to is set
  queue : List CEv := []                -- _event_queue
  tls : Option K.σ := none
  helloParsed : Bool := false
  recvBuf : Bytes := []
  errored : Bool := false               -- ClientTLSLayer after a failed handshake: event_to_child swallows
  crashed : Bool := false               -- an AttributeError/assertion the real code would raise (self.tls is None)
  -- ghost
  toChild : List CEv := []              -- events handled by the child, in order
  routed : List CEv := []               -- events passed to event_to_child, in order
  up : List Up := []                    -- commands emitted, in order
  accepted : Bytes := []                -- child payloads that sendall accepted
  rxError : Bool := false               -- recv raised SSL.Error at some point

abbrev Child := List CEv → CEv → List CCmd

section
variable {K : Codec}

/-- the `recv` loop of `receive_data` -/
inductive RecvEnd where
  | want | closed | err | fuel
  deriving DecidableEq, Repr

def recvLoop (K : Codec) : Nat → K.σ → Bytes → Bytes × RecvEnd × K.σ
  | 0, s, acc => (acc, .fuel, s)
  | n + 1, s, acc =>
    match K.recv s with
    | (.data d, s') => recvLoop K n s' (acc ++ d)
    | (.wantRead, s') => (acc, .want, s')
    | (.zeroReturn, s') => (acc, .closed, s')
    | (.error, s') => (acc, .err, s')

/-- `tls_interact`: `bio_read` until WantReadError; returns the chunks in order -/
def outLoop (K : Codec) : Nat → K.σ → List Bytes → List Bytes × K.σ
  | 0, s, acc => (acc, s)
  | n + 1, s, acc =>
    match K.out s with
    | (some c, s') => outLoop K n s' (acc ++ [c])
    | (none, s') => (acc, s')

def emit (s : St K) (u : List Up) : St K := { s with up := s.up ++ u }

def interact (s : St K) : St K :=
  match s.tls with
  | none => { s with crashed := true }
  | some c =>
    let (chunks, c') := outLoop K (K.outPending c + 1) c []
    emit { s with tls := some c' } (chunks.map Up.send)

/-- `_handle_command` for one command of the child -/
def handleCmd (s : St K) : CCmd → St K
  | .send d =>
    match s.tls with
    | none => { s with crashed := true }
    | some c =>
      let (ok, c') := K.send c d
      interact { s with tls := some c', accepted := if ok then s.accepted ++ d else s.accepted }
  | .close => emit s [.close]
  | .open_ => emit { s with replyTo := true, st := .establishing } [.openTunnel]
  | .other n => emit s [.other n]

def handleCmds (s : St K) (cmds : List CCmd) : St K := cmds.foldl handleCmd s

/-- `child_layer.handle_event(event)` + `_handle_command` for each command -/
def deliver (child : Child) (s : St K) (e : CEv) : St K :=
  handleCmds { s with toChild := s.toChild ++ [e] } (child s.toChild e)

/-- ghost: the event was passed to `event_to_child` -/
def addRouted (s : St K) (e : CEv) : St K := { s with routed := s.routed ++ [e] }
/-- `self._event_queue.append(event)` -/
def enqueue (s : St K) (e : CEv) : St K := { s with queue := s.queue ++ [e] }

def isEst : TState → Bool
  | .establishing => true
  | _ => false

/-- `self.tunnel_state is TunnelState.ESTABLISHING and not self.command_to_reply_to` -/
def queueing (s : St K) : Bool := isEst s.st && !s.replyTo

/-- `event_to_child` proper -/
def etcCore (child : Child) (s : St K) (e : CEv) : St K :=
  if s.errored then s
  else if queueing s then enqueue s e
  else deliver child s e

/-- `event_to_child`, with the ghost record that the event arrived (a stored event that `_handshake_finished` passes to
    `event_to_child` a second time is not a new arrival: the flush uses `etcCore`) -/
def eventToChild (child : Child) (s : St K) (e : CEv) : St K := etcCore child (addRouted s e) e

def feedIf (c : K.σ) (d : Bytes) : K.σ := if d.isEmpty then c else K.feed c d      -- `if data: self.tls.bio_write(data)`
def afterRecv (s : St K) (c2 : K.σ) (e : RecvEnd) : St K := { s with tls := some c2, rxError := s.rxError || e == .err }

/-- `TLSLayer.receive_data` -/
def receiveData (child : Child) (s : St K) (d : Bytes) : St K :=
  match s.tls with
  | none => { s with crashed := true }
  | some c =>
    let r := recvLoop K (K.inPending (feedIf c d) + 1) (feedIf c d) []
    let s1 := afterRecv s r.2.2 r.2.1
    let s2 := if r.2.1 == .err then emit s1 [.log 1] else s1
    let s3 := interact s2
    let s4 := if r.1.isEmpty then s3 else eventToChild child s3 (.data r.1)
    if r.2.1 == .closed then eventToChild child s4 .closed else s4

/-- `TLSLayer.start_tls`: true = an SSL object is in place -/
def startTls (env : Env K) (s : St K) : St K × Bool :=
  if s.tls.isSome then ({ s with crashed := true }, false)      -- `assert not self.tls`
  else
  let s := emit s [.hook 0]
  match env.mkTls with
  | none => (emit s [.log 0, .close], false)
  | some c => ({ s with tls := some c }, true)

/-- `TLSLayer.receive_handshake_data` → (state, done, err) -/
def hsTls (child : Child) (s : St K) (d : Bytes) : St K × Bool × Bool :=
  match s.tls with
  | none => ({ s with crashed := true }, false, false)
  | some c =>
    match K.handshake (feedIf c d) with
    | (.wantRead, c2) => (interact { s with tls := some c2 }, false, false)
    | (.error, c2) => ({ s with tls := some c2 }, false, true)
    | (.done, c2) =>
      let s := emit { s with tls := some c2 } [.hook 2]
      (receiveData child s [], true, false)

/-- `ClientTLSLayer.receive_handshake_data` / `TLSLayer.receive_handshake_data` -/
def recvHandshake (env : Env K) (child : Child) (s : St K) (d : Bytes) : St K × Bool × Bool :=
  match s.side with
  | .server => hsTls child s d
  | .client =>
    if s.helloParsed then hsTls child s d
    else
      let buf := s.recvBuf ++ d
      let s := { s with recvBuf := buf }
      match env.parse buf with
      | .invalid => (s, false, true)
      | .incomplete => (s, false, false)
      | .complete =>
        let s := emit { s with helloParsed := true } [.hook 1]
        let s := if env.serverFirst then emit s [.openServer] else s
        match startTls env s with
        | (s, false) => (s, false, true)          -- "connection closed early"
        | (s, true) => hsTls child { s with recvBuf := [] } buf      -- (the code clears recv_buffer afterwards; nothing in between reads it)

/-- `on_handshake_error` (TLSLayer + the side's override + TunnelLayer) -/
def onHandshakeError (s : St K) : St K :=
  let s := emit s [.log 2, .hook 3, .close]
  if s.side = .client then { s with errored := true } else s

def setSt (s : St K) (v : TState) : St K := { s with st := v }
def clearReply (s : St K) : St K := { s with replyTo := false }
def clearQueue (s : St K) : St K := { s with queue := [] }

/-- `_handshake_finished` -/
def handshakeFinished (child : Child) (s : St K) (err : Bool) : St K :=
  let t := setSt s (if err then .closed else .open_)
  if s.replyTo then clearReply (eventToChild child t (.opened err))
  else clearQueue (s.queue.foldl (etcCore child) t)

/-- `start_handshake` -/
def startHandshake (env : Env K) (child : Child) (s : St K) : St K :=
  match s.side with
  | .client => s
  | .server =>
    match startTls env s with
    | (s, false) => s
    | (s, true) => (hsTls child s []).1        -- the (done, err) result is dropped by the code

/-- handshake-phase DataReceived -/
def hsData (env : Env K) (child : Child) (s : St K) (d : Bytes) : St K :=
  let (s, dn, er) := recvHandshake env child s d
  let s := if er then onHandshakeError s else s
  if dn || er then handshakeFinished child s er else s

/-- `TunnelLayer._handle_event` (plus the reply to our own OpenConnection) -/
def handle (env : Env K) (child : Child) (s : St K) : Ev → St K
  | .start connOpen =>
    let s := if connOpen then startHandshake env child { s with st := .establishing } else s
    eventToChild child s .start
  | .data d =>
    if s.st = .establishing then hsData env child s d else receiveData child s d
  | .closeEv =>
    let s :=
      if s.st = .open_ then
        (match s.tls with
         | some c => if K.gotShutdown c then s else eventToChild child s .closed
         | none => { s with crashed := true })
      else if s.st = .establishing then handshakeFinished child (onHandshakeError s) true
      else s
    { s with st := .closed }
  | .other n => eventToChild child s (.other n)
  | .openReply err =>
    if !s.replyTo then s            -- there is no OpenConnection of ours to be answered
    else if err then { eventToChild child s (.opened true) with st := .closed }
    else startHandshake env child s

def run (env : Env K) (child : Child) (s : St K) (evs : List Ev) : St K := evs.foldl (handle env child) s

end

/-! ### observables -/

def plainOf : List CEv → Bytes
  | [] => []
  | .data d :: r => d ++ plainOf r
  | _ :: r => plainOf r

def cipherOf : List Up → Bytes
  | [] => []
  | .send d :: r => d ++ cipherOf r
  | _ :: r => cipherOf r

/-! ### the assumed law of the TLS engine: stream faithfulness -/

/-- Ghost observers of a codec state and what each call does to them.  `dec` is the session's reading of the inbound
    ciphertext stream (plaintext, close_notify seen); `enc` the peer's reading of the outbound ciphertext stream. -/
structure Laws (K : Codec) where
  fed : K.σ → Bytes                      -- ciphertext written into the BIO so far
  taken : K.σ → Nat                      -- plaintext bytes handed out by recv so far
  sent : K.σ → Bytes                     -- plaintext accepted by sendall so far
  emitted : K.σ → Bytes                  -- ciphertext handed out by bio_read so far
  dec : Bytes → Bytes × Bool
  enc : Bytes → Bytes
  dec_mono : ∀ a b, ∃ t, (dec (a ++ b)).1 = (dec a).1 ++ t
  enc_nil : enc [] = []
  feed_fed : ∀ s x, fed (K.feed s x) = fed s ++ x
  feed_taken : ∀ s x, taken (K.feed s x) = taken s
  feed_out : ∀ s x, sent (K.feed s x) = sent s ∧ emitted (K.feed s x) = emitted s
  recv_in : ∀ s, fed (K.recv s).2 = fed s
  recv_out : ∀ s, sent (K.recv s).2 = sent s ∧ emitted (K.recv s).2 = emitted s
  recv_data : ∀ s d, (K.recv s).1 = .data d →
      taken (K.recv s).2 = taken s + d.length ∧ (∃ rest, (dec (fed s)).1.drop (taken s) = d ++ rest)
      ∧ K.inPending (K.recv s).2 < K.inPending s
  recv_nodata : ∀ s, (∀ d, (K.recv s).1 ≠ .data d) → taken (K.recv s).2 = taken s
  recv_want : ∀ s, (K.recv s).1 = .wantRead → taken s = (dec (fed s)).1.length ∧ (dec (fed s)).2 = false
  recv_zero : ∀ s, (K.recv s).1 = .zeroReturn → taken s = (dec (fed s)).1.length ∧ (dec (fed s)).2 = true
  send_in : ∀ s d, fed (K.send s d).2 = fed s ∧ taken (K.send s d).2 = taken s
  send_out : ∀ s d, emitted (K.send s d).2 = emitted s
      ∧ sent (K.send s d).2 = (if (K.send s d).1 then sent s ++ d else sent s)
  out_in : ∀ s, fed (K.out s).2 = fed s ∧ taken (K.out s).2 = taken s
  out_some : ∀ s c, (K.out s).1 = some c →
      emitted (K.out s).2 = emitted s ++ c ∧ sent (K.out s).2 = sent s ∧ K.outPending (K.out s).2 < K.outPending s
  out_none : ∀ s, (K.out s).1 = none →
      emitted (K.out s).2 = emitted s ∧ sent (K.out s).2 = sent s ∧ enc (emitted s) = sent s
  hs_in : ∀ s, fed (K.handshake s).2 = fed s ∧ taken (K.handshake s).2 = taken s
  hs_out : ∀ s, sent (K.handshake s).2 = sent s ∧ emitted (K.handshake s).2 = emitted s

end MitmVerif.C14
