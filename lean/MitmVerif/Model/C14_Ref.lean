/-
  C14 — a concrete reference codec for the compiled driver: records `[type][len_hi][len_lo][payload]` with
  0x16 handshake (payload[0]: 0 ordinary, 1 completes the handshake, 2 fatal), 0x17 application data,
  0x15 close_notify, 0x14 ignorable (session tickets / CCS).  It stands in for OpenSSL in the differential run: the harness
  re-frames the real ciphertext stream record by record.  It is NOT proved to satisfy `Laws` (see level_note).
-/
import MitmVerif.Model.C14
namespace MitmVerif.C14.Ref
open MitmVerif.C14

structure RS where
  client : Bool              -- we are the TLS client (ServerTLSLayer)
  inbuf : Bytes := []
  outq : List Bytes := []
  helloSent : Bool := false
  established : Bool := false
  failed : Bool := false
  closedIn : Bool := false
  deriving Repr

def record (ty : UInt8) (payload : Bytes) : Bytes :=
  ty :: UInt8.ofNat (payload.length / 256) :: UInt8.ofNat (payload.length % 256) :: payload

/-- next complete record of the buffer: (type, payload, rest) -/
def nextRec : Bytes → Option (UInt8 × Bytes × Bytes)
  | ty :: h :: l :: rest =>
    let n := h.toNat * 256 + l.toNat
    if rest.length < n then none else some (ty, rest.take n, rest.drop n)
  | _ => none

def hsLoop : Nat → RS → HsRes × RS
  | 0, s => (.wantRead, s)
  | fuel + 1, s =>
    match nextRec s.inbuf with
    | none => (.wantRead, s)
    | some (ty, p, rest) =>
      let s := { s with inbuf := rest }
      if ty = 0x16 then
        match p.head? with
        | some 1 => (.done, { s with established := true, outq := s.outq ++ [record 0x16 [1]] })
        | some 2 => (.error, { s with failed := true })
        | _ => hsLoop fuel (if s.client then s else { s with outq := s.outq ++ [record 0x16 [0]] })
      else if ty = 0x14 then hsLoop fuel s
      else (.error, { s with failed := true })

def handshake (s : RS) : HsRes × RS :=
  if s.failed then (.error, s)
  else if s.established then (.done, s)
  else
    let s := if s.client && !s.helloSent then { s with helloSent := true, outq := s.outq ++ [record 0x16 [0]] } else s
    hsLoop (s.inbuf.length + 1) s

def recvLoop' : Nat → RS → RecvRes × RS
  | 0, s => (.wantRead, s)
  | fuel + 1, s =>
    if s.closedIn then (.zeroReturn, s) else
    match nextRec s.inbuf with
    | none => (.wantRead, s)
    | some (ty, p, rest) =>
      let s := { s with inbuf := rest }
      if ty = 0x17 then (if p.isEmpty then recvLoop' fuel s else (.data p, s))
      else if ty = 0x15 then (.zeroReturn, { s with closedIn := true })
      else if ty = 0x14 || ty = 0x16 then recvLoop' fuel s
      else (.error, { s with failed := true })

def recv (s : RS) : RecvRes × RS :=
  if s.failed || !s.established then (.error, s) else recvLoop' (s.inbuf.length + 1) s

def chunks : Nat → Bytes → List Bytes
  | 0, _ => []
  | fuel + 1, d => if d.isEmpty then [] else record 0x17 (d.take 16384) :: chunks fuel (d.drop 16384)

def send (s : RS) (d : Bytes) : Bool × RS :=
  if s.failed || !s.established then (false, s)
  else (true, { s with outq := s.outq ++ chunks (d.length + 1) d })

def out (s : RS) : Option Bytes × RS :=
  match s.outq with
  | [] => (none, s)
  | c :: r => (some c, { s with outq := r })

def codec : Codec where
  σ := RS
  feed := fun s x => { s with inbuf := s.inbuf ++ x }
  recv := recv
  send := send
  out := out
  handshake := handshake
  gotShutdown := fun s => s.closedIn
  inPending := fun s => s.inbuf.length
  outPending := fun s => s.outq.length

/-- the peer's reading of our ciphertext: concatenated payloads of 0x17 records -/
def decodeApp : Nat → Bytes → Bytes
  | 0, _ => []
  | fuel + 1, b =>
    match nextRec b with
    | none => []
    | some (ty, p, rest) => (if ty = 0x17 then p else []) ++ decodeApp fuel rest

end MitmVerif.C14.Ref
