/-
  C14 — the framed reference codec of the driver, rebuilt so that it can be PROVED lawful (`Lemmas/C14_RefL.lean`: `refLaws`).

  Same wire format as before: records `[type][len_hi][len_lo][payload]`, 0x16 handshake (payload[0]: 1 completes the handshake, 2 fatal),
  0x17 application data, 0x15 close_notify, 0x14 ignorable.  Differences to the first version (Model/C14_Ref.lean): incoming bytes are
  framed by a byte-wise automaton at `bio_write` time (so that feeding `a ++ b` is feeding `a` then `b` by construction), the
  session state is advanced by ONE record-step function `stepRec` that is also the specification of the session's reading of the stream
  (`dec`), and the state carries ghost fields (everything fed / consumed / emitted / accepted).  `Codec.σ` is the subtype of states
  satisfying the consistency invariant `Inv`, so `Laws` (which quantifies over all codec states) is provable.
-/
import MitmVerif.Model.C14
namespace MitmVerif.C14.RefL
open MitmVerif.C14

abbrev Rec := UInt8 × Bytes

/-! ### framing -/

inductive FS where
  | hdr (h : Bytes)                                -- fewer than 3 header bytes so far
  | pay (ty : UInt8) (need : Nat) (p : Bytes)      -- header complete; `need` ≥ 1 payload bytes still missing; `p` = the payload so far, REVERSED (O(1) per byte)
  deriving DecidableEq, Repr

def FS.init : FS := .hdr []

def frameByte : FS → UInt8 → FS × List Rec
  | .hdr [ty, hi], b =>
    let n := hi.toNat * 256 + b.toNat
    if n = 0 then (.hdr [], [(ty, [])]) else (.pay ty n [], [])
  | .hdr h, b => (.hdr (h ++ [b]), [])
  | .pay ty need p, b =>
    if need ≤ 1 then (.hdr [], [(ty, (b :: p).reverse)]) else (.pay ty (need - 1) (b :: p), [])

def frameAll : FS → Bytes → FS × List Rec
  | fs, [] => (fs, [])
  | fs, b :: r =>
    let x := frameByte fs b
    let y := frameAll x.1 r
    (y.1, x.2 ++ y.2)

def encode (r : Rec) : Bytes :=
  r.1 :: UInt8.ofNat (r.2.length / 256) :: UInt8.ofNat (r.2.length % 256) :: r.2

/-! ### the session's reading of a record sequence -/

structure Sem where
  est : Bool := false
  failed : Bool := false
  closed : Bool := false
  plain : Bytes := []
  deriving DecidableEq, Repr

def stepRec (m : Sem) (r : Rec) : Sem :=
  if m.failed || m.closed then m
  else if !m.est then
    if r.1 = 0x16 then
      (match r.2.head? with
       | some 1 => { m with est := true }
       | some 2 => { m with failed := true }
       | _ => m)
    else if r.1 = 0x14 then m
    else { m with failed := true }
  else
    if r.1 = 0x17 then { m with plain := m.plain ++ r.2 }
    else if r.1 = 0x15 then { m with closed := true }
    else if r.1 = 0x14 || r.1 = 0x16 then m
    else { m with failed := true }

def semAll (m : Sem) (rs : List Rec) : Sem := rs.foldl stepRec m

/-- concatenated payloads of the application-data records -/
def appOf : List Rec → Bytes
  | [] => []
  | r :: rs => (if r.1 = 0x17 then r.2 else []) ++ appOf rs

def dec (b : Bytes) : Bytes × Bool :=
  let m := semAll {} (frameAll .init b).2
  (m.plain, m.closed)

def enc (b : Bytes) : Bytes := appOf (frameAll .init b).2

/-! ### the codec state -/

structure G where
  client : Bool
  fs : FS := .init
  inRecs : List Rec := []
  m : Sem := {}
  helloSent : Bool := false
  outq : List Rec := []
  -- ghost
  consumed : List Rec := []
  fed : Bytes := []
  emittedRecs : List Rec := []
  emitted : Bytes := []
  sent : Bytes := []

structure Inv (g : G) : Prop where
  frame : frameAll .init g.fed = (g.fs, g.consumed ++ g.inRecs)
  sem : semAll {} g.consumed = g.m
  eframe : frameAll .init g.emitted = (.init, g.emittedRecs)
  app : appOf g.emittedRecs ++ appOf g.outq = g.sent
  small : ∀ r ∈ g.outq, r.2.length < 65536

def feed (g : G) (x : Bytes) : G :=
  let y := frameAll g.fs x
  { g with fs := y.1, inRecs := g.inRecs ++ y.2, fed := g.fed ++ x }

/-- the session state after one of the two loops consumed records -/
def setLoop (g : G) (m : Sem) (rs c : List Rec) : G := { g with m := m, inRecs := rs, consumed := c }
/-- queue a handshake record for `bio_read` -/
def pushHs (g : G) (b : UInt8) : G := { g with outq := g.outq ++ [(0x16, [b])] }

/-- `do_handshake` over the waiting records (before the handshake is complete) -/
def hsGo : Sem → List Rec → List Rec → HsRes × Sem × List Rec × List Rec
  | m, [], c => (.wantRead, m, [], c)
  | m, r :: rs, c =>
    let m' := stepRec m r
    if m'.est then (.done, m', rs, c ++ [r])
    else if m'.failed then (.error, m', rs, c ++ [r])
    else hsGo m' rs (c ++ [r])

def handshake (g : G) : HsRes × G :=
  if g.m.failed then (.error, g)
  else if g.m.est then (.done, g)
  else
    let g1 : G := if g.client && !g.helloSent then pushHs { g with helloSent := true } 0 else g
    let y := hsGo g1.m g1.inRecs g1.consumed
    let g2 : G := setLoop g1 y.2.1 y.2.2.1 y.2.2.2
    (y.1, if y.1 = .done then pushHs g2 1 else g2)

/-- `recv` over the waiting records (handshake complete, not closed, not failed) -/
def recvGo : Sem → List Rec → List Rec → RecvRes × Sem × List Rec × List Rec
  | m, [], c => (.wantRead, m, [], c)
  | m, r :: rs, c =>
    let m' := stepRec m r
    if m'.failed then (.error, m', rs, c ++ [r])
    else if m'.closed then (.zeroReturn, m', rs, c ++ [r])
    else if r.1 = 0x17 && !r.2.isEmpty then (.data r.2, m', rs, c ++ [r])
    else recvGo m' rs (c ++ [r])

def recv (g : G) : RecvRes × G :=
  if g.m.failed || !g.m.est then (.error, g)
  else if g.m.closed then (.zeroReturn, g)
  else
    let y := recvGo g.m g.inRecs g.consumed
    (y.1, setLoop g y.2.1 y.2.2.1 y.2.2.2)

def chunkRecs : Nat → Bytes → List Rec
  | 0, _ => []
  | fuel + 1, d => if d.isEmpty then [] else (0x17, d.take 16384) :: chunkRecs fuel (d.drop 16384)

def send (g : G) (d : Bytes) : Bool × G :=
  if g.m.failed || !g.m.est then (false, g)
  else (true, { g with outq := g.outq ++ chunkRecs (d.length + 1) d, sent := g.sent ++ d })

def out (g : G) : Option Bytes × G :=
  match g.outq with
  | [] => (none, g)
  | r :: rs => (some (encode r), { g with outq := rs, emittedRecs := g.emittedRecs ++ [r], emitted := g.emitted ++ encode r })

end MitmVerif.C14.RefL
