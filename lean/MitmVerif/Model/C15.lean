/-
  C15 — upstream certificates are verified unless verification is disabled.

  What is modelled (mitmproxy code):
  * `TlsConfig.tls_start_server`: `verify = VERIFY_NONE if ssl_insecure else VERIFY_PEER`; the effective
    server name `server.sni if server.sni is not None else (client.sni or server.address[0])`; the host
    parameter: an IP literal goes to `X509_VERIFY_PARAM_set1_ip` (no SNI extension), anything else is
    IDNA-encoded and goes to `set_tlsext_host_name` + `X509_VERIFY_PARAM_set1_host`; an empty name with
    verification on raises `ValueError`; `hostflags = NO_PARTIAL_WILDCARDS | NEVER_CHECK_SUBJECT`
    (numeric values regenerated into `Gen/C15.lean`).
  * the handshake outcome of the server TLS layer as a function of the plan, the chain verdict and the
    certificate's names.

  What is a parameter / specification (library behaviour):
  * `ipaddress.ip_address` + the `idna` codec: `Classify` (a function `Bytes → Option GName`);
  * chain building, signature and time checks: the Boolean `chainOk`;
  * the name-matching *policy* is written down twice:
      `matches`      — the SPECIFICATION (RFC 6125 §6.4: exact match, a wildcard only as the complete
                       left-most label, standing for exactly one non-empty label, never for an IP
                       address, no Common-Name fallback);
      `osslMatches`  — a transcription of what OpenSSL's `X509_check_host`/`X509_check_ip` do under
                       exactly these two host flags (`valid_star`, `wildcard_match`, `equal_nocase` in
                       crypto/x509/v3_utl.c), validated differentially against the real library.
    `Props/C15.lean` proves `osslMatches ⊆ matches`.

  Names: a DNS name is its byte string; an IP address is its canonical text (`str(ipaddress.ip_address(x))`,
  injective on addresses, so comparing texts = comparing packed addresses).
-/
import MitmVerif.Basic.Bytes
namespace MitmVerif.C15

/-- an X.509 GeneralName as far as the checks look at it -/
inductive GName where
  | dns (v : Bytes)
  | ip (v : Bytes)
  | other (kind : Nat) (v : Bytes)      -- rfc822Name, URI, directoryName, registeredID, otherName …
  deriving DecidableEq, Repr

/-- the reference identifier the verifier is given -/
inductive RefId where
  | host (v : Bytes)       -- X509_VERIFY_PARAM_set1_host
  | addr (v : Bytes)       -- X509_VERIFY_PARAM_set1_ip
  deriving DecidableEq, Repr

def dot : UInt8 := 0x2e
def star : UInt8 := 0x2a

/-! ### the specification `matches` -/

/-- `p` = `*.s` with `s` non-empty, `r` = `w.s` with `w` non-empty and dot-free (both already lower-cased) -/
def specWild (p r : Bytes) : Bool :=
  match p with
  | a :: b :: s =>
    a = star && b = dot && !s.isEmpty && s.length + 1 < r.length
      && r.drop (r.length - (s.length + 1)) == dot :: s
      && !(r.take (r.length - (s.length + 1))).contains dot
  | _ => false

def specMatchDns (p r : Bytes) : Bool :=
  asciiLower p == asciiLower r || specWild (asciiLower p) (asciiLower r)

def specMatchOne : GName → RefId → Bool
  | .dns p, .host r => specMatchDns p r
  | .ip a, .addr b => a == b
  | _, _ => false

/-- the certificate's subjectAltName entries name the reference identifier -/
def «matches» (sans : List GName) (r : RefId) : Bool := sans.any (specMatchOne · r)

/-- what a verifier may look at: the subject Common Name is carried along only to state that it is ignored -/
structure CertNames where
  cn : Option Bytes
  sans : List GName

def accepts (c : CertNames) (r : RefId) : Bool := «matches» c.sans r

/-! ### OpenSSL's check under NO_PARTIAL_WILDCARDS | NEVER_CHECK_SUBJECT -/

def isAlnum (b : UInt8) : Bool :=
  (0x30 ≤ b.toNat && b.toNat ≤ 0x39) || (0x41 ≤ b.toNat && b.toNat ≤ 0x5a) || (0x61 ≤ b.toNat && b.toNat ≤ 0x7a)

def hyphen : UInt8 := 0x2d

/-- `valid_star` on the part after the leading `*.`: state = (at label start, last was hyphen, dots seen) -/
def suffixScan : Bytes → Bool → Bool → Nat → Option Nat
  | [], atStart, hy, dots => if atStart || hy then none else some dots
  | c :: rest, atStart, hy, dots =>
    if isAlnum c then suffixScan rest false false dots
    else if c = dot then (if atStart || hy then none else suffixScan rest true false (dots + 1))
    else if c = hyphen then (if atStart then none else suffixScan rest false true dots)
    else none

/-- `valid_star(pattern) != NULL` with X509_CHECK_FLAG_NO_PARTIAL_WILDCARDS: the star is the whole first
    label, the remainder is made of LDH labels and there are at least two dots -/
def validStar (p : Bytes) : Bool :=
  match p with
  | a :: b :: s =>
    a = star && b = dot &&
      (match suffixScan s true false 1 with
       | some dots => 2 ≤ dots
       | none => false)
  | _ => false

/-- `wildcard_match` for a pattern `*` ++ suffix (suffix starts with the dot) -/
def osslWild (p r : Bytes) : Bool :=
  let suffix := p.drop 1
  let w := r.take (r.length - suffix.length)
  suffix.length ≤ r.length
    && asciiLower (r.drop (r.length - suffix.length)) == asciiLower suffix
    && !w.isEmpty
    && (w == [star] || w.all (fun c => isAlnum c || c = hyphen))

/-- `equal_wildcard` (`do_check_string` skips empty entries).  References that start with a dot (OpenSSL's
    sub-domain mode) cannot occur: the idna codec refuses an empty label, so `startServer` never builds one. -/
def osslMatchDns (p r : Bytes) : Bool :=
  if validStar p then osslWild p r
  else !p.isEmpty && asciiLower p == asciiLower r

def osslMatchOne : GName → RefId → Bool
  | .dns p, .host r => osslMatchDns p r
  | .ip a, .addr b => a == b
  | _, _ => false

def osslMatches (sans : List GName) (r : RefId) : Bool := sans.any (osslMatchOne · r)

/-! ### `TlsConfig.tls_start_server` -/

structure Cfg where
  insecure : Bool             -- ctx.options.ssl_insecure
  serverSni : Option Bytes    -- server.sni as it is when the hook runs (None = not set)
  clientSni : Option Bytes    -- client.sni
  address : Bytes             -- server.address[0]
  deriving Repr

structure Plan where
  verifyPeer : Bool           -- SSL_VERIFY_PEER (else SSL_VERIFY_NONE)
  sniExt : Option Bytes       -- set_tlsext_host_name argument
  ref : Option RefId          -- the host/ip the verify parameter is given
  hostflags : Nat
  deriving DecidableEq, Repr

inductive StartRes where
  | plan (p : Plan)
  | noSni                     -- ValueError("Cannot validate certificate hostname without SNI")
  | badName                   -- the idna codec or OpenSSL rejects the name (exception out of the hook; no connection object is published)
  deriving DecidableEq, Repr

/-- `server.sni = client.sni or server.address[0]` unless already set -/
def effSni (c : Cfg) : Bytes :=
  match c.serverSni with
  | some s => s
  | none =>
    match c.clientSni with
    | some s => if s.isEmpty then c.address else s
    | none => c.address

/-- `classify name`: `some (.ip text)` for an IP literal, `some (.dns alabel)` after IDNA, `none` if the codec raises or
    OpenSSL refuses the A-label as host parameter (`X509_VERIFY_PARAM_set1_host` ≠ 1 → `_openssl_assert` raises; OpenSSL ≥ 4
    refuses e.g. a trailing dot or a `*` label) -/
def startServer (classify : Bytes → Option GName) (hostflags : Nat) (c : Cfg) : StartRes :=
  let sni := effSni c
  if sni.isEmpty then
    if c.insecure then .plan ⟨false, none, none, 0⟩ else .noSni
  else
    match classify sni with
    | some (.ip a) => .plan ⟨!c.insecure, none, some (.addr a), hostflags⟩
    | some (.dns h) => .plan ⟨!c.insecure, some h, some (.host h), hostflags⟩
    | _ => .badName

/-- outcome of the handshake at the server TLS layer (OpenSSL: verify callback result → fatal alert or not) -/
def handshakeOk (p : Plan) (chainOk : Bool) (sans : List GName) : Bool :=
  if p.verifyPeer then
    chainOk && (match p.ref with | some r => osslMatches sans r | none => true)
  else true

/-- `TlsConfig.quic_start_server` + `QuicLayer.start_tls` (the QUIC / HTTP-3 upstream path): the same effective server name;
    it is handed to aioquic as `server_name` unchanged (also sent as SNI, IP literal or not), and aioquic verifies the
    certificate against it as an IP address if it is a literal, as a host name otherwise — there is no branch without a
    reference identifier while `verify_mode` is CERT_REQUIRED. -/
def startServerQuic (classify : Bytes → Option GName) (c : Cfg) : StartRes :=
  let sni := effSni c
  match classify sni with
  | some (.ip a) => .plan ⟨!c.insecure, some sni, some (.addr a), 0⟩
  | some (.dns h) => .plan ⟨!c.insecure, some sni, some (.host h), 0⟩
  | _ => .plan ⟨!c.insecure, some sni, some (.host sni), 0⟩

inductive Transport where
  | tcp | quic
  deriving DecidableEq, Repr

def startServerT (tr : Transport) (classify : Bytes → Option GName) (hostflags : Nat) (c : Cfg) : StartRes :=
  match tr with
  | .tcp => startServer classify hostflags c
  | .quic => startServerQuic classify c

inductive Outcome where
  | established | failed | hookRaised
  deriving DecidableEq, Repr

def outcome (classify : Bytes → Option GName) (hostflags : Nat) (c : Cfg) (chainOk : Bool) (sans : List GName) : Outcome :=
  match startServer classify hostflags c with
  | .plan p => if handshakeOk p chainOk sans then .established else .failed
  | _ => .hookRaised

def outcomeT (tr : Transport) (classify : Bytes → Option GName) (hostflags : Nat) (c : Cfg) (chainOk : Bool) (sans : List GName) : Outcome :=
  match startServerT tr classify hostflags c with
  | .plan p => if handshakeOk p chainOk sans then .established else .failed
  | _ => .hookRaised

end MitmVerif.C15
