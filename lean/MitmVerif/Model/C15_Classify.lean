/-
  C15/C16 — `_ip_or_dns_name` (mitmproxy/addons/tlsconfig.py) and the name classification of `tls_start_server`, transcribed for
  ASCII input instead of being a parameter:

      try: ip = ipaddress.ip_address(val)            -- C22.parseIp (CPython 3.12 transcription)
      except ValueError: DNSName(val.encode("idna").decode())   -- the codec's ASCII fast path (encodings/idna.py)
      else: IPAddress(ip)

  An IP name is represented by its version byte followed by the packed address (what ends up in the certificate / what
  X509_VERIFY_PARAM_set1_ip gets; a scope id is not part of it).  Non-ASCII input (the nameprep / punycode slow path of the codec)
  stays a parameter `slow`.
-/
import MitmVerif.Model.C15
import MitmVerif.Model.C22
namespace MitmVerif.C15

/-- big-endian bytes of `n`, `k` of them -/
def beBytes : Nat → Nat → Bytes
  | 0, _ => []
  | k + 1, n => beBytes k (n / 256) ++ [UInt8.ofNat (n % 256)]

/-- the idna codec's ASCII fast path: every label but the last has 0 < len < 64, the last has len < 64 (empty input is fine) -/
def idnaLabelsOk : List Bytes → Bool
  | [] => true
  | [last] => last.length < 64
  | l :: rest => (0 < l.length && l.length < 64) && idnaLabelsOk rest

def idnaAsciiOk (s : Bytes) : Bool := s.isEmpty || idnaLabelsOk (C22.splitOn 0x2e s)

def isAscii (s : Bytes) : Bool := s.all (fun b => b.toNat < 128)

/-- `_ip_or_dns_name` on ASCII text; `none` = ValueError / UnicodeError -/
def classifyAscii (s : Bytes) : Option GName :=
  match C22.parseIp s with
  | some (.v4 n) => some (.ip (4 :: beBytes 4 n))
  | some (.v6 n _) => some (.ip (6 :: beBytes 16 n))
  | none => if idnaAsciiOk s then some (.dns s) else none

/-- `_ip_or_dns_name`: transcribed on ASCII input, the codec's slow path as a parameter otherwise -/
def classifyT (slow : Bytes → Option GName) (s : Bytes) : Option GName :=
  if isAscii s then classifyAscii s else slow s

/-- the classification `tls_start_server` performs: additionally OpenSSL has to accept a host name as verification host -/
def classifyServer (hostOk : Bytes → Bool) (slow : Bytes → Option GName) (s : Bytes) : Option GName :=
  match classifyT slow s with
  | some (.dns h) => if hostOk h then some (.dns h) else none
  | r => r

end MitmVerif.C15
