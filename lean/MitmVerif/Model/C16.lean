/-
  C16 — generated leaf certificates are valid for the identity the client asked for.

  Model of
  * `TlsConfig.get_cert` (mitmproxy/addons/tlsconfig.py): which names go into the certificate, in which
    order, de-duplicated (`dict.fromkeys`), Common Name = text of the first name, organization and CRL
    distribution point from the upstream certificate;
  * `dummy_cert` (mitmproxy/certs.py): the field plan — subject (CN only if 0 < len < 64, then O), SAN list and
    its criticality (critical iff the subject is empty), EKU, validity window (offsets regenerated into `Gen/C16.lean`), AKI source, CRLDP;
  * `CertStore.get_cert` only as far as "no custom certificate registered → `dummy_cert(commonname, sans,
    organization, crl_url)` with the default CA" (the store itself is C17's subject).

  Parameters (library behaviour, not modelled): `classify` = `_ip_or_dns_name` (ipaddress + the idna codec;
  `none` = the codec raises), the URL surgery on the CRL distribution point (`urlsplit`/`urlunsplit`; the harness
  hands over the rewritten URL), ASN.1 encoding and signing (`cryptography`).
  Names use `C15.GName`; `gText` is Python's `str(name.value)`.
-/
import MitmVerif.Model.C15
import MitmVerif.Gen.C16
namespace MitmVerif.C16
open MitmVerif.C15

/-- `upstream_cert` as `get_cert` reads it -/
structure Upstream where
  cn : Option Bytes          -- Cert.cn (UTF-8), none if the subject has no CN
  sans : List GName          -- Cert.altnames
  org : Option Bytes         -- Cert.organization
  crl : Option Bytes         -- rewritten CRL URL, none if no URI distribution point or urlsplit raised
  deriving Repr

structure Req where
  up : Option Upstream       -- some iff options.upstream_cert and server.certificate_list is non-empty
  sni : Option Bytes         -- client.sni
  localAddr : Bytes          -- client.sockname[0]
  addr : Option Bytes        -- server.address[0] if server.address
  deriving Repr

def gText : GName → Bytes
  | .dns v => v
  | .ip v => v
  | .other _ v => v

/-- `list(dict.fromkeys(l))`: first occurrences, order kept -/
def dedup : List GName → List GName
  | [] => []
  | x :: xs => x :: (dedup xs).filter (fun y => y != x)

def truthy (o : Option Bytes) : Option Bytes :=
  match o with
  | some b => if b.isEmpty then none else some b
  | none => none

/-- names contributed by the upstream certificate (a CN the idna codec rejects is skipped) -/
def upNames (classify : Bytes → Option GName) (u : Upstream) : List GName :=
  (match truthy u.cn with
   | some c => (match classify c with | some g => [g] | none => [])
   | none => []) ++ u.sans

/-- the string whose identity the client asked for: the SNI, else our local address -/
def requested (r : Req) : Bytes :=
  match truthy r.sni with
  | some s => s
  | none => r.localAddr

structure Names where
  cn : Option Bytes
  sans : List GName
  org : Option Bytes
  crl : Option Bytes
  deriving DecidableEq, Repr

/-- names taken from the upstream certificate, if it is used at all -/
def upList (classify : Bytes → Option GName) (r : Req) : List GName :=
  match r.up with
  | some u => upNames classify u
  | none => []

/-- `if conn_context.server.address: altnames.append(_ip_or_dns_name(address[0]))`; `none` = the codec raises -/
def addrNames (classify : Bytes → Option GName) (r : Req) : Option (List GName) :=
  match r.addr with
  | some a => (match classify a with | some x => some [x] | none => none)
  | none => some []

def upOrg (r : Req) : Option Bytes := match r.up with | some u => truthy u.org | none => none
def upCrl (r : Req) : Option Bytes := match r.up with | some u => truthy u.crl | none => none

def mkNames (alt : List GName) (r : Req) : Names :=
  { cn := alt.head?.map gText, sans := alt, org := upOrg r, crl := upCrl r }

/-- `TlsConfig.get_cert` up to the call of `certstore.get_cert`; `none` = an exception leaves the hook -/
def getNames (classify : Bytes → Option GName) (r : Req) : Option Names :=
  match classify (requested r), addrNames classify r with
  | some g, some al => some (mkNames (dedup (upList classify r ++ g :: al)) r)
  | _, _ => none

/-- Python `len(str)` of UTF-8 text: code points = bytes that are not continuation bytes -/
def cpLen (b : Bytes) : Nat := (b.filter (fun c => !(0x80 ≤ c.toNat && c.toNat < 0xc0))).length

/-- the certificate `dummy_cert` builds, relative to the issue time `now` (seconds) -/
structure Plan where
  subjectCn : Option Bytes
  subjectOrg : Option Bytes
  sans : List GName
  sanCritical : Bool
  ekuServerAuth : Bool        -- ExtendedKeyUsage = [serverAuth], not critical
  notBefore : Int             -- now + CERT_VALIDITY_OFFSET
  notAfter : Int              -- now + CERT_VALIDITY_OFFSET + CERT_EXPIRY
  akiFromSki : Bool           -- AKI copied from the CA's SKI (else derived from the CA key)
  crl : Option Bytes
  deriving DecidableEq, Repr

def dummyCert (offset expiry : Int) (caHasSki : Bool) (now : Int) (n : Names) : Plan :=
  let cnValid : Bool := match n.cn with
    | some c => Gen.C16.cnLenLowerExclusive < cpLen c && cpLen c < Gen.C16.cnLenUpperExclusive
    | none => false
  { subjectCn := if cnValid then n.cn else none
    subjectOrg := n.org
    sans := n.sans
    sanCritical := !cnValid && n.org.isNone      -- `critical=not subject`: the subject list is empty
    ekuServerAuth := true
    notBefore := now + offset
    notAfter := now + offset + expiry
    akiFromSki := caHasSki
    crl := truthy n.crl }

def leaf (classify : Bytes → Option GName) (offset expiry : Int) (caHasSki : Bool) (now : Int) (r : Req) : Option Plan :=
  (getNames classify r).map (dummyCert offset expiry caHasSki now)

/-- every name a certificate for `r` may carry -/
def sources (classify : Bytes → Option GName) (r : Req) : List GName :=
  upList classify r
    ++ (classify (requested r)).toList
    ++ (match r.addr with | some a => (classify a).toList | none => [])

/-- the reference identifier a client derives from the name it asked for -/
def refOf : GName → Option RefId
  | .dns v => some (.host v)
  | .ip v => some (.addr v)
  | .other _ _ => none

end MitmVerif.C16
