/-
  C18 — ALPN negotiation with the client is consistent with offers and upstream.

  Hand model of `mitmproxy.addons.tlsconfig.alpn_select_callback` (generic in the protocol type: it only
  tests equality/membership), of the `client_alpn` override in `TlsConfig.tls_start_client` (secure web
  proxy → `http/1.1`), and of the upstream offers computed by `TlsConfig.tls_start_server`.
  The table `Gen.C18.rows` holds the results of CALLING the real callback on the whole class domain;
  `tableEntries` decodes it.
-/
import MitmVerif.Basic.Bytes
import MitmVerif.Gen.C18
namespace MitmVerif.C18
open MitmVerif

/-- `server.alpn`: `None` (no upstream connection yet) / `b""` (upstream negotiated nothing) / a protocol -/
inductive Upstream (α : Type) where
  | unknown
  | refused
  | proto (a : α)
deriving DecidableEq, Repr

/-- `for alpn in options: if alpn in http_alpns: return alpn` -/
def firstIn {α : Type} [DecidableEq α] (alp : List α) : List α → Option α
  | [] => none
  | x :: xs => if x ∈ alp then some x else firstIn alp xs

/-- `alpn_select_callback`; `none` = `SSL.NO_OVERLAPPING_PROTOCOLS` -/
def alpnSelectG {α : Type} [DecidableEq α] (http1 httpAll : List α)
    (c : Option α) (s : Upstream α) (h2on : Bool) (offers : List α) : Option α :=
  match c with
  | some x => if x ∈ offers then some x else none
  | none =>
    match s with
    | .proto y => if y ∈ offers then some y else firstIn (if h2on then httpAll else http1) offers
    | .refused => none
    | .unknown => firstIn (if h2on then httpAll else http1) offers

/-! ### byte-string instance (what the driver runs) -/

def upstreamOfBytes : Option Bytes → Upstream Bytes
  | none => .unknown
  | some [] => .refused
  | some (b :: bs) => .proto (b :: bs)

def alpnSelect (c s : Option Bytes) (h2on : Bool) (offers : List Bytes) : Option Bytes :=
  alpnSelectG Gen.C18.http1B Gen.C18.httpAllB c (upstreamOfBytes s) h2on offers

def h2B : Bytes := [0x68, 0x32]                                       -- b"h2"
def http11B : Bytes := [0x68, 0x74, 0x74, 0x70, 0x2f, 0x31, 0x2e, 0x31]   -- b"http/1.1"

/-- `tls_start_client`: on a secure web proxy's outer connection the override is `http/1.1`, else `client.alpn` -/
def clientOverride (swp : Bool) (clientAlpn : Option Bytes) : Option Bytes :=
  if swp then some http11B else clientAlpn

/-- `tls_start_server`: what is offered upstream -/
def serverOffers (preset clientOffers : List Bytes) (h2on : Bool) : List Bytes :=
  if preset ≠ [] then preset
  else if clientOffers ≠ [] then (if h2on then clientOffers else clientOffers.filter (· ≠ h2B))
  else []

/-- the negotiated protocol of a client handshake as mitmproxy configures it -/
def negotiate (swp : Bool) (clientAlpn s : Option Bytes) (h2on : Bool) (offers : List Bytes) : Option Bytes :=
  alpnSelect (clientOverride swp clientAlpn) s h2on offers

/-! ### the whole chain: upstream handshake first, nested client TLS -/

/-- what a TLS server with ALPN preference list `prefs` (`none`: no ALPN configured) puts into its ServerHello for
    the offered list: the first of ITS protocols that was offered (OpenSSL `SSL_select_next_proto` as used by
    CPython's ssl and most servers), nothing if there is no overlap -/
def peerSelect (prefs : Option (List Bytes)) (offered : List Bytes) : Option Bytes :=
  match prefs with
  | none => none
  | some ps => ps.find? fun p => decide (p ∈ offered)

/-- `TLSLayer.receive_handshake_data`: `conn.alpn = get_alpn_proto_negotiated()` — `b""` when nothing was negotiated -/
def recordedAlpn (negotiated : Option Bytes) : Option Bytes := some (negotiated.getD [])

/-- server-first (`connection_strategy=eager`): mitmproxy offers `serverOffers [] offers` upstream, records what the
    upstream selected, then answers the client.  Result: (upstream's protocol, client's protocol). -/
def eagerChain (prefs : Option (List Bytes)) (h2on : Bool) (offers : List Bytes) : Option Bytes × Option Bytes :=
  let up := peerSelect prefs (serverOffers [] offers h2on)
  (up, negotiate false none (recordedAlpn up) h2on offers)

/-- `ClientTLSLayer.__init__`: a client that already has a TLS session (nested TLS) gets its recorded ALPN unset -/
def resetOnNested (clientHasTls : Bool) (alpn : Option Bytes) : Option Bytes := if clientHasTls then none else alpn

/-- secure web proxy session: outer handshake (override http/1.1), its result recorded on the client object, CONNECT,
    then the inner handshake on the SAME client object.  Result: (outer, upstream, inner). -/
def nestedSession (h2on : Bool) (outerOffers innerOffers : List Bytes) (prefs : Option (List Bytes)) (eager : Bool) :
    Option Bytes × Option Bytes × Option Bytes :=
  let outer := negotiate true none none h2on outerOffers
  let pin := resetOnNested true (recordedAlpn outer)
  if eager then
    let up := peerSelect prefs (serverOffers [] innerOffers h2on)
    (outer, up, negotiate false pin (recordedAlpn up) h2on innerOffers)
  else (outer, none, negotiate false pin none h2on innerOffers)

/-! ### which client handshake is a secure web proxy's outer one (`tls_start_client`'s test on `context.layers`) -/

inductive LayerKind where
  | httpProxy | httpUpstreamProxy | otherMode | clientTls | serverTls | http | other
deriving DecidableEq, Repr

/-- `len(layers) >= 2 and isinstance(layers[0], modes.HttpProxy) and not any(isinstance(x, ClientTLSLayer) for x in layers[2:])` -/
def isSwpOuter (layers : List LayerKind) : Bool :=
  decide (2 ≤ layers.length) && (layers.head? == some .httpProxy) && !((layers.drop 2).any (· == .clientTls))

/-- `AppData.client_alpn` as `tls_start_client` computes it from the layer stack and `client.alpn` -/
def startClientPin (layers : List LayerKind) (clientAlpn : Option Bytes) : Option Bytes :=
  clientOverride (isSwpOuter layers) clientAlpn

/-- `NextLayer._setup_explicit_http_proxy`: the stack below an explicit HTTP proxy mode, built before any handshake -/
def explicitProxyStack (mode : LayerKind) (startsLikeTls : Bool) : List LayerKind :=
  [mode] ++ (if startsLikeTls then [.clientTls] else []) ++ [.http]

/-- the client handshake mitmproxy performs for the TLS layer that is the LAST `clientTls` of `layers` -/
def negotiateL (layers : List LayerKind) (clientAlpn s : Option Bytes) (h2on : Bool) (offers : List Bytes) : Option Bytes :=
  alpnSelect (startClientPin layers clientAlpn) s h2on offers

/-! ### class instance and the regenerated table -/

abbrev Cfg := Option Nat × Upstream Nat × Bool

def alpnSelectC (cfg : Cfg) (offers : List Nat) : Option Nat :=
  alpnSelectG Gen.C18.http1C Gen.C18.httpAllC cfg.1 cfg.2.1 cfg.2.2 offers

def classIdx : List Nat := List.range Gen.C18.nClasses

/-- offer list of a base-8 code (digit = class + 1, first offer lowest); fuel = number of digits read at most -/
def decOff : Nat → Nat → List Nat
  | 0, _ => []
  | f + 1, n => if n == 0 then [] else (if n % 8 == 0 then 99 else n % 8 - 1) :: decOff f (n / 8)   -- a 0 digit inside a code is no class

/-- every offer list of the tabulated domain (length ≤ maxLen, no repetition), in table order -/
def allOffers : List (List Nat) := Gen.C18.offerCodes.map (decOff (Gen.C18.maxLen + 1))

/-- tabulated configurations: override none / secure web proxy (http/1.1), upstream, http2 -/
def configsC : List Cfg :=
  [none, some Gen.C18.swpClass].flatMap fun c =>
    ([Upstream.unknown, Upstream.refused] ++ classIdx.map Upstream.proto).flatMap fun s =>
      [false, true].map fun h => (c, s, h)

/-- result digit: 0 none, k+1 class k, anything else is not a class (99) -/
def decodeR (d : Nat) : Option Nat := if d = 0 then none else if d ≤ Gen.C18.nClasses then some (d - 1) else some 99

def decodeRow (cfg : Cfg) : List (List Nat) → Nat → List (Cfg × List Nat × Option Nat)
  | [], _ => []
  | o :: os, r => (cfg, o, decodeR (r % 9)) :: decodeRow cfg os (r / 9)

/-- the tabulated behaviour of the real callback: (configuration, offers, selected) -/
def tableEntries : List (Cfg × List Nat × Option Nat) :=
  (configsC.zip Gen.C18.rows).flatMap fun p => decodeRow p.1 allOffers p.2

/-- the callback looks at the offers only through: is the needle offered, and which is the first HTTP
    protocol.  `reduce` keeps just those (at most two, distinct) elements. -/
def needle (cfg : Cfg) : Option Nat :=
  match cfg.1 with
  | some x => some x
  | none => match cfg.2.1 with
    | .proto y => some y
    | _ => none

def httpSet (cfg : Cfg) : List Nat := if cfg.2.2 then Gen.C18.httpAllC else Gen.C18.http1C

/-- `[needle]` if the needle is offered -/
def needleList (cfg : Cfg) (offers : List Nat) : List Nat :=
  match needle cfg with
  | some x => if x ∈ offers then [x] else []
  | none => []

/-- `[a]` for the first HTTP protocol `a` among the offers -/
def firstList (cfg : Cfg) (offers : List Nat) : List Nat :=
  match firstIn (httpSet cfg) offers with
  | some a => [a]
  | none => []

def reduce (cfg : Cfg) (offers : List Nat) : List Nat :=
  needleList cfg offers ++ (firstList cfg offers).filter fun a => !(needleList cfg offers).contains a

/-! ### what is checked for every table entry (one kernel pass) -/

/-- selected is one of the offers, or none -/
def pSel (_ : Cfg) (o : List Nat) (r : Option Nat) : Bool := r.all fun x => o.contains x
/-- no override, upstream known and offered by this client ⇒ exactly the upstream protocol -/
def pMirror (cfg : Cfg) (o : List Nat) (r : Option Nat) : Bool :=
  match cfg.1, cfg.2.1 with
  | none, .proto y => !o.contains y || r == some y
  | none, .refused => r == none
  | _, _ => true
/-- secure web proxy override ⇒ http/1.1 or none -/
def pSwp (cfg : Cfg) (_ : List Nat) (r : Option Nat) : Bool :=
  cfg.1 != some Gen.C18.swpClass || (r == none || r == some Gen.C18.swpClass)
/-- http2 off and the upstream protocol is not h2 (class 1) ⇒ h2 is not selected -/
def pH2off (cfg : Cfg) (_ : List Nat) (r : Option Nat) : Bool :=
  cfg.2.2 || cfg.2.1 == .proto 1 || r != some 1
/-- the table agrees with the hand model -/
def pModel (cfg : Cfg) (o : List Nat) (r : Option Nat) : Bool := r == alpnSelectC cfg o

def entryOk (cfg : Cfg) (o : List Nat) (r : Option Nat) : Bool :=
  pModel cfg o r && pSel cfg o r && pMirror cfg o r && pSwp cfg o r && pH2off cfg o r

/-- one pass over a row; the `match` forces the row number to a literal at every step -/
def rowGo (P : List Nat → Option Nat → Bool) : List Nat → Nat → Bool
  | [], _ => true
  | c :: cs, r =>
    match r with
    | 0 => P (decOff (Gen.C18.maxLen + 1) c) none && rowGo P cs 0
    | k + 1 => P (decOff (Gen.C18.maxLen + 1) c) (decodeR ((k + 1) % 9)) && rowGo P cs ((k + 1) / 9)

def rowsOk (ps : List (Cfg × Nat)) : Bool := ps.all fun p => rowGo (entryOk p.1) Gen.C18.offerCodes p.2

end MitmVerif.C18
