/-
  C18 — the QUIC client side (`TlsConfig.quic_start_client`).  There is no select callback: mitmproxy hands aioquic a
  list of protocols (`settings.alpn_protocols`) and aioquic's `tls.negotiate(supported, offered)` picks the first of
  THAT list which the client offered; no common protocol = the handshake fails (no protocol for the client).
-/
import MitmVerif.Model.C18
namespace MitmVerif.C18
open MitmVerif

/-- Python truthiness of an optional byte string: `None` and `b""` are falsy -/
def truthy (a : Option Bytes) : Option Bytes :=
  match a with
  | some (b :: bs) => some (b :: bs)
  | _ => none

/-- `[alpn for alpn in (client.alpn, server.alpn) if alpn] or client.alpn_offers` -/
def quicClientAlpns (clientAlpn serverAlpn : Option Bytes) (offers : List Bytes) : List Bytes :=
  let pins := [clientAlpn, serverAlpn].filterMap truthy
  if pins = [] then offers else pins

/-- aioquic `negotiate(supported, offered)`: first supported protocol that was offered -/
def quicNegotiate (clientAlpn serverAlpn : Option Bytes) (offers : List Bytes) : Option Bytes :=
  peerSelect (some (quicClientAlpns clientAlpn serverAlpn offers)) offers

end MitmVerif.C18
