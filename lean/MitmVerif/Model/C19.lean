/-
  C19 — ignored hosts are passed through untouched and allow/ignore rules are honoured.

  Model of
    * mitmproxy/addons/next_layer.py :
        NextLayer._get_host_header      (`expected`, `scan`, `hostHeader`)   — the two regexes transcribed as scanners
        NextLayer._get_client_hello     (`clientHello`)                      — ClientHello parsing = Model/C13.lean
        NextLayer._ignore_connection    (`candidates`, `ignoreConnection`)
        NextLayer._next_layer, _setup_reverse_proxy, _setup_explicit_http_proxy, _is_destination_in_hosts,
        _starts_like_quic               (`nextLayer`, `reverseStack`, `explicitStack`, `startsLikeQuic`)
    * mitmproxy/proxy/layer.py   : NextLayer._handle_event / _ask (buffer events, ask on data, replay)   (`Sess`, `step`)
    * mitmproxy/proxy/layers/tcp.py, udp.py : TCPLayer / UDPLayer start + relay_messages                 (`relayEv`)
    * mitmproxy/proxy/layers/tls.py : ClientTLSLayer.receive_handshake_data, `ignore_connection` branch  (`tlsStep`)

  Library behaviour is a parameter (`Env`): Python `re.search(pattern, host, IGNORECASE)` (`rx`),
  `check.is_valid_host` (`validHost`), `quic_parse_client_hello_from_datagrams` (`quic`).
  Host names are byte strings (the UTF-8/surrogateescape image of the Python `str`).
  `NeedsMoreData` is `Res.needMore`.
-/
import MitmVerif.Basic.Bytes
import MitmVerif.Model.C13
import MitmVerif.Gen.C19
namespace MitmVerif.C19

inductive Res (α : Type) where
  | needMore
  | ok (a : α)
  deriving Repr, DecidableEq

def CR : UInt8 := 0x0d
def colon : UInt8 := 0x3a
def LF : UInt8 := 0x0a

def isAlpha (b : UInt8) : Bool := (65 ≤ b.toNat && b.toNat ≤ 90) || (97 ≤ b.toNat && b.toNat ≤ 122)
def isDigit (b : UInt8) : Bool := 48 ≤ b.toNat && b.toNat ≤ 57
/-- `[ \t]` — OWS of RFC 9110 §5.6.3 -/
def isOWS (b : UInt8) : Bool := b = 0x20 || b = 0x09

/-- does `d` start with the lower-case literal `lit`, compared ASCII-case-insensitively (re.IGNORECASE on bytes) -/
def startsCI : Bytes → Bytes → Bool
  | [], _ => true
  | _ :: _, [] => false
  | p :: ps, d :: ds => asciiLowerB d = p && startsCI ps ds

def httpLit : Bytes := [0x68, 0x74, 0x74, 0x70, 0x2f]      -- "http/"
def hostLit : Bytes := [0x68, 0x6f, 0x73, 0x74, 0x3a]      -- "host:"

/-! ## `_get_host_header` -/

/-- `HTTP/` found at the current position or later, with only non-LF bytes skipped (`.` excludes LF) -/
def findHttp : Bytes → Bool
  | [] => false
  | b :: tl => if startsCI httpLit (b :: tl) then true else if b = LF then false else findHttp tl

/-- `re.match(rb"[A-Z]{3,}.+HTTP/", data, re.IGNORECASE)` -/
def expected : Bytes → Bool
  | a :: b :: c :: x :: tl => isAlpha a && isAlpha b && isAlpha c && x != LF && findHttp tl
  | _ => false

/-- bytes before the first LF; `none` when there is no LF -/
def lineUpToLF : Bytes → Option Bytes
  | [] => none
  | b :: tl => if b = LF then some [] else (lineUpToLF tl).map (b :: ·)

def stripL (d : Bytes) : Bytes := d.dropWhile isOWS
def stripR (d : Bytes) : Bytes := (d.reverse.dropWhile isOWS).reverse

/-- `\r?` in front of the line's LF: a trailing CR belongs to the terminator -/
def chopCR (l : Bytes) : Bytes :=
  match l.getLast? with
  | some c => if c = CR then l.dropLast else l
  | none => l

/-- the optional group `Host:[ \t]*(.*?)[ \t]*` followed by `\r?\n`, tried right after a line terminator:
    greedy OWS, then the shortest value such that only OWS and the terminator follow; `.` excludes LF, so the
    terminator is the one at the first LF (with the CR in front of it, if any). `some v` = the group matched with
    `group(1) = v`. -/
def hostGroup (rest : Bytes) : Option Bytes :=
  if startsCI hostLit rest then
    match lineUpToLF (stripL (rest.drop 5)) with
    | none => none
    | some l => some (stripR (chopCR l))
  else none

/-- `\r?\n` at the start: the blank line -/
def startsEOL : Bytes → Bool
  | a :: tl => a = LF || (a = CR && match tl with | b :: _ => b = LF | [] => false)
  | [] => false

/-- `re.search(rb"\r?\n(?:Host:[ \t]*(.*?)[ \t]*)?\r?\n", data, re.IGNORECASE)` with its leftmost-match semantics:
    behind every LF (a CR in front of it is absorbed by `\r?`) try the Host group, then the empty alternative (a blank
    line), else move on.
    `ok (some v)` = `m.group(1) = v` non-empty; `ok none` = matched with empty/absent group; `needMore` = no match. -/
def scan : Bytes → Res (Option Bytes)
  | [] => .needMore
  | a :: tl =>
    if a = LF then
      match hostGroup tl with
      | some v => .ok (if v.isEmpty then none else some v)
      | none => if startsEOL tl then .ok none else scan tl
    else scan tl

/-- `_get_host_header(context, data_client, data_server)` -/
def hostHeader (tcp : Bool) (dc ds : Bytes) : Res (Option Bytes) :=
  if !tcp || !ds.isEmpty then .ok none
  else if expected dc then scan dc
  else .ok none

/-! ## the specification side of the Host header: RFC 9112 §2.1/§5 field syntax, RFC 9110 §5.6.3 OWS, §7.2 Host -/

/-- `tchar` of RFC 9110 §5.6.2 -/
def isTchar (b : UInt8) : Bool :=
  isAlpha b || isDigit b ||
    [0x21, 0x23, 0x24, 0x25, 0x26, 0x27, 0x2a, 0x2b, 0x2d, 0x2e, 0x5e, 0x5f, 0x60, 0x7c, 0x7e].contains b

/-- one field line `field-name ":" OWS field-value OWS` -/
structure Field where
  name : Bytes
  ows1 : Bytes
  value : Bytes
  ows2 : Bytes
  deriving Repr, DecidableEq

def Field.body (f : Field) : Bytes := f.name ++ colon :: (f.ows1 ++ f.value ++ f.ows2)
def Field.render (f : Field) : Bytes := f.body ++ [CR, LF]

/-- token name; OWS is SP/HTAB only; the value has no CR/LF and neither starts nor ends with OWS (it may be empty) -/
def Field.WF (f : Field) : Prop :=
  f.name ≠ [] ∧ (∀ b ∈ f.name, isTchar b = true) ∧ (∀ b ∈ f.ows1, isOWS b = true) ∧ (∀ b ∈ f.ows2, isOWS b = true) ∧
  (∀ b ∈ f.value, b ≠ CR ∧ b ≠ LF) ∧ (∀ b, f.value.head? = some b → isOWS b = false) ∧
  (∀ b, f.value.getLast? = some b → isOWS b = false)

/-- field names are case-insensitive -/
def isHostName (n : Bytes) : Bool := startsCI [0x68, 0x6f, 0x73, 0x74] n && n.length == 4

/-- the Host header "as HTTP defines it": the first Host field; an empty value names no host -/
def specHost : List Field → Option Bytes
  | [] => none
  | f :: fs => if isHostName f.name then (if f.value.isEmpty then none else some f.value) else specHost fs

/-- `request-line CRLF *( field-line CRLF ) CRLF` -/
def renderHead (reqLine : Bytes) (fs : List Field) : Bytes :=
  reqLine ++ CR :: LF :: (fs.flatMap Field.render ++ [CR, LF])

/-- `method SP request-target SP HTTP/1.1` (RFC 9112 §3) -/
def httpVer : Bytes := [0x48, 0x54, 0x54, 0x50, 0x2f, 0x31, 0x2e, 0x31]
def requestLine (method target : Bytes) : Bytes := method ++ 0x20 :: (target ++ 0x20 :: httpVer)

/-- line terminator: CRLF, or the bare LF a recipient MAY accept (RFC 9112 §2.2; mitmproxy's HTTP/1 reader does) -/
def eol (lf : Bool) : Bytes := if lf then [LF] else [CR, LF]
def renderHeadEol (lf : Bool) (reqLine : Bytes) (fs : List Field) : Bytes :=
  reqLine ++ eol lf ++ (fs.flatMap (fun f => f.body ++ eol lf) ++ eol lf)

/-- every line with its own terminator (`true` = bare LF): request line, field lines, blank line -/
def renderHeadMixed (reqLine : Bytes) (rlLf : Bool) (fs : List (Field × Bool)) (endLf : Bool) : Bytes :=
  reqLine ++ (eol rlLf ++ (fs.flatMap (fun p => p.1.body ++ eol p.2) ++ eol endLf))

/-! ## `_starts_like_quic`, `_get_client_hello` -/

def be32 (a b c d : UInt8) : Nat := a.toNat * 16777216 + b.toNat * 65536 + c.toNat * 256 + d.toNat

/-- `KNOWN_QUIC_VERSIONS`, `TYPICAL_QUIC_PORTS`: regenerated from next_layer.py on every run (`Gen.C19`) -/
def knownQuicVersions : List Nat := Gen.C19.knownQuicVersions
def typicalQuicPorts : List Nat := Gen.C19.typicalQuicPorts

/-- `version & 0x0F0F0F0F == 0x0A0A0A0A` -/
def reservedVersion (a b c d : UInt8) : Bool :=
  a.toNat % 16 = 10 && b.toNat % 16 = 10 && c.toNat % 16 = 10 && d.toNat % 16 = 10

def startsLikeQuic (d : Bytes) (port : Option Nat) : Bool :=
  if d.length < 18 then false
  else if C13.startsLike true d then false
  else
    let byPort := match port with | some p => typicalQuicPorts.contains p | none => false
    match d with
    | f :: a :: b :: c :: e :: _ =>
      if 128 ≤ f.toNat then
        if knownQuicVersions.contains (be32 a b c e) then true
        else if reservedVersion a b c e then true
        else byPort
      else byPort
    | _ => byPort

structure Env (Pat : Type) where
  /-- `re.search(pattern, host, re.IGNORECASE)` -/
  rx : Pat → Bytes → Bool
  /-- `mitmproxy.net.check.is_valid_host` -/
  validHost : Bytes → Bool
  /-- `quic_parse_client_hello_from_datagrams([data])` reduced to its SNI: incomplete = None, invalid = ValueError -/
  quic : Bytes → C13.Res (Option Bytes)

/-- `client_hello.sni` (falsy values dropped, as the `and client_hello.sni` test does) -/
def sniOf {Pat : Type} (E : Env Pat) (h : C13.Hello) : Option Bytes :=
  match h.sni E.validHost with
  | some s => if s.isEmpty then none else some s
  | none => none

/-- `_get_client_hello(...)` followed by `.sni`; `ok none` = no (usable) ClientHello -/
def clientHello {Pat : Type} (E : Env Pat) (tcp : Bool) (port : Option Nat) (dc : Bytes) : Res (Option Bytes) :=
  if tcp then
    if C13.startsLike false dc then
      match C13.parse false dc with
      | .incomplete => .needMore
      | .invalid => .ok none
      | .ok h => .ok (sniOf E h)
    else .ok none
  else
    let dtlsPart : Res (Option Bytes) :=
      if C13.startsLike true dc then
        match C13.parse true dc with
        | .incomplete => .needMore
        | .invalid => .ok none
        | .ok h => .ok (sniOf E h)
      else .ok none
    if startsLikeQuic dc port then
      match E.quic dc with
      | .incomplete => .needMore
      | .ok s => .ok (match s with | some v => if v.isEmpty then none else some v | none => none)
      | .invalid => dtlsPart
    else dtlsPart

/-! ## `_ignore_connection` -/

abbrev Addr := Bytes × Nat

/-- decimal digits of `n` (what `str(port)` gives) -/
def decimal (n : Nat) : Bytes := (Nat.toDigits 10 n).map (fun ch => UInt8.ofNat ch.toNat)
/-- `f"{host}:{port}"` -/
def hostPort (h : Bytes) (p : Nat) : Bytes := h ++ colon :: decimal p

/-- `re.search(r":\d+$", host_header)` (ASCII digits; the value never contains LF) -/
def hasPort (v : Bytes) : Bool :=
  let r := v.reverse
  let ds := r.takeWhile isDigit
  !ds.isEmpty && (r.drop ds.length).head? = some colon

def withPort (v : Bytes) (p : Nat) : Bytes := if hasPort v then v else hostPort v p

structure Cfg (Pat : Type) where
  tcp : Bool                       -- client.transport_protocol == "tcp" (else "udp")
  ignorePats : List Pat            -- options.ignore_hosts
  allowPats : List Pat             -- options.allow_hosts
  wireguard : Bool                 -- isinstance(client.proxy_mode, WireGuardMode)
  peername : Option Addr           -- server.peername
  address : Option Addr            -- server.address
  clientSni : Option Bytes         -- client.sni

def wgDns : Addr := ([0x31, 0x30, 0x2e, 0x30, 0x2e, 0x30, 0x2e, 0x35, 0x33], 53)     -- ("10.0.0.53", 53)

def optList {α : Type} : Option α → List α
  | some a => [a]
  | none => []

def truthy : Option Bytes → Option Bytes
  | some v => if v.isEmpty then none else some v
  | none => none

/-- the `hostnames` list -/
def candidates {Pat : Type} (E : Env Pat) (c : Cfg Pat) (dc ds : Bytes) : Res (List Bytes) :=
  let l0 := (optList c.peername).map (fun a => hostPort a.1 a.2)
  match c.address with
  | none => .ok l0
  | some (h, p) =>
    match hostHeader c.tcp dc ds with
    | .needMore => .needMore
    | .ok hh =>
      match clientHello E c.tcp (some p) dc with
      | .needMore => .needMore
      | .ok sni =>
        .ok (l0 ++ [hostPort h p] ++ (optList hh).map (fun v => withPort v p)
              ++ (optList sni).map (fun s => hostPort s p)
              ++ (optList (truthy c.clientSni)).map (fun s => hostPort s p))

def anyMatch {Pat : Type} (E : Env Pat) (pats : List Pat) (hs : List Bytes) : Bool :=
  hs.any (fun h => pats.any (fun r => E.rx r h))

def exempt {Pat : Type} (c : Cfg Pat) : Bool := c.wireguard && c.address == some wgDns

/-- the verdict over a given `hostnames` list -/
def verdict {Pat : Type} (E : Env Pat) (c : Cfg Pat) (hs : List Bytes) : Bool :=
  if hs.isEmpty then false
  else if !c.allowPats.isEmpty && !anyMatch E c.allowPats hs then true
  else if !c.ignorePats.isEmpty && anyMatch E c.ignorePats hs then true
  else false

/-- `_ignore_connection(context, data_client, data_server)` -/
def ignoreConnection {Pat : Type} (E : Env Pat) (c : Cfg Pat) (dc ds : Bytes) : Res Bool :=
  if c.ignorePats.isEmpty && c.allowPats.isEmpty then .ok false
  else if exempt c then .ok false
  else
    match candidates E c dc ds with
    | .needMore => .needMore
    | .ok hs => .ok (verdict E c hs)

/-! ## `_next_layer` -/

inductive Scheme | http | https | tcp | tls | udp | dtls | dns | http3 | quic
  deriving Repr, DecidableEq

/-- `context.layers` as far as `stack_match` looks at it -/
inductive Top
  | reverse (s : Scheme)      -- [ReverseProxy]
  | httpProxy                 -- [HttpProxy]
  | upstream                  -- [HttpUpstreamProxy]
  | other                     -- anything else
  deriving Repr, DecidableEq

inductive HMode | regular | transparent | upstream
  deriving Repr, DecidableEq

inductive LK
  | tcp (ignore : Bool) | udp (ignore : Bool)
  | serverTls | clientTls | http (m : HMode) | dns | serverQuic | clientQuic | rawQuic
  deriving Repr, DecidableEq

structure NCfg (Pat : Type) extends Cfg Pat where
  top : Top
  showIgnored : Bool               -- options.show_ignored_hosts
  rawtcp : Bool                    -- options.rawtcp
  tcpHosts : List Pat
  udpHosts : List Pat
  alpnSet : Bool                   -- bool(client.alpn)
  alpnHttp : Bool                  -- client.alpn in HTTP_ALPNS
  quicV1 : Bool                    -- client.tls_version == "QUICv1"

/-- `bool(client.alpn)` and `client.alpn in HTTP_ALPNS` (table regenerated from tls.py) -/
def alpnFlags (alpn : Option Bytes) : Bool × Bool :=
  match alpn with
  | some a => (!a.isEmpty, !a.isEmpty && Gen.C19.httpAlpns.contains a)
  | none => (false, false)

def relayLayer (tcp ignore : Bool) : LK := if tcp then .tcp ignore else .udp ignore

def reverseStack (s : Scheme) (tcp tlsLike dtlsLike : Bool) : List LK :=
  match s with
  | .http => (if tlsLike then [.clientTls] else []) ++ [.http .transparent]
  | .https =>
    if !tcp then [.serverQuic, .clientQuic, .http .transparent]
    else [.serverTls] ++ (if tlsLike then [.clientTls] else []) ++ [.http .transparent]
  | .tcp => (if tlsLike then [.clientTls] else []) ++ [.tcp false]
  | .tls => [.serverTls] ++ (if tlsLike then [.clientTls] else []) ++ [.tcp false]
  | .udp => (if dtlsLike then [.clientTls] else []) ++ [.udp false]
  | .dtls => [.serverTls] ++ (if dtlsLike then [.clientTls] else []) ++ [.udp false]
  | .dns => [.dns]
  | .http3 => [.serverQuic, .clientQuic, .http .transparent]
  | .quic => [.serverQuic, .clientQuic, .rawQuic]

def explicitStack (upstream tcp tlsLike : Bool) : List LK :=
  (if !tcp then [.clientQuic] else if tlsLike then [.clientTls] else [])
    ++ [.http (if upstream then .upstream else .regular)]

/-- `bytes.find`: index of the first occurrence or -1 -/
def findIdx (d : Bytes) (b : UInt8) : Int :=
  match d.findIdx? (· = b) with
  | some i => i
  | none => -1

def sshLit : Bytes := [0x53, 0x53, 0x48]

def probablyNoHttp (dc ds : Bytes) : Bool :=
  dc.length < 3 || !dc.contains 0x20 || decide (findIdx dc 0x20 > findIdx dc LF)
    || !(dc.take 3).all isAlpha || !ds.isEmpty || dc.take 3 == sshLit

/-- `_is_destination_in_hosts` -/
def destInHosts {Pat : Type} (E : Env Pat) (c : Cfg Pat) (pats : List Pat) : Bool :=
  pats.any (fun r =>
    (match c.address with | some (h, _) => E.rx r h | none => false) ||
    (match truthy c.clientSni with | some s => E.rx r s | none => false))

/-- `_next_layer` after the ignore check said "do not ignore" -/
def intercept {Pat : Type} (E : Env Pat) (c : NCfg Pat) (dc ds : Bytes) : List LK :=
  let tlsLike := C13.startsLike false dc
  let dtlsLike := C13.startsLike true dc
  let port := c.address.map (·.2)
  match c.top with
  | .reverse s => reverseStack s c.tcp tlsLike dtlsLike
  | .httpProxy => explicitStack false c.tcp tlsLike
  | .upstream => explicitStack true c.tcp tlsLike
  | .other =>
    if (c.tcp && tlsLike) || (!c.tcp && dtlsLike) then [.serverTls, .clientTls]
    else if !c.tcp && startsLikeQuic dc port then [.serverQuic, .clientQuic]
    else if c.tcp && destInHosts E c.toCfg c.tcpHosts then [.tcp false]
    else if !c.tcp && destInHosts E c.toCfg c.udpHosts then [.udp false]
    else if c.alpnSet && c.alpnHttp then [.http .transparent]
    else if c.alpnSet && c.quicV1 then [.rawQuic]
    else if (match port with | some p => p = 53 || p = 5353 | none => false) then [.dns]
    else if !c.tcp then [.udp false]
    else if c.rawtcp && probablyNoHttp dc ds then [.tcp false]
    else [.http .transparent]

/-- `_next_layer(context, data_client, data_server)`: the layer stack that is instantiated -/
def nextLayer {Pat : Type} (E : Env Pat) (c : NCfg Pat) (dc ds : Bytes) : Res (List LK) :=
  match ignoreConnection E c.toCfg dc ds with
  | .needMore => .needMore
  | .ok true => .ok [relayLayer c.tcp (!c.showIgnored)]
  | .ok false => .ok (intercept E c dc ds)

/-- a layer that terminates TLS/QUIC or parses an application protocol -/
def LK.terminates : LK → Bool
  | .tcp _ => false
  | .udp _ => false
  | _ => true

/-- a layer that makes the connection visible to addons (flows and hooks) -/
def LK.intercepts : LK → Bool
  | .tcp ig => !ig
  | .udp ig => !ig
  | _ => true

/-! ## the connection from the NextLayer on: buffering, decision, replay, relay -/

inductive Ev
  | dataC (d : Bytes)        -- DataReceived(client, d)
  | dataS (d : Bytes)        -- DataReceived(server, d)
  | closeC                   -- ConnectionClosed(client)
  | closeS                   -- ConnectionClosed(server)
  | connOk                   -- OpenConnectionCompleted(err = None)
  | connErr                  -- OpenConnectionCompleted(err)
  deriving Repr, DecidableEq

inductive Out
  | openServer
  | send (toServer : Bool) (d : Bytes)
  | close (server half : Bool)
  | hook (name : Nat)          -- 0 start, 1 message, 2 end, 3 error
  deriving Repr, DecidableEq

inductive Phase
  | undecided                 -- NextLayer still buffering
  | aborted                   -- client closed before a decision: CloseConnection(client)
  | intercepted               -- a non-relay stack was instantiated (outside this model)
  | connecting                -- relay layer waits for OpenConnection; events pile up in its pause queue
  | relay
  | done                      -- relay layer finished after the connections closed
  | failed                    -- OpenConnection failed: client closed, nothing relayed
  deriving Repr, DecidableEq

/-- `ConnectionState` as the server loop maintains it -/
structure Conn where
  canRead : Bool
  canWrite : Bool
  deriving Repr, DecidableEq

structure Sess where
  phase : Phase
  queue : List Ev              -- NextLayer.events (undecided) resp. _paused_event_queue (connecting), oldest first
  dc : Bytes                   -- data_client()
  ds : Bytes                   -- data_server()
  client : Conn
  server : Conn
  connected : Bool             -- server.timestamp_start is not None
  stack : List LK              -- what was instantiated at the decision
  tcp : Bool
  flow : Bool                  -- relay layer created with ignore = False (show_ignored_hosts)
  out : List Out
  deriving Repr, DecidableEq

def Sess.init (tcp connected : Bool) : Sess :=
  { phase := .undecided, queue := [], dc := [], ds := [], client := ⟨true, true⟩,
    server := ⟨connected, connected⟩, connected := connected, stack := [], tcp := tcp, flow := false, out := [] }

def Sess.emit (s : Sess) (o : List Out) : Sess := { s with out := s.out ++ o }

def Conn.closed (c : Conn) : Bool := !c.canRead && !c.canWrite

/-- what the server loop does to the connection state when it executes a close command -/
def applyClose (c : Conn) (half : Bool) : Conn :=
  if half then { c with canWrite := false } else ⟨false, false⟩

/-- `relay_messages` of TCPLayer / UDPLayer on one event (connection state already updated by the server loop) -/
def relayEv (s : Sess) : Ev → Sess
  | .dataC d => s.emit ((if s.flow then [Out.hook 1] else []) ++ [.send true d])
  | .dataS d => s.emit ((if s.flow then [Out.hook 1] else []) ++ [.send false d])
  | .closeC =>
    if s.tcp then
      if !s.client.canRead && !s.server.canRead then
        let o1 := if s.server.closed then [] else [Out.close true false]
        let o2 := if s.client.closed then [] else [Out.close false false]
        { (s.emit (o1 ++ o2 ++ (if s.flow then [Out.hook 2] else []))) with
            phase := .done, server := ⟨false, false⟩, client := ⟨false, false⟩ }
      else
        { (s.emit (if s.server.canWrite then [Out.close true true] else [])) with server := applyClose s.server true }
    else
      { (s.emit ([Out.close true false] ++ (if s.flow then [Out.hook 2] else []))) with
          phase := .done, server := ⟨false, false⟩ }
  | .closeS =>
    if s.tcp then
      if !s.client.canRead && !s.server.canRead then
        let o1 := if s.server.closed then [] else [Out.close true false]
        let o2 := if s.client.closed then [] else [Out.close false false]
        { (s.emit (o1 ++ o2 ++ (if s.flow then [Out.hook 2] else []))) with
            phase := .done, server := ⟨false, false⟩, client := ⟨false, false⟩ }
      else
        { (s.emit (if s.client.canWrite then [Out.close false true] else [])) with client := applyClose s.client true }
    else
      { (s.emit ([Out.close false false] ++ (if s.flow then [Out.hook 2] else []))) with
          phase := .done, client := ⟨false, false⟩ }
  | _ => s

/-- events handed to the relay layer one after the other; once it is done it swallows everything -/
def relayAll : Sess → List Ev → Sess
  | s, [] => s
  | s, e :: es => if s.phase = .relay then relayAll (relayEv s e) es else s

/-- `start` of the relay layer followed by the replay of what was buffered -/
def startRelay (s : Sess) (buffered : List Ev) : Sess :=
  let s := s.emit (if s.flow then [Out.hook 0] else [])
  if s.connected then relayAll { s with phase := .relay, queue := [] } buffered
  else { (s.emit [.openServer]) with phase := .connecting, queue := buffered }

/-- the environment's part of an event: connection state as `server.py` keeps it -/
def noteEv (s : Sess) : Ev → Sess
  | .closeC => { s with client := if s.tcp then { s.client with canRead := false } else ⟨false, false⟩ }
  | .closeS => { s with server := if s.tcp then { s.server with canRead := false } else ⟨false, false⟩ }
  | _ => s

/-- `NextLayer._ask`: the next_layer hook with everything buffered so far; on a decision the child is started and the
    buffered events are replayed -/
def askNL {Pat : Type} (E : Env Pat) (c : NCfg Pat) (s : Sess) : Sess :=
  match nextLayer E c s.dc s.ds with
  | .needMore => s
  | .ok st =>
    match st with
    | [LK.tcp ig] => startRelay { s with stack := st, flow := !ig } s.queue
    | [LK.udp ig] => startRelay { s with stack := st, flow := !ig } s.queue
    | _ => { s with phase := .intercepted, stack := st }

/-- one event delivered to the NextLayer (and whatever it has become) -/
def step {Pat : Type} (E : Env Pat) (c : NCfg Pat) (s0 : Sess) (e : Ev) : Sess :=
  let s := noteEv s0 e
  match s.phase with
  | .undecided =>
    match e with
    | .dataC d => askNL E c { s with queue := s.queue ++ [e], dc := s.dc ++ d }
    | .dataS d => askNL E c { s with queue := s.queue ++ [e], ds := s.ds ++ d }
    | .closeC => { (s.emit [.close false false]) with phase := .aborted, client := ⟨false, false⟩ }
    | .closeS => { s with queue := s.queue ++ [e] }
    | _ => s
  | .connecting =>
    match e with
    | .connOk => relayAll { s with phase := .relay, queue := [], server := ⟨true, true⟩, connected := true } s.queue
    | .connErr =>
      -- (a CloseConnection for a client that is already gone — UDP after its close — is dropped by the server loop)
      { (s.emit ((if s.flow then [Out.hook 3] else []) ++ (if s.client.closed then [] else [.close false false]))) with
          phase := .failed, client := ⟨false, false⟩ }
    | _ => { s with queue := s.queue ++ [e] }
  | .relay => relayEv s e
  | _ => s

def run {Pat : Type} (E : Env Pat) (c : NCfg Pat) (s : Sess) (evs : List Ev) : Sess := evs.foldl (step E c) s

/-! observables -/

def sentTo (toServer : Bool) : List Out → Bytes
  | [] => []
  | .send t d :: r => if t = toServer then d ++ sentTo toServer r else sentTo toServer r
  | _ :: r => sentTo toServer r

def recvFrom (fromClient : Bool) : List Ev → Bytes
  | [] => []
  | .dataC d :: r => if fromClient then d ++ recvFrom fromClient r else recvFrom fromClient r
  | .dataS d :: r => if fromClient then recvFrom fromClient r else d ++ recvFrom fromClient r
  | _ :: r => recvFrom fromClient r

def hooks : List Out → List Nat
  | [] => []
  | .hook n :: r => n :: hooks r
  | _ :: r => hooks r

/-! ## the addon across connections: the options are the only state -/

/-- what `NextLayer.configure` keeps between connections -/
structure Addon (Pat : Type) where
  ignorePats : List Pat
  allowPats : List Pat

inductive HStep (Pat : Type) where
  /-- an options update touching ignore_hosts and/or allow_hosts (`none` = key not in `updated`) -/
  | setOpts (ignore allow : Option (List Pat))
  /-- a next_layer decision for some connection; the pattern fields of `c` are supplied by the addon state -/
  | conn (c : NCfg Pat) (dc ds : Bytes)

def Addon.cfg {Pat : Type} (a : Addon Pat) (c : NCfg Pat) : NCfg Pat :=
  { c with ignorePats := a.ignorePats, allowPats := a.allowPats }

/-- one step of a history on ONE addon instance: new state, and the decision if the step is a connection -/
def hstep {Pat : Type} (E : Env Pat) (a : Addon Pat) : HStep Pat → Addon Pat × Option (Res Bool × Res (List LK))
  | .setOpts ig al => ({ ignorePats := ig.getD a.ignorePats, allowPats := al.getD a.allowPats }, none)
  | .conn c dc ds => (a, some (ignoreConnection E (a.cfg c).toCfg dc ds, nextLayer E (a.cfg c) dc ds))

def hrun {Pat : Type} (E : Env Pat) : Addon Pat → List (HStep Pat) → Addon Pat × List (Res Bool × Res (List LK))
  | a, [] => (a, [])
  | a, st :: rest =>
    let (a1, o) := hstep E a st
    let (a2, os) := hrun E a1 rest
    (a2, (match o with | some x => [x] | none => []) ++ os)

/-- the options in force after a history of updates -/
def optionsAfter {Pat : Type} (a : Addon Pat) : List (HStep Pat) → Addon Pat
  | [] => a
  | .setOpts ig al :: rest => optionsAfter { ignorePats := ig.getD a.ignorePats, allowPats := al.getD a.allowPats } rest
  | .conn _ _ _ :: rest => optionsAfter a rest

/-! ## `ClientTLSLayer` with `tls_clienthello` answering `ignore_connection = True` -/

structure TlsSess where
  parsed : Bool                -- client_hello_parsed / handshake phase over
  failed : Bool                -- "Cannot parse ClientHello"
  buf : Bytes                  -- recv_buffer
  toServer : List Bytes        -- what the TCPLayer(ignore=True) child relays upstream
  deriving Repr, DecidableEq

def TlsSess.init : TlsSess := ⟨false, false, [], []⟩

/-- client data arriving at a ClientTLSLayer whose `tls_clienthello` hook sets `ignore_connection` -/
def tlsStep (dtls : Bool) (s : TlsSess) (d : Bytes) : TlsSess :=
  if s.failed then s
  else if s.parsed then { s with toServer := s.toServer ++ [d] }
  else
    match C13.parse dtls (s.buf ++ d) with
    | .incomplete => { s with buf := s.buf ++ d }
    | .invalid => { s with failed := true, buf := s.buf ++ d }
    | .ok _ => { s with parsed := true, buf := [], toServer := [s.buf ++ d] }

end MitmVerif.C19
